import Model.ZoneFile
import Proofs.ZoneFileFileG
import Proofs.ZoneFileWriterG
import Proofs.ZoneFileOwnerText
/-!
Write-then-read for every lossless style: the text `zoneTextSpec` is a file of directive lines and record lines
(`GLine`s) that meet the reader's side conditions, so it loads back to the zone.
-/
namespace Model

/-! ## justification is padding with blanks -/

def padL (x : List Nat) (j : Int) : List Nat := if j > 0 then List.replicate (j.natAbs - x.length) 32 else []
def padR (x : List Nat) (j : Int) : List Nat := if j < 0 then List.replicate (j.natAbs - x.length) 32 else []

theorem justify_pad (x : List Nat) (j : Int) : justify x j = padL x j ++ (x ++ padR x j) := by
  unfold justify padL padR
  by_cases h0 : j = 0
  · subst h0; simp
  · by_cases hn : j < 0
    · have : ¬ j > 0 := by omega
      simp [h0, hn, this]
    · have : j > 0 := by omega
      simp [h0, hn, this]

theorem padL_blank (x : List Nat) (j : Int) : Blank (padL x j) := by
  unfold padL; split
  · exact blank_replicate _
  · exact blank_nil

theorem padR_blank (x : List Nat) (j : Int) : Blank (padR x j) := by
  unfold padR; split
  · exact blank_replicate _
  · exact blank_nil

theorem padL_nonpos (x : List Nat) (j : Int) (h : j ≤ 0) : padL x j = [] := by
  unfold padL
  have : ¬ j > 0 := by omega
  simp [this]

/-! ## lossless styles -/

/-- the styles of the round-trip claim: TTLs are printed (or are the `$TTL` default), the first owner of a node is
printed, and the owner column is not right-justified -/
structure Lossless (st : Style) : Prop where
  omitTTL : st.omitTTL = false
  fnd : st.firstNameIsDuplicate = false
  nameJust : st.nameJust ≤ 0
  dttl : ∀ v, st.defaultTTL = some v → v ≤ Consts.maxTTL

/-- the comment a record carries in the written text -/
def keptComment (st : Style) (rr : RR) : Option (List Nat) :=
  if st.wantComments then (match rr.comment with | some c => if c = [] then none else some c | none => none) else none

/-- the zone with the comments the text carries (the library's zone equality ignores comments) -/
def keptZone (st : Style) (z : ZoneMap) : ZoneMap :=
  z.map fun p => (p.1, p.2.map fun rds => { rds with rrs := rds.rrs.map fun rr => { rr with comment := keptComment st rr } })

/-! ## the record line of the writer as a `GLine` -/

def ttlOmitted (st : Style) (ttl : Nat) : Bool := decide (st.defaultTTL = some ttl)

/-- blanks between the end of the class field and the type token -/
def gapCY (st : Style) (ty : Nat) : List Nat := padR (classBody st) st.classJust ++ padL (typeTok st ty) st.typeJust
/-- blanks between the end of the TTL field and the class token -/
def gapTC (st : Style) (ttl : Nat) : List Nat := padR (ttlBody st ttl) st.ttlJust ++ padL (classBody st) st.classJust

def mkG (st : Style) (dup : Bool) (ow : List Nat) (n m : Name) (ttl ty : Nat) (rr : RR) (rtext : List Nat) : GLine :=
  let lead : List Nat := if dup then dupField st else 32 :: padR (ow ++ [32]) st.nameJust
  let pre := lead ++ padL (ttlBody st ttl) st.ttlJust
  let hdrAndB0 : List Nat × Hdr :=
    if ttlOmitted st ttl then
      if st.omitClass then (pre ++ (gapTC st ttl ++ gapCY st ty), Hdr.y (typeTok st ty))
      else (pre ++ gapTC st ttl, Hdr.c (classTok st) (32 :: gapCY st ty) (typeTok st ty))
    else
      if st.omitClass then (pre, Hdr.t (natToDec ttl) (32 :: (gapTC st ttl ++ gapCY st ty)) (typeTok st ty))
      else (pre, Hdr.tc (natToDec ttl) (32 :: gapTC st ttl) (classTok st) (32 :: gapCY st ty) (typeTok st ty))
  { owner := if dup then none else some ow
    b0 := hdrAndB0.1
    hdr := hdrAndB0.2
    rdText := padR (typeTok st ty) st.typeJust ++ (32 :: (rtext ++ (extraOf st rr ++ [10])))
    n := n, m := m, ttl := ttl, ty := ty, rd := rr.rd, comment := keptComment st rr }

theorem ttlBody_cases (st : Style) (ttl : Nat) (h : st.omitTTL = false) :
    ttlBody st ttl = if ttlOmitted st ttl then [] else natToDec ttl ++ [32] := by
  unfold ttlBody ttlOmitted
  by_cases hd : st.defaultTTL = some ttl <;> simp [h, hd]

/-- the writer's line is the text of its `GLine` -/
theorem mkG_text (st : Style) (hl : Lossless st) (dup : Bool) (ow : List Nat) (n m : Name) (ttl ty : Nat) (rr : RR)
    (rtext : List Nat) :
    lineW st (if dup then dupField st else nameFieldE st ow) ttl ty rtext (extraOf st rr) ++ [10] =
      (mkG st dup ow n m ttl ty rr rtext).text := by
  have hname : nameFieldE st ow = ow ++ (32 :: padR (ow ++ [32]) st.nameJust) := by
    unfold nameFieldE
    rw [justify_pad, padL_nonpos _ _ hl.nameJust]
    simp
  have htb := ttlBody_cases st ttl hl.omitTTL
  unfold lineW ttlField classField typeField GLine.text mkG
  simp only [justify_pad, gapTC, gapCY, Hdr.text]
  cases dup <;> cases hto : ttlOmitted st ttl <;> cases hoc : st.omitClass <;>
    simp [hname, htb, hto, hoc, classBody, Hdr.first, Hdr.rest, List.append_assoc]

/-! ## the side conditions of the writer's lines -/

theorem classTok_ok (st : Style) :
    TokOK (classTok st) ∧ classFromText (classTok st) = some 1 ∧ ttlOf (classTok st) = none := by
  unfold classTok
  cases st.wantGeneric
  · exact ⟨⟨by decide, by decide⟩, by decide, by decide⟩
  · exact ⟨⟨by decide, by decide⟩, by decide, by decide⟩

/-- what is asked of the type token the style prints (mnemonic, or `TYPEn` in generic syntax) -/
structure TypeTokOK (st : Style) (ty : Nat) : Prop where
  tok : TokOK (typeTok st ty)
  val : typeFromText (typeTok st ty) = some ty
  nottl : ttlOf (typeTok st ty) = none
  noclass : classFromText (typeTok st ty) = none

/-- what is asked of one record for the line the style prints for it to be readable -/
structure RecOK (st : Style) (zo : Name) (rel gfix : Bool) (ow : List Nat) (n m : Name) (ttl ty : Nat) (rr : RR)
    (rtext : List Nat) : Prop where
  ow_ok : identOK ow = true
  ow_ne : ow ≠ []
  ow_nodollar : ow.head? ≠ some 36
  ow_name : (identToken ow).asName (some zo) false none = .ok n
  in_zone : isSubdomain n zo = true
  stored : ownerInZone rel n zo = .ok m
  ttl_le : ttl ≤ Consts.maxTTL
  type : TypeTokOK st ty
  rdata : RdataReads ty (padR (typeTok st ty) st.typeJust ++ (32 :: (rtext ++ (extraOf st rr ++ [10])))) rr.rd
    (keptComment st rr) (some zo) rel (some zo) gfix

theorem dupField_sep (st : Style) : SepOK (dupField st) := by
  unfold dupField
  rw [justify_pad]
  refine ⟨blank_append (padL_blank _ _) (blank_append (by intro c hc; simp [s2l] at hc; exact hc) (padR_blank _ _)), ?_⟩
  simp [s2l]

theorem natToDec_tok (n : Nat) : TokOK (natToDec n) := ⟨(natToDec_token n).1, (natToDec_token n).2⟩

theorem mkG_good (st : Style) (hl : Lossless st) (zo : Name) (rel gfix : Bool) (dup : Bool) (ow : List Nat) (n m : Name)
    (ttl ty : Nat) (rr : RR) (rtext : List Nat) (h : RecOK st zo rel gfix ow n m ttl ty rr rtext) :
    (mkG st dup ow n m ttl ty rr rtext).Good zo zo rel gfix := by
  obtain ⟨ck, cv, cn⟩ := classTok_ok st
  have hlead : SepOK (if dup then dupField st else 32 :: padR (ow ++ [32]) st.nameJust) := by
    cases dup
    · exact ⟨blank_cons (padR_blank _ _), by simp⟩
    · exact dupField_sep st
  have hpre : SepOK ((if dup then dupField st else 32 :: padR (ow ++ [32]) st.nameJust) ++ padL (ttlBody st ttl) st.ttlJust) :=
    ⟨blank_append hlead.blank (padL_blank _ _), by
      intro e; exact hlead.ne (List.append_eq_nil_iff.mp e).1⟩
  have hTC : Blank (gapTC st ttl) := blank_append (padR_blank _ _) (padL_blank _ _)
  have hCY : Blank (gapCY st ty) := blank_append (padR_blank _ _) (padL_blank _ _)
  have sep1 : ∀ b, Blank b → SepOK (32 :: b) := fun b hb => ⟨blank_cons hb, by simp⟩
  have happ : ∀ a b, SepOK a → Blank b → SepOK (a ++ b) := fun a b ha hb =>
    ⟨blank_append ha.blank hb, by intro e; exact ha.ne (List.append_eq_nil_iff.mp e).1⟩
  refine ⟨?_, ?_, h.in_zone, h.stored, ?_, h.rdata⟩
  · -- b0
    unfold mkG
    simp only
    cases ttlOmitted st ttl <;> cases st.omitClass <;> simp only [Bool.false_eq_true, if_false, if_true]
    · exact hpre
    · exact hpre
    · exact happ _ _ hpre hTC
    · exact happ _ _ hpre (blank_append hTC hCY)
  · -- owner
    intro ow' hown
    unfold mkG at hown
    simp only at hown
    cases dup
    · simp only [Bool.false_eq_true, if_false, Option.some.injEq] at hown
      subst hown
      exact ⟨h.ow_ok, h.ow_ne, h.ow_nodollar, h.ow_name⟩
    · simp at hown
  · -- header
    unfold mkG
    simp only
    cases hto : ttlOmitted st ttl <;> cases hoc : st.omitClass <;> simp only [Bool.false_eq_true, if_false, if_true, Hdr.OK]
    · exact ⟨natToDec_tok ttl, sep1 _ hTC, ck, sep1 _ hCY, h.type.tok, ttlOf_natToDec ttl h.ttl_le, cv, h.type.val⟩
    · exact ⟨natToDec_tok ttl, sep1 _ (blank_append hTC hCY), h.type.tok, ttlOf_natToDec ttl h.ttl_le, h.type.noclass, h.type.val⟩
    · exact ⟨ck, sep1 _ hCY, h.type.tok, cv, cn, h.type.nottl, h.type.val⟩
    · exact ⟨h.type.tok, h.type.nottl, h.type.noclass, h.type.val⟩

theorem mkG_fields (st : Style) (dup : Bool) (ow : List Nat) (n m : Name) (ttl ty : Nat) (rr : RR) (rtext : List Nat) :
    (mkG st dup ow n m ttl ty rr rtext).n = n ∧
    ((mkG st dup ow n m ttl ty rr rtext).owner = none ↔ dup = true) ∧
    ((mkG st dup ow n m ttl ty rr rtext).hdr.hasTTL = false ↔ ttlOmitted st ttl = true) ∧
    (mkG st dup ow n m ttl ty rr rtext).entry = ⟨m, ttl, ty, ⟨rr.rd, keptComment st rr⟩⟩ ∧
    (mkG st dup ow n m ttl ty rr rtext).ttl = ttl := by
  refine ⟨rfl, ?_, ?_, rfl, rfl⟩
  · unfold mkG; cases dup <;> simp
  · unfold mkG
    cases ttlOmitted st ttl <;> cases st.omitClass <;> simp [Hdr.hasTTL]

/-! ## the record lines of a zone -/

def rrsG (st : Style) (ow : List Nat) (n m : Name) (ttl ty : Nat) (rtextOf : RR → List Nat) : Bool → List RR → List GLine
  | _, [] => []
  | d, rr :: rest => mkG st d ow n m ttl ty rr (rtextOf rr) :: rrsG st ow n m ttl ty rtextOf (d || st.dedup) rest

def nodeG (st : Style) (ow : List Nat) (n m : Name) (rtextOf : RR → List Nat) : Bool → Node → List GLine
  | _, [] => []
  | f, rds :: rest =>
    rrsG st ow n m rds.ttl rds.rdtype rtextOf (st.dedup && f) rds.rrs ++ nodeG st ow n m rtextOf (f || st.dedup) rest

def zoneG (st : Style) (owOf : Name → List Nat) (absOf : Name → Name) (rtextOf : RR → List Nat) (w : ZoneMap) : List GLine :=
  w.flatMap fun p => nodeG st (owOf p.1) (absOf p.1) p.1 rtextOf st.firstNameIsDuplicate p.2

theorem glinesText_append (a b : List GLine) : glinesText (a ++ b) = glinesText a ++ glinesText b := by
  induction a with
  | nil => rfl
  | cons l r ih => simp [glinesText, ih, List.append_assoc]

theorem rrsG_text (st : Style) (hl : Lossless st) (ow : List Nat) (n m : Name) (ttl ty : Nat) (rtextOf : RR → List Nat)
    (d : Bool) (rrs : List RR) :
    joinLines (rrsLinesSpec st ow ttl ty rtextOf d rrs) = glinesText (rrsG st ow n m ttl ty rtextOf d rrs) := by
  induction rrs generalizing d with
  | nil => rfl
  | cons rr rest ih =>
    simp only [rrsLinesSpec, joinLines, rrsG, glinesText, ← mkG_text st hl d ow n m ttl ty rr (rtextOf rr), ih]
    simp [List.append_assoc]

theorem nodeG_text (st : Style) (hl : Lossless st) (ow : List Nat) (n m : Name) (rtextOf : RR → List Nat) (f : Bool)
    (nd : Node) :
    joinLines (nodeLinesSpec st ow rtextOf f nd) = glinesText (nodeG st ow n m rtextOf f nd) := by
  induction nd generalizing f with
  | nil => rfl
  | cons rds rest ih =>
    simp only [nodeLinesSpec, nodeG, joinLines_append, glinesText_append, rrsG_text st hl ow n m, ih]

theorem zoneG_text (st : Style) (hl : Lossless st) (owOf : Name → List Nat) (absOf : Name → Name)
    (rtextOf : RR → List Nat) (w : ZoneMap) :
    (w.flatMap fun p => joinLines (nodeLinesSpec st (owOf p.1) rtextOf st.firstNameIsDuplicate p.2)) =
      glinesText (zoneG st owOf absOf rtextOf w) := by
  induction w with
  | nil => rfl
  | cons p rest ih =>
    simp only [zoneG, List.flatMap_cons, glinesText_append] at ih ⊢
    rw [ih, nodeG_text st hl (owOf p.1) (absOf p.1) p.1]

/-! ## the chain conditions -/

theorem linesOK_rrs (st : Style) (hl : Lossless st) (zo : Name) (rel gfix : Bool) (ow : List Nat) (n m : Name)
    (ttl ty : Nat) (rtextOf : RR → List Nat) (d : Bool) (rr : RR) (rrs : List RR) (ln : Option Name) (tail : List GLine)
    (hrec : ∀ x ∈ rr :: rrs, RecOK st zo rel gfix ow n m ttl ty x (rtextOf x))
    (hd : d = true → ln = some n)
    (htail : LinesOK zo zo rel gfix (some n) st.defaultTTL tail) :
    LinesOK zo zo rel gfix ln st.defaultTTL (rrsG st ow n m ttl ty rtextOf d (rr :: rrs) ++ tail) := by
  induction rrs generalizing d rr ln with
  | nil =>
    obtain ⟨f1, f2, f3, _, f5⟩ := mkG_fields st d ow n m ttl ty rr (rtextOf rr)
    simp only [rrsG, List.cons_append, List.nil_append, LinesOK]
    refine ⟨mkG_good st hl zo rel gfix d ow n m ttl ty rr (rtextOf rr) (hrec rr (by simp)), ?_, ?_, ?_⟩
    · intro ho; rw [f1]; exact hd (f2.mp ho)
    · intro hh; rw [f5]; simpa [ttlOmitted] using f3.mp hh
    · rw [f1]; exact htail
  | cons rr2 rest ih =>
    obtain ⟨f1, f2, f3, _, f5⟩ := mkG_fields st d ow n m ttl ty rr (rtextOf rr)
    have := ih (d || st.dedup) rr2 (some n) (fun x hx => hrec x (by simp [hx])) (fun _ => rfl)
    simp only [rrsG, List.cons_append, LinesOK] at this ⊢
    refine ⟨mkG_good st hl zo rel gfix d ow n m ttl ty rr (rtextOf rr) (hrec rr (by simp)), ?_, ?_, ?_⟩
    · intro ho; rw [f1]; exact hd (f2.mp ho)
    · intro hh; rw [f5]; simpa [ttlOmitted] using f3.mp hh
    · rw [f1]; exact this

theorem linesOK_node (st : Style) (hl : Lossless st) (zo : Name) (rel gfix : Bool) (ow : List Nat) (n m : Name)
    (rtextOf : RR → List Nat) (f : Bool) (nd : Node) (ln : Option Name) (tail : List GLine)
    (hnd : nd ≠ []) (hne : ∀ rds ∈ nd, rds.rrs ≠ [])
    (hrec : ∀ rds ∈ nd, ∀ x ∈ rds.rrs, RecOK st zo rel gfix ow n m rds.ttl rds.rdtype x (rtextOf x))
    (hd : (st.dedup && f) = true → ln = some n)
    (htail : LinesOK zo zo rel gfix (some n) st.defaultTTL tail) :
    LinesOK zo zo rel gfix ln st.defaultTTL (nodeG st ow n m rtextOf f nd ++ tail) := by
  induction nd generalizing f ln with
  | nil => exact absurd rfl hnd
  | cons rds rest ih =>
    have h1 := hne rds (by simp)
    cases hr : rds.rrs with
    | nil => exact absurd hr h1
    | cons rr rrs =>
      simp only [nodeG, hr, List.append_assoc]
      apply linesOK_rrs st hl zo rel gfix ow n m rds.ttl rds.rdtype rtextOf _ rr rrs ln
      · intro x hx; exact hrec rds (by simp) x (by rw [hr]; exact hx)
      · exact hd
      · cases rest with
        | nil => simpa [nodeG] using htail
        | cons r2 rest2 =>
          exact ih (f || st.dedup) (some n) (by simp) (fun r hr => hne r (by simp [hr]))
            (fun r hr => hrec r (by simp [hr])) (fun _ => rfl)

theorem linesOK_zone (st : Style) (hl : Lossless st) (zo : Name) (rel gfix : Bool) (owOf : Name → List Nat)
    (absOf : Name → Name) (rtextOf : RR → List Nat) (w : ZoneMap) (ln : Option Name)
    (hnd : ∀ p ∈ w, p.2 ≠ []) (hne : ∀ p ∈ w, ∀ rds ∈ p.2, rds.rrs ≠ [])
    (hrec : ∀ p ∈ w, ∀ rds ∈ p.2, ∀ x ∈ rds.rrs,
      RecOK st zo rel gfix (owOf p.1) (absOf p.1) p.1 rds.ttl rds.rdtype x (rtextOf x)) :
    LinesOK zo zo rel gfix ln st.defaultTTL (zoneG st owOf absOf rtextOf w) := by
  induction w generalizing ln with
  | nil => simp [zoneG, LinesOK]
  | cons p rest ih =>
    simp only [zoneG, List.flatMap_cons]
    apply linesOK_node st hl zo rel gfix (owOf p.1) (absOf p.1) p.1 rtextOf st.firstNameIsDuplicate p.2 ln
    · exact hnd p (by simp)
    · exact hne p (by simp)
    · exact hrec p (by simp)
    · intro h; simp [hl.fnd] at h
    · exact ih (some (absOf p.1)) (fun q hq => hnd q (by simp [hq])) (fun q hq => hne q (by simp [hq]))
        (fun q hq => hrec q (by simp [hq]))

/-! ## the records -/

theorem rrsG_entries (st : Style) (ow : List Nat) (n m : Name) (ttl ty : Nat) (rtextOf : RR → List Nat) (d : Bool)
    (rrs : List RR) :
    (rrsG st ow n m ttl ty rtextOf d rrs).map GLine.entry =
      rrs.map fun rr => ⟨m, ttl, ty, ⟨rr.rd, keptComment st rr⟩⟩ := by
  induction rrs generalizing d with
  | nil => rfl
  | cons rr rest ih => simp only [rrsG, List.map_cons, ih]; rfl

theorem nodeG_entries (st : Style) (ow : List Nat) (n m : Name) (rtextOf : RR → List Nat) (f : Bool) (nd : Node) :
    (nodeG st ow n m rtextOf f nd).map GLine.entry =
      entriesOfNode m (nd.map fun rds => { rds with rrs := rds.rrs.map fun rr => { rr with comment := keptComment st rr } }) := by
  induction nd generalizing f with
  | nil => rfl
  | cons rds rest ih =>
    simp only [nodeG, List.map_append, rrsG_entries, ih, entriesOfNode, List.map_cons, List.flatMap_cons,
      entriesOfRdataset, List.map_map]
    rfl

theorem zoneG_entries (st : Style) (owOf : Name → List Nat) (absOf : Name → Name) (rtextOf : RR → List Nat) (w : ZoneMap) :
    (zoneG st owOf absOf rtextOf w).map GLine.entry = entriesOfZone (keptZone st w) := by
  induction w with
  | nil => rfl
  | cons p rest ih =>
    simp only [zoneG, List.flatMap_cons, List.map_append, nodeG_entries] at ih ⊢
    rw [ih]
    simp [entriesOfZone, keptZone]

/-! ## comments do not matter for well-formedness -/

theorem keptZone_mem (st : Style) (w : ZoneMap) (q : Name × Node) (h : q ∈ keptZone st w) :
    ∃ p ∈ w, q = (p.1, p.2.map fun rds => { rds with rrs := rds.rrs.map fun rr => { rr with comment := keptComment st rr } }) := by
  simp only [keptZone, List.mem_map] at h
  obtain ⟨p, hp, rfl⟩ := h
  exact ⟨p, hp, rfl⟩

theorem zoneWF_shape (st : Style) (eff : Option Name) (w : ZoneMap) (h : ZoneWF eff (keptZone st w)) :
    (∀ p ∈ w, p.2 ≠ []) ∧ (∀ p ∈ w, ∀ rds ∈ p.2, rds.rrs ≠ []) := by
  constructor
  · intro p hp hnil
    have hm : (p.1, p.2.map fun rds => { rds with rrs := rds.rrs.map fun rr => { rr with comment := keptComment st rr } }) ∈ keptZone st w := by
      simp only [keptZone, List.mem_map]; exact ⟨p, hp, rfl⟩
    have := (h.1 _ hm).1
    simp [hnil] at this
  · intro p hp rds hr hnil
    have hm : (p.1, p.2.map fun rds => { rds with rrs := rds.rrs.map fun rr => { rr with comment := keptComment st rr } }) ∈ keptZone st w := by
      simp only [keptZone, List.mem_map]; exact ⟨p, hp, rfl⟩
    have hw := (h.1 _ hm).2.1 { rds with rrs := rds.rrs.map fun rr => { rr with comment := keptComment st rr } }
      (by simp only [List.mem_map]; exact ⟨rds, hr, rfl⟩)
    have := hw.1
    simp [hnil] at this

/-! ## reading the file -/

theorem linesOK_b0 (zo : Name) (rel gfix : Bool) (ln : Option Name) (d : Option Nat) (ls : List GLine)
    (h : LinesOK zo zo rel gfix ln d ls) : ∀ l ∈ ls, l.b0 ≠ [] := by
  induction ls generalizing ln with
  | nil => simp
  | cons l rest ih =>
    obtain ⟨h1, _, _, h4⟩ := h
    intro x hx
    rcases List.mem_cons.mp hx with rfl | hx
    · exact h1.b0.ne
    · exact ih _ h4 x hx

theorem readLoop_nothing (f : Nat) (r r' : PState) (z : ZoneMap) (h : lineStep r = .ok (.nothing, r')) :
    readLoop (f + 1) r z = readLoop f r' z := by
  simp [readLoop, readStep, bind, Except.bind, h, pure, Except.pure]

/-- reading a file of record lines from a state that knows the origin -/
theorem readLoop_lines (ls : List GLine) (r : PState) (zo : Name) (fuel : Nat) (hf : ls.length < fuel)
    (hco : r.currentOrigin = some zo) (hzo : r.zoneOrigin = some zo)
    (htok : r.tok = after 0 false (glinesText ls)) (hsv : r.saved = []) (d : Option Nat)
    (hd : ∀ d', d = some d' → r.defaultTTLKnown = true ∧ r.defaultTTL = d')
    (hok : LinesOK zo zo r.relativize r.gfix r.lastName d ls) (z' : ZoneMap)
    (hadd : addAll r.effOrigin [] (ls.map GLine.entry) = .ok z') :
    ∃ rf, readLoop fuel r [] = .ok (rf, z') ∧ rf.zoneOrigin = some zo := by
  refine ⟨finalStateG ls r, ?_, ?_⟩
  · rw [readLoop_eq_interp, parseTrace_G ls r zo zo fuel hf hco hzo htok hsv d hd hok, interp_traceOfG, hadd]
    rfl
  · rw [finalStateG_zoneOrigin, hzo]

theorem zoneFromText_of_read (text : List Nat) (origin? : Option Name) (rel gfix : Bool) (rf : PState) (zk : ZoneMap)
    (zo : Name) (h : readLoop (text.length + 2) (PState.init text origin? rel gfix) [] = .ok (rf, zk))
    (hz : rf.zoneOrigin = some zo) (ho : origin? = some zo ∨ zk ≠ []) :
    zoneFromText text origin? rel false gfix = .ok (zk, some zo) := by
  rw [zoneFromText_def]
  simp only [bind, Except.bind, h, Bool.false_eq_true, if_false, pure, Except.pure]
  rcases ho with ho | ho
  · subst ho; simp [hz]
  · cases zk with
    | nil => exact absurd rfl ho
    | cons a b => simp [hz]

theorem keptZone_ne (st : Style) (w : ZoneMap) (h : w ≠ []) : keptZone st w ≠ [] := by
  cases w with
  | nil => exact absurd rfl h
  | cons a b => simp [keptZone]

/-- … and so does the token through `as_name` (no relativization), e.g. the argument of `$ORIGIN` -/
theorem asName_abs_origin (t : List Nat) (n : Name) (co : Option Name) (h : fromText t none = .ok n)
    (habs : isAbs n = true) : (identToken t).asName co false none = .ok n := by
  cases co with
  | none => simp [Token.asName, identToken, Token.isIdentifier, h, chooseRelativity]
  | some o =>
    simp [Token.asName, identToken, Token.isIdentifier, fromText_abs_origin t n o h habs, chooseRelativity, derelativize, habs]

/-- **write then read, every lossless style** -/
theorem read_write_lossless_core (st' : Style) (w : ZoneMap) (zo : Name) (rel gfix : Bool) (origin? : Option Name)
    (owOf : Name → List Nat) (absOf : Name → Name) (rtextOf : RR → List Nat)
    (hl : Lossless st')
    (horig : origin? = some zo ∨ (origin? = none ∧ st'.wantOrigin = true ∧ w ≠ []))
    (hotext : st'.wantOrigin = true → identOK (toText zo) = true ∧ toText zo ≠ [] ∧ fromText (toText zo) none = .ok zo)
    (hzabs : isAbs zo = true)
    (hwf : ZoneWF (if rel then some [] else some zo) (keptZone st' w))
    (hrec : ∀ p ∈ w, ∀ rds ∈ p.2, ∀ x ∈ rds.rrs,
      RecOK st' zo rel gfix (owOf p.1) (absOf p.1) p.1 rds.ttl rds.rdtype x (rtextOf x)) :
    zoneFromText (zoneTextSpec st' zo w owOf rtextOf) origin? rel false gfix = .ok (keptZone st' w, some zo) := by
  obtain ⟨hnd, hne⟩ := zoneWF_shape st' _ w hwf
  have htxt : zoneTextSpec st' zo w owOf rtextOf =
      (headerLines st' zo).flatMap (· ++ [10]) ++ glinesText (zoneG st' owOf absOf rtextOf w) := by
    unfold zoneTextSpec; rw [zoneG_text st' hl owOf absOf rtextOf w]
  have hok : ∀ ln, LinesOK zo zo rel gfix ln st'.defaultTTL (zoneG st' owOf absOf rtextOf w) :=
    fun ln => linesOK_zone st' hl zo rel gfix owOf absOf rtextOf w ln hnd hne hrec
  have hadd : addAll (if rel then some [] else some zo) [] ((zoneG st' owOf absOf rtextOf w).map GLine.entry) =
      .ok (keptZone st' w) := by
    rw [zoneG_entries]; exact addAll_rebuild _ _ hwf
  have hlen := glinesText_length (zoneG st' owOf absOf rtextOf w) (linesOK_b0 zo rel gfix none _ _ (hok none))
  have hres : origin? = some zo ∨ keptZone st' w ≠ [] := by
    rcases horig with h | ⟨_, _, h⟩
    · exact Or.inl h
    · exact Or.inr (keptZone_ne st' w h)
  generalize hls : zoneG st' owOf absOf rtextOf w = ls at *
  have heff : ∀ (r : PState), r.relativize = rel → r.zoneOrigin = some zo →
      r.effOrigin = (if rel then some [] else some zo) := by
    intro r h1 h2; cases rel <;> simp [PState.effOrigin, h1, h2]
  rw [htxt]
  cases hwo : st'.wantOrigin with
  | false =>
    have horg : origin? = some zo := by
      rcases horig with h | ⟨_, h, _⟩
      · exact h
      · rw [hwo] at h; cases h
    subst horg
    cases hdt : st'.defaultTTL with
    | none =>
      have hh : (headerLines st' zo).flatMap (· ++ [10]) = [] := by simp [headerLines, hwo, hdt]
      rw [hh, List.nil_append]
      obtain ⟨rf, h1, h2⟩ := readLoop_lines ls (PState.init (glinesText ls) (some zo) rel gfix) zo
        ((glinesText ls).length + 2) (by omega) rfl rfl rfl rfl none (by intro d' h; cases h)
        (by rw [← hdt]; exact hok _) (keptZone st' w) (by rw [heff _ rfl rfl]; exact hadd)
      exact zoneFromText_of_read _ _ rel gfix rf _ zo h1 h2 hres
    | some v =>
      have hh : (headerLines st' zo).flatMap (· ++ [10]) = s2l "$TTL " ++ (natToDec v ++ [10]) := by
        simp [headerLines, hwo, hdt, ttlLine]
      rw [hh]
      have hstep := lineStep_ttl_dir (PState.init (s2l "$TTL " ++ (natToDec v ++ [10]) ++ glinesText ls) (some zo) rel gfix)
        v (glinesText ls) (hl.dttl v hdt) (by simp [PState.init, TState.init, after, List.append_assoc])
      obtain ⟨rf, h1, h2⟩ := readLoop_lines ls
        { PState.init (s2l "$TTL " ++ (natToDec v ++ [10]) ++ glinesText ls) (some zo) rel gfix with
          tok := after 0 false (glinesText ls), defaultTTL := v, defaultTTLKnown := true } zo
        ((s2l "$TTL " ++ (natToDec v ++ [10]) ++ glinesText ls).length + 1)
        (by simp only [List.length_append]; omega) rfl rfl rfl rfl (some v)
        (by intro d' h; cases h; exact ⟨rfl, rfl⟩)
        (by rw [← hdt]; exact hok _) (keptZone st' w) (by rw [heff _ rfl rfl]; exact hadd)
      apply zoneFromText_of_read _ _ rel gfix rf _ zo _ h2 hres
      rw [readLoop_nothing _ _ _ _ hstep]
      exact h1
  | true =>
    obtain ⟨o1, o2, o3⟩ := hotext hwo
    have hzo' : originAfter origin? zo = some zo := by
      rcases horig with h | ⟨h, _, _⟩ <;> subst h <;> rfl
    cases hdt : st'.defaultTTL with
    | none =>
      have hh : (headerLines st' zo).flatMap (· ++ [10]) = s2l "$ORIGIN " ++ (toText zo ++ [10]) := by
        simp [headerLines, hwo, hdt, originLine]
      rw [hh]
      have hstep := lineStep_origin_dir (PState.init (s2l "$ORIGIN " ++ (toText zo ++ [10]) ++ glinesText ls) origin? rel gfix)
        (toText zo) zo (glinesText ls) o1 o2 (asName_abs_origin _ _ _ o3 hzabs) hzabs (by simp [PState.init, TState.init, after, List.append_assoc])
      obtain ⟨rf, h1, h2⟩ := readLoop_lines ls
        { PState.init (s2l "$ORIGIN " ++ (toText zo ++ [10]) ++ glinesText ls) origin? rel gfix with
          tok := after 0 false (glinesText ls), currentOrigin := some zo, zoneOrigin := originAfter origin? zo } zo
        ((s2l "$ORIGIN " ++ (toText zo ++ [10]) ++ glinesText ls).length + 1)
        (by simp only [List.length_append]; omega) rfl hzo' rfl rfl none (by intro d' h; cases h)
        (by rw [← hdt]; exact hok _) (keptZone st' w) (by rw [heff _ rfl hzo']; exact hadd)
      apply zoneFromText_of_read _ _ rel gfix rf _ zo _ h2 hres
      rw [readLoop_nothing _ _ _ _ hstep]
      exact h1
    | some v =>
      have hh : (headerLines st' zo).flatMap (· ++ [10]) =
          s2l "$ORIGIN " ++ (toText zo ++ [10]) ++ (s2l "$TTL " ++ (natToDec v ++ [10])) := by
        simp [headerLines, hwo, hdt, originLine, ttlLine, List.append_assoc]
      rw [hh]
      have hstep1 := lineStep_origin_dir
        (PState.init (s2l "$ORIGIN " ++ (toText zo ++ [10]) ++ (s2l "$TTL " ++ (natToDec v ++ [10])) ++ glinesText ls) origin? rel gfix)
        (toText zo) zo (s2l "$TTL " ++ (natToDec v ++ [10]) ++ glinesText ls) o1 o2 (asName_abs_origin _ _ _ o3 hzabs) hzabs
        (by simp [PState.init, TState.init, after, List.append_assoc])
      have hstep2 := lineStep_ttl_dir
        { PState.init (s2l "$ORIGIN " ++ (toText zo ++ [10]) ++ (s2l "$TTL " ++ (natToDec v ++ [10])) ++ glinesText ls) origin? rel gfix with
          tok := after 0 false (s2l "$TTL " ++ (natToDec v ++ [10]) ++ glinesText ls), currentOrigin := some zo,
          zoneOrigin := originAfter origin? zo }
        v (glinesText ls) (hl.dttl v hdt) (by simp [List.append_assoc])
      obtain ⟨rf, h1, h2⟩ := readLoop_lines ls
        { PState.init (s2l "$ORIGIN " ++ (toText zo ++ [10]) ++ (s2l "$TTL " ++ (natToDec v ++ [10])) ++ glinesText ls) origin? rel gfix with
          tok := after 0 false (glinesText ls), currentOrigin := some zo, zoneOrigin := originAfter origin? zo,
          defaultTTL := v, defaultTTLKnown := true } zo
        ((s2l "$ORIGIN " ++ (toText zo ++ [10]) ++ (s2l "$TTL " ++ (natToDec v ++ [10])) ++ glinesText ls).length)
        (by simp only [List.length_append, s2l]; simp; omega) rfl hzo' rfl rfl (some v)
        (by intro d' h; cases h; exact ⟨rfl, rfl⟩)
        (by rw [← hdt]; exact hok _) (keptZone st' w) (by rw [heff _ rfl hzo']; exact hadd)
      apply zoneFromText_of_read _ _ rel gfix rf _ zo _ h2 hres
      rw [readLoop_nothing _ _ _ _ hstep1]
      exact (readLoop_nothing _ _ _ _ hstep2).trans h1

end Model

import Proofs.ParseMessage
/-! Parsing back the OPT pseudo-record. -/
namespace Model

variable {Rs : RelSpec}

/-- field ranges of the OPT record (`struct.pack` widths) -/
structure OptOk (o : EOpt) : Prop where
  ttl : o.ttl < 4294967296
  payload : o.payload < 65536
  options : ∀ p ∈ o.options, p.1 < 65536 ∧ p.2.length < 65536
  total : (optionsWire o.options).length < 65536
  notTsigClass : True

theorem parseOptions_wire (opts : List (Nat × Bytes)) : ∀ (A post : Bytes) (fuel : Nat),
    (∀ p ∈ opts, p.1 < 65536 ∧ p.2.length < 65536) → (optionsWire opts).length ≤ fuel →
    parseOptions (A ++ optionsWire opts ++ post) (A.length + (optionsWire opts).length) fuel A.length = .ok opts := by
  induction opts with
  | nil =>
    intro A post fuel _ _
    cases fuel with
    | zero => simp [parseOptions, optionsWire]
    | succ f => simp [parseOptions, optionsWire]
  | cons p rest ih =>
    intro A post fuel hok hfuel
    obtain ⟨t, b⟩ := p
    obtain ⟨ht, hb⟩ := hok (t, b) (by simp)
    have hlen : (optionsWire ((t, b) :: rest)).length = 4 + b.length + (optionsWire rest).length := by
      simp [optionsWire, u16]; omega
    cases fuel with
    | zero => rw [hlen] at hfuel; omega
    | succ f =>
      unfold parseOptions
      have c0 : A.length + (optionsWire ((t, b) :: rest)).length - A.length > 0 := by rw [hlen]; omega
      have c1 : ¬ (A.length + (optionsWire ((t, b) :: rest)).length - A.length < 4) := by rw [hlen]; omega
      simp only [c0, if_true, c1, if_false]
      have hW : A ++ optionsWire ((t, b) :: rest) ++ post
          = A ++ u16 t ++ u16 b.length ++ b ++ optionsWire rest ++ post := by
        simp [optionsWire, List.append_assoc]
      have s1 : slice (A ++ optionsWire ((t, b) :: rest) ++ post) A.length 2 = u16 t :=
        slice_at _ A (u16 t) (u16 b.length ++ b ++ optionsWire rest ++ post) (by rw [hW]; simp [List.append_assoc]) _ _ rfl rfl
      have s2 : slice (A ++ optionsWire ((t, b) :: rest) ++ post) (A.length + 2) 2 = u16 b.length :=
        slice_at _ (A ++ u16 t) (u16 b.length) (b ++ optionsWire rest ++ post) (by rw [hW]; simp [List.append_assoc]) _ _
          (by simp [u16]) rfl
      have s3 : slice (A ++ optionsWire ((t, b) :: rest) ++ post) (A.length + 4) b.length = b :=
        slice_at _ (A ++ u16 t ++ u16 b.length) b (optionsWire rest ++ post) (by rw [hW]; simp [List.append_assoc]) _ _
          (by simp [u16]) rfl
      rw [s1, s2, beVal_u16 t ht, beVal_u16 _ hb]
      have c2 : ¬ (b.length > A.length + (optionsWire ((t, b) :: rest)).length - (A.length + 4)) := by rw [hlen]; omega
      simp only [c2, if_false, s3]
      have hA' : (A ++ u16 t ++ u16 b.length ++ b).length = A.length + 4 + b.length := by simp [u16]; omega
      have := ih (A ++ u16 t ++ u16 b.length ++ b) post f (fun x hx => hok x (by simp [hx])) (by rw [hlen] at hfuel; omega)
      rw [hA'] at this
      have hend : A.length + (optionsWire ((t, b) :: rest)).length = A.length + 4 + b.length + (optionsWire rest).length := by
        rw [hlen]; omega
      rw [hW, hend, this]

/-- the OPT record written at the end of the buffer is parsed into `Message.opt` -/
theorem parseRR_opt (cfg : PCfg) (horg : cfg.origin = none) (upd : Bool) (A post : Bytes) (t : CTable) (o : EOpt)
    (q : Bytes × CTable × Nat) (count i : Nat) (st : PState) (hcur : st.cur = A.length)
    (hs : TableSound Rs.R A t) (ho : OptOk o) (hnone : st.opt = none)
    (h : rrsetExt A.length t none (optRRset o) = .ok q) :
    parseRR cfg upd (A ++ q.1 ++ post) ConstsC03.secADDITIONAL count i st =
        .ok { st with cur := A.length + q.1.length, opt := some o }
      ∧ TableSound Rs.R (A ++ q.1) (t ++ q.2.1) ∧ q.2.2 = 1 := by
  obtain ⟨qe, qn, qk⟩ := q
  have hsnd := rrsetExt_sound A t none (optRRset o) (qe, qn, qk) (optRRset_namesOk none o) hs h
  unfold rrsetExt at h
  have hwc : (optRRset o).wireClass = o.payload := rfl
  simp only [optRRset, List.length_cons, List.length_nil] at h
  simp only [Nat.add_eq_zero_iff, rdsExt, rrExt] at h
  simp only [show ¬ (True ∧ 1 = 0) by simp, if_false] at h
  cases h1 : nameExt A.length t [[]] none with
  | none => rw [h1] at h; simp at h
  | some q1 =>
    rw [h1] at h
    simp only [rdataExt, RRset.wireClass] at h
    have hnb : ¬ (optionsWire o.options).length > 65535 := by have := ho.total; omega
    simp only [hnb, if_false, List.append_nil, Nat.zero_add] at h
    cases h
    refine ⟨?_, by simpa using hsnd, rfl⟩
    obtain ⟨_, hat, hwf⟩ := nameExt_at A t [[]] q1 (rootOk none) hs h1
    have hW1 : A ++ (q1.1 ++ u16 ConstsC03.typeOPT ++ u16 o.payload ++ u32 o.ttl ++ u16 (optionsWire o.options).length ++ (optionsWire o.options)) ++ post
        = (A ++ q1.1) ++ (u16 ConstsC03.typeOPT ++ u16 o.payload ++ u32 o.ttl ++ u16 (optionsWire o.options).length ++ (optionsWire o.options) ++ post) := by
      simp [List.append_assoc]
    have hlW : (A ++ (q1.1 ++ u16 ConstsC03.typeOPT ++ u16 o.payload ++ u32 o.ttl ++ u16 (optionsWire o.options).length ++ (optionsWire o.options)) ++ post).length
        = A.length + q1.1.length + 10 + (optionsWire o.options).length + post.length := by simp [u16, u32]; omega
    have hat' := hat.mono (u16 ConstsC03.typeOPT ++ u16 o.payload ++ u32 o.ttl ++ u16 (optionsWire o.options).length ++ (optionsWire o.options) ++ post)
    rw [← hW1] at hat'
    obtain ⟨n', hg, hn'⟩ := getName_of_NameAt hat' hwf _ (by rw [hlW]; omega) (Nat.le_refl _)
    have st1 : slice (A ++ (q1.1 ++ u16 ConstsC03.typeOPT ++ u16 o.payload ++ u32 o.ttl ++ u16 (optionsWire o.options).length ++ (optionsWire o.options)) ++ post)
        (A.length + q1.1.length) 2 = u16 ConstsC03.typeOPT :=
      slice_at _ (A ++ q1.1) _ (u16 o.payload ++ u32 o.ttl ++ u16 (optionsWire o.options).length ++ (optionsWire o.options) ++ post)
        (by simp [List.append_assoc]) _ _ (by simp) rfl
    have st2 : slice (A ++ (q1.1 ++ u16 ConstsC03.typeOPT ++ u16 o.payload ++ u32 o.ttl ++ u16 (optionsWire o.options).length ++ (optionsWire o.options)) ++ post)
        (A.length + q1.1.length + 2) 2 = u16 o.payload :=
      slice_at _ (A ++ q1.1 ++ u16 ConstsC03.typeOPT) _ (u32 o.ttl ++ u16 (optionsWire o.options).length ++ (optionsWire o.options) ++ post)
        (by simp [List.append_assoc]) _ _ (by simp [u16]; omega) rfl
    have st3 : slice (A ++ (q1.1 ++ u16 ConstsC03.typeOPT ++ u16 o.payload ++ u32 o.ttl ++ u16 (optionsWire o.options).length ++ (optionsWire o.options)) ++ post)
        (A.length + q1.1.length + 4) 4 = u32 o.ttl :=
      slice_at _ (A ++ q1.1 ++ u16 ConstsC03.typeOPT ++ u16 o.payload) _ (u16 (optionsWire o.options).length ++ (optionsWire o.options) ++ post)
        (by simp [List.append_assoc]) _ _ (by simp [u16]; omega) rfl
    have st4 : slice (A ++ (q1.1 ++ u16 ConstsC03.typeOPT ++ u16 o.payload ++ u32 o.ttl ++ u16 (optionsWire o.options).length ++ (optionsWire o.options)) ++ post)
        (A.length + q1.1.length + 8) 2 = u16 (optionsWire o.options).length :=
      slice_at _ (A ++ q1.1 ++ u16 ConstsC03.typeOPT ++ u16 o.payload ++ u32 o.ttl) _ ((optionsWire o.options) ++ post)
        (by simp [List.append_assoc]) _ _ (by simp [u16, u32]; omega) rfl
    have hopt16 : ConstsC03.typeOPT < 65536 := by decide
    -- the options
    have hW2 : A ++ (q1.1 ++ u16 ConstsC03.typeOPT ++ u16 o.payload ++ u32 o.ttl ++ u16 (optionsWire o.options).length ++ (optionsWire o.options)) ++ post
        = (A ++ q1.1 ++ u16 ConstsC03.typeOPT ++ u16 o.payload ++ u32 o.ttl ++ u16 (optionsWire o.options).length) ++ optionsWire o.options ++ post := by
      simp [List.append_assoc]
    have hlA' : (A ++ q1.1 ++ u16 ConstsC03.typeOPT ++ u16 o.payload ++ u32 o.ttl ++ u16 (optionsWire o.options).length).length
        = A.length + q1.1.length + 10 := by simp [u16, u32]; omega
    have hpo := parseOptions_wire o.options (A ++ q1.1 ++ u16 ConstsC03.typeOPT ++ u16 o.payload ++ u32 o.ttl ++ u16 (optionsWire o.options).length)
      post (optionsWire o.options).length ho.options (Nat.le_refl _)
    rw [← hW2, hlA'] at hpo
    unfold parseRR
    rw [hcur, hg]
    simp only [horg]
    have c10 : ¬ ((A ++ (q1.1 ++ u16 ConstsC03.typeOPT ++ u16 o.payload ++ u32 o.ttl ++ u16 (optionsWire o.options).length ++ (optionsWire o.options)) ++ post).length
        - (A.length + q1.1.length) < 10) := by rw [hlW]; omega
    simp only [c10, if_false, st1, st2, st3, st4, beVal_u16 _ hopt16, beVal_u16 _ ho.payload, beVal_u32 _ ho.ttl,
      beVal_u16 _ ho.total]
    have hroot : lowerName n' = [[]] := by
      have : lowerName n' = lowerName [[]] := Rs.toEqv hn'
      simpa [lowerName, lowerLabel] using this
    simp only [true_or, if_true, parseSpecialHeader, hnone, Option.isSome_none, hroot, ne_eq, not_true_eq_false,
      Bool.false_eq_true, or_self, if_false]
    have clen : ¬ ((optionsWire o.options).length > (A ++ (q1.1 ++ u16 ConstsC03.typeOPT ++ u16 o.payload ++ u32 o.ttl ++ u16 (optionsWire o.options).length ++ (optionsWire o.options)) ++ post).length
        - (A.length + q1.1.length + 10)) := by rw [hlW]; omega
    simp only [clen, if_false, hpo]
    have hfin : A.length + (q1.1 ++ u16 ConstsC03.typeOPT ++ u16 o.payload ++ u32 o.ttl ++ u16 (optionsWire o.options).length ++ (optionsWire o.options)).length
        = A.length + q1.1.length + 10 + (optionsWire o.options).length := by simp [u16, u32]; omega
    rw [hfin]

end Model

import Proofs.BTreeZoneOpsGood
/-!
From operations to histories: validated names are in the zone, the transaction layer, and the invariant
`Good` along any history of transactions, under the decidable guard `histGuard` (identically `true` for the
repaired variant).
-/
namespace Model
namespace BTZ

/-! ## validated names lie in the zone -/

/-- what `dns.name.Name` guarantees about its labels: only the last one may be empty -/
def NoInnerEmpty (n : Name) : Prop := ∀ l ∈ n.dropLast, l ≠ []

/-- the zone origin is an absolute name -/
def WfCfg (cfg : Cfg) : Prop := isAbs cfg.origin = true

theorem validate_ok {n m : Name} (h : validate n = .ok m) : m = n := by
  unfold validate at h
  split at h
  · cases h
  · split at h
    · cases h
    · split at h
      · split at h
        · cases h
        · injection h with h; exact h.symm
      · injection h with h; exact h.symm

theorem isAbs_nil : isAbs [] = false := rfl

theorem isAbs_eq_true_iff {n : Name} : isAbs n = true ↔ n.getLast? = some [] := by
  unfold isAbs
  cases h : n.getLast? with
  | none => simp
  | some l => cases l <;> simp

theorem isAbs_append {a b : Name} (hb : b ≠ []) : isAbs (a ++ b) = isAbs b := by
  unfold isAbs
  rw [List.getLast?_append]
  cases h : b.getLast? with
  | none => rw [List.getLast?_eq_none_iff] at h; exact absurd h hb
  | some l => simp

theorem not_abs_of_take {n : Name} (hn : NoInnerEmpty n) {j : Nat} (hj : j < n.length) : isAbs (n.take j) = false := by
  cases h : isAbs (n.take j) with
  | false => rfl
  | true =>
    exfalso
    rw [isAbs_eq_true_iff] at h
    have hmem : ([] : Label) ∈ n.take j := List.mem_of_getLast? h
    have hpre : n.take j <+: n.dropLast := by
      rw [List.dropLast_eq_take]
      exact List.take_prefix_take_left (by omega)
    exact hn [] (hpre.subset hmem) rfl

theorem sub_nil_of_rel {n : Name} (h : isAbs n = false) : isSubdomain n [] = true :=
  isSubdomain_iff.mpr ⟨by rw [h, isAbs_nil], by simp [lk]⟩

theorem isSubdomain_lowerName (a b : Name) : isSubdomain (lowerName a) (lowerName b) = isSubdomain a b := by
  unfold isSubdomain; rw [fullcompare_lowerName]

theorem abs_nonempty {n : Name} (h : isAbs n = true) : n ≠ [] := by
  intro e; rw [e] at h; cases h

theorem vname_inzone {cfg : Cfg} (hc : WfCfg cfg) {n name : Name} (hn : NoInnerEmpty n)
    (h : vname cfg n = .ok name) : isSubdomain name (apex cfg) = true := by
  have hone := abs_nonempty hc
  have holen : 0 < cfg.origin.length := List.length_pos_iff.mpr hone
  unfold vname at h
  split at h
  · rename_i m hv
    injection h with h; subst h
    unfold validateName at hv
    unfold apex
    by_cases ha : isAbs n = true
    · simp only [ha, if_true] at hv
      by_cases hs : isSubdomain n cfg.origin = true
      · simp only [hs, Bool.not_true, Bool.false_eq_true, if_false] at hv
        by_cases hr : cfg.relativize = true
        · simp only [hr, if_true] at hv ⊢
          unfold relativize at hv
          simp only [hs, if_true] at hv
          split at hv
          · rename_i m' hval
            injection hv with hv; subst hv
            have := validate_ok hval; subst this
            apply sub_nil_of_rel
            rw [isAbs_lowerName]
            have hk0 : cfg.origin.length ≠ 0 := by omega
            simp only [sliceToNeg, hk0, if_false]
            apply not_abs_of_take hn
            have : n ≠ [] := abs_nonempty ha
            have := List.length_pos_iff.mpr this
            omega
          · cases hv
        · have hr' : cfg.relativize = false := by simpa using hr
          simp only [hr', Bool.false_eq_true, if_false] at hv ⊢
          injection hv with hv; subst hv
          rw [isSubdomain_lowerName]; exact hs
      · have hs' : isSubdomain n cfg.origin = false := by simpa using hs
        simp [hs'] at hv
    · have ha' : isAbs n = false := by simpa using ha
      simp only [ha', Bool.false_eq_true, if_false] at hv
      unfold derelativize concatenate at hv
      simp only [ha', Bool.not_false, if_true, Bool.false_eq_true, false_and, if_false] at hv
      split at hv
      · cases hv
      · rename_i absName hval
        have := validate_ok hval; subst this
        by_cases hr : cfg.relativize = true
        · simp only [hr, Bool.not_true, Bool.false_eq_true, if_false, if_true] at hv ⊢
          injection hv with hv; subst hv
          apply sub_nil_of_rel
          rw [isAbs_lowerName]; exact ha'
        · have hr' : cfg.relativize = false := by simpa using hr
          simp only [hr', Bool.not_false, if_true, Bool.false_eq_true, if_false] at hv ⊢
          injection hv with hv; subst hv
          rw [isSubdomain_lowerName, isSubdomain_iff]
          refine ⟨isAbs_append hone, ?_⟩
          simp only [lk, List.map_append, List.reverse_append]
          exact List.prefix_append _ _
  · cases h

/-! ## operations of the transaction layer -/

/-- well-formed operation: a legal owner name, an rdataset key as dnspython builds it -/
def OpWf : Op → Prop
  | .put n k => NoInnerEmpty n ∧ KeyWf k
  | .delName n => NoInnerEmpty n
  | .delRds n k => NoInnerEmpty n ∧ KeyWf k
  | .delRdata n k _ => NoInnerEmpty n ∧ KeyWf k

theorem applyOp_good {v : Variant} {cfg : Cfg} (hc : WfCfg cfg) {ver ver' : Ver} {op : Op} (hg : Good cfg ver)
    (hw : OpWf op) (hgd : opGuard v cfg ver op = true) (hr : applyOp v cfg ver op = .ok ver') : Good cfg ver' := by
  cases op with
  | put n k =>
    simp only [applyOp] at hr
    split at hr
    · cases hr
    · split at hr
      · cases hr
      · cases hv : vname cfg n with
        | error e => unfold putRdataset at hr; rw [hv] at hr; cases hr
        | ok name =>
          simp only [opGuard, hv] at hgd
          exact putRdataset_good hg hw.2 hv (vname_inzone hc hw.1 hv) hgd hr
  | delName n =>
    simp only [applyOp] at hr
    cases hv : vname cfg n with
    | error e => unfold deleteNode at hr; rw [hv] at hr; cases hr
    | ok name =>
      simp only [opGuard, hv] at hgd
      exact deleteNode_good hg hv (vname_inzone hc hw hv) hgd hr
  | delRds n k =>
    simp only [applyOp] at hr
    split at hr
    · cases hr
    · injection hr with hr; subst hr; exact hg
    · rename_i hex
      cases hv : vname cfg n with
      | error e => unfold deleteRdataset at hr; rw [hv] at hr; cases hr
      | ok name =>
        simp only [opGuard, hex, hv] at hgd
        exact deleteRdataset_good hg hw.2 hv (vname_inzone hc hw.1 hv) hgd hr
  | delRdata n k hit =>
    simp only [applyOp] at hr
    split at hr
    · cases hr
    · injection hr with hr; subst hr; exact hg
    · rename_i hex
      cases hv : vname cfg n with
      | error e =>
        split at hr
        · unfold deleteRdataset at hr; rw [hv] at hr; cases hr
        · unfold putRdataset at hr; rw [hv] at hr; cases hr
      | ok name =>
        simp only [opGuard, hex, hv] at hgd
        split at hr
        · rename_i hh
          simp only [hh, if_true] at hgd
          exact deleteRdataset_good hg hw.2 hv (vname_inzone hc hw.1 hv) hgd hr
        · rename_i hh
          simp only [hh, Bool.false_eq_true, if_false] at hgd
          exact putRdataset_good hg hw.2 hv (vname_inzone hc hw.1 hv) hgd hr

theorem stepOp_good {v : Variant} {cfg : Cfg} (hc : WfCfg cfg) {ver : Ver} {op : Op} (hg : Good cfg ver)
    (hw : OpWf op) (hgd : opGuard v cfg ver op = true) : Good cfg (stepOp v cfg ver op) := by
  unfold stepOp
  split
  · rename_i ver' hr; exact applyOp_good hc hg hw hgd hr
  · exact hg

theorem foldl_stepOp_good {v : Variant} {cfg : Cfg} (hc : WfCfg cfg) {ver : Ver} {ops : List Op} (hg : Good cfg ver)
    (hw : ∀ op ∈ ops, OpWf op) (hgd : opsGuard v cfg ver ops = true) :
    Good cfg (ops.foldl (stepOp v cfg) ver) := by
  induction ops generalizing ver with
  | nil => exact hg
  | cons op r ih =>
    simp only [opsGuard, Bool.and_eq_true] at hgd
    simp only [List.foldl_cons]
    exact ih (stepOp_good hc hg (hw op List.mem_cons_self) hgd.1)
      (fun o ho => hw o (List.mem_cons_of_mem _ ho)) hgd.2

/-! ## transactions and histories -/

theorem Good.changed_irrel {cfg : Cfg} {N : Nodes} {D c : List Name} (h : Good cfg ⟨N, D, c⟩) (c' : List Name) :
    Good cfg ⟨N, D, c'⟩ := ⟨h.wf, h.dwf, h.inzone, h.rds, h.flags, h.index⟩

/-- the committed state satisfies the invariant -/
def ZGood (cfg : Cfg) : ZState → Prop
  | none => True
  | some (N, D) => Good cfg ⟨N, D, []⟩

theorem Good_empty (cfg : Cfg) : Good cfg ⟨[], [], []⟩ := by
  refine ⟨NWF_nil, DWF_nil, by simp, by simp, by simp, ?_⟩
  intro n _
  simp [isDelegSpec, nsAt, nget]

def TxnWf (t : Txn) : Prop := ∀ op ∈ t.ops, OpWf op

theorem runTxn_good {v : Variant} {cfg : Cfg} (hc : WfCfg cfg) {z : ZState} {t : Txn} (hz : ZGood cfg z)
    (hw : TxnWf t) (hgd : txnGuard v cfg z t = true) : ZGood cfg (runTxn v cfg z t) := by
  unfold runTxn
  unfold txnGuard at hgd
  cases hb : beginTxn z t.replacement with
  | error e => simp only; exact hz
  | ok ver =>
    rw [hb] at hgd
    simp only at hgd ⊢
    have hv : Good cfg ver := by
      unfold beginTxn at hb
      split at hb
      · injection hb with hb; rw [← hb]; exact Good_empty cfg
      · split at hb
        · rename_i N D
          injection hb with hb; rw [← hb]; exact hz
        · cases hb
    have := foldl_stepOp_good hc hv hw hgd
    unfold endTxn
    split
    · exact Good.changed_irrel this []
    · exact hz

theorem runHist_good {v : Variant} {cfg : Cfg} (hc : WfCfg cfg) {z : ZState} {h : List Txn} (hz : ZGood cfg z)
    (hw : ∀ t ∈ h, TxnWf t) (hgd : histGuard v cfg z h = true) : ZGood cfg (runHist v cfg z h) := by
  unfold runHist
  induction h generalizing z with
  | nil => exact hz
  | cons t r ih =>
    simp only [histGuard, Bool.and_eq_true] at hgd
    simp only [List.foldl_cons]
    exact ih (runTxn_good hc hz (hw t List.mem_cons_self) hgd.1)
      (fun t' ht' => hw t' (List.mem_cons_of_mem _ ht')) hgd.2

/-! ## the repaired variant needs no guard -/

theorem opGuard_intended (cfg : Cfg) (ver : Ver) (op : Op) : opGuard intended cfg ver op = true := by
  cases op with
  | put n k => simp only [opGuard]; split <;> simp [putGuard, intended]
  | delName n => simp only [opGuard]; split <;> simp [delNodeGuard, intended]
  | delRds n k => simp only [opGuard]; split <;> simp [delRdsGuard, intended]
  | delRdata n k hit =>
    simp only [opGuard]; split
    · split <;> simp [delRdsGuard, putGuard, intended]
    · rfl

theorem opsGuard_intended (cfg : Cfg) (ver : Ver) (ops : List Op) : opsGuard intended cfg ver ops = true := by
  induction ops generalizing ver with
  | nil => rfl
  | cons op r ih => simp [opsGuard, opGuard_intended, ih]

theorem histGuard_intended (cfg : Cfg) (z : ZState) (h : List Txn) : histGuard intended cfg z h = true := by
  induction h generalizing z with
  | nil => rfl
  | cons t r ih =>
    simp only [histGuard, Bool.and_eq_true]
    refine ⟨?_, ih _⟩
    unfold txnGuard; split
    · exact opsGuard_intended _ _ _
    · rfl

/-! ## `Good` as the Boolean `consistent` -/

theorem delegsSpec_DWF {cfg : Cfg} {N : Nodes} (h : NWF N) : DWF (delegsSpec cfg N) := by
  unfold delegsSpec
  refine ⟨?_, ?_⟩
  · rw [List.pairwise_map]; exact List.Pairwise.filter _ h.1
  · intro a ha
    obtain ⟨e, he, rfl⟩ := List.mem_map.mp ha
    exact h.2 e (List.mem_filter.mp he).1

theorem Good.toConsistent {cfg : Cfg} {N : Nodes} {D c : List Name} (h : Good cfg ⟨N, D, c⟩) :
    BTZ.consistent cfg N D = true := by
  unfold BTZ.consistent
  rw [Bool.and_eq_true]
  constructor
  · rw [List.all_eq_true]
    intro e he
    rw [beq_iff_eq]
    exact h.flags e he
  · rw [beq_iff_eq]
    apply DWF_ext h.dwf (delegsSpec_DWF h.wf)
    intro a
    constructor
    · intro ha
      have hl := h.dwf.2 a ha
      have hd := (h.index a hl).mp ha
      obtain ⟨_, ⟨nd, hg, _⟩, _⟩ := (isDelegSpec_iff h.wf).mp hd
      unfold delegsSpec
      exact List.mem_map.mpr ⟨(a, nd), List.mem_filter.mpr ⟨nget_some_mem h.wf.2 hl hg, hd⟩, rfl⟩
    · intro ha
      unfold delegsSpec at ha
      obtain ⟨e, he, rfl⟩ := List.mem_map.mp ha
      obtain ⟨hm, hd⟩ := List.mem_filter.mp he
      exact (h.index e.1 (h.wf.2 e hm)).mpr hd

end BTZ
end Model

import Proofs.RdataTextField3
import Proofs.RdataTextName
import Proofs.RdataTextB64
/-! One-token hex / base64 fields, the origin-less name of TKEY/TSIG, TSIG rcodes (C05). -/
namespace Model

theorem field_hexOne (st : Style) (env : PEnv) (s : Bytes) (hs : ∀ x ∈ s, x < 256) (hne : s ≠ []) (hl : s.length ≤ 255) :
    FieldRT st env .hexOne (.b s) (hexlify s) ⟨.ident, hexlify s⟩ := by
  have hp := hexlify_plain s hs
  have hn : hexlify s ≠ [] := fun e => hne ((hexlify_eq_nil s).mp e)
  refine ⟨rfl, lexes_plain _ hn hp, ?_, notHash_plain _ hp⟩
  have hle : ¬ s.length > 255 := by omega
  simp [parseField, parseFieldExtra, unescapeCP_plain_all _ hp, unhexlify_hexlify s hs, hle]

theorem field_b64One (st : Style) (env : PEnv) (s : Bytes) (hs : ∀ x ∈ s, x < 256) (hne : s ≠ []) (hl : s.length ≤ 65535) :
    FieldRT st env .b64One (.b s) (b64Encode s) ⟨.ident, b64Encode s⟩ := by
  have hp := b64Encode_plain s
  have hn : b64Encode s ≠ [] := fun e => hne ((b64Encode_eq_nil s).mp e)
  refine ⟨rfl, lexes_plain _ hn hp, ?_, notHash_plain _ hp⟩
  have hle : ¬ s.length > 65535 := by omega
  simp [parseField, parseFieldExtra, unescapeCP_plain_all _ hp, b64_roundtrip s hs, hle]

theorem rcodeEnumOk : EnumOk ConstsC05.rcodeTsigTexts ConstsC05.rcodeNames [] 4095 := by decide +kernel

theorem field_rcode (st : Style) (env : PEnv) (v : Nat) (hv : v ≤ 4095) :
    ∃ text, FieldRT st env .rcode (.n v) text ⟨.ident, text⟩ := by
  obtain ⟨a, b, c⟩ := enum_rt _ _ _ _ rcodeEnumOk v hv
  refine ⟨_, rfl, lexes_plain _ c b, ?_, notHash_plain _ b⟩
  simp [parseField, parseFieldExtra, unescapeCP_plain_all _ b, a]

/-- TKEY/TSIG algorithm name: read without an origin and without relativization, so it round-trips exactly when the
style leaves it as it is -/
theorem field_nameRaw (st : Style) (env : PEnv) (n : Name) (hw : WfName n) (ho : OctetsOk n)
    (hst : chooseRelativity n st.origin st.relativize = .ok n) :
    FieldRT st env .nameRaw (.nm n) (toText n) ⟨.ident, toText n⟩ := by
  obtain ⟨hlex, hnh⟩ := toText_lexes n hw ho
  refine ⟨by simp [printField, nameToStyled, hst], hlex, ?_, hnh⟩
  have := asName_toText { origin := none, relativize := false, relTo := none } n hw ho
  simp only [nameBack, orOrigin, chooseRelativity] at this
  simp [parseField, this]

/-! ### GPOS coordinates -/

theorem gposCheck_plain (lim : Option (Nat × Nat)) (s : Bytes) (h : gposCheck lim s = true) : Plain s ∧ s ≠ [] := by
  unfold gposCheck at h
  simp only [Bool.and_eq_true] at h
  obtain ⟨hall, hf⟩ := h
  constructor
  · intro c hc
    have := List.all_eq_true.mp hall c hc
    simp only [isDigit, Bool.or_eq_true, decide_eq_true_eq, beq_iff_eq] at this
    simp [isDelim]
    omega
  · intro e; subst e
    simp [floatStr] at hf

theorem field_gpos (st : Style) (env : PEnv) (lim : Option (Nat × Nat)) (s : Bytes) (hl : s.length ≤ 255)
    (h : gposCheck lim s = true) : FieldRT st env (.gpos lim) (.b s) s ⟨.ident, s⟩ := by
  obtain ⟨hp, hne⟩ := gposCheck_plain lim s h
  refine ⟨rfl, lexes_plain _ hne hp, ?_, notHash_plain _ hp⟩
  have hle : ¬ s.length > 255 := by omega
  simp [parseField, parseFieldExtra, unescapeCP_plain_all _ hp, hle, h]

end Model

import Proofs.BTreeCowDelete
import Proofs.BTreeDelete3
/-!
Mechanism-level proofs, part 11: `delete` on the heap simulates the persistent `delete` and writes only owned
cells.
-/
namespace Model.BTreeCow
open Model.BTree

theorem hDelete_sim {c t : Nat} (ht : 2 ≤ t) : ∀ (h : Nat) (H : Heap) (a : Nat) (key : Nat), Good c H h a →
    Shape t h (absN H h a) → Sorted (flat (absN H h a)) →
    (h ≠ 0 → 1 ≤ (rd H a).elts.length ∨ ∀ k ∈ (rd H a).kids, (rd H k).elts.length ≠ minKeys t) →
    Upd c H (hDelete t h H a key none).1 h a (delete t h (absN H h a) key none).1 ∧
    (hDelete t h H a key none).2 = (delete t h (absN H h a) key none).2 := by
  intro h
  induction h with
  | zero =>
    intro H a key g hsh hso _
    have hleaf : (rd H a).leaf = true := g.ht.2
    have habs : absN H 0 a = .leaf (rd H a).elts := rfl
    unfold hDelete
    rw [habs]
    unfold delete
    simp only [Node.elts, Option.isSome_none, Bool.false_eq_true, false_and, and_false, if_false]
    rw [if_pos hleaf]
    by_cases heq : (searchInNode (rd H a).elts key).2 = true
    · simp only [heq, if_true]
      exact ⟨upd_elts g _ (fun h0 => absurd rfl h0), trivial⟩
    · simp only [heq, Bool.false_eq_true, if_false]
      exact ⟨Upd.refl g.ht g.nodup, trivial⟩
  | succ h ih =>
    intro H p key g hsh hso hpos
    have hleaf : (rd H p).leaf = false := g.ht.2.1
    have hkids : Kids t h (rd H p).elts ((rd H p).kids.map (absN H h)) := shape_node_iff.mp hsh
    have hso' : Sorted (flat (.node (rd H p).elts ((rd H p).kids.map (absN H h)))) := hso
    have hpos' : 1 ≤ (rd H p).elts.length ∨ ∀ n ∈ (rd H p).kids.map (absN H h), n.elts.length ≠ minKeys t := by
      rcases hpos (by omega) with h1 | h2
      · exact Or.inl h1
      · right
        intro n hn
        obtain ⟨k, hk, rfl⟩ := List.mem_map.mp hn
        rw [absN_elts]; exact h2 k hk
    obtain ⟨key', i', eq, el, er, hsearch, hi1, hkey', hesplit, hellen, hwl, hwr, hne, es1, cs1, i1, hprep, hk1,
      hi1lt, hsh1, hso1, hnm1, elt, hdel, hshn1, hson1, hsucc⟩ := delete_node_facts ht key hkids hso' hpos'
    have hlen := g.ht.2.2.1
    have hi'lt : i' < (rd H p).kids.length := by rw [hesplit] at hlen; simp at hlen; omega
    obtain ⟨kl, k0, kr, hk, hkl⟩ := split_at_lt (rd H p).kids i' hi'lt
    have hkid : kidAt ((rd H p).kids.map (absN H h)) i' = absN H h k0 := by rw [hk]; exact kidAt_map_at hkl
    have hkidA : kidA (rd H p).kids i' = k0 := by rw [hk]; exact kidA_at hkl
    -- the new target key is computed in the same way
    have hkeyh : (if eq = true then (hMinimum H h (kidA (rd H p).kids i')).1 else key) = key' := by
      rw [hkey', hkidA, hkid, hMinimum_sim (HT_kid g.ht (by rw [hk]; simp))]
    have hne' : (rd H k0).elts.length = minKeys t → 1 ≤ (rd H p).elts.length := by
      intro hm; apply hne; rw [hkid, absN_elts]; exact hm
    obtain ⟨H1, ch, es1', cs1', i1', b1, b2, b3, pre, post, b4, b5, b6⟩ :=
      hDelPrep_sim (key := key') ht g hk hesplit (by omega) hkids hso hne' hwl hwr
    rw [hkl] at b1 b2
    rw [hprep] at b2
    simp only [Option.some.injEq, Prod.mk.injEq] at b2
    obtain ⟨rfl, rfl, rfl⟩ := b2
    have g1 := good_of_upd g b3
    obtain ⟨e1, e2⟩ := abs_node_inj b3.abs
    have hcsd1 : cs1 = pre.map (absN H1 h) ++ absN H1 h ch :: post.map (absN H1 h) := by
      rw [← e2, b4]; simp
    have hkid1 : kidAt cs1 i1 = absN H1 h ch := by
      rw [hcsd1]; exact kidAt_at (by simpa using b5)
    rw [hkid1] at hsh1 hso1 hnm1 hdel hshn1 hson1
    have gch : Good c H1 h ch := good_kid g1 b4 b6
    obtain ⟨r1, r2⟩ := ih H1 ch key' gch hsh1 hso1 (fun _ => Or.inl (by rw [absN_elts] at hnm1; omega))
    rcases hdc : hDelete t h H1 ch key' none with ⟨H2, r⟩
    rw [hdc] at r1 r2
    simp only [] at r1 r2
    rw [hdel] at r2
    subst r2
    obtain ⟨uc, _⟩ := upd_child g1 b4 r1
    rw [e1] at uc
    have hset : setAt cs1 i1 (delete t h (absN H1 h ch) key' none).1 =
        pre.map (absN H1 h) ++ (delete t h (absN H1 h ch) key' none).1 :: post.map (absN H1 h) := by
      rw [hcsd1]; exact setAt_at (by simpa using b5)
    rw [← hset] at uc
    have u2 : Upd c H H2 (h + 1) p (.node es1 (setAt cs1 i1 (delete t h (absN H1 h ch) key' none).1)) :=
      Upd.trans b3 uc
    -- now unfold both sides
    unfold hDelete
    rw [absN_succ]
    unfold delete
    simp only [Node.elts, hsearch, Option.isSome_none, Bool.false_eq_true, false_and, and_false, if_false, hleaf]
    cases eq with
    | false =>
      simp only [Bool.false_eq_true, if_false] at hkeyh ⊢
      subst hkeyh
      rw [b1, hprep]
      simp only []
      rw [hkid1, hdc, hdel]
      simp only [delFinish, Bool.false_eq_true, if_false]
      exact ⟨u2, trivial⟩
    | true =>
      simp only [if_true] at hkeyh hkey' ⊢
      have hi'1 : i' - 1 + 1 = i' := by have := hi1 rfl; omega
      have hk'' : (minimum h (absN H h k0)).1 = key' := by rw [hkey', hkid]
      rw [hi'1, hkeyh, hkid, hk'']
      rw [b1, hprep]
      simp only []
      rw [hkid1, hdc, hdel]
      obtain ⟨su, rfl⟩ := hsucc rfl
      simp only [delFinish, if_true]
      have g2 := good_of_upd g u2
      obtain ⟨q1, q2⟩ := hReplaceAt_sim (c := c) (t := t) key su (h + 1) H2 p g2 (by rw [u2.abs]; exact hshn1)
        (by rw [u2.abs]; exact hson1)
      rw [u2.abs] at q1 q2
      rcases hrp : hReplaceAt (h + 1) H2 p key su with ⟨H3, old⟩
      rw [hrp] at q1 q2
      simp only [] at q1 q2 ⊢
      rcases hpr : replaceAt (h + 1) (.node es1 (setAt cs1 i1 (delete t h (absN H1 h ch) key' none).1)) key su with ⟨n2, pold⟩
      rw [hpr] at q1 q2
      simp only [] at q1 q2 ⊢
      subst q2
      exact ⟨Upd.trans u2 q1, rfl⟩

end Model.BTreeCow

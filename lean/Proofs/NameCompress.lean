import Model.Name
import Proofs.NameWire
/-! Helper lemmas for C01/C03: soundness of `Name.to_wire(file, compress)` (`toWireCLoop`). -/
namespace Model

/-- an entry of the compression table is sound in the buffer `out`: its offset fits a pointer and a
name decodes there which is `R`-related to the entry's key -/
def EntrySound (R : Name → Name → Prop) (out : Bytes) (p : Name × Nat) : Prop :=
  p.2 ≤ Consts.maxPtr ∧ ∃ ls fwd, Dec out p.2 p.2 ls fwd ∧ R (ls ++ [[]]) p.1

def TableSound (R : Name → Name → Prop) (out : Bytes) (t : CTable) : Prop :=
  ∀ p ∈ t, EntrySound R out p

theorem EntrySound.mono {R out p} (h : EntrySound R out p) (ext : Bytes) : EntrySound R (out ++ ext) p := by
  obtain ⟨h1, ls, fwd, hd, hr⟩ := h
  exact ⟨h1, ls, fwd, hd.mono ext, hr⟩

theorem lowerName_length (a b : Name) (h : lowerName a = lowerName b) : a.length = b.length := by
  have := congrArg List.length h
  simpa [lowerName] using this

theorem ptr_consts : Consts.ptrBase = 49152 ∧ Consts.maxPtr = 16383 ∧ Consts.ptrTagMin = 192 := by decide

theorem ctGet_some {t : CTable} {n : Name} {pos : Nat} (h : ctGet t n = some pos) :
    ∃ p ∈ t, p.2 = pos ∧ lowerName p.1 = lowerName n := by
  unfold ctGet at h
  split at h
  · rename_i p hp
    simp at h
    refine ⟨p, List.mem_of_find?_eq_some hp, h, ?_⟩
    have := List.find?_some hp
    simpa using this
  · simp at h

theorem getElem?_at_len {α} (A : List α) (x : α) (B : List α) : (A ++ x :: B)[A.length]? = some x := by simp

theorem getElem?_at_len1 {α} (A : List α) (x y : α) (B : List α) : (A ++ x :: y :: B)[A.length + 1]? = some y := by
  rw [List.getElem?_append_right (by omega)]; simp

/-- The loop of `to_wire` with a compression table, generalised for the induction: `out0`/`t0` are the
buffer and table when rendering of this name started, `out` the buffer now (an extension of `out0`),
`pend` the entries added since (all for longer suffixes of this same name). -/
theorem loop_sound (R : Name → Name → Prop) (hRcons : ∀ l a b, R a b → R (l :: a) (l :: b))
    (hRroot : R [[]] [[]])
    (out0 : Bytes) (t0 : CTable) (hs : TableSound R out0 t0) (labels : Name) :
    PlainLabels labels.dropLast → labels.getLast? = some [] →
    (∀ p ∈ t0, ∀ k, lowerName p.1 = lowerName (labels.drop k) → ∀ m, R m p.1 → R m (labels.drop k)) →
    ∀ (out : Bytes) (pend : CTable), (∃ mid, out = out0 ++ mid) → (∀ p ∈ pend, labels.length < p.1.length) →
    ∃ ext new, (toWireCLoop out (t0 ++ pend) labels).1 = out ++ ext ∧
      (toWireCLoop out (t0 ++ pend) labels).2 = t0 ++ pend ++ new ∧
      (∀ bp, out0.length ≤ bp → ∃ ls, Dec (out ++ ext) out.length bp ls (out ++ ext).length
          ∧ R (ls ++ [[]]) labels) ∧
      (∀ p ∈ new, (∃ k, p.1 = labels.drop k) ∧ EntrySound R (out ++ ext) p) := by
  induction labels with
  | nil => intro _ hlast; simp at hlast
  | cons l rest ih =>
    intro hplain hlast hhit out pend hpre hpend
    obtain ⟨mid, hmid⟩ := hpre
    have hlen0 : out0.length ≤ out.length := by rw [hmid]; simp
    obtain ⟨hbase, hmax, htag⟩ := ptr_consts
    unfold toWireCLoop
    split
    · -- table hit: emit a pointer
      rename_i pos hget
      obtain ⟨p, hpmem, hppos, hplow⟩ := ctGet_some hget
      have hp0 : p ∈ t0 := by
        rcases List.mem_append.mp hpmem with h | h
        · exact h
        · exfalso
          have := hpend p h
          have := lowerName_length _ _ hplow
          omega
      obtain ⟨hle, ls, fwd, hd, hr⟩ := hs p hp0
      have hfw := hd.fwd_le
      rw [hppos] at hle hd hfw
      refine ⟨[(Consts.ptrBase + pos) / 256, (Consts.ptrBase + pos) % 256], [], rfl, by simp, ?_, by simp⟩
      intro bp hbp
      refine ⟨ls, ?_, ?_⟩
      · have hd' : Dec (out ++ [(Consts.ptrBase + pos) / 256, (Consts.ptrBase + pos) % 256]) pos pos ls fwd := by
          have := hd.mono (mid ++ [(Consts.ptrBase + pos) / 256, (Consts.ptrBase + pos) % 256])
          rw [hmid]
          simpa [List.append_assoc] using this
        have hc : Consts.ptrTagMin ≤ (Consts.ptrBase + pos) / 256 := by omega
        have htgt : ((Consts.ptrBase + pos) / 256 % 64) * 256 + (Consts.ptrBase + pos) % 256 = pos := by omega
        have := Dec.ptr (w := out ++ [(Consts.ptrBase + pos) / 256, (Consts.ptrBase + pos) % 256])
          out.length bp ((Consts.ptrBase + pos) / 256) ((Consts.ptrBase + pos) % 256) ls fwd
          (getElem?_at_len _ _ _) hc (getElem?_at_len1 _ _ _ _) (by rw [htgt]; omega) (by rw [htgt]; exact hd')
        have hfwd : max (out.length + 2) fwd =
            (out ++ [(Consts.ptrBase + pos) / 256, (Consts.ptrBase + pos) % 256]).length := by
          simp; omega
        rw [hfwd] at this
        exact this
      · have := hhit p hp0 0 (by simpa using hplow) _ hr
        simpa using this
    · -- miss: write the label, maybe remember the suffix, continue
      rename_i hget
      cases rest with
      | nil =>
        -- the root label
        have hl : l = [] := by simpa using hlast
        subst hl
        refine ⟨[0], [], ?_, ?_, ?_, by simp⟩
        · simp [toWireCLoop]
        · simp [toWireCLoop]
        · intro bp _
          refine ⟨[], ?_, by simpa using hRroot⟩
          have := Dec.root (w := out ++ [0]) out.length bp (getElem?_at_len _ _ _)
          have e : (out ++ [0]).length = out.length + 1 := by simp
          rw [e]; exact this
      | cons l2 rest2 =>
        have hl : 0 < l.length ∧ l.length < Consts.ptrLabelMin := hplain l (by simp [List.dropLast])
        have hplain' : PlainLabels (l2 :: rest2).dropLast := by
          intro x hx; apply hplain; simp [List.dropLast]; right; exact hx
        have hlast' : (l2 :: rest2).getLast? = some [] := by simpa [List.getLast?] using hlast
        have hhit' : ∀ p ∈ t0, ∀ k, lowerName p.1 = lowerName ((l2 :: rest2).drop k) → ∀ m, R m p.1 → R m ((l2 :: rest2).drop k) := by
          intro p hp k hk m hm
          exact hhit p hp (k + 1) (by simpa using hk) m hm
        -- the table after the optional insertion
        let pend' : CTable := if (l :: l2 :: rest2).length > 1 ∧ out.length ≤ Consts.maxPtr
          then pend ++ [(l :: l2 :: rest2, out.length)] else pend
        have hpend' : ∀ p ∈ pend', (l2 :: rest2).length < p.1.length := by
          intro p hp
          simp only [pend'] at hp
          split at hp
          · rcases List.mem_append.mp hp with h | h
            · have := hpend p h; simp at this ⊢; omega
            · simp at h; subst h; simp
          · have := hpend p hp; simp at this ⊢; omega
        have htbl : (if (l :: l2 :: rest2).length > 1 ∧ out.length ≤ Consts.maxPtr
            then t0 ++ pend ++ [(l :: l2 :: rest2, out.length)] else t0 ++ pend) = t0 ++ pend' := by
          simp only [pend']; split <;> simp
        rw [htbl]
        obtain ⟨ext, new, h1, h2, h3, h4⟩ := ih hplain' hlast' hhit' (out ++ l.length :: l) pend'
          ⟨mid ++ l.length :: l, by rw [hmid]; simp⟩ hpend'
        have hfull : out ++ l.length :: l ++ ext = out ++ (l.length :: l ++ ext) := by simp
        -- decoding at the position of this label
        have hdec : ∀ bp, out0.length ≤ bp → ∃ ls, Dec (out ++ (l.length :: l ++ ext)) out.length bp ls
            (out ++ (l.length :: l ++ ext)).length ∧ R (ls ++ [[]]) (l :: l2 :: rest2) := by
          intro bp hbp
          obtain ⟨ls, hd, hr⟩ := h3 bp hbp
          rw [hfull] at hd
          have hcur : (out ++ l.length :: l).length = out.length + 1 + l.length := by
            simp; omega
          rw [hcur] at hd
          have hget' : (out ++ (l.length :: l ++ ext))[out.length]? = some l.length := getElem?_at_len _ _ _
          have hlen : out.length + 1 + l.length ≤ (out ++ (l.length :: l ++ ext)).length := by
            simp; omega
          have := Dec.label (w := out ++ (l.length :: l ++ ext)) out.length bp l.length ls _
            hget' hl.1 hl.2 hlen hd
          have htake : ((out ++ (l.length :: l ++ ext)).drop (out.length + 1)).take l.length = l := by
            have : out ++ (l.length :: l ++ ext) = (out ++ [l.length]) ++ (l ++ ext) := by simp
            rw [this, List.drop_left' (by simp), List.take_left' rfl]
          rw [htake] at this
          have hmx : max (out.length + 1 + l.length) (out ++ (l.length :: l ++ ext)).length
              = (out ++ (l.length :: l ++ ext)).length := by omega
          rw [hmx] at this
          exact ⟨l :: ls, this, by simpa using hRcons l _ _ hr⟩
        refine ⟨l.length :: l ++ ext, (if (l :: l2 :: rest2).length > 1 ∧ out.length ≤ Consts.maxPtr
            then [(l :: l2 :: rest2, out.length)] else []) ++ new, ?_, ?_, hdec, ?_⟩
        · rw [h1]; simp
        · rw [h2]; simp only [pend']; split <;> simp
        · intro p hp
          rcases List.mem_append.mp hp with h | h
          · split at h
            · rename_i hc
              simp only [List.mem_singleton] at h; subst h
              refine ⟨⟨0, by simp⟩, hc.2, ?_⟩
              obtain ⟨ls, hd, hr⟩ := hdec out.length hlen0
              exact ⟨ls, _, hd, hr⟩
            · simp at h
          · obtain ⟨⟨k, hk⟩, hes⟩ := h4 p h
            refine ⟨⟨k + 1, by simpa using hk⟩, ?_⟩
            rw [hfull] at hes
            exact hes

end Model

import Proofs.BTreeCowInsert
/-!
Mechanism-level proofs, part 7: the root of a tree — `maybe_cow` on the root, root growth, `insert_element`.
-/
namespace Model.BTreeCow
open Model.BTree

/-- like `Upd`, for an operation that may move the root pointer and change the height -/
structure RUpd (c : Nat) (H H' : Heap) (h root h' root' : Nat) (n' : Node) : Prop where
  size : H.size ≤ H'.size
  same : ∀ x, x < H.size → (x ∉ reach H h root ∨ (rd H x).creator ≠ c) → rd H' x = rd H x
  creator : ∀ x, x < H.size → (rd H' x).creator = (rd H x).creator
  fresh : ∀ x, H.size ≤ x → x < H'.size → (rd H' x).creator = c
  ht : HT H' h' root'
  nodup : (reach H' h' root').Nodup
  sub : ∀ x ∈ reach H' h' root', x ∈ reach H h root ∨ H.size ≤ x
  abs : absN H' h' root' = n'

theorem Upd.toRUpd {c : Nat} {H H' : Heap} {h a : Nat} {n : Node} (u : Upd c H H' h a n) :
    RUpd c H H' h a h a n :=
  ⟨u.size, u.same, u.creator, u.fresh, u.ht, u.nodup, u.sub, u.abs⟩

theorem RUpd.trans {c : Nat} {H H1 H2 : Heap} {h r h1 r1 h2 r2 : Nat} {n1 n2 : Node}
    (u1 : RUpd c H H1 h r h1 r1 n1) (u2 : RUpd c H1 H2 h1 r1 h2 r2 n2) : RUpd c H H2 h r h2 r2 n2 := by
  refine ⟨Nat.le_trans u1.size u2.size, ?_, ?_, ?_, u2.ht, u2.nodup, ?_, u2.abs⟩
  · intro x hx hcond
    have h1' := u1.same x hx hcond
    have hc1 := u1.creator x hx
    rw [← h1']
    apply u2.same x (by have := u1.size; omega)
    rcases hcond with hnr | hcr
    · left
      intro hmem
      rcases u1.sub x hmem with h' | h'
      · exact hnr h'
      · omega
    · right; rw [hc1]; exact hcr
  · intro x hx
    rw [u2.creator x (by have := u1.size; omega), u1.creator x hx]
  · intro x hx1 hx2
    by_cases hlt1 : x < H1.size
    · rw [u2.creator x hlt1]; exact u1.fresh x hx1 hlt1
    · exact u2.fresh x (by omega) hx2
  · intro x hx
    rcases u2.sub x hx with h' | h'
    · exact u1.sub x h'
    · right; have := u1.size; omega

/-! ## `root.maybe_cow(creator)` -/

theorem cow_root_spec {c : Nat} {H : Heap} {h root : Nat} (ht : HT H h root) (nd : (reach H h root).Nodup) :
    RUpd c H (cow H c root).1 h root h (cow H c root).2 (absN H h root) ∧ Good c (cow H c root).1 h (cow H c root).2 := by
  unfold cow
  by_cases hown : (rd H root).creator = c
  · simp only [hown, if_true]
    exact ⟨(Upd.refl ht nd).toRUpd, ⟨ht, nd, hown⟩⟩
  · simp only [hown, if_false, alloc_snd]
    let N : Cell := { rd H root with creator := c }
    let H1 := (alloc H N).1
    have so : SameOff [] H H1 := (SameOff.refl H).alloc N
    have hnew : rd H1 H.size = N := rd_alloc_new _ _
    have hsz : H1.size = H.size + 1 := by simp [H1]
    have hcopy : absN H1 h H.size = absN H h root ∧
        (∀ x ∈ reach H1 h H.size, x = H.size ∨ x ∈ reach H h root) ∧ (reach H1 h H.size).Nodup ∧ HT H1 h H.size := by
      cases h with
      | zero =>
        refine ⟨by simp [absN, hnew, N], by simp [reach], by simp [reach], ⟨by omega, by rw [hnew]; exact ht.2⟩⟩
      | succ h =>
        have hgk : ∀ g' ∈ (rd H root).kids, absN H1 h g' = absN H h g' ∧ reach H1 h g' = reach H h g' ∧ HT H1 h g' :=
          fun g' hg' => frame_off so (HT_kid ht hg') (by simp)
        have hmapa : (rd H root).kids.map (absN H1 h) = (rd H root).kids.map (absN H h) :=
          List.map_congr_left (fun g' hg' => (hgk g' hg').1)
        have hmapr : (rd H root).kids.flatMap (reach H1 h) = (rd H root).kids.flatMap (reach H h) := by
          rw [List.flatMap_def, List.flatMap_def]; congr 1
          exact List.map_congr_left (fun g' hg' => (hgk g' hg').2.1)
        refine ⟨by simp [absN_succ, hnew, N, hmapa], ?_, ?_, ?_⟩
        · intro x hx
          simp only [reach_succ, hnew, N, hmapr, List.mem_cons] at hx ⊢
          rcases hx with hx | hx
          · exact Or.inl hx
          · exact Or.inr (Or.inr hx)
        · simp only [reach_succ, hnew, N, hmapr, List.nodup_cons]
          have nd' := nd
          simp only [reach_succ, List.nodup_cons] at nd'
          refine ⟨?_, nd'.2⟩
          intro hx
          have := reach_lt ht H.size (by simp only [reach_succ, List.mem_cons]; exact Or.inr hx)
          omega
        · refine ⟨by omega, by rw [hnew]; exact ht.2.1, by rw [hnew]; exact ht.2.2.1, ?_⟩
          rw [hnew]; intro g' hg'; exact (hgk g' hg').2.2
    obtain ⟨hc1, hc2, hc3, hc4⟩ := hcopy
    refine ⟨⟨so.size, fun x hx _ => so.same x hx (by simp), fun x hx => by rw [so.same x hx (by simp)], ?_, hc4, hc3, ?_, hc1⟩,
      ⟨hc4, hc3, by rw [hnew]⟩⟩
    · intro x h1 h2
      have : x = H.size := by rw [show (alloc H N).1 = H1 from rfl, hsz] at h2; omega
      subst this; rw [show (alloc H N).1 = H1 from rfl, hnew]
    · intro x hx
      rcases hc2 x hx with h' | h'
      · right; omega
      · exact Or.inl h'

/-! ## height -/

theorem nodup_bounded_length : ∀ (n : Nat) (l : List Nat), l.Nodup → (∀ x ∈ l, x < n) → l.length ≤ n := by
  intro n
  induction n with
  | zero =>
    intro l _ hb
    cases l with
    | nil => simp
    | cons a l => exact absurd (hb a (by simp)) (by omega)
  | succ n ih =>
    intro l nd hb
    have h1 : (l.erase n).Nodup := nd.erase n
    have h2 : ∀ x ∈ l.erase n, x < n := by
      intro x hx
      have hxl : x ∈ l := List.mem_of_mem_erase hx
      have hne : x ≠ n := by
        intro e; subst e
        exact (List.Nodup.mem_erase_iff nd).mp hx |>.1 rfl
      have := hb x hxl; omega
    have h3 := ih (l.erase n) h1 h2
    have h4 : l.length ≤ (l.erase n).length + 1 := by
      by_cases hm : n ∈ l
      · rw [List.length_erase_of_mem hm]; omega
      · rw [List.erase_of_not_mem hm]; omega
    omega

theorem reach_length_ge {H : Heap} : ∀ {h a : Nat}, HT H h a → h + 1 ≤ (reach H h a).length := by
  intro h
  induction h with
  | zero => intro a _; simp [reach]
  | succ h ih =>
    intro a ht
    have hlen := ht.2.2.1
    cases hk : (rd H a).kids with
    | nil => rw [hk] at hlen; simp at hlen
    | cons k ks =>
      have := ih (HT_kid (k := k) ht (by rw [hk]; simp))
      simp only [reach_succ, hk, List.flatMap_cons, List.length_cons, List.length_append]
      omega

theorem hHeight_of_HT {H : Heap} : ∀ {h a : Nat} (fuel : Nat), HT H h a → h ≤ fuel → hHeight H fuel a = h := by
  intro h
  induction h with
  | zero =>
    intro a fuel ht _
    cases fuel with
    | zero => rfl
    | succ f => simp [hHeight, ht.2]
  | succ h ih =>
    intro a fuel ht hf
    cases fuel with
    | zero => omega
    | succ f =>
      have hlen := ht.2.2.1
      cases hk : (rd H a).kids with
      | nil => rw [hk] at hlen; simp at hlen
      | cons k ks =>
        have := ih f (HT_kid (k := k) ht (by rw [hk]; simp)) (by omega)
        simp [hHeight, ht.2.1, hk, kidA, this]

theorem heightOf_of_HT {H : Heap} {h a : Nat} (ht : HT H h a) (nd : (reach H h a).Nodup) : heightOf H a = h := by
  apply hHeight_of_HT _ ht
  have h1 := reach_length_ge ht
  have h2 := nodup_bounded_length H.size _ nd (reach_lt ht)
  omega

/-! ## root growth -/

/-- the two halves after `split` of the owned maximal node `k`, read in any later heap that changed nothing
below `k` -/
theorem split_halves {c t : Nat} {H H3 : Heap} {h k r : Nat} {W : List Nat} (ht1 : 1 ≤ t) (gk : Good c H h k)
    (hmax : (rd H k).elts.length = maxKeys t) (so : SameOff W H H3)
    (hW : ∀ x ∈ W, x = k ∨ x ∉ reach H h k)
    (hrd3k : rd H3 k = { creator := (rd H k).creator, leaf := (rd H k).leaf, elts := (rd H k).elts.take (minKeys t), kids := if (rd H k).leaf then (rd H k).kids else (rd H k).kids.take (minKeys t + 1) })
    (hrd3r : rd H3 r = { creator := (rd H k).creator, leaf := (rd H k).leaf, elts := (rd H k).elts.drop (minKeys t + 1), kids := if (rd H k).leaf then [] else (rd H k).kids.drop (minKeys t + 1) })
    (hr3 : r < H3.size) :
    absN H3 h k = (split t (absN H h k)).1 ∧ absN H3 h r = (split t (absN H h k)).2.2 ∧
    (split t (absN H h k)).2.1 = eltAt (rd H k).elts (minKeys t) ∧ HT H3 h k ∧ HT H3 h r ∧
    (∀ x, List.count x (reach H3 h k ++ reach H3 h r) ≤ List.count x (reach H h k) + List.count x [r]) := by
  have hklt := HT_lt gk.ht
  have hk3 : k < H3.size := by have := so.size; omega
  cases h with
  | zero =>
    refine ⟨by simp [absN, hrd3k, split], by simp [absN, hrd3r, split], by simp [absN, split],
      ⟨hk3, by rw [hrd3k]; exact gk.ht.2⟩, ⟨hr3, by rw [hrd3r]; exact gk.ht.2⟩, ?_⟩
    intro x
    simp only [reach, List.cons_append, List.nil_append, List.count_cons, List.count_nil]
    omega
  | succ h =>
    have hleaf : (rd H k).leaf = false := gk.ht.2.1
    have hklen := gk.ht.2.2.1
    have hgk : ∀ g' ∈ (rd H k).kids, absN H3 h g' = absN H h g' ∧ reach H3 h g' = reach H h g' ∧ HT H3 h g' := by
      intro g' hg'
      apply frame_off so (HT_kid gk.ht hg')
      intro x hx hxw
      rcases hW x hxw with rfl | hn
      · exact self_notin_kid gk.nodup hg' hx
      · exact hn (reach_kid_sub hg' x hx)
    have hsubt : ∀ g' ∈ (rd H k).kids.take (minKeys t + 1), g' ∈ (rd H k).kids := fun g' hg' => List.mem_of_mem_take hg'
    have hsubd : ∀ g' ∈ (rd H k).kids.drop (minKeys t + 1), g' ∈ (rd H k).kids := fun g' hg' => List.mem_of_mem_drop hg'
    have hmt : ((rd H k).kids.take (minKeys t + 1)).map (absN H3 h) = ((rd H k).kids.map (absN H h)).take (minKeys t + 1) := by
      rw [← List.map_take]
      exact List.map_congr_left (fun g' hg' => (hgk g' (hsubt g' hg')).1)
    have hmd : ((rd H k).kids.drop (minKeys t + 1)).map (absN H3 h) = ((rd H k).kids.map (absN H h)).drop (minKeys t + 1) := by
      rw [← List.map_drop]
      exact List.map_congr_left (fun g' hg' => (hgk g' (hsubd g' hg')).1)
    have hrt : ((rd H k).kids.take (minKeys t + 1)).flatMap (reach H3 h) = ((rd H k).kids.take (minKeys t + 1)).flatMap (reach H h) := by
      rw [List.flatMap_def, List.flatMap_def]; congr 1
      exact List.map_congr_left (fun g' hg' => (hgk g' (hsubt g' hg')).2.1)
    have hrdr : ((rd H k).kids.drop (minKeys t + 1)).flatMap (reach H3 h) = ((rd H k).kids.drop (minKeys t + 1)).flatMap (reach H h) := by
      rw [List.flatMap_def, List.flatMap_def]; congr 1
      exact List.map_congr_left (fun g' hg' => (hgk g' (hsubd g' hg')).2.1)
    simp only [maxKeys] at hmax
    refine ⟨?_, ?_, by simp [absN_succ, split], ?_, ?_, ?_⟩
    · simp only [absN_succ, hrd3k, hleaf, Bool.false_eq_true, if_false, split, hmt]
    · simp only [absN_succ, hrd3r, hleaf, Bool.false_eq_true, if_false, split, hmd]
    · refine ⟨hk3, by rw [hrd3k]; exact hleaf, ?_, ?_⟩
      · rw [hrd3k]; simp only [hleaf, Bool.false_eq_true, if_false, List.length_take, minKeys]; omega
      · rw [hrd3k]; simp only [hleaf, Bool.false_eq_true, if_false]
        intro g' hg'; exact (hgk g' (hsubt g' hg')).2.2
    · refine ⟨hr3, by rw [hrd3r]; exact hleaf, ?_, ?_⟩
      · rw [hrd3r]; simp only [hleaf, Bool.false_eq_true, if_false, List.length_drop, minKeys]; omega
      · rw [hrd3r]; simp only [hleaf, Bool.false_eq_true, if_false]
        intro g' hg'; exact (hgk g' (hsubd g' hg')).2.2
    · intro x
      simp only [reach_succ, hrd3k, hrd3r, hleaf, Bool.false_eq_true, if_false, hrt, hrdr]
      rw [flatMap_take_drop (rd H k).kids (reach H h) (minKeys t + 1)]
      simp only [List.count_append, List.count_cons, List.count_nil]
      omega

theorem grow_sim {c t : Nat} {H : Heap} {h r1 : Nat} (ht1 : 1 ≤ t) (g : Good c H h r1)
    (hmax : (rd H r1).elts.length = maxKeys t) :
    RUpd c H (hGrow t H c r1).1 h r1 (h + 1) (hGrow t H c r1).2
      (.node [(split t (absN H h r1)).2.1] [(split t (absN H h r1)).1, (split t (absN H h r1)).2.2]) ∧
    Good c (hGrow t H c r1).1 (h + 1) (hGrow t H c r1).2 := by
  have hr1lt := HT_lt g.ht
  let NR : Cell := { creator := c, leaf := false, elts := [], kids := [] }
  let K := rd H r1
  let R : Cell := { creator := K.creator, leaf := K.leaf, elts := K.elts.drop (minKeys t + 1),
                    kids := if K.leaf then [] else K.kids.drop (minKeys t + 1) }
  let K' : Cell := { K with elts := K.elts.take (minKeys t),
                            kids := if K.leaf then K.kids else K.kids.take (minKeys t + 1) }
  let P' : Cell := { NR with elts := [eltAt K.elts (minKeys t)], kids := [r1, H.size + 1] }
  let Ha := (alloc H NR).1
  let Hb0 := (alloc Ha R).1
  let Hb := wr Hb0 r1 K'
  let H3 := wr Hb H.size P'
  have hsza : Ha.size = H.size + 1 := by simp [Ha]
  have hrdar1 : rd Ha r1 = K := rd_alloc_old _ hr1lt
  have hsplit : hSplit t Ha r1 = (Hb, eltAt K.elts (minKeys t), H.size + 1) := by
    unfold hSplit
    rw [hrdar1]
    simp only [alloc_snd, hsza]
    rfl
  have e2 : rd Hb H.size = NR := by
    show rd (wr Hb0 r1 K') H.size = _
    rw [rd_wr_other _ (show r1 ≠ H.size by omega)]
    show rd (alloc Ha R).1 H.size = _
    rw [rd_alloc_old _ (by omega)]
    exact rd_alloc_new _ _
  have hadopt : hAdopt Hb H.size r1 (eltAt K.elts (minKeys t)) (H.size + 1) = H3 := by
    unfold hAdopt
    rw [e2]
    simp [NR, searchInNode_nil, insAt, H3, P']
  have hgrow : hGrow t H c r1 = (H3, H.size) := by
    unfold hGrow
    simp only [alloc_snd]
    rw [show (alloc H NR).1 = Ha from rfl, hsplit]
    simp only []
    rw [hadopt]
  rw [hgrow]
  simp only []
  have hszb : Hb.size = H.size + 2 := by simp [Hb, Hb0, hsza]
  have hsz3 : H3.size = H.size + 2 := by simp [H3, hszb]
  have hrd3n : rd H3 H.size = P' := rd_wr_same _ (by omega)
  have hrd3k : rd H3 r1 = K' := by
    show rd (wr Hb H.size P') r1 = _
    rw [rd_wr_other _ (show H.size ≠ r1 by omega)]
    exact rd_wr_same _ (by simp [Hb0, hsza]; omega)
  have hrd3r : rd H3 (H.size + 1) = R := by
    show rd (wr Hb H.size P') (H.size + 1) = _
    rw [rd_wr_other _ (show H.size ≠ H.size + 1 by omega)]
    show rd (wr Hb0 r1 K') (H.size + 1) = _
    rw [rd_wr_other _ (show r1 ≠ H.size + 1 by omega)]
    have := rd_alloc_new Ha R
    rwa [hsza] at this
  have so : SameOff [H.size, r1] H H3 :=
    ((((SameOff.refl H).alloc NR).alloc R).wr r1 K').wr H.size P'
  obtain ⟨a1, a2, a3, a4, a5, a6⟩ := split_halves (t := t) (r := H.size + 1) ht1 g hmax so
    (by
      intro x hx
      simp at hx
      rcases hx with rfl | rfl
      · right; intro hm; have := reach_lt g.ht _ hm; omega
      · left; rfl)
    hrd3k hrd3r (by omega)
  have hreach3 : reach H3 (h + 1) H.size = H.size :: (reach H3 h r1 ++ reach H3 h (H.size + 1)) := by
    simp [reach_succ, hrd3n, P']
  have hold : ∀ x ∈ reach H h r1, x < H.size := reach_lt g.ht
  have hns := nodup_sub_of_count (new := reach H3 (h + 1) H.size) (old := reach H h r1)
    (fresh := [H.size, H.size + 1])
    (by
      intro x
      rw [hreach3]
      have := a6 x
      simp only [List.count_append, List.count_cons, List.count_nil] at this ⊢
      omega)
    g.nodup (by simp) (by
      intro x hx hxo
      have := hold x hxo
      simp at hx; omega)
  have hht : HT H3 (h + 1) H.size := by
    refine ⟨by omega, by rw [hrd3n], by rw [hrd3n]; simp [P'], ?_⟩
    rw [hrd3n]
    intro j hj
    simp [P'] at hj
    rcases hj with rfl | rfl
    · exact a4
    · exact a5
  refine ⟨⟨by omega, ?_, ?_, ?_, hht, hns.1, ?_, ?_⟩, ⟨hht, hns.1, by rw [hrd3n]⟩⟩
  · intro x hx hcond
    apply so.same x hx
    simp only [List.mem_cons, List.not_mem_nil, or_false, not_or]
    refine ⟨by omega, ?_⟩
    rintro rfl
    rcases hcond with hc | hc
    · exact hc (self_mem_reach H h x)
    · exact hc g.own
  · intro x hx
    by_cases hxk : x = r1
    · subst hxk; rw [hrd3k]
    · rw [so.same x hx (by simp [hxk]; omega)]
  · intro x hx1 hx2
    have : x = H.size ∨ x = H.size + 1 := by omega
    rcases this with rfl | rfl
    · rw [hrd3n]
    · rw [hrd3r]; exact g.own
  · intro x hx
    rcases hns.2 x hx with h' | h'
    · exact Or.inl h'
    · right; simp at h'; omega
  · simp only [absN_succ, hrd3n, P', List.map_cons, List.map_nil, a1, a2, a3, K]

/-! ## `insert_element` -/

theorem growRoot_eq (t : Nat) (n : Node) :
    growRoot t n = if isMaximal t n then .node [(split t n).2.1] [(split t n).1, (split t n).2.2] else n := by
  unfold growRoot
  split
  · rcases split t n with ⟨l, m, r⟩
    simp [adopt, searchInNode_nil, insAt]
  · rfl

theorem insertRoot_sim {c t : Nat} (ht : 2 ≤ t) (io : Bool) (e : Elt) {H : Heap} {h root : Nat}
    (hht : HT H h root) (nd : (reach H h root).Nodup) (hsh : Shape t h (absN H h root))
    (htop : (rd H root).elts.length ≤ maxKeys t) (hso : Sorted (flat (absN H h root))) :
    ∃ h', RUpd c H (hInsertRoot t io H c root e).1 h root h' (hInsertRoot t io H c root e).2.1
        (insertRoot t io (absN H h root) e).1 ∧
      Shape t h' (insertRoot t io (absN H h root) e).1 ∧
      (hInsertRoot t io H c root e).2.2 = (insertRoot t io (absN H h root) e).2 ∧
      (rd (hInsertRoot t io H c root e).1 (hInsertRoot t io H c root e).2.1).creator = c := by
  obtain ⟨u1, g1⟩ := cow_root_spec (c := c) hht nd
  unfold hInsertRoot insertRoot
  rcases hcw : cow H c root with ⟨H1, r1⟩
  rw [hcw] at u1 g1
  simp only [] at u1 g1 ⊢
  have hmaxeq : isMaximalC t (rd H1 r1) = isMaximal t (absN H h root) := by
    simp only [isMaximalC, isMaximal]
    rw [← u1.abs, absN_elts]
  rw [hmaxeq, growRoot_eq]
  -- the state after the optional root growth
  have hstep : ∃ h' H2 r2 n2, (if isMaximal t (absN H h root) = true then hGrow t H1 c r1 else (H1, r1)) = (H2, r2) ∧
      (if isMaximal t (absN H h root) = true then
        Node.node [(split t (absN H h root)).2.1] [(split t (absN H h root)).1, (split t (absN H h root)).2.2]
       else absN H h root) = n2 ∧
      RUpd c H H2 h root h' r2 n2 ∧ Good c H2 h' r2 ∧ Shape t h' n2 ∧ n2.elts.length < maxKeys t ∧
      Sorted (flat n2) := by
    cases hmx : isMaximal t (absN H h root) with
    | true =>
      have hmaxlen : (rd H1 r1).elts.length = maxKeys t := by
        have : (absN H h root).elts.length = maxKeys t := by simpa [isMaximal] using hmx
        rw [← u1.abs, absN_elts] at this; exact this
      obtain ⟨ug, gg⟩ := grow_sim (t := t) (by omega) g1 hmaxlen
      rw [u1.abs] at ug
      have hmaxk : (absN H h root).elts.length = maxKeys t := by simpa [isMaximal] using hmx
      obtain ⟨sl, sr, sll, srl, sflat⟩ := split_spec (t := t) (by omega) hsh hmaxk
      have hocc : ∀ x : Node, x.elts.length = minKeys t → Occ t x := by
        intro x hx; simp only [Occ, hx, minKeys, maxKeys]; omega
      refine ⟨h + 1, (hGrow t H1 c r1).1, (hGrow t H1 c r1).2, _, by simp, by simp, RUpd.trans u1 ug, gg, ?_, ?_, ?_⟩
      · refine shape_node_iff.mpr ⟨by simp, ?_⟩
        intro x hx
        simp at hx
        rcases hx with rfl | rfl
        · exact ⟨sl, hocc _ sll⟩
        · exact ⟨sr, hocc _ srl⟩
      · simp [Node.elts, maxKeys]; omega
      · have : flat (Node.node [(split t (absN H h root)).2.1] [(split t (absN H h root)).1, (split t (absN H h root)).2.2])
            = flat (absN H h root) := by simp [inter, sflat]
        rw [this]; exact hso
    | false =>
      have hnm : (absN H h root).elts.length ≠ maxKeys t := by simpa [isMaximal] using hmx
      refine ⟨h, H1, r1, _, by simp, by simp, u1, g1, hsh, ?_, hso⟩
      rw [absN_elts] at hnm ⊢
      omega
  obtain ⟨h', H2, r2, n2, e1, e2, u2, g2, hsh2, hlt2, hso2⟩ := hstep
  rw [e1, e2]
  simp only []
  rw [heightOf_of_HT g2.ht g2.nodup, height_of_shape hsh2]
  have hrd2 : (rd H2 r2).elts.length < maxKeys t := by rw [← u2.abs, absN_elts] at hlt2; exact hlt2
  obtain ⟨s1, s2⟩ := insertNonfull_sim (c := c) ht io h' H2 r2 e g2 (by rw [u2.abs]; exact hsh2)
    (by rw [u2.abs]; exact hso2) hrd2
  rw [u2.abs] at s1 s2
  have hspec := insertNonfull_spec ht io e h' n2 hsh2 hso2 hlt2
  rcases hins : hInsertNonfull t io h' H2 r2 e with ⟨H3, old⟩
  rw [hins] at s1 s2
  simp only [] at s1 s2 ⊢
  refine ⟨h', RUpd.trans u2 s1.toRUpd, hspec.shape, s2, ?_⟩
  rw [s1.creator r2 (HT_lt g2.ht)]; exact g2.own

end Model.BTreeCow

import Proofs.WritersQueue
import Proofs.WritersSerial
/-! The combined inductive invariant and its consequences (enabledness, absence of deadlock). -/
set_option linter.unusedSimpArgs false
namespace Model.Writers
variable {c : Cfg} {n : Nat} {s s' : State} {t : Tid}

structure Inv (c : Cfg) (n : Nat) (s : State) : Prop where
  lk : InvLock s
  ev : InvEv s
  q : InvQ s
  ser : InvSer c s
  /-- threads outside the pool never move -/
  pool : ∀ t, n ≤ t → (s.loc t).pc = .idle

theorem inv_init (c : Cfg) (n : Nat) : Inv c n init :=
  ⟨invLock_init, invEv_init, invQ_init, invSer_init c, by intro t _; rfl⟩

theorem pool_trans (hp : ∀ u, n ≤ u → (s.loc u).pc = .idle) (ht : t < n) (htr : Trans c s t s') :
    ∀ u, n ≤ u → (s'.loc u).pc = .idle := by
  intro u hu
  have hne : u ≠ t := by intro e; subst e; exact absurd ht (Nat.not_lt.mpr hu)
  cases htr <;> simp only [setLoc_loc, if_neg hne] <;> exact hp u hu

theorem inv_trans (h : Inv c n s) (ht : t < n) (htr : Trans c s t s') : Inv c n s' :=
  have hE' := invEv_trans h.lk h.ev htr
  ⟨invLock_trans h.lk htr, hE', invQ_trans h.lk h.ev hE' h.q htr, invSer_trans h.lk h.ser htr, pool_trans h.pool ht htr⟩

theorem reach_inv (h : Reach c n s) : Inv c n s := by
  induction h with
  | init => exact inv_init c n
  | step t _ ht hs ih => exact inv_trans ih ht (step_trans hs)

/-- when a thread can move -/
def enabled (s : State) (u : Tid) : Prop :=
  match (s.loc u).pc with
  | .wAcq | .cAcq | .rAcq | .rdAcq | .xAcq => s.lock = none
  | .wWait => ∃ e, (s.loc u).ev = some e ∧ e ∈ s.evSet
  | .wAppend => (s.loc u).ev ≠ none
  | .ePop => s.waiters ≠ []
  | .eSet => s.writeEvent ≠ none
  | .done => False
  | _ => True

theorem enabled_iff (c : Cfg) (s : State) (u : Tid) : (step c s u).isSome ↔ enabled s u := by
  unfold enabled
  cases hpc : (s.loc u).pc <;> simp only [step, hpc]
  case idle => cases c.role u <;> simp
  case wAcq | cAcq | rAcq | rdAcq | xAcq => by_cases hl : s.lock = none <;> simp [hl]
  case wTest => split <;> simp
  case wAppend => cases (s.loc u).ev <;> simp
  case wWait =>
    cases hev : (s.loc u).ev with
    | none => simp
    | some e => by_cases he : e ∈ s.evSet <;> simp [he]
  case wBody => split <;> simp
  case eTestW => split <;> simp
  case cPrune => split <;> simp
  case rdPick => split <;> (try split) <;> simp
  case ePop => cases s.waiters <;> simp
  case eSet => cases s.writeEvent <;> simp
  all_goals simp

theorem lt_of_not_idle (h : Inv c n s) {u : Tid} (hp : (s.loc u).pc ≠ .idle) : u < n := by
  rcases Nat.lt_or_ge u n with h1 | h1
  · exact h1
  · exact absurd (h.pool u h1) hp

/-- the lock holder is never blocked -/
theorem holder_enabled (h : Inv c n s) {u : Tid} (hl : s.lock = some u) : enabled s u := by
  have hh := (h.lk.lock u).mpr hl
  have h1 := h.ev.app u
  have h2 := h.ev.pop u
  have h3 := h.ev.setE u
  unfold enabled
  cases hpc : (s.loc u).pc <;> simp [hpc] at hh h1 h2 h3 ⊢
  · exact h1.1
  · exact h2.1
  · obtain ⟨_, e, he, _⟩ := h3; simp [he]

/-- with the lock free, a thread that is not finished and not parked on an unset event can move -/
theorem free_enabled (h : Inv c n s) {u : Tid} (hl : s.lock = none) (hd : (s.loc u).pc ≠ .done)
    (hw : (s.loc u).pc = .wWait → ∃ e, (s.loc u).ev = some e ∧ e ∈ s.evSet) : enabled s u := by
  have hh := h.lk.lock u
  rw [hl] at hh
  unfold enabled
  cases hpc : (s.loc u).pc <;> simp [hpc] at hh hd hw ⊢ <;> first | exact hl | exact hw

theorem deadlock_free_aux (h : Inv c n s) (ht : t < n) (hd : (s.loc t).pc ≠ .done) : ∃ u, u < n ∧ enabled s u := by
  rcases hl : s.lock with _ | v
  · -- the lock is free
    by_cases hw : (s.loc t).pc = .wWait → ∃ e, (s.loc t).ev = some e ∧ e ∈ s.evSet
    · exact ⟨t, ht, free_enabled h hl hd hw⟩
    · -- t is parked on an event that is not set
      have hpc : (s.loc t).pc = .wWait := by
        apply Classical.byContradiction; intro hne; exact hw (fun h => absurd h hne)
      obtain ⟨hev, hq⟩ := h.ev.wait t hpc
      rcases hev' : (s.loc t).ev with _ | e
      · exact absurd hev' hev
      have hns : e ∉ s.evSet := by
        intro hin; exact hw (fun _ => ⟨e, hev', hin⟩)
      have htokset : ∀ e', s.writeEvent = some e' → e' ∈ s.evSet := by
        intro e' he'
        rcases (h.ev.tok e' he').2.2.2.2.1 with h1 | h1
        · exact h1
        · exact absurd hl h1.2.1
      have hwq : s.waiters ≠ [] := by
        rcases hq e hev' with h1 | h1
        · intro hnil; rw [hnil] at h1; cases h1
        · exact absurd (htokset e h1) hns
      rcases h.ev.orphan hwq with h1 | h1 | h1 | h1
      · -- an open transaction: its owner can move
        rcases hwt : s.writeTxn with _ | u
        · exact absurd hwt h1
        have hown := (h.lk.own u).mpr hwt
        have hu : u < n := lt_of_not_idle h (by intro hi; rw [hi] at hown; simp at hown)
        refine ⟨u, hu, free_enabled h hl ?_ ?_⟩
        · intro hi; rw [hi] at hown; simp at hown
        · intro hi; rw [hi] at hown; simp at hown
      · -- the token is out: its holder can move
        rcases hwe : s.writeEvent with _ | e'
        · exact absurd hwe h1
        obtain ⟨_, hev2, htp, _, _, _⟩ := h.ev.tok e' hwe
        have hset := htokset e' hwe
        have hu : s.owner e' < n := lt_of_not_idle h (by intro hi; rw [hi] at htp; simp at htp)
        refine ⟨s.owner e', hu, free_enabled h hl ?_ ?_⟩
        · intro hi; rw [hi] at htp; simp at htp
        · intro _; exact ⟨e', hev2, hset⟩
      · exact absurd hl h1.1
      · exact absurd hl h1.1
  · -- the lock is held: its holder can move
    have hh := (h.lk.lock v).mpr hl
    have hv : v < n := lt_of_not_idle h (by intro hi; rw [hi] at hh; simp at hh)
    exact ⟨v, hv, holder_enabled h hl⟩

end Model.Writers

import Proofs.RenderBasic
import Proofs.NameCompress
/-! The relation "decoded name vs written name" the render/parse proofs are parametric in, with its two instances:
`eqvSpec` — equal up to ASCII case (always available), and `exactSpec S` — identical, available when the names
written all lie in a suffix-closed set `S` no two members of which differ only in ASCII case (`CaseConsistent`). -/
namespace Model

/-- the library's `Name.__eq__`: equal up to ASCII case -/
def NameEqv (a b : Name) : Prop := lowerName a = lowerName b

theorem TableSound.mono {R out t} (h : TableSound R out t) (ext : Bytes) : TableSound R (out ++ ext) t :=
  fun p hp => (h p hp).mono ext

theorem TableSound.append {R out a b} (ha : TableSound R out a) (hb : TableSound R out b) : TableSound R out (a ++ b) := by
  intro p hp
  rcases List.mem_append.mp hp with h | h
  · exact ha p h
  · exact hb p h

/-- a relation `R decoded written` together with the class `Good` of names for which writing them with compression
keeps every table entry `R`-decodable and makes the name itself `R`-decodable where it was written -/
structure RelSpec where
  R : Name → Name → Prop
  Good : Name → Prop
  toEqv : ∀ {a b : Name}, R a b → NameEqv a b
  goodRoot : Good [[]]
  rootRefl : R [[]] [[]]
  sound : ∀ (A : Bytes) (t : CTable) (full : Name), WfName full → isAbs full = true → Good full →
    TableSound R A t →
    TableSound R (A ++ (cLoop A.length t full).1) (t ++ (cLoop A.length t full).2) ∧
    ∃ ls, Dec (A ++ (cLoop A.length t full).1) A.length A.length ls (A.length + (cLoop A.length t full).1.length)
      ∧ R (ls ++ [[]]) full

/-- one name written with compression at the end of a buffer whose table is sound (up to ASCII case) -/
theorem cLoop_sound (A : Bytes) (t : CTable) (full : Name) (hw : WfName full) (ha : isAbs full = true)
    (hs : TableSound NameEqv A t) :
    TableSound NameEqv (A ++ (cLoop A.length t full).1) (t ++ (cLoop A.length t full).2) ∧
    ∃ ls, Dec (A ++ (cLoop A.length t full).1) A.length A.length ls (A.length + (cLoop A.length t full).1.length)
      ∧ NameEqv (ls ++ [[]]) full := by
  obtain ⟨ls0, hn, hp⟩ := abs_split full hw ha
  have hplain : PlainLabels full.dropLast := by rw [hn]; simpa using hp
  have hlast : full.getLast? = some [] := by rw [hn]; simp
  have hhit : ∀ p ∈ t, ∀ k, lowerName p.1 = lowerName (full.drop k) → ∀ m, NameEqv m p.1 → NameEqv m (full.drop k) := by
    intro p _ k hk m hm; exact hm.trans hk
  obtain ⟨ext, new, h1, h2, h3, h4⟩ := loop_sound NameEqv
    (by intro l a b hab; simp [NameEqv, lowerName] at hab ⊢; exact hab) rfl A t hs full hplain hlast hhit
    A [] ⟨[], by simp⟩ (by simp)
  simp only [List.append_nil] at h1 h2
  rw [toWireCLoop_eq] at h1 h2
  simp only at h1 h2
  have e1 : (cLoop A.length t full).1 = ext := List.append_cancel_left h1
  have e2 : (cLoop A.length t full).2 = new := List.append_cancel_left h2
  rw [e1, e2]
  refine ⟨?_, ?_⟩
  · exact (hs.mono ext).append (fun p hp => (h4 p hp).2)
  · obtain ⟨ls, hd, hr⟩ := h3 A.length (Nat.le_refl _)
    refine ⟨ls, ?_, hr⟩
    have : (A ++ ext).length = A.length + ext.length := by simp
    rw [this] at hd
    exact hd

/-- names compared with the library's own equality: no side condition -/
def eqvSpec : RelSpec where
  R := NameEqv
  Good := fun _ => True
  toEqv := fun h => h
  goodRoot := trivial
  rootRefl := rfl
  sound := fun A t full hw ha _ hs => cLoop_sound A t full hw ha hs

/-- a set of names closed under taking suffixes, no two members of which are equal only up to ASCII case
(DESIGN §6 `CaseConsistent`, stated for the whole message) -/
structure CaseClosed (S : Name → Prop) : Prop where
  root : S [[]]
  drop : ∀ n k, S n → k < n.length → S (n.drop k)
  consistent : ∀ a b, S a → S b → lowerName a = lowerName b → a = b

/-- decoded = written, and the written name belongs to `S` -/
def ExactIn (S : Name → Prop) (a b : Name) : Prop := a = b ∧ S b

theorem cLoop_sound_exact (S : Name → Prop) (hS : CaseClosed S) (A : Bytes) (t : CTable) (full : Name)
    (hw : WfName full) (ha : isAbs full = true) (hfull : S full) (hs : TableSound (ExactIn S) A t) :
    TableSound (ExactIn S) (A ++ (cLoop A.length t full).1) (t ++ (cLoop A.length t full).2) ∧
    ∃ ls, Dec (A ++ (cLoop A.length t full).1) A.length A.length ls (A.length + (cLoop A.length t full).1.length)
      ∧ ExactIn S (ls ++ [[]]) full := by
  obtain ⟨ls0, hn, hp⟩ := abs_split full hw ha
  have hplain : PlainLabels full.dropLast := by rw [hn]; simpa using hp
  have hlast : full.getLast? = some [] := by rw [hn]; simp
  -- the table is in particular sound for plain equality
  have hsEq : TableSound Eq A t := by
    intro p hp'
    obtain ⟨h1, ls, fwd, hd, hr⟩ := hs p hp'
    exact ⟨h1, ls, fwd, hd, hr.1⟩
  have hdropS : ∀ k, k < full.length → S (full.drop k) := fun k hk => hS.drop full k hfull hk
  have hhit : ∀ p ∈ t, ∀ k, lowerName p.1 = lowerName (full.drop k) → ∀ m, m = p.1 → m = full.drop k := by
    intro p hp' k hk m hm
    rw [hm]
    obtain ⟨_, ls, fwd, _, hr⟩ := hs p hp'
    by_cases hkl : k < full.length
    · exact hS.consistent _ _ hr.2 (hdropS k hkl) hk
    · have : full.drop k = [] := List.drop_eq_nil_of_le (by omega)
      rw [this] at hk ⊢
      have : (lowerName p.1).length = 0 := by rw [hk]; simp [lowerName]
      have : p.1.length = 0 := by simpa [lowerName] using this
      exact List.length_eq_zero_iff.mp this
  obtain ⟨ext, new, h1, h2, h3, h4⟩ := loop_sound Eq
    (by intro l a b hab; rw [hab]) rfl A t hsEq full hplain hlast hhit
    A [] ⟨[], by simp⟩ (by simp)
  simp only [List.append_nil] at h1 h2
  rw [toWireCLoop_eq] at h1 h2
  simp only at h1 h2
  have e1 : (cLoop A.length t full).1 = ext := List.append_cancel_left h1
  have e2 : (cLoop A.length t full).2 = new := List.append_cancel_left h2
  rw [e1, e2]
  refine ⟨?_, ?_⟩
  · refine (hs.mono ext).append ?_
    intro p hp'
    obtain ⟨⟨k, hk⟩, h5, ls, fwd, hd, hr⟩ := h4 p hp'
    refine ⟨h5, ls, fwd, hd, hr, ?_⟩
    rw [hk]
    by_cases hkl : k < full.length
    · exact hdropS k hkl
    · -- an entry for the empty suffix is never made; its key would be []
      exfalso
      have hnil : full.drop k = [] := List.drop_eq_nil_of_le (by omega)
      rw [hnil] at hk
      rw [hk] at hr
      simp at hr
  · obtain ⟨ls, hd, hr⟩ := h3 A.length (Nat.le_refl _)
    refine ⟨ls, ?_, hr, hfull⟩
    have : (A ++ ext).length = A.length + ext.length := by simp
    rw [this] at hd
    exact hd

/-- names compared for identity, for messages all of whose names lie in a case-consistent suffix-closed set -/
def exactSpec (S : Name → Prop) (hS : CaseClosed S) : RelSpec where
  R := ExactIn S
  Good := S
  toEqv := fun h => by rw [h.1]; rfl
  goodRoot := hS.root
  rootRefl := ⟨rfl, hS.root⟩
  sound := fun A t full hw ha hg hs => cLoop_sound_exact S hS A t full hw ha hg hs

end Model

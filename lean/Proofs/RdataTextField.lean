import Proofs.RdataTextBlob
import Proofs.RdataTextEsc
import Proofs.NameText
/-! Round trip of each prefix field kind: print → tokenizer → parse (C05). -/
namespace Model

/-- the first token of a record must not be mistaken for the generic-syntax marker `\#` -/
def NotHash (t : Tok) : Prop := t.kind = .quoted ∨ ∀ x r, t.val = 92 :: x :: r → x ≠ 35

/-- what a field round trip consists of -/
def FieldRT (st : Style) (env : PEnv) (k : FK) (v : FV) (text : List Nat) (tok : Tok) : Prop :=
  printField st k v = some text ∧ Lexes text [tok] ∧ parseField env k tok = some v ∧ NotHash tok

theorem notHash_plain (s : List Nat) (h : Plain s) : NotHash ⟨.ident, s⟩ := by
  right
  intro x r e
  have e' : s = 92 :: x :: r := e
  have := (h 92 (by rw [e']; simp)).2
  exact absurd rfl this

/-! ### unsigned decimal fields -/

theorem asUint10_natToDec (max v : Nat) (hv : v ≤ max) : asUint 10 max ⟨.ident, natToDec v⟩ = some v := by
  unfold asUint
  simp [unescapeCP_plain_all _ (natToDec_plain v), pyInt10_natToDec]
  omega

theorem field_uint (st : Style) (env : PEnv) (max v : Nat) (hv : v ≤ max) :
    FieldRT st env (.uint max) (.n v) (natToDec v) ⟨.ident, natToDec v⟩ := by
  refine ⟨rfl, lexes_plain _ (natToDec_ne_nil v) (natToDec_plain v), ?_, notHash_plain _ (natToDec_plain v)⟩
  simp [parseField, asUint10_natToDec max v hv]

theorem field_ttl (st : Style) (env : PEnv) (v : Nat) (hv : v ≤ Consts.maxTTL) :
    FieldRT st env .ttl (.n v) (natToDec v) ⟨.ident, natToDec v⟩ := by
  refine ⟨rfl, lexes_plain _ (natToDec_ne_nil v) (natToDec_plain v), ?_, notHash_plain _ (natToDec_plain v)⟩
  have hne : (natToDec v).isEmpty = false := by
    cases h : natToDec v with
    | nil => exact absurd h (natToDec_ne_nil v)
    | cons _ _ => rfl
  simp only [parseField, asTtl, unescapeCP_plain_all _ (natToDec_plain v), ttlFromText, hne, natToDec_all_isDigit,
    decVal_natToDec]
  simp; omega

/-! ### algorithm numbers -/

/-- no mnemonic consists of digits only, so a number is never captured by the table -/
def NoDigitMnemonic (tbl : List (List Nat × Nat)) : Prop := ∀ p ∈ tbl, p.1.all isDigit = false

instance (tbl : List (List Nat × Nat)) : Decidable (NoDigitMnemonic tbl) := by unfold NoDigitMnemonic; exact inferInstance

theorem noDigitMnemonic_generated : NoDigitMnemonic ConstsC05.algMnemonics := by decide

theorem lookupAssoc_none (k : List Nat) (tbl : List (List Nat × Nat)) (h : ∀ p ∈ tbl, p.1 ≠ k) : lookupAssoc k tbl = none := by
  induction tbl with
  | nil => rfl
  | cons p ps ih =>
    obtain ⟨a, v⟩ := p
    have ha : a ≠ k := h (a, v) (by simp)
    simp [lookupAssoc, ha, ih (fun q hq => h q (by simp [hq]))]

theorem upperC_digit (c : Nat) (h : 48 ≤ c ∧ c ≤ 57) : upperC c = c := by
  unfold upperC; have : ¬ (97 ≤ c ∧ c ≤ 122) := by omega
  simp [this]

theorem map_upperC_natToDec (v : Nat) : (natToDec v).map upperC = natToDec v := by
  have : ∀ c ∈ natToDec v, upperC c = c := fun c hc => upperC_digit c (natToDec_digits v c hc)
  conv => rhs; rw [← List.map_id (natToDec v)]
  exact List.map_congr_left this

theorem algoFromText_natToDec (v : Nat) (hv : v ≤ 255) : algoFromText (natToDec v) = some v := by
  unfold algoFromText
  have hnd := noDigitMnemonic_generated
  have hl : lookupAssoc (natToDec v) ConstsC05.algMnemonics = none := by
    apply lookupAssoc_none
    intro p hp e
    have := hnd p hp
    rw [e, natToDec_all_isDigit] at this
    exact Bool.noConfusion this
  have hne : (natToDec v).isEmpty = false := by
    cases h : natToDec v with
    | nil => exact absurd h (natToDec_ne_nil v)
    | cons _ _ => rfl
  simp [map_upperC_natToDec, hl, hne, natToDec_all_isDigit, decVal_natToDec, hv]

theorem field_algo (st : Style) (env : PEnv) (v : Nat) (hv : v ≤ 255) :
    FieldRT st env .algo (.n v) (natToDec v) ⟨.ident, natToDec v⟩ := by
  refine ⟨rfl, lexes_plain _ (natToDec_ne_nil v) (natToDec_plain v), ?_, notHash_plain _ (natToDec_plain v)⟩
  simp [parseField, unescapeCP_plain_all _ (natToDec_plain v), algoFromText_natToDec v hv]

/-! ### character-strings (octet path: `get_string_as_bytes`) -/

theorem field_cstr_quoted (st : Style) (env : PEnv) (maxTok maxBytes : Option Nat) (s : Bytes)
    (hs : ∀ c ∈ s, c < 256) (h1 : ∀ m, maxTok = some m → s.length ≤ m) (h2 : ∀ m, maxBytes = some m → s.length ≤ m) :
    FieldRT st env (.cstr maxTok maxBytes true) (.b s) (quote (escapifyR s)) ⟨.quoted, escapifyR s⟩ := by
  have hesc := escROk_generated
  refine ⟨by simp [printField], ?_, ?_, Or.inl rfl⟩
  · have := lexes_quoted (escapifyR s) (quoteBody_escapify _ hesc s hs)
    simpa [quote] using this
  · have hu : unescapeBytes (escapifyR s) = some s := unescapeBytes_escapify _ hesc s hs
    have ha : asStringBytes maxTok ⟨.quoted, escapifyR s⟩ = some s := by
      unfold asStringBytes
      simp only [hu]
      cases maxTok with
      | none => rfl
      | some m =>
        have := h1 m rfl
        have : ¬ (m ≠ 0 ∧ s.length > m) := by omega
        simp [this]
    have he : bytesMax maxBytes s = some s := by
      unfold bytesMax
      cases maxBytes with
      | none => rfl
      | some m =>
        have := h2 m rfl
        have : ¬ s.length > m := by omega
        simp [this]
    simp [parseField, ha, he]

/-- no alphanumeric character needs escaping (obligation on `dns.rdata._escaped`) -/
def EscNoAlnum (esc : List Nat) : Prop := ∀ d ∈ esc, isAlnumC d = false

instance (esc : List Nat) : Decidable (EscNoAlnum esc) := by unfold EscNoAlnum; exact inferInstance

theorem escNoAlnum_generated : EscNoAlnum Consts.rdataEscaped := by decide

theorem isAlnumC_facts (c : Nat) (h : isAlnumC c = true) : 0x20 ≤ c ∧ c < 0x7F ∧ isDelim c = false ∧ c ≠ 92 := by
  simp [isAlnumC] at h
  simp [isDelim]
  omega

theorem escapifyR_alnum (s : Bytes) (hs : ∀ c ∈ s, isAlnumC c = true) : escapifyR s = s := by
  induction s with
  | nil => rfl
  | cons c cs ih =>
    have hc := hs c (by simp)
    have hne : c ∉ Consts.rdataEscaped := by
      intro hm; have := escNoAlnum_generated c hm; rw [hc] at this; exact Bool.noConfusion this
    obtain ⟨a, b, _, _⟩ := isAlnumC_facts c hc
    have ih' := ih (fun x hx => hs x (by simp [hx]))
    simp only [escapifyR, escapifyRWith, List.flatMap_cons] at ih' ⊢
    rw [ih']
    simp [escROctet, hne, a, b]

theorem unescapeBytes_plain_ascii (s : List Nat) (h : Plain s) (ha : ∀ c ∈ s, c < 128) : unescapeBytes s = some s := by
  induction s with
  | nil => rfl
  | cons c cs ih =>
    have hc := h c (by simp)
    have hu : utf8Char c = some [c] := by simp [utf8Char, ha c (by simp)]
    rw [unescapeBytes_plain c hc.2, hu, ih (fun x hx => h x (by simp [hx])) (fun x hx => ha x (by simp [hx]))]
    rfl

/-- CAA tag: printed bare; alphanumeric, so it is its own escaped form -/
theorem field_cstr_bare (st : Style) (env : PEnv) (maxTok maxBytes : Option Nat) (s : Bytes)
    (hne : s ≠ []) (hs : ∀ c ∈ s, isAlnumC c = true) (h1 : ∀ m, maxTok = some m → s.length ≤ m)
    (h2 : ∀ m, maxBytes = some m → s.length ≤ m) :
    FieldRT st env (.cstr maxTok maxBytes false) (.b s) s ⟨.ident, s⟩ := by
  have hpl : Plain s := fun c hc => ⟨(isAlnumC_facts c (hs c hc)).2.2.1, (isAlnumC_facts c (hs c hc)).2.2.2⟩
  have h128 : ∀ c ∈ s, c < 128 := fun c hc => by have := (isAlnumC_facts c (hs c hc)).2.1; omega
  refine ⟨by simp [printField, escapifyR_alnum s hs], lexes_plain s hne hpl, ?_, notHash_plain s hpl⟩
  have hu := unescapeBytes_plain_ascii s hpl h128
  have ha : asStringBytes maxTok ⟨.ident, s⟩ = some s := by
    unfold asStringBytes
    simp only [hu]
    cases maxTok with
    | none => rfl
    | some m =>
      have := h1 m rfl
      have : ¬ (m ≠ 0 ∧ s.length > m) := by omega
      simp [this]
  have he : bytesMax maxBytes s = some s := by
    unfold bytesMax
    cases maxBytes with
    | none => rfl
    | some m =>
      have := h2 m rfl
      have : ¬ s.length > m := by omega
      simp [this]
  simp [parseField, ha, he]

/-! ### IPv4 -/

theorem ip4Ntoa_plain (a b c d : Nat) :
    Plain (natToDec a ++ 46 :: (natToDec b ++ 46 :: (natToDec c ++ 46 :: natToDec d))) := by
  intro x hx
  simp only [List.mem_append, List.mem_cons] at hx
  have hd : ∀ n, x ∈ natToDec n → isDelim x = false ∧ x ≠ 92 := fun n h => natToDec_plain n x h
  have h46 : isDelim 46 = false ∧ (46 : Nat) ≠ 92 := by decide
  rcases hx with h | h | h | h | h | h | h
  · exact hd a h
  · subst h; exact h46
  · exact hd b h
  · subst h; exact h46
  · exact hd c h
  · subst h; exact h46
  · exact hd d h

theorem field_ip4 (st : Style) (env : PEnv) (a b c d : Nat) (ha : a < 256) (hb : b < 256) (hc : c < 256) (hd : d < 256) :
    ∃ text, FieldRT st env .ip4 (.b [a, b, c, d]) text ⟨.ident, text⟩ := by
  obtain ⟨t, ht, hat⟩ := ip4_roundtrip a b c d ha hb hc hd
  have htext : t = natToDec a ++ 46 :: (natToDec b ++ 46 :: (natToDec c ++ 46 :: natToDec d)) := by
    simp [ip4Ntoa] at ht; exact ht.symm
  have hpl : Plain t := by rw [htext]; exact ip4Ntoa_plain a b c d
  have hne : t ≠ [] := by
    rw [htext]; intro e
    have := congrArg List.length e
    simp at this
  refine ⟨t, by simp [printField, ht], lexes_plain t hne hpl, ?_, notHash_plain t hpl⟩
  simp [parseField, unescapeCP_plain_all t hpl, hat]

/-! ### NSEC3PARAM salt -/

theorem field_salt (st : Style) (env : PEnv) (s : Bytes) (hs : ∀ x ∈ s, x < 256) (hl : s.length ≤ 255) :
    ∃ text, FieldRT st env .salt (.b s) text ⟨.ident, text⟩ := by
  by_cases he : s = []
  · subst he
    refine ⟨[45], by simp [printField], lexes_plain [45] (by simp) (by intro c hc; simp at hc; subst hc; decide), ?_,
      notHash_plain _ (by intro c hc; simp at hc; subst hc; decide)⟩
    simp [parseField, unescapeCP]
  · have hpl := hexlify_plain s hs
    have hne : hexlify s ≠ [] := fun e => he ((hexlify_eq_nil s).mp e)
    refine ⟨hexlify s, by simp [printField, he], lexes_plain _ hne hpl, ?_, notHash_plain _ hpl⟩
    have h45 : hexlify s ≠ [45] := by
      intro e
      have := (hpl 45 (by rw [e]; simp))
      cases s with
      | nil => exact he rfl
      | cons x xs =>
        simp [hexlify] at e
    have hle : ¬ s.length > 255 := by omega
    simp [parseField, unescapeCP_plain_all _ hpl, h45, unhexlify_hexlify s hs, hle]

end Model

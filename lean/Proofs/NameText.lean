import Model.Name
/-! Helper lemmas for C01: the escape automaton of `from_text` inverts `_escapify`. -/
namespace Model

/-- What the round trip needs from the escaped set (checked by `decide` on the generated constant). -/
def EscOk (esc : List Nat) : Prop :=
  46 ∈ esc ∧ 92 ∈ esc ∧ 64 ∈ esc ∧ ∀ d ∈ esc, isDigit d = false

instance (esc : List Nat) : Decidable (EscOk esc) := by unfold EscOk; exact inferInstance

theorem escOk_generated : EscOk Consts.nameEscaped := by decide

theorem isDigit_dec (x : Nat) (h : x < 10) : isDigit (48 + x) = true := by
  simp [isDigit]; omega

theorem ftRun_escOctet (esc : List Nat) (hesc : EscOk esc) (L : List Label) (lab : Label) (c : Nat)
    (hc : c < 256) (rest : List Nat) :
    ftRun ⟨L, lab, none⟩ (escOctet esc c ++ rest) = ftRun ⟨L, lab ++ [c], none⟩ rest := by
  obtain ⟨h46, h92, _, hdig⟩ := hesc
  unfold escOctet
  split
  · -- escaped by backslash
    rename_i hmem
    have hd := hdig c hmem
    simp [ftRun, ftStep, hd]
  · split
    · rename_i hnot hpr
      have h1 : c ≠ 46 := fun h => hnot (h ▸ h46)
      have h2 : c ≠ 92 := fun h => hnot (h ▸ h92)
      simp [ftRun, ftStep, h1, h2]
    · -- decimal escape
      have d1 : isDigit (48 + c / 100) = true := isDigit_dec _ (by omega)
      have d2 : isDigit (48 + c / 10 % 10) = true := isDigit_dec _ (by omega)
      have d3 : isDigit (48 + c % 10) = true := isDigit_dec _ (by omega)
      have e : (c / 100 * 10 + c / 10 % 10) * 10 + c % 10 = c := by omega
      have hc' : ¬ 255 < c := by omega
      simp [dec3, ftRun, ftStep, d1, d2, d3, e, hc']

theorem ftRun_escapify (esc : List Nat) (hesc : EscOk esc) (l : Label) (hl : ∀ c ∈ l, c < 256)
    (L : List Label) (lab : Label) (rest : List Nat) :
    ftRun ⟨L, lab, none⟩ (escapifyWith esc l ++ rest) = ftRun ⟨L, lab ++ l, none⟩ rest := by
  induction l generalizing lab with
  | nil => simp [escapifyWith]
  | cons c cs ih =>
    have hc : c < 256 := hl c (by simp)
    have hcs : ∀ x ∈ cs, x < 256 := fun x hx => hl x (by simp [hx])
    have : escapifyWith esc (c :: cs) ++ rest = escOctet esc c ++ (escapifyWith esc cs ++ rest) := by
      simp [escapifyWith]
    rw [this, ftRun_escOctet esc hesc L lab c hc, ih hcs]
    simp

/-- all octets of a name are octets -/
def OctetsOk (n : Name) : Prop := ∀ l ∈ n, ∀ c ∈ l, c < 256

theorem ftRun_joinDot (esc : List Nat) (hesc : EscOk esc) (ls : List Label) (hne : ls ≠ [])
    (hoct : OctetsOk ls) (hmid : ∀ l ∈ ls.dropLast, l ≠ []) (L : List Label) :
    ftRun ⟨L, [], none⟩ (joinDot (ls.map (escapifyWith esc))) =
      .ok ⟨L ++ ls.dropLast, ls.getLast hne, none⟩ := by
  induction ls generalizing L with
  | nil => exact absurd rfl hne
  | cons x rest ih =>
    cases rest with
    | nil =>
      have := ftRun_escapify esc hesc x (hoct x (by simp)) L [] []
      simp [joinDot] at this ⊢
      rw [this]; simp [ftRun]
    | cons y ys =>
      have hx : x ≠ [] := hmid x (by simp [List.dropLast])
      have hoct' : OctetsOk (y :: ys) := fun l hl => hoct l (by simp [hl])
      have hmid' : ∀ l ∈ (y :: ys).dropLast, l ≠ [] := by
        intro l hl; apply hmid; simp [List.dropLast]; right; exact hl
      have step := ftRun_escapify esc hesc x (hoct x (by simp)) L []
        (46 :: joinDot ((y :: ys).map (escapifyWith esc)))
      simp only [List.map, joinDot] at step ⊢
      rw [step]
      simp only [List.nil_append, ftRun, ftStep, hx, if_false, if_true]
      have := ih (by simp) hoct' hmid' (L ++ [x])
      simp only [List.map] at this
      rw [this]
      simp [List.dropLast, List.getLast]

/-! validate accepts well-formed names -/

theorem firstEmpty_some (ls : List Label) (j i : Nat) (h : firstEmpty ls j = some i) :
    j ≤ i ∧ i < j + ls.length ∧ ls[i - j]? = some [] := by
  induction ls generalizing j with
  | nil => simp [firstEmpty] at h
  | cons l rest ih =>
    unfold firstEmpty at h
    split at h
    · rename_i hl
      simp at h; subst h; simp [hl]
    · have := ih (j + 1) h
      obtain ⟨a, b, c⟩ := this
      refine ⟨by omega, by simp; omega, ?_⟩
      have : i - j = (i - (j + 1)) + 1 := by omega
      rw [this]; simpa using c

theorem mem_dropLast_of_getElem? (ls : List Label) (k : Nat) (x : Label) (h : ls[k]? = some x)
    (hk : k + 1 < ls.length) : x ∈ ls.dropLast := by
  have : ls.dropLast[k]? = some x := by
    rw [List.getElem?_dropLast]; simp [h]; omega
  exact List.mem_of_getElem? this

theorem validate_of_wf (n : Name) (h : WfName n) : validate n = .ok n := by
  obtain ⟨h1, h2, h3⟩ := h
  unfold validate
  have a : (n.any fun l => decide (l.length > Consts.maxLabel)) = false := by
    rw [List.any_eq_false]; intro l hl; simp; exact h1 l hl
  have b : ¬ wireLen n > Consts.maxName := by omega
  simp only [a, b, Bool.false_eq_true, if_false]
  split
  · rename_i i hi
    have := firstEmpty_some n 0 i hi
    obtain ⟨_, hlt, hget⟩ := this
    simp at hlt hget
    by_cases hlast : i = n.length - 1
    · simp [hlast]
    · exfalso
      have : ([] : Label) ∈ n.dropLast := mem_dropLast_of_getElem? n i [] hget (by omega)
      exact h3 [] this rfl
  · rfl

theorem wf_of_validate (n m : Name) (h : validate n = .ok m) : m = n ∧ WfName n := by
  unfold validate at h
  split at h
  · simp at h
  · rename_i hany
    split at h
    · simp at h
    · rename_i hlen
      have hl : ∀ l ∈ n, l.length ≤ Consts.maxLabel := by
        intro l hl
        have := hany
        simp at this
        exact this l hl
      have key : m = n ∧ (∀ l ∈ n.dropLast, l ≠ []) := by
        split at h
        · rename_i i hi
          split at h
          · simp at h
          · rename_i hlast
            simp at hlast
            have heq : m = n := by
              simp only [Except.ok.injEq] at h
              exact h.symm
            refine ⟨heq, ?_⟩
            -- the first empty label is the last one, so dropLast has none
            intro l hl hempty
            subst hempty
            obtain ⟨k, hk⟩ := List.getElem?_of_mem hl
            have hk' : n[k]? = some [] ∧ k < n.length - 1 := by
              rw [List.getElem?_dropLast] at hk
              split at hk
              · rename_i hlt; exact ⟨hk, hlt⟩
              · simp at hk
            -- firstEmpty returns the first index
            have : ∀ (ls : List Label) (j idx : Nat), ls[idx]? = some [] →
                ∃ i', firstEmpty ls j = some i' ∧ i' ≤ j + idx := by
              intro ls
              induction ls with
              | nil => intro j idx hh; simp at hh
              | cons a as ih =>
                intro j idx hh
                unfold firstEmpty
                split
                · exact ⟨j, rfl, by omega⟩
                · cases idx with
                  | zero => simp at hh; contradiction
                  | succ idx' =>
                    simp at hh
                    obtain ⟨i', hi', hle⟩ := ih (j + 1) idx' hh
                    exact ⟨i', hi', by omega⟩
            obtain ⟨i', hi', hle⟩ := this n 0 k hk'.1
            rw [hi] at hi'
            simp at hi'
            omega
        · rename_i hnone
          simp only [Except.ok.injEq] at h
          refine ⟨h.symm, ?_⟩
          intro l hl hempty
          subst hempty
          have hmem : ([] : Label) ∈ n := List.dropLast_subset n hl
          have : ∀ (ls : List Label) (j : Nat), ([] : Label) ∈ ls → firstEmpty ls j ≠ none := by
            intro ls
            induction ls with
            | nil => intro j hh; simp at hh
            | cons a as ih =>
              intro j hh
              unfold firstEmpty
              split
              · simp
              · rename_i hne
                simp at hh
                rcases hh with hh | hh
                · exact absurd hh hne
                · exact ih (j + 1) hh
          exact this n 0 hmem hnone
      exact ⟨key.1, hl, by omega, key.2⟩

/-- head of the escaped form of a non-empty label is `\` or an unescaped printable octet -/
theorem escapify_head (esc : List Nat) (hesc : EscOk esc) (l : Label) (hl : l ≠ []) :
    ∃ h t, escapifyWith esc l = h :: t ∧ (h = 92 ∨ (h ≠ 64 ∧ h ≠ 46)) := by
  cases l with
  | nil => exact absurd rfl hl
  | cons c cs =>
    obtain ⟨h46, _, h64, _⟩ := hesc
    simp only [escapifyWith, List.flatMap_cons]
    unfold escOctet
    split
    · exact ⟨92, _, rfl, Or.inl rfl⟩
    · split
      · rename_i hnot _
        refine ⟨c, _, rfl, Or.inr ⟨?_, ?_⟩⟩
        · intro h; exact hnot (h ▸ h64)
        · intro h; exact hnot (h ▸ h46)
      · exact ⟨92, _, rfl, Or.inl rfl⟩

theorem joinDot_head (esc : List Nat) (hesc : EscOk esc) (ls : List Label) (hne : ls ≠ [])
    (hfirst : ls.head hne ≠ []) :
    ∃ h t, joinDot (ls.map (escapifyWith esc)) = h :: t ∧ (h = 92 ∨ (h ≠ 64 ∧ h ≠ 46)) := by
  cases ls with
  | nil => exact absurd rfl hne
  | cons x rest =>
    simp at hfirst
    obtain ⟨h, t, e, p⟩ := escapify_head esc hesc x hfirst
    cases rest with
    | nil => exact ⟨h, t, by simp [joinDot, e], p⟩
    | cons y ys => exact ⟨h, t ++ 46 :: joinDot ((y :: ys).map (escapifyWith esc)), by simp [joinDot, e], p⟩

end Model

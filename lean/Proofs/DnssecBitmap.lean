import Model.Dnssec
import Proofs.DnssecBasic
/-! Helper lemmas for C15: `Bitmap.from_rdtypes` encodes exactly the input type set, windows ascending, bitmaps minimal. -/
namespace Model
namespace Dnssec

/-- RFC 4034 §4.1.2: bit `j` of an octet, bit 0 being the most significant -/
def msbBit (byte j : Nat) : Bool := byte.testBit (7 - j)

/-- window `w` has the bit of type `t` -/
def winHas (w : Nat × Bytes) (t : Nat) : Prop :=
  w.1 = t / 256 ∧ msbBit (w.2.getD (t % 256 / 8) 0) (t % 8) = true

/-- decoding of a window list: the type is in some window -/
def bitmapHas (ws : List (Nat × Bytes)) (t : Nat) : Prop := ∃ w ∈ ws, winHas w t

theorem shift80 (b : Nat) (hb : b < 8) : 0x80 >>> b = 2 ^ (7 - b) := by
  have : ∀ b, b < 8 → 0x80 >>> b = 2 ^ (7 - b) := by decide
  exact this b hb

theorem msbBit_or_bit (x j b : Nat) (hj : j < 8) (hb : b < 8) :
    msbBit (x ||| (0x80 >>> b)) j = (msbBit x j || decide (j = b)) := by
  unfold msbBit
  rw [shift80 b hb, Nat.testBit_or, Nat.testBit_two_pow]
  congr 1
  apply decide_eq_decide.mpr
  omega

theorem msbBit_zero (j : Nat) : msbBit 0 j = false := by simp [msbBit]

theorem getD_set' (l : Bytes) (i k v : Nat) (hi : i < l.length) :
    (l.set i v).getD k 0 = if k = i then v else l.getD k 0 := by
  simp only [List.getD_eq_getElem?_getD, List.getElem?_set]
  by_cases h : i = k
  · subst h; simp [hi]
  · have : ¬ k = i := fun e => h e.symm
    simp [h, this]

theorem getD_take' (l : Bytes) (n k : Nat) : (l.take n).getD k 0 = if k < n then l.getD k 0 else 0 := by
  simp only [List.getD_eq_getElem?_getD, List.getElem?_take]
  split <;> simp

theorem getD_replicate0 (n k : Nat) : (List.replicate n 0).getD k 0 = 0 := by
  simp only [List.getD_eq_getElem?_getD, List.getElem?_replicate]
  split <;> simp

theorem or_ne_zero_of_bit (x b : Nat) (hb : b < 8) : x ||| (0x80 >>> b) ≠ 0 := by
  intro h
  have := msbBit_or_bit x b b hb hb
  rw [h, msbBit_zero] at this
  simp at this

/-- loop invariant of `from_rdtypes` after the types `P` (sorted ascending, all positive) have been processed -/
structure BmInv (s : BmState) (P : List Nat) : Prop where
  len : s.bitmap.length = 32
  zeroTail : ∀ i, s.octets ≤ i → s.bitmap.getD i 0 = 0
  has : ∀ t, (bitmapHas s.windows t ∨
      (s.octets ≠ 0 ∧ s.window = t / 256 ∧ msbBit (s.bitmap.getD (t % 256 / 8) 0) (t % 8) = true)) ↔ t ∈ P
  priorMax : ∀ t ∈ P, t ≤ s.prior
  priorIn : P ≠ [] → s.prior ∈ P
  empty : s.octets = 0 → P = [] ∧ s.prior = 0 ∧ s.window = 0
  nonempty : s.octets ≠ 0 → P ≠ [] ∧ s.window = s.prior / 256 ∧ s.octets = s.prior % 256 / 8 + 1 ∧
      s.bitmap.getD (s.octets - 1) 0 ≠ 0
  winsLt : ∀ w ∈ s.windows, w.1 < s.window
  sortedW : s.windows.Pairwise (fun a b => a.1 < b.1)
  wf : ∀ w ∈ s.windows, w.2 ≠ [] ∧ w.2.length ≤ 32 ∧ w.2.getLast? ≠ some 0

theorem bmInv_init : BmInv bmInit [] := by
  refine ⟨by simp [bmInit], ?_, ?_, by simp, by simp, by simp [bmInit], by simp [bmInit], by simp [bmInit],
    by simp [bmInit], by simp [bmInit]⟩
  · intro i _; show (List.replicate 32 0).getD i 0 = 0; exact getD_replicate0 32 i
  · intro t; simp [bmInit, bitmapHas]

theorem bitmapHas_append (ws : List (Nat × Bytes)) (w : Nat × Bytes) (t : Nat) :
    bitmapHas (ws ++ [w]) t ↔ bitmapHas ws t ∨ winHas w t := by
  simp [bitmapHas, or_and_right, exists_or]

theorem getLast?_take_ne_zero (l : Bytes) (n : Nat) (hn : n ≠ 0) (hl : n ≤ l.length) (hz : l.getD (n - 1) 0 ≠ 0) :
    (l.take n).getLast? ≠ some 0 := by
  rw [List.getLast?_eq_getElem?]
  have hlen : (l.take n).length = n := by simp [List.length_take]; omega
  rw [hlen, List.getElem?_take]
  have : n - 1 < n := by omega
  simp only [this, if_true]
  intro h
  apply hz
  simp [List.getD_eq_getElem?_getD, h]

/-- what `bmFlush` adds is the current window, faithfully -/
theorem bmFlush_spec (s : BmState) (P : List Nat) (inv : BmInv s P) :
    (∀ t, bitmapHas (bmFlush s) t ↔ t ∈ P) ∧
    (bmFlush s).Pairwise (fun a b => a.1 < b.1) ∧
    (∀ w ∈ bmFlush s, w.2 ≠ [] ∧ w.2.length ≤ 32 ∧ w.2.getLast? ≠ some 0) ∧
    (∀ w ∈ bmFlush s, w.1 ≤ s.window) := by
  unfold bmFlush
  by_cases h0 : s.octets = 0
  · simp only [h0, ne_eq, not_true_eq_false, if_false]
    refine ⟨?_, inv.sortedW, inv.wf, fun w hw => Nat.le_of_lt (inv.winsLt w hw)⟩
    intro t
    rw [← inv.has t]
    simp [h0]
  · simp only [h0, ne_eq, not_false_eq_true, if_true]
    obtain ⟨hP, hwin, hoct, hlast⟩ := inv.nonempty h0
    have hoct32 : s.octets ≤ 32 := by omega
    refine ⟨?_, ?_, ?_, ?_⟩
    · intro t
      rw [bitmapHas_append, ← inv.has t]
      apply or_congr Iff.rfl
      simp only [winHas, getD_take']
      constructor
      · rintro ⟨h1, h2⟩
        refine ⟨h0, h1, ?_⟩
        split at h2
        · exact h2
        · simp [msbBit_zero] at h2
      · rintro ⟨_, h1, h2⟩
        refine ⟨h1, ?_⟩
        split
        · exact h2
        · rename_i hlt
          rw [inv.zeroTail _ (by omega), msbBit_zero] at h2
          simp at h2
    · rw [List.pairwise_append]
      refine ⟨inv.sortedW, by simp, ?_⟩
      intro a ha b hb
      simp at hb; subst hb
      exact inv.winsLt a ha
    · intro w hw
      rcases List.mem_append.mp hw with hw | hw
      · exact inv.wf w hw
      · simp at hw; subst hw
        refine ⟨?_, ?_, ?_⟩
        · intro h
          have : (s.bitmap.take s.octets).length = 0 := by
            have h' : s.bitmap.take s.octets = [] := h
            rw [h']; rfl
          simp [List.length_take, inv.len] at this
          omega
        · simp [List.length_take]; omega
        · exact getLast?_take_ne_zero _ _ h0 (by rw [inv.len]; exact hoct32) hlast
    · intro w hw
      rcases List.mem_append.mp hw with hw | hw
      · exact Nat.le_of_lt (inv.winsLt w hw)
      · simp at hw; subst hw; exact Nat.le_refl _

theorem type_eq_of_parts (u t : Nat) (h1 : u / 256 = t / 256) (h2 : u % 256 / 8 = t % 256 / 8) (h3 : u % 8 = t % 8) :
    u = t := by omega

/-- the state after a step that really sets a bit, in terms of the base bitmap and the window list -/
theorem bmStep_new (s : BmState) (t : Nat) (hne : t ≠ s.prior) :
    bmStep s t =
      (if t / 256 ≠ s.window then
        { window := t / 256, octets := t % 256 / 8 + 1, prior := t,
          bitmap := (List.replicate 32 0).set (t % 256 / 8) ((List.replicate 32 0).getD (t % 256 / 8) 0 ||| (0x80 >>> (t % 8))),
          windows := bmFlush s }
      else
        { window := s.window, octets := t % 256 / 8 + 1, prior := t,
          bitmap := s.bitmap.set (t % 256 / 8) (s.bitmap.getD (t % 256 / 8) 0 ||| (0x80 >>> (t % 8))),
          windows := s.windows }) := by
  have h8 : t % 256 % 8 = t % 8 := Nat.mod_mod_of_dvd t (by decide : 8 ∣ 256)
  unfold bmStep
  simp only [hne, if_false, h8]
  split <;> rfl

theorem bmStep_inv (s : BmState) (P : List Nat) (t : Nat) (inv : BmInv s P) (ht0 : 0 < t) (ht : t < 65536)
    (hge : ∀ u ∈ P, u ≤ t) : BmInv (bmStep s t) (P ++ [t]) := by
  have hPoct : P = [] → s.octets = 0 := by
    intro hP
    by_cases h0 : s.octets = 0
    · exact h0
    · exact absurd hP (inv.nonempty h0).1
  by_cases heq : t = s.prior
  · -- duplicate of the previous type: skipped
    have hPne : P ≠ [] := by
      intro hP
      have := (inv.empty (hPoct hP)).2.1
      omega
    have htP : t ∈ P := heq ▸ inv.priorIn hPne
    have hst : bmStep s t = s := by unfold bmStep; simp [heq]
    rw [hst]
    refine ⟨inv.len, inv.zeroTail, ?_, ?_, ?_, ?_, ?_, inv.winsLt, inv.sortedW, inv.wf⟩
    · intro u
      rw [inv.has u]
      simp only [List.mem_append, List.mem_singleton]
      constructor
      · intro h; exact Or.inl h
      · rintro (h | h)
        · exact h
        · exact h ▸ htP
    · intro u hu
      rcases List.mem_append.mp hu with hu | hu
      · exact inv.priorMax u hu
      · simp at hu; omega
    · intro _; simp only [List.mem_append]; exact Or.inl (inv.priorIn hPne)
    · intro h0; exact absurd (inv.empty h0).1 hPne
    · intro h0
      obtain ⟨_, h2, h3, h4⟩ := inv.nonempty h0
      exact ⟨by simp, h2, h3, h4⟩
  · have hlt : s.prior < t := by
      by_cases hP : P = []
      · have := (inv.empty (hPoct hP)).2.1; omega
      · have := hge _ (inv.priorIn hP); omega
    have hbyte : t % 256 / 8 < 32 := by omega
    have hbit : t % 8 < 8 := by omega
    rw [bmStep_new s t heq]
    by_cases hw : t / 256 ≠ s.window
    · -- a new window is opened
      simp only [hw, ne_eq, not_false_eq_true, if_true]
      obtain ⟨fhas, fsorted, fwf, fle⟩ := bmFlush_spec s P inv
      have hwlt : s.window < t / 256 := by
        by_cases h0 : s.octets = 0
        · have := (inv.empty h0).2.2; omega
        · have := (inv.nonempty h0).2.1
          have : s.prior / 256 ≤ t / 256 := Nat.div_le_div_right (Nat.le_of_lt hlt)
          omega
      have hz : (List.replicate 32 0).getD (t % 256 / 8) 0 = 0 := getD_replicate0 _ _
      refine ⟨by simp, ?_, ?_, ?_, ?_, ?_, ?_, ?_, fsorted, fwf⟩
      · intro i hi
        simp only at hi
        rw [getD_set' _ _ _ _ (by simp; exact hbyte)]
        have : ¬ i = t % 256 / 8 := by omega
        simp only [this, if_false]
        exact getD_replicate0 32 i
      · intro u
        simp only [List.mem_append, List.mem_singleton, fhas u]
        apply or_congr Iff.rfl
        rw [getD_set' _ _ _ _ (by simp; exact hbyte), hz]
        constructor
        · rintro ⟨_, h1, h2⟩
          split at h2
          · rename_i hi
            rw [msbBit_or_bit _ _ _ (by omega) hbit, msbBit_zero] at h2
            simp at h2
            exact type_eq_of_parts u t h1.symm hi h2
          · rw [getD_replicate0, msbBit_zero] at h2; simp at h2
        · intro h; subst h
          refine ⟨by omega, rfl, ?_⟩
          simp only [if_true]
          rw [msbBit_or_bit _ _ _ hbit hbit]; simp
      · intro u hu
        rcases List.mem_append.mp hu with hu | hu
        · exact hge u hu
        · simp at hu; show u ≤ t; omega
      · intro _; simp
      · intro h; simp at h
      · intro _
        refine ⟨by simp, by simp, by simp, ?_⟩
        simp only [Nat.add_sub_cancel]
        rw [getD_set' _ _ _ _ (by simp; exact hbyte)]
        simp only [if_true]
        exact or_ne_zero_of_bit _ _ hbit
      · intro w hw'
        exact Nat.lt_of_le_of_lt (fle w hw') hwlt
    · -- same window: one more bit
      have hw' : t / 256 = s.window := by
        by_cases h : t / 256 = s.window
        · exact h
        · exact absurd h hw
      simp only [hw, if_false]
      have hlen : t % 256 / 8 < s.bitmap.length := by rw [inv.len]; exact hbyte
      have hoctle : s.octets ≤ t % 256 / 8 + 1 := by
        by_cases h0 : s.octets = 0
        · omega
        · obtain ⟨_, h2, h3, _⟩ := inv.nonempty h0
          have : s.prior / 256 = t / 256 := by omega
          have : s.prior % 256 < t % 256 := by omega
          have : s.prior % 256 / 8 ≤ t % 256 / 8 := Nat.div_le_div_right (by omega)
          omega
      refine ⟨by simp [inv.len], ?_, ?_, ?_, ?_, ?_, ?_, inv.winsLt, inv.sortedW, inv.wf⟩
      · intro i hi
        simp only at hi
        rw [getD_set' _ _ _ _ hlen]
        have : ¬ i = t % 256 / 8 := by omega
        simp only [this, if_false]
        exact inv.zeroTail i (by omega)
      · intro u
        simp only [List.mem_append, List.mem_singleton, ← inv.has u]
        rw [getD_set' _ _ _ _ hlen]
        constructor
        · rintro (h | ⟨_, h1, h2⟩)
          · exact Or.inl (Or.inl h)
          · split at h2
            · rename_i hi
              rw [msbBit_or_bit _ _ _ (by omega) hbit] at h2
              simp only [Bool.or_eq_true, decide_eq_true_eq] at h2
              rcases h2 with h2 | h2
              · left; right
                refine ⟨?_, h1, by rw [hi]; exact h2⟩
                intro h0
                rw [inv.zeroTail _ (by omega), msbBit_zero] at h2
                simp at h2
              · right; exact type_eq_of_parts u t (by omega) hi h2
            · left; right
              refine ⟨?_, h1, h2⟩
              intro h0
              rw [inv.zeroTail _ (by omega), msbBit_zero] at h2
              simp at h2
        · rintro ((h | ⟨_, h1, h2⟩) | h)
          · exact Or.inl h
          · right
            refine ⟨by omega, h1, ?_⟩
            split
            · rename_i hi
              rw [hi] at h2
              rw [msbBit_or_bit _ _ _ (by omega) hbit, h2]
              rfl
            · exact h2
          · subst h
            right
            refine ⟨by omega, hw'.symm, ?_⟩
            simp only [if_true]
            rw [msbBit_or_bit _ _ _ hbit hbit]; simp
      · intro u hu
        rcases List.mem_append.mp hu with hu | hu
        · exact hge u hu
        · simp at hu; show u ≤ t; omega
      · intro _; simp
      · intro h; simp at h
      · intro _
        refine ⟨by simp, by simp; omega, by simp, ?_⟩
        simp only [Nat.add_sub_cancel]
        rw [getD_set' _ _ _ _ hlen]
        simp only [if_true]
        exact or_ne_zero_of_bit _ _ hbit

theorem bmFold_inv (R : List Nat) : ∀ (P : List Nat) (s : BmState), BmInv s P →
    (P ++ R).Pairwise (fun a b => a ≤ b) → (∀ t ∈ R, 0 < t ∧ t < 65536) →
    BmInv (R.foldl bmStep s) (P ++ R) := by
  induction R with
  | nil => intro P s inv _ _; simpa using inv
  | cons t R ih =>
    intro P s inv hs hr
    have hge : ∀ u ∈ P, u ≤ t := by
      intro u hu
      exact (List.pairwise_append.mp hs).2.2 u hu t (by simp)
    have ht := hr t (by simp)
    have inv' := bmStep_inv s P t inv ht.1 ht.2 hge
    have := ih (P ++ [t]) (bmStep s t) inv' (by simpa using hs) (fun u hu => hr u (by simp [hu]))
    simpa using this

theorem natLe_total (a b : Nat) : natLe a b = true ∨ natLe b a = true := by
  simp only [natLe, decide_eq_true_eq]; omega

theorem natLe_trans (a b c : Nat) : natLe a b = true → natLe b c = true → natLe a c = true := by
  simp only [natLe, decide_eq_true_eq]; omega

/-- `Bitmap.from_rdtypes` is exact: decoding the windows gives exactly the input type set; the windows are
strictly ascending (hence at most one per window number), non-empty, at most 32 octets, and minimal (no
trailing zero octet). -/
theorem fromRdtypes_exact (ts : List Nat) (h : ∀ t ∈ ts, 0 < t ∧ t < 65536) :
    (∀ t, bitmapHas (fromRdtypes ts) t ↔ t ∈ ts) ∧
    (fromRdtypes ts).Pairwise (fun a b => a.1 < b.1) ∧
    (∀ w ∈ fromRdtypes ts, w.1 < 256 ∧ w.2 ≠ [] ∧ w.2.length ≤ 32 ∧ w.2.getLast? ≠ some 0) := by
  have hperm := insSort_perm natLe ts
  have hsorted : (insSort natLe ts).Pairwise (fun a b => a ≤ b) := by
    have := insSort_pairwise natLe natLe_total natLe_trans ts
    exact this.imp (by intro a b hab; simpa [natLe] using hab)
  have hr : ∀ t ∈ insSort natLe ts, 0 < t ∧ t < 65536 := fun t ht => h t (hperm.mem_iff.mp ht)
  have inv := bmFold_inv (insSort natLe ts) [] bmInit bmInv_init (by simpa using hsorted) hr
  simp only [List.nil_append] at inv
  obtain ⟨fhas, fsorted, fwf, fle⟩ := bmFlush_spec _ _ inv
  unfold fromRdtypes
  refine ⟨fun t => (fhas t).trans hperm.mem_iff, fsorted, ?_⟩
  intro w hw
  refine ⟨?_, fwf w hw⟩
  have hle := fle w hw
  by_cases h0 : (List.foldl bmStep bmInit (insSort natLe ts)).octets = 0
  · have := (inv.empty h0).2.2; omega
  · obtain ⟨hP, hwin, _, _⟩ := inv.nonempty h0
    have := (hr _ (inv.priorIn hP)).2
    omega

end Dnssec
end Model

import Proofs.BTreeCursor2
/-!
Layer L5, part 3: `prev()`, and `next()` / `prev()` as methods of an unparked cursor.
-/
namespace Model.BTree

/-! ## `prev()` -/

/-- the loop of `prev()` entered without a pending descent (the position is before child `idx` when the node
is internal) -/
theorem prevLoop_down {t : Nat} {root : Node} (H : Nat) : ∀ (k : Nat) (c : Cursor) (n : Node) (h : Nat),
    ¬ (c.recurse = true ∧ c.increasing = false) → PathOk t root h n c.parents → c.idx ≤ n.elts.length →
    c.parents.length + 1 ≤ k →
    (prevLoop H k c n).2 = ((ctx c.parents).1 ++ upTo n c.idx false).getLast? ∧
    CurInv t root (prevLoop H k c n).1
      ((ctx c.parents).1 ++ upTo n c.idx false).dropLast
      (((ctx c.parents).1 ++ upTo n c.idx false).getLast?.toList ++ (fromPos n c.idx false ++ (ctx c.parents).2)) ∧
    (prevLoop H k c n).1.parked = c.parked := by
  intro k
  induction k with
  | zero => intro c n h _ _ _ hk; omega
  | succ k ih =>
    intro c n h hnr hp hi hk
    have hs := pathOk_shape hp
    unfold prevLoop
    have hcond : (c.recurse = true ∧ (!c.increasing) = true) = False := by
      simp only [Bool.not_eq_true', eq_iff_iff, iff_false]; exact hnr
    simp only [hcond, if_false]
    by_cases hge : c.idx ≥ 1
    · simp only [hge, if_true]
      have hlt : c.idx - 1 < n.elts.length := by omega
      obtain ⟨r1, r2⟩ := read_step hs hlt
      have e1 : c.idx - 1 + 1 = c.idx := by omega
      rw [e1] at r1 r2
      rw [r2, ← List.append_assoc]
      refine ⟨by simp, ?_, by simp⟩
      simp only [CurInv, Bool.not_false, List.getLast?_append, List.getLast?_singleton, Option.some_or,
        Option.toList_some, List.dropLast_concat]
      refine ⟨h, hp, by omega, by simp, by first | rfl | trivial | simp, ?_⟩
      simp [r1]
    · simp only [hge, if_false]
      have hidx : c.idx = 0 := by omega
      obtain ⟨e1, e2⟩ := at_start hs
      rw [hidx, e1, e2]
      cases hps : c.parents with
      | nil =>
        rw [hps] at hp
        obtain ⟨rfl, _⟩ := hp
        simp only [ctx, List.append_nil, List.getLast?_nil, Option.toList_none, List.dropLast_nil, List.nil_append]
        refine ⟨by simp, ?_, by simp⟩
        simp [CurInv]
      | cons pj ps' =>
        obtain ⟨pn, pj⟩ := pj
        rw [hps] at hp hk
        obtain ⟨hj, hkid, _, hpp⟩ := hp
        have hps' := pathOk_shape hpp
        obtain ⟨pes, pcs, rfl, plen, _⟩ := shape_succ hps'
        simp only [Node.children] at hj hkid
        have hpj : pj ≤ pes.length := by omega
        let c2 : Cursor :=
          { c with node := some (.node pes pcs), idx := pj, parents := ps', recurse := false, increasing := false }
        have hc2 := ih c2 (.node pes pcs) (h + 1) (by simp [c2]) hpp (by simpa [Node.elts, c2] using hpj)
          (by simp [c2] at hk ⊢; omega)
        simp only [c2, upTo, fromPos, Bool.false_eq_true, if_false, List.append_nil, hkid] at hc2
        simp only [ctx, Node.elts, Node.children, List.append_nil]
        simpa [List.append_assoc] using hc2

/-- the loop of `prev()` from a resting state -/
theorem prevLoop_spec {t : Nat} {root : Node} {Hr : Nat} (hr : Shape t Hr root) (H : Nat) (hH : Hr ≤ H)
    (k : Nat) (c : Cursor) (n : Node) (done rest : List Elt) (hn : c.node = some n)
    (hinv : CurInv t root c done rest) (hk : c.parents.length + Hr + 1 ≤ k) :
    (prevLoop H k c n).2 = done.getLast? ∧
    CurInv t root (prevLoop H k c n).1 done.dropLast (done.getLast?.toList ++ rest) ∧
    (prevLoop H k c n).1.parked = c.parked := by
  simp only [CurInv, hn] at hinv
  obtain ⟨h, hp, hi, hrec, rfl, rfl⟩ := hinv
  have hs := pathOk_shape hp
  have hh := pathOk_height hr hp
  by_cases hdesc : c.recurse = true ∧ c.increasing = false
  · -- pending descent: after child `idx` of an internal node
    obtain ⟨l, ps', s1, s2, s3, s4, s5, s6⟩ := seekGreatest_spec H h n c.idx c.parents (by omega) hp hi
    let c2 : Cursor := { c with idx := (if h = 0 then c.idx else l.elts.length), parents := ps', recurse := false }
    have hloop : prevLoop H k c n = prevLoop H k c2 l := by
      cases k with
      | zero => omega
      | succ k =>
        unfold prevLoop
        simp [hdesc, s1, c2]
    rw [hloop]
    obtain ⟨ls, rfl⟩ := shape_zero (pathOk_shape s2)
    have hidx : (if h = 0 then c.idx else (Node.leaf ls).elts.length) ≤ ls.length := by
      split
      · rename_i h0
        subst h0
        obtain ⟨es, rfl⟩ := shape_zero hs
        have : seekGreatest H (.leaf es) c.idx c.parents = (.leaf es, c.idx, c.parents) := by
          cases H <;> simp [seekGreatest]
        rw [this] at s1
        simp only [if_true, Prod.mk.injEq, Node.leaf.injEq] at s1
        rw [← s1.1]; exact hi
      · simp [Node.elts]
    have hdn := prevLoop_down (t := t) (root := root) H k c2 (.leaf ls) 0
      (by simp [c2]) s2 (by simpa [Node.elts, c2] using hidx) (by simp only [c2]; omega)
    simp only [hdesc.2, Bool.not_false] at s3 s4 ⊢
    simp only [c2] at hdn
    rw [upTo_leaf_flag ls _ false true, fromPos_leaf_flag ls _ false true, s3, s4] at hdn
    exact hdn
  · have hdn := prevLoop_down (t := t) (root := root) H k c n h hdesc hp hi (by omega)
    have hflag : upTo n c.idx (!c.increasing) = upTo n c.idx false ∧
        fromPos n c.idx (!c.increasing) = fromPos n c.idx false := by
      cases h with
      | zero => obtain ⟨es, rfl⟩ := shape_zero hs; exact ⟨rfl, rfl⟩
      | succ h =>
        obtain ⟨es, cs, rfl, _, _⟩ := shape_succ hs
        simp only [Node.isLeaf, Bool.not_false] at hrec
        have : c.increasing = true := by
          cases hinc : c.increasing with
          | true => rfl
          | false => exact absurd ⟨hrec, hinc⟩ hdesc
        simp [this]
    rw [hflag.1, hflag.2]
    exact hdn

/-! ## the methods -/

theorem maybeUnpark_unparked {c : Cursor} (root : Node) (h : c.parked = false) : c.maybeUnpark root = c := by
  simp [Cursor.maybeUnpark, h]

theorem curInv_congr {t : Nat} {root : Node} {c c' : Cursor} {done rest : List Elt}
    (h1 : c'.node = c.node) (h2 : c'.idx = c.idx) (h3 : c'.recurse = c.recurse)
    (h4 : c'.increasing = c.increasing) (h5 : c'.parents = c.parents) (h : CurInv t root c done rest) :
    CurInv t root c' done rest := by
  unfold CurInv at h ⊢
  rw [h1, h2, h3, h4, h5]
  exact h

/-- `next()` after the unpark step -/
def nextBody (root : Node) (c1 : Cursor) : Cursor × Option Elt :=
  match c1.node with
  | none =>
    if c1.idx = 1 then (c1, none)
    else
      let (n, i, ps) := seekLeast (height root + 1) root 0 c1.parents
      nextLoop (height root + 1) (ps.length + 2) { c1 with node := some n, idx := i, parents := ps } n
  | some n => nextLoop (height root + 1) (c1.parents.length + (height root + 1) + 2) c1 n

theorem next_eq_body (c : Cursor) (root : Node) :
    c.next root = nextBody root { c.maybeUnpark root with pkey := none } := by
  unfold Cursor.next nextBody
  rfl

theorem nextBody_spec {t : Nat} {root : Node} {Hr : Nat} (hr : Shape t Hr root) (c1 : Cursor) (done rest : List Elt)
    (hinv1 : CurInv t root c1 done rest) :
    (nextBody root c1).2 = rest.head? ∧ CurInv t root (nextBody root c1).1 (done ++ rest.head?.toList) rest.tail ∧
    (nextBody root c1).1.parked = c1.parked := by
  have hH := height_of_shape hr
  unfold nextBody
  cases hnode : c1.node with
  | none =>
    have hi := hinv1
    simp only [CurInv, hnode] at hi
    obtain ⟨hps, hrec, hsplit, hb⟩ := hi
    rcases hb with ⟨h0, hd⟩ | ⟨h1, hrst⟩
    · -- left boundary: go to the least element
      have hne : ¬ c1.idx = 1 := by omega
      simp only [hne, if_false, hps]
      obtain ⟨l, ps', s1, s2, s3, s4, s5, s6⟩ :=
        seekLeast_spec (t := t) (root := root) (height root + 1) Hr root 0 [] (by omega) ⟨rfl, hr⟩ (by omega)
      have hz : (if Hr = 0 then 0 else 0) = 0 := by split <;> rfl
      rw [hz] at s1 s3 s4
      rw [s1]
      simp only []
      obtain ⟨ls, rfl⟩ := shape_zero (pathOk_shape s2)
      let c2 : Cursor := { c1 with node := some (.leaf ls), idx := 0, parents := ps' }
      have hup := nextLoop_up (t := t) (root := root) (height root + 1) (ps'.length + 2) c2 (.leaf ls) 0
        (by simp [c2, hrec]) s2 (by simp [c2]) (by simp [c2])
      obtain ⟨a1, a2⟩ := at_start hr
      simp only [c2] at hup
      rw [upTo_leaf_flag ls _ true false, fromPos_leaf_flag ls _ true false, s3, s4] at hup
      simp only [ctx, a1, a2, List.append_nil, List.nil_append] at hup
      subst hd
      simp only [List.nil_append] at hsplit ⊢
      subst hsplit
      exact hup
    · simp only [h1, if_true]
      subst hrst
      refine ⟨by first | rfl | trivial, ?_, by first | rfl | trivial⟩
      simpa using hinv1
  | some n =>
    simp only []
    exact nextLoop_spec hr (height root + 1) (by omega) (c1.parents.length + (height root + 1) + 2) c1 n done rest
      hnode hinv1 (by omega)

/-- `next()` of an unparked cursor returns the element after the position and moves past it (or stays on the
right boundary) -/
theorem next_spec {t : Nat} {root : Node} {Hr : Nat} (hr : Shape t Hr root) (c : Cursor) (done rest : List Elt)
    (hpk : c.parked = false) (hinv : CurInv t root c done rest) :
    (c.next root).2 = rest.head? ∧ CurInv t root (c.next root).1 (done ++ rest.head?.toList) rest.tail ∧
    (c.next root).1.parked = false := by
  rw [next_eq_body, maybeUnpark_unparked root hpk]
  have := nextBody_spec hr { c with pkey := none } done rest (curInv_congr rfl rfl rfl rfl rfl hinv)
  exact ⟨this.1, this.2.1, by rw [this.2.2]; exact hpk⟩

/-- `prev()` after the unpark step -/
def prevBody (root : Node) (c1 : Cursor) : Cursor × Option Elt :=
  match c1.node with
  | none =>
    if c1.idx = 0 then (c1, none)
    else
      let (n, i, ps) := seekGreatest (height root + 1) root root.elts.length c1.parents
      prevLoop (height root + 1) (ps.length + 2) { c1 with node := some n, idx := i, parents := ps } n
  | some n => prevLoop (height root + 1) (c1.parents.length + (height root + 1) + 2) c1 n

theorem prev_eq_body (c : Cursor) (root : Node) :
    c.prev root = prevBody root { c.maybeUnpark root with pkey := none } := by
  unfold Cursor.prev prevBody
  rfl

theorem prevBody_spec {t : Nat} {root : Node} {Hr : Nat} (hr : Shape t Hr root) (c1 : Cursor) (done rest : List Elt)
    (hinv1 : CurInv t root c1 done rest) :
    (prevBody root c1).2 = done.getLast? ∧
    CurInv t root (prevBody root c1).1 done.dropLast (done.getLast?.toList ++ rest) ∧
    (prevBody root c1).1.parked = c1.parked := by
  have hH := height_of_shape hr
  unfold prevBody
  cases hnode : c1.node with
  | none =>
    have hi := hinv1
    simp only [CurInv, hnode] at hi
    obtain ⟨hps, hrec, hsplit, hb⟩ := hi
    rcases hb with ⟨h0, hd⟩ | ⟨h1, hrst⟩
    · simp only [h0, if_true]
      subst hd
      refine ⟨by first | rfl | trivial, ?_, by first | rfl | trivial⟩
      simpa using hinv1
    · -- right boundary: go to the greatest element
      have hne : ¬ c1.idx = 0 := by omega
      simp only [hne, if_false, hps]
      obtain ⟨l, ps', s1, s2, s3, s4, s5, s6⟩ :=
        seekGreatest_spec (t := t) (root := root) (height root + 1) Hr root root.elts.length [] (by omega)
          ⟨rfl, hr⟩ (Nat.le_refl _)
      obtain ⟨ls, rfl⟩ := shape_zero (pathOk_shape s2)
      have hidx : (if Hr = 0 then root.elts.length else (Node.leaf ls).elts.length) = ls.length := by
        split
        · rename_i h0
          subst h0
          obtain ⟨es, rfl⟩ := shape_zero hr
          have : seekGreatest (height (Node.leaf es) + 1) (.leaf es) (Node.leaf es).elts.length []
              = (.leaf es, (Node.leaf es).elts.length, []) := by simp [seekGreatest]
          rw [this] at s1
          simp only [if_true, Prod.mk.injEq, Node.leaf.injEq] at s1
          rw [← s1.1]; rfl
        · rfl
      rw [hidx] at s1 s3 s4
      rw [s1]
      simp only []
      let c2 : Cursor := { c1 with node := some (.leaf ls), idx := ls.length, parents := ps' }
      have hdn := prevLoop_down (t := t) (root := root) (height root + 1) (ps'.length + 2) c2 (.leaf ls) 0
        (by simp [c2, hrec]) s2 (by simp [c2, Node.elts]) (by simp [c2])
      obtain ⟨a1, a2⟩ := at_end hr
      simp only [c2] at hdn
      rw [upTo_leaf_flag ls _ false true, fromPos_leaf_flag ls _ false true, s3, s4] at hdn
      simp only [ctx, a1, a2, List.append_nil, List.nil_append] at hdn
      subst hrst
      simp only [List.append_nil] at hsplit ⊢
      subst hsplit
      exact hdn
  | some n =>
    simp only []
    exact prevLoop_spec hr (height root + 1) (by omega) (c1.parents.length + (height root + 1) + 2) c1 n done rest
      hnode hinv1 (by omega)

/-- `prev()` of an unparked cursor returns the element before the position and moves before it (or stays on
the left boundary) -/
theorem prev_spec {t : Nat} {root : Node} {Hr : Nat} (hr : Shape t Hr root) (c : Cursor) (done rest : List Elt)
    (hpk : c.parked = false) (hinv : CurInv t root c done rest) :
    (c.prev root).2 = done.getLast? ∧ CurInv t root (c.prev root).1 done.dropLast (done.getLast?.toList ++ rest) ∧
    (c.prev root).1.parked = false := by
  rw [prev_eq_body, maybeUnpark_unparked root hpk]
  have := prevBody_spec hr { c with pkey := none } done rest (curInv_congr rfl rfl rfl rfl rfl hinv)
  exact ⟨this.1, this.2.1, by rw [this.2.2]; exact hpk⟩

end Model.BTree

import Model.Xfr
/-!
# Set-level facts about the zone operations of the transfer model

A zone is *coherent* when it is one a real `dns.zone` can hold: the records of an rdataset share their TTL,
a CNAME is not next to other data, a singleton type holds one rdata.  On coherent zones `txn.add`,
`txn.replace` and `txn.delete_exact` are what one expects of sets of records.
-/
namespace Model.Xfr

def Coherent (z : Zone) : Prop :=
  (∀ a ∈ z, ∀ b ∈ z, a.owner = b.owner → a.rdtype = b.rdtype → a.ttl = b.ttl) ∧
  (∀ a ∈ z, ∀ b ∈ z, a.owner = b.owner → drivesOut a.rdtype b = false) ∧
  (∀ a ∈ z, ∀ b ∈ z, a.owner = b.owner → a.rdtype = b.rdtype → isSingleton a.rdtype = true → a.rdata = b.rdata)

theorem Coherent.subset {a b : Zone} (h : ∀ r ∈ a, r ∈ b) (hb : Coherent b) : Coherent a :=
  ⟨fun x hx y hy => hb.1 x (h x hx) y (h y hy), fun x hx y hy => hb.2.1 x (h x hx) y (h y hy),
   fun x hx y hy => hb.2.2 x (h x hx) y (h y hy)⟩

theorem Coherent.congr {a b : Zone} (h : a ≃z b) (hb : Coherent b) : Coherent a :=
  hb.subset fun r hr => (h r).1 hr

theorem Zone.equiv_refl (a : Zone) : a ≃z a := fun _ => Iff.rfl
theorem Zone.equiv_symm {a b : Zone} (h : a ≃z b) : b ≃z a := fun r => (h r).symm
theorem Zone.equiv_trans {a b c : Zone} (h1 : a ≃z b) (h2 : b ≃z c) : a ≃z c := fun r => (h1 r).trans (h2 r)

theorem Zone.equiv_append {a b : Zone} (h : a ≃z b) (c : Zone) : (a ++ c) ≃z (b ++ c) := by
  intro r; simp only [List.mem_append]; rw [h r]

theorem Coherent.nil : Coherent [] := ⟨by simp, by simp, by simp⟩

theorem mem_existing {w : Zone} {o : Name} {t : Nat} {r : RR} :
    r ∈ existing w o t ↔ r ∈ w ∧ r.owner = o ∧ r.rdtype = t := by
  simp [existing]

theorem mem_put {w : Zone} {o : Name} {t ttl : Nat} {ds : List Rdata} {r : RR} :
    r ∈ put w o t ttl ds ↔
      (r ∈ w ∧ ¬ (r.owner = o ∧ (r.rdtype = t ∨ drivesOut t r = true))) ∨ (∃ d ∈ ds, r = ⟨o, t, d, ttl⟩) := by
  simp only [put, List.mem_append, List.mem_filter, List.mem_map, Bool.not_eq_true', Bool.and_eq_false_iff,
    beq_eq_false_iff_ne, ne_eq, Bool.or_eq_false_iff, not_and, not_or]
  constructor
  · rintro (⟨h1, h2⟩ | ⟨d, hd, rfl⟩)
    · left
      refine ⟨h1, fun ho => ?_⟩
      rcases h2 with h | h
      · exact absurd ho h
      · exact ⟨h.1, by simp [h.2]⟩
    · exact Or.inr ⟨d, hd, rfl⟩
  · rintro (⟨h1, h2⟩ | ⟨d, hd, rfl⟩)
    · left
      refine ⟨h1, ?_⟩
      by_cases ho : r.owner = o
      · right; have := h2 ho; exact ⟨this.1, by simpa using this.2⟩
      · left; exact ho
    · exact Or.inr ⟨d, hd, rfl⟩

/-- the TTL of an rdataset of a coherent zone is the TTL of each of its records -/
theorem ttlOf_existing {w : Zone} (hc : Coherent w) {o : Name} {t : Nat} {r : RR} (hr : r ∈ existing w o t) :
    ttlOf (existing w o t) = r.ttl := by
  cases he : existing w o t with
  | nil => rw [he] at hr; cases hr
  | cons e es =>
    have hem : e ∈ existing w o t := by rw [he]; simp
    have h1 := mem_existing.1 hem
    have h2 := mem_existing.1 hr
    exact hc.1 e h1.1 r h2.1 (h1.2.1.trans h2.2.1.symm) (h1.2.2.trans h2.2.2.symm)

/-- **`txn.add`** of a non-empty rrset whose records fit the zone: the union -/
theorem put_add_equiv {w : Zone} {rs : RRset} (hne : rs.rdatas ≠ []) (hc : Coherent (w ++ recsOf rs)) :
    put w rs.owner rs.rdtype (unionTtl (existing w rs.owner rs.rdtype) rs.ttl)
      (unionData (isSingleton rs.rdtype) ((existing w rs.owner rs.rdtype).map (·.rdata)) rs.rdatas)
      ≃z (w ++ recsOf rs) := by
  -- a record of the rrset exists
  obtain ⟨d0, hd0⟩ : ∃ d, d ∈ rs.rdatas := by
    cases h : rs.rdatas with
    | nil => exact absurd h hne
    | cons d _ => exact ⟨d, by simp⟩
  have hnew : ∀ d ∈ rs.rdatas, (⟨rs.owner, rs.rdtype, d, rs.ttl⟩ : RR) ∈ w ++ recsOf rs := by
    intro d hd; simp only [List.mem_append, recsOf, List.mem_map]; exact Or.inr ⟨d, hd, rfl⟩
  have hw : ∀ r ∈ w, r ∈ w ++ recsOf rs := fun r hr => List.mem_append.2 (Or.inl hr)
  -- the TTL stored is the TTL of the rrset
  have httl : unionTtl (existing w rs.owner rs.rdtype) rs.ttl = rs.ttl := by
    cases he : existing w rs.owner rs.rdtype with
    | nil => rfl
    | cons e es =>
      have hem := mem_existing.1 (show e ∈ existing w rs.owner rs.rdtype by rw [he]; simp)
      have := hc.1 e (hw e hem.1) _ (hnew d0 hd0) hem.2.1 hem.2.2
      simp only [unionTtl]; rw [this]; exact Nat.min_self _
  intro r
  rw [mem_put, httl]
  simp only [List.mem_append]
  constructor
  · rintro (⟨h1, _⟩ | ⟨d, hd, rfl⟩)
    · exact Or.inl h1
    · unfold unionData at hd
      split at hd
      · -- singleton
        split at hd
        · rename_i dl hdl
          simp only [List.mem_singleton] at hd; subst hd
          right; simp only [recsOf, List.mem_map]
          exact ⟨d, List.mem_of_getLast? hdl, rfl⟩
        · rename_i hdl
          exact absurd (List.getLast?_eq_none_iff.1 (by simpa using hdl)) hne
      · rcases List.mem_append.1 hd with h | h
        · left
          simp only [List.mem_map] at h
          obtain ⟨e, he, rfl⟩ := h
          have hem := mem_existing.1 he
          have := hc.1 e (hw e hem.1) _ (hnew d0 hd0) hem.2.1 hem.2.2
          have : e = ⟨rs.owner, rs.rdtype, e.rdata, rs.ttl⟩ := by
            cases e; simp_all
          rw [← this]; exact hem.1
        · right; simp only [recsOf, List.mem_map]; exact ⟨d, h, rfl⟩
  · rintro (h | h)
    · by_cases hk : r.owner = rs.owner ∧ (r.rdtype = rs.rdtype ∨ drivesOut rs.rdtype r = true)
      · rcases hk with ⟨ho, ht | hdo⟩
        · -- same rdataset: kept, under the same TTL
          right
          have httl' := hc.1 r (hw r h) _ (hnew d0 hd0) ho ht
          refine ⟨r.rdata, ?_, by cases r; simp_all⟩
          unfold unionData
          split
          · rename_i hs
            cases hdl : rs.rdatas.getLast? with
            | none => exact absurd (List.getLast?_eq_none_iff.1 hdl) hne
            | some dl =>
              simp only [List.mem_singleton]
              have := hc.2.2 r (hw r h) _ (hnew dl (List.mem_of_getLast? hdl)) ho ht (by rw [ht]; exact hs)
              exact this
          · exact List.mem_append.2 (Or.inl (List.mem_map.2 ⟨r, mem_existing.2 ⟨h, ho, ht⟩, rfl⟩))
        · -- driven out: impossible in a coherent zone
          have := hc.2.1 _ (hnew d0 hd0) r (hw r h) ho.symm
          simp only at this
          rw [this] at hdo; cases hdo
      · exact Or.inl ⟨h, hk⟩
    · right
      simp only [recsOf, List.mem_map] at h
      obtain ⟨d, hd, rfl⟩ := h
      refine ⟨d, ?_, rfl⟩
      unfold unionData
      split
      · rename_i hs
        cases hdl : rs.rdatas.getLast? with
        | none => exact absurd (List.getLast?_eq_none_iff.1 hdl) hne
        | some dl =>
          simp only [List.mem_singleton]
          exact hc.2.2 _ (hnew d hd) _ (hnew dl (List.mem_of_getLast? hdl)) rfl rfl hs
      · exact List.mem_append.2 (Or.inr hd)

theorem kindOf_soa : kindOf soaType = .regular := by decide

/-- `txn.replace(origin, soa)` at the set level -/
def putSoaRec (o : Name) (w : Zone) (r : RR) : Zone :=
  (w.filter fun q => ¬ (q.owner = o ∧ q.rdtype = soaType)) ++ [r]

/-- **`txn.replace`** of the apex SOA on a zone with no CNAME at the apex -/
theorem put_soa_equiv {w : Zone} {o : Name} {ttl : Nat} {d : Rdata}
    (hcn : ∀ q ∈ w, q.owner = o → kindOf q.rdtype ≠ .cname) :
    put w o soaType ttl [d] ≃z putSoaRec o w ⟨o, soaType, d, ttl⟩ := by
  intro r
  rw [mem_put]
  simp only [putSoaRec, List.mem_append, List.mem_filter, List.mem_singleton, decide_eq_true_eq,
    exists_eq_left]
  constructor
  · rintro (⟨h1, h2⟩ | h)
    · exact Or.inl ⟨h1, fun hk => h2 ⟨hk.1, Or.inl hk.2⟩⟩
    · exact Or.inr h
  · rintro (⟨h1, h2⟩ | h)
    · refine Or.inl ⟨h1, fun hk => ?_⟩
      rcases hk with ⟨ho, ht | hdo⟩
      · exact h2 ⟨ho, ht⟩
      · have := hcn r h1 ho
        simp only [drivesOut, kindOf_soa] at hdo
        simp at hdo
        exact this hdo
    · exact Or.inr h

/-- **`txn.delete_exact`** of one record that is present, in a coherent zone: that record goes -/
theorem delete_one_equiv {w : Zone} {r : RR} (hc : Coherent w) (hr : r ∈ w) :
    (if (remaining w r.owner r.rdtype [r.rdata]).isEmpty then
        w.filter fun q => !(q.owner == r.owner && q.rdtype == r.rdtype)
      else put w r.owner r.rdtype (ttlOf (existing w r.owner r.rdtype)) (remaining w r.owner r.rdtype [r.rdata]))
      ≃z (w.filter fun q => ¬ (q ∈ [r])) := by
  have hrem : ∀ d, d ∈ remaining w r.owner r.rdtype [r.rdata] ↔
      (∃ e ∈ w, e.owner = r.owner ∧ e.rdtype = r.rdtype ∧ e.rdata = d) ∧ d ≠ r.rdata := by
    intro d
    simp only [remaining, List.mem_filter, List.mem_map, mem_existing, List.contains_cons, List.contains_nil,
      Bool.or_false, Bool.not_eq_true', beq_eq_false_iff_ne, ne_eq]
    constructor
    · rintro ⟨⟨e, he, rfl⟩, h2⟩; exact ⟨⟨e, he.1, he.2.1, he.2.2, rfl⟩, h2⟩
    · rintro ⟨⟨e, he1, he2, he3, rfl⟩, h2⟩; exact ⟨⟨e, ⟨he1, he2, he3⟩, rfl⟩, h2⟩
  have hsame : ∀ q ∈ w, q.owner = r.owner → q.rdtype = r.rdtype → q.rdata = r.rdata → q = r := by
    intro q hq ho ht hd
    have := hc.1 q hq r hr ho ht
    cases q; cases r; simp_all
  intro q
  simp only [List.mem_filter, List.mem_singleton, decide_eq_true_eq]
  split
  · rename_i hemp
    have hnone : ∀ d, d ∉ remaining w r.owner r.rdtype [r.rdata] := by
      intro d; rw [List.isEmpty_iff.1 hemp]; simp
    simp only [List.mem_filter, Bool.not_eq_true', Bool.and_eq_false_iff, beq_eq_false_iff_ne, ne_eq]
    constructor
    · rintro ⟨h1, h2⟩
      refine ⟨h1, fun e => ?_⟩
      subst e; rcases h2 with h | h <;> exact h rfl
    · rintro ⟨h1, h2⟩
      refine ⟨h1, ?_⟩
      by_cases ho : q.owner = r.owner
      · right; intro ht
        by_cases hd : q.rdata = r.rdata
        · exact h2 (hsame q h1 ho ht hd)
        · exact hnone q.rdata ((hrem _).2 ⟨⟨q, h1, ho, ht, rfl⟩, hd⟩)
      · exact Or.inl ho
  · rw [mem_put]
    constructor
    · rintro (⟨h1, h2⟩ | ⟨d, hd, rfl⟩)
      · exact ⟨h1, fun e => h2 (by subst e; exact ⟨rfl, Or.inl rfl⟩)⟩
      · obtain ⟨⟨e, he, ho, ht, hde⟩, hne⟩ := (hrem d).1 hd
        have httl := ttlOf_existing hc (mem_existing.2 ⟨he, ho, ht⟩)
        have : (⟨r.owner, r.rdtype, d, ttlOf (existing w r.owner r.rdtype)⟩ : RR) = e := by
          cases e; simp_all
        rw [this]
        exact ⟨he, fun e' => hne (by rw [← hde, e'])⟩
    · rintro ⟨h1, h2⟩
      by_cases hk : q.owner = r.owner ∧ (q.rdtype = r.rdtype ∨ drivesOut r.rdtype q = true)
      · rcases hk with ⟨ho, ht | hdo⟩
        · right
          have hd : q.rdata ≠ r.rdata := fun hd => h2 (hsame q h1 ho ht hd)
          refine ⟨q.rdata, (hrem _).2 ⟨⟨q, h1, ho, ht, rfl⟩, hd⟩, ?_⟩
          have httl := ttlOf_existing hc (mem_existing.2 ⟨h1, ho, ht⟩)
          cases q; simp_all
        · have := hc.2.1 r hr q h1 ho.symm
          rw [this] at hdo; cases hdo
      · exact Or.inl ⟨h1, hk⟩

end Model.Xfr

import Proofs.BTreeCowWorld
/-!
Mechanism-level proofs, part 13: sessions.  Invariant of a session (`SessOk`), and the refinement theorem:
one step of the heap model is one step of the persistent reference on the abstraction of every tree.
-/
namespace Model.BTreeCow
open Model.BTree

/-! ## list helpers -/

theorem set_getElem?_self {α} (l : List α) (i : Nat) (a : α) (h : l[i]? = some a) : l.set i a = l := by
  induction l generalizing i with
  | nil => rfl
  | cons x l ih =>
    cases i with
    | zero => simp at h; simp [h]
    | succ i => simp at h; simp [ih i h]

theorem mem_set_cases {α} {l : List α} {i : Nat} {a x : α} (h : x ∈ l.set i a) :
    x = a ∨ ∃ j, j ≠ i ∧ l[j]? = some x := by
  induction l generalizing i with
  | nil => simp at h
  | cons y l ih =>
    cases i with
    | zero =>
      simp at h
      rcases h with h | h
      · exact Or.inl h
      · obtain ⟨j, hj⟩ := List.getElem?_of_mem h
        exact Or.inr ⟨j + 1, by omega, by simpa using hj⟩
    | succ i =>
      simp at h
      rcases h with h | h
      · exact Or.inr ⟨0, by omega, by simp [h]⟩
      · rcases ih h with h' | ⟨j, hj1, hj2⟩
        · exact Or.inl h'
        · exact Or.inr ⟨j + 1, by omega, by simpa using hj2⟩

/-- in a list whose `f`-images are pairwise distinct, two positions with the same image coincide -/
theorem nodup_map_index {α β} {f : α → β} {l : List α} (nd : (l.map f).Nodup) {i j : Nat} {a b : α}
    (hi : l[i]? = some a) (hj : l[j]? = some b) (hf : f a = f b) : i = j := by
  induction l generalizing i j with
  | nil => simp at hi
  | cons x l ih =>
    simp only [List.map_cons, List.nodup_cons] at nd
    cases i with
    | zero =>
      cases j with
      | zero => rfl
      | succ j =>
        simp at hi hj; subst hi
        exact absurd (List.mem_map.mpr ⟨b, List.mem_of_getElem? hj, hf.symm⟩) nd.1
    | succ i =>
      cases j with
      | zero =>
        simp at hi hj; subst hj
        exact absurd (List.mem_map.mpr ⟨a, List.mem_of_getElem? hi, hf⟩) nd.1
      | succ j =>
        simp at hi hj
        rw [ih nd.2 hi hj]

theorem map_set_congr {α β} {f f' : α → β} {l : List α} {i : Nat} {a : α}
    (hf : ∀ j x, j ≠ i → l[j]? = some x → f' x = f x) :
    (l.set i a).map f' = (l.map f).set i (f' a) := by
  induction l generalizing i with
  | nil => rfl
  | cons y l ih =>
    cases i with
    | zero =>
      simp only [List.set_cons_zero, List.map_cons]
      congr 1
      exact List.map_congr_left (fun x hx => by
        obtain ⟨j, hj⟩ := List.getElem?_of_mem hx
        exact hf (j + 1) x (by omega) (by simpa using hj))
    | succ i =>
      simp only [List.set_cons_succ, List.map_cons]
      rw [hf 0 y (by omega) (by simp)]
      congr 1
      exact ih (fun j x hj hx => hf (j + 1) x (by omega) (by simpa using hx))

/-! ## the invariant -/

/-- a well-formed tree handle: `t ≥ 3`, the repaired `_delete`, a token that was handed out, and a well-formed,
unshared tree of cells whose abstraction is a well-formed B-tree with an exact `size` -/
structure TreeOk (w : World) (hd : Handle) : Prop where
  t_ok : 3 ≤ hd.t
  ca : hd.collapseAlways = true
  tok : hd.creator < w.nextCreator
  tree : ∃ h, HT w.heap h hd.root ∧ (reach w.heap h hd.root).Nodup ∧ Wf hd.t (absN w.heap h hd.root) ∧
      RootOk (absN w.heap h hd.root) ∧ hd.size = (flat (absN w.heap h hd.root)).length

/-- the invariant of a session: every handle is well formed, every cell was created by a token that was handed
out, tokens are pairwise distinct, and no cell created by the token of a *mutable* tree is reachable from any
other tree -/
structure SessOk (s : Sess) : Prop where
  trees : ∀ hd ∈ s.hs, TreeOk s.w hd
  cells : ∀ x, x < s.w.heap.size → (rd s.w.heap x).creator < s.w.nextCreator
  distinct : (s.hs.map (·.creator)).Nodup
  excl : ∀ (i j : Nat) (hi hj : Handle), s.hs[i]? = some hi → s.hs[j]? = some hj → i ≠ j → hi.immutable = false →
      ∀ h, HT s.w.heap h hj.root → ∀ x ∈ reach s.w.heap h hj.root, (rd s.w.heap x).creator ≠ hi.creator

theorem HT_height_unique {H : Heap} : ∀ {h1 h2 a : Nat}, HT H h1 a → HT H h2 a → h1 = h2 := by
  intro h1
  induction h1 with
  | zero =>
    intro h2 a t1 t2
    cases h2 with
    | zero => rfl
    | succ h2 => have := t1.2; have := t2.2.1; simp_all
  | succ h1 ih =>
    intro h2 a t1 t2
    cases h2 with
    | zero => have := t1.2.1; have := t2.2; simp_all
    | succ h2 =>
      have hlen := t1.2.2.1
      cases hk : (rd H a).kids with
      | nil => rw [hk] at hlen; simp at hlen
      | cons k ks =>
        have := ih (HT_kid (k := k) t1 (by rw [hk]; simp)) (HT_kid (k := k) t2 (by rw [hk]; simp))
        omega

theorem handle_abs_eq {w : World} {hd : Handle} {h : Nat} (ht : HT w.heap h hd.root)
    (nd : (reach w.heap h hd.root).Nodup) : hd.abs w = absN w.heap h hd.root := by
  unfold Handle.abs
  rw [heightOf_of_HT ht nd]

/-- a tree that reaches no cell of creator `c` is untouched by an operation of the tree with token `c` -/
theorem other_unchanged {c : Nat} {H H' : Heap} {h root h' root' : Nat} {n' : Node}
    (u : RUpd c H H' h root h' root' n') {hj rj : Nat} (htj : HT H hj rj)
    (hex : ∀ x ∈ reach H hj rj, (rd H x).creator ≠ c) :
    absN H' hj rj = absN H hj rj ∧ reach H' hj rj = reach H hj rj ∧ HT H' hj rj := by
  have := frame u.size hj rj (fun x hx => u.same x (reach_lt htj x hx) (Or.inr (hex x hx)))
  exact ⟨this.1, this.2.1, this.2.2 htj⟩

/-! ## a mutation of one tree -/

/-- The common part of `insert_element` and `_delete`: the tree at index `i` (mutable, token `c`) performed an
operation described by `RUpd`; its handle changed only in `root` and `size`.  Then the session invariant holds
again and the abstraction of every other tree is the same. -/
theorem step_mut {s : Sess} {i : Nat} {hd hd' : Handle} {H' : Heap} {h h' : Nat} {tr' : Tree}
    (ok : SessOk s) (hi : s.hs[i]? = some hd) (hm : hd.immutable = false)
    (htree : HT s.w.heap h hd.root) (u : RUpd hd.creator s.w.heap H' h hd.root h' hd'.root tr'.root)
    (hsame : hd'.t = hd.t ∧ hd'.immutable = hd.immutable ∧ hd'.inOrder = hd.inOrder ∧ hd'.creator = hd.creator ∧
      hd'.collapseAlways = hd.collapseAlways ∧ hd'.collapseOnError = hd.collapseOnError)
    (hwf : Wf hd.t tr'.root ∧ RootOk tr'.root ∧ hd'.size = (flat tr'.root).length)
    (htr : tr' = ⟨hd.t, tr'.root, hd'.size, hd.immutable, hd.inOrder, hd.collapseAlways, hd.collapseOnError⟩) :
    SessOk ⟨{ s.w with heap := H' }, s.hs.set i hd'⟩ ∧
    Sess.abs ⟨{ s.w with heap := H' }, s.hs.set i hd'⟩ = s.abs.set i tr' := by
  have hdmem : hd ∈ s.hs := List.mem_of_getElem? hi
  have okd := ok.trees hd hdmem
  -- every other tree is untouched
  have hother : ∀ j x, j ≠ i → s.hs[j]? = some x → ∀ hj, HT s.w.heap hj x.root →
      absN H' hj x.root = absN s.w.heap hj x.root ∧ reach H' hj x.root = reach s.w.heap hj x.root ∧ HT H' hj x.root :=
    fun j x hji hx hj htj => other_unchanged u htj (ok.excl i j hd x hi hx (Ne.symm hji) hm hj htj)
  have hnew_abs : hd'.abs { s.w with heap := H' } = tr'.root := by
    rw [handle_abs_eq (w := { s.w with heap := H' }) u.ht u.nodup]; exact u.abs
  constructor
  · refine ⟨?_, ?_, ?_, ?_⟩
    · intro x hx
      rcases mem_set_cases hx with rfl | ⟨j, hji, hjx⟩
      · refine ⟨by rw [hsame.1]; exact okd.t_ok, by rw [hsame.2.2.2.2.1]; exact okd.ca,
          by rw [hsame.2.2.2.1]; exact okd.tok, h', u.ht, u.nodup, ?_, ?_, ?_⟩
        · rw [u.abs, hsame.1]; exact hwf.1
        · rw [u.abs]; exact hwf.2.1
        · rw [u.abs]; exact hwf.2.2
      · have okx := ok.trees x (List.mem_of_getElem? hjx)
        obtain ⟨hj, t1, t2, t3, t4, t5⟩ := okx.tree
        obtain ⟨a1, a2, a3⟩ := hother j x hji hjx hj t1
        exact ⟨okx.t_ok, okx.ca, okx.tok, hj, a3, by rw [a2]; exact t2, by rw [a1]; exact t3, by rw [a1]; exact t4,
          by rw [a1]; exact t5⟩
    · intro x hx
      by_cases hlt : x < s.w.heap.size
      · rw [u.creator x hlt]; exact ok.cells x hlt
      · rw [u.fresh x (by omega) hx]; exact okd.tok
    · have : (s.hs.set i hd').map (·.creator) = s.hs.map (·.creator) := by
        rw [List.map_set]
        apply set_getElem?_self
        rw [List.getElem?_map, hi, hsame.2.2.2.1]; rfl
      rw [this]; exact ok.distinct
    · intro a b ha hb hga hgb hab hma hh hth x hx
      simp only [List.getElem?_set] at hga hgb
      by_cases hbi : i = b
      · -- the reached tree is the one that was operated on
        subst hbi
        have hilt : i < s.hs.length := by
          rcases Nat.lt_or_ge i s.hs.length with h1 | h1
          · exact h1
          · rw [List.getElem?_eq_none h1] at hi; cases hi
        simp only [hilt, if_true, Option.some.injEq] at hgb
        subst hgb
        have hai : ¬ i = a := fun e => hab e.symm
        simp only [hai, if_false] at hga
        have := HT_height_unique hth u.ht
        subst this
        have hne : ha.creator ≠ hd.creator := by
          intro e
          exact hab (nodup_map_index ok.distinct hga hi e)
        rcases u.sub x hx with hold | hfresh
        · rw [u.creator x (reach_lt htree x hold)]
          exact ok.excl a i ha hd hga hi hab hma h htree x hold
        · have hxlt := reach_lt u.ht x hx
          rw [u.fresh x hfresh hxlt]
          exact fun e => hne e.symm
      · -- the reached tree is another one
        simp only [hbi, if_false] at hgb
        obtain ⟨hj, t1, _, _, _, _⟩ := (ok.trees hb (List.mem_of_getElem? hgb)).tree
        obtain ⟨a1, a2, a3⟩ := hother b hb (Ne.symm hbi) hgb hj t1
        have := HT_height_unique hth a3
        subst this
        rw [a2] at hx
        rw [u.creator x (reach_lt t1 x hx)]
        by_cases hai : i = a
        · subst hai
          have hilt : i < s.hs.length := by
            rcases Nat.lt_or_ge i s.hs.length with h1 | h1
            · exact h1
            · rw [List.getElem?_eq_none h1] at hi; cases hi
          simp only [hilt, if_true, Option.some.injEq] at hga
          subst hga
          rw [hsame.2.2.2.1]
          exact ok.excl i b hd hb hi hgb hab hm hh t1 x hx
        · simp only [hai, if_false] at hga
          exact ok.excl a b ha hb hga hgb hab hma hh t1 x hx
  · unfold Sess.abs
    simp only []
    rw [map_set_congr (f := Handle.toTree s.w)]
    · congr 1
      rw [htr]
      simp only [Handle.toTree, hnew_abs, hsame.1, hsame.2.1, hsame.2.2.1, hsame.2.2.2.2.1, hsame.2.2.2.2.2]
    · intro j x hji hjx
      obtain ⟨hj, t1, t2, _, _, _⟩ := (ok.trees x (List.mem_of_getElem? hjx)).tree
      obtain ⟨a1, a2, a3⟩ := hother j x hji hjx hj t1
      simp only [Handle.toTree]
      rw [handle_abs_eq (w := { s.w with heap := H' }) a3 (by rw [a2]; exact t2), handle_abs_eq t1 t2, a1]

end Model.BTreeCow

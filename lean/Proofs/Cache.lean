import Model.Cache
/-! Helper lemmas for C17, part 1: the plain `Cache` refines a timed map. -/
namespace Model.Cache

/-- keys of an association list are pairwise distinct -/
def KeysNodup {α : Type} (d : List (Key × α)) : Prop := d.Pairwise (fun a b => a.1 ≠ b.1)

theorem dget_none_of_not_mem {α : Type} (d : List (Key × α)) (k : Key) (h : ∀ x ∈ d, x.1 ≠ k) :
    dget d k = none := by
  induction d with
  | nil => rfl
  | cons p rest ih =>
    have hp : p.1 ≠ k := h p (by simp)
    simp [dget, hp, ih (fun x hx => h x (by simp [hx]))]

theorem dget_mem {α : Type} (d : List (Key × α)) (k : Key) (a : α) (h : dget d k = some a) : (k, a) ∈ d := by
  induction d with
  | nil => simp [dget] at h
  | cons p rest ih =>
    by_cases hp : p.1 = k
    · simp [dget, hp] at h
      cases p; simp_all
    · simp [dget, hp] at h
      exact List.mem_cons_of_mem _ (ih h)

theorem dget_ddel {α : Type} (d : List (Key × α)) (k k' : Key) :
    dget (ddel d k) k' = if k' = k then none else dget d k' := by
  induction d with
  | nil => simp [ddel, dget]
  | cons p rest ih =>
    unfold ddel at ih ⊢
    by_cases hp : p.1 = k <;> by_cases hk : k' = k <;> by_cases hpk : p.1 = k' <;>
      simp_all [dget]

theorem dget_append {α : Type} (d e : List (Key × α)) (k : Key) :
    dget (d ++ e) k = match dget d k with | some a => some a | none => dget e k := by
  induction d with
  | nil => simp [dget]
  | cons p rest ih =>
    by_cases hp : p.1 = k <;> simp [dget, hp, ih]

theorem dget_dset {α : Type} (d : List (Key × α)) (k k' : Key) (v : α) :
    dget (dset d k v) k' = if k' = k then some v else dget d k' := by
  unfold dset
  rw [dget_append, dget_ddel]
  by_cases hk : k' = k
  · subst hk; simp [dget]
  · have : k ≠ k' := fun h => hk h.symm
    simp [hk, dget, this]
    cases dget d k' <;> rfl

theorem keysNodup_ddel {α : Type} (d : List (Key × α)) (k : Key) (h : KeysNodup d) : KeysNodup (ddel d k) :=
  List.Pairwise.filter _ h

theorem keysNodup_dset {α : Type} (d : List (Key × α)) (k : Key) (v : α) (h : KeysNodup d) :
    KeysNodup (dset d k v) := by
  unfold dset KeysNodup
  rw [List.pairwise_append]
  refine ⟨keysNodup_ddel d k h, by simp, ?_⟩
  intro a ha b hb
  simp [ddel] at ha hb
  subst hb
  exact ha.2

theorem dget_filter {α : Type} (d : List (Key × α)) (q : Key × α → Bool) (k : Key) (h : KeysNodup d) :
    dget (d.filter q) k = match dget d k with | some a => if q (k, a) then some a else none | none => none := by
  induction d with
  | nil => simp [dget]
  | cons p rest ih =>
    have hr : KeysNodup rest := (List.pairwise_cons.mp h).2
    have hd : ∀ x ∈ rest, p.1 ≠ x.1 := (List.pairwise_cons.mp h).1
    by_cases hp : p.1 = k
    · have hpe : p = (k, p.2) := by cases p; simp_all
      have hnone : dget rest k = none := dget_none_of_not_mem rest k (fun x hx => by have := hd x hx; intro e; exact this (hp.trans e.symm))
      by_cases hq : q p
      · rw [List.filter_cons_of_pos hq]
        simp only [dget, hp, if_true]
        rw [← hpe]; simp [hq]
      · rw [List.filter_cons_of_neg hq, ih hr, hnone]
        simp only [dget, hp, if_true]
        rw [← hpe]; simp [hq]
    · by_cases hq : q p
      · rw [List.filter_cons_of_pos hq]; simp only [dget, hp, if_false]; exact ih hr
      · rw [List.filter_cons_of_neg hq]; simp only [dget, hp, if_false]; exact ih hr

/-! ### the timed-map specification (written without reference to cleaning, eviction or the ring) -/

abbrev TMap := Key → Option Ans

def specStep (m : TMap) : Op → TMap
  | .put k a => fun k' => if k' = k then some a else m k'
  | .flush k => fun k' => if k' = k then none else m k'
  | .flushAll => fun _ => none
  | _ => m

def specRun (m : TMap) (ops : List Op) : TMap := ops.foldl specStep m

/-- what a lookup must return: the most recent stored answer, if it has not expired -/
def specGet (m : TMap) (now : Nat) (k : Key) : Out :=
  match m k with
  | some a => if a.exp ≤ now then .none else .val a.val
  | none => .none

/-- refinement relation between a `Cache` state and the timed map: the dict holds the map, except that entries
that have expired may be missing (removed by a sweep) -/
def RefC (s : CState) (m : TMap) : Prop :=
  KeysNodup s.data ∧ ∀ k, dget s.data k = m k ∨ (dget s.data k = none ∧ ∃ a, m k = some a ∧ a.exp ≤ s.now)

theorem refC_maybeClean (s : CState) (m : TMap) (h : RefC s m) : RefC (maybeClean s) m := by
  unfold maybeClean
  split
  · refine ⟨List.Pairwise.filter _ h.1, fun k => ?_⟩
    simp only
    rw [dget_filter _ _ _ h.1]
    rcases h.2 k with h1 | ⟨h1, a, ha, he⟩
    · rw [h1]
      cases hm : m k with
      | none => simp
      | some a =>
        by_cases he : a.exp ≤ s.now
        · right; simp [he]
        · left; simp [he]
    · right; rw [h1]; exact ⟨rfl, a, ha, he⟩
  · exact h

theorem maybeClean_now (s : CState) : (maybeClean s).now = s.now := by
  unfold maybeClean; split <;> rfl

theorem refC_step (s : CState) (m : TMap) (op : Op) (h : RefC s m) : RefC (stepC s op).1 (specStep m op) := by
  cases op with
  | get k =>
    have hc := refC_maybeClean s m h
    simp only [stepC, specStep]
    split
    · exact hc
    · split <;> exact hc
  | put k a =>
    have hc := refC_maybeClean s m h
    simp only [stepC, specStep]
    refine ⟨keysNodup_dset _ _ _ hc.1, fun k' => ?_⟩
    simp only
    rw [dget_dset]
    by_cases hk : k' = k
    · simp [hk]
    · simp only [hk, if_false]; exact hc.2 k'
  | flush k =>
    simp only [stepC, specStep]
    refine ⟨keysNodup_ddel _ _ h.1, fun k' => ?_⟩
    simp only
    rw [dget_ddel]
    by_cases hk : k' = k
    · simp [hk]
    · simp only [hk, if_false]; exact h.2 k'
  | flushAll =>
    simp only [stepC, specStep]
    exact ⟨List.Pairwise.nil, fun k' => Or.inl (by simp [dget])⟩
  | adv dt =>
    simp only [stepC, specStep]
    refine ⟨h.1, fun k => ?_⟩
    rcases h.2 k with h1 | ⟨h1, a, ha, he⟩
    · exact Or.inl h1
    · exact Or.inr ⟨h1, a, ha, by simp only; omega⟩
  | setMax n => exact h
  | hits => exact h
  | misses => exact h
  | hitsFor k => exact h
  | reset => exact h
  | snapshot => exact h

theorem refC_run (s : CState) (m : TMap) (ops : List Op) (h : RefC s m) :
    RefC (runC s ops).1 (specRun m ops) := by
  induction ops generalizing s m with
  | nil => exact h
  | cons op rest ih =>
    simp only [runC, specRun, List.foldl_cons]
    exact ih _ _ (refC_step s m op h)

theorem refC_init (iv t0 : Nat) : RefC (initC iv t0) (fun _ => none) :=
  ⟨List.Pairwise.nil, fun _ => Or.inl rfl⟩

theorem get_of_refC (s : CState) (m : TMap) (k : Key) (h : RefC s m) :
    (stepC s (.get k)).2 = specGet m s.now k := by
  have hc := refC_maybeClean s m h
  have hn := maybeClean_now s
  simp only [stepC, specGet]
  rcases hc.2 k with h1 | ⟨h1, a, ha, he⟩
  · rw [h1]
    cases m k with
    | none => rfl
    | some a =>
      simp only [hn]
      by_cases he : a.exp ≤ s.now <;> simp [he]
  · rw [h1, ha]
    rw [hn] at he
    simp [he]

end Model.Cache

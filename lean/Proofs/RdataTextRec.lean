import Proofs.RdataTextName
import Proofs.RdataTextB64
import Proofs.RdataTextIP6e
import Proofs.RdataTextUtf8
import Proofs.RdataTextField2
import Proofs.RdataTextField3
import Proofs.RdataTextBitmap
import Proofs.RdataTextB32
import Proofs.RdataTextField4
import Proofs.RdataTextApl
import Proofs.RdataTextWks
/-! Records: fields joined by spaces, tails, and the schema-generic round trip through `dns.rdata.from_text` (C05). -/
namespace Model

/-- per-field conditions of the exact round trip (`False` = the kind is modelled but has no lemma yet) -/
def FieldOk (st : Style) (env : PEnv) : FK → FV → Prop
  | .uint max, .n v => v ≤ max
  | .ttl, .n v => v ≤ Consts.maxTTL
  | .algo, .n v => v ≤ 255
  | .name, .nm n => NameFieldOk st env n
  | .cstr maxTok maxBytes true, .b s =>
    (∀ c ∈ s, c < 256) ∧ (∀ m, maxTok = some m → s.length ≤ m) ∧ (∀ m, maxBytes = some m → s.length ≤ m)
  | .cstr maxTok maxBytes false, .b s =>
    s ≠ [] ∧ (∀ c ∈ s, isAlnumC c = true) ∧ (∀ m, maxTok = some m → s.length ≤ m) ∧ (∀ m, maxBytes = some m → s.length ≤ m)
  | .ip4, .b a => ∃ x0 x1 x2 x3, a = [x0, x1, x2, x3] ∧ x0 < 256 ∧ x1 < 256 ∧ x2 < 256 ∧ x3 < 256
  | .ip6, .b a => a.length = 16 ∧ ∀ x ∈ a, x < 256
  | .salt, .b s => (∀ x ∈ s, x < 256) ∧ s.length ≤ 255
  | .oct16, .n v => v ≤ 65535
  | .eui n, .b s => (∀ x ∈ s, x < 256) ∧ s.length = n ∧ 0 < n
  | .hex16x4, .b s => s.length = 8 ∧ ∀ x ∈ s, x < 256
  | .nsap, .b s => ∀ x ∈ s, x < 256
  | .rdtype, .n v => v ≤ 65535
  | .algoName, .n v => v ≤ 255
  | .scheme, .n v => v ≤ 255
  | .ctype, .n v => v ≤ 65535
  | .keyFlags, .n v => v ≤ 65535
  | .keyProto, .n v => v ≤ 255
  | .sigtime, .n v => v < 4294967296
  | .b32hex, .b s => (∀ x ∈ s, x < 256) ∧ s ≠ [] ∧ s.length ≤ 255
  | .hexOne, .b s => (∀ x ∈ s, x < 256) ∧ s ≠ [] ∧ s.length ≤ 255
  | .b64One, .b s => (∀ x ∈ s, x < 256) ∧ s ≠ [] ∧ s.length ≤ 65535
  | .rcode, .n v => v ≤ 4095
  | .gpos lim, .b s => s.length ≤ 255 ∧ gposCheck lim s = true
  | .nameRaw, .nm n => WfName n ∧ OctetsOk n ∧ chooseRelativity n st.origin st.relativize = .ok n
  | _, _ => False

theorem field_ip6 (st : Style) (env : PEnv) (a : Bytes) (hlen : a.length = 16) (ha : ∀ x ∈ a, x < 256) :
    ∃ text, FieldRT st env .ip6 (.b a) text ⟨.ident, text⟩ := by
  obtain ⟨t, ht, hat⟩ := ip6_roundtrip a hlen ha
  obtain ⟨hpl, hne⟩ := ip6Ntoa_plain a hlen ha t ht
  refine ⟨t, by simp [printField, ht], lexes_plain t hne hpl, ?_, notHash_plain t hpl⟩
  simp [parseField, unescapeCP_plain_all t hpl, hat]

theorem field_rt (st : Style) (env : PEnv) (k : FK) (v : FV) (h : FieldOk st env k v) :
    ∃ text tok, FieldRT st env k v text tok := by
  cases k <;> cases v <;> simp only [FieldOk] at h <;> try exact h.elim
  case uint.n max v => exact ⟨_, _, field_uint st env max v h⟩
  case ttl.n v => exact ⟨_, _, field_ttl st env v h⟩
  case algo.n v => exact ⟨_, _, field_algo st env v h⟩
  case name.nm n =>
    obtain ⟨t, ht⟩ := field_name st env n h
    exact ⟨_, _, ht⟩
  case cstr.b maxTok maxBytes q s =>
    cases q with
    | false => simp only [FieldOk] at h; exact ⟨_, _, field_cstr_bare st env maxTok maxBytes s h.1 h.2.1 h.2.2.1 h.2.2.2⟩
    | true => simp only [FieldOk] at h; exact ⟨_, _, field_cstr_quoted st env maxTok maxBytes s h.1 h.2.1 h.2.2⟩
  case ip4.b a =>
    obtain ⟨x0, x1, x2, x3, rfl, h0, h1, h2, h3⟩ := h
    obtain ⟨t, ht⟩ := field_ip4 st env x0 x1 x2 x3 h0 h1 h2 h3
    exact ⟨_, _, ht⟩
  case ip6.b a =>
    obtain ⟨t, ht⟩ := field_ip6 st env a h.1 h.2
    exact ⟨_, _, ht⟩
  case salt.b s =>
    obtain ⟨t, ht⟩ := field_salt st env s h.1 h.2
    exact ⟨_, _, ht⟩
  case oct16.n v => exact ⟨_, _, field_oct16 st env v h⟩
  case eui.b n s => exact ⟨_, _, field_eui st env n s h.1 h.2.1 h.2.2⟩
  case hex16x4.b s =>
    obtain ⟨a, b, c, d, e, f, g, i, rfl⟩ := list8 s h.1
    have hb := h.2
    obtain ⟨t, ht⟩ := field_hex16x4 st env a b c d e f g i (hb a (by simp)) (hb b (by simp)) (hb c (by simp))
      (hb d (by simp)) (hb e (by simp)) (hb f (by simp)) (hb g (by simp)) (hb i (by simp))
    exact ⟨_, _, ht⟩
  case nsap.b s => exact ⟨_, _, field_nsap st env s h⟩
  case rdtype.n v => obtain ⟨t, ht⟩ := field_rdtype st env v h; exact ⟨_, _, ht⟩
  case algoName.n v => obtain ⟨t, ht⟩ := field_algoName st env v h; exact ⟨_, _, ht⟩
  case scheme.n v => obtain ⟨t, ht⟩ := field_scheme st env v h; exact ⟨_, _, ht⟩
  case ctype.n v => obtain ⟨t, ht⟩ := field_ctype st env v h; exact ⟨_, _, ht⟩
  case keyFlags.n v => exact ⟨_, _, field_keyFlags st env v h⟩
  case keyProto.n v => exact ⟨_, _, field_keyProto st env v h⟩
  case sigtime.n v => obtain ⟨t, ht⟩ := field_sigtime st env v h; exact ⟨_, _, ht⟩
  case hexOne.b s => exact ⟨_, _, field_hexOne st env s h.1 h.2.1 h.2.2⟩
  case b64One.b s => exact ⟨_, _, field_b64One st env s h.1 h.2.1 h.2.2⟩
  case rcode.n v => obtain ⟨t, ht⟩ := field_rcode st env v h; exact ⟨_, _, ht⟩
  case gpos.b lim s => exact ⟨_, _, field_gpos st env lim s h.1 h.2⟩
  case nameRaw.nm n => exact ⟨_, _, field_nameRaw st env n h.1 h.2.1 h.2.2⟩
  case b32hex.b s => exact ⟨_, _, field_b32hex st env s h.1 h.2.1 h.2.2 (b32_roundtrip s h.1)⟩

def FieldsOk (st : Style) (env : PEnv) : List FK → List FV → Prop
  | [], [] => True
  | k :: ks, v :: vs => FieldOk st env k v ∧ FieldsOk st env ks vs
  | _, _ => False

theorem fields_rt (st : Style) (env : PEnv) (ks : List FK) (vs : List FV) (h : FieldsOk st env ks vs) :
    ∃ items : List (List Nat × Tok),
      printFields st ks vs = some (items.map (·.1)) ∧ (∀ p ∈ items, Lexes p.1 [p.2]) ∧
      (∀ rest, parseFields env ks (items.map (·.2) ++ rest) = some (vs, rest)) ∧ (∀ p ∈ items, NotHash p.2) ∧
      items.length = ks.length := by
  induction ks generalizing vs with
  | nil =>
    cases vs with
    | nil => exact ⟨[], by simp [printFields], by simp, by simp [parseFields], by simp, rfl⟩
    | cons v vs => simp [FieldsOk] at h
  | cons k ks ih =>
    cases vs with
    | nil => simp [FieldsOk] at h
    | cons v vs =>
      obtain ⟨hk, hrest⟩ := h
      obtain ⟨text, tok, hp, hl, hpa, hnh⟩ := field_rt st env k v hk
      obtain ⟨items, ip, il, ipa, inh, ilen⟩ := ih vs hrest
      refine ⟨(text, tok) :: items, by simp [printFields, hp, ip], ?_, ?_, ?_, by simp [ilen]⟩
      · intro p hpm; simp at hpm; rcases hpm with e | e
        · subst e; exact hl
        · exact il p e
      · intro rest; simp [parseFields, hpa, ipa rest]
      · intro p hpm; simp at hpm; rcases hpm with e | e
        · subst e; exact hnh
        · exact inh p e

theorem flatMap_singleton_map {α β : Type} (f : α → β) (l : List α) : l.flatMap (fun a => [f a]) = l.map f := by
  induction l with
  | nil => rfl
  | cons a as ih => simp [List.flatMap_cons, ih]

/-! ## tails -/

/-- the gateway / relay value agrees with its type: nothing; an address text as `inet_aton` accepts it (stored and printed
as written, e.g. what `inet_ntoa` produced when the record came from wire); a name that round-trips -/
def GatewayOk (st : Style) (env : PEnv) (kind : Nat) (addr : List Nat) (nm : Name) : Prop :=
  (kind = 0 ∧ addr = [] ∧ nm = []) ∨
  (kind = 1 ∧ nm = [] ∧ addr ≠ [] ∧ Plain addr ∧ (ip4Aton addr).isSome = true) ∨
  (kind = 2 ∧ nm = [] ∧ addr ≠ [] ∧ Plain addr ∧ (ip6Aton addr).isSome = true) ∨
  (kind = 3 ∧ addr = [] ∧ NameFieldOk st env nm)

theorem gateway_tok (st : Style) (env : PEnv) (kind : Nat) (addr : List Nat) (nm : Name) (h : GatewayOk st env kind addr nm) :
    ∃ g, gatewayText st kind addr nm = some g ∧ Lexes g [⟨.ident, g⟩] ∧
      parseGatewayTok env kind ⟨.ident, g⟩ = some (addr, nm) ∧ NotHash ⟨.ident, g⟩ := by
  rcases h with ⟨rfl, rfl, rfl⟩ | ⟨rfl, rfl, hne, hp, hv⟩ | ⟨rfl, rfl, hne, hp, hv⟩ | ⟨rfl, rfl, hn⟩
  · have hp : Plain [46] := by intro c hc; simp at hc; subst hc; decide
    refine ⟨[46], rfl, lexes_plain _ (by simp) hp, ?_, notHash_plain _ hp⟩
    simp [parseGatewayTok, asString, unescapeCP_plain_all _ hp]
  · refine ⟨addr, by simp [gatewayText], lexes_plain _ hne hp, ?_, notHash_plain _ hp⟩
    simp [parseGatewayTok, asString, unescapeCP_plain_all _ hp, hv]
  · refine ⟨addr, by simp [gatewayText], lexes_plain _ hne hp, ?_, notHash_plain _ hp⟩
    simp [parseGatewayTok, asString, unescapeCP_plain_all _ hp, hv]
  · obtain ⟨m, hp, hw, ho, hb⟩ := hn
    obtain ⟨hlex, hnh⟩ := toText_lexes m hw ho
    refine ⟨toText m, by simp [gatewayText, nameToStyled, hp], hlex, ?_, hnh⟩
    simp [parseGatewayTok, asName_toText env m hw ho, hb]

/-- the gateway of a record decoded from wire (`inet_ntoa` of the 4 / 16 address octets) is well-formed -/
theorem gatewayOk_wire4 (st : Style) (env : PEnv) (a b c d : Nat) (ha : a < 256) (hb : b < 256) (hc : c < 256) (hd : d < 256) :
    ∃ t, ip4Ntoa [a, b, c, d] = some t ∧ GatewayOk st env 1 t [] := by
  obtain ⟨t, ht, hat⟩ := ip4_roundtrip a b c d ha hb hc hd
  have htext : t = natToDec a ++ 46 :: (natToDec b ++ 46 :: (natToDec c ++ 46 :: natToDec d)) := by
    simp [ip4Ntoa] at ht; exact ht.symm
  have hpl : Plain t := by rw [htext]; exact ip4Ntoa_plain a b c d
  have hne : t ≠ [] := by
    rw [htext]; intro e
    have := congrArg List.length e
    simp at this
  exact ⟨t, ht, Or.inr (Or.inl ⟨rfl, rfl, hne, hpl, by simp [hat]⟩)⟩

theorem gatewayOk_wire6 (st : Style) (env : PEnv) (a : Bytes) (hlen : a.length = 16) (ha : ∀ x ∈ a, x < 256) :
    ∃ t, ip6Ntoa a = some t ∧ GatewayOk st env 2 t [] := by
  obtain ⟨t, ht, hat⟩ := ip6_roundtrip a hlen ha
  obtain ⟨hpl, hne⟩ := ip6Ntoa_plain a hlen ha t ht
  exact ⟨t, ht, Or.inr (Or.inr (Or.inl ⟨rfl, rfl, hne, hpl, by simp [hat]⟩))⟩

def TailOk (st : Style) (env : PEnv) (vals : List FV) : TK → Option FV → Prop
  | .none, none => True
  | .hex, some (.b d) => d ≠ [] ∧ (∀ x ∈ d, x < 256) ∧ ChunkOk st.hexChunk st.hexSep
  | .b64 fixed0, some (.b d) => d ≠ [] ∧ (∀ x ∈ d, x < 256) ∧ ChunkOk (if fixed0 then 0 else st.b64Chunk) st.b64Sep
  | .txt, some (.bl ss) => ss ≠ [] ∧ ∀ s ∈ ss, (∀ c ∈ s, c < 256) ∧ s.length ≤ 255
  | .optCstr, some (.b s) => (∀ c ∈ s, c < 256) ∧ s.length ≤ 255
  | .keyB64, some (.b d) =>
    (keyIsNoKey vals = true ∧ d = []) ∨
    (keyIsNoKey vals = false ∧ d ≠ [] ∧ (∀ x ∈ d, x < 256) ∧ ChunkOk st.b64Chunk st.b64Sep)
  | .bitmap, some (.wl ws) => WfWins ws
  | .names, some (.nl ns) => ∀ n ∈ ns, NameFieldOk st env n
  | .b64Opt, some (.b d) => (∀ x ∈ d, x < 256) ∧ d.length ≤ 65535
  | .tsigOther, some (.b d) => (∀ x ∈ d, x < 256) ∧ vals[7]? = some (.n d.length)
  | .apl, some (.apl items) => ∀ it ∈ items, AplItemOk it
  | .wks, some (.wks addr proto bm) =>
    (∃ x0 x1 x2 x3, addr = [x0, x1, x2, x3] ∧ x0 < 256 ∧ x1 < 256 ∧ x2 < 256 ∧ x3 < 256) ∧ proto ≤ 255 ∧
    (∀ x ∈ bm, x < 256) ∧ bm.getLast? ≠ some 0 ∧ bm.length ≤ 8192
  | .gateway ti ai, some (.gw kind addr nm key) =>
    vals[ti]? = some (.n kind) ∧ GatewayOk st env kind addr nm ∧
    (match ai with
     | none => key = []
     | some i => ∃ alg, vals[i]? = some (.n alg) ∧ (key = [] → alg = 0) ∧ (∀ x ∈ key, x < 256) ∧ ChunkOk st.b64Chunk st.b64Sep)
  | _, _ => False

def HeadNotHash (toks : List Tok) : Prop := ∀ t, toks.head? = some t → NotHash t

theorem headNotHash_identToks (chunks : List (List Nat)) (h : ∀ ch ∈ chunks, Plain ch) : HeadNotHash (identToks chunks) := by
  intro t ht
  cases chunks with
  | nil => simp [identToks] at ht
  | cons c cs =>
    simp [identToks] at ht; subst ht
    exact notHash_plain c (h c (by simp))

theorem blob_tail (codec_enc : Bytes → List Nat) (codec_dec : List Nat → Option Bytes) (d : Bytes) (hne : d ≠ [])
    (hpl : Plain (codec_enc d)) (hinv : codec_dec (codec_enc d) = some d) (hnil : codec_enc d ≠ [])
    (chunk : Nat) (sep : List Nat) (hc : ChunkOk chunk sep) :
    Lexes (wordbreak (codec_enc d) chunk sep) (identToks (wordbreakChunks (codec_enc d) chunk)) ∧
    concatIdents false (identToks (wordbreakChunks (codec_enc d) chunk)) = some (codec_enc d) ∧
    HeadNotHash (identToks (wordbreakChunks (codec_enc d) chunk)) := by
  refine ⟨lexes_wordbreak _ hpl chunk sep hc, concatIdents_chunks false _ hpl chunk (Or.inr hnil), ?_⟩
  apply headNotHash_identToks
  intro ch hch c hcc
  exact hpl c ((wordbreakChunks_mem _ chunk ch hch).2 c hcc)

theorem parseTxt_quoted (E : Bytes → List Nat) (ss : List Bytes)
    (h : ∀ s ∈ ss, unescapeBytes (E s) = some s ∧ s.length ≤ 255) :
    parseTxt (ss.map fun s => ⟨.quoted, E s⟩) = some ss := by
  induction ss with
  | nil => rfl
  | cons s rest ih =>
    obtain ⟨hu, hl⟩ := h s (by simp)
    have hle : ¬ s.length > 255 := by omega
    simp [parseTxt, hu, ih (fun x hx => h x (by simp [hx])), hle]

theorem tail_rt (st : Style) (env : PEnv) (vals : List FV) (tk : TK) (tail : Option FV) (h : TailOk st env vals tk tail) (hnb : tk ≠ .bitmap) :
    ∃ items : List (List Nat × List Tok),
      printTail st tk tail = some (items.map (·.1)) ∧ (∀ p ∈ items, Lexes p.1 p.2) ∧
      parseTailE env vals tk (items.flatMap (·.2)) = some tail ∧ HeadNotHash (items.flatMap (·.2)) := by
  cases tk <;> cases tail <;> simp only [TailOk] at h <;> try exact h.elim
  case none.none =>
    exact ⟨[], by simp [printTail], by simp, by simp [parseTailE, parseTail], by intro t ht; simp at ht⟩
  all_goals rename_i v; cases v <;> simp only [TailOk] at h <;> try exact h.elim
  case bitmap.some.wl ws => exact absurd rfl hnb
  case keyB64.some.b d =>
    rcases h with ⟨hk, rfl⟩ | ⟨hk, hne, hd, hc⟩
    · refine ⟨[([], [])], by simp [printTail, b64Encode, wordbreak, chunksOf, joinSep], ?_, by simp [parseTailE, parseTail, hk],
        by intro t ht; simp at ht⟩
      intro p hp; simp at hp; subst hp; exact lexes_nil
    · have hnil : b64Encode d ≠ [] := fun e => hne ((b64Encode_eq_nil d).mp e)
      obtain ⟨hl, hcat, hnh⟩ := blob_tail b64Encode b64Decode d hne (b64Encode_plain d) (b64_roundtrip d hd) hnil _ _ hc
      refine ⟨[(wordbreak (b64Encode d) st.b64Chunk st.b64Sep, identToks (wordbreakChunks (b64Encode d) st.b64Chunk))],
        by simp [printTail], by simpa using hl, ?_, by simpa using hnh⟩
      simp [parseTailE, parseTail, hk, hcat, b64_roundtrip d hd]
  case names.some.nl ns =>
    -- one identifier per name
    induction ns with
    | nil => exact ⟨[], by simp [printTail, printNames], by simp, by simp [parseTailE, parseNames], by intro t ht; simp at ht⟩
    | cons n rest ih =>
      obtain ⟨m, hp, hw, ho, hb⟩ := h n (by simp)
      obtain ⟨items, ip, il, ipa, ihd⟩ := ih (fun x hx => h x (by simp [hx]))
      obtain ⟨hlex, hnh⟩ := toText_lexes m hw ho
      have ip' : printNames st rest = some (items.map (·.1)) := by simpa [printTail] using ip
      have ipa' : parseNames env (items.flatMap (·.2)) = some rest := by
        simp only [parseTailE, if_true, Option.map_eq_some_iff] at ipa
        obtain ⟨a, ha, hb'⟩ := ipa
        simp at hb'; subst hb'; exact ha
      refine ⟨(toText m, [⟨.ident, toText m⟩]) :: items, ?_, ?_, ?_, ?_⟩
      · simp [printTail, printNames, nameToStyled, hp, ip']
      · intro p hpm; simp at hpm; rcases hpm with e | e
        · subst e; exact hlex
        · exact il p e
      · simp [parseTailE, parseNames, asName_toText env m hw ho, hb, ipa']
      · intro t ht; simp at ht; subst ht; exact hnh
  case wks.some.wks addr proto bm =>
    obtain ⟨⟨x0, x1, x2, x3, rfl, h0, h1, h2, h3⟩, hpr, hb, hl, hlen⟩ := h
    obtain ⟨t, ht, hat⟩ := ip4_roundtrip x0 x1 x2 x3 h0 h1 h2 h3
    have htext : t = natToDec x0 ++ 46 :: (natToDec x1 ++ 46 :: (natToDec x2 ++ 46 :: natToDec x3)) := by
      simp [ip4Ntoa] at ht; exact ht.symm
    have hpl : Plain t := by rw [htext]; exact ip4Ntoa_plain x0 x1 x2 x3
    have hne : t ≠ [] := by
      rw [htext]; intro e
      have := congrArg List.length e
      simp at this
    have hplp := natToDec_plain proto
    have hchunks : ∀ ch ∈ (wksPorts bm).map natToDec, ch ≠ [] ∧ Plain ch := by
      intro ch hch
      simp only [List.mem_map] at hch
      obtain ⟨p, _, rfl⟩ := hch
      exact ⟨natToDec_ne_nil p, natToDec_plain p⟩
    have hports := parseWksPorts_print (wksPorts bm) [] (wksPorts_le bm hlen)
    rw [wks_ports_fold bm hb hl] at hports
    have hgt : ¬ proto > 255 := by omega
    refine ⟨[(t, [⟨.ident, t⟩]), (natToDec proto, [⟨.ident, natToDec proto⟩]),
      (joinSep [32] ((wksPorts bm).map natToDec), identToks ((wksPorts bm).map natToDec))], by simp [printTail, ht], ?_, ?_, ?_⟩
    · intro p hp; simp at hp; rcases hp with e | e | e
      · subst e; exact lexes_plain t hne hpl
      · subst e; exact lexes_plain _ (natToDec_ne_nil proto) hplp
      · subst e; exact lexes_joinSep_chunks _ [32] blanks_space (by simp) hchunks
    · simp [parseTailE, parseTail, parseWks, asString, unescapeCP_plain_all _ hpl, unescapeCP_plain_all _ hplp, hat,
        natToDec_ne_nil proto, natToDec_all_isDigit proto, decVal_natToDec, hgt, hports, truncateBitmap_id bm hl]
    · intro tk htk; simp at htk; subst htk; exact notHash_plain t hpl
  case apl.some.apl items =>
    induction items with
    | nil => exact ⟨[], by simp [printTail, printAplItems], by simp, by simp [parseTailE, parseTail, parseApl], by intro t ht; simp at ht⟩
    | cons it rest ih =>
      obtain ⟨t, hp, hpl, hne, hpa⟩ := aplItem_rt it (h it (by simp))
      obtain ⟨items', ip, il, ipa, _⟩ := ih (fun x hx => h x (by simp [hx]))
      have ip' : printAplItems rest = some (items'.map (·.1)) := by simpa [printTail] using ip
      have ipa' : parseApl (items'.flatMap (·.2)) = some rest := by
        simp only [parseTailE, parseTail, Option.map_eq_some_iff] at ipa
        obtain ⟨a, ha, hb'⟩ := ipa
        simp at hb'; subst hb'; exact ha
      refine ⟨(t, [⟨.ident, t⟩]) :: items', ?_, ?_, ?_, ?_⟩
      · simp [printTail, printAplItems, hp, ip']
      · intro q hq; simp at hq; rcases hq with e | e
        · subst e; exact lexes_plain t hne hpl
        · exact il q e
      · simp [parseTailE, parseTail, parseApl, hpa, ipa']
      · intro tk ht; simp at ht; subst ht; exact notHash_plain t hpl
  case gateway.some.gw ti ai kind addr nm key =>
    obtain ⟨hty, hg, hkey⟩ := h
    obtain ⟨g, hgt, hlex, hparse, hnh⟩ := gateway_tok st env kind addr nm hg
    cases ai with
    | none =>
      simp only at hkey; subst hkey
      refine ⟨[(g, [⟨.ident, g⟩])], by simp [printTail, hgt], ?_, ?_, ?_⟩
      · intro p hp; simp at hp; subst hp; exact hlex
      · simp [parseTailE, parseGateway, hty, hparse]
      · intro t ht; simp at ht; subst ht; exact hnh
    | some i =>
      obtain ⟨alg, halg, h0, hd, hc⟩ := hkey
      have hpl := b64Encode_plain key
      have hl := lexes_wordbreak _ hpl st.b64Chunk st.b64Sep hc
      have hcat := concatIdents_chunks (alg == 0) _ hpl st.b64Chunk (by
        by_cases hk : key = []
        · left; simp [h0 hk]
        · right; exact fun e => hk ((b64Encode_eq_nil key).mp e))
      refine ⟨[(g, [⟨.ident, g⟩]), (wordbreak (b64Encode key) st.b64Chunk st.b64Sep,
          identToks (wordbreakChunks (b64Encode key) st.b64Chunk))], by simp [printTail, hgt], ?_, ?_, ?_⟩
      · intro p hp; simp at hp; rcases hp with e | e
        · subst e; exact hlex
        · subst e; exact hl
      · simp [parseTailE, parseGateway, hty, hparse, halg, hcat, b64_roundtrip key hd]
      · intro t ht; simp at ht; subst ht; exact hnh
  case b64Opt.some.b d =>
    obtain ⟨h, hlen⟩ := h
    have hle : ¬ d.length > 65535 := by omega
    by_cases hd0 : d = []
    · subst hd0
      exact ⟨[], by simp [printTail], by simp, by simp [parseTailE, parseTail, concatIdents, b64Decode], by intro t ht; simp at ht⟩
    · have hp := b64Encode_plain d
      have hn : b64Encode d ≠ [] := fun e => hd0 ((b64Encode_eq_nil d).mp e)
      refine ⟨[(b64Encode d, [⟨.ident, b64Encode d⟩])], by simp [printTail, hd0], ?_, ?_, ?_⟩
      · intro p hp'; simp at hp'; subst hp'; exact lexes_plain _ hn hp
      · have hne' : (b64Encode d).isEmpty = false := by
          cases hx : b64Encode d with
          | nil => exact absurd hx hn
          | cons _ _ => rfl
        simp [parseTailE, parseTail, concatIdents, concatIdents.go, unescapeCP_plain_all _ hp, b64_roundtrip d h, hle]
      · intro t ht; simp at ht; subst ht; exact notHash_plain _ hp
  case tsigOther.some.b d =>
    obtain ⟨hd, hv⟩ := h
    by_cases hd0 : d = []
    · subst hd0
      refine ⟨[], by simp [printTail], by simp, ?_, by intro t ht; simp at ht⟩
      simp at hv
      simp [parseTailE, parseTail, hv]
    · have hp := b64Encode_plain d
      have hn : b64Encode d ≠ [] := fun e => hd0 ((b64Encode_eq_nil d).mp e)
      have hlen : d.length ≠ 0 := by
        intro e; exact hd0 (List.eq_nil_of_length_eq_zero e)
      refine ⟨[(b64Encode d, [⟨.ident, b64Encode d⟩])], by simp [printTail, hd0], ?_, ?_, ?_⟩
      · intro p hp'; simp at hp'; subst hp'; exact lexes_plain _ hn hp
      · simp [parseTailE, parseTail, hv, hlen, unescapeCP_plain_all _ hp, b64_roundtrip d hd]
      · intro t ht; simp at ht; subst ht; exact notHash_plain _ hp
  case hex.some.b d =>
    obtain ⟨hne, hd, hc⟩ := h
    have hnil : hexlify d ≠ [] := fun e => hne ((hexlify_eq_nil d).mp e)
    obtain ⟨hl, hcat, hnh⟩ := blob_tail hexlify unhexlify d hne (hexlify_plain d hd) (unhexlify_hexlify d hd) hnil _ _ hc
    refine ⟨[(wordbreak (hexlify d) st.hexChunk st.hexSep, identToks (wordbreakChunks (hexlify d) st.hexChunk))],
      by simp [printTail], by simpa using hl, ?_, by simpa using hnh⟩
    simp [parseTailE, parseTail, hcat, unhexlify_hexlify d hd]
  case b64.some.b fixed0 d =>
    obtain ⟨hne, hd, hc⟩ := h
    have hnil : b64Encode d ≠ [] := fun e => hne ((b64Encode_eq_nil d).mp e)
    obtain ⟨hl, hcat, hnh⟩ := blob_tail b64Encode b64Decode d hne (b64Encode_plain d) (b64_roundtrip d hd) hnil _ _ hc
    refine ⟨[(wordbreak (b64Encode d) (if fixed0 then 0 else st.b64Chunk) st.b64Sep,
        identToks (wordbreakChunks (b64Encode d) (if fixed0 then 0 else st.b64Chunk)))],
      by simp [printTail], by simpa using hl, ?_, by simpa using hnh⟩
    simp [parseTailE, parseTail, hcat, b64_roundtrip d hd]
  case txt.some.bl ss =>
    obtain ⟨hne, hs⟩ := h
    -- one quoted token per string, in the octet or the Unicode form (`txt_is_utf8`)
    let E : Bytes → List Nat := fun s => txtElement st.txtUtf8 ConstsC05.unicodeEscaped Consts.rdataEscaped s
    have hE : ∀ s ∈ ss, quoteBody (E s) = true ∧ unescapeBytes (E s) = some s :=
      fun s hsm => txtElement_rt st.txtUtf8 s (hs s hsm).1
    have hitems : ∀ p ∈ ss.map (fun s => (quote (E s), [(⟨.quoted, E s⟩ : Tok)])), Lexes p.1 p.2 := by
      intro p hp
      simp only [List.mem_map] at hp
      obtain ⟨s, hsm, rfl⟩ := hp
      have := lexes_quoted (E s) (hE s hsm).1
      simpa [quote] using this
    have e1 : (ss.map (fun s => (quote (E s), [(⟨.quoted, E s⟩ : Tok)]))).map (·.1) = ss.map fun s => quote (E s) := by
      simp
    have e2 : (ss.map (fun s => (quote (E s), [(⟨.quoted, E s⟩ : Tok)]))).flatMap (·.2)
        = ss.map fun s => (⟨.quoted, E s⟩ : Tok) := by
      simp only [List.flatMap_map]
      exact flatMap_singleton_map (fun s => (⟨.quoted, E s⟩ : Tok)) ss
    refine ⟨[(joinSep [32] (ss.map fun s => quote (E s)), ss.map fun s => (⟨.quoted, E s⟩ : Tok))],
      by simp [printTail, E], ?_, ?_, ?_⟩
    · intro p hp; simp only [List.mem_singleton] at hp; subst hp
      have := lexes_joinSep _ hitems
      rw [e1, e2] at this; exact this
    · have hne' : ss ≠ [] := hne
      have hp := parseTxt_quoted E ss (fun s hsm => ⟨(hE s hsm).2, (hs s hsm).2⟩)
      simp [parseTailE, parseTail, hp, hne']
    · intro t ht
      cases ss with
      | nil => exact absurd rfl hne
      | cons s rest => simp at ht; subst ht; exact Or.inl rfl
  case optCstr.some.b s =>
    obtain ⟨ho, hl⟩ := h
    have hesc := escROk_generated
    by_cases he : s = []
    · subst he
      exact ⟨[], by simp [printTail], by simp, by simp [parseTailE, parseTail], by intro t ht; simp at ht⟩
    · have hlex := lexes_quoted (escapifyR s) (quoteBody_escapify _ hesc s ho)
      have hu : unescapeBytes (escapifyR s) = some s := unescapeBytes_escapify _ hesc s ho
      have hle : ¬ s.length > 255 := by omega
      refine ⟨[(quote (escapifyR s), [⟨.quoted, escapifyR s⟩])], by simp [printTail, he], ?_, ?_, ?_⟩
      · intro p hp; simp at hp; subst hp; simpa [quote] using hlex
      · simp [parseTailE, parseTail, hu, bytesMax, hle]
      · intro t ht; simp at ht; subst ht; exact Or.inl rfl

/-! ## the whole record through `dns.rdata.from_text` -/

theorem isGenericStart_false (toks : List Tok) (h : HeadNotHash toks) : isGenericStart toks = false := by
  cases toks with
  | nil => rfl
  | cons t ts =>
    have := h t rfl
    simp only [isGenericStart]
    rcases this with hq | hv
    · simp [hq]
    · by_cases hval : t.val = [92, 35]
      · exact absurd rfl (hv 35 [] hval)
      · simp [hval]

theorem joinSep_snoc (fs : List (List Nat)) (x : List Nat) (h : fs ≠ []) :
    joinSep [32] (fs ++ [x]) = joinSep [32] fs ++ 32 :: x := by
  rw [joinSep_append [32] fs [x] h (by simp)]
  simp [joinSep]

theorem record_roundtrip (tn : String) (sch : Schema) (hsch : schemaOf tn = some sch) (st : Style) (env : PEnv)
    (vals : List FV) (tail : Option FV) (hf : FieldsOk st env sch.fields vals) (ht : TailOk st env vals sch.tail tail)
    (hbf : sch.tail = .bitmap → sch.fields ≠ []) (hchk : sch.check vals tail = true) :
    ∃ text, printRec sch st vals tail = some text ∧ fromTextRdata (some tn) env text = some (.known vals tail) := by
  obtain ⟨fi, fp, fl, fpa, fnh, flen⟩ := fields_rt st env sch.fields vals hf
  -- the tail: its printed items, their tokens, and the parse
  have key : ∃ ti : List (List Nat × List Tok),
      printRec sch st vals tail = some (joinSep [32] (fi.map (·.1) ++ ti.map (·.1))) ∧ (∀ p ∈ ti, Lexes p.1 p.2) ∧
      parseTailE env vals sch.tail (ti.flatMap (·.2)) = some tail ∧ HeadNotHash (ti.flatMap (·.2)) := by
    by_cases hb : sch.tail = .bitmap
    · rw [hb] at ht
      cases tail with
      | none => simp [TailOk] at ht
      | some v =>
        cases v <;> simp only [TailOk] at ht <;> try exact ht.elim
        rename_i ws
        obtain ⟨hall, hlex, hparse, hhead⟩ := bitmap_tail_rt vals ws ht
        have hfne : fi.map (·.1) ≠ [] := by
          have := hbf hb
          intro e
          have h0 : fi.length = 0 := by simpa using congrArg List.length e
          rw [flen] at h0
          exact this (List.eq_nil_of_length_eq_zero h0)
        by_cases hws : ws = []
        · subst hws
          refine ⟨[], ?_, by simp, ?_, by intro t ht'; simp at ht'⟩
          · simp [printRec, hb, fp, bitmapText]
          · rw [hb]; simpa [parseTailE, bitmapNames, identToks] using hparse
        · refine ⟨[(joinSep [32] (bitmapNames ws), identToks (bitmapNames ws))], ?_, ?_, ?_, ?_⟩
          · simp only [printRec, hb, hall, if_true, fp, Option.map_some, List.map_cons, List.map_nil]
            rw [bitmapText_eq ws ht hws, joinSep_snoc _ _ hfne]
          · intro p hp; simp at hp; subst hp; exact hlex hws
          · rw [hb]; simpa [parseTailE] using hparse
          · simpa [HeadNotHash] using hhead
    · obtain ⟨ti, tp, tl, tpa, tnh⟩ := tail_rt st env vals sch.tail tail ht hb
      refine ⟨ti, ?_, tl, tpa, tnh⟩
      unfold printRec
      cases hk : sch.tail with
      | bitmap => exact absurd hk hb
      | _ => simp only [hk] at tp ⊢; simp [fp, tp]
  obtain ⟨ti, hprint, tl, tpa, tnh⟩ := key
  let items : List (List Nat × List Tok) := fi.map (fun p => (p.1, [p.2])) ++ ti
  have hitems : ∀ p ∈ items, Lexes p.1 p.2 := by
    intro p hp
    simp only [items, List.mem_append, List.mem_map] at hp
    rcases hp with ⟨q, hq, rfl⟩ | hp
    · exact fl q hq
    · exact tl p hp
  have htexts : items.map (·.1) = fi.map (·.1) ++ ti.map (·.1) := by simp [items]
  have htoks : items.flatMap (·.2) = fi.map (·.2) ++ ti.flatMap (·.2) := by
    simp only [items, List.flatMap_append, List.flatMap_map]
    congr 1
    exact flatMap_singleton_map (fun p : List Nat × Tok => p.2) fi
  have hlex := lexes_joinSep items hitems
  rw [htexts, htoks] at hlex
  refine ⟨joinSep [32] (fi.map (·.1) ++ ti.map (·.1)), hprint, ?_⟩
  have hhead : HeadNotHash (fi.map (·.2) ++ ti.flatMap (·.2)) := by
    intro t htk
    cases fi with
    | nil => simp at htk; exact tnh t htk
    | cons a as => simp at htk; subst htk; exact fnh a (by simp)
  unfold fromTextRdata
  rw [lexLine_of_lexes _ _ hlex]
  simp only [hsch, isGenericStart_false _ hhead]
  simp [parseRec, fpa, tpa, hchk]

end Model

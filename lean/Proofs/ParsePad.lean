import Proofs.ParseTsig
import Proofs.RenderPad
/-! Render-then-parse with EDNS padding: the parsed OPT carries the original options followed by one PADDING option
of fewer than `pad` zero octets. -/
namespace Model

variable {Rs : RelSpec}

/-- the OPT record `add_opt` actually renders -/
def padOpt (o : EOpt) (pad len a b : Nat) : EOpt :=
  { o with options := o.options ++ [(ConstsC03.optPADDING,
      if (len + a + b) % pad ≠ 0 then List.replicate (pad - (len + a + b) % pad) 0 else [])] }

/-- with padding, the tail of `to_wire` is the unpadded tail applied to the padded OPT -/
theorem finish_pad (r : RState) (o : EOpt) (tsig : Option Tsig) (pad a b : Nat) (hpad : pad ≠ 0)
    (hfit : ¬ padLen r.out.length pad a b > 65535) :
    r.finish (some o) tsig pad a b =
      ({ r with wasPadded := true } : RState).finish (some (padOpt o pad r.out.length a b)) tsig 0 a b := by
  have hl : r.releaseReserved.out.length = r.out.length := rfl
  unfold RState.finish RState.addOpt RState.addOptCore padOpt
  simp only [hl, hfit, hpad, ne_eq, not_false_eq_true, if_true, not_true_eq_false, if_false, and_false, false_and]
  rfl

/-- a padding no PADDING option can carry: `TooBig` (repair 2d35a76) -/
theorem finish_pad_guard (r : RState) (o : EOpt) (tsig : Option Tsig) (pad a b : Nat) (hpad : pad ≠ 0)
    (hbig : padLen r.out.length pad a b > 65535) : r.finish (some o) tsig pad a b = .error .tooBig := by
  have hl : r.releaseReserved.out.length = r.out.length := rfl
  unfold RState.finish RState.addOpt
  simp only [hl, hbig, hpad, ne_eq, not_false_eq_true, and_self, if_true, stepToExcept]

/-- what the parser finds in place of `Message.opt` -/
def OptPadRel (pad : Nat) : Option EOpt → Option EOpt → Prop
  | none, none => True
  | some o, some o' =>
    (pad = 0 ∧ o' = o) ∨
    (pad ≠ 0 ∧ ∃ k, k < pad ∧ o' = { o with options := o.options ++ [(ConstsC03.optPADDING, List.replicate k 0)] })
  | _, _ => False

theorem padOpt_rel (o : EOpt) (pad len a b : Nat) (hpad : pad ≠ 0) :
    ∃ k, k < pad ∧ padOpt o pad len a b = { o with options := o.options ++ [(ConstsC03.optPADDING, List.replicate k 0)] } := by
  unfold padOpt
  by_cases hz : (len + a + b) % pad = 0
  · exact ⟨0, by omega, by simp [hz]⟩
  · have : (len + a + b) % pad < pad := Nat.mod_lt _ (by omega)
    exact ⟨pad - (len + a + b) % pad, by omega, by simp [hz]⟩

/-- wire form of any message (padding or not): header, items, the OPT record actually rendered, the TSIG record -/
theorem toWire_shape_pad (m : Message) (lim : Nat) (w : Bytes) (h : m.toWire lim false = .ok w) :
    ∃ q, itemsExt m.origin 12 [] m.items = .ok q ∧ ∃ opt' eo to bo et bt, OptPadRel m.pad m.opt opt' ∧
      OptPart (12 + q.1.length) q.2 m.origin opt' eo to bo ∧
      TsigPart (12 + q.1.length + eo.length) [] m.origin m.tsig et bt ∧
      w = hdrBytes m (rrCount m.ad + bo + bt) ++ q.1 ++ eo ++ et := by
  by_cases hpad : m.pad = 0
  · obtain ⟨q, hq, eo, to, bo, et, bt, hop, htp, hw⟩ := toWire_shape_full m lim w hpad h
    refine ⟨q, hq, m.opt, eo, to, bo, et, bt, ?_, hop, htp, hw⟩
    cases m.opt with
    | none => trivial
    | some o => exact Or.inl ⟨hpad, rfl⟩
  · cases hopt : m.opt with
    | none =>
      -- no OPT: the padding request is ignored; same octets as with pad = 0
      have e : ({ m with pad := 0 } : Message).toWire lim false = m.toWire lim false := by
        rw [toWire_eq, toWire_eq]
        have e1 : ({ m with pad := 0 } : Message).tsigReserve = m.tsigReserve := rfl
        have e2 : ({ m with pad := 0 } : Message).optReserve = m.optReserve := by
          simp [Message.optReserve, hopt]
        rw [e1, e2]
        cases m.tsigReserve with
        | error e => rfl
        | ok b =>
          simp only
          have e3 : ({ m with pad := 0 } : Message).renderSections (clampSize lim m.requestPayload) false m.optReserve b
              = m.renderSections (clampSize lim m.requestPayload) false m.optReserve b := rfl
          show (match ({ m with pad := 0 } : Message).renderSections (clampSize lim m.requestPayload) false m.optReserve b with
            | Except.error e => Except.error e
            | Except.ok r => finishOut r m.opt m.tsig 0 m.optReserve b) = _
          rw [e3]
          cases m.renderSections (clampSize lim m.requestPayload) false m.optReserve b with
          | error e => rfl
          | ok r =>
            simp only [finishOut, RState.finish, hopt]
      rw [← e] at h
      obtain ⟨q, hq, eo, to, bo, et, bt, hop, htp, hw⟩ := toWire_shape_full { m with pad := 0 } lim w rfl h
      refine ⟨q, hq, none, eo, to, bo, et, bt, trivial, ?_, htp, hw⟩
      have : ({ m with pad := 0 } : Message).opt = none := hopt
      rw [this] at hop
      exact hop
    | some o =>
      rw [toWire_eq] at h
      cases hb : m.tsigReserve with
      | error e => rw [hb] at h; simp at h
      | ok b =>
        rw [hb] at h
        simp only at h
        rw [renderSections_eq] at h
        cases hbase : m.base (clampSize lim m.requestPayload) m.optReserve b with
        | error e => rw [hbase] at h; simp at h
        | ok r2 =>
          rw [hbase] at h
          simp only at h
          obtain ⟨c0, i0, f0⟩ := base_fields m _ _ _ r2 hbase
          obtain ⟨hi2, _, _⟩ := base_inv m _ _ _ r2 hbase
          obtain ⟨o2, t2, og2⟩ := base_out m _ _ _ r2 hbase
          cases hit : r2.addItems m.items with
          | error e => rw [hit] at h; simp at h
          | ok p =>
            obtain ⟨r3, big⟩ := p
            rw [hit] at h
            simp only at h
            cases big with
            | true => simp [RState.afterItems] at h
            | false =>
              simp only [RState.afterItems, Bool.false_eq_true, if_false] at h
              obtain ⟨q, hq, ho, htb, hor⟩ := addItems_rel _ _ _ hit
              have hc := addItems_counts _ _ _ hit
              obtain ⟨_, _, _, i3, f3, _, _⟩ := addItems_inv _ _ _ _ hi2 hit
              rw [c0, countItems_message] at hc
              rw [o2, t2, og2] at hq
              simp only [List.length_replicate] at hq
              refine ⟨q, hq, ?_⟩
              unfold finishOut at h
              rw [hopt] at h
              by_cases hfit : padLen r3.out.length m.pad m.optReserve b > 65535
              · rw [finish_pad_guard r3 o m.tsig m.pad _ _ hpad hfit] at h; simp at h
              rw [finish_pad r3 o m.tsig m.pad _ _ hpad hfit] at h
              cases hf : ({ r3 with wasPadded := true } : RState).finish
                  (some (padOpt o m.pad r3.out.length m.optReserve b)) m.tsig 0 m.optReserve b with
              | error e => rw [hf] at h; simp at h
              | ok r' =>
                rw [hf] at h
                simp at h
                have h12 : 12 ≤ r3.out.length := by rw [ho, o2]; simp <;> omega
                obtain ⟨eo, to, bo, et, bt, hop, htp, hout⟩ := finish_shape ({ r3 with wasPadded := true } : RState) _ m.tsig _ _ r'
                  h12 hf
                have hl3 : r3.out.length = 12 + q.1.length := by rw [ho, o2]; simp <;> omega
                have ht3 : r3.tbl = q.2 := by rw [htb, t2]; simp
                have ho3 : r3.origin = m.origin := by rw [hor, og2]
                simp only at hop htp hout
                rw [hl3, ht3, ho3] at hop
                rw [hl3, ho3] at htp
                refine ⟨some (padOpt o m.pad (12 + q.1.length) m.optReserve b), eo, to, bo, et, bt, ?_, hop, htp, ?_⟩
                · exact Or.inr ⟨hpad, padOpt_rel o m.pad _ _ _ hpad⟩
                · rw [← h, hout, hc, i3, i0, f3, f0, ho, o2]
                  simp only [hdrBytes]
                  rw [List.drop_append_of_le_length (by simp)]
                  simp [List.append_assoc]

/-- well-formed message as `MsgOkT`, but a padding request is allowed (the padded OPT must still fit its RDLENGTH) -/
structure MsgOkP (Rs : RelSpec) (m : Message) : Prop where
  base : MsgOkT Rs { m with pad := 0 }
  padOk : ∀ o, m.opt = some o → (optionsWire o.options).length + 4 + m.pad < 65536

theorem optOk_of_rel (pad : Nat) (o o' : EOpt) (ho : OptOk o) (hfit : (optionsWire o.options).length + 4 + pad < 65536)
    (h : OptPadRel pad (some o) (some o')) : OptOk o' := by
  rcases h with ⟨_, rfl⟩ | ⟨_, k, hk, rfl⟩
  · exact ho
  · have hp16 : ConstsC03.optPADDING < 65536 := by decide
    refine ⟨ho.ttl, ho.payload, ?_, ?_, trivial⟩
    · intro p hp
      simp only [List.mem_append, List.mem_singleton] at hp
      rcases hp with hp | rfl
      · exact ho.options p hp
      · exact ⟨hp16, by simp; omega⟩
    · simp only [optionsWire_append, List.length_append]
      simp [optionsWire, u16]
      omega

/-- render-then-parse: absolute names, not an update, with or without OPT, padding and TSIG -/
theorem parse_toWire_pad (m : Message) (lim : Nat) (w : Bytes) (hok : MsgOkP Rs m) (h : m.toWire lim false = .ok w)
    (cfg : PCfg) (horg : cfg.origin = none) (hnorr : cfg.oneRRPerRRset = false) (hkey : cfg.hasKey = true) :
    ∃ m' opt', parseMessage cfg w = .ok m' ∧ m'.simT Rs { m with opt := opt' } ∧ OptPadRel m.pad m.opt opt' := by
  have hb := hok.base
  obtain ⟨q, hq, opt', eo, to, bo, et, bt, hrel, hop, htp, hw⟩ := toWire_shape_pad m lim w h
  have horigin : m.origin = none := hb.origin
  rw [horigin] at hq hop htp
  obtain ⟨cq, can, cau, cad⟩ := hb.counts
  simp only at cq can cau cad
  have hoo : ∀ o', opt' = some o' → OptOk o' := by
    intro o' ho'
    subst ho'
    cases hmo : m.opt with
    | none => rw [hmo] at hrel; exact hrel.elim
    | some o =>
      rw [hmo] at hrel
      exact optOk_of_rel m.pad o o' (hb.opt o hmo) (hok.padOk o hmo) hrel
  have hbo : bo ≤ 1 := by
    unfold OptPart at hop
    cases hmo : opt' with
    | none => rw [hmo] at hop; have := hop.2.2; omega
    | some o => rw [hmo] at hop; obtain ⟨p, _, _, _, hb', _⟩ := hop; omega
  have hbt : bt ≤ 1 := by
    unfold TsigPart at htp
    cases hmt : m.tsig with
    | none => rw [hmt] at htp; have := htp.2; omega
    | some t => rw [hmt] at htp; obtain ⟨p, _, _, hb', _⟩ := htp; omega
  obtain ⟨qs', an', au', ad', hsq, hsa, hsu, hsd, hsnd, k1, k2, k3, hp0, hp1, hp2, hp3⟩ :=
    parse_body cfg horg hnorr m hb.q hb.an hb.au hb.ad hb.keysAn hb.keysAu hb.keysAd
      (hdrBytes m (rrCount m.ad + bo + bt)) (hdrBytes_length _ _) q hq (eo ++ et) (rrCount m.an) (rrCount m.au)
      (rrCount m.ad + bo + bt)
  have hw1 : hdrBytes m (rrCount m.ad + bo + bt) ++ q.1 ++ (eo ++ et) = w := by rw [hw]; simp [List.append_assoc]
  rw [hw1] at hp0 hp1 hp2 hp3
  obtain ⟨s0, s2, s4, s6, s8, s10⟩ := parse_header m (rrCount m.ad + bo + bt) (q.1 ++ eo ++ et)
  have hw2 : hdrBytes m (rrCount m.ad + bo + bt) ++ (q.1 ++ eo ++ et) = w := by rw [hw]; simp [List.append_assoc]
  rw [hw2] at s0 s2 s4 s6 s8 s10
  have hlA : (hdrBytes m (rrCount m.ad + bo + bt) ++ q.1).length = 12 + q.1.length := by simp [hdrBytes_length]
  rw [← hlA] at hop htp
  obtain ⟨ts', hts, hpt⟩ := parse_tail cfg horg hkey false (hdrBytes m (rrCount m.ad + bo + bt) ++ q.1) q.2 opt' m.tsig eo et to
    bo bt (rrCount m.ad) { cur := 12 + q.1.length, q := qs', an := an', au := au', ad := ad' }
    (by simp [hdrBytes_length]) hsnd rfl rfl hoo hb.tsig hop htp
  have hw3 : hdrBytes m (rrCount m.ad + bo + bt) ++ q.1 ++ eo ++ et = w := by rw [hw]
  rw [hw3] at hpt
  refine ⟨{ id := m.id, flags := m.flags, origin := cfg.origin, q := qs', an := an', au := au', ad := ad', opt := opt',
            tsig := ts' }, opt', ?_, ⟨rfl, rfl, hsq, hsa, hsu, hsd, rfl, hts⟩, hrel⟩
  unfold parseMessage
  have hwl : ¬ w.length < 12 := by rw [hw]; simp [hdrBytes_length] <;> omega
  simp only [hwl, if_false, s0, s2, s4, s6, s8, s10, beVal_u16 _ hb.id, beVal_u16 _ hb.flags, beVal_u16 _ cq,
    beVal_u16 _ can, beVal_u16 _ cau, beVal_u16 _ (show rrCount m.ad + bo + bt < 65536 by omega), hb.notUpdate, hp0, hp1, hp2]
  have hsplit : rrCount m.ad + bo + bt = rrCount m.ad + (bo + bt) := by omega
  rw [show parseSection cfg false w 3 (rrCount m.ad + bo + bt) (rrCount m.ad + bo + bt) 0 { cur := k3, q := qs', an := an', au := au' }
      = parseSection cfg false w 3 (rrCount m.ad + bo + bt) (rrCount m.ad + (bo + bt)) 0 { cur := k3, q := qs', an := an', au := au' } by rw [hsplit]]
  rw [parseSection_add, hp3]
  simp only [secADD, Nat.zero_add] at hpt ⊢
  rw [hpt]
  simp
  intro _
  rw [hw]; simp only [List.length_append, hdrBytes_length]; omega

end Model

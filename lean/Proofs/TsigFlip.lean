import Model.Tsig
import Proofs.TsigInject
/-! Single-bit alterations: where an altered message that reaches the MAC comparison with the genuine
(input, MAC) pair can differ from the genuine one. -/
namespace Model.Tsig
open Model Rfc8945

/-! ### `flipBit` -/

theorem mask_pos (i : Nat) : 0 < 128 >>> (i % 8) ∧ 128 >>> (i % 8) < 256 := by
  have h : i % 8 < 8 := Nat.mod_lt _ (by decide)
  rw [Nat.shiftRight_eq_div_pow]
  have : i % 8 = 0 ∨ i % 8 = 1 ∨ i % 8 = 2 ∨ i % 8 = 3 ∨ i % 8 = 4 ∨ i % 8 = 5 ∨ i % 8 = 6 ∨ i % 8 = 7 := by omega
  rcases this with e | e | e | e | e | e | e | e <;> rw [e] <;> decide

theorem xor_ne_self (x m : Nat) (hm : 0 < m) : x ^^^ m ≠ x := by
  intro h
  have : x ^^^ (x ^^^ m) = x ^^^ x := by rw [h]
  rw [← Nat.xor_assoc, Nat.xor_self, Nat.zero_xor] at this
  omega

theorem flipBit_length (w : Bytes) (i : Nat) : (flipBit w i).length = w.length := by
  simp [flipBit]

theorem flipBit_getElem_ne (w : Bytes) (i j : Nat) (h : j ≠ i / 8) : (flipBit w i)[j]? = w[j]? := by
  unfold flipBit
  rw [List.getElem?_set_ne (Ne.symm h)]

theorem flipBit_getElem_eq (w : Bytes) (i : Nat) (h : i / 8 < w.length) : (flipBit w i)[i / 8]? ≠ w[i / 8]? := by
  unfold flipBit
  rw [List.getElem?_set_self h, List.getElem?_eq_getElem h]
  intro e
  have e := Option.some.inj e
  rw [getD_eq, List.getElem?_eq_getElem h] at e
  exact xor_ne_self _ _ (mask_pos i).1 e

theorem flipBit_octets (w : Bytes) (i : Nat) (ho : OctetsOk w) : OctetsOk (flipBit w i) := by
  intro x hx
  unfold flipBit at hx
  rcases List.mem_or_eq_of_mem_set hx with h | h
  · exact ho x h
  · rw [h]
    have a := getD_lt w ho (i / 8)
    exact Nat.xor_lt_two_pow (n := 8) a (mask_pos i).2

/-! ### the fixed-layout tail of the TSIG RDATA -/

/-- everything of the TSIG RDATA after the algorithm name, as RFC 8945 §4.2 lays it out -/
def tsigTail (rd : Rdata) : Bytes :=
  be 6 rd.timeSigned ++ be 2 rd.fudge ++ be 2 rd.mac.length ++ rd.mac ++ be 2 rd.originalId ++ be 2 rd.error
    ++ be 2 rd.other.length ++ rd.other

theorem drop_eq_slice_append (w : Bytes) (a b : Nat) (hab : a ≤ b) (hb : b ≤ w.length) :
    w.drop a = slice w a b ++ w.drop b := by
  unfold slice
  conv => lhs; rw [← List.take_append_drop b w]
  rw [List.drop_append_of_le_length (by simp; omega)]

theorem slice_length (w : Bytes) (a b : Nat) (hb : b ≤ w.length) : (slice w a b).length = b - a := by
  unfold slice; simp; omega

theorem be2_rd16 (w : Bytes) (ho : OctetsOk w) (i : Nat) (hi : i + 2 ≤ w.length) : be 2 (rd16 w i) = slice w i (i + 2) := by
  rw [← u16_eq_be]; exact u16_rd16 w ho i hi

theorem be6_split (a b c : Nat) (ha : a < 65536) (hb : b < 65536) (hc : c < 65536) :
    be 6 (a * 4294967296 + (b * 65536 + c)) = be 2 a ++ be 2 b ++ be 2 c := by
  simp [be]; omega

theorem be6_rd48 (w : Bytes) (ho : OctetsOk w) (i : Nat) (hi : i + 6 ≤ w.length) : be 6 (rd48 w i) = slice w i (i + 6) := by
  unfold rd48 rd32
  rw [be6_split _ _ _ (rd16_lt w ho _) (rd16_lt w ho _) (rd16_lt w ho _)]
  rw [be2_rd16 w ho i (by omega), be2_rd16 w ho (i + 2) (by omega), be2_rd16 w ho (i + 2 + 2) (by omega)]
  have e1 := drop_eq_slice_append (slice w i (i + 6)) 0 2 (by omega) (by rw [slice_length _ _ _ (by omega)]; omega)
  -- assemble through `drop`
  have h1 := drop_eq_slice_append w i (i + 2) (by omega) (by omega)
  have h2 := drop_eq_slice_append w (i + 2) (i + 2 + 2) (by omega) (by omega)
  have h3 := drop_eq_slice_append w (i + 2 + 2) (i + 6) (by omega) (by omega)
  have h6 := drop_eq_slice_append w i (i + 6) (by omega) (by omega)
  rw [h1, h2, h3, ← List.append_assoc, ← List.append_assoc] at h6
  exact (List.append_cancel_right h6)

/-- an accepted TSIG RDATA that ends the message: the message ends with `tsigTail` -/
theorem rdataParse_tail (w : Bytes) (a : Nat) (rd : Rdata) (ho : OctetsOk w) (h : rdataParse w a w.length = .ok rd) :
    ∃ p, p ≤ w.length ∧ w.drop p = tsigTail rd := by
  unfold rdataParse at h
  split at h; · cases h
  rename_i alg p hfw
  split at h; · cases h
  split at h; · cases h
  rename_i h10
  dsimp only at h
  split at h; · cases h
  rename_i hmac
  split at h; · cases h
  rename_i h6
  split at h; · cases h
  rename_i holen
  split at h; · cases h
  rename_i hend
  split at h; · cases h
  cases h
  have hend' : p + 10 + rd16 w (p + 8) + 6 + rd16 w (p + 10 + rd16 w (p + 8) + 4) = w.length := by
    apply Classical.byContradiction; intro hh; exact hend hh
  refine ⟨p, by omega, ?_⟩
  unfold tsigTail
  simp only
  generalize hq : p + 10 + rd16 w (p + 8) = q at *
  rw [slice_length w _ _ (by omega), slice_length w _ _ (by omega)]
  have e : q - (p + 10) = rd16 w (p + 8) := by omega
  have e2 : q + 6 + rd16 w (q + 4) - (q + 6) = rd16 w (q + 4) := by omega
  rw [e, e2, be6_rd48 w ho p (by omega), be2_rd16 w ho (p + 6) (by omega), be2_rd16 w ho (p + 8) (by omega),
    be2_rd16 w ho q (by omega), be2_rd16 w ho (q + 2) (by omega), be2_rd16 w ho (q + 4) (by omega)]
  rw [drop_eq_slice_append w p (p + 6) (by omega) (by omega),
    drop_eq_slice_append w (p + 6) (p + 6 + 2) (by omega) (by omega),
    drop_eq_slice_append w (p + 6 + 2) (p + 8 + 2) (by omega) (by omega),
    drop_eq_slice_append w (p + 8 + 2) q (by omega) (by omega),
    drop_eq_slice_append w q (q + 2) (by omega) (by omega),
    drop_eq_slice_append w (q + 2) (q + 2 + 2) (by omega) (by omega),
    drop_eq_slice_append w (q + 2 + 2) (q + 4 + 2) (by omega) (by omega),
    drop_eq_slice_append w (q + 4 + 2) (q + 6 + rd16 w (q + 4)) (by omega) (by omega)]
  have : w.drop (q + 6 + rd16 w (q + 4)) = [] := List.drop_eq_nil_of_le (by omega)
  rw [this]
  simp only [List.append_assoc, List.append_nil]

end Model.Tsig

namespace Model.Tsig
open Model Rfc8945

theorem getD_of_getElem? (w w' : Bytes) (i : Nat) (h : w'[i]? = w[i]?) : w'.getD i 0 = w.getD i 0 := by
  rw [getD_eq, getD_eq, h]

/-- a 16-bit field with exactly one altered octet reads differently -/
theorem rd16_flip_ne (w w' : Bytes) (a j : Nat) (ho : OctetsOk w) (ho' : OctetsOk w') (hl : a + 2 ≤ w.length)
    (hl' : w'.length = w.length) (hj : j = a ∨ j = a + 1) (hne : w'[j]? ≠ w[j]?)
    (hag : ∀ x, x ≠ j → w'[x]? = w[x]?) : rd16 w' a ≠ rd16 w a := by
  have g1 := getD_lt w ho a
  have g2 := getD_lt w ho (a + 1)
  have g1' := getD_lt w' ho' a
  have g2' := getD_lt w' ho' (a + 1)
  have hd : w'.getD j 0 ≠ w.getD j 0 := by
    rw [getD_eq, getD_eq]
    have hj' : j < w.length := by omega
    rw [List.getElem?_eq_getElem hj', List.getElem?_eq_getElem (by omega)] at hne ⊢
    simpa using hne
  unfold rd16
  rcases hj with rfl | rfl
  · have := getD_of_getElem? w w' (j + 1) (hag _ (by omega))
    omega
  · have := getD_of_getElem? w w' a (hag _ (by omega))
    omega

theorem rd32_flip_ne (w w' : Bytes) (a j : Nat) (ho : OctetsOk w) (ho' : OctetsOk w') (hl : a + 4 ≤ w.length)
    (hl' : w'.length = w.length) (hj : a ≤ j ∧ j < a + 4) (hne : w'[j]? ≠ w[j]?)
    (hag : ∀ x, x ≠ j → w'[x]? = w[x]?) : rd32 w' a ≠ rd32 w a := by
  have b1 := rd16_lt w ho a
  have b2 := rd16_lt w ho (a + 2)
  have b1' := rd16_lt w' ho' a
  have b2' := rd16_lt w' ho' (a + 2)
  unfold rd32
  by_cases hlo : j < a + 2
  · have h1 := rd16_flip_ne w w' a j ho ho' (by omega) hl' (by omega) hne hag
    have h2 : rd16 w' (a + 2) = rd16 w (a + 2) := rd16_congr _ _ _ (hag _ (by omega)) (hag _ (by omega))
    omega
  · have h1 := rd16_flip_ne w w' (a + 2) j ho ho' (by omega) hl' (by omega) hne hag
    have h2 : rd16 w' a = rd16 w a := rd16_congr _ _ _ (hag _ (by omega)) (hag _ (by omega))
    omega

/-- **where a single altered bit can hide.**  If the genuine message and the message with bit `i` flipped are
both accepted as signed (same key, request MAC, no running context), and the very same (input, MAC) pair reaches
the comparison, then the flipped octet is in the message ID, in the owner name of the TSIG RR, in its TTL
field, or in the algorithm name — nowhere else. -/
theorem flip_same_pair_location (V V' : Verifier) (tbl : List AlgEntry) (w : Bytes) (k k' : Key) (now now' : Nat) (rm : Bytes)
    (ctx : Option Ctx) (multi : Bool) (s p s' p' : Nat) (o o' : Name) (rd rd' : Rdata) (c c' : Ctx) (c1 c1' : Option Ctx)
    (i : Nat) (ho : OctetsOk w) (hi : i / 8 < w.length) (hfirst : multi = false ∨ ctx = none)
    (a : Accepted V tbl w k now rm ctx multi s p o rd c c1)
    (a' : Accepted V' tbl (flipBit w i) k' now' rm ctx multi s' p' o' rd' c' c1')
    (hd : c'.data = c.data) (hm : rd'.mac = rd.mac) :
    i / 8 < 2 ∨ (s ≤ i / 8 ∧ i / 8 < p) ∨ (p' = p ∧ p + 4 ≤ i / 8 ∧ i / 8 < p + 8)
      ∨ (p + 10 ≤ i / 8 ∧ i / 8 + (tsigTail rd).length < w.length) := by
  have ho' := flipBit_octets w i ho
  have hl' := flipBit_length w i
  have hne := flipBit_getElem_eq w i hi
  have hag : ∀ x, x ≠ i / 8 → (flipBit w i)[x]? = w[x]? := fun x hx => flipBit_getElem_ne w i x hx
  obtain ⟨hs, hbody, _, hoid, ht, hf, hrest⟩ :=
    same_input_same_content V V' tbl w (flipBit w i) k k' now now' rm ctx multi s s' p p' o o' rd rd' c c' c1 c1' ho ho' a a' hd.symm
  obtain ⟨herr, hoth, _, _⟩ := hrest hfirst
  subst hs
  -- the fixed-layout tails coincide
  have htail : tsigTail rd' = tsigTail rd := by
    unfold tsigTail; rw [← ht, ← hf, hm, ← hoid, ← herr, ← hoth]
  obtain ⟨q, hq, hdq⟩ := rdataParse_tail w _ rd ho a.parse
  obtain ⟨q', hq', hdq'⟩ := rdataParse_tail (flipBit w i) _ rd' ho' a'.parse
  have hlen : w.length - q = (flipBit w i).length - q' := by
    have e1 := congrArg List.length hdq
    have e2 := congrArg List.length hdq'
    rw [htail] at e2
    simp only [List.length_drop] at e1 e2
    omega
  have hqq : q' = q := by rw [hl'] at hlen hq'; omega
  subst hqq
  have hjq : i / 8 < q' := by
    apply Classical.byContradiction
    intro hge
    have e : (flipBit w i).drop q' = w.drop q' := by rw [hdq, hdq', htail]
    have := congrArg (fun l => l[i / 8 - q']?) e
    simp only [List.getElem?_drop] at this
    rw [show q' + (i / 8 - q') = i / 8 by omega] at this
    exact hne this
  have htl : (tsigTail rd).length = w.length - q' := by
    have e1 := congrArg List.length hdq
    simp only [List.length_drop] at e1
    omega
  by_cases h2 : i / 8 < 2
  · exact Or.inl h2
  · have hge : s ≤ i / 8 := by
      apply Classical.byContradiction
      intro hlt
      exact hne (hbody (i / 8) (by omega) (by omega)).symm
    by_cases hp : i / 8 < p
    · exact Or.inr (Or.inl ⟨hge, hp⟩)
    · -- the owner name is untouched, so it ends at the same place
      have hbp := skipName_bounds _ _ _ _ _ a.name
      have hn' : skipName (flipBit w i) (flipBit w i).length ((flipBit w i).length + 1) s = some p :=
        skipName_transfer w (flipBit w i) _ _ _ _ s p a.name (by rw [hl']; omega)
          (fun x h1 h2 => getD_of_getElem? w _ x (hag x (by omega))) (by rw [hl']; omega)
      have hpp : p' = p := by
        have := a'.name; rw [hn'] at this; exact (Option.some.inj this).symm
      subst hpp
      have hhdr := a.hdr
      have hhdr' := a'.hdr
      rw [hl'] at hhdr'
      have x1 : ¬ (i / 8 = p' ∨ i / 8 = p' + 1) := fun hj =>
        rd16_flip_ne w _ p' _ ho ho' (by omega) hl' hj hne hag (by rw [a.typ, a'.typ])
      have x2 : ¬ (i / 8 = p' + 2 ∨ i / 8 = p' + 2 + 1) := fun hj =>
        rd16_flip_ne w _ (p' + 2) _ ho ho' (by omega) hl' hj hne hag (by rw [a.cls, a'.cls])
      have x3 : ¬ (i / 8 = p' + 8 ∨ i / 8 = p' + 8 + 1) := fun hj =>
        rd16_flip_ne w _ (p' + 8) _ ho ho' (by omega) hl' hj hne hag (by omega)
      by_cases httl : i / 8 < p' + 8
      · exact Or.inr (Or.inr (Or.inl ⟨rfl, by omega, httl⟩))
      · exact Or.inr (Or.inr (Or.inr ⟨by omega, by omega⟩))

/-- with the TTL required to be 0 (the intended reading of RFC 8945 §4.2), the TTL field is not a hiding place -/
theorem flip_ttl_excluded (w : Bytes) (i p : Nat) (ho : OctetsOk w) (hl : p + 8 ≤ w.length)
    (h0 : rd32 w (p + 4) = 0) (h0' : rd32 (flipBit w i) (p + 4) = 0) : ¬ (p + 4 ≤ i / 8 ∧ i / 8 < p + 8) := by
  intro hj
  have hi : i / 8 < w.length := by omega
  exact rd32_flip_ne w _ (p + 4) _ ho (flipBit_octets w i ho) (by omega) (flipBit_length w i) ⟨hj.1, by omega⟩
    (flipBit_getElem_eq w i hi) (fun x hx => flipBit_getElem_ne w i x hx) (by rw [h0, h0'])

end Model.Tsig

import Proofs.RdataTextLex
import Proofs.RdataTextNum
/-! Hex blobs, `_wordbreak` chunking, `concatenate_remaining_identifiers` and the generic `\# len hex` form (C05). -/
namespace Model

/-! ## plain text: characters that need no escaping inside an identifier -/

def Plain (s : List Nat) : Prop := ∀ c ∈ s, isDelim c = false ∧ c ≠ 92

theorem identBodyAux_plain (s : List Nat) (h : Plain s) : identBodyAux false s = true := by
  induction s with
  | nil => rfl
  | cons c cs ih =>
    have hc := h c (by simp)
    simp [identBodyAux, hc.1, hc.2, ih (fun x hx => h x (by simp [hx]))]

theorem unescapeCP_plain_all (s : List Nat) (h : Plain s) : unescapeCP s = some s := by
  induction s with
  | nil => rfl
  | cons c cs ih =>
    have hc := h c (by simp)
    rw [unescapeCP.eq_def]
    split
    · rename_i e; simp at e
    · rename_i e; simp at e; exact absurd e.1 hc.2
    · rename_i e; simp at e; exact absurd e.1 hc.2
    · rename_i e; simp at e; obtain ⟨rfl, rfl⟩ := e
      simp [ih (fun x hx => h x (by simp [hx]))]

theorem lexes_plain (s : List Nat) (hne : s ≠ []) (h : Plain s) : Lexes s [⟨.ident, s⟩] :=
  lexes_ident s hne (identBodyAux_plain s h)

/-! ## chunking -/

/-- the chunks `_wordbreak` joins -/
def wordbreakChunks (data : List Nat) (chunk : Nat) : List (List Nat) :=
  if chunk = 0 then (if data = [] then [] else [data]) else chunksOf chunk data

theorem joinSep_singleton (sep x : List Nat) : joinSep sep [x] = x := rfl

theorem wordbreak_eq (data : List Nat) (chunk : Nat) (sep : List Nat) :
    wordbreak data chunk sep = joinSep sep (wordbreakChunks data chunk) := by
  unfold wordbreak wordbreakChunks
  by_cases h : chunk = 0
  · by_cases hd : data = []
    · simp [h, hd, joinSep]
    · simp [h, hd, joinSep]
  · simp [h]

theorem chunksOf_flatten (n : Nat) (s : List Nat) : (chunksOf n s).flatten = s := by
  fun_induction chunksOf n s with
  | case1 => simp
  | case2 s hs => simp
  | case3 s hs hn ih => simp [ih]

theorem chunksOf_mem (n : Nat) (s : List Nat) : ∀ ch ∈ chunksOf n s, ch ≠ [] ∧ ∀ c ∈ ch, c ∈ s := by
  fun_induction chunksOf n s with
  | case1 => intro ch hch; simp at hch
  | case2 s hs => intro ch hch; simp at hch; subst hch; exact ⟨hs, fun c hc => hc⟩
  | case3 s hs hn ih =>
    intro ch hch
    simp at hch
    rcases hch with e | hmem
    · subst e
      refine ⟨?_, fun c hc => List.mem_of_mem_take hc⟩
      intro e
      have := congrArg List.length e
      simp at this
      rcases this with h1 | h1
      · exact hn h1
      · exact hs h1
    · obtain ⟨a, b⟩ := ih ch hmem
      exact ⟨a, fun c hc => List.mem_of_mem_drop (b c hc)⟩

theorem wordbreakChunks_flatten (data : List Nat) (chunk : Nat) : (wordbreakChunks data chunk).flatten = data := by
  unfold wordbreakChunks
  by_cases h : chunk = 0
  · by_cases hd : data = [] <;> simp [h, hd]
  · simp [h, chunksOf_flatten]

theorem wordbreakChunks_mem (data : List Nat) (chunk : Nat) :
    ∀ ch ∈ wordbreakChunks data chunk, ch ≠ [] ∧ ∀ c ∈ ch, c ∈ data := by
  unfold wordbreakChunks
  by_cases h : chunk = 0
  · by_cases hd : data = []
    · simp [h, hd]
    · intro ch hch; simp [h, hd] at hch; subst hch; exact ⟨hd, fun c hc => hc⟩
  · simp only [h, if_false]; exact chunksOf_mem chunk data

def identToks (chunks : List (List Nat)) : List Tok := chunks.map fun s => ⟨.ident, s⟩

/-- chunks of plain text joined by a blank separator are read back as one identifier per chunk -/
theorem lexes_joinSep_chunks (chunks : List (List Nat)) (sep : List Nat) (hsep : blanks sep) (hne : sep ≠ [])
    (h : ∀ ch ∈ chunks, ch ≠ [] ∧ Plain ch) : Lexes (joinSep sep chunks) (identToks chunks) := by
  induction chunks with
  | nil => simpa [joinSep, identToks] using lexes_nil
  | cons p ps ih =>
    have hp := h p (by simp)
    cases ps with
    | nil => simpa [joinSep, identToks] using lexes_plain p hp.1 hp.2
    | cons q qs =>
      have hq := ih (fun x hx => h x (by simp [hx]))
      have := lexes_append p (joinSep sep (q :: qs)) sep _ _ hsep hne (lexes_plain p hp.1 hp.2) hq
      simpa [joinSep, identToks] using this

/-- a lossless chunking style: the separator is blank and non-empty (or chunking is off) -/
def ChunkOk (chunk : Nat) (sep : List Nat) : Prop := chunk = 0 ∨ (blanks sep ∧ sep ≠ [])

theorem lexes_wordbreak (data : List Nat) (hp : Plain data) (chunk : Nat) (sep : List Nat) (hc : ChunkOk chunk sep) :
    Lexes (wordbreak data chunk sep) (identToks (wordbreakChunks data chunk)) := by
  rw [wordbreak_eq]
  have hmem := wordbreakChunks_mem data chunk
  have hpl : ∀ ch ∈ wordbreakChunks data chunk, ch ≠ [] ∧ Plain ch :=
    fun ch hch => ⟨(hmem ch hch).1, fun c hcc => hp c ((hmem ch hch).2 c hcc)⟩
  rcases hc with h0 | ⟨hb, hne⟩
  · -- at most one chunk: the separator is never printed
    subst h0
    unfold wordbreakChunks
    by_cases hd : data = []
    · simpa [hd, joinSep, identToks] using lexes_nil
    · simpa [hd, joinSep, identToks] using lexes_plain data hd hp
  · exact lexes_joinSep_chunks _ sep hb hne hpl

theorem concatIdents_go_plain (chunks : List (List Nat)) (h : ∀ ch ∈ chunks, Plain ch) :
    concatIdents.go (identToks chunks) = some chunks.flatten := by
  induction chunks with
  | nil => simp [identToks, concatIdents.go]
  | cons c cs ih =>
    have hc := h c (by simp)
    have := ih (fun x hx => h x (by simp [hx]))
    simp only [identToks, List.map_cons] at this ⊢
    simp [concatIdents.go, unescapeCP_plain_all c hc, this]

/-- `concatenate_remaining_identifiers` glues the chunks back together -/
theorem concatIdents_chunks (allowEmpty : Bool) (data : List Nat) (hp : Plain data) (chunk : Nat)
    (hne : allowEmpty = true ∨ data ≠ []) :
    concatIdents allowEmpty (identToks (wordbreakChunks data chunk)) = some data := by
  have hmem := wordbreakChunks_mem data chunk
  have hpl : ∀ ch ∈ wordbreakChunks data chunk, Plain ch :=
    fun ch hch c hcc => hp c ((hmem ch hch).2 c hcc)
  have hgo := concatIdents_go_plain _ hpl
  rw [wordbreakChunks_flatten] at hgo
  cases hw : wordbreakChunks data chunk with
  | nil =>
    have : data = [] := by have := wordbreakChunks_flatten data chunk; rw [hw] at this; simpa using this.symm
    subst this
    rcases hne with ha | hd
    · simp [identToks, concatIdents, ha]
    · exact absurd rfl hd
  | cons c cs =>
    rw [hw] at hgo
    simp only [identToks, List.map_cons] at hgo ⊢
    unfold concatIdents
    simp only [hgo]
    rcases hne with ha | hd
    · simp [ha]
    · simp [hd]

/-! ## hex -/

theorem hexDigitVal_lower (d : Nat) (h : d < 16) : hexDigitVal (hexDigitLower d) = some d := by
  unfold hexDigitLower hexDigitVal
  by_cases h10 : d < 10
  · simp [h10]; omega
  · have a : ¬ (48 ≤ 87 + d ∧ 87 + d ≤ 57) := by omega
    have b : 97 ≤ 87 + d ∧ 87 + d ≤ 102 := by omega
    simp [h10, a, b]

theorem unhexlify_hexlify (d : Bytes) (hd : ∀ x ∈ d, x < 256) : unhexlify (hexlify d) = some d := by
  induction d with
  | nil => rfl
  | cons x xs ih =>
    have hx := hd x (by simp)
    have e : hexlify (x :: xs) = hexDigitLower (x / 16) :: hexDigitLower (x % 16) :: hexlify xs := by
      simp [hexlify]
    rw [e, unhexlify, hexDigitVal_lower _ (by omega), hexDigitVal_lower _ (by omega), ih (fun y hy => hd y (by simp [hy]))]
    simp; omega

theorem hexDigitLower_plain (d : Nat) (h : d < 16) : isDelim (hexDigitLower d) = false ∧ hexDigitLower d ≠ 92 := by
  unfold hexDigitLower isDelim
  by_cases h10 : d < 10
  · simp [h10]; omega
  · simp [h10]; omega

theorem hexlify_plain (d : Bytes) (hd : ∀ x ∈ d, x < 256) : Plain (hexlify d) := by
  intro c hc
  simp only [hexlify, List.mem_flatMap] at hc
  obtain ⟨x, hx, hcx⟩ := hc
  have := hd x hx
  simp at hcx
  rcases hcx with e | e
  · subst e; exact hexDigitLower_plain _ (by omega)
  · subst e; exact hexDigitLower_plain _ (by omega)

theorem hexlify_eq_nil (d : Bytes) : hexlify d = [] ↔ d = [] := by
  cases d <;> simp [hexlify]

theorem natToDec_plain (n : Nat) : Plain (natToDec n) := by
  intro c hc
  have := natToDec_digits n c hc
  simp [isDelim]; omega


/-! ## the generic form -/

theorem lexes_backslash_hash : Lexes [92, 35] [⟨.ident, [92, 35]⟩] :=
  lexes_ident [92, 35] (by simp) (by decide)

theorem printGeneric_lexes (st : Style) (data : Bytes) (hd : ∀ x ∈ data, x < 256) (hc : ChunkOk st.hexChunk st.hexSep) :
    Lexes (printGeneric st data)
      ([⟨.ident, [92, 35]⟩, ⟨.ident, natToDec data.length⟩] ++ identToks (wordbreakChunks (hexlify data) st.hexChunk)) := by
  have h1 := lexes_backslash_hash
  have h2 := lexes_plain (natToDec data.length) (natToDec_ne_nil _) (natToDec_plain _)
  have h3 := lexes_wordbreak (hexlify data) (hexlify_plain data hd) st.hexChunk st.hexSep hc
  have := lexes_joinSep [([92, 35], [⟨.ident, [92, 35]⟩]), (natToDec data.length, [⟨.ident, natToDec data.length⟩]),
    (wordbreak (hexlify data) st.hexChunk st.hexSep, identToks (wordbreakChunks (hexlify data) st.hexChunk))]
    (by
      intro p hp
      simp at hp
      rcases hp with e | e | e <;> subst e <;> assumption)
  simpa [joinSep, printGeneric] using this

theorem parseGeneric_tokens (data : Bytes) (hd : ∀ x ∈ data, x < 256) (chunk : Nat) :
    parseGeneric ([⟨.ident, [92, 35]⟩, ⟨.ident, natToDec data.length⟩] ++ identToks (wordbreakChunks (hexlify data) chunk))
      = some data := by
  have hcat := concatIdents_chunks true (hexlify data) (hexlify_plain data hd) chunk (Or.inl rfl)
  simp only [List.cons_append, List.nil_append, parseGeneric]
  simp [unescapeCP_plain_all _ (natToDec_plain data.length), pyInt10_natToDec, hcat, unhexlify_hexlify data hd]

/-- RFC 3597 generic form of an unknown type -/
theorem generic_unknown_roundtrip (st : Style) (env : PEnv) (data : Bytes) (hd : ∀ x ∈ data, x < 256)
    (hc : ChunkOk st.hexChunk st.hexSep) :
    fromTextRdata none env (printGeneric st data) = some (.generic data) := by
  unfold fromTextRdata
  rw [lexLine_of_lexes _ _ (printGeneric_lexes st data hd hc)]
  simp only [parseGeneric_tokens data hd st.hexChunk, Option.map_some]

end Model

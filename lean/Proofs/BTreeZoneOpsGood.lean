import Proofs.BTreeZoneCases
/-!
`put_rdataset`, `delete_rdataset`, `delete_node` keep a version `Good`, for every variant, under guards that
exclude exactly the triggers of D15, D16 and CNAME-at-a-cut for the decision points left as shipped.
-/
namespace Model
namespace BTZ

/-- facts about the node returned by copy-on-write that every case uses -/
theorem cow_facts {cfg : Cfg} {N : Nodes} {D chg : List Name} (hg : Good cfg ⟨N, D, chg⟩) {name : Name} (hn : LC name)
    {node0 : Node} (c3 : node0.rds = (match nget N name with | some nd => nd.rds | none => [])) :
    RdsOK node0.rds ∧ (NS N name ↔ hasNS node0.rds = true) ∧
    (isDelegSpec cfg N name = true → isOrigin cfg name = false ∧ isGlueSpec cfg N name = false ∧
      hasNS node0.rds = true ∧ name ∈ D) := by
  have h1 : RdsOK node0.rds := by
    rw [c3]
    cases hgn : nget N name with
    | none => exact RdsOK_nil
    | some nd => exact (hg.pointwise hn hgn).2.1
  have h2 : NS N name ↔ hasNS node0.rds = true := by
    rw [c3]; unfold NS
    cases hgn : nget N name with
    | none => simp [hasNS]
    | some nd => simp
  refine ⟨h1, h2, ?_⟩
  intro hd
  obtain ⟨d1, d2, d3⟩ := (isDelegSpec_iff hg.wf).mp hd
  refine ⟨d1, ?_, h2.mp d2, (hg.index name hn).mpr hd⟩
  cases hh : isGlueSpec cfg N name with
  | false => rfl
  | true => exact absurd ((isGlueSpec_iff hg.wf).mp hh) d3

theorem putRdataset_good {v : Variant} {cfg : Cfg} {ver ver' : Ver} {n name : Name} {k : RdKey}
    (hg : Good cfg ver) (hk : KeyWf k) (hname : vname cfg n = .ok name)
    (hz : isSubdomain name (apex cfg) = true) (hgd : putGuard v cfg ver name k = true)
    (hr : putRdataset v cfg ver n k = .ok ver') : Good cfg ver' := by
  have hn := vname_LC hname
  obtain ⟨c1, c2, c3, c4⟩ := cow_spec v hg hn
  have hglue := glueIdx_eq hg hn
  have hdm := dmem_eq_deleg hg hn
  unfold putRdataset at hr
  rw [hname] at hr
  simp only at hr
  injection hr with hr
  subst hr
  generalize hmc : maybeCow v cfg ver name = mc at c1 c2 c3 c4
  obtain ⟨ver1, node0⟩ := mc
  obtain ⟨N, D, chg⟩ := ver
  obtain ⟨N1, D1, chg1⟩ := ver1
  simp only at c1 c2 c3 c4 hglue hdm hg
  subst D1
  subst N1
  simp only
  obtain ⟨hrds0, hNS, hdfacts⟩ := cow_facts hg hn c3
  have hN1 : NWF (nins N name node0) := NWF_nins hg.wf hn
  have hag : AgreeOff N (nins N name node0) name := AgreeOff.nins hg.wf hn node0
  have hfo : node0.flags.origin = isOrigin cfg name := by rw [c4]; rfl
  have hfg : node0.flags.glue = isGlueSpec cfg N name := by rw [c4]; rfl
  have hfd : node0.flags.deleg = (isDelegSpec cfg N name && (v.fixCow || dmem chg name)) := by rw [c4]
  have hrepl := hasNS_replace hrds0 hk
  have hrdsR : RdsOK (replaceRds node0.rds k) := RdsOK_replace hrds0 hk
  unfold putGuard at hgd
  simp only [Bool.and_eq_true, Bool.or_eq_true, Bool.not_eq_true', hdm, hglue] at hgd
  obtain ⟨⟨g1, g2⟩, g3⟩ := hgd
  by_cases hA : (isNS k && !(node0.flags.origin || node0.flags.glue)) = true
  · -- NS written at a name that is neither the apex nor glue
    have hA' := hA
    simp only [Bool.and_eq_true, Bool.not_eq_true', Bool.or_eq_false_iff, hfo, hfg] at hA'
    obtain ⟨hns, ho, hgl⟩ := hA'
    have hna : ¬ NSAbove cfg N name := by
      intro h; rw [(isGlueSpec_iff hg.wf).mpr h] at hgl; exact absurd hgl (by decide)
    have hnsR : hasNS (replaceRds node0.rds k) = true := by rw [hrepl]; simp [hns]
    by_cases hB : dmem D name = true
    · -- already a delegation point: flag set again, nothing else changes
      have hd : isDelegSpec cfg N name = true := by rw [← hdm]; exact hB
      have e1 : putNS v ⟨nins N name node0, D, chg1⟩ node0 name k =
          (⟨nins N name node0, D, chg1⟩, { node0 with flags := { node0.flags with deleg := true } }) := by
        simp only [putNS, hA, if_true, hB, Bool.not_true, Bool.false_eq_true, if_false]
      rw [e1]
      simp only [putFinish, hnsR, Bool.not_true, Bool.and_false, Bool.false_eq_true, if_false]
      apply good_same_keep hg hN1 hag hn hz hrdsR
      · simp only [hfo, hfg]
        apply flags_ext <;> simp [flagsSpec, hd]
      · left; simp only [hnsR, true_iff]; exact hNS.mpr (hdfacts hd).2.2.1
    · -- a new delegation point
      have hB' : dmem D name = false := by simpa using hB
      have hd : isDelegSpec cfg N name = false := by rw [← hdm]; exact hB'
      have e1 : putNS v ⟨nins N name node0, D, chg1⟩ node0 name k =
          (updateGlue v ⟨nins N name node0, dins D name, chg1⟩ name true,
            { node0 with flags := { node0.flags with deleg := true } }) := by
        simp only [putNS, hA, if_true, hB', Bool.not_false]
      rw [e1]
      simp only [putFinish, hnsR, Bool.not_true, Bool.and_false, Bool.false_eq_true, if_false]
      apply good_delegate hg hN1 hag hn hz ho hna
      · intro hm; rw [(dmem_iff hg.dwf.2 hn).mpr hm] at hB'; exact absurd hB' (by decide)
      · rcases g2 with h | h
        · exact Or.inl h
        · right
          cases hb : nsBelow N name with
          | false => rfl
          | true => simp [hb, hns, hd, ho, hgl] at h
      · exact hnsR
      · exact hrdsR
      · simp only [hfo, hfg, ho, hgl]
  · -- no new delegation flag
    have e1 : putNS v ⟨nins N name node0, D, chg1⟩ node0 name k = (⟨nins N name node0, D, chg1⟩, node0) := by
      simp only [putNS, hA, Bool.false_eq_true, if_false]
    rw [e1]
    simp only
    by_cases hC : (v.fixCname && node0.flags.deleg && !hasNS (replaceRds node0.rds k)) = true
    · -- repaired: the NS rdataset was dropped at a delegation point
      have hC' := hC
      simp only [Bool.and_eq_true, Bool.not_eq_true', hfd] at hC'
      obtain ⟨⟨_, hd, _⟩, hnsR⟩ := hC'
      obtain ⟨ho, hgl, hns0, hmem⟩ := hdfacts hd
      have hcn : classify k = Kind.cname := by
        rw [hrepl] at hnsR
        by_cases h1 : isNS k = true
        · simp [h1] at hnsR
        · by_cases h2 : classify k = Kind.cname
          · exact h2
          · simp [h1, h2, hns0] at hnsR
      simp only [putFinish, hC, if_true]
      apply good_undelegate_keep hg hN1 hag hn hz hmem
      · rcases g2 with h | h
        · exact Or.inl h
        · right
          cases hb : nsBelow N name with
          | false => rfl
          | true => simp [hb, hd, hcn] at h
      · exact hnsR
      · exact hrdsR
      · simp only [hfo, hfg, ho, hgl]
    · -- the node keeps the flags it has
      simp only [putFinish, hC, Bool.false_eq_true, if_false]
      have hA' : isNS k = false ∨ isOrigin cfg name = true ∨ isGlueSpec cfg N name = true := by
        simp only [Bool.and_eq_true, Bool.not_eq_true', Bool.or_eq_false_iff, hfo, hfg, not_and] at hA
        by_cases h1 : isNS k = true
        · right
          cases ho : isOrigin cfg name with
          | true => exact Or.inl rfl
          | false =>
            right
            cases hgl : isGlueSpec cfg N name with
            | true => rfl
            | false => exact absurd hgl (hA h1 ho)
        · left; simpa using h1
      -- the delegation flag was not lost by the copy
      have hkeep : node0.flags = flagsSpec cfg N name := by
        rw [c4]
        apply flags_ext <;> try rfl
        show (isDelegSpec cfg N name && (v.fixCow || dmem chg name)) = isDelegSpec cfg N name
        cases hd : isDelegSpec cfg N name with
        | false => rfl
        | true =>
          obtain ⟨ho, hgl, _, _⟩ := hdfacts hd
          have hnns : isNS k = false := by
            rcases hA' with h | h | h
            · exact h
            · rw [ho] at h; exact absurd h (by decide)
            · rw [hgl] at h; exact absurd h (by decide)
          rcases g1 with h | h
          · simp [h]
          · simp only [hd, hnns, Bool.not_false, Bool.and_true, Bool.true_and, Bool.not_eq_false'] at h
            simp [h]
      apply good_same_keep (node3 := { rds := replaceRds node0.rds k, flags := node0.flags }) hg hN1 hag hn hz hrdsR hkeep
      -- NS ownership unchanged, or the name is shadowed
      rcases hA' with h | h | h
      · by_cases hcn : classify k = Kind.cname
        · cases hd : isDelegSpec cfg N name with
          | true =>
            -- CNAME at a delegation point: excluded by the guard, or repaired (then hC would hold)
            exfalso
            obtain ⟨_, _, hns0, _⟩ := hdfacts hd
            have hnsR : hasNS (replaceRds node0.rds k) = false := by rw [hrepl]; simp [h, hcn]
            rcases g3 with h3 | h3
            · apply hC
              rw [hkeep]
              simp [h3, flagsSpec, hd, hnsR]
            · simp [hd, hcn] at h3
          | false =>
            -- not a delegation: an NS owner here is the apex or shadowed
            by_cases hns0 : NS N name
            · right
              by_cases ho : isOrigin cfg name = true
              · exact Or.inl ho
              · right
                have ho' : isOrigin cfg name = false := by simpa using ho
                apply Classical.byContradiction
                intro hna
                have := (isDelegSpec_iff hg.wf).mpr ⟨ho', hns0, hna⟩
                rw [hd] at this; exact absurd this (by decide)
            · left
              have : hasNS (replaceRds node0.rds k) = false := by rw [hrepl]; simp [h, hcn]
              rw [this]
              constructor
              · intro h'; exact absurd h' (by decide)
              · intro h'; exact absurd h' hns0
        · left
          have : hasNS (replaceRds node0.rds k) = hasNS node0.rds := by rw [hrepl]; simp [h, hcn]
          show hasNS (replaceRds node0.rds k) = true ↔ NS N name
          rw [this]; exact hNS.symm
      · exact Or.inr (Or.inl h)
      · exact Or.inr (Or.inr ((isGlueSpec_iff hg.wf).mp h))

/-- an NS owner that is not a delegation point is the apex or shadowed -/
theorem shadowed_of_not_deleg {cfg : Cfg} {N : Nodes} (hN : NWF N) {name : Name}
    (hd : isDelegSpec cfg N name = false) (hns : NS N name) :
    isOrigin cfg name = true ∨ NSAbove cfg N name := by
  by_cases ho : isOrigin cfg name = true
  · exact Or.inl ho
  · right
    have ho' : isOrigin cfg name = false := by simpa using ho
    apply Classical.byContradiction
    intro hna
    have := (isDelegSpec_iff hN).mpr ⟨ho', hns, hna⟩
    rw [hd] at this; exact absurd this (by decide)

theorem deleteRdataset_good {v : Variant} {cfg : Cfg} {ver ver' : Ver} {n name : Name} {k : RdKey}
    (hg : Good cfg ver) (hk : KeyWf k) (hname : vname cfg n = .ok name)
    (hz : isSubdomain name (apex cfg) = true) (hgd : delRdsGuard v ver name k = true)
    (hr : deleteRdataset v cfg ver n k = .ok ver') : Good cfg ver' := by
  have hn := vname_LC hname
  obtain ⟨c1, c2, c3, c4⟩ := cow_spec v hg hn
  have hdm := dmem_eq_deleg hg hn
  unfold deleteRdataset at hr
  rw [hname] at hr
  simp only at hr
  injection hr with hr
  subst hr
  generalize hmc : maybeCow v cfg ver name = mc at c1 c2 c3 c4
  obtain ⟨ver1, node0⟩ := mc
  obtain ⟨N, D, chg⟩ := ver
  obtain ⟨N1, D1, chg1⟩ := ver1
  simp only at c1 c2 c3 c4 hdm hg
  subst D1
  subst N1
  simp only
  obtain ⟨hrds0, hNS, hdfacts⟩ := cow_facts hg hn c3
  have hN1 : NWF (nins N name node0) := NWF_nins hg.wf hn
  have hag : AgreeOff N (nins N name node0) name := AgreeOff.nins hg.wf hn node0
  have hfo : node0.flags.origin = isOrigin cfg name := by rw [c4]; rfl
  have hfg : node0.flags.glue = isGlueSpec cfg N name := by rw [c4]; rfl
  have her := hasNS_erase hrds0 hk
  have hrdsE : RdsOK (node0.rds.erase k) := RdsOK_erase hrds0 k
  unfold delRdsGuard at hgd
  simp only [Bool.and_eq_true, Bool.or_eq_true, Bool.not_eq_true', hdm] at hgd
  obtain ⟨g1, g2⟩ := hgd
  by_cases hA : (isNS k && dmem D name) = true
  · -- the NS rdataset of a delegation point is deleted
    have hA' := hA
    simp only [Bool.and_eq_true, hdm] at hA'
    obtain ⟨hns, hd⟩ := hA'
    obtain ⟨ho, hgl, _, hmem⟩ := hdfacts hd
    have hnsE : hasNS (node0.rds.erase k) = false := by rw [her]; simp [hns]
    have hguard : v.fixNested = true ∨ nsBelow N name = false := by
      rcases g2 with h | h
      · exact Or.inl h
      · right
        cases hb : nsBelow N name with
        | false => rfl
        | true => simp [hb, hns, hd] at h
    have e1 : delNS v ⟨nins N name node0, D, chg1⟩ node0 name k =
        (updateGlue v ⟨nins N name node0, ddel D name, chg1⟩ name false,
          { node0 with flags := { node0.flags with deleg := false } }) := by
      simp only [delNS, hA, if_true]
    rw [e1]
    simp only [delFinish, deleteRds]
    by_cases hemp : (node0.rds.erase k).isEmpty = true
    · simp only [hemp, ↓reduceIte]
      exact good_undelegate_drop hg hN1 hag hn hz hmem hguard
    · have hemp' : (node0.rds.erase k).isEmpty = false := by simpa using hemp
      simp only [hemp', Bool.false_eq_true, ↓reduceIte]
      apply good_undelegate_keep hg hN1 hag hn hz hmem hguard hnsE hrdsE
      simp only [hfo, hfg, ho, hgl]
  · have e1 : delNS v ⟨nins N name node0, D, chg1⟩ node0 name k = (⟨nins N name node0, D, chg1⟩, node0) := by
      simp only [delNS, hA, Bool.false_eq_true, if_false]
    rw [e1]
    simp only [delFinish, deleteRds]
    have hA' : isNS k = false ∨ isDelegSpec cfg N name = false := by
      simp only [Bool.and_eq_true, hdm, not_and] at hA
      by_cases h1 : isNS k = true
      · right; simpa using hA h1
      · left; simpa using h1
    have hkeep : node0.flags = flagsSpec cfg N name := by
      rw [c4]
      apply flags_ext <;> try rfl
      show (isDelegSpec cfg N name && (v.fixCow || dmem chg name)) = isDelegSpec cfg N name
      cases hd : isDelegSpec cfg N name with
      | false => rfl
      | true =>
        have hnns : isNS k = false := by
          rcases hA' with h | h
          · exact h
          · rw [hd] at h; exact absurd h (by decide)
        rcases g1 with h | h
        · simp [h]
        · simp only [hd, hnns, Bool.not_false, Bool.and_true, Bool.true_and, Bool.not_eq_false'] at h
          simp [h]
    -- NS ownership unchanged, or shadowed
    have hsame : (hasNS (node0.rds.erase k) = true ↔ NS N name) ∨ isOrigin cfg name = true ∨ NSAbove cfg N name := by
      rcases hA' with h | h
      · left; rw [her]; simp only [h, Bool.false_eq_true, if_false]; exact hNS.symm
      · by_cases hns0 : NS N name
        · exact Or.inr (shadowed_of_not_deleg hg.wf h hns0)
        · left
          by_cases h1 : isNS k = true
          · rw [her]; simp only [h1, if_true]
            constructor
            · intro h'; exact absurd h' (by decide)
            · intro h'; exact absurd h' hns0
          · have h1' : isNS k = false := by simpa using h1
            rw [her]; simp only [h1', Bool.false_eq_true, if_false]; exact hNS.symm
    by_cases hemp : (node0.rds.erase k).isEmpty = true
    · simp only [hemp, ↓reduceIte]
      apply good_same_drop hg hN1 hag hn hz
      rcases hsame with h | h
      · left
        intro hns0
        have := h.mpr hns0
        simp only [List.isEmpty_iff] at hemp
        rw [hemp] at this
        simp [hasNS] at this
      · exact Or.inr h
    · have hemp' : (node0.rds.erase k).isEmpty = false := by simpa using hemp
      simp only [hemp', Bool.false_eq_true, ↓reduceIte]
      exact good_same_keep (node3 := { rds := node0.rds.erase k, flags := node0.flags }) hg hN1 hag hn hz hrdsE hkeep hsame

theorem deleteNode_good {v : Variant} {cfg : Cfg} {ver ver' : Ver} {n name : Name}
    (hg : Good cfg ver) (hname : vname cfg n = .ok name)
    (hz : isSubdomain name (apex cfg) = true) (hgd : delNodeGuard v ver name = true)
    (hr : deleteNode v cfg ver n = .ok ver') : Good cfg ver' := by
  have hn := vname_LC hname
  have hdm := dmem_eq_deleg hg hn
  unfold deleteNode at hr
  rw [hname] at hr
  simp only at hr
  obtain ⟨N, D, chg⟩ := ver
  simp only at hr hdm hg
  unfold delNodeGuard at hgd
  simp only [Bool.or_eq_true, Bool.not_eq_true', hdm] at hgd
  cases hgn : nget N name with
  | none =>
    rw [hgn] at hr; simp only at hr
    injection hr with hr; subst hr; exact hg
  | some node =>
    rw [hgn] at hr; simp only at hr
    injection hr with hr; subst hr
    have hfl := (hg.pointwise hn hgn).2.2
    have hfd : node.flags.deleg = isDelegSpec cfg N name := by rw [hfl]; rfl
    have hag := AgreeOff.refl N name
    by_cases hd : isDelegSpec cfg N name = true
    · have hmem : name ∈ D := (hg.index name hn).mpr hd
      have hguard : v.fixNested = true ∨ nsBelow N name = false := by
        rcases hgd with h | h
        · exact Or.inl h
        · right
          cases hb : nsBelow N name with
          | false => rfl
          | true => simp [hb, hd] at h
      simp only [hfd, hd, if_true]
      exact good_undelegate_drop hg hg.wf hag hn hz hmem hguard
    · have hd' : isDelegSpec cfg N name = false := by simpa using hd
      simp only [hfd, hd', Bool.false_eq_true, if_false]
      apply good_same_drop hg hg.wf hag hn hz
      by_cases hns0 : NS N name
      · exact Or.inr (shadowed_of_not_deleg hg.wf hd' hns0)
      · exact Or.inl hns0

end BTZ
end Model

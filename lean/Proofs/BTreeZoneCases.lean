import Proofs.BTreeZoneOps
/-!
The five shapes in which the operations of the C20 model leave a version, each shown `Good`:
node kept/dropped with NS ownership unchanged or shadowed; a new delegation; a delegation removed with the
node kept / dropped.  `N1` is the store after the copy-on-write step (it agrees with `N` off `name`).
-/
namespace Model
namespace BTZ

/-- `N1` and `N` hold the same nodes at every name but `name` -/
def AgreeOff (N N1 : Nodes) (name : Name) : Prop := ∀ k, LC k → k ≠ name → nget N1 k = nget N k

theorem AgreeOff.refl (N : Nodes) (name : Name) : AgreeOff N N name := fun _ _ _ => rfl

theorem AgreeOff.nins {N : Nodes} (h : NWF N) {name : Name} (hn : LC name) (nd : Node) :
    AgreeOff N (nins N name nd) name := by
  intro k hk hne
  rw [nget_nins h.2 hn hk]; simp [hne]

theorem Rewritten.of_agree {N N1 N' : Nodes} {name : Name} {r : Option Node} {F : Name → Node → Node}
    (hrw : Rewritten N1 N' name r F) (hag : AgreeOff N N1 name) : Rewritten N N' name r F := by
  refine ⟨hrw.here, ?_, ?_, hrw.frds⟩
  · intro k hk hp
    have hne : k ≠ name := by intro e; rw [e, properSub_irrefl] at hp; exact absurd hp (by decide)
    rw [hrw.below k hk hp, hag k hk hne]
  · intro k hk hne hp
    rw [hrw.elsewhere k hk hne hp, hag k hk hne]

theorem rewritten_nins1 {N1 : Nodes} (h : NWF N1) {name : Name} (hn : LC name) (node3 : Node) :
    Rewritten N1 (nins N1 name node3) name (some node3) (fun _ nd => nd) := by
  refine ⟨?_, ?_, ?_, fun _ _ => rfl⟩
  · rw [nget_nins h.2 hn hn]; simp
  · intro k hk hp
    have hne : k ≠ name := by intro e; rw [e, properSub_irrefl] at hp; exact absurd hp (by decide)
    rw [nget_nins h.2 hn hk]; simp [hne]
  · intro k hk hne _
    rw [nget_nins h.2 hn hk]; simp [hne]

theorem NS_agree {N N1 : Nodes} {name a : Name} (hag : AgreeOff N N1 name) (ha : LC a) (hne : a ≠ name) :
    NS N1 a ↔ NS N a := by
  unfold NS; rw [hag a ha hne]

theorem NSBetween_agree {N N1 : Nodes} {name k : Name} (hag : AgreeOff N N1 name) :
    NSBetween N1 k name ↔ NSBetween N k name := by
  constructor
  · rintro ⟨a, ha, hns, hp, hpn⟩
    have hne : a ≠ name := by intro e; rw [e, properSub_irrefl] at hpn; exact absurd hpn (by decide)
    exact ⟨a, ha, (NS_agree hag ha hne).mp hns, hp, hpn⟩
  · rintro ⟨a, ha, hns, hp, hpn⟩
    have hne : a ≠ name := by intro e; rw [e, properSub_irrefl] at hpn; exact absurd hpn (by decide)
    exact ⟨a, ha, (NS_agree hag ha hne).mpr hns, hp, hpn⟩

theorem mem_agree {N N1 : Nodes} (hN : NWF N) (hN1 : NWF N1) {name : Name} (hag : AgreeOff N N1 name)
    {e : Name × Node} (he : e ∈ N1) (hne : e.1 ≠ name) : e ∈ N := by
  have hl := hN1.2 e he
  have := mem_nget hN1 he
  rw [hag e.1 hl hne] at this
  exact nget_some_mem hN.2 hl this

theorem mem_agree' {N N1 : Nodes} (hN : NWF N) (hN1 : NWF N1) {name : Name} (hag : AgreeOff N N1 name)
    {e : Name × Node} (he : e ∈ N) (hne : e.1 ≠ name) : e ∈ N1 := by
  have hl := hN.2 e he
  have := mem_nget hN he
  rw [← hag e.1 hl hne] at this
  exact nget_some_mem hN1.2 hl this

/-- the D16 guard carried over to the store after copy-on-write -/
theorem below_plain1 {cfg : Cfg} {N N1 : Nodes} {D c : List Name} (hg : Good cfg ⟨N, D, c⟩) (hN1 : NWF N1)
    {name : Name} (hn : LC name) (hz : isSubdomain name (apex cfg) = true) (hag : AgreeOff N N1 name)
    (hb : nsBelow N name = false) :
    ∀ e ∈ N1, properSub e.1 name = true →
      e.2.flags.origin = false ∧ e.2.flags.deleg = false ∧ hasNS e.2.rds = false := by
  intro e he hp
  have hne : e.1 ≠ name := by intro e'; rw [e', properSub_irrefl] at hp; exact absurd hp (by decide)
  exact (below_plain hg hn hz hb).1 e (mem_agree hg.wf hN1 hag he hne) hp

/-! ## the shapes -/

/-- node kept, NS ownership unchanged or shadowed -/
theorem good_same_keep {cfg : Cfg} {N N1 : Nodes} {D c c' : List Name} {name : Name} {node3 : Node}
    (hg : Good cfg ⟨N, D, c⟩) (hN1 : NWF N1) (hag : AgreeOff N N1 name) (hn : LC name)
    (hz : isSubdomain name (apex cfg) = true) (hrds : RdsOK node3.rds)
    (hfl : node3.flags = flagsSpec cfg N name)
    (hsame : (hasNS node3.rds = true ↔ NS N name) ∨ isOrigin cfg name = true ∨ NSAbove cfg N name) :
    Good cfg ⟨nins N1 name node3, D, c'⟩ := by
  have hrw := (rewritten_nins1 hN1 hn node3).of_agree hag
  apply good_rewritten_same hg (NWF_nins hN1 hn) hn hz hrw
  · intro nd e; injection e with e; subst e; exact ⟨hrds, hfl⟩
  · rcases hsame with h | h
    · left
      rw [← h]
      unfold NS; rw [hrw.here]; simp
    · exact Or.inr h

/-- node dropped, it owned no NS or was shadowed -/
theorem good_same_drop {cfg : Cfg} {N N1 : Nodes} {D c c' : List Name} {name : Name}
    (hg : Good cfg ⟨N, D, c⟩) (hN1 : NWF N1) (hag : AgreeOff N N1 name) (hn : LC name)
    (hz : isSubdomain name (apex cfg) = true)
    (hsame : (¬ NS N name) ∨ isOrigin cfg name = true ∨ NSAbove cfg N name) :
    Good cfg ⟨ndel N1 name, D, c'⟩ := by
  have hrw := (rewritten_ndel' hN1 hn).of_agree hag
  apply good_rewritten_same hg (NWF_ndel hN1) hn hz hrw
  · intro nd e; cases e
  · rcases hsame with h | h
    · left
      constructor
      · rintro ⟨nd, hgn, _⟩; rw [hrw.here] at hgn; cases hgn
      · intro h'; exact absurd h' h
    · exact Or.inr h

/-- `name` becomes a delegation point: index entry added, subtree walked with `is_glue = True` -/
theorem good_delegate {v : Variant} {cfg : Cfg} {N N1 : Nodes} {D c c1 c' : List Name} {name : Name} {node3 : Node}
    (hg : Good cfg ⟨N, D, c⟩) (hN1 : NWF N1) (hag : AgreeOff N N1 name) (hn : LC name)
    (hz : isSubdomain name (apex cfg) = true)
    (ho : isOrigin cfg name = false) (hna : ¬ NSAbove cfg N name) (hnd : name ∉ D)
    (hguard : v.fixNested = true ∨ nsBelow N name = false)
    (hns : hasNS node3.rds = true) (hrds : RdsOK node3.rds)
    (hfl : node3.flags = { origin := false, deleg := true, glue := false }) :
    Good cfg ⟨nins (updateGlue v ⟨N1, dins D name, c1⟩ name true).nodes name node3,
      (updateGlue v ⟨N1, dins D name, c1⟩ name true).delegs, c'⟩ := by
  have hD1 : DWF (dins D name) := DWF_dins hg.dwf hn
  -- reduce to the repaired walk
  have hug : updateGlue v ⟨N1, dins D name, c1⟩ name true = updateGlue intended ⟨N1, dins D name, c1⟩ name true := by
    rcases hguard with h | h
    · exact updateGlue_congr (by rw [h]; rfl) _ _ _
    · apply updateGlue_guarded v hN1 hn true (below_plain1 hg hN1 hn hz hag h)
      intro d hd
      rcases (mem_dins hg.dwf.2 hn).mp hd with e | hd
      · rw [e]; exact properSub_irrefl name
      · exact (below_plain hg hn hz h).2 d hd
  rw [hug]
  have hnodes := updateGlue_fixed_nodes (v := intended) rfl (ver := ⟨N1, dins D name, c1⟩) hN1 hn true
  have hdel := updateGlue_fixed_delegs_true (v := intended) rfl ⟨N1, dins D name, c1⟩ name
  simp only at hnodes hdel
  rw [hnodes, hdel]
  have hrw := (rewritten_map_nins hN1 hn (fixedNode N1 name true) (fixedNode_rds N1 name true) node3).of_agree hag
  apply good_rewritten_delegate hg (NWF_nins (NWF_map _ hN1) hn) (DWF_filter _ hD1) hn hz hrw ho hna hns hrds hfl
  · intro k nd _; exact fixedNode_true N1 name k nd
  · intro m hm
    rw [List.mem_filter, mem_dins hg.dwf.2 hn]
    constructor
    · rintro ⟨h1 | h1, h2⟩
      · exact Or.inl h1
      · exact Or.inr ⟨h1, by simpa using h2⟩
    · rintro (h1 | ⟨h1, h2⟩)
      · subst h1; exact ⟨Or.inl rfl, by simp [properSub_irrefl]⟩
      · exact ⟨Or.inr h1, by simp [h2]⟩

/-- common part of the two un-delegation shapes -/
theorem undelegate_core {v : Variant} {cfg : Cfg} {N N1 : Nodes} {D c c1 : List Name} {name : Name}
    (hg : Good cfg ⟨N, D, c⟩) (hN1 : NWF N1) (hag : AgreeOff N N1 name) (hn : LC name)
    (hz : isSubdomain name (apex cfg) = true) (hdel : name ∈ D)
    (hguard : v.fixNested = true ∨ nsBelow N name = false) :
    (updateGlue v ⟨N1, ddel D name, c1⟩ name false).nodes =
      N1.map (fun e => (e.1, if properSub e.1 name then fixedNode N1 name false e.1 e.2 else e.2)) ∧
    DWF (updateGlue v ⟨N1, ddel D name, c1⟩ name false).delegs ∧
    (∀ k nd, LC k → properSub k name = true → nget N k = some nd →
      (fixedNode N1 name false k nd).flags.origin = false ∧
      ((fixedNode N1 name false k nd).flags.glue = true ↔ NSBetween N k name) ∧
      ((fixedNode N1 name false k nd).flags.deleg = true ↔ hasNS nd.rds = true ∧ ¬ NSBetween N k name)) ∧
    (∀ m, LC m → (m ∈ (updateGlue v ⟨N1, ddel D name, c1⟩ name false).delegs ↔
      (m ∈ D ∧ m ≠ name) ∨ (properSub m name = true ∧ NS N m ∧ ¬ NSBetween N m name))) := by
  have hD1 : DWF (ddel D name) := DWF_ddel hg.dwf
  have hug : updateGlue v ⟨N1, ddel D name, c1⟩ name false = updateGlue intended ⟨N1, ddel D name, c1⟩ name false := by
    rcases hguard with h | h
    · exact updateGlue_congr (by rw [h]; rfl) _ _ _
    · apply updateGlue_guarded v hN1 hn false (below_plain1 hg hN1 hn hz hag h)
      intro d hd
      exact (below_plain hg hn hz h).2 d ((mem_ddel hg.dwf.2 hn).mp hd).1
  rw [hug]
  have hflags : ∀ k nd, (fixedNode N1 name false k nd).flags.origin = false ∧
      ((fixedNode N1 name false k nd).flags.glue = true ↔ NSBetween N k name) ∧
      ((fixedNode N1 name false k nd).flags.deleg = true ↔ hasNS nd.rds = true ∧ ¬ NSBetween N k name) := by
    intro k nd
    have := fixedNode_false_flags hN1 (name := name) (k := k) nd
    rw [NSBetween_agree hag] at this
    exact this
  refine ⟨updateGlue_fixed_nodes (v := intended) rfl (ver := ⟨N1, ddel D name, c1⟩) hN1 hn false, ?_, ?_, ?_⟩
  · exact (updateGlue_VerWF (v := intended) (ver := ⟨N1, ddel D name, c1⟩) (name := name) (b := false) ⟨hN1, hD1⟩).delegs
  · intro k nd _ _ _; exact hflags k nd
  · intro m hm
    rw [updateGlue_fixed_delegs_false (v := intended) rfl (ver := ⟨N1, ddel D name, c1⟩) hN1 hD1 hn m]
    simp only
    rw [mem_ddel hg.dwf.2 hn]
    constructor
    · rintro (h | ⟨nd, hmem, hp, hd⟩)
      · exact Or.inl h
      · right
        have hne : m ≠ name := by intro e; rw [e, properSub_irrefl] at hp; exact absurd hp (by decide)
        have hmN : (m, nd) ∈ N := mem_agree hg.wf hN1 hag hmem hne
        obtain ⟨h1, h2⟩ := (hflags m nd).2.2.mp hd
        exact ⟨hp, ⟨nd, mem_nget hg.wf hmN, h1⟩, h2⟩
    · rintro (h | ⟨hp, ⟨nd, hgn, hh⟩, hnb⟩)
      · exact Or.inl h
      · right
        have hne : m ≠ name := by intro e; rw [e, properSub_irrefl] at hp; exact absurd hp (by decide)
        have hmN : (m, nd) ∈ N := nget_some_mem hg.wf.2 hm hgn
        exact ⟨nd, mem_agree' hg.wf hN1 hag hmN hne, hp, (hflags m nd).2.2.mpr ⟨hh, hnb⟩⟩

/-- `name` stops being a delegation point, node kept -/
theorem good_undelegate_keep {v : Variant} {cfg : Cfg} {N N1 : Nodes} {D c c1 c' : List Name} {name : Name} {node3 : Node}
    (hg : Good cfg ⟨N, D, c⟩) (hN1 : NWF N1) (hag : AgreeOff N N1 name) (hn : LC name)
    (hz : isSubdomain name (apex cfg) = true) (hdel : name ∈ D)
    (hguard : v.fixNested = true ∨ nsBelow N name = false)
    (hns : hasNS node3.rds = false) (hrds : RdsOK node3.rds)
    (hfl : node3.flags = { origin := false, deleg := false, glue := false }) :
    Good cfg ⟨nins (updateGlue v ⟨N1, ddel D name, c1⟩ name false).nodes name node3,
      (updateGlue v ⟨N1, ddel D name, c1⟩ name false).delegs, c'⟩ := by
  obtain ⟨hnodes, hdwf, hf, hD⟩ := undelegate_core (v := v) (c1 := c1) hg hN1 hag hn hz hdel hguard
  rw [hnodes]
  have hrw := (rewritten_map_nins hN1 hn (fixedNode N1 name false) (fixedNode_rds N1 name false) node3).of_agree hag
  apply good_rewritten_undelegate hg (NWF_nins (NWF_map _ hN1) hn) hdwf hn hz hrw hdel
  · intro nd e; injection e with e; subst e; exact ⟨hns, hrds, hfl⟩
  · exact hf
  · exact hD

/-- `name` stops being a delegation point, node dropped -/
theorem good_undelegate_drop {v : Variant} {cfg : Cfg} {N N1 : Nodes} {D c c1 c' : List Name} {name : Name}
    (hg : Good cfg ⟨N, D, c⟩) (hN1 : NWF N1) (hag : AgreeOff N N1 name) (hn : LC name)
    (hz : isSubdomain name (apex cfg) = true) (hdel : name ∈ D)
    (hguard : v.fixNested = true ∨ nsBelow N name = false) :
    Good cfg ⟨ndel (updateGlue v ⟨N1, ddel D name, c1⟩ name false).nodes name,
      (updateGlue v ⟨N1, ddel D name, c1⟩ name false).delegs, c'⟩ := by
  obtain ⟨hnodes, hdwf, hf, hD⟩ := undelegate_core (v := v) (c1 := c1) hg hN1 hag hn hz hdel hguard
  rw [hnodes]
  have hrw := (rewritten_map_ndel hN1 hn (fixedNode N1 name false) (fixedNode_rds N1 name false)).of_agree hag
  apply good_rewritten_undelegate hg (NWF_ndel (NWF_map _ hN1)) hdwf hn hz hrw hdel
  · intro nd e; cases e
  · exact hf
  · exact hD

end BTZ
end Model

import Model.Render
/-! Structural facts about the renderer model: every write appends to the buffer and to the compression table,
new table entries point at or beyond the offset where the write started, and what is appended depends on the
buffer only through its length. -/
namespace Model

/-- `Name.to_wire(file, compress)` relative to the offset `off = file.tell()`: the octets appended and the
table entries added. -/
def cLoop (off : Nat) (t : CTable) : Name → Bytes × CTable
  | [] => ([], [])
  | l :: rest =>
    match ctGet t (l :: rest) with
    | some pos => ([(Consts.ptrBase + pos) / 256, (Consts.ptrBase + pos) % 256], [])
    | none =>
      let add : CTable := if (l :: rest).length > 1 ∧ off ≤ Consts.maxPtr then [(l :: rest, off)] else []
      let r := cLoop (off + 1 + l.length) (t ++ add) rest
      (l.length :: l ++ r.1, add ++ r.2)

theorem toWireCLoop_eq (out : Bytes) (t : CTable) (n : Name) :
    toWireCLoop out t n = (out ++ (cLoop out.length t n).1, t ++ (cLoop out.length t n).2) := by
  induction n generalizing out t with
  | nil => simp [toWireCLoop, cLoop]
  | cons l rest ih =>
    unfold toWireCLoop cLoop
    cases hget : ctGet t (l :: rest) with
    | some pos => simp
    | none =>
      simp only
      rw [ih]
      have hlen : (out ++ l.length :: l).length = out.length + 1 + l.length := by simp; omega
      rw [hlen]
      split <;> simp

theorem cLoop_offsets (off : Nat) (t : CTable) (n : Name) : ∀ p ∈ (cLoop off t n).2, off ≤ p.2 := by
  induction n generalizing off t with
  | nil => simp [cLoop]
  | cons l rest ih =>
    unfold cLoop
    cases hget : ctGet t (l :: rest) with
    | some pos => simp
    | none =>
      intro p hp
      simp only at hp
      rcases List.mem_append.mp hp with h | h
      · split at h
        · simp at h; subst h; simp
        · simp at h
      · have := ih _ _ p h; omega

theorem cLoop_offsets_lt (off : Nat) (t : CTable) (n : Name) :
    ∀ p ∈ (cLoop off t n).2, p.2 < off + (cLoop off t n).1.length := by
  induction n generalizing off t with
  | nil => simp [cLoop]
  | cons l rest ih =>
    unfold cLoop
    cases hget : ctGet t (l :: rest) with
    | some pos => simp
    | none =>
      intro p hp
      simp only at hp ⊢
      rcases List.mem_append.mp hp with h | h
      · split at h
        · simp at h; subst h; simp <;> omega
        · simp at h
      · have := ih _ _ p h
        simp at this ⊢; omega

/-- the name actually written by `toWireC`: the name itself, or the name with the origin appended -/
def wireName (n : Name) (origin : Option Name) : Option Name :=
  if isAbs n then some n
  else match origin with
    | some o => if isAbs o then some (n ++ o) else none
    | none => none

theorem toWireC_eq (out : Bytes) (t : CTable) (n : Name) (origin : Option Name) :
    toWireC out t n origin =
      match wireName n origin with
      | some full => .ok (out ++ (cLoop out.length t full).1, t ++ (cLoop out.length t full).2)
      | none => .error .needAbsolute := by
  unfold toWireC wireName
  split
  · simp [toWireCLoop_eq]
  · split
    · split <;> simp [toWireCLoop_eq, *]
    · simp

/-- "appends only": result of a write that started with buffer `out` and table `t` -/
structure Appends (out : Bytes) (t : CTable) (out' : Bytes) (t' : CTable) : Prop where
  ext : ∃ e, out' = out ++ e
  tbl : ∃ new, t' = t ++ new ∧ ∀ p ∈ new, out.length ≤ p.2 ∧ p.2 < out'.length

theorem Appends.refl (out : Bytes) (t : CTable) : Appends out t out t :=
  ⟨⟨[], by simp⟩, ⟨[], by simp⟩⟩

theorem Appends.trans {o0 t0 o1 t1 o2 t2} (a : Appends o0 t0 o1 t1) (b : Appends o1 t1 o2 t2) :
    Appends o0 t0 o2 t2 := by
  obtain ⟨⟨e1, he1⟩, ⟨n1, hn1, hp1⟩⟩ := a
  obtain ⟨⟨e2, he2⟩, ⟨n2, hn2, hp2⟩⟩ := b
  refine ⟨⟨e1 ++ e2, by rw [he2, he1]; simp⟩, ⟨n1 ++ n2, by rw [hn2, hn1]; simp, ?_⟩⟩
  intro p hp
  rcases List.mem_append.mp hp with h | h
  · have := hp1 p h
    rw [he2]; simp; omega
  · have := hp2 p h
    rw [he1] at this; simp at this; omega

theorem Appends.bytes (out : Bytes) (t : CTable) (b : Bytes) : Appends out t (out ++ b) t :=
  ⟨⟨b, rfl⟩, ⟨[], by simp⟩⟩

theorem Appends.len {o0 t0 o1 t1} (a : Appends o0 t0 o1 t1) : o0.length ≤ o1.length := by
  obtain ⟨⟨e, he⟩, _⟩ := a; rw [he]; simp

theorem toWireC_appends {out t n origin o t'} (h : toWireC out t n origin = .ok (o, t')) : Appends out t o t' := by
  rw [toWireC_eq] at h
  split at h
  · simp at h
    obtain ⟨rfl, rfl⟩ := h
    refine ⟨⟨_, rfl⟩, ⟨_, rfl, ?_⟩⟩
    intro p hp
    have h1 := cLoop_offsets _ _ _ p hp
    have h2 := cLoop_offsets_lt _ _ _ p hp
    simp; omega
  · simp at h

theorem rdataToWire_appends {out t origin rd o t'} (h : rdataToWire out t origin rd = .ok (o, t')) :
    Appends out t o t' := by
  cases rd with
  | raw b =>
    simp [rdataToWire] at h; obtain ⟨rfl, rfl⟩ := h; exact Appends.bytes _ _ _
  | name1 n => exact toWireC_appends h
  | mx p n =>
    simp only [rdataToWire] at h
    exact (Appends.bytes out t (u16 p)).trans (toWireC_appends h)
  | soa m r a b c d e =>
    simp only [rdataToWire] at h
    split at h
    · simp at h
    · rename_i o1 t1 h1
      split at h
      · simp at h
      · rename_i o2 t2 h2
        simp at h
        obtain ⟨rfl, rfl⟩ := h
        have a1 := toWireC_appends h1
        have a2 := toWireC_appends h2
        have := (a1.trans a2).trans (Appends.bytes o2 t2 (u32 a ++ u32 b ++ u32 c ++ u32 d ++ u32 e))
        simpa [List.append_assoc] using this

theorem u16_length (n : Nat) : (u16 n).length = 2 := rfl
theorem u32_length (n : Nat) : (u32 n).length = 4 := rfl

/-- the back-patch of RDLENGTH: the two placeholder octets become the length of what follows them -/
theorem patchLen_spec (pre body : Bytes) (o4 : Bytes)
    (h : patchLen (pre ++ [0, 0] ++ body) (pre ++ [0, 0]).length = .ok o4) :
    o4 = pre ++ u16 body.length ++ body ∧ body.length ≤ 65535 := by
  unfold patchLen at h
  have hl : (pre ++ [0, 0] ++ body).length - (pre ++ [0, 0]).length = body.length := by simp; omega
  simp only [hl] at h
  split at h
  · split at h
    · simp at h
    · rename_i hle
      simp at h
      subst h
      have h1 : (pre ++ [0, 0] ++ body).take ((pre ++ [0, 0]).length - 2) = pre := by
        have : (pre ++ [0, 0]).length - 2 = pre.length := by simp
        rw [this]; simp [List.append_assoc]
      have h2 : (pre ++ [0, 0] ++ body).drop (pre ++ [0, 0]).length = body := by simp
      exact ⟨by simp [List.append_assoc], by omega⟩
  · rename_i hz
    have : body.length = 0 := by omega
    have hb : body = [] := List.length_eq_zero_iff.mp this
    simp at h
    subst h
    subst hb
    simp [u16]

/-- one iteration of the record loop appends; in addition the new buffer has the same length as the buffer
before the back-patch -/
theorem rdsLoop_appends (owner : Name) (rdtype rdclass ttl : Nat) (origin : Option Name) (rds : List RData) :
    ∀ (out : Bytes) (t : CTable) (o : Bytes) (t' : CTable),
      rdsLoop owner rdtype rdclass ttl origin out t rds = .ok (o, t') → Appends out t o t' := by
  induction rds with
  | nil => intro out t o t' h; simp [rdsLoop] at h; obtain ⟨rfl, rfl⟩ := h; exact Appends.refl _ _
  | cons rd rest ih =>
    intro out t o t' h
    unfold rdsLoop at h
    split at h
    · simp at h
    · rename_i o1 t1 h1
      simp only at h
      split at h
      · simp at h
      · rename_i o3 t3 h3
        split at h
        · simp at h
        · rename_i o4 h4
          have a1 := toWireC_appends h1
          have a3 := rdataToWire_appends h3
          obtain ⟨⟨body, hbody⟩, ⟨new3, hn3, hp3⟩⟩ := a3
          -- shape of the buffer handed to patchLen
          have hshape : o3 = (o1 ++ u16 rdtype ++ u16 rdclass ++ u32 ttl) ++ [0, 0] ++ body := by
            rw [hbody]
          have hstart : (o1 ++ u16 rdtype ++ u16 rdclass ++ u32 ttl ++ [0, 0]).length
              = ((o1 ++ u16 rdtype ++ u16 rdclass ++ u32 ttl) ++ [0, 0]).length := by simp [List.append_assoc]
          rw [hshape, hstart] at h4
          obtain ⟨ho4, _⟩ := patchLen_spec _ _ _ h4
          have a4 : Appends out t o4 t3 := by
            obtain ⟨⟨e1, he1⟩, ⟨n1, hn1, hp1⟩⟩ := a1
            refine ⟨⟨e1 ++ u16 rdtype ++ u16 rdclass ++ u32 ttl ++ u16 body.length ++ body, ?_⟩,
              ⟨n1 ++ new3, by rw [hn3, hn1]; simp, ?_⟩⟩
            · rw [ho4, he1]; simp [List.append_assoc]
            · intro p hp
              have hl4 : o4.length = o3.length := by
                rw [ho4, hshape]; simp [u16_length]; omega
              have hl3 : o1.length ≤ o3.length := by rw [hshape]; simp
              have hl1 : out.length ≤ o1.length := by rw [he1]; simp
              have hl2 : o1.length ≤ (o1 ++ u16 rdtype ++ u16 rdclass ++ u32 ttl ++ [0, 0]).length := by simp
              rcases List.mem_append.mp hp with hh | hh
              · have := hp1 p hh
                omega
              · have := hp3 p hh
                omega
          exact a4.trans (ih o4 t3 o t' h)

theorem rrsetToWire_appends {out t origin r o t' n} (h : rrsetToWire out t origin r = .ok (o, t', n)) :
    Appends out t o t' := by
  unfold rrsetToWire at h
  simp only at h
  split at h
  · split at h
    · simp at h
    · rename_i o1 t1 h1
      simp at h
      obtain ⟨ho, ht, _⟩ := h
      rw [← ho, ← ht]
      refine (toWireC_appends h1).trans ?_
      exact Appends.bytes _ _ _
  · split at h
    · simp at h
    · rename_i o1 t1 h1
      simp at h
      obtain ⟨rfl, rfl, _⟩ := h
      exact rdsLoop_appends _ _ _ _ _ _ _ _ _ _ h1

/-- number of records written = `max 1 (number of rdatas)` -/
theorem rrsetToWire_count {out t origin r o t' n} (h : rrsetToWire out t origin r = .ok (o, t', n)) :
    n = max 1 r.rdatas.length := by
  unfold rrsetToWire at h
  simp only at h
  split at h
  · rename_i hz
    split at h
    · simp at h
    · simp at h; rw [← h.2.2, hz]; rfl
  · rename_i hz
    split at h
    · simp at h
    · simp at h; rw [← h.2.2]; omega

/-! ### `add_opt`: the guard against a padding no option can carry -/

theorem addOpt_core_of_ok {s : RState} {o : EOpt} {pad a b : Nat} {r : RState}
    (h : stepToExcept (s.addOpt o pad a b) = .ok r) : stepToExcept (s.addOptCore o pad a b) = .ok r := by
  unfold RState.addOpt at h
  split at h
  · simp [stepToExcept] at h
  · exact h

theorem addOpt_core_of_ok' {s : RState} {o : EOpt} {pad a b : Nat} {r : RState}
    (h : s.addOpt o pad a b = .ok r) : s.addOptCore o pad a b = .ok r := by
  unfold RState.addOpt at h
  split at h
  · cases h
  · exact h

theorem addOpt_zero (s : RState) (o : EOpt) (a b : Nat) : s.addOpt o 0 a b = s.addOptCore o 0 a b := by
  simp [RState.addOpt]

end Model

import Proofs.WritersPc
/-!
The transition relation of the writer-admission model, one constructor per program point and branch, each with the
successor state written out.  `step_trans` shows it is exactly `step`; the invariant proofs do `cases` on it.
-/
namespace Model.Writers

@[simp] theorem setLoc_loc (s : State) (t u : Tid) (l : Local) :
    (s.setLoc t l).loc u = if u = t then l else s.loc u := rfl
@[simp] theorem setLoc_lock (s : State) (t : Tid) (l : Local) : (s.setLoc t l).lock = s.lock := rfl
@[simp] theorem setLoc_writeTxn (s : State) (t : Tid) (l : Local) : (s.setLoc t l).writeTxn = s.writeTxn := rfl
@[simp] theorem setLoc_writeEvent (s : State) (t : Tid) (l : Local) : (s.setLoc t l).writeEvent = s.writeEvent := rfl
@[simp] theorem setLoc_waiters (s : State) (t : Tid) (l : Local) : (s.setLoc t l).waiters = s.waiters := rfl
@[simp] theorem setLoc_evSet (s : State) (t : Tid) (l : Local) : (s.setLoc t l).evSet = s.evSet := rfl
@[simp] theorem setLoc_nextEv (s : State) (t : Tid) (l : Local) : (s.setLoc t l).nextEv = s.nextEv := rfl
@[simp] theorem setLoc_versions (s : State) (t : Tid) (l : Local) : (s.setLoc t l).versions = s.versions := rfl
@[simp] theorem setLoc_nodes (s : State) (t : Tid) (l : Local) : (s.setLoc t l).nodes = s.nodes := rfl
@[simp] theorem setLoc_readers (s : State) (t : Tid) (l : Local) : (s.setLoc t l).readers = s.readers := rfl
@[simp] theorem setLoc_arrivals (s : State) (t : Tid) (l : Local) : (s.setLoc t l).arrivals = s.arrivals := rfl
@[simp] theorem setLoc_admitted (s : State) (t : Tid) (l : Local) : (s.setLoc t l).admitted = s.admitted := rfl
@[simp] theorem setLoc_committed (s : State) (t : Tid) (l : Local) : (s.setLoc t l).committed = s.committed := rfl
@[simp] theorem setLoc_ends (s : State) (t : Tid) (l : Local) : (s.setLoc t l).ends = s.ends := rfl
@[simp] theorem setLoc_owner (s : State) (t : Tid) (l : Local) : (s.setLoc t l).owner = s.owner := rfl

inductive Trans (c : Cfg) (s : State) (t : Tid) : State → Prop
  | idleW (b : Bool) : (s.loc t).pc = .idle → c.role t = .writer b →
      Trans c s t (s.setLoc t { s.loc t with pc := .wInit })
  | idleR : (s.loc t).pc = .idle → c.role t = .reader →
      Trans c s t (s.setLoc t { s.loc t with pc := .rdAcq })
  | wInit : (s.loc t).pc = .wInit →
      Trans c s t (s.setLoc t { s.loc t with pc := .wAcq, ev := none })
  | wAcqFirst : (s.loc t).pc = .wAcq → s.lock = none → (s.loc t).ev = none →
      Trans c s t ({ s with lock := some t, arrivals := s.arrivals ++ [t] }.setLoc t { s.loc t with pc := .wTest })
  | wAcqAgain : (s.loc t).pc = .wAcq → s.lock = none → (s.loc t).ev ≠ none →
      Trans c s t ({ s with lock := some t }.setLoc t { s.loc t with pc := .wTest })
  | wTestOk : (s.loc t).pc = .wTest → s.writeTxn = none → (s.loc t).ev = s.writeEvent →
      Trans c s t (s.setLoc t { s.loc t with pc := .wMkTxn })
  | wTestFail : (s.loc t).pc = .wTest → ¬ (s.writeTxn = none ∧ (s.loc t).ev = s.writeEvent) →
      Trans c s t (s.setLoc t { s.loc t with pc := .wNewEv })
  | wMkTxn : (s.loc t).pc = .wMkTxn →
      Trans c s t ({ s with writeTxn := some t, admitted := s.admitted ++ [t] }.setLoc t { s.loc t with pc := .wClrEv })
  | wClrEv : (s.loc t).pc = .wClrEv →
      Trans c s t ({ s with writeEvent := none }.setLoc t { s.loc t with pc := .wRelA })
  | wRelA : (s.loc t).pc = .wRelA →
      Trans c s t ({ s with lock := none }.setLoc t { s.loc t with pc := .wSetupId })
  | wNewEv : (s.loc t).pc = .wNewEv →
      Trans c s t ({ s with nextEv := s.nextEv + 1,
                            owner := fun e => if e = s.nextEv then t else s.owner e }.setLoc t
                    { s.loc t with pc := .wAppend, ev := some s.nextEv })
  | wAppend (e : Ev) : (s.loc t).pc = .wAppend → (s.loc t).ev = some e →
      Trans c s t ({ s with waiters := s.waiters ++ [e] }.setLoc t { s.loc t with pc := .wRelB })
  | wRelB : (s.loc t).pc = .wRelB →
      Trans c s t ({ s with lock := none }.setLoc t { s.loc t with pc := .wWait })
  | wWait (e : Ev) : (s.loc t).pc = .wWait → (s.loc t).ev = some e → e ∈ s.evSet →
      Trans c s t (s.setLoc t { s.loc t with pc := .wAcq })
  | wSetupId : (s.loc t).pc = .wSetupId →
      Trans c s t (s.setLoc t { s.loc t with pc := .wSetupCopy, vid := s.lastId + 1 })
  | wSetupCopy : (s.loc t).pc = .wSetupCopy →
      Trans c s t (s.setLoc t { s.loc t with pc := .wReturn, snap := if c.repl t then [] else s.nodes })
  | wReturn : (s.loc t).pc = .wReturn →
      Trans c s t (s.setLoc t { s.loc t with pc := .wBody })
  | wBodyC : (s.loc t).pc = .wBody → c.role t = .writer true →
      Trans c s t (s.setLoc t { s.loc t with pc := .cAcq, snap := c.body t (s.loc t).snap })
  | wBodyR : (s.loc t).pc = .wBody → c.role t ≠ .writer true →
      Trans c s t (s.setLoc t { s.loc t with pc := .rAcq, snap := c.body t (s.loc t).snap })
  | cAcq : (s.loc t).pc = .cAcq → s.lock = none →
      Trans c s t ({ s with lock := some t }.setLoc t { s.loc t with pc := .cAppend })
  | cAppend : (s.loc t).pc = .cAppend →
      Trans c s t ({ s with versions := s.versions ++ [((s.loc t).vid, (s.loc t).snap)] }.setLoc t
                    { s.loc t with pc := .cPrune })
  | cPrune : (s.loc t).pc = .cPrune → c.pruneFails t = false →
      Trans c s t (s.setLoc t { s.loc t with pc := .cNodes })
  | cPruneFail : (s.loc t).pc = .cPrune → c.pruneFails t = true →
      Trans c s t (s.setLoc t { s.loc t with pc := .cUndo })
  | cUndo : (s.loc t).pc = .cUndo →
      Trans c s t ({ s with versions := s.versions.dropLast }.setLoc t { s.loc t with pc := .eTxnNone })
  | cNodes : (s.loc t).pc = .cNodes →
      Trans c s t ({ s with nodes := (s.loc t).snap, committed := s.committed ++ [t] }.setLoc t
                    { s.loc t with pc := .eTxnNone })
  | rAcq : (s.loc t).pc = .rAcq → s.lock = none →
      Trans c s t ({ s with lock := some t }.setLoc t { s.loc t with pc := .eTxnNone })
  | eTxnNone : (s.loc t).pc = .eTxnNone →
      Trans c s t ({ s with writeTxn := none, ends := s.ends + 1 }.setLoc t { s.loc t with pc := .eTestW })
  | eTestWSome : (s.loc t).pc = .eTestW → s.waiters ≠ [] →
      Trans c s t (s.setLoc t { s.loc t with pc := .ePop })
  | eTestWNone : (s.loc t).pc = .eTestW → s.waiters = [] →
      Trans c s t (s.setLoc t { s.loc t with pc := .eRel })
  | ePop (e : Ev) (rest : List Ev) : (s.loc t).pc = .ePop → s.waiters = e :: rest →
      Trans c s t ({ s with writeEvent := some e, waiters := rest }.setLoc t { s.loc t with pc := .eSet })
  | eSet (e : Ev) : (s.loc t).pc = .eSet → s.writeEvent = some e →
      Trans c s t ({ s with evSet := e :: s.evSet }.setLoc t { s.loc t with pc := .eRel })
  | eRel : (s.loc t).pc = .eRel →
      Trans c s t ({ s with lock := none }.setLoc t { s.loc t with pc := .done })
  | rdAcq : (s.loc t).pc = .rdAcq → s.lock = none →
      Trans c s t ({ s with lock := some t }.setLoc t { s.loc t with pc := .rdPick })
  | rdPick : (s.loc t).pc = .rdPick → c.pick t = .latest →
      Trans c s t (s.setLoc t { s.loc t with pc := .rdAdd, rver := s.lastVersion })
  | rdPickId (k : Nat) (v : Nat × Content) : (s.loc t).pc = .rdPick → c.pick t = .byId k →
      s.versions.find? (fun v => v.1 == k) = some v →
      Trans c s t (s.setLoc t { s.loc t with pc := .rdAdd, rver := v })
  | rdPickMiss : (s.loc t).pc = .rdPick →
      Trans c s t (s.setLoc t { s.loc t with pc := .rdFail })
  | rdFail : (s.loc t).pc = .rdFail →
      Trans c s t ({ s with lock := none }.setLoc t { s.loc t with pc := .done })
  | rdAdd : (s.loc t).pc = .rdAdd →
      Trans c s t ({ s with readers := t :: s.readers }.setLoc t { s.loc t with pc := .rdRel })
  | rdRel : (s.loc t).pc = .rdRel →
      Trans c s t ({ s with lock := none }.setLoc t { s.loc t with pc := .rdRet })
  | rdRet : (s.loc t).pc = .rdRet →
      Trans c s t (s.setLoc t { s.loc t with pc := .rdBody })
  | rdBody : (s.loc t).pc = .rdBody →
      Trans c s t (s.setLoc t { s.loc t with pc := .xAcq, seen := (s.loc t).rver.2 })
  | xAcq : (s.loc t).pc = .xAcq → s.lock = none →
      Trans c s t ({ s with lock := some t }.setLoc t { s.loc t with pc := .xRemove })
  | xRemove : (s.loc t).pc = .xRemove →
      Trans c s t ({ s with readers := s.readers.erase t }.setLoc t { s.loc t with pc := .xPrune })
  | xPrune : (s.loc t).pc = .xPrune →
      Trans c s t (s.setLoc t { s.loc t with pc := .xRel })
  | xRel : (s.loc t).pc = .xRel →
      Trans c s t ({ s with lock := none }.setLoc t { s.loc t with pc := .done })

theorem step_trans {c : Cfg} {s s' : State} {t : Tid} (hs : step c s t = some s') : Trans c s t s' := by
  cases hpc : (s.loc t).pc <;> simp only [step, hpc] at hs
  case idle =>
    split at hs <;> simp only [Option.some.injEq] at hs <;> subst hs
    · exact .idleW _ hpc (by assumption)
    · exact .idleR hpc (by assumption)
  case wInit => simp only [Option.some.injEq] at hs; subst hs; exact .wInit hpc
  case wAcq =>
    split at hs
    · simp only [Option.some.injEq] at hs; subst hs
      by_cases he : (s.loc t).ev = none
      · rw [if_pos he]; exact .wAcqFirst hpc (by assumption) he
      · rw [if_neg he]; exact .wAcqAgain hpc (by assumption) he
    · contradiction
  case wTest =>
    split at hs <;> simp only [Option.some.injEq] at hs <;> subst hs
    · rename_i h; exact .wTestOk hpc h.1 h.2
    · rename_i h; exact .wTestFail hpc h
  case wMkTxn => simp only [Option.some.injEq] at hs; subst hs; exact .wMkTxn hpc
  case wClrEv => simp only [Option.some.injEq] at hs; subst hs; exact .wClrEv hpc
  case wRelA => simp only [Option.some.injEq] at hs; subst hs; exact .wRelA hpc
  case wNewEv => simp only [Option.some.injEq] at hs; subst hs; exact .wNewEv hpc
  case wAppend =>
    split at hs
    · simp only [Option.some.injEq] at hs; subst hs; exact .wAppend _ hpc (by assumption)
    · contradiction
  case wRelB => simp only [Option.some.injEq] at hs; subst hs; exact .wRelB hpc
  case wWait =>
    split at hs
    · split at hs
      · simp only [Option.some.injEq] at hs; subst hs; exact .wWait _ hpc (by assumption) (by assumption)
      · contradiction
    · contradiction
  case wSetupId => simp only [Option.some.injEq] at hs; subst hs; exact .wSetupId hpc
  case wSetupCopy => simp only [Option.some.injEq] at hs; subst hs; exact .wSetupCopy hpc
  case wReturn => simp only [Option.some.injEq] at hs; subst hs; exact .wReturn hpc
  case wBody =>
    split at hs <;> simp only [Option.some.injEq] at hs <;> subst hs
    · exact .wBodyC hpc (by assumption)
    · rename_i h; exact .wBodyR hpc (by intro h'; exact h h')
  case cAcq =>
    split at hs
    · simp only [Option.some.injEq] at hs; subst hs; exact .cAcq hpc (by assumption)
    · contradiction
  case cAppend => simp only [Option.some.injEq] at hs; subst hs; exact .cAppend hpc
  case cPrune =>
    split at hs <;> simp only [Option.some.injEq] at hs <;> subst hs
    · exact .cPruneFail hpc (by assumption)
    · rename_i h; exact .cPrune hpc (by simpa using h)
  case cUndo => simp only [Option.some.injEq] at hs; subst hs; exact .cUndo hpc
  case cNodes => simp only [Option.some.injEq] at hs; subst hs; exact .cNodes hpc
  case rAcq =>
    split at hs
    · simp only [Option.some.injEq] at hs; subst hs; exact .rAcq hpc (by assumption)
    · contradiction
  case eTxnNone => simp only [Option.some.injEq] at hs; subst hs; exact .eTxnNone hpc
  case eTestW =>
    split at hs <;> simp only [Option.some.injEq] at hs <;> subst hs
    · exact .eTestWSome hpc (by assumption)
    · rename_i h; exact .eTestWNone hpc (by simpa using h)
  case ePop =>
    split at hs
    · simp only [Option.some.injEq] at hs; subst hs; exact .ePop _ _ hpc (by assumption)
    · contradiction
  case eSet =>
    split at hs
    · simp only [Option.some.injEq] at hs; subst hs; exact .eSet _ hpc (by assumption)
    · contradiction
  case eRel => simp only [Option.some.injEq] at hs; subst hs; exact .eRel hpc
  case rdAcq =>
    split at hs
    · simp only [Option.some.injEq] at hs; subst hs; exact .rdAcq hpc (by assumption)
    · contradiction
  case rdPick =>
    split at hs
    · simp only [Option.some.injEq] at hs; subst hs; exact .rdPick hpc (by assumption)
    · split at hs
      · simp only [Option.some.injEq] at hs; subst hs; exact .rdPickId _ _ hpc (by assumption) (by assumption)
      · simp only [Option.some.injEq] at hs; subst hs; exact .rdPickMiss hpc
    · simp only [Option.some.injEq] at hs; subst hs; exact .rdPickMiss hpc
  case rdFail => simp only [Option.some.injEq] at hs; subst hs; exact .rdFail hpc
  case rdAdd => simp only [Option.some.injEq] at hs; subst hs; exact .rdAdd hpc
  case rdRel => simp only [Option.some.injEq] at hs; subst hs; exact .rdRel hpc
  case rdRet => simp only [Option.some.injEq] at hs; subst hs; exact .rdRet hpc
  case rdBody => simp only [Option.some.injEq] at hs; subst hs; exact .rdBody hpc
  case xAcq =>
    split at hs
    · simp only [Option.some.injEq] at hs; subst hs; exact .xAcq hpc (by assumption)
    · contradiction
  case xRemove => simp only [Option.some.injEq] at hs; subst hs; exact .xRemove hpc
  case xPrune => simp only [Option.some.injEq] at hs; subst hs; exact .xPrune hpc
  case xRel => simp only [Option.some.injEq] at hs; subst hs; exact .xRel hpc
  case done => contradiction

end Model.Writers

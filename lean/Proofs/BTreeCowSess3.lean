import Proofs.BTreeCowSess2
/-!
Mechanism-level proofs, part 15: `make_immutable`, `BTree(original=…)`, `BTree(t=…)`, and the refinement theorem
for whole sessions.
-/
namespace Model.BTreeCow
open Model.BTree

theorem getElem?_append_singleton {α} (l : List α) (a : α) (j : Nat) (x : α) (h : (l ++ [a])[j]? = some x) :
    (j < l.length ∧ l[j]? = some x) ∨ (j = l.length ∧ x = a) := by
  by_cases hj : j < l.length
  · left
    rw [List.getElem?_append_left hj] at h
    exact ⟨hj, h⟩
  · right
    rw [List.getElem?_append_right (by omega)] at h
    have : j - l.length = 0 := by
      rcases Nat.eq_zero_or_pos (j - l.length) with h0 | h0
      · exact h0
      · rw [List.getElem?_eq_none (by simp; omega)] at h; cases h
    rw [this] at h
    simp at h
    exact ⟨by omega, h.symm⟩

theorem lt_of_getElem?_some {α} {l : List α} {j : Nat} {x : α} (h : l[j]? = some x) : j < l.length := by
  rcases Nat.lt_or_ge j l.length with h1 | h1
  · exact h1
  · rw [List.getElem?_eq_none h1] at h; cases h

/-! ## `make_immutable` -/

theorem step_freeze {s : Sess} (ok : SessOk s) (i : Nat) :
    SessOk (s.step (.freeze i)) ∧ (s.step (.freeze i)).abs = refStep s.abs (.freeze i) := by
  simp only [Sess.step, refStep]
  rw [abs_getElem?]
  cases hi : s.hs[i]? with
  | none => exact ⟨ok, rfl⟩
  | some hd =>
    simp only [Option.map_some]
    have okd := ok.trees hd (List.mem_of_getElem? hi)
    have hilt := lt_of_getElem?_some hi
    constructor
    · refine ⟨?_, ok.cells, ?_, ?_⟩
      · intro x hx
        rcases mem_set_cases hx with rfl | ⟨j, _, hjx⟩
        · exact ⟨okd.t_ok, okd.ca, okd.tok, okd.tree⟩
        · exact ok.trees x (List.mem_of_getElem? hjx)
      · have : (s.hs.set i { hd with immutable := true }).map (·.creator) = s.hs.map (·.creator) := by
          rw [List.map_set]
          apply set_getElem?_self
          rw [List.getElem?_map, hi]; rfl
        rw [this]; exact ok.distinct
      · intro a b ha hb hga hgb hab hma hh hth x hx
        simp only [List.getElem?_set] at hga hgb
        by_cases hai : i = a
        · subst hai
          simp only [hilt, if_true, Option.some.injEq] at hga
          subst hga
          simp at hma
        · simp only [hai, if_false] at hga
          by_cases hbi : i = b
          · subst hbi
            simp only [hilt, if_true, Option.some.injEq] at hgb
            subst hgb
            exact ok.excl a i ha hd hga hi hab hma hh hth x hx
          · simp only [hbi, if_false] at hgb
            exact ok.excl a b ha hb hga hgb hab hma hh hth x hx
    · simp only [Sess.abs, List.map_set]
      rfl

/-! ## `BTree(original=…)` -/

theorem step_clone {s : Sess} (ok : SessOk s) (i : Nat) (io : Bool) :
    SessOk (s.step (.clone i io)) ∧ (s.step (.clone i io)).abs = refStep s.abs (.clone i io) := by
  simp only [Sess.step, refStep]
  rw [abs_getElem?]
  cases hi : s.hs[i]? with
  | none => exact ⟨ok, rfl⟩
  | some hd =>
    simp only [Option.map_some]
    have okd := ok.trees hd (List.mem_of_getElem? hi)
    cases hm : hd.immutable with
    | false =>
      have e1 : cloneTree s.w hd io = none := by simp [cloneTree, hm]
      have e2 : (Handle.toTree s.w hd).clone io = none := by simp [Tree.clone, Handle.toTree, hm]
      rw [e1, e2]
      exact ⟨ok, rfl⟩
    | true =>
      let c' : Handle := { hd with immutable := false, inOrder := io, creator := s.w.nextCreator }
      let w' : World := { s.w with nextCreator := s.w.nextCreator + 1 }
      have e1 : cloneTree s.w hd io = some (w', c') := by simp [cloneTree, hm, w', c']
      have e2 : (Handle.toTree s.w hd).clone io = some (Handle.toTree w' c') := by
        simp [Tree.clone, Handle.toTree, hm, w', c', Handle.abs]
      rw [e1, e2]
      simp only []
      constructor
      · refine ⟨?_, ?_, ?_, ?_⟩
        · intro x hx
          rcases List.mem_append.mp hx with hx | hx
          · have okx := ok.trees x hx
            exact ⟨okx.t_ok, okx.ca, by have := okx.tok; show x.creator < s.w.nextCreator + 1; omega, okx.tree⟩
          · simp at hx; subst hx
            exact ⟨okd.t_ok, okd.ca, by show s.w.nextCreator < s.w.nextCreator + 1; omega, okd.tree⟩
        · intro x hx
          have := ok.cells x hx
          show (rd s.w.heap x).creator < s.w.nextCreator + 1
          omega
        · simp only [List.map_append, List.map_cons, List.map_nil]
          rw [List.nodup_append]
          refine ⟨ok.distinct, by simp, ?_⟩
          intro a ha b hb hab
          simp at hb; subst hb
          obtain ⟨x, hx, rfl⟩ := List.mem_map.mp ha
          have := (ok.trees x hx).tok
          simp only [c'] at hab
          omega
        · intro a b ha hb hga hgb hab hma hh hth x hx
          rcases getElem?_append_singleton _ _ _ _ hga with ⟨_, hga'⟩ | ⟨ha1, ha2⟩
          · rcases getElem?_append_singleton _ _ _ _ hgb with ⟨_, hgb'⟩ | ⟨hb1, hb2⟩
            · exact ok.excl a b ha hb hga' hgb' hab hma hh hth x hx
            · subst hb2
              have hai : a ≠ i := by
                intro e; subst e
                rw [hi] at hga'; simp at hga'; subst hga'
                rw [hm] at hma; cases hma
              exact ok.excl a i ha hd hga' hi hai hma hh hth x hx
          · subst ha2
            have := ok.cells x (reach_lt hth x hx)
            show (rd s.w.heap x).creator ≠ s.w.nextCreator
            omega
      · simp only [Sess.abs, List.map_append, List.map_cons, List.map_nil]
        rfl

/-! ## `BTree(t=…)` -/

theorem step_new {s : Sess} (ok : SessOk s) (t : Nat) (io ca : Bool) (ht : 3 ≤ t) (hca : ca = true) :
    SessOk (s.step (.new t io ca)) ∧ (s.step (.new t io ca)).abs = refStep s.abs (.new t io ca) := by
  simp only [Sess.step, refStep, newTree, alloc]
  let N : Cell := { creator := s.w.nextCreator, leaf := true, elts := [], kids := [] }
  let H' := (alloc s.w.heap N).1
  have so : SameOff [] s.w.heap H' := (SameOff.refl s.w.heap).alloc N
  have hnew : rd H' s.w.heap.size = N := rd_alloc_new _ _
  have hsz : H'.size = s.w.heap.size + 1 := by simp [H']
  -- the old trees are unchanged by the extension of the heap
  have hold : ∀ x ∈ s.hs, ∀ hj, HT s.w.heap hj x.root →
      absN H' hj x.root = absN s.w.heap hj x.root ∧ reach H' hj x.root = reach s.w.heap hj x.root ∧ HT H' hj x.root :=
    fun x _ hj htj => frame_off so htj (by simp)
  show SessOk ⟨⟨H', s.w.nextCreator + 1⟩, s.hs ++ [⟨t, s.w.heap.size, 0, false, io, s.w.nextCreator, ca, false⟩]⟩ ∧ _
  constructor
  · refine ⟨?_, ?_, ?_, ?_⟩
    · intro x hx
      rcases List.mem_append.mp hx with hx | hx
      · have okx := ok.trees x hx
        obtain ⟨hj, t1, t2, t3, t4, t5⟩ := okx.tree
        obtain ⟨a1, a2, a3⟩ := hold x hx hj t1
        exact ⟨okx.t_ok, okx.ca, by have := okx.tok; show x.creator < s.w.nextCreator + 1; omega,
          hj, a3, by rw [a2]; exact t2, by rw [a1]; exact t3, by rw [a1]; exact t4, by rw [a1]; exact t5⟩
      · simp at hx; subst hx
        refine ⟨ht, hca, by show s.w.nextCreator < s.w.nextCreator + 1; omega, 0, ⟨by simp [hsz], by rw [hnew]⟩,
          by simp [reach], ?_, ?_, ?_⟩
        · simp only [absN, hnew, N]
          exact ⟨⟨0, by simp⟩, by simp [Node.elts], by simp⟩
        · simp only [absN, hnew, N]; exact Or.inl rfl
        · simp [absN, hnew, N]
    · intro x hx
      show (rd H' x).creator < s.w.nextCreator + 1
      by_cases hlt : x < s.w.heap.size
      · rw [so.same x hlt (by simp)]; have := ok.cells x hlt; omega
      · have : x = s.w.heap.size := by simp [hsz] at hx; omega
        subst this; rw [hnew]; simp [N]
    · simp only [List.map_append, List.map_cons, List.map_nil]
      rw [List.nodup_append]
      refine ⟨ok.distinct, by simp, ?_⟩
      intro a ha b hb hab
      simp at hb; subst hb
      obtain ⟨x, hx, rfl⟩ := List.mem_map.mp ha
      have := (ok.trees x hx).tok
      omega
    · intro a b ha hb hga hgb hab hma hh hth x hx
      show (rd H' x).creator ≠ ha.creator
      rcases getElem?_append_singleton _ _ _ _ hga with ⟨_, hga'⟩ | ⟨ha1, ha2⟩
      · have hamem := List.mem_of_getElem? hga'
        rcases getElem?_append_singleton _ _ _ _ hgb with ⟨_, hgb'⟩ | ⟨hb1, hb2⟩
        · have hbmem := List.mem_of_getElem? hgb'
          obtain ⟨hj, t1, _, _, _, _⟩ := (ok.trees hb hbmem).tree
          obtain ⟨a1, a2, a3⟩ := hold hb hbmem hj t1
          have := HT_height_unique hth a3
          subst this
          rw [a2] at hx
          rw [so.same x (reach_lt t1 x hx) (by simp)]
          exact ok.excl a b ha hb hga' hgb' hab hma hh t1 x hx
        · subst hb2
          have h0 : hh = 0 := by
            cases hh with
            | zero => rfl
            | succ n =>
              have := hth.2.1
              simp only [] at this
              rw [hnew] at this
              simp [N] at this
          subst h0
          simp only [reach, List.mem_singleton] at hx
          subst hx
          rw [hnew]
          have := (ok.trees ha hamem).tok
          simp only [N]
          omega
      · subst ha2
        simp only []
        by_cases hlt : x < s.w.heap.size
        · rw [so.same x hlt (by simp)]; have := ok.cells x hlt; omega
        · -- the new cell belongs to the new tree only
          exfalso
          rcases getElem?_append_singleton _ _ _ _ hgb with ⟨hbl, hgb'⟩ | ⟨hb1, hb2⟩
          · have hbmem := List.mem_of_getElem? hgb'
            obtain ⟨hj, t1, _, _, _, _⟩ := (ok.trees hb hbmem).tree
            obtain ⟨a1, a2, a3⟩ := hold hb hbmem hj t1
            have := HT_height_unique hth a3
            subst this
            rw [a2] at hx
            exact hlt (reach_lt t1 x hx)
          · omega
  · show Sess.abs ⟨⟨H', s.w.nextCreator + 1⟩, s.hs ++ [⟨t, s.w.heap.size, 0, false, io, s.w.nextCreator, ca, false⟩]⟩ = _
    simp only [Sess.abs, List.map_append, List.map_cons, List.map_nil]
    congr 1
    · apply List.map_congr_left
      intro x hx
      obtain ⟨hj, t1, t2, _, _, _⟩ := (ok.trees x hx).tree
      obtain ⟨a1, a2, a3⟩ := hold x hx hj t1
      simp only [Handle.toTree]
      rw [handle_abs_eq (w := ⟨H', s.w.nextCreator + 1⟩) a3 (by rw [a2]; exact t2), handle_abs_eq t1 t2, a1]
    · have hht : HT H' 0 s.w.heap.size := ⟨by simp [hsz], by rw [hnew]⟩
      simp only [Handle.toTree, Tree.empty]
      rw [handle_abs_eq (w := ⟨H', s.w.nextCreator + 1⟩) (hd := ⟨t, s.w.heap.size, 0, false, io, s.w.nextCreator, ca, false⟩)
        (h := 0) hht (by simp [reach])]
      simp [absN, hnew, N]

/-! ## the refinement theorem -/

/-- One step: the invariant is kept, and the abstraction of the session after the step is the step of the
persistent reference (a list of independent tree values) on the abstraction before. -/
theorem step_refines {s : Sess} (ok : SessOk s) (op : Op) (hop : OpOk op) :
    SessOk (s.step op) ∧ (s.step op).abs = refStep s.abs op := by
  cases op with
  | new t io ca => exact step_new ok t io ca hop.1 hop.2
  | insert i e => exact step_insert ok i e
  | delete i k => exact step_delete ok i k
  | clone i io => exact step_clone ok i io
  | freeze i => exact step_freeze ok i

theorem sessOk_init : SessOk Sess.init := by
  refine ⟨by simp [Sess.init], by simp [Sess.init], by simp [Sess.init], ?_⟩
  intro a b ha hb hga
  simp [Sess.init] at hga

/-- Any interleaving of operations on any number of trees and clones. -/
theorem run_refines (ops : List Op) (hops : ∀ op ∈ ops, OpOk op) {s : Sess} (ok : SessOk s) :
    SessOk (ops.foldl Sess.step s) ∧ (ops.foldl Sess.step s).abs = ops.foldl refStep s.abs := by
  induction ops generalizing s with
  | nil => exact ⟨ok, rfl⟩
  | cons op ops ih =>
    obtain ⟨h1, h2⟩ := step_refines ok op (hops op (by simp))
    have := ih (fun o ho => hops o (by simp [ho])) h1
    simp only [List.foldl_cons]
    rw [← h2]
    exact this

end Model.BTreeCow

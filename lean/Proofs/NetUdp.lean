import Model.Net
/-! Helper lemmas about the `receive_udp` loop of `Model.Net`. -/
namespace Model.Net

instance instDecEqExcept {ε α : Type} [DecidableEq ε] [DecidableEq α] : DecidableEq (Except ε α)
  | .ok a, .ok b => if h : a = b then isTrue (by rw [h]) else isFalse (by intro e; cases e; exact h rfl)
  | .error a, .error b => if h : a = b then isTrue (by rw [h]) else isFalse (by intro e; cases e; exact h rfl)
  | .ok _, .error _ => isFalse (by intro e; cases e)
  | .error _, .ok _ => isFalse (by intro e; cases e)

/-- the datagrams of a script, in order -/
def dgrams : List UEv → List (Addr × Wire)
  | [] => []
  | .dgram s w :: rest => (s, w) :: dgrams rest
  | .block _ :: rest => dgrams rest

/-- Loop invariant of `receive_udp`: whatever it returns is one of the script's datagrams, at the reported
position, it passed the source check and the parser, and (under `ignore_errors` with a query) `is_response`. -/
theorem receiveUdp_ok (coe : Bool) (af : Nat) (dest : Option Addr) (exp : Option Nat) (o : UOpts) (query : Option Msg) :
    ∀ (script : List UEv) (now idx : Nat) (r : URet),
      receiveUdp coe af dest exp o query script now idx = .ok r →
      idx ≤ r.idx ∧ ∃ w, (dgrams script)[r.idx - idx]? = some (r.src, w) ∧
        matchesDestination af r.src dest o.ignoreUnexpected = .ok true ∧
        fromWire w o.ignoreTrailing o.raiseOnTruncation (coe && o.ignoreErrors) = .ok r.msg ∧
        rejects o.ignoreErrors query r.msg = false := by
  intro script
  induction script with
  | nil => intro now idx r h; simp [receiveUdp] at h
  | cons ev rest ih =>
    intro now idx r h
    cases ev with
    | block dt =>
      simp only [receiveUdp] at h
      split at h
      · simp at h
      · rename_i now' _
        obtain ⟨h1, w, h2, h3⟩ := ih now' idx r h
        exact ⟨h1, w, by simpa [dgrams] using h2, h3⟩
    | dgram src w =>
      simp only [receiveUdp] at h
      have skip : ∀ {r}, receiveUdp coe af dest exp o query rest now (idx + 1) = .ok r →
          idx ≤ r.idx ∧ ∃ w', (dgrams (UEv.dgram src w :: rest))[r.idx - idx]? = some (r.src, w') ∧
            matchesDestination af r.src dest o.ignoreUnexpected = .ok true ∧
            fromWire w' o.ignoreTrailing o.raiseOnTruncation (coe && o.ignoreErrors) = .ok r.msg ∧
            rejects o.ignoreErrors query r.msg = false := by
        intro r h
        obtain ⟨h1, w', h2, h3⟩ := ih now (idx + 1) r h
        refine ⟨by omega, w', ?_, h3⟩
        have : r.idx - idx = (r.idx - (idx + 1)) + 1 := by omega
        rw [this]; simpa [dgrams] using h2
      split at h
      · simp at h
      · exact skip h
      · rename_i hm
        split at h
        · split at h
          · exact skip h
          · simp at h
        · split at h
          · exact skip h
          · simp at h
        · split at h
          · exact skip h
          · simp at h
        · rename_i m hf
          split at h
          · exact skip h
          · rename_i hr
            simp only [Except.ok.injEq] at h
            subst h
            refine ⟨Nat.le_refl _, w, by simp [dgrams], hm, hf, by simpa using hr⟩

theorem qmem_iff (n : QEntry) (l : List QEntry) : qmem n l = true ↔ ∃ b ∈ l, QEntry.same n b = true := by
  simp [qmem, List.any_eq_true]

theorem questionsMatch_iff (a b : List QEntry) :
    questionsMatch a b = true ↔ (∀ x ∈ a, ∃ y ∈ b, QEntry.same x y = true) ∧ (∀ y ∈ b, ∃ x ∈ a, QEntry.same y x = true) := by
  simp [questionsMatch, List.all_eq_true, qmem_iff]

theorem isResponse_iff (q r : Msg) :
    isResponse q r = true ↔
      qr r.flags = true ∧ q.id = r.id ∧ opcodeOf q.flags = opcodeOf r.flags ∧
      ((ConstsC18.rcodeNoQuestion.contains (rcodeOf r.flags r.ednsflags) = true ∧ r.question = []) ∨
        opcodeOf q.flags = ConstsC18.opUpdate ∨ questionsMatch q.question r.question = true) := by
  unfold isResponse
  by_cases h1 : qr r.flags = true <;> by_cases h2 : q.id = r.id <;> by_cases h3 : opcodeOf q.flags = opcodeOf r.flags <;>
    simp [h1, h2, h3]

/-- `_addresses_equal` is a comparison of the *binary* forms of the two hosts plus the rest of the tuples. -/
theorem addressesEqual_iff (af : Nat) (a b : Addr) :
    addressesEqual af a b = .ok true ↔
      ∃ n, inetPton af a.host = .ok n ∧ inetPton af b.host = .ok n ∧ a.rest = b.rest := by
  unfold addressesEqual
  cases h1 : inetPton af a.host <;> cases h2 : inetPton af b.host <;> simp
  intro _; exact eq_comm

/-- what a passed source check means -/
def SrcOk (af : Nat) (src dest : Addr) : Prop :=
  (∃ n, inetPton af src.host = .ok n ∧ inetPton af dest.host = .ok n ∧ src.rest = dest.rest) ∨
  (isMulticast dest.host = .ok true ∧ src.rest = dest.rest)

theorem matchesDestination_true (af : Nat) (src dest : Addr) (iu : Bool)
    (h : matchesDestination af src (some dest) iu = .ok true) : SrcOk af src dest := by
  unfold matchesDestination at h
  simp only at h
  split at h
  · simp at h
  · rename_i he; exact Or.inl ((addressesEqual_iff af src dest).1 he)
  · split at h
    · simp at h
    · rename_i mc hmc
      split at h
      · rename_i hc
        simp only [Bool.and_eq_true, beq_iff_eq] at hc
        exact Or.inr ⟨by rw [hmc, hc.1], hc.2⟩
      · split at h <;> simp at h


/-- source check of a foreign datagram: skipped under `ignore_unexpected`, `UnexpectedSource` otherwise -/
theorem matchesDestination_foreign (af : Nat) (src dest : Addr) (iu mc : Bool)
    (h1 : addressesEqual af src dest = .ok false) (h2 : isMulticast dest.host = .ok mc)
    (h3 : (mc && src.rest == dest.rest) = false) :
    matchesDestination af src (some dest) iu = if iu then .ok false else .error .unexpectedSource := by
  unfold matchesDestination
  simp only [h1, h2, h3]
  cases iu <;> simp

/-- the parser accepts exactly a complete message without (unignored) trailing octets and, when asked to
raise on truncation, without TC -/
theorem fromWire_ok_iff (w : Wire) (it rt : Bool) (m : Msg) :
    fromWire w it rt false = .ok m ↔
      ∃ tr, w = .full m tr ∧ (tr = true → it = true) ∧ (tc m.flags && rt) = false := by
  cases w with
  | short => simp [fromWire]
  | broken p fe => cases fe <;> simp [fromWire] <;> split <;> simp
  | full m' tr =>
    cases tr <;> cases it <;> simp [fromWire] <;> (try split) <;> simp_all <;> (intro h; subst h; simp_all)

/-- the head datagram is passed over by `receive_udp` -/
def Skipped (coe : Bool) (af : Nat) (dest : Option Addr) (o : UOpts) (query : Option Msg) (src : Addr) (w : Wire) : Prop :=
  matchesDestination af src dest o.ignoreUnexpected = .ok false ∨
  (matchesDestination af src dest o.ignoreUnexpected = .ok true ∧ o.ignoreErrors = true ∧
    match fromWire w o.ignoreTrailing o.raiseOnTruncation (coe && o.ignoreErrors) with
    | .error (.truncated pm) => rejects true query pm = true
    | .error _ => True
    | .ok m => rejects true query m = true)

theorem receiveUdp_skip (coe : Bool) (af : Nat) (dest : Option Addr) (exp : Option Nat) (o : UOpts) (query : Option Msg)
    (src : Addr) (w : Wire) (rest : List UEv) (now idx : Nat) (h : Skipped coe af dest o query src w) :
    receiveUdp coe af dest exp o query (.dgram src w :: rest) now idx =
      receiveUdp coe af dest exp o query rest now (idx + 1) := by
  rcases h with h | ⟨hm, hie, hp⟩
  · simp [receiveUdp, h]
  · have e : (coe && o.ignoreErrors) = coe := by simp [hie]
    rw [e] at hp
    simp only [receiveUdp, hm, e]
    cases hf : fromWire w o.ignoreTrailing o.raiseOnTruncation coe with
    | error e =>
      cases e with
      | truncated pm => simp only [hf] at hp; simp [hie, hp]
      | formError => simp [hie]
      | other => simp [hie]
    | ok m => simp only [hf] at hp; simp [hie, hp]

/-- a whole prefix of passed-over datagrams (and successful waits are not needed: datagrams only) -/
theorem receiveUdp_skip_prefix (coe : Bool) (af : Nat) (dest : Option Addr) (exp : Option Nat) (o : UOpts) (query : Option Msg)
    (pre : List (Addr × Wire)) (rest : List UEv) (now idx : Nat)
    (h : ∀ p ∈ pre, Skipped coe af dest o query p.1 p.2) :
    receiveUdp coe af dest exp o query (pre.map (fun p => UEv.dgram p.1 p.2) ++ rest) now idx =
      receiveUdp coe af dest exp o query rest now (idx + pre.length) := by
  induction pre generalizing idx with
  | nil => simp
  | cons p ps ih =>
    simp only [List.map_cons, List.cons_append, List.length_cons]
    rw [receiveUdp_skip coe af dest exp o query p.1 p.2 _ now idx (h p (by simp))]
    rw [ih (idx + 1) (fun q hq => h q (by simp [hq]))]
    congr 1; omega

end Model.Net

import Model.Net
/-! Helper lemmas about the `receive_udp` loop of `Model.Net`. -/
namespace Model.Net

instance instDecEqExcept {ε α : Type} [DecidableEq ε] [DecidableEq α] : DecidableEq (Except ε α)
  | .ok a, .ok b => if h : a = b then isTrue (by rw [h]) else isFalse (by intro e; cases e; exact h rfl)
  | .error a, .error b => if h : a = b then isTrue (by rw [h]) else isFalse (by intro e; cases e; exact h rfl)
  | .ok _, .error _ => isFalse (by intro e; cases e)
  | .error _, .ok _ => isFalse (by intro e; cases e)

/-- the datagrams of a script, in order -/
def dgrams : List UEv → List (Addr × Wire)
  | [] => []
  | .dgram s w :: rest => (s, w) :: dgrams rest
  | .block _ :: rest => dgrams rest

theorem qmem_iff (n : QEntry) (l : List QEntry) : qmem n l = true ↔ ∃ b ∈ l, QEntry.same n b = true := by
  simp [qmem, List.any_eq_true]

theorem questionsMatch_iff (a b : List QEntry) :
    questionsMatch a b = true ↔ (∀ x ∈ a, ∃ y ∈ b, QEntry.same x y = true) ∧ (∀ y ∈ b, ∃ x ∈ a, QEntry.same y x = true) := by
  simp [questionsMatch, List.all_eq_true, qmem_iff]

theorem isResponse_iff (q r : Msg) :
    isResponse q r = true ↔
      qr r.flags = true ∧ q.id = r.id ∧ opcodeOf q.flags = opcodeOf r.flags ∧
      ((ConstsC18.rcodeNoQuestion.contains (rcodeOf r.flags r.ednsflags) = true ∧ r.question = []) ∨
        opcodeOf q.flags = ConstsC18.opUpdate ∨ questionsMatch q.question r.question = true) := by
  unfold isResponse
  by_cases h1 : qr r.flags = true <;> by_cases h2 : q.id = r.id <;> by_cases h3 : opcodeOf q.flags = opcodeOf r.flags <;>
    simp [h1, h2, h3]

/-- `_addresses_equal` is a comparison of the *binary* forms of the two hosts plus the rest of the tuples. -/
theorem addressesEqual_iff (af : Nat) (a b : Addr) :
    addressesEqual af a b = .ok true ↔
      ∃ n, inetPton af a.host = .ok n ∧ inetPton af b.host = .ok n ∧ a.rest = b.rest := by
  unfold addressesEqual
  cases h1 : inetPton af a.host <;> cases h2 : inetPton af b.host <;> simp
  intro _; exact eq_comm

/-- what a passed source check means -/
def SrcOk (af : Nat) (src dest : Addr) : Prop :=
  (∃ n, inetPton af src.host = .ok n ∧ inetPton af dest.host = .ok n ∧ src.rest = dest.rest) ∨
  (isMulticast dest.host = .ok true ∧ src.rest = dest.rest)

theorem matchesDestination_true (af : Nat) (src dest : Addr) (iu : Bool)
    (h : matchesDestination af src (some dest) iu = .ok true) : SrcOk af src dest := by
  unfold matchesDestination at h
  simp only at h
  split at h
  · simp at h
  · rename_i he; exact Or.inl ((addressesEqual_iff af src dest).1 he)
  · split at h
    · simp at h
    · rename_i mc hmc
      split at h
      · rename_i hc
        simp only [Bool.and_eq_true, beq_iff_eq] at hc
        exact Or.inr ⟨by rw [hmc, hc.1], hc.2⟩
      · split at h <;> simp at h


/-- source check of a foreign datagram: skipped under `ignore_unexpected`, `UnexpectedSource` otherwise -/
theorem matchesDestination_foreign (af : Nat) (src dest : Addr) (iu mc : Bool)
    (h1 : addressesEqual af src dest = .ok false) (h2 : isMulticast dest.host = .ok mc)
    (h3 : (mc && src.rest == dest.rest) = false) :
    matchesDestination af src (some dest) iu = if iu then .ok false else .error .unexpectedSource := by
  unfold matchesDestination
  simp only [h1, h2, h3]
  cases iu <;> simp

theorem matchesDestination_none (af : Nat) (src : Addr) (iu : Bool) :
    matchesDestination af src none iu = .ok true := rfl

/-- the parser accepts exactly: at least a header, whose first two 16-bit fields are the id and the flags; a
question section that can be read to its end from the octets (it is the message's question); every later record
parsed; no (unignored) trailing octets and, when asked to raise on truncation, no TC -/
theorem fromWire_ok_iff (w : Wire) (it rt : Bool) (m : Msg) :
    fromWire w it rt false = .ok m ↔
      header w.octets = some (m.id, m.flags) ∧ (questionSection w.octets m.flags).2.isSome = true ∧
      m.question = (questionSection w.octets m.flags).1 ∧ m.ednsflags = w.body.ednsflags ∧
      w.body.broken = none ∧ (w.body.trailing = true → it = true) ∧ (tc m.flags && rt) = false := by
  unfold fromWire
  cases hh : header w.octets with
  | none => simp
  | some p =>
    obtain ⟨i, f⟩ := p
    obtain ⟨mi, mf, me, mq⟩ := m
    simp only [Option.some.injEq, Prod.mk.injEq]
    cases hq : (questionSection w.octets f).2.isSome
    · simp
      split <;> simp <;> (intro h1 h2; subst h1; subst h2; simp [hq])
    · simp only [if_true]
      cases hb : w.body.broken with
      | some fe =>
        cases fe <;> simp <;> (try split) <;> simp
      | none =>
        cases ht : w.body.trailing <;> cases it <;> simp <;> (try split) <;> simp_all <;> grind

/-- when the parser raises `Truncated`, the message it carries has the id / flags of the header octets, TC set,
and the question section as far as it could be read from the octets -/
theorem fromWire_truncated (w : Wire) (it rt coe : Bool) (pm : Msg)
    (h : fromWire w it rt coe = .error (.truncated pm)) :
    header w.octets = some (pm.id, pm.flags) ∧ tc pm.flags = true ∧ rt = true ∧
      pm.question = (questionSection w.octets pm.flags).1 := by
  unfold fromWire at h
  cases hh : header w.octets with
  | none => simp [hh] at h
  | some p =>
    obtain ⟨i, f⟩ := p
    simp only [hh] at h
    obtain ⟨mi, mf, me, mq⟩ := pm
    split at h <;> (repeat' split at h) <;> simp_all <;> grind

theorem judge_accept_iff (coe : Bool) (af : Nat) (dest : Option Addr) (o : UOpts) (query : Option Msg) (src : Addr) (w : Wire) (m : Msg) :
    judge coe af dest o query src w = .accept m ↔
      matchesDestination af src dest o.ignoreUnexpected = .ok true ∧
      fromWire w o.ignoreTrailing o.raiseOnTruncation (coe && o.ignoreErrors) = .ok m ∧
      rejects o.ignoreErrors query m = false := by
  unfold judge
  cases hm : matchesDestination af src dest o.ignoreUnexpected with
  | error e => simp
  | ok b =>
    cases b
    · simp
    · cases hf : fromWire w o.ignoreTrailing o.raiseOnTruncation (coe && o.ignoreErrors) with
      | error e => cases e <;> simp <;> split <;> simp
      | ok r =>
        simp only [true_and, Except.ok.injEq]
        cases hr : rejects o.ignoreErrors query r
        · simp; intro h; subst h; exact hr
        · simp; intro h; subst h; simp [hr]

/-- the datagram is passed over by `receive_udp` -/
def Skipped (coe : Bool) (af : Nat) (dest : Option Addr) (o : UOpts) (query : Option Msg) (src : Addr) (w : Wire) : Prop :=
  judge coe af dest o query src w = .skip

/-- … which happens exactly for a foreign source under `ignore_unexpected` (the source check answers `False`
only then), or, under `ignore_errors`, for a datagram from the right place that does not parse, or parses (or
is truncated) to something that is not a response to the query -/
theorem skipped_iff (coe : Bool) (af : Nat) (dest : Option Addr) (o : UOpts) (query : Option Msg) (src : Addr) (w : Wire) :
    Skipped coe af dest o query src w ↔
      matchesDestination af src dest o.ignoreUnexpected = .ok false ∨
      (matchesDestination af src dest o.ignoreUnexpected = .ok true ∧ o.ignoreErrors = true ∧
        match fromWire w o.ignoreTrailing o.raiseOnTruncation (coe && o.ignoreErrors) with
        | .error (.truncated pm) => rejects true query pm = true
        | .error _ => True
        | .ok m => rejects true query m = true) := by
  unfold Skipped judge
  cases hm : matchesDestination af src dest o.ignoreUnexpected with
  | error e => simp
  | ok b =>
    cases b
    · simp
    · cases hie : o.ignoreErrors <;>
        cases hf : fromWire w o.ignoreTrailing o.raiseOnTruncation (coe && o.ignoreErrors) with
        | error e => cases e <;> simp_all [rejects]
        | ok r => simp_all [rejects]

/-- Loop invariant of `receive_udp`: whatever it returns is one of the script's datagrams, at the reported
position, and that datagram was accepted by `judge`. -/
theorem receiveUdp_ok (coe : Bool) (af : Nat) (dest : Option Addr) (exp : Option Nat) (o : UOpts) (query : Option Msg) :
    ∀ (script : List UEv) (now idx : Nat) (r : URet),
      receiveUdp coe af dest exp o query script now idx = .ok r →
      idx ≤ r.idx ∧ ∃ w, (dgrams script)[r.idx - idx]? = some (r.src, w) ∧
        judge coe af dest o query r.src w = .accept r.msg := by
  intro script
  induction script with
  | nil => intro now idx r h; simp [receiveUdp] at h
  | cons ev rest ih =>
    intro now idx r h
    cases ev with
    | block dt =>
      simp only [receiveUdp] at h
      split at h
      · simp at h
      · rename_i now' _
        obtain ⟨h1, w, h2, h3⟩ := ih now' idx r h
        exact ⟨h1, w, by simpa [dgrams] using h2, h3⟩
    | dgram src w =>
      simp only [receiveUdp] at h
      split at h
      · simp at h
      · obtain ⟨h1, w', h2, h3⟩ := ih now (idx + 1) r h
        refine ⟨by omega, w', ?_, h3⟩
        have : r.idx - idx = (r.idx - (idx + 1)) + 1 := by omega
        rw [this]; simpa [dgrams] using h2
      · rename_i m hj
        simp only [Except.ok.injEq] at h
        subst h
        exact ⟨Nat.le_refl _, w, by simp [dgrams], hj⟩

theorem receiveUdp_skip (coe : Bool) (af : Nat) (dest : Option Addr) (exp : Option Nat) (o : UOpts) (query : Option Msg)
    (src : Addr) (w : Wire) (rest : List UEv) (now idx : Nat) (h : Skipped coe af dest o query src w) :
    receiveUdp coe af dest exp o query (.dgram src w :: rest) now idx =
      receiveUdp coe af dest exp o query rest now (idx + 1) := by
  unfold Skipped at h
  simp [receiveUdp, h]

theorem receiveUdp_skip_prefix (coe : Bool) (af : Nat) (dest : Option Addr) (exp : Option Nat) (o : UOpts) (query : Option Msg)
    (pre : List (Addr × Wire)) (rest : List UEv) (now idx : Nat)
    (h : ∀ p ∈ pre, Skipped coe af dest o query p.1 p.2) :
    receiveUdp coe af dest exp o query (pre.map (fun p => UEv.dgram p.1 p.2) ++ rest) now idx =
      receiveUdp coe af dest exp o query rest now (idx + pre.length) := by
  induction pre generalizing idx with
  | nil => simp
  | cons p ps ih =>
    simp only [List.map_cons, List.cons_append, List.length_cons]
    rw [receiveUdp_skip coe af dest exp o query p.1 p.2 _ now idx (h p (by simp))]
    rw [ih (idx + 1) (fun q hq => h q (by simp [hq]))]
    congr 1; omega

/-! ### `dns.asyncquery`: the budgeted backend calls compute the same thing -/

theorem waitB_timeoutOf (exp : Option Nat) (now dt : Nat) :
    waitB (timeoutOf exp now) now dt =
      match waitFor exp now dt with
      | .ok n => .ok (timeoutOf exp n, n)
      | .error e => .error e := by
  cases exp with
  | none => simp [waitB, timeoutOf, waitFor]
  | some e =>
    simp only [waitB, timeoutOf, waitFor, Option.map_some]
    by_cases h1 : e ≤ now
    · have : e - now ≤ dt := by omega
      simp [h1]
    · by_cases h2 : dt < e - now
      · have : ¬ (e - now ≤ dt) := by omega
        simp [h1, h2, this]; omega
      · have : e - now ≤ dt := by omega
        simp [h1, h2, this]

theorem waitB_error (budget : Option Nat) (now dt : Nat) (e : Err) (h : waitB budget now dt = .error e) : e = .timeout := by
  cases budget with
  | none => simp [waitB] at h
  | some b => simp only [waitB] at h; split at h <;> simp at h; exact h.symm

theorem waitFor_error' (exp : Option Nat) (now dt : Nat) (e : Err) (h : waitFor exp now dt = .error e) : e = .timeout := by
  cases exp with
  | none => simp [waitFor] at h
  | some d =>
    simp only [waitFor] at h
    split at h
    · simp at h; exact h.symm
    · split at h <;> simp at h; exact h.symm

theorem giveUp_timeoutOf (exp : Option Nat) (now : Nat) :
    giveUpB (timeoutOf exp now) now = giveUpClock exp now := by
  cases exp with
  | none => rfl
  | some e =>
    show now + (e - now) = if e ≤ now then now else e
    split <;> omega

theorem starvedB_timeoutOf (exp : Option Nat) (now : Nat) : starvedB (timeoutOf exp now) = starved exp := by
  cases exp <;> rfl

/-- `dns.asyncquery.receive_udp` over a backend that spends a per-call timeout computes exactly what
`dns.query.receive_udp` computes with `_wait_for` and an absolute deadline. -/
theorem receiveUdpA_eq (coe : Bool) (af : Nat) (dest : Option Addr) (exp : Option Nat) (o : UOpts) (query : Option Msg) :
    ∀ (script : List UEv) (now idx : Nat),
      receiveUdpA coe af dest exp o query script (timeoutOf exp now) now idx =
        receiveUdp coe af dest exp o query script now idx := by
  intro script
  induction script with
  | nil => intro now idx; simp [receiveUdpA, receiveUdp, starvedB_timeoutOf, giveUp_timeoutOf]
  | cons ev rest ih =>
    intro now idx
    cases ev with
    | block dt =>
      simp only [receiveUdpA, receiveUdp, waitB_timeoutOf, giveUp_timeoutOf]
      cases hw : waitFor exp now dt with
      | error e => simp
      | ok n => simp [ih]
    | dgram src w =>
      simp only [receiveUdpA, receiveUdp]
      cases judge coe af dest o query src w <;> simp [ih]

theorem sendB_eq (exp : Option Nat) : ∀ (blocks : List Nat) (now : Nat),
    sendB blocks (timeoutOf exp now) now = udpSend exp blocks now := by
  intro blocks
  induction blocks with
  | nil => intro now; rfl
  | cons dt rest ih =>
    intro now
    simp only [sendB, udpSend, waitB_timeoutOf, giveUp_timeoutOf]
    cases hw : waitFor exp now dt with
    | error e => simp
    | ok n => simp [ih]

/-- `dns.asyncquery.udp` = `dns.query.udp`, as functions of the script -/
theorem udpA_eq (coe : Bool) (q : Msg) (af : Nat) (dest : Addr) (timeout : Option Nat) (o : UOpts)
    (blocks : List Nat) (script : List UEv) (now : Nat) :
    udpA coe q af dest timeout o blocks script now = udp coe q af dest timeout o blocks script now := by
  unfold udpA udp
  simp only [sendB_eq, receiveUdpA_eq]

end Model.Net

import Model.ZoneFile
import Proofs.ZoneFileCodecs
/-!
The A codec without side conditions: for every four octets, the dotted quad `inet_ntoa` prints is one token that
`inet_aton` maps back to the same octets.
-/
namespace Model

theorem decAux_head_nonzero (f n : Nat) (acc : List Nat) (h1 : 1 ≤ n) (h2 : n < 10 ^ f) :
    ∃ d t, decAux f n acc = d :: t ∧ d ≠ 48 ∧ isDecimal d = true := by
  induction f generalizing n acc with
  | zero => simp at h2; omega
  | succ f ih =>
    unfold decAux
    by_cases h : n < 10
    · exact ⟨48 + n, acc, by simp [h], by omega, by simp [isDecimal]; omega⟩
    · simp only [h, if_false]
      have : n / 10 < 10 ^ f := by
        have : n < 10 ^ f * 10 := by simpa [Nat.pow_succ] using h2
        omega
      exact ih (n / 10) _ (by omega) this

theorem natToDec_no_leading_zero (n : Nat) : ¬ ((natToDec n).length > 1 ∧ (natToDec n).head? = some 48) := by
  intro ⟨hl, hh⟩
  by_cases h0 : n = 0
  · subst h0; simp [natToDec, decAux] at hl
  · obtain ⟨d, t, e, hd, _⟩ := decAux_head_nonzero (n + 1) n [] (by omega)
      (Nat.lt_of_lt_of_le (Nat.lt_pow_self (by decide : 1 < 10)) (Nat.pow_le_pow_right (by decide) (Nat.le_succ n)))
    unfold natToDec at hh
    rw [e] at hh
    simp at hh
    exact hd hh

theorem splitOn_no_sep (l : List Nat) (h : 46 ∉ l) : splitOn 46 l = [l] := by
  induction l with
  | nil => rfl
  | cons c r ih =>
    have hc : c ≠ 46 := fun e => h (by simp [e])
    simp [splitOn, ih (fun e => h (by simp [e])), hc]

theorem splitOn_sep (l rest : List Nat) (h : 46 ∉ l) : splitOn 46 (l ++ 46 :: rest) = l :: splitOn 46 rest := by
  induction l with
  | nil =>
    simp only [List.nil_append, splitOn]
    cases hs : splitOn 46 rest with
    | nil => 
      exfalso
      cases rest with
      | nil => simp [splitOn] at hs
      | cons a b =>
        simp only [splitOn] at hs
        split at hs
        · cases hs
        · split at hs <;> cases hs
    | cons p ps => simp
  | cons c r ih =>
    have hc : c ≠ 46 := fun e => h (by simp [e])
    simp only [List.cons_append, splitOn, ih (fun e => h (by simp [e])), hc, if_false]

theorem natToDec_no_dot (n : Nat) : 46 ∉ natToDec n := by
  intro hm
  have := (List.all_eq_true.mp (natToDec_all n)) 46 hm
  simp [isDecimal] at this

/-- the dotted quad of four octets -/
def quadText (a b c d : Nat) : List Nat :=
  natToDec a ++ (46 :: (natToDec b ++ (46 :: (natToDec c ++ (46 :: natToDec d)))))

theorem inetNtoa_quad (a b c d : Nat) : inetNtoa [a, b, c, d] = quadText a b c d := by
  simp [inetNtoa, joinWith, quadText, List.append_assoc]

theorem quad_chars (a b c d : Nat) : ∀ x ∈ quadText a b c d, isDecimal x = true ∨ x = 46 := by
  intro x hx
  simp only [quadText, List.mem_append, List.mem_cons] at hx
  have hdec : ∀ n, x ∈ natToDec n → isDecimal x = true := fun n h => (List.all_eq_true.mp (natToDec_all n)) x h
  rcases hx with h | h | h | h | h | h | h
  · exact Or.inl (hdec a h)
  · exact Or.inr h
  · exact Or.inl (hdec b h)
  · exact Or.inr h
  · exact Or.inl (hdec c h)
  · exact Or.inr h
  · exact Or.inl (hdec d h)

theorem inetAton_quad (a b c d : Nat) (ha : a < 256) (hb : b < 256) (hc : c < 256) (hd : d < 256) :
    inetAton (quadText a b c d) = some [a, b, c, d] := by
  have hsplit : splitOn 46 (quadText a b c d) = [natToDec a, natToDec b, natToDec c, natToDec d] := by
    unfold quadText
    rw [splitOn_sep _ _ (natToDec_no_dot a), splitOn_sep _ _ (natToDec_no_dot b), splitOn_sep _ _ (natToDec_no_dot c),
      splitOn_no_sep _ (natToDec_no_dot d)]
  unfold inetAton
  simp only [hsplit]
  have hpart : ∀ n, (natToDec n = [] ∨ (!(natToDec n).all isDecimal) = true ∨
      ((natToDec n).length > 1 ∧ (natToDec n).head? = some 48)) = False := by
    intro n
    simp only [natToDec_ne_nil, natToDec_all, Bool.not_true, Bool.false_eq_true, false_or, eq_iff_iff, iff_false]
    exact natToDec_no_leading_zero n
  have h1 : ¬ ((255 : Nat) < a) := by omega
  have h2 : ¬ ((255 : Nat) < b) := by omega
  have h3 : ¬ ((255 : Nat) < c) := by omega
  have h4 : ¬ ((255 : Nat) < d) := by omega
  simp [digitsVal_natToDec, h1, h2, h3, h4]
  have part : ∀ n, ¬ natToDec n = [] ∧ (∀ x ∈ natToDec n, isDecimal x = true) ∧
      (1 < (natToDec n).length → ¬ (natToDec n).head? = some 48) := fun n =>
    ⟨natToDec_ne_nil n, fun x hx => (List.all_eq_true.mp (natToDec_all n)) x hx,
      fun hl hh => natToDec_no_leading_zero n ⟨hl, hh⟩⟩
  exact ⟨part a, part b, part c, part d⟩

theorem quad_token (a b c d : Nat) :
    identOK (quadText a b c d) = true ∧ quadText a b c d ≠ [] ∧ quadText a b c d ≠ [92, 35] ∧
    hasEsc (quadText a b c d) = false ∧ (quadText a b c d).flatMap utf8 = quadText a b c d := by
  have hch := quad_chars a b c d
  have hid : ∀ w : List Nat, (∀ x ∈ w, isDecimal x = true ∨ x = 46) → identOK w = true := by
    intro w
    induction w with
    | nil => intro _; rfl
    | cons x r ih =>
      intro h
      have hx := h x (by simp)
      have h92 : x ≠ 92 := by
        rcases hx with hx | hx
        · simp [isDecimal] at hx; omega
        · omega
      have hdl : isDelim false x = false := by
        rcases hx with hx | hx
        · simp [isDecimal] at hx; simp [isDelim, delimiters]; omega
        · subst hx; decide
      rw [identOK_plain x r h92, hdl, ih (fun y hy => h y (by simp [hy]))]
      rfl
  have hne : quadText a b c d ≠ [] := by
    unfold quadText
    intro h
    exact natToDec_ne_nil a (List.append_eq_nil_iff.mp h).1
  refine ⟨hid _ hch, hne, ?_, ?_, ?_⟩
  · intro h
    have := hch 92 (by rw [h]; simp)
    simp [isDecimal] at this
  · simp only [hasEsc, List.contains_eq_mem, decide_eq_false_iff_not]
    intro hm
    have := hch 92 hm
    simp [isDecimal] at this
  · have : ∀ w : List Nat, (∀ x ∈ w, isDecimal x = true ∨ x = 46) → w.flatMap utf8 = w := by
      intro w
      induction w with
      | nil => intro _; rfl
      | cons x r ih =>
        intro h
        have hx := h x (by simp)
        have hlt : x < 128 := by
          rcases hx with hx | hx
          · simp [isDecimal] at hx; omega
          · omega
        simp [List.flatMap_cons, utf8, hlt, ih (fun y hy => h y (by simp [hy]))]
    exact this _ hch

/-- **A, for every address**: what the writer prints for `a.b.c.d` is read back as `a.b.c.d` -/
theorem rdataReads_A_all (b : List Nat) (o1 o2 o3 o4 : Nat) (h1 : o1 < 256) (h2 : o2 < 256) (h3 : o3 < 256) (h4 : o4 < 256)
    (kc : Option (List Nat)) (co : Option Name) (rel : Bool) (zo : Option Name) (gfix : Bool)
    (hb : Blank b) (hbn : b ≠ []) (hkc : ∀ t ∈ kc, 10 ∉ t) :
    RdataReads tA (b ++ (inetNtoa [o1, o2, o3, o4] ++ lineEnd kc)) (.a [o1, o2, o3, o4]) kc co rel zo gfix := by
  rw [inetNtoa_quad]
  obtain ⟨t1, t2, t3, t4, t5⟩ := quad_token o1 o2 o3 o4
  exact rdataReads_A_gen b _ _ kc co rel zo gfix hb hbn hkc t1 t2 t3 t4 (by rw [t5]; exact inetAton_quad o1 o2 o3 o4 h1 h2 h3 h4)

end Model

import Proofs.RdataTextBitmap
/-! The model's base32hex codec (NSEC3 `next`): decoding the encoded form gives the octets back (C05). -/
namespace Model

theorem b32Val_b32Char (v : Nat) (h : v < 32) : b32Val (b32Char v) = some v := by
  unfold b32Char
  by_cases h10 : v < 10
  · simp only [h10, if_true]; unfold b32Val
    have a : ¬ (97 ≤ 48 + v ∧ 48 + v ≤ 122) := by omega
    have b : 48 ≤ 48 + v ∧ 48 + v ≤ 57 := by omega
    simp only [a, if_false, b, and_self, if_true]; congr 1; omega
  · simp only [h10, if_false]; unfold b32Val
    have a : 97 ≤ 87 + v ∧ 87 + v ≤ 122 := by omega
    have b : ¬ (48 ≤ 87 + v - 32 ∧ 87 + v - 32 ≤ 57) := by omega
    have c : 65 ≤ 87 + v - 32 ∧ 87 + v - 32 ≤ 86 := by omega
    simp only [a, and_self, if_true, b, if_false, c]; congr 1; omega

theorem b32Acc_cons (v : Nat) (h : v < 32) (cs : List Nat) (acc : Nat) :
    b32Acc (b32Char v :: cs) acc = b32Acc cs (acc * 32 + v) := by
  simp [b32Acc, b32Val_b32Char v h]

theorem quantum5 (a b c d e : Nat) (ha : a < 256) (hb : b < 256) (hc : c < 256) (hd : d < 256) (he : e < 256) :
    be5 ((((((((0 * 32 + a / 8) * 32 + (a % 8 * 4 + b / 64)) * 32 + b / 2 % 32) * 32 + (b % 2 * 16 + c / 16)) * 32 +
      (c % 16 * 2 + d / 128)) * 32 + d / 4 % 32) * 32 + (d % 4 * 8 + e / 32)) * 32 + e % 32) = [a, b, c, d, e] := by
  unfold be5
  simp only [List.cons.injEq, and_true]
  refine ⟨?_, ?_, ?_, ?_, ?_⟩ <;> omega

theorem partial1 (a : Nat) (ha : a < 256) :
    (be5 (((0 * 32 + a / 8) * 32 + a % 8 * 4) * 32 ^ (8 - 2))).take ((43 - 5 * (8 - 2)) / 8) = [a] := by
  unfold be5
  simp only [show (32 : Nat) ^ (8 - 2) = 1073741824 by decide, show (43 - 5 * (8 - 2)) / 8 = 1 by decide, List.take]
  simp only [List.cons.injEq, and_true]
  omega

theorem partial2 (a b : Nat) (ha : a < 256) (hb : b < 256) :
    (be5 (((((0 * 32 + a / 8) * 32 + (a % 8 * 4 + b / 64)) * 32 + b / 2 % 32) * 32 + b % 2 * 16) * 32 ^ (8 - 4))).take
      ((43 - 5 * (8 - 4)) / 8) = [a, b] := by
  unfold be5
  simp only [show (32 : Nat) ^ (8 - 4) = 1048576 by decide, show (43 - 5 * (8 - 4)) / 8 = 2 by decide, List.take]
  simp only [List.cons.injEq, and_true]
  refine ⟨?_, ?_⟩ <;> omega

theorem partial3 (a b c : Nat) (ha : a < 256) (hb : b < 256) (hc : c < 256) :
    (be5 ((((((0 * 32 + a / 8) * 32 + (a % 8 * 4 + b / 64)) * 32 + b / 2 % 32) * 32 + (b % 2 * 16 + c / 16)) * 32 +
      c % 16 * 2) * 32 ^ (8 - 5))).take ((43 - 5 * (8 - 5)) / 8) = [a, b, c] := by
  unfold be5
  simp only [show (32 : Nat) ^ (8 - 5) = 32768 by decide, show (43 - 5 * (8 - 5)) / 8 = 3 by decide, List.take]
  simp only [List.cons.injEq, and_true]
  refine ⟨?_, ?_, ?_⟩ <;> omega

theorem partial4 (a b c d : Nat) (ha : a < 256) (hb : b < 256) (hc : c < 256) (hd : d < 256) :
    (be5 ((((((((0 * 32 + a / 8) * 32 + (a % 8 * 4 + b / 64)) * 32 + b / 2 % 32) * 32 + (b % 2 * 16 + c / 16)) * 32 +
      (c % 16 * 2 + d / 128)) * 32 + d / 4 % 32) * 32 + d % 4 * 8) * 32 ^ (8 - 7))).take ((43 - 5 * (8 - 7)) / 8) = [a, b, c, d] := by
  unfold be5
  simp only [show (32 : Nat) ^ (8 - 7) = 32 by decide, show (43 - 5 * (8 - 7)) / 8 = 4 by decide, List.take]
  simp only [List.cons.injEq, and_true]
  refine ⟨?_, ?_, ?_, ?_⟩ <;> omega

theorem b32_go (s : Bytes) (hs : ∀ x ∈ s, x < 256) (fuel : Nat) (hf : s.length < fuel) :
    b32hexDecode.go fuel (b32hexEncode s) = some s := by
  fun_induction b32hexEncode s generalizing fuel with
  | case1 =>
    cases fuel with
    | zero => omega
    | succ f => simp [b32hexDecode.go]
  | case2 a =>
    have ha := hs a (by simp)
    cases fuel with
    | zero => omega
    | succ f =>
      simp only [b32hexDecode.go, List.cons_ne_nil, if_false, List.length_cons, List.length_nil]
      simp only [show ¬ (0 + 1 + 1 ≥ 8) by omega, if_false, show ¬ (0 + 1 + 1 = 1 ∨ 0 + 1 + 1 = 3 ∨ 0 + 1 + 1 = 6) by omega]
      rw [b32Acc_cons _ (by omega), b32Acc_cons _ (by omega)]
      simp only [b32Acc]
      rw [partial1 a ha]
  | case3 a b =>
    have ha := hs a (by simp); have hb := hs b (by simp)
    cases fuel with
    | zero => omega
    | succ f =>
      simp only [b32hexDecode.go, List.cons_ne_nil, if_false, List.length_cons, List.length_nil]
      simp only [show ¬ (0 + 1 + 1 + 1 + 1 ≥ 8) by omega, if_false,
        show ¬ (0 + 1 + 1 + 1 + 1 = 1 ∨ 0 + 1 + 1 + 1 + 1 = 3 ∨ 0 + 1 + 1 + 1 + 1 = 6) by omega]
      rw [b32Acc_cons _ (by omega), b32Acc_cons _ (by omega), b32Acc_cons _ (by omega), b32Acc_cons _ (by omega)]
      simp only [b32Acc]
      rw [partial2 a b ha hb]
  | case4 a b c =>
    have ha := hs a (by simp); have hb := hs b (by simp); have hc := hs c (by simp)
    cases fuel with
    | zero => omega
    | succ f =>
      simp only [b32hexDecode.go, List.cons_ne_nil, if_false, List.length_cons, List.length_nil]
      simp only [show ¬ (0 + 1 + 1 + 1 + 1 + 1 ≥ 8) by omega, if_false,
        show ¬ (0 + 1 + 1 + 1 + 1 + 1 = 1 ∨ 0 + 1 + 1 + 1 + 1 + 1 = 3 ∨ 0 + 1 + 1 + 1 + 1 + 1 = 6) by omega]
      rw [b32Acc_cons _ (by omega), b32Acc_cons _ (by omega), b32Acc_cons _ (by omega), b32Acc_cons _ (by omega),
        b32Acc_cons _ (by omega)]
      simp only [b32Acc]
      rw [partial3 a b c ha hb hc]
  | case5 a b c d =>
    have ha := hs a (by simp); have hb := hs b (by simp); have hc := hs c (by simp); have hd := hs d (by simp)
    cases fuel with
    | zero => omega
    | succ f =>
      simp only [b32hexDecode.go, List.cons_ne_nil, if_false, List.length_cons, List.length_nil]
      simp only [show ¬ (0 + 1 + 1 + 1 + 1 + 1 + 1 + 1 ≥ 8) by omega, if_false,
        show ¬ (0 + 1 + 1 + 1 + 1 + 1 + 1 + 1 = 1 ∨ 0 + 1 + 1 + 1 + 1 + 1 + 1 + 1 = 3 ∨ 0 + 1 + 1 + 1 + 1 + 1 + 1 + 1 = 6) by omega]
      rw [b32Acc_cons _ (by omega), b32Acc_cons _ (by omega), b32Acc_cons _ (by omega), b32Acc_cons _ (by omega),
        b32Acc_cons _ (by omega), b32Acc_cons _ (by omega), b32Acc_cons _ (by omega)]
      simp only [b32Acc]
      rw [partial4 a b c d ha hb hc hd]
  | case6 a b c d e rest ih =>
    have ha := hs a (by simp); have hb := hs b (by simp); have hc := hs c (by simp); have hd := hs d (by simp)
    have he := hs e (by simp)
    cases fuel with
    | zero => omega
    | succ f =>
      have hlen : (b32Char (a / 8) :: b32Char (a % 8 * 4 + b / 64) :: b32Char (b / 2 % 32) :: b32Char (b % 2 * 16 + c / 16) ::
        b32Char (c % 16 * 2 + d / 128) :: b32Char (d / 4 % 32) :: b32Char (d % 4 * 8 + e / 32) :: b32Char (e % 32) ::
        b32hexEncode rest).length ≥ 8 := by simp
      rw [b32hexDecode.go]
      simp only [List.cons_ne_nil, if_false, hlen, if_true, List.take, List.drop]
      rw [b32Acc_cons _ (by omega), b32Acc_cons _ (by omega), b32Acc_cons _ (by omega), b32Acc_cons _ (by omega),
        b32Acc_cons _ (by omega), b32Acc_cons _ (by omega), b32Acc_cons _ (by omega), b32Acc_cons _ (by omega)]
      simp only [b32Acc]
      rw [ih (fun y hy => hs y (by simp [hy])) f (by simp at hf; omega)]
      simp only [quantum5 a b c d e ha hb hc hd he]
      rfl

theorem b32hexEncode_length (s : Bytes) : s.length ≤ (b32hexEncode s).length := by
  fun_induction b32hexEncode s <;> simp <;> omega

theorem b32_roundtrip (s : Bytes) (hs : ∀ x ∈ s, x < 256) : b32hexDecode (b32hexEncode s) = some s := by
  unfold b32hexDecode
  have hlast : ¬ (b32hexEncode s).getLast? = some 61 := by
    intro h
    have hm : 61 ∈ b32hexEncode s := List.mem_of_getLast? h
    have := b32hexEncode_range s hs 61 hm
    unfold B32C at this; omega
  simp only [hlast, if_false]
  exact b32_go s hs _ (by have := b32hexEncode_length s; omega)

end Model

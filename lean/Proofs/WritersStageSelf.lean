import Proofs.WritersStageDef
/-! Every step of the stage thread is an admission or brings the next admission closer (`stageFuel` decreases). -/
set_option linter.unusedSimpArgs false
set_option linter.unusedVariables false
namespace Model.Writers
variable {c : Cfg} {n k : Nat} {s s' : State} {t : Tid}

set_option maxHeartbeats 4000000 in
theorem stage_self (hi : Inv c n s) (hp : pending s ≠ []) (htr : Trans c s t s') (he : stageThread s = t) :
    s'.admitted = s.admitted ++ [t] ∨
    (s'.admitted = s.admitted ∧ stageFuel (s'.loc (stageThread s')).pc < stageFuel (s.loc (stageThread s)).pc) := by
  have hpc := pending_cases hi hp
  stage_facts hi s t
  unfold stageThread at he ⊢
  cases htr <;> simp only [setLoc_writeTxn, setLoc_lock, setLoc_writeEvent, setLoc_loc, setLoc_owner, setLoc_admitted] <;>
    rcases hwt : s.writeTxn with _ | u <;> rcases hl : s.lock with _ | v <;> rcases hwe : s.writeEvent with _ | e <;>
    simp_all [firstCS] <;> grind

end Model.Writers

import Proofs.RdataTextIP6d
/-! IPv6 text codec, part 5: `inet_aton (inet_ntoa a) = a` (C05). -/
namespace Model

theorem list_succ {α : Type} (l : List α) (n : Nat) (h : l.length = n + 1) : ∃ x r, l = x :: r ∧ r.length = n := by
  cases l with
  | nil => simp at h
  | cons x r => exact ⟨x, r, rfl, by simpa using h⟩

theorem list8 {α : Type} (l : List α) (h : l.length = 8) : ∃ x0 x1 x2 x3 x4 x5 x6 x7, l = [x0, x1, x2, x3, x4, x5, x6, x7] := by
  obtain ⟨x0, r0, rfl, h0⟩ := list_succ l 7 h
  obtain ⟨x1, r1, rfl, h1⟩ := list_succ r0 6 h0
  obtain ⟨x2, r2, rfl, h2⟩ := list_succ r1 5 h1
  obtain ⟨x3, r3, rfl, h3⟩ := list_succ r2 4 h2
  obtain ⟨x4, r4, rfl, h4⟩ := list_succ r3 3 h3
  obtain ⟨x5, r5, rfl, h5⟩ := list_succ r4 2 h4
  obtain ⟨x6, r6, rfl, h6⟩ := list_succ r5 1 h5
  obtain ⟨x7, r7, rfl, h7⟩ := list_succ r6 0 h6
  have : r7 = [] := List.eq_nil_of_length_eq_zero h7
  subst this
  exact ⟨x0, x1, x2, x3, x4, x5, x6, x7, rfl⟩

theorem list4 {α : Type} (l : List α) (h : l.length = 4) : ∃ x0 x1 x2 x3, l = [x0, x1, x2, x3] := by
  obtain ⟨x0, r0, rfl, h0⟩ := list_succ l 3 h
  obtain ⟨x1, r1, rfl, h1⟩ := list_succ r0 2 h0
  obtain ⟨x2, r2, rfl, h2⟩ := list_succ r1 1 h1
  obtain ⟨x3, r3, rfl, h3⟩ := list_succ r2 0 h2
  have : r3 = [] := List.eq_nil_of_length_eq_zero h3
  subst this
  exact ⟨x0, x1, x2, x3, rfl⟩

theorem bytesOfGroups_append (x y : List Nat) : bytesOfGroups (x ++ y) = bytesOfGroups x ++ bytesOfGroups y := by
  simp [bytesOfGroups]

theorem bytesOfGroups_zeros (n : Nat) : bytesOfGroups (List.replicate n 0) = List.replicate (2 * n) 0 := by
  induction n with
  | zero => rfl
  | succ k ih =>
    rw [List.replicate_succ, show 2 * (k + 1) = (2 * k) + 1 + 1 by omega, List.replicate_succ, List.replicate_succ]
    simp only [bytesOfGroups, List.flatMap_cons] at ih ⊢
    rw [ih]; rfl

theorem bytesOfGroups_length (gs : List Nat) : (bytesOfGroups gs).length = 2 * gs.length := by
  induction gs with
  | nil => rfl
  | cons g r ih => simp only [bytesOfGroups, List.flatMap_cons] at ih ⊢; simp [ih]; omega

theorem hex4_inj (g h : Nat) (hg : g < 65536) (hh : h < 65536) (e : hex4 g = hex4 h) : g = h := by
  have a := unhexlify_hex4 g hg []
  have b := unhexlify_hex4 h hh []
  rw [e] at a
  rw [a] at b
  simp [unhexlify] at b
  omega

/-- the search result, read on the groups: the selected run consists of zero groups -/
theorem run_zero (gs : List Nat) (hlen : gs.length = 8) (hg : ∀ g ∈ gs, g < 65536) (bs bl : Nat)
    (hr : bestRun ((gs.map chunkOf).map fun c => c == [48]) = (bs, bl)) (hbl : bl > 1) :
    bs + bl ≤ 8 ∧ gs = gs.take bs ++ (List.replicate bl 0 ++ gs.drop (bs + bl)) := by
  obtain ⟨g0, g1, g2, g3, g4, g5, g6, g7, rfl⟩ := list8 gs hlen
  have hz : ∀ g, g < 65536 → ((chunkOf g == [48]) = true ↔ g = 0) := by
    intro g hg; rw [beq_iff_eq]; exact (chunkOf_spec g hg).2.2
  have hs := bestRun_sound (chunkOf g0 == [48]) (chunkOf g1 == [48]) (chunkOf g2 == [48]) (chunkOf g3 == [48])
    (chunkOf g4 == [48]) (chunkOf g5 == [48]) (chunkOf g6 == [48]) (chunkOf g7 == [48])
  simp only [List.map_cons, List.map_nil] at hr
  unfold runOk at hs
  rw [hr] at hs
  simp only at hs
  have hnle : ¬ bl ≤ 1 := by omega
  simp only [hnle, decide_false, Bool.false_or, Bool.and_eq_true, decide_eq_true_eq, List.all_eq_true, List.mem_range] at hs
  obtain ⟨hle, hall⟩ := hs
  refine ⟨hle, ?_⟩
  have hgi : ∀ i, i < bl → [g0, g1, g2, g3, g4, g5, g6, g7].getD (bs + i) 1 = 0 := by
    intro i hi
    have := hall i hi
    have h0 := hg g0 (by simp); have h1 := hg g1 (by simp); have h2 := hg g2 (by simp); have h3 := hg g3 (by simp)
    have h4 := hg g4 (by simp); have h5 := hg g5 (by simp); have h6 := hg g6 (by simp); have h7 := hg g7 (by simp)
    have hk : bs + i < 8 := by omega
    rcases Nat.lt_or_ge (bs + i) 1 with k | k
    · have e : bs + i = 0 := by omega
      rw [e] at this ⊢; simpa [hz g0 h0] using this
    rcases Nat.lt_or_ge (bs + i) 2 with k2 | k2
    · have e : bs + i = 1 := by omega
      rw [e] at this ⊢; simpa [hz g1 h1] using this
    rcases Nat.lt_or_ge (bs + i) 3 with k3 | k3
    · have e : bs + i = 2 := by omega
      rw [e] at this ⊢; simpa [hz g2 h2] using this
    rcases Nat.lt_or_ge (bs + i) 4 with k4 | k4
    · have e : bs + i = 3 := by omega
      rw [e] at this ⊢; simpa [hz g3 h3] using this
    rcases Nat.lt_or_ge (bs + i) 5 with k5 | k5
    · have e : bs + i = 4 := by omega
      rw [e] at this ⊢; simpa [hz g4 h4] using this
    rcases Nat.lt_or_ge (bs + i) 6 with k6 | k6
    · have e : bs + i = 5 := by omega
      rw [e] at this ⊢; simpa [hz g5 h5] using this
    rcases Nat.lt_or_ge (bs + i) 7 with k7 | k7
    · have e : bs + i = 6 := by omega
      rw [e] at this ⊢; simpa [hz g6 h6] using this
    · have e : bs + i = 7 := by omega
      rw [e] at this ⊢; simpa [hz g7 h7] using this
  -- the middle segment is all zeros
  have hmid : ([g0, g1, g2, g3, g4, g5, g6, g7].drop bs).take bl = List.replicate bl 0 := by
    apply List.ext_getElem
    · simp; omega
    · intro i h1 h2
      simp only [List.getElem_take, List.getElem_drop, List.getElem_replicate]
      have hi : i < bl := by simpa using h2
      have := hgi i hi
      rw [List.getD_eq_getElem?_getD, List.getElem?_eq_getElem (by simp; omega)] at this
      simpa using this
  have hsplit : [g0, g1, g2, g3, g4, g5, g6, g7]
      = [g0, g1, g2, g3, g4, g5, g6, g7].take bs ++ (([g0, g1, g2, g3, g4, g5, g6, g7].drop bs).take bl ++
          ([g0, g1, g2, g3, g4, g5, g6, g7].drop bs).drop bl) := by
    rw [List.take_append_drop, List.take_append_drop]
  rw [hmid, List.drop_drop] at hsplit
  exact hsplit


theorem map_pad4_chunkOf (L : List Nat) (h : ∀ g ∈ L, g < 65536) : (L.map chunkOf).map pad4 = L.map hex4 := by
  induction L with
  | nil => rfl
  | cons g r ih =>
    simp only [List.map_cons]
    rw [(chunkOf_spec g (h g (by simp))).2.1, ih (fun x hx => h x (by simp [hx]))]

theorem ntoa_unfold (a : Bytes) (hlen : a.length = 16) :
    ip6Ntoa a =
      (let chunks := (groupsOf a).map chunkOf
       let r := bestRun (chunks.map fun c => c == [48])
       if r.2 > 1 then
         if r.1 = 0 ∧ (r.2 = 6 ∨ (r.2 = 5 ∧ chunks[5]? = some [102, 102, 102, 102])) then
           match ip4Ntoa (a.drop 12) with
           | some v4 => some ((if r.2 = 6 then [58, 58] else [58, 58, 102, 102, 102, 102, 58]) ++ v4)
           | none => none
         else some (joinWith 58 (chunks.take r.1) ++ [58, 58] ++ joinWith 58 (chunks.drop (r.1 + r.2)))
       else some (joinWith 58 chunks)) := by
  unfold ip6Ntoa
  simp only [hlen, ne_eq, not_true_eq_false, if_false]
  rfl

theorem ip6_roundtrip (a : Bytes) (hlen : a.length = 16) (ha : ∀ x ∈ a, x < 256) :
    ∃ t, ip6Ntoa a = some t ∧ ip6Aton t = some a := by
  obtain ⟨hg, hbytes, hglen⟩ := groupsOf_spec a ha
  have hbytes := hbytes (by omega)
  have hglen : (groupsOf a).length = 8 := by omega
  rw [ntoa_unfold a hlen]
  generalize groupsOf a = gs at *
  have hcs : ∀ c ∈ gs.map chunkOf, HexChunk c := by
    intro c hc
    simp at hc
    obtain ⟨g, hgm, rfl⟩ := hc
    exact (chunkOf_spec g (hg g hgm)).1
  have hcslen : (gs.map chunkOf).length = 8 := by simp [hglen]
  have hfinal : unhexlify (gs.map hex4).flatten = some a := by rw [unhexlify_groups gs hg, hbytes]
  dsimp only
  rcases hr : bestRun ((gs.map chunkOf).map fun c => c == [48]) with ⟨bs, bl⟩
  dsimp only
  by_cases hbl : bl > 1
  · obtain ⟨hle, hsplit⟩ := run_zero gs hglen hg bs bl hr hbl
    simp only [hbl, if_true]
    -- facts about the three segments
    have hpre : ∀ c ∈ (gs.map chunkOf).take bs, HexChunk c := fun c hc => hcs c (List.mem_of_mem_take hc)
    have hpost : ∀ c ∈ (gs.map chunkOf).drop (bs + bl), HexChunk c := fun c hc => hcs c (List.mem_of_mem_drop hc)
    have hprelen : ((gs.map chunkOf).take bs).length = bs := by simp; omega
    have hpostlen : ((gs.map chunkOf).drop (bs + bl)).length = 8 - (bs + bl) := by simp [hglen]
    have hgpre : ∀ g ∈ gs.take bs, g < 65536 := fun g h => hg g (List.mem_of_mem_take h)
    have hgpost : ∀ g ∈ gs.drop (bs + bl), g < 65536 := fun g h => hg g (List.mem_of_mem_drop h)
    have hcanon : ((gs.map chunkOf).take bs).map pad4 ++
        (List.replicate bl [48, 48, 48, 48] ++ ((gs.map chunkOf).drop (bs + bl)).map pad4) = gs.map hex4 := by
      rw [← List.map_take, ← List.map_drop, map_pad4_chunkOf _ hgpre, map_pad4_chunkOf _ hgpost]
      have hz : List.replicate bl [48, 48, 48, 48] = (List.replicate bl 0).map hex4 := by
        simp [hex4_zero]
      rw [hz, ← List.map_append, ← List.map_append, ← hsplit]
    by_cases hemb : bs = 0 ∧ (bl = 6 ∨ (bl = 5 ∧ (gs.map chunkOf)[5]? = some [102, 102, 102, 102]))
    · -- embedded IPv4
      simp only [hemb, if_true]
      obtain ⟨hbs, hcase⟩ := hemb
      subst hbs
      have hdl : (a.drop 12).length = 4 := by simp [hlen]
      obtain ⟨b0, b1, b2, b3, hb⟩ := list4 _ hdl
      have hb256 : b0 < 256 ∧ b1 < 256 ∧ b2 < 256 ∧ b3 < 256 := by
        have hm : ∀ x ∈ a.drop 12, x < 256 := fun x hx => ha x (List.mem_of_mem_drop hx)
        rw [hb] at hm
        exact ⟨hm b0 (by simp), hm b1 (by simp), hm b2 (by simp), hm b3 (by simp)⟩
      have hv4 : ip4Ntoa (a.drop 12) = some (v4Text b0 b1 b2 b3) := by rw [hb]; rfl
      simp only [hv4]
      simp only [List.take_zero, List.nil_append, Nat.zero_add] at hsplit
      rcases hcase with h6 | ⟨h5, hffff⟩
      · subst h6
        refine ⟨_, rfl, ?_⟩
        have := aton_embedded false b0 b1 b2 b3 hb256.1 hb256.2.1 hb256.2.2.1 hb256.2.2.2
        simp only [Bool.false_eq_true, if_false] at this
        simp only [if_true]
        rw [this]
        -- the first twelve octets are zero
        have ha12 : a = List.replicate 12 0 ++ a.drop 12 := by
          have e : a = bytesOfGroups (List.replicate 6 0 ++ gs.drop 6) := by rw [← hsplit, hbytes]
          rw [bytesOfGroups_append, bytesOfGroups_zeros] at e
          have hd : a.drop 12 = bytesOfGroups (gs.drop 6) := by
            conv => lhs; rw [e]
            rw [List.drop_left' (by simp)]
          rw [hd]; exact e
        conv => rhs; rw [ha12, hb]
        rfl
      · subst h5
        have h56 : ¬ ((5 : Nat) = 6) := by omega
        simp only [h56, if_false]
        refine ⟨_, rfl, ?_⟩
        have := aton_embedded true b0 b1 b2 b3 hb256.1 hb256.2.1 hb256.2.2.1 hb256.2.2.2
        simp only [if_true] at this
        rw [this]
        -- group 5 is 0xffff
        have hg5 : ∃ g5, gs[5]? = some g5 ∧ g5 = 65535 := by
          have : (gs.map chunkOf)[5]? = (gs[5]?).map chunkOf := by simp
          rw [this] at hffff
          cases h5 : gs[5]? with
          | none => rw [h5] at hffff; simp at hffff
          | some g5 =>
            rw [h5] at hffff
            simp at hffff
            have hg5 : g5 < 65536 := hg g5 (List.mem_of_getElem? h5)
            have hp := (chunkOf_spec g5 hg5).2.1
            rw [hffff] at hp
            have : hex4 g5 = hex4 65535 := by rw [← hp]; decide
            exact ⟨g5, rfl, hex4_inj g5 65535 hg5 (by omega) this⟩
        obtain ⟨g5, hg5a, hg5b⟩ := hg5
        subst hg5b
        have hdrop5 : gs.drop 5 = 65535 :: gs.drop 6 := by
          rw [List.drop_eq_getElem?_toList_append, hg5a]; rfl
        have ha12 : a = List.replicate 10 0 ++ [255, 255] ++ a.drop 12 := by
          have e : a = bytesOfGroups (List.replicate 5 0 ++ (65535 :: gs.drop 6)) := by
            rw [← hdrop5, ← hsplit, hbytes]
          rw [bytesOfGroups_append, bytesOfGroups_zeros] at e
          have e2 : bytesOfGroups (65535 :: gs.drop 6) = [255, 255] ++ bytesOfGroups (gs.drop 6) := by
            simp [bytesOfGroups]
          rw [e2] at e
          have hd : a.drop 12 = bytesOfGroups (gs.drop 6) := by
            conv => lhs; rw [e]
            rw [← List.append_assoc, List.drop_left' (by simp)]
          rw [hd]; simpa using e
        conv => rhs; rw [ha12, hb]
    · -- ordinary `::` compression
      simp only [hemb, if_false]
      refine ⟨_, rfl, ?_⟩
      by_cases hp0 : (gs.map chunkOf).take bs = []
      · by_cases hq0 : (gs.map chunkOf).drop (bs + bl) = []
        · -- everything is zero
          have hbs : bs = 0 := by rw [hp0] at hprelen; simpa using hprelen.symm
          have hbl8 : bl = 8 := by rw [hq0] at hpostlen; simp at hpostlen; omega
          subst hbs; subst hbl8
          simp only [hp0, hq0, joinWith, List.nil_append, List.append_nil]
          rw [aton_all_zero]
          simp only [List.take_zero, List.nil_append, Nat.zero_add] at hsplit
          have : gs.drop 8 = [] := by apply List.drop_eq_nil_of_le; omega
          rw [this, List.append_nil] at hsplit
          rw [← hbytes, hsplit, bytesOfGroups_zeros]
        · -- `::T`
          have hbs : bs = 0 := by rw [hp0] at hprelen; simpa using hprelen.symm
          subst hbs
          simp only [hp0, joinWith, List.nil_append]
          have hql : ((gs.map chunkOf).drop (0 + bl)).length ≤ 6 := by rw [hpostlen]; omega
          have := aton_lead _ hpost hq0 hql
          simp only [List.cons_append, List.nil_append] at this ⊢
          rw [show joinWith 58 (List.drop (0 + bl) (gs.map chunkOf)) = J (List.drop (0 + bl) (gs.map chunkOf)) from rfl, this]
          have hn : 8 - (1 + ((gs.map chunkOf).drop (0 + bl)).length) + 1 = bl := by rw [hpostlen]; omega
          rw [hn]
          have := hcanon
          simp only [hp0, List.map_nil, List.nil_append] at this
          rw [this, hfinal]
      · by_cases hq0 : (gs.map chunkOf).drop (bs + bl) = []
        · -- `H::`
          simp only [hq0, joinWith, List.append_nil]
          have hpl : ((gs.map chunkOf).take bs).length ≤ 6 := by
            rw [hprelen]
            rw [hq0] at hpostlen; simp at hpostlen; omega
          have := aton_trail _ hpre hp0 hpl
          rw [show joinWith 58 (List.take bs (gs.map chunkOf)) = J (List.take bs (gs.map chunkOf)) from rfl, this]
          have hn : 8 - (((gs.map chunkOf).take bs).length + 1) + 1 = bl := by
            rw [hprelen]; rw [hq0] at hpostlen; simp at hpostlen; omega
          rw [hn]
          have := hcanon
          simp only [hq0, List.map_nil, List.append_nil] at this
          rw [this, hfinal]
        · -- `H::T`
          have hjoin : joinWith 58 ((gs.map chunkOf).take bs) ++ [58, 58] ++ joinWith 58 ((gs.map chunkOf).drop (bs + bl))
              = J ((gs.map chunkOf).take bs ++ [] :: (gs.map chunkOf).drop (bs + bl)) := by
            rw [show J ((gs.map chunkOf).take bs ++ [] :: (gs.map chunkOf).drop (bs + bl))
                = joinWith 58 ((gs.map chunkOf).take bs ++ [] :: (gs.map chunkOf).drop (bs + bl)) from rfl,
              joinWith_append 58 _ _ hp0 (by simp)]
            cases hq : (gs.map chunkOf).drop (bs + bl) with
            | nil => exact absurd hq hq0
            | cons y ys => simp [joinWith]
          rw [hjoin]
          have hl6 : ((gs.map chunkOf).take bs).length + ((gs.map chunkOf).drop (bs + bl)).length ≤ 6 := by
            rw [hprelen, hpostlen]; omega
          rw [aton_mid _ _ hpre hpost hp0 hq0 hl6]
          have hn : 8 - (((gs.map chunkOf).take bs).length + 1 + ((gs.map chunkOf).drop (bs + bl)).length) + 1 = bl := by
            rw [hprelen, hpostlen]; omega
          rw [hn, hcanon, hfinal]
  · -- no run of two or more zero groups
    simp only [hbl, if_false]
    refine ⟨_, rfl, ?_⟩
    rw [show joinWith 58 (gs.map chunkOf) = J (gs.map chunkOf) from rfl, aton_plain _ hcs hcslen,
      map_pad4_chunkOf gs hg, hfinal]


/-! the printed address is one plain identifier for the tokenizer -/

theorem ip4Ntoa_plain' (a b c d : Nat) : Plain (v4Text a b c d) := by
  intro x hx
  unfold v4Text at hx
  simp only [List.mem_append, List.mem_cons] at hx
  have hd : ∀ n, x ∈ natToDec n → isDelim x = false ∧ x ≠ 92 := fun n h => natToDec_plain n x h
  have h46 : isDelim 46 = false ∧ (46 : Nat) ≠ 92 := by decide
  rcases hx with h | h | h | h | h | h | h
  · exact hd a h
  · subst h; exact h46
  · exact hd b h
  · subst h; exact h46
  · exact hd c h
  · subst h; exact h46
  · exact hd d h


theorem isHexL_plain (x : Nat) (h : isHexL x = true) : isDelim x = false ∧ x ≠ 92 := by
  simp [isHexL] at h
  simp [isDelim]
  omega

theorem J_plain (L : List (List Nat)) (h : ∀ c ∈ L, HexChunk c) : Plain (J L) := by
  induction L with
  | nil => intro c hc; simp [J, joinWith] at hc
  | cons x xs ih =>
    cases xs with
    | nil =>
      intro c hc
      simp [J, joinWith] at hc
      exact isHexL_plain c ((h x (by simp)).2.2 c hc)
    | cons y ys =>
      intro c hc
      rw [show J (x :: y :: ys) = x ++ 58 :: J (y :: ys) from rfl] at hc
      simp only [List.mem_append, List.mem_cons] at hc
      rcases hc with hc | hc | hc
      · exact isHexL_plain c ((h x (by simp)).2.2 c hc)
      · subst hc; decide
      · exact ih (fun c hc => h c (by simp [hc])) c hc

theorem plain_append (a b : List Nat) (ha : Plain a) (hb : Plain b) : Plain (a ++ b) := by
  intro c hc
  simp at hc
  rcases hc with h | h
  · exact ha c h
  · exact hb c h

theorem ip6Ntoa_plain (a : Bytes) (hlen : a.length = 16) (ha : ∀ x ∈ a, x < 256) (t : Text) (ht : ip6Ntoa a = some t) :
    Plain t ∧ t ≠ [] := by
  obtain ⟨hg, _, hglen⟩ := groupsOf_spec a ha
  have hglen : (groupsOf a).length = 8 := by omega
  rw [ntoa_unfold a hlen] at ht
  generalize groupsOf a = gs at *
  have hcs : ∀ c ∈ gs.map chunkOf, HexChunk c := by
    intro c hc
    simp at hc
    obtain ⟨g, hgm, rfl⟩ := hc
    exact (chunkOf_spec g (hg g hgm)).1
  have h5858 : Plain [58, 58] := by intro c hc; simp at hc; subst hc; decide
  dsimp only at ht
  rcases hr : bestRun ((gs.map chunkOf).map fun c => c == [48]) with ⟨bs, bl⟩
  rw [hr] at ht
  dsimp only at ht
  by_cases hbl : bl > 1
  · simp only [hbl, if_true] at ht
    by_cases hemb : bs = 0 ∧ (bl = 6 ∨ (bl = 5 ∧ (gs.map chunkOf)[5]? = some [102, 102, 102, 102]))
    · rw [if_pos hemb] at ht
      have hdl : (a.drop 12).length = 4 := by simp [hlen]
      obtain ⟨b0, b1, b2, b3, hb⟩ := list4 _ hdl
      have hv4 : ip4Ntoa (a.drop 12) = some (v4Text b0 b1 b2 b3) := by rw [hb]; rfl
      simp only [hv4, Option.some.injEq] at ht
      have hv : Plain (v4Text b0 b1 b2 b3) := ip4Ntoa_plain' b0 b1 b2 b3
      subst ht
      constructor
      · apply plain_append _ _ _ hv
        split
        · exact h5858
        · intro c hc; simp at hc; rcases hc with e | e | e <;> subst e <;> decide
      · split <;> simp
    · rw [if_neg hemb] at ht
      simp only [Option.some.injEq] at ht
      subst ht
      have hpre : ∀ c ∈ (gs.map chunkOf).take bs, HexChunk c := fun c hc => hcs c (List.mem_of_mem_take hc)
      have hpost : ∀ c ∈ (gs.map chunkOf).drop (bs + bl), HexChunk c := fun c hc => hcs c (List.mem_of_mem_drop hc)
      exact ⟨plain_append _ _ (plain_append _ _ (J_plain _ hpre) h5858) (J_plain _ hpost), by simp⟩
  · simp only [hbl, if_false, Option.some.injEq] at ht
    subst ht
    refine ⟨J_plain _ hcs, ?_⟩
    obtain ⟨x0, x1, x2, x3, x4, x5, x6, x7, e⟩ := list8 _ (show (gs.map chunkOf).length = 8 by simp [hglen])
    rw [e]
    have := (hcs x0 (by rw [e]; simp)).1
    intro hnil
    rw [show joinWith 58 [x0, x1, x2, x3, x4, x5, x6, x7] = x0 ++ 58 :: joinWith 58 [x1, x2, x3, x4, x5, x6, x7] from rfl] at hnil
    simp at hnil

end Model

import Model.ZoneTxn
/-! Node-level lemmas for C10: `Node.find/delete/append/replace` against a per-(type, covers) reading. -/
namespace Model.ZT
open Model

/-- every rdataset of a node has the zone's class, and (type, covers) identifies it -/
def NodeInv (cls : Nat) (nd : Node) : Prop :=
  (∀ r ∈ nd, r.rdclass = cls) ∧ nd.Pairwise (fun a b => ¬(a.rdtype = b.rdtype ∧ a.covers = b.covers))

theorem isMatch_iff (r : Rdataset) (cls t c : Nat) :
    r.isMatch cls t c = true ↔ r.rdclass = cls ∧ r.rdtype = t ∧ r.covers = c := by
  simp [Rdataset.isMatch, and_assoc]

theorem NodeInv.nil (cls : Nat) : NodeInv cls [] := ⟨by simp, List.Pairwise.nil⟩

theorem find_none_of_inv_head (cls t c : Nat) (x : Rdataset) (xs : Node) (h : NodeInv cls (x :: xs))
    (hx : x.isMatch cls t c = true) : Node.find xs cls t c = none := by
  unfold Node.find
  rw [List.find?_eq_none]
  intro y hy hm
  have hp := (List.pairwise_cons.mp h.2).1 y hy
  rw [isMatch_iff] at hx hm
  exact hp ⟨by rw [hx.2.1, hm.2.1], by rw [hx.2.2, hm.2.2]⟩

theorem NodeInv.tail {cls : Nat} {x : Rdataset} {xs : Node} (h : NodeInv cls (x :: xs)) : NodeInv cls xs :=
  ⟨fun r hr => h.1 r (List.mem_cons_of_mem _ hr), (List.pairwise_cons.mp h.2).2⟩

/-- after `delete_rdataset` the (type, covers) is gone -/
theorem find_delete_same (cls t c : Nat) (nd : Node) (h : NodeInv cls nd) :
    (nd.delete cls t c).find cls t c = none := by
  induction nd with
  | nil => simp [Node.delete, Node.find]
  | cons x xs ih =>
    by_cases hx : x.isMatch cls t c = true
    · have : Node.delete (x :: xs) cls t c = xs := by simp [Node.delete, hx]
      rw [this]; exact find_none_of_inv_head cls t c x xs h hx
    · have : Node.delete (x :: xs) cls t c = x :: Node.delete xs cls t c := by
        simp [Node.delete, hx]
      rw [this]
      have ih' := ih h.tail
      unfold Node.find at ih' ⊢
      simp [List.find?_cons, hx, ih']

/-- other (type, covers) are untouched by `delete_rdataset` -/
theorem find_delete_other (cls t c t' c' : Nat) (nd : Node) (hne : ¬(t' = t ∧ c' = c)) :
    (nd.delete cls t c).find cls t' c' = nd.find cls t' c' := by
  induction nd with
  | nil => simp [Node.delete, Node.find]
  | cons x xs ih =>
    by_cases hx : x.isMatch cls t c = true
    · have : Node.delete (x :: xs) cls t c = xs := by simp [Node.delete, hx]
      rw [this]
      have hx' : x.isMatch cls t' c' = false := by
        cases h : x.isMatch cls t' c' with
        | false => rfl
        | true =>
          rw [isMatch_iff] at hx h
          exact absurd ⟨by rw [← h.2.1, hx.2.1], by rw [← h.2.2, hx.2.2]⟩ hne
      unfold Node.find
      simp [List.find?_cons, hx']
    · have : Node.delete (x :: xs) cls t c = x :: Node.delete xs cls t c := by
        simp [Node.delete, hx]
      rw [this]
      unfold Node.find at ih ⊢
      simp only [List.find?_cons]
      rw [ih]

theorem delete_sublist (cls t c : Nat) (nd : Node) : List.Sublist (nd.delete cls t c) nd := List.eraseP_sublist

theorem NodeInv.sublist {cls : Nat} {a b : Node} (hs : List.Sublist a b) (h : NodeInv cls b) : NodeInv cls a :=
  ⟨fun r hr => h.1 r (hs.subset hr), h.2.sublist hs⟩

theorem NodeInv.delete {cls : Nat} {nd : Node} (h : NodeInv cls nd) (t c : Nat) : NodeInv cls (nd.delete cls t c) :=
  h.sublist (delete_sublist cls t c nd)

theorem filter_cons_pos' {α} (p : α → Bool) (x : α) (xs : List α) (h : p x = true) :
    List.filter p (x :: xs) = x :: List.filter p xs := by simp [List.filter_cons, h]
theorem filter_cons_neg' {α} (p : α → Bool) (x : α) (xs : List α) (h : ¬ p x = true) :
    List.filter p (x :: xs) = List.filter p xs := by simp [List.filter_cons, h]

theorem find_cons_pos (cls t c : Nat) (x : Rdataset) (xs : Node) (h : x.isMatch cls t c = true) :
    Node.find (x :: xs) cls t c = some x := by simp [Node.find, List.find?_cons, h]
theorem find_cons_neg (cls t c : Nat) (x : Rdataset) (xs : Node) (h : ¬ x.isMatch cls t c = true) :
    Node.find (x :: xs) cls t c = Node.find xs cls t c := by simp [Node.find, List.find?_cons, h]

/-- filtering by kind: a (type, covers) survives iff its kind does -/
theorem find_filter_kind (cls t c : Nat) (K : Kind) (nd : Node) :
    Node.find (nd.filter (fun x => x.kind != K)) cls t c =
      if classify t c != K then nd.find cls t c else none := by
  induction nd with
  | nil => simp [Node.find]
  | cons x xs ih =>
    by_cases hp : (x.kind != K) = true
    · rw [filter_cons_pos' (fun x => x.kind != K) x xs hp]
      by_cases hx : x.isMatch cls t c = true
      · have hk : x.kind = classify t c := by
          rw [isMatch_iff] at hx; unfold Rdataset.kind; rw [hx.2.1, hx.2.2]
        rw [hk] at hp
        rw [find_cons_pos _ _ _ _ _ hx, find_cons_pos _ _ _ _ _ hx]; simp [hp]
      · rw [find_cons_neg _ _ _ _ _ hx, find_cons_neg _ _ _ _ _ hx]
        exact ih
    · rw [filter_cons_neg' (fun x => x.kind != K) x xs hp]
      by_cases hx : x.isMatch cls t c = true
      · have hk : x.kind = classify t c := by
          rw [isMatch_iff] at hx; unfold Rdataset.kind; rw [hx.2.1, hx.2.2]
        rw [hk] at hp
        rw [ih]; simp [hp]
      · rw [ih, find_cons_neg _ _ _ _ _ hx]

def kindFilter (r : Rdataset) (nd : Node) : Node :=
  match r.kind with
  | .cname => nd.filter (fun x => x.kind != .regular)
  | .regular => nd.filter (fun x => x.kind != .cname)
  | .neutral => nd

theorem append_eq (nd : Node) (r : Rdataset) : nd.append r = kindFilter r nd ++ [r] := by
  cases nd with
  | nil => unfold Node.append kindFilter; cases r.kind <;> simp
  | cons x xs => unfold Node.append kindFilter; cases r.kind <;> simp

theorem excluded_cname (k : Kind) : SZone.excluded .cname k = (k == .regular) := by cases k <;> rfl
theorem excluded_regular (k : Kind) : SZone.excluded .regular k = (k == .cname) := by cases k <;> rfl
theorem excluded_neutral (k : Kind) : SZone.excluded .neutral k = false := by cases k <;> rfl

theorem find_kindFilter (cls t c : Nat) (nd : Node) (r : Rdataset) :
    Node.find (kindFilter r nd) cls t c = if SZone.excluded r.kind (classify t c) then none else nd.find cls t c := by
  unfold kindFilter
  cases hk : r.kind with
  | cname =>
    simp only [find_filter_kind, excluded_cname]
    cases classify t c <;> simp
  | regular =>
    simp only [find_filter_kind, excluded_regular]
    cases classify t c <;> simp
  | neutral => simp [excluded_neutral]

theorem kindFilter_sublist (r : Rdataset) (nd : Node) : List.Sublist (kindFilter r nd) nd := by
  unfold kindFilter
  cases r.kind
  · exact List.filter_sublist
  · exact List.Sublist.refl _
  · exact List.filter_sublist

theorem find_append_list (cls t c : Nat) (a b : Node) :
    Node.find (a ++ b) cls t c = (Node.find a cls t c).or (Node.find b cls t c) := by
  unfold Node.find; rw [List.find?_append]

/-- `_append_rdataset` read per (type, covers) -/
theorem find_append (cls t c : Nat) (nd : Node) (r : Rdataset) :
    (nd.append r).find cls t c =
      match (if SZone.excluded r.kind (classify t c) then none else nd.find cls t c) with
      | some x => some x
      | none => if r.isMatch cls t c then some r else none := by
  rw [append_eq, find_append_list, find_kindFilter]
  generalize (if SZone.excluded r.kind (classify t c) = true then none else nd.find cls t c) = o
  cases o with
  | some x => simp
  | none =>
    by_cases hm : r.isMatch cls t c = true
    · simp [find_cons_pos _ _ _ _ _ hm, hm]
    · simp [find_cons_neg _ _ _ _ _ hm, hm, Node.find]

/-- `replace_rdataset` read per (type, covers): the reference model's `put` at one owner -/
theorem find_replace (cls t c : Nat) (nd : Node) (r : Rdataset) (h : NodeInv cls nd) (hr : r.rdclass = cls) :
    (nd.replace r).find cls t c =
      if t = r.rdtype ∧ c = r.covers then some r
      else if SZone.excluded r.kind (classify t c) then none
      else nd.find cls t c := by
  unfold Node.replace
  rw [find_append]
  by_cases hk : t = r.rdtype ∧ c = r.covers
  · obtain ⟨h1, h2⟩ := hk
    subst h1; subst h2
    have hm : r.isMatch cls r.rdtype r.covers = true := by rw [isMatch_iff]; exact ⟨hr, rfl, rfl⟩
    have hd := find_delete_same cls r.rdtype r.covers nd h
    rw [hr, hd]
    simp [hm]
  · have hm : r.isMatch cls t c = false := by
      cases hh : r.isMatch cls t c with
      | false => rfl
      | true => rw [isMatch_iff] at hh; exact absurd ⟨hh.2.1.symm, hh.2.2.symm⟩ hk
    rw [hr, find_delete_other cls r.rdtype r.covers t c nd hk]
    simp only [hk, if_false, hm]
    by_cases he : SZone.excluded r.kind (classify t c) = true
    · simp [he]
    · simp only [he]
      cases nd.find cls t c <;> simp

theorem append_sub (nd : Node) (r x : Rdataset) (hx : x ∈ nd.append r) : x ∈ nd ∨ x = r := by
  rw [append_eq, List.mem_append] at hx
  rcases hx with hx | hx
  · left; exact (kindFilter_sublist r nd).subset hx
  · right; simpa using hx

theorem find_none_iff (cls t c : Nat) (nd : Node) :
    nd.find cls t c = none ↔ ∀ x ∈ nd, x.isMatch cls t c = false := by
  unfold Node.find; rw [List.find?_eq_none]; simp

theorem NodeInv.replace {cls : Nat} {nd : Node} (h : NodeInv cls nd) (r : Rdataset) (hr : r.rdclass = cls) :
    NodeInv cls (nd.replace r) := by
  unfold Node.replace
  have hd := h.delete r.rdtype r.covers
  have hnone := find_delete_same cls r.rdtype r.covers nd h
  rw [hr]
  generalize nd.delete cls r.rdtype r.covers = nd1 at hd hnone
  rw [append_eq]
  have hsub := kindFilter_sublist r nd1
  have hinv := hd.sublist hsub
  generalize kindFilter r nd1 = nd2 at hsub hinv
  constructor
  · intro x hx
    rcases List.mem_append.mp hx with hx | hx
    · exact hinv.1 x hx
    · simp at hx; rw [hx]; exact hr
  · rw [List.pairwise_append]
    refine ⟨hinv.2, by simp, ?_⟩
    intro a ha b hb
    simp at hb; subst hb
    intro hab
    have hm : a.isMatch cls b.rdtype b.covers = true := by
      rw [isMatch_iff]; exact ⟨hinv.1 a ha, hab.1, hab.2⟩
    have := (find_none_iff cls b.rdtype b.covers nd1).mp hnone a (hsub.subset ha)
    rw [hm] at this; exact absurd this (by simp)

theorem find_mem {cls t c : Nat} {nd : Node} {x : Rdataset} (h : nd.find cls t c = some x) :
    x ∈ nd ∧ x.rdclass = cls ∧ x.rdtype = t ∧ x.covers = c := by
  unfold Node.find at h
  have h1 : x ∈ nd := List.mem_of_find?_eq_some h
  have h2 : x.isMatch cls t c = true :=
    List.find?_some (p := fun r : Rdataset => r.isMatch cls t c) (a := x) (l := nd) h
  exact ⟨h1, (isMatch_iff x cls t c).mp h2⟩

theorem find_isSome_of_mem {cls : Nat} {nd : Node} {x : Rdataset} (hx : x ∈ nd) (hc : x.rdclass = cls) :
    (nd.find cls x.rdtype x.covers).isSome = true := by
  cases h : nd.find cls x.rdtype x.covers with
  | some y => rfl
  | none =>
    have := (find_none_iff cls x.rdtype x.covers nd).mp h x hx
    have hm : x.isMatch cls x.rdtype x.covers = true := by rw [isMatch_iff]; exact ⟨hc, rfl, rfl⟩
    rw [hm] at this; exact absurd this (by simp)

end Model.ZT

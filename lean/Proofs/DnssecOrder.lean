import Model.Dnssec
import Proofs.DnssecChain
import Props.C06
/-! C15: the facts about the canonical order that the NSEC chain needs, discharged from C06
(`fullcompare` decides RFC 4034 §6.1; `is_subdomain` is "equal relativity and suffix up to case"). -/
namespace Model
namespace Dnssec
open Model.NameOrder

/-- `is_subdomain` is transitive -/
theorem sub_trans (x y z : Name) (h1 : isSubdomain x y = true) (h2 : isSubdomain y z = true) :
    isSubdomain x z = true := by
  rw [isSubdomain_iff] at *
  exact ⟨h1.1.trans h2.1, h2.2.trans h1.2⟩

/-- a name that sorts before another is not beneath it -/
theorem not_sub_of_lt (a b : Name) (h : cmpOrder a b < 0) : isSubdomain a b = false := by
  cases hs : isSubdomain a b with
  | false => rfl
  | true =>
    exfalso
    rw [isSubdomain_iff] at hs
    obtain ⟨habs, P, hP⟩ := hs
    rw [cmpOrder_lt_iff] at h
    rcases h with ⟨h1, h2⟩ | ⟨_, hlt⟩
    · rw [habs, h2] at h1; cases h1
    · have hr : revLower a = revLower b ++ P.reverse := by
        unfold revLower; rw [← hP]; simp
      rw [hr] at hlt
      by_cases hp : P.reverse = []
      · rw [hp, List.append_nil] at hlt; exact List.lt_irrefl _ hlt
      · exact List.lt_irrefl _ (List.lt_trans (lt_append_of_ne_nil (revLower b) P.reverse hp) hlt)

/-- in the lexicographic order, everything between `D` and an extension of `D` extends `D` -/
theorem lex_between : ∀ (D X Y : List Label), D < X → X < D ++ Y → D <+: X := by
  intro D
  induction D with
  | nil => intro X Y _ _; exact List.nil_prefix
  | cons d D ih =>
    intro X Y h1 h2
    cases X with
    | nil => exact absurd h1 (List.not_lt_nil _)
    | cons x X =>
      rw [List.cons_lt_cons_iff] at h1
      rw [List.cons_append, List.cons_lt_cons_iff] at h2
      rcases h1 with h1 | ⟨h1, h1'⟩
      · rcases h2 with h2 | ⟨h2, _⟩
        · exact absurd (List.lt_trans h1 h2) (List.lt_irrefl _)
        · rw [h2] at h1; exact absurd h1 (List.lt_irrefl _)
      · rcases h2 with h2 | ⟨_, h2'⟩
        · rw [h1] at h2; exact absurd h2 (List.lt_irrefl _)
        · rw [h1]
          exact (List.cons_prefix_cons).2 ⟨rfl, ih X Y h1' h2'⟩

/-- the names beneath `d` are contiguous in canonical order -/
theorem sub_between (d x y : Name) (h1 : cmpOrder d x < 0) (h2 : cmpOrder x y < 0)
    (hs : isSubdomain y d = true) : isSubdomain x d = true := by
  rw [isSubdomain_iff] at hs ⊢
  obtain ⟨habs, P, hP⟩ := hs
  rw [cmpOrder_lt_iff] at h1 h2
  have hry : revLower y = revLower d ++ P.reverse := by
    unfold revLower; rw [← hP]; simp
  rcases h1 with ⟨a1, a2⟩ | ⟨a1, l1⟩ <;> rcases h2 with ⟨b1, b2⟩ | ⟨b1, l2⟩
  · rw [a2] at b1; cases b1
  · exfalso; revert a1 a2 b1 habs
    cases isAbs d <;> cases isAbs x <;> cases isAbs y <;> simp
  · exfalso; revert a1 b1 b2 habs
    cases isAbs d <;> cases isAbs x <;> cases isAbs y <;> simp
  · rw [hry] at l2
    have hp := lex_between _ _ _ l1 l2
    refine ⟨a1.symm, ?_⟩
    unfold revLower at hp
    exact List.reverse_prefix.mp hp

theorem blockOk_of_sorted (d : ZNode) : ∀ (rest : List ZNode),
    (d :: rest).Pairwise (fun a b => cmpOrder a.name b.name < 0) → blockOk d rest = true := by
  intro rest
  induction rest with
  | nil => intro _; rfl
  | cons x r ih =>
    intro hs
    have hs' : (d :: r).Pairwise (fun a b => cmpOrder a.name b.name < 0) := by
      rw [List.pairwise_cons] at hs ⊢
      exact ⟨fun z hz => hs.1 z (by simp [hz]), (List.pairwise_cons.mp hs.2).2⟩
    unfold blockOk
    cases hx : subOf x d with
    | true =>
      simp only [List.dropWhile_cons, hx, if_true]
      exact ih hs'
    | false =>
      simp only [List.dropWhile_cons, hx, Bool.false_eq_true, if_false, List.all_eq_true]
      intro y hy
      rcases List.mem_cons.mp hy with rfl | hy
      · simp [hx]
      · have hdx := (List.pairwise_cons.mp hs).1 x (by simp)
        have hxy := (List.pairwise_cons.mp (List.pairwise_cons.mp hs).2).1 y hy
        cases hyd : subOf y d with
        | false => rfl
        | true =>
          have := sub_between d.name x.name y.name hdx hxy hyd
          unfold subOf at hx; rw [this] at hx; cases hx

theorem contig_of_sorted : ∀ (L : List ZNode), L.Pairwise (fun a b => cmpOrder a.name b.name < 0) → contig L = true := by
  intro L
  induction L with
  | nil => intro _; rfl
  | cons d rest ih =>
    intro hs
    simp only [contig, Bool.and_eq_true]
    exact ⟨blockOk_of_sorted d rest hs, ih (List.pairwise_cons.mp hs).2⟩

theorem H1_of_sorted (L : List ZNode) (hs : L.Pairwise (fun a b => cmpOrder a.name b.name < 0)) :
    L.Pairwise (fun a b => subOf a b = false) :=
  hs.imp (fun {a b} h => not_sub_of_lt a.name b.name h)

/-! ## `sorted(names)` -/

theorem nameLe_total (a b : Name) : nameLe a b = true ∨ nameLe b a = true := by
  simp only [nameLe, decide_eq_true_eq]
  rcases C06.total a b with h | h | h <;> omega

theorem nameLe_trans (a b c : Name) : nameLe a b = true → nameLe b c = true → nameLe a c = true := by
  simp only [nameLe, decide_eq_true_eq]
  exact C06.le_trans a b c

def sortNodes (nodes : List ZNode) : List ZNode := insSort (fun a b => nameLe a.name b.name) nodes

/-- node names are dictionary keys: pairwise different (up to case) -/
def DistinctNames (nodes : List ZNode) : Prop := nodes.Pairwise (fun a b => nameEq a.name b.name = false)

theorem nameEq_symm_false {a b : Name} (h : nameEq a b = false) : nameEq b a = false := by
  cases hb : nameEq b a with
  | false => rfl
  | true =>
    rw [nameEq_iff] at hb
    have : nameEq a b = true := (nameEq_iff a b).2 hb.symm
    rw [this] at h; cases h

theorem sortNodes_sorted (nodes : List ZNode) (hd : DistinctNames nodes) :
    (sortNodes nodes).Pairwise (fun a b => cmpOrder a.name b.name < 0) := by
  have hle := insSort_pairwise (fun (a b : ZNode) => nameLe a.name b.name)
    (fun a b => nameLe_total a.name b.name) (fun a b c => nameLe_trans a.name b.name c.name) nodes
  have hdist : (sortNodes nodes).Pairwise (fun a b => nameEq a.name b.name = false) :=
    ((insSort_perm _ nodes).symm.pairwise_iff (fun {x y} h => nameEq_symm_false h)).mp hd
  have := hle.and hdist
  refine this.imp ?_
  intro a b ⟨h1, h2⟩
  simp only [nameLe, decide_eq_true_eq] at h1
  simp only [nameEq, beq_eq_false_iff_ne, ne_eq] at h2
  omega

theorem lookup_of_distinct : ∀ (nodes : List ZNode), DistinctNames nodes →
    ∀ z ∈ nodes, lookupNode nodes z.name = some z := by
  intro nodes
  induction nodes with
  | nil => intro _ z hz; simp at hz
  | cons a rest ih =>
    intro hd z hz
    obtain ⟨ha, hrest⟩ := List.pairwise_cons.mp hd
    unfold lookupNode
    rcases List.mem_cons.mp hz with rfl | hz
    · simp [List.find?, nameEq_self]
    · simp only [List.find?, ha z hz]
      exact ih hrest z hz

/-- The NSEC records `sign_zone` adds are the chain over the names not beneath a delegation — for every zone
content, with no hypothesis on the order left. -/
theorem signZone_chain (c : NsecConsts) (origin : Name) (nodes : List ZNode) (ws : Bool)
    (hd : DistinctNames nodes) (ht : ∀ z ∈ nodes, z.types ≠ []) (ho : origin ≠ []) :
    nsecsOf (signZoneNsec c origin nodes ws) =
      chain c origin (secure c origin (sortNodes nodes)) origin := by
  have hs := sortNodes_sorted nodes hd
  have hperm : (sortNodes nodes).Perm nodes := insSort_perm _ nodes
  unfold signZoneNsec
  exact walk_chain c origin nodes ws (sortNodes nodes)
    (fun z hz => lookup_of_distinct nodes hd z (hperm.mem_iff.mp hz))
    (fun z hz => ht z (hperm.mem_iff.mp hz))
    (tail_nonempty_of_sorted _ hs) ho (H1_of_sorted _ hs)
    (fun x _ y _ z _ h1 h2 => sub_trans x.name y.name z.name h1 h2)
    (contig_of_sorted _ hs)

end Dnssec
end Model

import Model.ZoneFile
import Proofs.ZoneFileLine
import Proofs.ZoneFileRebuild
/-!
Write-then-read for the plain style (one record per line, unsorted or sorted by the caller, no `$ORIGIN`/`$TTL`,
no de-duplication, no justification, no comments): the text the writer produces is a file of canonical record lines
(`writer_lines`), the parser's trace of it is the zone's record list (`parseTrace_lines`), and folding `txn.add`
over that list rebuilds the zone (`addAll_rebuild`).
-/
namespace Model

/-! ## the trace of a file of record lines denotes the fold of `txn.add` -/

theorem afterRecord_eff (r : PState) (n : Name) (ttl ty : Nat) (rd : Rdata) (rest : List Nat) :
    (afterRecord r n ttl ty rd rest).effOrigin = r.effOrigin := by
  obtain ⟨_, _, h3, h4, _⟩ := afterRecord_fields r n ttl ty rd rest
  simp [PState.effOrigin, h3, h4]

/-- the parser state at the end of the file -/
def finalState : List RecLine → PState → PState
  | [], r => r
  | l :: rest, r => finalState rest (afterRecord r l.n l.ttl l.ty l.rd (linesText rest))

theorem finalState_zoneOrigin (ls : List RecLine) (r : PState) : (finalState ls r).zoneOrigin = r.zoneOrigin := by
  induction ls generalizing r with
  | nil => rfl
  | cons l rest ih =>
    simp only [finalState]
    rw [ih]
    exact (afterRecord_fields r l.n l.ttl l.ty l.rd (linesText rest)).2.2.1

theorem interp_traceOfLines (ls : List RecLine) (r : PState) (z : ZoneMap) :
    interpTrace (traceOfLines ls r) z =
      (addAll r.effOrigin z (ls.map RecLine.entry)).map fun z' => (finalState ls r, z') := by
  induction ls generalizing r z with
  | nil => simp [traceOfLines, interpTrace, addAll, Except.map, finalState]
  | cons l rest ih =>
    simp only [traceOfLines, interpTrace, List.map_cons, addAll, afterRecord_eff, finalState]
    cases addEntry z r.effOrigin l.entry with
    | error e => rfl
    | ok z' =>
      simp only
      rw [ih, afterRecord_eff]

/-! ## the writer's text in the plain style -/

/-- the plain style: everything at its default; `sorted = false` writes the names in zone order -/
def plainStyleS (b : Bool) : Style := { sorted := b }



def joinLines : List (List Nat) → List Nat
  | [] => []
  | l :: rest => l ++ 10 :: joinLines rest

theorem joinWith_nl (ls : List (List Nat)) (h : ls ≠ []) : joinWith [10] ls ++ [10] = joinLines ls := by
  induction ls with
  | nil => exact absurd rfl h
  | cons a r ih =>
    cases r with
    | nil => simp [joinWith, joinLines]
    | cons b r' =>
      simp only [joinWith, joinLines, List.append_assoc, List.cons_append, List.nil_append]
      have := ih (by simp)
      simp only [joinLines] at this
      rw [this]

/-- one record line of the plain style -/
def plainLine (name : Name) (ttl ty : Nat) (rtext : List Nat) : List Nat :=
  toText name ++ [32] ++ (natToDec ttl ++ [32]) ++ (classToText 1 ++ [32]) ++ typeToText ty ++ [32] ++ rtext

theorem nameToStyledText_plain (b : Bool) (name : Name) : nameToStyledText (plainStyleS b).toNameStyle name = .ok (toText name) := by
  simp [nameToStyledText, plainStyleS, chooseRelativity]

theorem rdatasetLines_go_plain (b : Bool) (name : Name) (rds : Rdataset) (nt ttlT clsT tyT dup : List Nat) (rrs : List RR)
    (texts : List (List Nat)) (h : rrs.mapM (fun rr => rdataToText (plainStyleS b).toRdStyle rr.rd) = .ok texts) :
    rdatasetLines.go (plainStyleS b) clsT tyT ttlT dup nt rrs =
      .ok (texts.map fun t => nt ++ ttlT ++ clsT ++ tyT ++ [32] ++ t ++ []) := by
  induction rrs generalizing texts with
  | nil =>
    simp [List.mapM_nil, pure, Except.pure] at h
    subst h
    simp [rdatasetLines.go, pure, Except.pure]
  | cons rr rest ih =>
    simp only [List.mapM_cons, bind, Except.bind] at h
    cases hr : rdataToText (plainStyleS b).toRdStyle rr.rd with
    | error e => simp [hr] at h
    | ok t =>
      simp only [hr] at h
      cases hm : rest.mapM (fun rr => rdataToText (plainStyleS b).toRdStyle rr.rd) with
      | error e => simp [hm] at h
      | ok ts =>
        simp only [hm, pure, Except.pure, Except.ok.injEq] at h
        subst h
        have := ih ts hm
        simp only [rdatasetLines.go, plainStyleS, Bool.false_eq_true, if_false, bind, Except.bind] at this ⊢
        simp only [plainStyleS] at hr
        simp [hr, this, pure, Except.pure]

theorem mapM_ok_of_forall {α β ε} (f : α → Except ε β) (g : α → β) (l : List α) (h : ∀ a ∈ l, f a = .ok (g a)) :
    l.mapM f = .ok (l.map g) := by
  induction l with
  | nil => rfl
  | cons a r ih =>
    simp only [List.mapM_cons, bind, Except.bind, h a (by simp), ih (fun x hx => h x (by simp [hx])), pure, Except.pure,
      List.map_cons]

theorem rdatasetLines_plain (b : Bool) (name : Name) (rds : Rdataset) (rtextOf : RR → List Nat)
    (h : ∀ rr ∈ rds.rrs, rdataToText (plainStyleS b).toRdStyle rr.rd = .ok (rtextOf rr)) :
    rdatasetLines (plainStyleS b) name rds =
      .ok (rds.rrs.map fun rr => plainLine name rds.ttl rds.rdtype (rtextOf rr)) := by
  unfold rdatasetLines
  simp only [bind, Except.bind, nameToStyledText_plain, pure, Except.pure]
  have hm := mapM_ok_of_forall (fun rr : RR => rdataToText (plainStyleS b).toRdStyle rr.rd) rtextOf rds.rrs h
  have := rdatasetLines_go_plain b name rds
    (justify (toText name ++ [32]) (plainStyleS b).nameJust)
    (justify (if (plainStyleS b).omitTTL = true ∨ (plainStyleS b).defaultTTL = some rds.ttl then [] else natToDec rds.ttl ++ [32]) (plainStyleS b).ttlJust)
    (justify (if (plainStyleS b).omitClass = true then [] else if (plainStyleS b).wantGeneric = true then s2l "CLASS" ++ natToDec 1 ++ [32] else classToText 1 ++ [32]) (plainStyleS b).classJust)
    (justify (if (plainStyleS b).wantGeneric = true then s2l "TYPE" ++ natToDec rds.rdtype else typeToText rds.rdtype) (plainStyleS b).typeJust)
    (justify (s2l "    ") (plainStyleS b).nameJust)
    rds.rrs (rds.rrs.map rtextOf) hm
  simp only [plainStyleS, Bool.false_eq_true, false_and, if_false, false_or, justify, if_true] at this ⊢
  simp only [reduceCtorEq, if_false] at this ⊢
  rw [this]
  simp [plainLine, List.map_map, Function.comp_def, List.append_assoc]

def nodePlainLines (name : Name) (nd : Node) (rtextOf : RR → List Nat) : List (List Nat) :=
  nd.flatMap fun rds => rds.rrs.map fun rr => plainLine name rds.ttl rds.rdtype (rtextOf rr)

theorem nodeLines_plain (b : Bool) (name : Name) (nd : Node) (rtextOf : RR → List Nat)
    (hne : ∀ rds ∈ nd, rds.rrs ≠ [])
    (h : ∀ rds ∈ nd, ∀ rr ∈ rds.rrs, rdataToText (plainStyleS b).toRdStyle rr.rd = .ok (rtextOf rr)) :
    nodeLines (plainStyleS b) name nd = .ok (nodePlainLines name nd rtextOf) := by
  induction nd with
  | nil => rfl
  | cons rds rest ih =>
    have h1 := hne rds (by simp)
    simp only [nodeLines, h1, if_false, bind, Except.bind]
    rw [rdatasetLines_plain b name rds rtextOf (h rds (by simp))]
    have hd : ((plainStyleS b).dedup = true ∧ (!(plainStyleS b).firstNameIsDuplicate) = true) = False := by simp [plainStyleS]
    simp only [hd, if_false]
    rw [ih (fun r hr => hne r (by simp [hr])) (fun r hr => h r (by simp [hr]))]
    simp [nodePlainLines, pure, Except.pure]

/-- the text of the plain style for the whole zone -/
def zonePlainText (z : ZoneMap) (rtextOf : RR → List Nat) : List Nat :=
  z.flatMap fun p => joinLines (nodePlainLines p.1 p.2 rtextOf)

theorem nodePlainLines_ne (name : Name) (nd : Node) (rtextOf : RR → List Nat) (h1 : nd ≠ [])
    (h2 : ∀ rds ∈ nd, rds.rrs ≠ []) : nodePlainLines name nd rtextOf ≠ [] := by
  cases nd with
  | nil => exact absurd rfl h1
  | cons rds rest =>
    have := h2 rds (by simp)
    cases hr : rds.rrs with
    | nil => exact absurd hr this
    | cons a b => simp [nodePlainLines, hr]

theorem flatMap_join_plain (z : ZoneMap) (rtextOf : RR → List Nat)
    (hnd : ∀ p ∈ z, p.2 ≠ []) (hne : ∀ p ∈ z, ∀ rds ∈ p.2, rds.rrs ≠ []) :
    (z.map fun p => joinWith [10] (nodePlainLines p.1 p.2 rtextOf)).flatMap (fun x => x ++ [10]) =
      zonePlainText z rtextOf := by
  unfold zonePlainText
  induction z with
  | nil => rfl
  | cons p rest ih =>
    simp only [List.map_cons, List.flatMap_cons]
    rw [joinWith_nl _ (nodePlainLines_ne p.1 p.2 rtextOf (hnd p (by simp)) (hne p (by simp)))]
    rw [ih (fun q hq => hnd q (by simp [hq])) (fun q hq => hne q (by simp [hq]))]

/-- the order in which the names are written -/
def writeOrder (b : Bool) (z : ZoneMap) : ZoneMap := if b then sortNames z else z

theorem zoneToText_plain (b : Bool) (z : ZoneMap) (origin : Option Name) (rtextOf : RR → List Nat) (zrel : Bool)
    (hnd : ∀ p ∈ writeOrder b z, p.2 ≠ []) (hne : ∀ p ∈ writeOrder b z, ∀ rds ∈ p.2, rds.rrs ≠ [])
    (h : ∀ p ∈ writeOrder b z, ∀ rds ∈ p.2, ∀ rr ∈ rds.rrs, rdataToText (plainStyleS b).toRdStyle rr.rd = .ok (rtextOf rr)) :
    zoneToText (plainStyleS b) origin z zrel = .ok (zonePlainText (writeOrder b z) rtextOf) := by
  unfold zoneToText
  have hst : ((plainStyleS b).genFix ≥ 2 ∧ (plainStyleS b).wantGeneric = true ∧ (plainStyleS b).origin.isNone = true ∧ origin.isSome = true) = False := by
    simp [plainStyleS]
  simp only [hst, if_false]
  have hbody : (writeOrder b z).mapM (fun p => (nodeLines (plainStyleS b) p.1 p.2).bind fun ls => (pure (joinWith [10] ls) : Except NameErr (List Nat))) =
      .ok ((writeOrder b z).map fun p => joinWith [10] (nodePlainLines p.1 p.2 rtextOf)) := by
    apply mapM_ok_of_forall
    intro p hp
    rw [nodeLines_plain b p.1 p.2 rtextOf (hne p hp) (h p hp)]
    rfl
  have hs : (plainStyleS b).sorted = b := rfl
  have hw : (plainStyleS b).wantOrigin = false := rfl
  have hd : (plainStyleS b).defaultTTL = none := rfl
  simp only [hs, hw, hd, Bool.false_eq_true, if_false, bind, Except.bind, pure, Except.pure, writeOrder] at hbody ⊢
  rw [hbody]
  simp only [List.nil_append]
  have := flatMap_join_plain (writeOrder b z) rtextOf hnd hne
  simp only [writeOrder] at this
  rw [this]

/-! ## the plain text as a file of record lines -/

def mkRecLine (name n : Name) (rds : Rdataset) (rr : RR) (rtext : List Nat) : RecLine :=
  { ow := toText name, ttlT := natToDec rds.ttl, clsT := classToText 1, tyT := typeToText rds.rdtype,
    rdText := 32 :: (rtext ++ [10]), n := n, m := name, ttl := rds.ttl, ty := rds.rdtype, rd := rr.rd,
    comment := rr.comment }

/-- the record lines of a zone in writer order; `absOf` gives the absolute form of each owner name -/
def zoneRecLines (absOf : Name → Name) (rtextOf : RR → List Nat) (z : ZoneMap) : List RecLine :=
  z.flatMap fun p => p.2.flatMap fun rds => rds.rrs.map fun rr => mkRecLine p.1 (absOf p.1) rds rr (rtextOf rr)

theorem linesText_append (a b : List RecLine) : linesText (a ++ b) = linesText a ++ linesText b := by
  induction a with
  | nil => rfl
  | cons l r ih => simp [linesText, ih, List.append_assoc]

theorem mkRecLine_text (name n : Name) (rds : Rdataset) (rr : RR) (rtext : List Nat) :
    (mkRecLine name n rds rr rtext).text = plainLine name rds.ttl rds.rdtype rtext ++ [10] := by
  simp [mkRecLine, RecLine.text, plainLine, List.append_assoc]

theorem linesText_rrs (name n : Name) (rds : Rdataset) (rtextOf : RR → List Nat) (rrs : List RR) :
    linesText (rrs.map fun rr => mkRecLine name n rds rr (rtextOf rr)) =
      joinLines (rrs.map fun rr => plainLine name rds.ttl rds.rdtype (rtextOf rr)) := by
  induction rrs with
  | nil => rfl
  | cons rr rest ih =>
    simp only [List.map_cons, linesText, joinLines, mkRecLine_text, ih]
    simp [List.append_assoc]

theorem joinLines_append (a b : List (List Nat)) : joinLines (a ++ b) = joinLines a ++ joinLines b := by
  induction a with
  | nil => rfl
  | cons l r ih => simp [joinLines, ih, List.append_assoc]

theorem linesText_node (name n : Name) (nd : Node) (rtextOf : RR → List Nat) :
    linesText (nd.flatMap fun rds => rds.rrs.map fun rr => mkRecLine name n rds rr (rtextOf rr)) =
      joinLines (nodePlainLines name nd rtextOf) := by
  induction nd with
  | nil => rfl
  | cons rds rest ih =>
    simp only [List.flatMap_cons, linesText_append, nodePlainLines, joinLines_append, linesText_rrs]
    rw [ih]; rfl

theorem linesText_zone (absOf : Name → Name) (rtextOf : RR → List Nat) (z : ZoneMap) :
    linesText (zoneRecLines absOf rtextOf z) = zonePlainText z rtextOf := by
  induction z with
  | nil => rfl
  | cons p rest ih =>
    simp only [zoneRecLines, zonePlainText, List.flatMap_cons, linesText_append, linesText_node] at ih ⊢
    rw [ih]

theorem rr_eta (rr : RR) : (⟨rr.rd, rr.comment⟩ : RR) = rr := by cases rr; rfl

theorem entries_zoneRecLines (absOf : Name → Name) (rtextOf : RR → List Nat) (z : ZoneMap) :
    (zoneRecLines absOf rtextOf z).map RecLine.entry = entriesOfZone z := by
  simp only [zoneRecLines, entriesOfZone, entriesOfNode, entriesOfRdataset, List.map_flatMap, List.map_map]
  rfl

theorem linesText_length (ls : List RecLine) : ls.length ≤ (linesText ls).length := by
  induction ls with
  | nil => simp [linesText]
  | cons l r ih =>
    simp only [linesText, List.length_cons, List.length_append, RecLine.text]
    omega

/-- **write then read, plain style**: for a well-formed zone whose records are individually readable, the text
`Zone.to_styled_file` writes loads back to exactly the zone in the order written (`sorted = false`: the zone
itself; `sorted = true`: its names in canonical order, a permutation of the zone). -/
theorem read_write_plain (b : Bool) (z : ZoneMap) (zo : Name) (rel gfix : Bool) (absOf : Name → Name) (rtextOf : RR → List Nat)
    (hwf : ZoneWF (if rel then some [] else some zo) (writeOrder b z))
    (htext : ∀ p ∈ writeOrder b z, ∀ rds ∈ p.2, ∀ rr ∈ rds.rrs, rdataToText (plainStyleS b).toRdStyle rr.rd = .ok (rtextOf rr))
    (hgood : ∀ l ∈ zoneRecLines absOf rtextOf (writeOrder b z), l.Good zo rel gfix) :
    ∃ text, zoneToText (plainStyleS b) (some zo) z rel = .ok text ∧
      zoneFromText text (some zo) rel false gfix = .ok (writeOrder b z, some zo) := by
  have hnd : ∀ p ∈ writeOrder b z, p.2 ≠ [] := fun p hp => (hwf.1 p hp).1
  have hne : ∀ p ∈ writeOrder b z, ∀ rds ∈ p.2, rds.rrs ≠ [] := fun p hp rds hr => ((hwf.1 p hp).2.1 rds hr).1
  refine ⟨zonePlainText (writeOrder b z) rtextOf, zoneToText_plain b z (some zo) rtextOf rel hnd hne htext, ?_⟩
  generalize writeOrder b z = w at *
  have htxt : zonePlainText w rtextOf = linesText (zoneRecLines absOf rtextOf w) := (linesText_zone absOf rtextOf w).symm
  rw [htxt]
  rw [zoneFromText_def]
  simp only [bind, Except.bind]
  rw [readLoop_eq_interp]
  have hlen : (zoneRecLines absOf rtextOf w).length <
      (linesText (zoneRecLines absOf rtextOf w)).length + 2 := by
    have := linesText_length (zoneRecLines absOf rtextOf w)
    omega
  rw [parseTrace_lines (zoneRecLines absOf rtextOf w) (PState.init (linesText (zoneRecLines absOf rtextOf w)) (some zo) rel gfix)
    zo _ hlen rfl rfl (by simp [PState.init, TState.init, after]) rfl (by simpa [PState.init] using hgood)]
  rw [interp_traceOfLines, entries_zoneRecLines]
  have heff : (PState.init (linesText (zoneRecLines absOf rtextOf w)) (some zo) rel gfix).effOrigin =
      (if rel then some [] else some zo) := by
    cases rel <;> simp [PState.effOrigin, PState.init]
  rw [heff, addAll_rebuild _ w hwf]
  simp [Except.map, pure, Except.pure, finalState_zoneOrigin, PState.init]

/-- sorting only permutes the names -/
theorem insertName_perm (n : Name × Node) (l : List (Name × Node)) : (insertName n l).Perm (n :: l) := by
  induction l with
  | nil => exact List.Perm.refl _
  | cons m rest ih =>
    unfold insertName
    split
    · exact List.Perm.refl _
    · exact (List.Perm.cons m ih).trans (List.Perm.swap n m rest)

theorem sortNames_perm (z : ZoneMap) : (sortNames z).Perm z := by
  unfold sortNames
  have : ∀ (acc : ZoneMap) (l : ZoneMap), (l.foldl (fun acc n => insertName n acc) acc).Perm (l.reverse ++ acc) := by
    intro acc l
    induction l generalizing acc with
    | nil => exact List.Perm.refl _
    | cons a r ih =>
      simp only [List.foldl_cons, List.reverse_cons, List.append_assoc, List.cons_append, List.nil_append]
      exact (ih (insertName a acc)).trans (List.Perm.append_left _ (insertName_perm a acc))
  have h := this [] z
  simp only [List.append_nil] at h
  exact h.trans (List.reverse_perm z)

end Model

import Proofs.RdataTextField2
import Proofs.RdataTextCal
/-! Mnemonic fields (record types, algorithms, schemes, certificate types, KEY flags/protocol) and RRSIG times (C05). -/
namespace Model

/-! ### table lookups -/

theorem lookupName_mem (k : List Nat) (l : List (List Nat × Nat)) (w : Nat) (h : lookupName k l = some w) : (k, w) ∈ l := by
  induction l with
  | nil => simp [lookupName] at h
  | cons p ps ih =>
    obtain ⟨a, v⟩ := p
    unfold lookupName at h
    by_cases ha : a = k
    · simp [ha] at h; subst h; subst ha; simp
    · simp [ha] at h; exact List.mem_cons_of_mem _ (ih h)

theorem lookupVal_mem (v : Nat) (l : List (Nat × List Nat)) (t : List Nat) (h : lookupVal v l = some t) : (v, t) ∈ l := by
  induction l with
  | nil => simp [lookupVal] at h
  | cons p ps ih =>
    obtain ⟨a, x⟩ := p
    unfold lookupVal at h
    by_cases ha : a = v
    · simp [ha] at h; subst h; subst ha; simp
    · simp [ha] at h; exact List.mem_cons_of_mem _ (ih h)

def plainB (s : List Nat) : Bool := s.all fun c => !isDelim c && c != 92

theorem plain_of_plainB (s : List Nat) (h : plainB s = true) : Plain s := by
  intro c hc
  unfold plainB at h
  rw [List.all_eq_true] at h
  have := h c hc
  simpa using this

theorem upper_digits (ds : List Nat) (h : ∀ c ∈ ds, 48 ≤ c ∧ c ≤ 57) : ds.map upperC' = ds := by
  have : ∀ c ∈ ds, upperC' c = c := by
    intro c hc; have := h c hc; unfold upperC'
    have : ¬ (97 ≤ c ∧ c ≤ 122) := by omega
    simp [this]
  conv => rhs; rw [← List.map_id ds]
  exact List.map_congr_left this

/-- the generic `IntEnum` round trip.  Obligations on the generated tables (all decidable):
`texts` entries are plain, upper-case stable and found in `names` with their value; a name of the shape
prefix+digits carries the value it spells; the prefix is upper-case stable. -/
def EnumOk (texts : List (Nat × List Nat)) (names : List (List Nat × Nat)) (pfx : List Nat) (max : Nat) : Prop :=
  (∀ p ∈ texts, p.2 ≠ [] ∧ plainB p.2 = true ∧ enumFromText names pfx max p.2 = some p.1) ∧
  (∀ p ∈ names, (p.1.take pfx.length = pfx ∧ (p.1.drop pfx.length).all isDigit = true) → decVal (p.1.drop pfx.length) = p.2) ∧
  pfx.map upperC' = pfx ∧ plainB pfx = true ∧ (∀ c ∈ pfx, isDigit c = false ∨ True)

instance (texts names pfx max) : Decidable (EnumOk texts names pfx max) := by unfold EnumOk; exact inferInstance

theorem enumFromText_number (names : List (List Nat × Nat)) (pfx : List Nat) (max : Nat)
    (hnames : ∀ p ∈ names, (p.1.take pfx.length = pfx ∧ (p.1.drop pfx.length).all isDigit = true) → decVal (p.1.drop pfx.length) = p.2)
    (hpfx : pfx.map upperC' = pfx) (v : Nat) (hv : v ≤ max) :
    enumFromText names pfx max (pfx ++ natToDec v) = some v := by
  unfold enumFromText
  have hu : (pfx ++ natToDec v).map upperC' = pfx ++ natToDec v := by
    rw [List.map_append, hpfx, upper_digits _ (natToDec_digits v)]
  simp only [hu]
  have htake : (pfx ++ natToDec v).take pfx.length = pfx := by simp
  have hdrop : (pfx ++ natToDec v).drop pfx.length = natToDec v := by simp
  cases hl : lookupName (pfx ++ natToDec v) names with
  | some w =>
    have hm := lookupName_mem _ _ _ hl
    have := hnames _ hm ⟨htake, by rw [hdrop]; exact natToDec_all_isDigit v⟩
    simp only [hdrop, decVal_natToDec] at this
    simp [this]
  | none =>
    have hne : (natToDec v).isEmpty = false := by
      cases h : natToDec v with
      | nil => exact absurd h (natToDec_ne_nil v)
      | cons _ _ => rfl
    simp [htake, hdrop, hne, natToDec_all_isDigit, decVal_natToDec, hv]

theorem enum_rt (texts : List (Nat × List Nat)) (names : List (List Nat × Nat)) (pfx : List Nat) (max : Nat)
    (hok : EnumOk texts names pfx max) (v : Nat) (hv : v ≤ max) :
    enumFromText names pfx max (enumToText texts pfx v) = some v ∧ Plain (enumToText texts pfx v) ∧ enumToText texts pfx v ≠ [] := by
  obtain ⟨h1, h2, h3, h4, _⟩ := hok
  unfold enumToText
  cases hl : lookupVal v texts with
  | some t =>
    have hm := lookupVal_mem _ _ _ hl
    obtain ⟨a, b, c⟩ := h1 _ hm
    exact ⟨c, plain_of_plainB _ b, a⟩
  | none =>
    refine ⟨enumFromText_number names pfx max h2 h3 v hv, ?_, ?_⟩
    · intro c hc; simp at hc
      rcases hc with h | h
      · exact plain_of_plainB _ h4 c h
      · exact natToDec_plain v c h
    · intro e
      have := congrArg List.length e
      simp at this
      exact natToDec_ne_nil v this.2

theorem algEnumOk : EnumOk ConstsC05.algTexts ConstsC05.algMnemonics [] 255 := by decide
theorem schemeEnumOk : EnumOk ConstsC05.schemeTexts ConstsC05.schemeNames [] 255 := by decide

theorem field_algoName (st : Style) (env : PEnv) (v : Nat) (hv : v ≤ 255) :
    ∃ text, FieldRT st env .algoName (.n v) text ⟨.ident, text⟩ := by
  obtain ⟨a, b, c⟩ := enum_rt _ _ _ _ algEnumOk v hv
  refine ⟨_, rfl, lexes_plain _ c b, ?_, notHash_plain _ b⟩
  simp [parseField, parseFieldExtra, unescapeCP_plain_all _ b, a]

theorem field_scheme (st : Style) (env : PEnv) (v : Nat) (hv : v ≤ 255) :
    ∃ text, FieldRT st env .scheme (.n v) text ⟨.ident, text⟩ := by
  obtain ⟨a, b, c⟩ := enum_rt _ _ _ _ schemeEnumOk v hv
  refine ⟨_, rfl, lexes_plain _ c b, ?_, notHash_plain _ b⟩
  simp [parseField, parseFieldExtra, unescapeCP_plain_all _ b, a]

/-! ### record types -/

/-- obligations on `RdataType`: every printed mnemonic is plain and is read back as its value (also through the dashed
spelling); a member named TYPE+digits carries that number -/
def TypeTableOk : Prop :=
  (∀ p ∈ ConstsC05.typeTexts, p.2 ≠ [] ∧ plainB p.2 = true ∧ rdtypeFromText p.2 = some p.1) ∧
  (∀ p ∈ ConstsC05.typeNames, (p.1.take ConstsC05.typePrefix.length = ConstsC05.typePrefix ∧
      (p.1.drop ConstsC05.typePrefix.length).all isDigit = true) → decVal (p.1.drop ConstsC05.typePrefix.length) = p.2) ∧
  ConstsC05.typePrefix.map upperC' = ConstsC05.typePrefix ∧ plainB ConstsC05.typePrefix = true ∧
  ConstsC05.typePrefix.contains 45 = false

instance : Decidable TypeTableOk := by unfold TypeTableOk; exact inferInstance

theorem typeTableOk : TypeTableOk := by decide +kernel

theorem rdtype_rt (v : Nat) (hv : v ≤ 65535) :
    rdtypeFromText (rdtypeToText v) = some v ∧ Plain (rdtypeToText v) ∧ rdtypeToText v ≠ [] := by
  obtain ⟨h1, h2, h3, h4, h5⟩ := typeTableOk
  unfold rdtypeToText enumToText
  cases hl : lookupVal v ConstsC05.typeTexts with
  | some t =>
    have hm := lookupVal_mem _ _ _ hl
    obtain ⟨a, b, c⟩ := h1 _ hm
    exact ⟨c, plain_of_plainB _ b, a⟩
  | none =>
    have hnum := enumFromText_number [] ConstsC05.typePrefix 65535 (by intro p hp; simp at hp) h3 v hv
    have hu : (ConstsC05.typePrefix ++ natToDec v).map upperC' = ConstsC05.typePrefix ++ natToDec v := by
      rw [List.map_append, h3, upper_digits _ (natToDec_digits v)]
    have hno45 : (ConstsC05.typePrefix ++ natToDec v).contains 45 = false := by
      have := natToDec_no 45 (by omega) v
      simp only [List.contains_eq_mem, List.mem_append, decide_eq_false_iff_not] at h5 ⊢
      intro h; rcases h with h | h
      · exact h5 h
      · exact this h
    refine ⟨?_, ?_, ?_⟩
    · unfold rdtypeFromText
      simp only [hu, hno45, Bool.false_eq_true, if_false]
      cases hn : lookupName (ConstsC05.typePrefix ++ natToDec v) ConstsC05.typeNames with
      | some w =>
        have hm := lookupName_mem _ _ _ hn
        have := h2 _ hm ⟨by simp, by simp [natToDec_all_isDigit]⟩
        simp [decVal_natToDec] at this
        simp [this]
      | none => simpa using hnum
    · intro c hc; simp at hc
      rcases hc with h | h
      · exact plain_of_plainB _ h4 c h
      · exact natToDec_plain v c h
    · intro e
      have := congrArg List.length e
      simp at this
      exact natToDec_ne_nil v this.2

theorem field_rdtype (st : Style) (env : PEnv) (v : Nat) (hv : v ≤ 65535) :
    ∃ text, FieldRT st env .rdtype (.n v) text ⟨.ident, text⟩ := by
  obtain ⟨a, b, c⟩ := rdtype_rt v hv
  refine ⟨_, rfl, lexes_plain _ c b, ?_, notHash_plain _ b⟩
  simp [parseField, parseFieldExtra, unescapeCP_plain_all _ b, a]

/-! ### CERT certificate type -/

def CtypeOk : Prop :=
  (∀ p ∈ ConstsC05.ctypeByValue, p.2 ≠ [] ∧ plainB p.2 = true ∧ lookupName p.2 ConstsC05.ctypeByName = some p.1) ∧
  (∀ p ∈ ConstsC05.ctypeByName, p.1.all isDigit = false)

instance : Decidable CtypeOk := by unfold CtypeOk; exact inferInstance
theorem ctypeOk : CtypeOk := by decide

theorem lookupName_none (k : List Nat) (tbl : List (List Nat × Nat)) (h : ∀ p ∈ tbl, p.1 ≠ k) : lookupName k tbl = none := by
  induction tbl with
  | nil => rfl
  | cons p ps ih =>
    obtain ⟨a, v⟩ := p
    have ha : a ≠ k := h (a, v) (by simp)
    simp [lookupName, ha, ih (fun q hq => h q (by simp [hq]))]

theorem field_ctype (st : Style) (env : PEnv) (v : Nat) (hv : v ≤ 65535) :
    ∃ text, FieldRT st env .ctype (.n v) text ⟨.ident, text⟩ := by
  obtain ⟨h1, h2⟩ := ctypeOk
  cases hl : lookupVal v ConstsC05.ctypeByValue with
  | some t =>
    have hm := lookupVal_mem _ _ _ hl
    obtain ⟨a, b, c⟩ := h1 _ hm
    have hp := plain_of_plainB _ b
    refine ⟨t, by simp [printField, enumToText, hl], lexes_plain _ a hp, ?_, notHash_plain _ hp⟩
    simp [parseField, parseFieldExtra, unescapeCP_plain_all _ hp, c]
  | none =>
    have hp := natToDec_plain v
    refine ⟨natToDec v, by simp [printField, enumToText, hl], lexes_plain _ (natToDec_ne_nil v) hp, ?_, notHash_plain _ hp⟩
    have hn : lookupName (natToDec v) ConstsC05.ctypeByName = none := by
      apply lookupName_none
      intro p hp' e
      have := h2 p hp'
      rw [e, natToDec_all_isDigit] at this
      exact Bool.noConfusion this
    have hle : ¬ v > 65535 := by omega
    simp [parseField, parseFieldExtra, unescapeCP_plain_all _ hp, hn, pyInt10_natToDec, hle]

/-! ### KEY flags and protocol -/

theorem field_keyFlags (st : Style) (env : PEnv) (v : Nat) (hv : v ≤ 65535) :
    FieldRT st env .keyFlags (.n v) (natToDec v) ⟨.ident, natToDec v⟩ := by
  have hp := natToDec_plain v
  refine ⟨rfl, lexes_plain _ (natToDec_ne_nil v) hp, ?_, notHash_plain _ hp⟩
  have hle : ¬ v > 65535 := by omega
  simp [parseField, parseFieldExtra, pyInt10_natToDec, hle]

theorem field_keyProto (st : Style) (env : PEnv) (v : Nat) (hv : v ≤ 255) :
    FieldRT st env .keyProto (.n v) (natToDec v) ⟨.ident, natToDec v⟩ := by
  have hp := natToDec_plain v
  refine ⟨rfl, lexes_plain _ (natToDec_ne_nil v) hp, ?_, notHash_plain _ hp⟩
  have hle : ¬ v > 255 := by omega
  simp [parseField, parseFieldExtra, pyInt10_natToDec, hle]

/-! ### RRSIG / SIG times -/

theorem pyInt10_digits (ds : List Nat) (hd : ∀ c ∈ ds, 48 ≤ c ∧ c ≤ 57) (hne : ds ≠ []) :
    pyInt 10 ds = some (false, decVal ds) := by
  have hns : ∀ c ∈ ds, isIntSpace c = false := by
    intro c hc; have := hd c hc; simp [isIntSpace]; omega
  have hd10 : ∀ c ∈ ds, 48 ≤ c ∧ c < 48 + 10 := by
    intro c hc; have := hd c hc; omega
  unfold pyInt
  rw [stripIntSpace_id _ hns]
  cases ds with
  | nil => exact absurd rfl hne
  | cons c cs =>
    have hc := hd c (by simp)
    have h45 : c ≠ 45 := by omega
    have h43 : c ≠ 43 := by omega
    have key : digitsUS 10 (c :: cs) 0 true = some (decVal (c :: cs)) := by
      rw [digitsUS_digits 10 _ hd10]; simp [decVal]
    have hsign : pySign (c :: cs) = (false, c :: cs) := by
      unfold pySign
      split
      · rename_i h1; simp at h1; exact absurd h1.1 h45
      · rename_i h1; simp at h1; exact absurd h1.1 h43
      · rfl
    have hbody : pyBody 10 (c :: cs) = digitsUS 10 (c :: cs) 0 true := by
      unfold pyBody
      split
      · simp
      · rfl
    simp [hsign, hbody, key]

theorem padDec2 (n : Nat) (h : n < 100) : padDec 2 n = [48 + n / 10, 48 + n % 10] := by
  unfold padDec
  by_cases h10 : n < 10
  · rw [natToDec]; simp [h10]; omega
  · rw [natToDec]
    have h1 : n / 10 < 10 := by omega
    simp only [h10, if_false]
    rw [natToDec]; simp [h1]

theorem padDec4 (n : Nat) (h1 : 1000 ≤ n) (h2 : n < 10000) :
    padDec 4 n = [48 + n / 1000, 48 + n / 100 % 10, 48 + n / 10 % 10, 48 + n % 10] := by
  unfold padDec
  have a : ¬ n < 10 := by omega
  have b : ¬ n / 10 < 10 := by omega
  have c : ¬ n / 10 / 10 < 10 := by omega
  have d : n / 10 / 10 / 10 < 10 := by omega
  rw [natToDec]; simp only [a, if_false]
  rw [natToDec]; simp only [b, if_false]
  rw [natToDec]; simp only [c, if_false]
  rw [natToDec]; simp only [d, if_true]
  have e1 : n / 10 / 10 / 10 = n / 1000 := by omega
  have e2 : n / 10 / 10 % 10 = n / 100 % 10 := by omega
  simp [e1, e2]

theorem pyIntSigned_2 (a b : Nat) (ha : a < 10) (hb : b < 10) : pyIntSigned [48 + a, 48 + b] = some ((a * 10 + b : Nat) : Int) := by
  unfold pyIntSigned
  rw [pyInt10_digits _ (by intro c hc; simp at hc; rcases hc with e | e <;> omega) (by simp)]
  simp [decVal]

theorem pyIntSigned_4 (a b c d : Nat) (ha : a < 10) (hb : b < 10) (hc : c < 10) (hd : d < 10) :
    pyIntSigned [48 + a, 48 + b, 48 + c, 48 + d] = some ((((a * 10 + b) * 10 + c) * 10 + d : Nat) : Int) := by
  unfold pyIntSigned
  rw [pyInt10_digits _ (by intro x hx; simp at hx; rcases hx with e | e | e | e <;> omega) (by simp)]
  simp [decVal]

theorem timegm_civil (z y mo d h mi s : Nat) (hok : okDay z = true) (hc : civilFromDays z = (y, mo, d)) :
    timegm (y : Int) (mo : Int) (d : Int) (h : Int) (mi : Int) (s : Int) = some ((((z * 24 + h) * 60 + mi) * 60 + s : Nat) : Int) := by
  unfold okDay at hok
  rw [hc] at hok
  simp only [Bool.and_eq_true, beq_iff_eq, decide_eq_true_eq] at hok
  obtain ⟨⟨⟨⟨⟨⟨hday, hy1⟩, hy2⟩, hm1⟩, hm2⟩, hd1⟩, hd2⟩ := hok
  unfold timegm
  have c1 : ¬ ((y : Int) < 1 ∨ (y : Int) > 9999 ∨ (mo : Int) < 1 ∨ (mo : Int) > 12) := by omega
  simp only [c1, if_false, Int.toNat_natCast]
  generalize daysFromCivilShift y mo 1 = sh at hday
  congr 1
  have : (sh : Int) - 719468 + (d : Int) - 1 = (z : Int) := by omega
  rw [this]
  push_cast
  rfl

theorem digits4 (y : Nat) (h : y < 10000) : ((y / 1000 * 10 + y / 100 % 10) * 10 + y / 10 % 10) * 10 + y % 10 = y := by omega
theorem digits2 (n : Nat) : n / 10 * 10 + n % 10 = n := by omega

theorem sigtime_rt (t : Nat) (ht : t < 4294967296) :
    sigtimeFromText (sigtimeToText t) = some t ∧ Plain (sigtimeToText t) ∧ sigtimeToText t ≠ [] := by
  have hz : t / 86400 < 49920 := by omega
  have hok := okDay_all (t / 86400) hz
  rcases hc : civilFromDays (t / 86400) with ⟨y, mo, d⟩
  have hr := hok
  unfold okDay at hr
  rw [hc] at hr
  simp only [Bool.and_eq_true, beq_iff_eq, decide_eq_true_eq] at hr
  obtain ⟨⟨⟨⟨⟨⟨_, hy1⟩, hy2⟩, hm1⟩, hm2⟩, hd1⟩, hd2⟩ := hr
  have hH : t % 86400 / 3600 < 100 := by omega
  have hM : t % 86400 % 3600 / 60 < 100 := by omega
  have hS : t % 86400 % 60 < 100 := by omega
  have htext : sigtimeToText t =
      [48 + y / 1000, 48 + y / 100 % 10, 48 + y / 10 % 10, 48 + y % 10, 48 + mo / 10, 48 + mo % 10, 48 + d / 10, 48 + d % 10,
       48 + t % 86400 / 3600 / 10, 48 + t % 86400 / 3600 % 10, 48 + t % 86400 % 3600 / 60 / 10, 48 + t % 86400 % 3600 / 60 % 10,
       48 + t % 86400 % 60 / 10, 48 + t % 86400 % 60 % 10] := by
    unfold sigtimeToText
    simp only [hc]
    rw [padDec4 y (by omega) (by omega), padDec2 mo (by omega), padDec2 d (by omega), padDec2 _ hH, padDec2 _ hM, padDec2 _ hS]
    rfl
  have htg := timegm_civil (t / 86400) y mo d (t % 86400 / 3600) (t % 86400 % 3600 / 60) (t % 86400 % 60) hok hc
  have hval : (t / 86400 * 24 + t % 86400 / 3600) * 60 + t % 86400 % 3600 / 60 = t / 60 := by omega
  have hval2 : ((t / 86400 * 24 + t % 86400 / 3600) * 60 + t % 86400 % 3600 / 60) * 60 + t % 86400 % 60 = t := by omega
  rw [hval2] at htg
  have hpl : Plain (sigtimeToText t) := by
    rw [htext]
    intro c hc'
    simp only [List.mem_cons, List.mem_nil_iff, or_false] at hc'
    have : 48 ≤ c ∧ c ≤ 57 := by omega
    simp [isDelim]; omega
  refine ⟨?_, hpl, by rw [htext]; simp⟩
  rw [htext]
  unfold sigtimeFromText
  have p1 := pyIntSigned_4 (y / 1000) (y / 100 % 10) (y / 10 % 10) (y % 10) (by omega) (by omega) (by omega) (by omega)
  have p2 := pyIntSigned_2 (mo / 10) (mo % 10) (by omega) (by omega)
  have p3 := pyIntSigned_2 (d / 10) (d % 10) (by omega) (by omega)
  have p4 := pyIntSigned_2 (t % 86400 / 3600 / 10) (t % 86400 / 3600 % 10) (by omega) (by omega)
  have p5 := pyIntSigned_2 (t % 86400 % 3600 / 60 / 10) (t % 86400 % 3600 / 60 % 10) (by omega) (by omega)
  have p6 := pyIntSigned_2 (t % 86400 % 60 / 10) (t % 86400 % 60 % 10) (by omega) (by omega)
  rw [digits4 y (by omega)] at p1
  rw [digits2] at p2 p3 p4 p5 p6
  simp only [List.length_cons, List.length_nil, List.take, List.drop]
  simp only [p1, p2, p3, p4, p5, p6, htg]
  simp
  omega

theorem parse_sigtime (env : PEnv) (x : List Nat) (t : Nat) (b : Plain x) (a : sigtimeFromText x = some t) :
    parseField env .sigtime ⟨.ident, x⟩ = some (.n t) := by
  have h1 : parseField env .sigtime ⟨.ident, x⟩ =
      (match unescapeCP x with | some v => (sigtimeFromText v).map FV.n | none => none) := rfl
  rw [h1, unescapeCP_plain_all x b]
  show Option.map FV.n (sigtimeFromText x) = some (.n t)
  rw [a]; rfl

theorem field_sigtime (st : Style) (env : PEnv) (t : Nat) (ht : t < 4294967296) :
    ∃ text, FieldRT st env .sigtime (.n t) text ⟨.ident, text⟩ := by
  obtain ⟨a, b, c⟩ := sigtime_rt t ht
  exact ⟨sigtimeToText t, rfl, lexes_plain _ c b, parse_sigtime env _ t b a, notHash_plain _ b⟩

end Model

import Model.ZoneFile
import Proofs.ZoneFileLossless
import Proofs.ZoneFileCodecsTxt
/-!
The codec instances in the shape `RecOK` asks for: after the (possibly padded) type column, one blank, the RDATA text
of the style, the comment the style keeps, the newline.
-/
namespace Model

theorem extra_lineEnd (st : Style) (rr : RR) : extraOf st rr ++ [10] = lineEnd (keptComment st rr) := by
  unfold extraOf keptComment lineEnd
  cases st.wantComments
  · simp
  · cases hc : rr.comment with
    | none => simp
    | some c =>
      by_cases he : c = [] <;> simp [he]

/-- a codec instance stated for "blanks, text, line end" gives the `rdata` field of `RecOK` -/
theorem recOK_rdata (st : Style) (ty : Nat) (rr : RR) (rtext : List Nat) (co : Option Name) (rel : Bool)
    (zo : Option Name) (gfix : Bool)
    (h : RdataReads ty ((padR (typeTok st ty) st.typeJust ++ [32]) ++ (rtext ++ lineEnd (keptComment st rr))) rr.rd
      (keptComment st rr) co rel zo gfix) :
    RdataReads ty (padR (typeTok st ty) st.typeJust ++ (32 :: (rtext ++ (extraOf st rr ++ [10])))) rr.rd
      (keptComment st rr) co rel zo gfix := by
  rw [extra_lineEnd]
  simpa [List.append_assoc] using h

theorem typeGap_sep (st : Style) (ty : Nat) : Blank (padR (typeTok st ty) st.typeJust ++ [32]) ∧
    padR (typeTok st ty) st.typeJust ++ [32] ≠ [] :=
  ⟨blank_append (padR_blank _ _) sp_blank, by simp⟩

/-- the comment a style keeps has no newline if the record's comment has none -/
theorem keptComment_nl (st : Style) (rr : RR) (h : ∀ c ∈ rr.comment, 10 ∉ c) : ∀ t ∈ keptComment st rr, 10 ∉ t := by
  intro t ht
  unfold keptComment at ht
  cases hw : st.wantComments
  · simp [hw] at ht
  · simp only [hw, if_true] at ht
    cases hc : rr.comment with
    | none => simp [hc] at ht
    | some c =>
      simp only [hc] at ht
      by_cases he : c = []
      · simp [he] at ht
      · simp only [he, if_false, Option.mem_def, Option.some.injEq] at ht
        subst ht
        exact h c (by simp [hc])

end Model

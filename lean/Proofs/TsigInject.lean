import Model.Tsig
import Proofs.TsigReader
import Proofs.TsigName
/-! The MAC input determines the authenticated content: two accepted messages with the same (input, MAC). -/
namespace Model.Tsig
open Model Rfc8945

/-- the whole message walked by its own header counts -/
def walkMsg (w : Bytes) : Option Nat :=
  match skipQuestions w (rd16 w 4) 12 with
  | none => none
  | some p0 =>
    match skipRRs w (rd16 w 6) p0 with
    | none => none
    | some p1 =>
      match skipRRs w (rd16 w 8) p1 with
      | none => none
      | some p2 => skipRRs w (rd16 w 10) p2

theorem walkTo_bounds (w : Bytes) (s : Nat) (h : walkTo w = some s) : 12 ≤ s ∧ (s = 12 ∨ s ≤ w.length) := by
  unfold walkTo at h
  split at h; · cases h
  rename_i p0 h0
  split at h; · cases h
  rename_i p1 h1
  split at h; · cases h
  rename_i p2 h2
  have b0 := skipQuestions_bounds w _ _ _ h0
  have b1 := skipRRs_bounds w _ _ _ h1
  have b2 := skipRRs_bounds w _ _ _ h2
  have b3 := skipRRs_bounds w _ _ _ h
  omega

/-- the walk to the TSIG RR, replayed on any buffer that agrees with the message on the counts (ARCOUNT one
less) and on the octets from 12 up to the TSIG RR -/
theorem walkMsg_of_walkTo (w U : Bytes) (s : Nat) (h : walkTo w = some s) (hU : s ≤ U.length)
    (h4 : rd16 U 4 = rd16 w 4) (h6 : rd16 U 6 = rd16 w 6) (h8 : rd16 U 8 = rd16 w 8) (h10 : rd16 U 10 = rd16 w 10 - 1)
    (hag : ∀ i, 12 ≤ i → i < s → U.getD i 0 = w.getD i 0) : walkMsg U = some s := by
  unfold walkTo at h
  unfold walkMsg
  split at h; · cases h
  rename_i p0 h0
  split at h; · cases h
  rename_i p1 h1
  split at h; · cases h
  rename_i p2 h2
  have b0 := skipQuestions_bounds w _ _ _ h0
  have b1 := skipRRs_bounds w _ _ _ h1
  have b2 := skipRRs_bounds w _ _ _ h2
  have b3 := skipRRs_bounds w _ _ _ h
  rw [h4, h6, h8, h10]
  rw [skipQuestions_transfer w U _ _ _ h0 (by omega) (fun i a b => hag i a (by omega))]
  simp only
  rw [skipRRs_transfer w U _ _ _ h1 (by omega) (fun i a b => hag i (by omega) (by omega))]
  simp only
  rw [skipRRs_transfer w U _ _ _ h2 (by omega) (fun i a b => hag i (by omega) (by omega))]
  simp only
  exact skipRRs_transfer w U _ _ _ h (by omega) (fun i a b => hag i (by omega) (by omega))

/-! ### the octets of `newWire` and of the digested string -/

theorem getD_eq (w : Bytes) (i : Nat) : w.getD i 0 = (w[i]?).getD 0 := List.getD_eq_getElem?_getD

theorem newWire_length (w : Bytes) (s : Nat) (h12 : 12 ≤ s) (hs : s ≤ w.length) : (newWire w s).length = s := by
  unfold newWire slice
  simp [ConstsC14.arcountOff, ConstsC14.arcountEnd, u16]
  omega

theorem newWire_getElem_lo (w : Bytes) (s i : Nat) (hs : 12 ≤ w.length) (hi : i < 10) : (newWire w s)[i]? = w[i]? := by
  unfold newWire
  simp only [ConstsC14.arcountOff, ConstsC14.arcountEnd, List.append_assoc]
  rw [List.getElem?_append_left (by simp; omega)]
  exact List.getElem?_take_of_lt hi

theorem newWire_getElem_hi (w : Bytes) (s i : Nat) (hs : 12 ≤ w.length) (h12 : 12 ≤ i) (hi : i < s) :
    (newWire w s)[i]? = w[i]? := by
  unfold newWire slice
  simp only [ConstsC14.arcountOff, ConstsC14.arcountEnd]
  rw [List.getElem?_append_right (by simp [u16]; omega)]
  simp only [List.length_append, List.length_take, u16, List.length_cons, List.length_nil]
  rw [List.getElem?_drop, List.getElem?_take_of_lt (by omega)]
  congr 1; omega

theorem newWire_rd16_10 (w : Bytes) (s : Nat) (hs : 12 ≤ w.length) (hc : rd16 w 10 - 1 < 65536) :
    rd16 (newWire w s) 10 = rd16 w 10 - 1 := by
  unfold newWire
  simp only [ConstsC14.arcountOff, ConstsC14.arcountEnd]
  have hlen : (List.take 10 w).length = 10 := by simp; omega
  have := rd16_u16 (rd16 w 10 - 1) hc (List.take 10 w) (slice w 12 s)
  rw [hlen] at this
  exact this

/-- the string `_digest` feeds after the (optional) prefix: message with original id, then the rest -/
def fedMessage (oid : Nat) (w : Bytes) (s : Nat) (rest : Bytes) : Bytes :=
  message oid (newWire w s) ++ rest

theorem fed_getElem (oid : Nat) (w : Bytes) (s : Nat) (rest : Bytes) (i : Nat) (h12 : 12 ≤ s) (hs : s ≤ w.length)
    (h2 : 2 ≤ i) (hi : i < s) : (fedMessage oid w s rest)[i]? = (newWire w s)[i]? := by
  unfold fedMessage message
  have hl := newWire_length w s h12 hs
  rw [List.getElem?_append_left (by simp [be_length, hl]; omega)]
  rw [List.getElem?_append_right (by simp [be_length]; omega)]
  simp only [be_length, List.getElem?_drop]
  congr 1; omega

theorem fed_length (oid : Nat) (w : Bytes) (s : Nat) (rest : Bytes) (h12 : 12 ≤ s) (hs : s ≤ w.length) :
    (fedMessage oid w s rest).length = s + rest.length := by
  unfold fedMessage message
  simp [be_length, newWire_length w s h12 hs]; omega

theorem rd16_congr (a b : Bytes) (i : Nat) (h0 : a[i]? = b[i]?) (h1 : a[i + 1]? = b[i + 1]?) : rd16 a i = rd16 b i := by
  unfold rd16; rw [getD_eq, getD_eq, getD_eq, getD_eq, h0, h1]

/-- the digested string, walked as a message by its own counts, ends exactly where the TSIG RR started -/
theorem walkMsg_fed (oid : Nat) (w : Bytes) (s : Nat) (rest : Bytes) (ho : OctetsOk w) (hl : 12 ≤ w.length)
    (h : walkTo w = some s) (hs : s ≤ w.length) : walkMsg (fedMessage oid w s rest) = some s := by
  have hb := walkTo_bounds w s h
  have h12 : 12 ≤ s := hb.1
  have e : ∀ i, 2 ≤ i → i < 10 → (fedMessage oid w s rest)[i]? = w[i]? := fun i a b => by
    rw [fed_getElem oid w s rest i h12 hs a (by omega), newWire_getElem_lo w s i hl b]
  have e' : ∀ i, 12 ≤ i → i < s → (fedMessage oid w s rest)[i]? = w[i]? := fun i a b => by
    rw [fed_getElem oid w s rest i h12 hs (by omega) b, newWire_getElem_hi w s i hl a b]
  apply walkMsg_of_walkTo w _ s h (by rw [fed_length oid w s rest h12 hs]; omega)
  · exact rd16_congr _ _ 4 (e 4 (by omega) (by omega)) (e 5 (by omega) (by omega))
  · exact rd16_congr _ _ 6 (e 6 (by omega) (by omega)) (e 7 (by omega) (by omega))
  · exact rd16_congr _ _ 8 (e 8 (by omega) (by omega)) (e 9 (by omega) (by omega))
  · have hc : rd16 w 10 - 1 < 65536 := by have := rd16_lt w ho 10; omega
    rw [← newWire_rd16_10 w s hl hc]
    exact rd16_congr _ _ 10 (fed_getElem oid w s rest 10 h12 hs (by omega) (by omega))
      (fed_getElem oid w s rest 11 h12 hs (by omega) (by omega))
  · intro i a b
    rw [getD_eq, getD_eq, e' i a b]

end Model.Tsig

namespace Model.Tsig
open Model Rfc8945

theorem be2_inj (a b : Nat) (ha : a < 65536) (hb : b < 65536) (h : be 2 a = be 2 b) : a = b := by
  simp [be] at h; omega

theorem be6_inj (a b : Nat) (ha : a < 281474976710656) (hb : b < 281474976710656) (h : be 6 a = be 6 b) : a = b := by
  simp [be] at h; omega

theorem rd32_lt (w : Bytes) (h : OctetsOk w) (i : Nat) : rd32 w i < 4294967296 := by
  have a := rd16_lt w h i
  have b := rd16_lt w h (i + 2)
  unfold rd32; omega

theorem rd48_lt (w : Bytes) (h : OctetsOk w) (i : Nat) : rd48 w i < 281474976710656 := by
  have a := rd16_lt w h i
  have b := rd32_lt w h (i + 2)
  unfold rd48; omega

theorem rdataParse_bounds (w : Bytes) (a b : Nat) (rd : Rdata) (ho : OctetsOk w) (h : rdataParse w a b = .ok rd) :
    rd.timeSigned < 281474976710656 ∧ rd.fudge < 65536 ∧ rd.originalId < 65536 ∧ rd.error < 65536 := by
  unfold rdataParse at h
  split at h; · cases h
  split at h; · cases h
  split at h; · cases h
  dsimp only at h
  split at h; · cases h
  split at h; · cases h
  split at h; · cases h
  split at h; · cases h
  split at h; · cases h
  cases h
  exact ⟨rd48_lt w ho _, rd16_lt w ho _, rd16_lt w ho _, rd16_lt w ho _⟩

/-- what an accepting run with a fixed key establishes about a message reported as signed -/
structure Accepted (V : Verifier) (tbl : List AlgEntry) (w : Bytes) (k : Key) (now : Nat) (rm : Bytes)
    (ctx : Option Ctx) (multi : Bool) (s p : Nat) (owner : Name) (rd : Rdata) (c : Ctx) (c' : Option Ctx) : Prop where
  len : 12 ≤ w.length
  walk : walkTo w = some s
  name : skipName w w.length (w.length + 1) s = some p
  hdr : p + 10 + rd16 w (p + 8) = w.length
  typ : rd16 w p = ConstsC14.typeTsig
  cls : rd16 w (p + 2) = ConstsC14.classAny
  own : decodeName w s = .ok owner
  parse : rdataParse w (p + 10) w.length = .ok rd
  valid : validateV V tbl w k owner rd now rm s ctx multi = .ok (c, c')

/-- whatever the keyring: a message reported as signed *and checked* went through `validate` with the key the
keyring resolves for its owner name -/
theorem accepted_of_read_any (V : Verifier) (tbl : List AlgEntry) (strict : Bool) (w : Bytes) (kr : Keyring) (now : Nat)
    (rm : Bytes) (ctx : Option Ctx) (multi : Bool) (r : ReadOk) (f : Found) (c0 : Ctx) (m0 : Bytes)
    (h : readV V tbl strict w kr now rm ctx multi = .ok r) (hf : r.tsig = some f) (hchk : f.checked = some (c0, m0)) :
    ∃ s p owner rd k c c', resolveKey kr owner rd = .ok (some k) ∧ f = ⟨owner, rd, some (c, rd.mac)⟩ ∧ r.ctx = c'
      ∧ Accepted V tbl w k now rm ctx multi s p owner rd c c' ∧ (strict = true → rd32 w (p + 4) = 0) := by
  obtain ⟨hl, _, s, p, st3, hw, hp, ht, hr, hend, hts, hctx⟩ := readV_signed V tbl strict w kr now rm ctx multi r f h hf
  obtain ⟨_, hcls, _, hstrict, hle, hcur, owner, rd, hfw, hrd, hcase⟩ :=
    readRR_tsig V tbl strict w kr now rm multi 3 _ _ ⟨s, none, ctx⟩ st3 p hp ht hr
  have hwl : p + 10 + rd16 w (p + 8) = w.length := by rw [← hcur, hend]
  rcases hcase with ⟨hres, htsig, _⟩ | ⟨key, c, c', hres, hv, htsig, hc'⟩
  · rw [hts] at htsig
    have := Option.some.inj htsig
    subst this
    simp at hchk
  · refine ⟨s, p, owner, rd, key, c, c', hres, ?_, by rw [hctx, hc'],
      ⟨hl, hw, hp, hwl, ht, hcls, hfw, by rw [← hwl]; exact hrd, hv⟩, hstrict⟩
    rw [hts] at htsig
    exact (Option.some.inj htsig)

theorem accepted_of_read (V : Verifier) (tbl : List AlgEntry) (strict : Bool) (w : Bytes) (k : Key) (now : Nat)
    (rm : Bytes) (ctx : Option Ctx) (multi : Bool) (r : ReadOk) (f : Found)
    (h : readV V tbl strict w (.key k) now rm ctx multi = .ok r) (hf : r.tsig = some f) :
    ∃ s p owner rd c c', f = ⟨owner, rd, some (c, rd.mac)⟩ ∧ r.ctx = c'
      ∧ Accepted V tbl w k now rm ctx multi s p owner rd c c' ∧ (strict = true → rd32 w (p + 4) = 0) := by
  obtain ⟨hl, _, s, p, st3, hw, hp, ht, hr, hend, hts, hctx⟩ := readV_signed V tbl strict w (.key k) now rm ctx multi r f h hf
  obtain ⟨_, hcls, _, hstrict, hle, hcur, owner, rd, hfw, hrd, hcase⟩ :=
    readRR_tsig V tbl strict w (.key k) now rm multi 3 _ _ ⟨s, none, ctx⟩ st3 p hp ht hr
  have hwl : p + 10 + rd16 w (p + 8) = w.length := by rw [← hcur, hend]
  rcases hcase with ⟨hres, _, _⟩ | ⟨key, c, c', hres, hv, htsig, hc'⟩
  · simp [resolveKey] at hres
  · simp only [resolveKey, Except.ok.injEq, Option.some.injEq] at hres
    subst hres
    refine ⟨s, p, owner, rd, c, c', ?_, by rw [hctx, hc'], ⟨hl, hw, hp, hwl, ht, hcls, hfw, by rw [← hwl]; exact hrd, hv⟩, hstrict⟩
    rw [hts] at htsig
    exact (Option.some.inj htsig)

/-- **the MAC input determines the authenticated content.**  Two messages accepted as signed under the same
key, request MAC, running context and `multi`, whose MAC inputs are the same octet string: their TSIG RRs start
at the same offset, they agree on every octet from 2 up to there (everything but the message ID), and on the
original ID, time signed and fudge; for a first/stand-alone message also on error and other data. -/
theorem same_input_same_content (V1 V2 : Verifier) (tbl : List AlgEntry) (w1 w2 : Bytes) (k1 k2 : Key) (now1 now2 : Nat)
    (rm : Bytes) (ctx : Option Ctx) (multi : Bool) (s1 s2 p1 p2 : Nat) (o1 o2 : Name) (rd1 rd2 : Rdata) (c1 c2 : Ctx)
    (c1' c2' : Option Ctx) (ho1 : OctetsOk w1) (ho2 : OctetsOk w2)
    (a1 : Accepted V1 tbl w1 k1 now1 rm ctx multi s1 p1 o1 rd1 c1 c1')
    (a2 : Accepted V2 tbl w2 k2 now2 rm ctx multi s2 p2 o2 rd2 c2 c2')
    (hd : c1.data = c2.data) :
    s1 = s2 ∧ (∀ i, 2 ≤ i → i < s1 → w1[i]? = w2[i]?)
      ∧ (newWire w1 s1).drop 2 = (newWire w2 s2).drop 2
      ∧ rd1.originalId = rd2.originalId ∧ rd1.timeSigned = rd2.timeSigned ∧ rd1.fudge = rd2.fudge
      ∧ ((multi = false ∨ ctx = none) → rd1.error = rd2.error ∧ rd1.other = rd2.other
          ∧ canon k1.name = canon k2.name ∧ canon k1.algorithm = canon k2.algorithm) := by
  obtain ⟨h01, _, _, hn1, hg1, hd1, _, _⟩ := validateV_ok V1 tbl w1 k1 o1 rd1 now1 rm s1 ctx multi c1 c1' a1.valid
  obtain ⟨h02, _, _, hn2, hg2, hd2, _, _⟩ := validateV_ok V2 tbl w2 k2 o2 rd2 now2 rm s2 ctx multi c2 c2' a2.valid
  -- the canonical key and algorithm names are canonical forms of decoded (absolute) names
  have cn1 : canon k1.name = toWire (lowerName o1) := by
    rw [← digestable_eq_canon]; unfold digestable; rw [(nameEq_iff _ _).mp hn1]
  have cn2 : canon k2.name = toWire (lowerName o2) := by
    rw [← digestable_eq_canon]; unfold digestable; rw [(nameEq_iff _ _).mp hn2]
  have ca1 : canon k1.algorithm = toWire (lowerName rd1.algorithm) := by
    rw [← digestable_eq_canon]; unfold digestable; rw [(nameEq_iff _ _).mp hg1]
  have ca2 : canon k2.algorithm = toWire (lowerName rd2.algorithm) := by
    rw [← digestable_eq_canon]; unfold digestable; rw [(nameEq_iff _ _).mp hg2]
  have ao1 := absLabels_lower _ (absLabels_of_decode w1 s1 o1 a1.own)
  have ao2 := absLabels_lower _ (absLabels_of_decode w2 s2 o2 a2.own)
  have ag1 := absLabels_lower _ (rdataParse_alg_abs w1 _ rd1 a1.parse)
  have ag2 := absLabels_lower _ (rdataParse_alg_abs w2 _ rd2 a2.parse)
  have hs1 : s1 ≤ w1.length := by have := skipName_bounds _ _ _ _ _ a1.name; omega
  have hs2 : s2 ≤ w2.length := by have := skipName_bounds _ _ _ _ _ a2.name; omega
  have hb1 := (walkTo_bounds w1 s1 a1.walk).1
  have hb2 := (walkTo_bounds w2 s2 a2.walk).1
  obtain ⟨bt1, bf1, bo1, be1⟩ := rdataParse_bounds w1 _ _ rd1 ho1 a1.parse
  obtain ⟨bt2, bf2, bo2, be2⟩ := rdataParse_bounds w2 _ _ rd2 ho2 a2.parse
  -- both inputs are a common prefix followed by the fed message and a rest
  have key : ∃ (P r1 r2 : Bytes), c1.data = P ++ fedMessage rd1.originalId w1 s1 r1
      ∧ c2.data = P ++ fedMessage rd2.originalId w2 s2 r2
      ∧ (r1 = r2 → rd1.timeSigned = rd2.timeSigned ∧ rd1.fudge = rd2.fudge
          ∧ ((multi = false ∨ ctx = none) → rd1.error = rd2.error ∧ rd1.other = rd2.other
              ∧ canon k1.name = canon k2.name ∧ canon k1.algorithm = canon k2.algorithm)) := by
    cases hm : (if multi then ctx else none) with
    | none =>
      refine ⟨(if rm = [] then [] else macField rm), variables (varsOf k1 rd1 none), variables (varsOf k2 rd2 none), ?_, ?_, ?_⟩
      · rw [digest_first_data tbl _ k1 rd1 none rm ctx multi c1 hm hd1]; simp [fedMessage]
      · rw [digest_first_data tbl _ k2 rd2 none rm ctx multi c2 hm hd2]; simp [fedMessage]
      · intro hv
        simp only [variables, varsOf, Option.getD_none, List.append_assoc] at hv
        -- the key name, a prefix-free code, splits off
        rw [cn1, cn2] at hv
        obtain ⟨en, hv⟩ := toWire_prefix_free _ _ ao1 ao2 _ _ hv
        have hv := List.append_cancel_left hv
        have hv := List.append_cancel_left hv
        rw [ca1, ca2] at hv
        obtain ⟨ea, hv⟩ := toWire_prefix_free _ _ ag1 ag2 _ _ hv
        obtain ⟨e1, hv⟩ := List.append_inj hv (by simp [be_length])
        obtain ⟨e2, hv⟩ := List.append_inj hv (by simp [be_length])
        obtain ⟨e3, hv⟩ := List.append_inj hv (by simp [be_length])
        obtain ⟨_, e4⟩ := List.append_inj hv (by simp [be_length])
        exact ⟨be6_inj _ _ bt1 bt2 e1, be2_inj _ _ bf1 bf2 e2,
          fun _ => ⟨be2_inj _ _ be1 be2 e3, e4, by rw [cn1, cn2, en], by rw [ca1, ca2, ea]⟩⟩
    | some c0 =>
      have hmulti : multi = true ∧ ctx = some c0 := by
        cases multi <;> simp at hm
        exact ⟨rfl, hm⟩
      obtain ⟨hmt, hcx⟩ := hmulti
      subst hmt; subst hcx
      refine ⟨c0.data, timers (varsOf k1 rd1 none), timers (varsOf k2 rd2 none), ?_, ?_, ?_⟩
      · rw [digest_later_data tbl _ k1 rd1 none rm c0 c1 hd1]; simp [fedMessage]
      · rw [digest_later_data tbl _ k2 rd2 none rm c0 c2 hd2]; simp [fedMessage]
      · intro hv
        simp only [timers, varsOf, Option.getD_none] at hv
        obtain ⟨e1, e2⟩ := List.append_inj hv (by simp [be_length])
        refine ⟨be6_inj _ _ bt1 bt2 e1, be2_inj _ _ bf1 bf2 e2, fun h => ?_⟩
        rcases h with h | h <;> simp at h
  obtain ⟨P, r1, r2, e1, e2, hrest⟩ := key
  rw [e1, e2] at hd
  have hfed := List.append_cancel_left hd
  -- the walk ends where the TSIG RR started, in both
  have hw1 := walkMsg_fed rd1.originalId w1 s1 r1 ho1 a1.len a1.walk hs1
  have hw2 := walkMsg_fed rd2.originalId w2 s2 r2 ho2 a2.len a2.walk hs2
  rw [hfed, hw2] at hw1
  have hs : s1 = s2 := (Option.some.inj hw1).symm
  subst hs
  -- split the fed string
  unfold fedMessage at hfed
  have hl1 : (message rd1.originalId (newWire w1 s1)).length = (message rd2.originalId (newWire w2 s1)).length := by
    simp [message, be_length, newWire_length _ _ hb1 hs1, newWire_length _ _ hb1 hs2]
  obtain ⟨hmsg, hr⟩ := List.append_inj hfed hl1
  unfold message at hmsg
  obtain ⟨hoid, hdrop⟩ := List.append_inj hmsg (by simp [be_length])
  have hoid' := be2_inj _ _ bo1 bo2 hoid
  obtain ⟨ht, hfu, hrest'⟩ := hrest hr
  refine ⟨rfl, ?_, hdrop, hoid', ht, hfu, hrest'⟩
  -- octet by octet
  have hW : ∀ i, 2 ≤ i → (newWire w1 s1)[i]? = (newWire w2 s1)[i]? := by
    intro i hi
    have := congrArg (fun l => l[i - 2]?) hdrop
    simp only [List.getElem?_drop] at this
    have e : 2 + (i - 2) = i := by omega
    rw [e] at this
    exact this
  intro i h2 hi
  by_cases hlo : i < 10
  · rw [← newWire_getElem_lo w1 s1 i a1.len hlo, ← newWire_getElem_lo w2 s1 i a2.len hlo]
    exact hW i h2
  · by_cases hhi : 12 ≤ i
    · rw [← newWire_getElem_hi w1 s1 i a1.len hhi hi, ← newWire_getElem_hi w2 s1 i a2.len hhi hi]
      exact hW i h2
    · -- ARCOUNT: both counts are at least 1 and their predecessors are equal
      have hc1 : rd16 w1 10 - 1 < 65536 := by have := rd16_lt w1 ho1 10; omega
      have hc2 : rd16 w2 10 - 1 < 65536 := by have := rd16_lt w2 ho2 10; omega
      have hr16 : rd16 (newWire w1 s1) 10 = rd16 (newWire w2 s1) 10 :=
        rd16_congr _ _ 10 (hW 10 (by omega)) (hW 11 (by omega))
      rw [newWire_rd16_10 w1 s1 a1.len hc1, newWire_rd16_10 w2 s1 a2.len hc2] at hr16
      have hcount : rd16 w1 10 = rd16 w2 10 := by omega
      have g1a := getD_lt w1 ho1 10
      have g1b := getD_lt w1 ho1 11
      have g2a := getD_lt w2 ho2 10
      have g2b := getD_lt w2 ho2 11
      unfold rd16 at hcount
      have hx : w1.getD 10 0 = w2.getD 10 0 ∧ w1.getD 11 0 = w2.getD 11 0 := by
        simp only [show 10 + 1 = 11 from rfl] at hcount
        omega
      have l1 := a1.len
      have l2 := a2.len
      have : i = 10 ∨ i = 11 := by omega
      rcases this with rfl | rfl
      · have := hx.1
        rw [getD_eq, getD_eq, List.getElem?_eq_getElem (by omega), List.getElem?_eq_getElem (by omega)] at this
        rw [List.getElem?_eq_getElem (by omega), List.getElem?_eq_getElem (by omega)]
        simpa using this
      · have := hx.2
        rw [getD_eq, getD_eq, List.getElem?_eq_getElem (by omega), List.getElem?_eq_getElem (by omega)] at this
        rw [List.getElem?_eq_getElem (by omega), List.getElem?_eq_getElem (by omega)]
        simpa using this

end Model.Tsig

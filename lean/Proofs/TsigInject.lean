import Model.Tsig
import Proofs.TsigReader
/-! The MAC input determines the authenticated content: two accepted messages with the same (input, MAC). -/
namespace Model.Tsig
open Model Rfc8945

/-- the whole message walked by its own header counts -/
def walkMsg (w : Bytes) : Option Nat :=
  match skipQuestions w (rd16 w 4) 12 with
  | none => none
  | some p0 =>
    match skipRRs w (rd16 w 6) p0 with
    | none => none
    | some p1 =>
      match skipRRs w (rd16 w 8) p1 with
      | none => none
      | some p2 => skipRRs w (rd16 w 10) p2

theorem walkTo_bounds (w : Bytes) (s : Nat) (h : walkTo w = some s) : 12 ≤ s ∧ (s = 12 ∨ s ≤ w.length) := by
  unfold walkTo at h
  split at h; · cases h
  rename_i p0 h0
  split at h; · cases h
  rename_i p1 h1
  split at h; · cases h
  rename_i p2 h2
  have b0 := skipQuestions_bounds w _ _ _ h0
  have b1 := skipRRs_bounds w _ _ _ h1
  have b2 := skipRRs_bounds w _ _ _ h2
  have b3 := skipRRs_bounds w _ _ _ h
  omega

/-- the walk to the TSIG RR, replayed on any buffer that agrees with the message on the counts (ARCOUNT one
less) and on the octets from 12 up to the TSIG RR -/
theorem walkMsg_of_walkTo (w U : Bytes) (s : Nat) (h : walkTo w = some s) (hU : s ≤ U.length)
    (h4 : rd16 U 4 = rd16 w 4) (h6 : rd16 U 6 = rd16 w 6) (h8 : rd16 U 8 = rd16 w 8) (h10 : rd16 U 10 = rd16 w 10 - 1)
    (hag : ∀ i, 12 ≤ i → i < s → U.getD i 0 = w.getD i 0) : walkMsg U = some s := by
  unfold walkTo at h
  unfold walkMsg
  split at h; · cases h
  rename_i p0 h0
  split at h; · cases h
  rename_i p1 h1
  split at h; · cases h
  rename_i p2 h2
  have b0 := skipQuestions_bounds w _ _ _ h0
  have b1 := skipRRs_bounds w _ _ _ h1
  have b2 := skipRRs_bounds w _ _ _ h2
  have b3 := skipRRs_bounds w _ _ _ h
  rw [h4, h6, h8, h10]
  rw [skipQuestions_transfer w U _ _ _ h0 (by omega) (fun i a b => hag i a (by omega))]
  simp only
  rw [skipRRs_transfer w U _ _ _ h1 (by omega) (fun i a b => hag i (by omega) (by omega))]
  simp only
  rw [skipRRs_transfer w U _ _ _ h2 (by omega) (fun i a b => hag i (by omega) (by omega))]
  simp only
  exact skipRRs_transfer w U _ _ _ h (by omega) (fun i a b => hag i (by omega) (by omega))

/-! ### the octets of `newWire` and of the digested string -/

theorem getD_eq (w : Bytes) (i : Nat) : w.getD i 0 = (w[i]?).getD 0 := List.getD_eq_getElem?_getD

theorem newWire_length (w : Bytes) (s : Nat) (h12 : 12 ≤ s) (hs : s ≤ w.length) : (newWire w s).length = s := by
  unfold newWire slice
  simp [ConstsC14.arcountOff, ConstsC14.arcountEnd, u16]
  omega

theorem newWire_getElem_lo (w : Bytes) (s i : Nat) (hs : 12 ≤ w.length) (hi : i < 10) : (newWire w s)[i]? = w[i]? := by
  unfold newWire
  simp only [ConstsC14.arcountOff, ConstsC14.arcountEnd, List.append_assoc]
  rw [List.getElem?_append_left (by simp; omega)]
  exact List.getElem?_take_of_lt hi

theorem newWire_getElem_hi (w : Bytes) (s i : Nat) (hs : 12 ≤ w.length) (h12 : 12 ≤ i) (hi : i < s) :
    (newWire w s)[i]? = w[i]? := by
  unfold newWire slice
  simp only [ConstsC14.arcountOff, ConstsC14.arcountEnd]
  rw [List.getElem?_append_right (by simp [u16]; omega)]
  simp only [List.length_append, List.length_take, u16, List.length_cons, List.length_nil]
  rw [List.getElem?_drop, List.getElem?_take_of_lt (by omega)]
  congr 1; omega

theorem newWire_rd16_10 (w : Bytes) (s : Nat) (hs : 12 ≤ w.length) (hc : rd16 w 10 - 1 < 65536) :
    rd16 (newWire w s) 10 = rd16 w 10 - 1 := by
  unfold newWire
  simp only [ConstsC14.arcountOff, ConstsC14.arcountEnd]
  have hlen : (List.take 10 w).length = 10 := by simp; omega
  have := rd16_u16 (rd16 w 10 - 1) hc (List.take 10 w) (slice w 12 s)
  rw [hlen] at this
  exact this

/-- the string `_digest` feeds after the (optional) prefix: message with original id, then the rest -/
def fedMessage (oid : Nat) (w : Bytes) (s : Nat) (rest : Bytes) : Bytes :=
  message oid (newWire w s) ++ rest

theorem fed_getElem (oid : Nat) (w : Bytes) (s : Nat) (rest : Bytes) (i : Nat) (h12 : 12 ≤ s) (hs : s ≤ w.length)
    (h2 : 2 ≤ i) (hi : i < s) : (fedMessage oid w s rest)[i]? = (newWire w s)[i]? := by
  unfold fedMessage message
  have hl := newWire_length w s h12 hs
  rw [List.getElem?_append_left (by simp [be_length, hl]; omega)]
  rw [List.getElem?_append_right (by simp [be_length]; omega)]
  simp only [be_length, List.getElem?_drop]
  congr 1; omega

theorem fed_length (oid : Nat) (w : Bytes) (s : Nat) (rest : Bytes) (h12 : 12 ≤ s) (hs : s ≤ w.length) :
    (fedMessage oid w s rest).length = s + rest.length := by
  unfold fedMessage message
  simp [be_length, newWire_length w s h12 hs]; omega

theorem rd16_congr (a b : Bytes) (i : Nat) (h0 : a[i]? = b[i]?) (h1 : a[i + 1]? = b[i + 1]?) : rd16 a i = rd16 b i := by
  unfold rd16; rw [getD_eq, getD_eq, getD_eq, getD_eq, h0, h1]

/-- the digested string, walked as a message by its own counts, ends exactly where the TSIG RR started -/
theorem walkMsg_fed (oid : Nat) (w : Bytes) (s : Nat) (rest : Bytes) (ho : OctetsOk w) (hl : 12 ≤ w.length)
    (h : walkTo w = some s) (hs : s ≤ w.length) : walkMsg (fedMessage oid w s rest) = some s := by
  have hb := walkTo_bounds w s h
  have h12 : 12 ≤ s := hb.1
  have e : ∀ i, 2 ≤ i → i < 10 → (fedMessage oid w s rest)[i]? = w[i]? := fun i a b => by
    rw [fed_getElem oid w s rest i h12 hs a (by omega), newWire_getElem_lo w s i hl b]
  have e' : ∀ i, 12 ≤ i → i < s → (fedMessage oid w s rest)[i]? = w[i]? := fun i a b => by
    rw [fed_getElem oid w s rest i h12 hs (by omega) b, newWire_getElem_hi w s i hl a b]
  apply walkMsg_of_walkTo w _ s h (by rw [fed_length oid w s rest h12 hs]; omega)
  · exact rd16_congr _ _ 4 (e 4 (by omega) (by omega)) (e 5 (by omega) (by omega))
  · exact rd16_congr _ _ 6 (e 6 (by omega) (by omega)) (e 7 (by omega) (by omega))
  · exact rd16_congr _ _ 8 (e 8 (by omega) (by omega)) (e 9 (by omega) (by omega))
  · have hc : rd16 w 10 - 1 < 65536 := by have := rd16_lt w ho 10; omega
    rw [← newWire_rd16_10 w s hl hc]
    exact rd16_congr _ _ 10 (fed_getElem oid w s rest 10 h12 hs (by omega) (by omega))
      (fed_getElem oid w s rest 11 h12 hs (by omega) (by omega))
  · intro i a b
    rw [getD_eq, getD_eq, e' i a b]

end Model.Tsig

import Proofs.BTreeZoneGlue
/-!
`put_rdataset`, `delete_rdataset`, `delete_node` keep a version `Good`, for every variant, under the guards
that exclude exactly the triggers of D15, D16 and CNAME-at-a-cut for the decision points left as shipped.
-/
namespace Model
namespace BTZ

/-! ## rdataset lists -/

theorem classify_ns : classify (ConstsC20.nsType, 0) = Kind.regular := by decide

theorem isNS_iff {k : RdKey} (hk : KeyWf k) : isNS k = true ↔ k = (ConstsC20.nsType, 0) := by
  constructor
  · exact hk
  · intro e; rw [e]; decide

theorem RdsOK_nil : RdsOK [] := ⟨List.nodup_nil, by simp⟩

theorem RdsOK_erase {rds : List RdKey} (h : RdsOK rds) (k : RdKey) : RdsOK (rds.erase k) :=
  ⟨h.1.erase k, fun r hr => h.2 r (List.mem_of_mem_erase hr)⟩

theorem RdsOK_replace {rds : List RdKey} (h : RdsOK rds) {k : RdKey} (hk : KeyWf k) : RdsOK (replaceRds rds k) := by
  unfold replaceRds appendRds deleteRds
  have he := RdsOK_erase h k
  have hnk : k ∉ rds.erase k := fun hm => (List.Nodup.mem_erase_iff h.1).mp hm |>.1 rfl
  have key : ∀ kept : List RdKey, (∀ r ∈ kept, r ∈ rds.erase k) → kept.Nodup → RdsOK (kept ++ [k]) := by
    intro kept hsub hnd
    refine ⟨?_, ?_⟩
    · rw [List.nodup_append]
      refine ⟨hnd, by simp, ?_⟩
      intro a ha b hb
      simp at hb; subst hb
      intro e; subst e; exact hnk (hsub a ha)
    · intro r hr
      rcases List.mem_append.mp hr with hr | hr
      · exact he.2 r (hsub r hr)
      · simp at hr; subst hr; exact hk
  split
  · exact key _ (fun r hr => hr) he.1
  · split
    · exact key _ (fun r hr => (List.mem_filter.mp hr).1) (he.1.filter _)
    · exact key _ (fun r hr => (List.mem_filter.mp hr).1) (he.1.filter _)
    · exact key _ (fun r hr => hr) he.1

theorem hasNS_erase {rds : List RdKey} (h : RdsOK rds) {k : RdKey} (hk : KeyWf k) :
    hasNS (rds.erase k) = if isNS k then false else hasNS rds := by
  by_cases hns : isNS k = true
  · simp only [hns, if_true]
    unfold hasNS
    rw [List.any_eq_false]
    intro r hr
    have hr' := (List.Nodup.mem_erase_iff h.1).mp hr
    cases hh : isNS r with
    | false => simp
    | true =>
      have := h.2 r hr'.2 hh
      rw [(isNS_iff hk).mp hns] at hr'
      exact absurd this hr'.1
  · have hns' : isNS k = false := by simpa using hns
    simp only [hns', Bool.false_eq_true, if_false]
    unfold hasNS
    apply bool_eq_of_iff
    rw [List.any_eq_true, List.any_eq_true]
    constructor
    · rintro ⟨r, hr, hh⟩; exact ⟨r, List.mem_of_mem_erase hr, hh⟩
    · rintro ⟨r, hr, hh⟩
      refine ⟨r, (List.mem_erase_of_ne ?_).mpr hr, hh⟩
      intro e; rw [e, hns'] at hh; exact absurd hh (by decide)

theorem hasNS_replace {rds : List RdKey} (h : RdsOK rds) {k : RdKey} (hk : KeyWf k) :
    hasNS (replaceRds rds k) =
      if isNS k then true else if classify k = Kind.cname then false else hasNS rds := by
  have he := RdsOK_erase h k
  have hnsk : ∀ r ∈ rds.erase k, isNS r = true → classify r = Kind.regular := by
    intro r hr hh; rw [he.2 r hr hh]; exact classify_ns
  by_cases hns : isNS k = true
  · simp only [hns, if_true]
    unfold replaceRds appendRds hasNS
    rw [List.any_append]; simp [hns]
  · have hns' : isNS k = false := by simpa using hns
    simp only [hns', Bool.false_eq_true, if_false]
    have herase := hasNS_erase h hk
    simp only [hns', Bool.false_eq_true, if_false] at herase
    unfold replaceRds appendRds deleteRds
    by_cases hc : classify k = Kind.cname
    · simp only [hc, if_true]
      unfold hasNS
      rw [List.any_append]
      simp only [List.any_cons, hns', List.any_nil, Bool.or_false]
      split
      · rename_i hemp
        simp only [List.isEmpty_iff] at hemp
        rw [hemp]; rfl
      · rw [List.any_eq_false]
        intro r hr
        obtain ⟨hm, hf⟩ := List.mem_filter.mp hr
        cases hh : isNS r with
        | false => simp
        | true => rw [hnsk r hm hh] at hf; simp at hf
    · simp only [hc, if_false]
      have hkeep : ∀ kept : List RdKey, hasNS kept = hasNS (rds.erase k) → hasNS (kept ++ [k]) = hasNS rds := by
        intro kept hk'
        unfold hasNS at hk' ⊢
        rw [List.any_append, hk']
        simp only [List.any_cons, hns', List.any_nil, Bool.or_false]
        exact herase
      split
      · exact hkeep _ rfl
      · split
        · rename_i hcl; exact absurd hcl hc
        · apply hkeep
          unfold hasNS
          apply bool_eq_of_iff
          rw [List.any_eq_true, List.any_eq_true]
          constructor
          · rintro ⟨r, hr, hh⟩; exact ⟨r, (List.mem_filter.mp hr).1, hh⟩
          · rintro ⟨r, hr, hh⟩
            exact ⟨r, List.mem_filter.mpr ⟨hr, by rw [hnsk r hr hh]; decide⟩, hh⟩
        · exact hkeep _ rfl

/-! ## `Rewritten` for the shapes the operations produce -/

theorem keysLC_nins {N : Nodes} (h : NWF N) {name : Name} (hn : LC name) (nd : Node) :
    ∀ e ∈ nins N name nd, LC e.1 := (NWF_nins h hn).2

/-- the node at `name` replaced, nothing else touched -/
theorem rewritten_nins {N : Nodes} (h : NWF N) {name : Name} (hn : LC name) (node0 node3 : Node) :
    Rewritten N (nins (nins N name node0) name node3) name (some node3) (fun _ nd => nd) := by
  have h1 := NWF_nins (v := node0) h hn
  refine ⟨?_, ?_, ?_, fun _ _ => rfl⟩
  · rw [nget_nins h1.2 hn hn]; simp
  · intro k hk hp
    have hne : k ≠ name := by intro e; rw [e, properSub_irrefl] at hp; exact absurd hp (by decide)
    rw [nget_nins h1.2 hn hk, nget_nins h.2 hn hk]; simp [hne]
  · intro k hk hne _
    rw [nget_nins h1.2 hn hk, nget_nins h.2 hn hk]; simp [hne]

/-- the node at `name` removed, nothing else touched -/
theorem rewritten_ndel {N : Nodes} (h : NWF N) {name : Name} (hn : LC name) (node0 : Node) :
    Rewritten N (ndel (nins N name node0) name) name none (fun _ nd => nd) := by
  have h1 := NWF_nins (v := node0) h hn
  refine ⟨?_, ?_, ?_, fun _ _ => rfl⟩
  · rw [nget_ndel h1.2 hn hn]; simp
  · intro k hk hp
    have hne : k ≠ name := by intro e; rw [e, properSub_irrefl] at hp; exact absurd hp (by decide)
    rw [nget_ndel h1.2 hn hk, nget_nins h.2 hn hk]; simp [hne]
  · intro k hk hne _
    rw [nget_ndel h1.2 hn hk, nget_nins h.2 hn hk]; simp [hne]

theorem rewritten_ndel' {N : Nodes} (h : NWF N) {name : Name} (hn : LC name) :
    Rewritten N (ndel N name) name none (fun _ nd => nd) := by
  refine ⟨?_, ?_, ?_, fun _ _ => rfl⟩
  · rw [nget_ndel h.2 hn hn]; simp
  · intro k hk hp
    have hne : k ≠ name := by intro e; rw [e, properSub_irrefl] at hp; exact absurd hp (by decide)
    rw [nget_ndel h.2 hn hk]; simp [hne]
  · intro k hk hne _
    rw [nget_ndel h.2 hn hk]; simp [hne]

/-- the subtree of `name` rewritten by `F`, then the node at `name` replaced -/
theorem rewritten_map_nins {N1 : Nodes} (h1 : NWF N1) {name : Name} (hn : LC name) (F : Name → Node → Node)
    (hF : ∀ k nd, (F k nd).rds = nd.rds) (node3 : Node) :
    Rewritten N1 (nins (N1.map (fun e => (e.1, if properSub e.1 name then F e.1 e.2 else e.2))) name node3)
      name (some node3) F := by
  have h2 := NWF_map (fun e => if properSub e.1 name then F e.1 e.2 else e.2) h1
  refine ⟨?_, ?_, ?_, hF⟩
  · rw [nget_nins h2.2 hn hn]; simp
  · intro k hk hp
    have hne : k ≠ name := by intro e; rw [e, properSub_irrefl] at hp; exact absurd hp (by decide)
    rw [nget_nins h2.2 hn hk]
    simp only [hne, if_false]
    rw [nget_map' (fun e => if properSub e.1 name then F e.1 e.2 else e.2) h1.2 hk]
    simp [hp]
  · intro k hk hne hp
    rw [nget_nins h2.2 hn hk]
    simp only [hne, if_false]
    rw [nget_map' (fun e => if properSub e.1 name then F e.1 e.2 else e.2) h1.2 hk]
    simp [hp]

/-- … or removed -/
theorem rewritten_map_ndel {N1 : Nodes} (h1 : NWF N1) {name : Name} (hn : LC name) (F : Name → Node → Node)
    (hF : ∀ k nd, (F k nd).rds = nd.rds) :
    Rewritten N1 (ndel (N1.map (fun e => (e.1, if properSub e.1 name then F e.1 e.2 else e.2))) name)
      name none F := by
  have h2 := NWF_map (fun e => if properSub e.1 name then F e.1 e.2 else e.2) h1
  refine ⟨?_, ?_, ?_, hF⟩
  · rw [nget_ndel h2.2 hn hn]; simp
  · intro k hk hp
    have hne : k ≠ name := by intro e; rw [e, properSub_irrefl] at hp; exact absurd hp (by decide)
    rw [nget_ndel h2.2 hn hk]
    simp only [hne, if_false]
    rw [nget_map' (fun e => if properSub e.1 name then F e.1 e.2 else e.2) h1.2 hk]
    simp [hp]
  · intro k hk hne hp
    rw [nget_ndel h2.2 hn hk]
    simp only [hne, if_false]
    rw [nget_map' (fun e => if properSub e.1 name then F e.1 e.2 else e.2) h1.2 hk]
    simp [hp]

/-- `Rewritten` composes with a preliminary replacement of the node at `name` (the copy-on-write step) -/
theorem Rewritten.after_cow {N : Nodes} (h : NWF N) {name : Name} (hn : LC name) (node0 : Node)
    {N' : Nodes} {r : Option Node} {F : Name → Node → Node}
    (hrw : Rewritten (nins N name node0) N' name r F) : Rewritten N N' name r F := by
  refine ⟨hrw.here, ?_, ?_, hrw.frds⟩
  · intro k hk hp
    have hne : k ≠ name := by intro e; rw [e, properSub_irrefl] at hp; exact absurd hp (by decide)
    rw [hrw.below k hk hp, nget_nins h.2 hn hk]; simp [hne]
  · intro k hk hne hp
    rw [hrw.elsewhere k hk hne hp, nget_nins h.2 hn hk]; simp [hne]

theorem NS_nins_ne {N : Nodes} (h : NWF N) {name a : Name} (hn : LC name) (ha : LC a) (hne : a ≠ name) (nd : Node) :
    NS (nins N name nd) a ↔ NS N a := by
  unfold NS; rw [nget_nins h.2 hn ha]; simp [hne]

theorem NSBetween_nins {N : Nodes} (h : NWF N) {name k : Name} (hn : LC name) (nd : Node) :
    NSBetween (nins N name nd) k name ↔ NSBetween N k name := by
  constructor
  · rintro ⟨a, ha, hns, hp, hpn⟩
    have hne : a ≠ name := by intro e; rw [e, properSub_irrefl] at hpn; exact absurd hpn (by decide)
    exact ⟨a, ha, (NS_nins_ne h hn ha hne nd).mp hns, hp, hpn⟩
  · rintro ⟨a, ha, hns, hp, hpn⟩
    have hne : a ≠ name := by intro e; rw [e, properSub_irrefl] at hpn; exact absurd hpn (by decide)
    exact ⟨a, ha, (NS_nins_ne h hn ha hne nd).mpr hns, hp, hpn⟩

/-! ## guards -/

theorem nsBelow_false {N : Nodes} {name : Name} (h : nsBelow N name = false) :
    ∀ e ∈ N, properSub e.1 name = true → hasNS e.2.rds = false := by
  intro e he hp
  unfold nsBelow at h
  rw [List.any_eq_false] at h
  have := h e he
  simpa [hp] using this

/-- what the guard against D16 gives in a `Good` version -/
theorem below_plain {cfg : Cfg} {ver : Ver} (hg : Good cfg ver) {name : Name} (hn : LC name)
    (hz : isSubdomain name (apex cfg) = true) (hb : nsBelow ver.nodes name = false) :
    (∀ e ∈ ver.nodes, properSub e.1 name = true →
      e.2.flags.origin = false ∧ e.2.flags.deleg = false ∧ hasNS e.2.rds = false) ∧
    (∀ d ∈ ver.delegs, properSub d name = false) := by
  have hnb := nsBelow_false hb
  constructor
  · intro e he hp
    have hns := hnb e he hp
    have hfl := hg.flags e he
    have hl := hg.wf.2 e he
    refine ⟨?_, ?_, hns⟩
    · rw [hfl]; simp [flagsSpec, not_origin_of_below hz hp hl (LC_apex cfg)]
    · rw [hfl]; simp only [flagsSpec]
      cases hh : isDelegSpec cfg ver.nodes e.1 with
      | false => rfl
      | true =>
        obtain ⟨_, ⟨nd, hgn, hh'⟩, _⟩ := (isDelegSpec_iff hg.wf).mp hh
        rw [mem_nget hg.wf he] at hgn; injection hgn with hgn; subst hgn
        rw [hns] at hh'; exact absurd hh' (by decide)
  · intro d hd
    cases hp : properSub d name with
    | false => rfl
    | true =>
      exfalso
      have hdl := hg.dwf.2 d hd
      obtain ⟨_, ⟨nd, hgn, hh⟩, _⟩ := (isDelegSpec_iff hg.wf).mp ((hg.index d hdl).mp hd)
      have := hnb (d, nd) (nget_some_mem hg.wf.2 hdl hgn) hp
      rw [this] at hh; exact absurd hh (by decide)

end BTZ
end Model

import Model.ZoneTxn
/-! Value-layer laws of the reference model (C10): TTL minimisation, set union, singleton types, difference,
and RFC 1982 serial arithmetic. -/
namespace Model.ZT
open Model

/-! ### rdataset algebra -/

theorem add_ttl (s : Rdataset) (rd : Rdata) : (s.add rd).ttl = s.ttl := by
  unfold Rdataset.add; dsimp only; split <;> split <;> rfl

theorem foldl_add_ttl (l : List Rdata) (s : Rdataset) : (l.foldl Rdataset.add s).ttl = s.ttl := by
  induction l generalizing s with
  | nil => rfl
  | cons x xs ih => simp only [List.foldl_cons]; rw [ih, add_ttl]

theorem updateTtl_items (s : Rdataset) (ttl : Nat) : (s.updateTtl ttl).items = s.items := by
  unfold Rdataset.updateTtl; split
  · rfl
  · split <;> rfl

theorem updateTtl_ttl (s : Rdataset) (ttl : Nat) :
    (s.updateTtl ttl).ttl = if s.items = [] then ttl else min s.ttl ttl := by
  unfold Rdataset.updateTtl
  by_cases h : s.items.length = 0
  · have : s.items = [] := List.eq_nil_of_length_eq_zero h
    simp [h, this]
  · have : s.items ≠ [] := by intro e; rw [e] at h; simp at h
    rw [if_neg h, if_neg this]
    by_cases h2 : ttl < s.ttl
    · rw [if_pos h2]; show ttl = min s.ttl ttl; omega
    · rw [if_neg h2]; show s.ttl = min s.ttl ttl; omega

/-- TTL minimisation on merge -/
theorem union_ttl (a b : Rdataset) : (a.union b).ttl = if a.items = [] then b.ttl else min a.ttl b.ttl := by
  unfold Rdataset.union Rdataset.unionUpdate
  rw [foldl_add_ttl, updateTtl_ttl]

theorem add_mem_plain (s : Rdataset) (rd x : Rdata) (h : isSingleton rd.rdtype = false) :
    x ∈ (s.add rd).items ↔ x ∈ s.items ∨ x = rd := by
  unfold Rdataset.add
  simp only [h, Bool.false_eq_true, false_and, if_false]
  by_cases hm : rd ∈ s.items
  · rw [if_pos hm]
    constructor
    · intro hx; exact Or.inl hx
    · rintro (hx | hx)
      · exact hx
      · rw [hx]; exact hm
  · rw [if_neg hm]; simp

theorem foldl_add_mem_plain (l : List Rdata) (s : Rdataset) (x : Rdata)
    (h : ∀ rd ∈ l, isSingleton rd.rdtype = false) :
    x ∈ (l.foldl Rdataset.add s).items ↔ x ∈ s.items ∨ x ∈ l := by
  induction l generalizing s with
  | nil => simp
  | cons y ys ih =>
    simp only [List.foldl_cons]
    rw [ih (s.add y) (fun rd hrd => h rd (List.mem_cons_of_mem _ hrd)),
      add_mem_plain s y x (h y (List.mem_cons_self ..))]
    simp only [List.mem_cons]
    constructor
    · rintro ((h1 | h1) | h1)
      · exact Or.inl h1
      · exact Or.inr (Or.inl h1)
      · exact Or.inr (Or.inr h1)
    · rintro (h1 | h1 | h1)
      · exact Or.inl (Or.inl h1)
      · exact Or.inl (Or.inr h1)
      · exact Or.inr h1

/-- merge of a non-singleton type is set union -/
theorem union_mem (a b : Rdataset) (x : Rdata) (h : ∀ rd ∈ b.items, isSingleton rd.rdtype = false) :
    x ∈ (a.union b).items ↔ x ∈ a.items ∨ x ∈ b.items := by
  unfold Rdataset.union Rdataset.unionUpdate
  rw [foldl_add_mem_plain b.items _ x h, updateTtl_items]

theorem add_nodup (s : Rdataset) (rd : Rdata) (h : s.items.Nodup) : (s.add rd).items.Nodup := by
  unfold Rdataset.add
  dsimp only
  split
  · split
    · exact List.nodup_nil
    · simp
  · split
    · exact h
    · rename_i hm
      rw [List.nodup_append]
      refine ⟨h, by simp, ?_⟩
      intro a ha b hb
      simp at hb; subst hb
      intro e; subst e; exact hm ha

theorem foldl_add_nodup (l : List Rdata) (s : Rdataset) (h : s.items.Nodup) : (l.foldl Rdataset.add s).items.Nodup := by
  induction l generalizing s with
  | nil => exact h
  | cons x xs ih => simp only [List.foldl_cons]; exact ih _ (add_nodup s x h)

theorem union_nodup (a b : Rdataset) (h : a.items.Nodup) : (a.union b).items.Nodup := by
  unfold Rdataset.union Rdataset.unionUpdate
  apply foldl_add_nodup
  rw [updateTtl_items]; exact h

theorem add_singleton (s : Rdataset) (rd : Rdata) (h : isSingleton rd.rdtype = true) : (s.add rd).items = [rd] := by
  unfold Rdataset.add
  by_cases hl : s.items.length > 0
  · simp [h, hl]
  · have : s.items = [] := by
      cases hs : s.items with
      | nil => rfl
      | cons a b => rw [hs] at hl; simp at hl
    simp [h, this]

/-- merge of a singleton type: the last record given wins -/
theorem union_singleton (a b : Rdataset) (l : List Rdata) (rd : Rdata) (hb : b.items = l ++ [rd])
    (h : isSingleton rd.rdtype = true) : (a.union b).items = [rd] := by
  unfold Rdataset.union Rdataset.unionUpdate
  rw [hb, List.foldl_append]
  simp only [List.foldl_cons, List.foldl_nil]
  exact add_singleton _ rd h

theorem difference_mem (a b : Rdataset) (x : Rdata) :
    x ∈ (a.difference b).items ↔ x ∈ a.items ∧ x ∉ b.items := by
  unfold Rdataset.difference; simp [List.mem_filter]

theorem difference_ttl (a b : Rdataset) : (a.difference b).ttl = a.ttl := rfl

/-- the exactness test of `delete_exact` is "every record given is present" -/
theorem exact_iff (e r : Rdataset) (hc : e.rdclass = r.rdclass) (ht : e.rdtype = r.rdtype) (hv : e.covers = r.covers) :
    (e.intersection r).eq r = true ↔ ∀ x ∈ r.items, x ∈ e.items := by
  unfold Rdataset.eq Rdataset.intersection
  have h1 := updateTtl_items e r.ttl
  have hh : (e.updateTtl r.ttl).rdclass = e.rdclass ∧ (e.updateTtl r.ttl).rdtype = e.rdtype ∧
      (e.updateTtl r.ttl).covers = e.covers := by
    unfold Rdataset.updateTtl; split
    · exact ⟨rfl, rfl, rfl⟩
    · split <;> exact ⟨rfl, rfl, rfl⟩
  simp only [hh.1, hh.2.1, hh.2.2, hc, ht, hv, h1, beq_self_eq_true, Bool.true_and, Bool.and_eq_true,
    List.all_eq_true, List.mem_filter, decide_eq_true_eq]
  constructor
  · rintro ⟨_, h2⟩ x hx; exact (h2 x hx).1
  · intro h2; exact ⟨fun x hx => hx.2, fun x hx => ⟨h2 x hx, hx⟩⟩

/-! ### RFC 1982 -/

theorem half_eq : Serial.half = 2147483648 := by decide
theorem modulus_eq : Serial.modulus = 4294967296 := by decide

theorem serial_make_lt (v : Int) : Serial.make v < 4294967296 := by
  unfold Serial.make; rw [modulus_eq]; omega

theorem serial_make_id (v : Nat) (h : v < 4294967296) : Serial.make v = v := by
  unfold Serial.make; rw [modulus_eq]; omega

theorem serial_add_some (v : Nat) (d : Int) (hd : d.natAbs ≤ 2147483647) :
    Serial.add v d = some ((((v : Int) + d) % 4294967296).toNat) := by
  unfold Serial.add
  rw [half_eq, modulus_eq]
  have : ¬ d.natAbs > 2147483648 - 1 := by omega
  simp [this]

theorem serial_add_none (v : Nat) (d : Int) (hd : d.natAbs > 2147483647) : Serial.add v d = none := by
  unfold Serial.add
  rw [half_eq]
  have : d.natAbs > 2147483648 - 1 := by omega
  simp [this]

theorem serial_lt_add (v : Nat) (d : Int) (hv : v < 4294967296) (h0 : 0 < d) (hd : d ≤ 2147483647) :
    ∃ w, Serial.add v d = some w ∧ Serial.lt v w = true ∧ Serial.gt w v = true ∧ w < 4294967296 := by
  refine ⟨(((v : Int) + d) % 4294967296).toNat, serial_add_some v d (by omega), ?_, ?_, ?_⟩
  · unfold Serial.lt; rw [half_eq]
    by_cases h : (v : Int) + d < 4294967296
    · have : (((v : Int) + d) % 4294967296).toNat = v + d.toNat := by omega
      rw [this]; simp; omega
    · have : (((v : Int) + d) % 4294967296).toNat = v + d.toNat - 4294967296 := by omega
      rw [this]; simp; omega
  · unfold Serial.gt; rw [half_eq]
    by_cases h : (v : Int) + d < 4294967296
    · have : (((v : Int) + d) % 4294967296).toNat = v + d.toNat := by omega
      rw [this]; simp; omega
    · have : (((v : Int) + d) % 4294967296).toNat = v + d.toNat - 4294967296 := by omega
      rw [this]; simp; omega
  · omega

theorem serial_lt_asymm (a b : Nat) : Serial.lt a b = true → Serial.lt b a = false := by
  unfold Serial.lt; rw [half_eq]; simp; omega

theorem serial_lt_irrefl (a : Nat) : Serial.lt a a = false := by
  unfold Serial.lt; simp

theorem serial_gt_eq_lt (a b : Nat) : Serial.gt a b = Serial.lt b a := by
  unfold Serial.lt Serial.gt; rw [half_eq]
  by_cases h1 : a < b <;> by_cases h2 : b < a <;> simp [h1, h2] <;> omega

/-- any two distinct serials are ordered unless they are exactly half the space apart -/
theorem serial_trichotomy (a b : Nat) (hne : a ≠ b) (hhalf : a - b ≠ 2147483648 ∧ b - a ≠ 2147483648) :
    Serial.lt a b = true ∨ Serial.lt b a = true := by
  unfold Serial.lt; rw [half_eq]; simp; omega

theorem newSerial_ne_zero (old : Nat) (value : Int) (rel : Bool) (v : Nat) (h : newSerial old value rel = .ok v) :
    v ≠ 0 := by
  have hz : ConstsC10.zeroSerialBecomes = 1 := by decide
  have key : ∀ w : Nat, (if w = 0 then ConstsC10.zeroSerialBecomes else w) ≠ 0 := by
    intro w; by_cases h0 : w = 0
    · simp [h0, hz]
    · simp [h0]
  unfold newSerial at h
  cases rel with
  | true =>
    cases hadd : Serial.add (Serial.make old) value with
    | none => simp [hadd] at h
    | some w => simp [hadd] at h; rw [← h]; exact key w
  | false =>
    simp at h; rw [← h]; exact key _

/-- `update_serial`: the stored serial is the RFC 1982 sum (or the absolute value) reduced to 32 bits, with 0 replaced by 1 -/
theorem newSerial_spec (old : Nat) (value : Int) (rel : Bool) (hold : old < 4294967296) (hv : 0 ≤ value) :
    newSerial old value rel =
      if rel then
        (if value > 2147483647 then .error .valueError
         else .ok (if ((old : Int) + value) % 4294967296 = 0 then 1 else (((old : Int) + value) % 4294967296).toNat))
      else .ok (if value % 4294967296 = 0 then 1 else (value % 4294967296).toNat) := by
  have hz : ConstsC10.zeroSerialBecomes = 1 := by decide
  unfold newSerial
  cases rel with
  | true =>
    simp only [if_true]
    rw [serial_make_id old hold]
    by_cases hbig : value > 2147483647
    · rw [serial_add_none old value (by omega), if_pos hbig]
    · rw [serial_add_some old value (by omega), if_neg hbig]
      simp only [hz]
      by_cases h0 : ((old : Int) + value) % 4294967296 = 0
      · have : (((old : Int) + value) % 4294967296).toNat = 0 := by omega
        simp [h0, this]
      · have : ¬ (((old : Int) + value) % 4294967296).toNat = 0 := by omega
        simp [h0, this]
  | false =>
    simp only [Bool.false_eq_true, if_false, hz]
    unfold Serial.make; rw [modulus_eq]
    by_cases h0 : value % 4294967296 = 0
    · have : (value % ((4294967296 : Nat) : Int)).toNat = 0 := by omega
      simp [h0, this]
    · have : ¬ (value % ((4294967296 : Nat) : Int)).toNat = 0 := by omega
      simp [h0, this]; omega

end Model.ZT

import Proofs.RenderTrunc
/-! Padding: the length of the rendered OPT record equals the reserve plus the padding, so that the message
(without TSIG) ends on a multiple of the block size. -/
namespace Model

/-- only suffixes of more than one label are ever remembered in the compression table -/
def KeysLong (t : CTable) : Prop := ∀ p ∈ t, 1 < p.1.length

theorem cLoop_keys (off : Nat) (t : CTable) (n : Name) : KeysLong (cLoop off t n).2 := by
  induction n generalizing off t with
  | nil => intro p hp; simp [cLoop] at hp
  | cons l rest ih =>
    unfold cLoop
    cases hget : ctGet t (l :: rest) with
    | some pos => intro p hp; simp at hp
    | none =>
      intro p hp
      simp only at hp
      rcases List.mem_append.mp hp with h | h
      · split at h
        · rename_i hc; simp at h; subst h; exact hc.1
        · simp at h
      · exact ih _ _ p h

theorem KeysLong.append {a b : CTable} (ha : KeysLong a) (hb : KeysLong b) : KeysLong (a ++ b) := by
  intro p hp
  rcases List.mem_append.mp hp with h | h
  · exact ha p h
  · exact hb p h

theorem toWireC_keys {out t n origin o t'} (h : toWireC out t n origin = .ok (o, t')) (hk : KeysLong t) :
    KeysLong t' := by
  rw [toWireC_eq] at h
  split at h
  · simp at h
    rw [← h.2]
    exact hk.append (cLoop_keys _ _ _)
  · simp at h

theorem rdataToWire_keys {out t origin rd o t'} (h : rdataToWire out t origin rd = .ok (o, t')) (hk : KeysLong t) :
    KeysLong t' := by
  cases rd with
  | raw b => simp [rdataToWire] at h; rw [← h.2]; exact hk
  | name1 n => exact toWireC_keys h hk
  | mx p n => simp only [rdataToWire] at h; exact toWireC_keys h hk
  | soa m r a b c d e =>
    simp only [rdataToWire] at h
    split at h
    · simp at h
    · rename_i o1 t1 h1
      split at h
      · simp at h
      · rename_i o2 t2 h2
        simp at h
        rw [← h.2]
        exact toWireC_keys h2 (toWireC_keys h1 hk)

theorem rdsLoop_keys (owner : Name) (rdtype rdclass ttl : Nat) (origin : Option Name) (rds : List RData) :
    ∀ (out : Bytes) (t : CTable) (o : Bytes) (t' : CTable),
      rdsLoop owner rdtype rdclass ttl origin out t rds = .ok (o, t') → KeysLong t → KeysLong t' := by
  induction rds with
  | nil => intro out t o t' h hk; simp [rdsLoop] at h; rw [← h.2]; exact hk
  | cons rd rest ih =>
    intro out t o t' h hk
    unfold rdsLoop at h
    split at h
    · simp at h
    · rename_i o1 t1 h1
      simp only at h
      split at h
      · simp at h
      · rename_i o3 t3 h3
        split at h
        · simp at h
        · rename_i o4 h4
          exact ih o4 t3 o t' h (rdataToWire_keys h3 (toWireC_keys h1 hk))

theorem rrsetToWire_keys {out t origin r o t' n} (h : rrsetToWire out t origin r = .ok (o, t', n)) (hk : KeysLong t) :
    KeysLong t' := by
  unfold rrsetToWire at h
  simp only at h
  split at h
  · split at h
    · simp at h
    · rename_i o1 t1 h1
      simp at h
      rw [← h.2.1]
      exact toWireC_keys h1 hk
  · split at h
    · simp at h
    · rename_i o1 t1 h1
      simp at h
      rw [← h.2.1]
      exact rdsLoop_keys _ _ _ _ _ _ _ _ _ _ h1 hk

theorem KeysLong.filter {t : CTable} (hk : KeysLong t) (f : Name × Nat → Bool) : KeysLong (t.filter f) := by
  intro p hp
  exact hk p (List.mem_filter.mp hp).1

theorem endTrack_keys (s : RState) (start : Nat) (o : Bytes) (t : CTable) (sec n : Nat) (hk : KeysLong t) :
    match s.endTrack start o t sec n with
    | .ok s' => KeysLong s'.tbl
    | .tooBig s' => KeysLong s'.tbl
    | .err _ => True := by
  unfold RState.endTrack
  by_cases h : o.length > s.maxSize
  · simp only [h, if_true]
    exact hk.filter _
  · simp only [h, if_false]
    exact hk

theorem addItem_keys (s : RState) (it : Item) (hk : KeysLong s.tbl) :
    match s.addItem it with
    | .ok s' => KeysLong s'.tbl
    | .tooBig s' => KeysLong s'.tbl
    | .err _ => True := by
  cases it with
  | q n t c =>
    simp only [RState.addItem, RState.addQuestion]
    cases hs : s.setSection 0 with
    | error e => trivial
    | ok s1 =>
      obtain ⟨rfl, _⟩ := setSection_ok hs
      simp only
      cases hw : toWireC s.out s.tbl n s.origin with
      | error e => trivial
      | ok p =>
        obtain ⟨o, t'⟩ := p
        exact endTrack_keys _ _ _ _ _ _ (toWireC_keys hw hk)
  | rr sec r =>
    simp only [RState.addItem, RState.addRRset]
    cases hs : s.setSection sec with
    | error e => trivial
    | ok s1 =>
      obtain ⟨rfl, _⟩ := setSection_ok hs
      simp only
      cases hw : rrsetToWire s.out s.tbl s.origin r with
      | error e => trivial
      | ok p =>
        obtain ⟨o, t', n⟩ := p
        exact endTrack_keys _ _ _ _ _ _ (rrsetToWire_keys hw hk)

theorem addItems_keys (items : List Item) : ∀ (s s' : RState) (big : Bool), KeysLong s.tbl →
    s.addItems items = .ok (s', big) → KeysLong s'.tbl := by
  induction items with
  | nil => intro s s' big hk h; simp [RState.addItems] at h; rw [← h.1]; exact hk
  | cons it rest ih =>
    intro s s' big hk h
    unfold RState.addItems at h
    have := addItem_keys s it hk
    cases hr : s.addItem it with
    | err e => rw [hr] at h; simp at h
    | tooBig s1 => rw [hr] at h this; simp at h; rw [← h.1]; exact this
    | ok s1 => rw [hr] at h this; exact ih s1 s' big this h

theorem renderSections_keys (m : Message) (L : Nat) (pt : Bool) (a b : Nat) (r : RState)
    (h : m.renderSections L pt a b = .ok r) : KeysLong r.tbl := by
  rw [renderSections_eq] at h
  cases hbase : m.base L a b with
  | error e => rw [hbase] at h; simp at h
  | ok r2 =>
    rw [hbase] at h
    simp only at h
    have hk2 : KeysLong r2.tbl := by
      have hbase := base_ok hbase
      unfold Message.base0 at hbase
      split at hbase
      · simp at hbase
      · rename_i r1 h1
        obtain ⟨rfl, _⟩ := reserve_ok h1
        obtain ⟨rfl, _⟩ := reserve_ok hbase
        intro p hp; simp [RState.init] at hp
    cases hit : r2.addItems m.items with
    | error e => rw [hit] at h; simp at h
    | ok p =>
      obtain ⟨r3, big⟩ := p
      rw [hit] at h
      simp only at h
      have := addItems_keys _ _ _ _ hk2 hit
      rw [(afterItems_ok h).2.1]
      exact this

/-! ### exact length of a one-record RRset with uncompressed owner -/

theorem ctGet_root_none (t : CTable) (hk : KeysLong t) : ctGet t [[]] = none := by
  unfold ctGet
  cases hf : t.find? (fun p => lowerName p.1 == lowerName [[]]) with
  | none => rfl
  | some p =>
    exfalso
    have hm := List.mem_of_find?_eq_some hf
    have he := List.find?_some hf
    have hl : p.1.length = 1 := by
      have : lowerName p.1 = lowerName [[]] := by simpa using he
      have := congrArg List.length this
      simpa [lowerName] using this
    have := hk p hm
    omega

theorem cLoop_root (off : Nat) (t : CTable) (hk : KeysLong t) : cLoop off t [[]] = ([0], []) := by
  unfold cLoop
  rw [ctGet_root_none t hk]
  simp [cLoop]

theorem optionsWire_length (opts : List (Nat × Bytes)) :
    (optionsWire opts).length = (opts.map fun p => p.2.length + 4).sum := by
  induction opts with
  | nil => rfl
  | cons p rest ih =>
    obtain ⟨t, b⟩ := p
    simp [optionsWire, ih, u16]
    omega

theorem optionsWire_append (a b : List (Nat × Bytes)) : optionsWire (a ++ b) = optionsWire a ++ optionsWire b := by
  induction a with
  | nil => rfl
  | cons p rest ih => obtain ⟨t, x⟩ := p; simp [optionsWire, ih]

theorem patchLen_eq (pre body : Bytes) :
    patchLen (pre ++ [0, 0] ++ body) (pre ++ [0, 0]).length =
      if body.length > 65535 then .error .formError else .ok (pre ++ u16 body.length ++ body) := by
  cases hp : patchLen (pre ++ [0, 0] ++ body) (pre ++ [0, 0]).length with
  | ok o4 =>
    obtain ⟨h1, h2⟩ := patchLen_spec pre body o4 hp
    have : ¬ body.length > 65535 := by omega
    simp [this, h1]
  | error e =>
    unfold patchLen at hp
    have hl : (pre ++ [0, 0] ++ body).length - (pre ++ [0, 0]).length = body.length := by simp; omega
    simp only [hl] at hp
    split at hp
    · split at hp
      · rename_i hbig; simp at hp; subst hp; simp [hbig]
      · simp at hp
    · simp at hp

/-- a record set holding one opaque rdata, whose owner is written as the octets `nm` -/
theorem rrsetToWire_single_raw (out : Bytes) (t : CTable) (origin : Option Name) (r : RRset) (b nm : Bytes)
    (t1 : CTable) (hr : r.rdatas = [.raw b]) (hd : r.deleting = none)
    (hw : toWireC out t r.name origin = .ok (out ++ nm, t1)) :
    rrsetToWire out t origin r =
      if b.length > 65535 then .error .formError
      else .ok (out ++ nm ++ u16 r.rdtype ++ u16 r.rdclass ++ u32 r.ttl ++ u16 b.length ++ b, t1, 1) := by
  unfold rrsetToWire
  have hwc : r.wireClass = r.rdclass := by simp [RRset.wireClass, hd]
  simp only [hr, hwc, List.length_cons, List.length_nil, rdsLoop, hw, rdataToWire]
  rw [patchLen_eq]
  by_cases hb : b.length > 65535
  · simp [hb]
  · simp [hb]

theorem endTrack_ok_out {s : RState} {start : Nat} {o : Bytes} {t : CTable} {sec n : Nat} {s' : RState}
    (h : s.endTrack start o t sec n = .ok s') : s'.out = o := by
  unfold RState.endTrack at h
  split at h
  · simp at h
  · simp at h; rw [← h]

/-- the OPT record set rendered at the end of the buffer: 11 fixed octets plus the options -/
theorem addRRset_opt_length (s : RState) (o : EOpt) (s' : RState) (hk : KeysLong s.tbl)
    (h : s.addRRset ConstsC03.secADDITIONAL (optRRset o) = .ok s') :
    s'.out.length = s.out.length + 11 + (optionsWire o.options).length := by
  unfold RState.addRRset at h
  split at h
  · simp at h
  · rename_i s1 hs1
    obtain ⟨rfl, _⟩ := setSection_ok hs1
    have hw : toWireC s.out s.tbl (optRRset o).name s.origin = .ok (s.out ++ [0], s.tbl ++ []) := by
      rw [toWireC_eq]
      have : wireName (optRRset o).name s.origin = some [[]] := by simp [wireName, isAbs, optRRset]
      rw [this]
      simp only [cLoop_root _ _ hk]
    have := rrsetToWire_single_raw s.out s.tbl s.origin (optRRset o) (optionsWire o.options) [0] (s.tbl ++ [])
      rfl rfl hw
    simp only at h
    rw [this] at h
    by_cases hb : (optionsWire o.options).length > 65535
    · simp [hb] at h
    · simp only [hb, if_false] at h
      rw [endTrack_ok_out h]
      simp [u16, u32]
      omega

end Model

namespace Model

theorem pad_arith (swp pad : Nat) (hp : pad ≠ 0) :
    (swp + (if swp % pad ≠ 0 then pad - swp % pad else 0)) % pad = 0 := by
  by_cases h : swp % pad = 0
  · simp [h]
  · simp only [ne_eq, h, not_false_eq_true, if_true]
    have h1 : swp % pad < pad := Nat.mod_lt _ (by omega)
    have h2 := Nat.div_add_mod swp pad
    have : swp + (pad - swp % pad) = pad * (swp / pad + 1) := by
      rw [Nat.mul_succ]; omega
    rw [this, Nat.mul_mod_right]

theorem opt_consts : ConstsC03.optBase = 11 ∧ ConstsC03.optHdr = 4 := by decide

/-- with padding requested and no TSIG, the rendered length is a multiple of the block size -/
theorem toWire_pad_no_tsig (m : Message) (lim : Nat) (pt : Bool) (w : Bytes) (o : EOpt)
    (hopt : m.opt = some o) (hpad : m.pad ≠ 0) (hts : m.tsig = none) (h : m.toWire lim pt = .ok w) :
    w.length % m.pad = 0 := by
  rw [toWire_eq] at h
  have hb : m.tsigReserve = .ok 0 := by simp [Message.tsigReserve, hts]
  rw [hb] at h
  simp only at h
  cases hr : m.renderSections (clampSize lim m.requestPayload) pt m.optReserve 0 with
  | error e => rw [hr] at h; simp at h
  | ok r =>
    rw [hr] at h
    simp only at h
    have hk := renderSections_keys m _ _ _ _ r hr
    obtain ⟨hi, _, _⟩ := renderSections_inv m _ _ _ _ r hr
    unfold finishOut RState.finish at h
    simp only [hopt, hts] at h
    by_cases hg : padLen r.releaseReserved.out.length m.pad m.optReserve 0 > 65535
    · unfold RState.addOpt at h
      simp only [hpad, hg, ne_eq, not_false_eq_true, and_self, if_true, stepToExcept] at h
      simp at h
    unfold RState.addOpt RState.addOptCore at h
    simp only [hpad, hg, ne_eq, not_false_eq_true, and_false, if_false, if_true] at h
    cases ha : ({ r.releaseReserved with wasPadded := true } : RState).addRRset ConstsC03.secADDITIONAL
        (optRRset { o with options := o.options ++ [(ConstsC03.optPADDING,
          if (r.releaseReserved.out.length + m.optReserve + 0) % m.pad ≠ 0
          then List.replicate (m.pad - (r.releaseReserved.out.length + m.optReserve + 0) % m.pad) 0 else [])] }) with
    | err e => rw [ha] at h; simp [stepToExcept] at h
    | tooBig s1 => rw [ha] at h; simp [stepToExcept] at h
    | ok r5 =>
      rw [ha] at h
      simp [stepToExcept] at h
      have hlen := addRRset_opt_length _ _ r5 (by exact hk) ha
      have h12 : 12 ≤ r5.out.length := by
        have := hi.hdr
        have e : ({ r.releaseReserved with wasPadded := true } : RState).out.length = r.out.length := rfl
        rw [hlen, e]; omega
      rw [← h, writeHeader_length r5 h12, hlen]
      simp only [optionsWire_append, List.length_append, optionsWire_length]
      obtain ⟨c1, c2⟩ := opt_consts
      have hres : m.optReserve = 11 + (o.options.map fun p => p.2.length + 4).sum + 4 := by
        simp [Message.optReserve, hopt, hpad, c1, c2]
      have e : ({ r.releaseReserved with wasPadded := true } : RState).out = r.releaseReserved.out := rfl
      have hp := pad_arith (r.releaseReserved.out.length + m.optReserve + 0) m.pad hpad
      rw [e]
      simp only [List.map_cons, List.map_nil, List.sum_cons, List.sum_nil] at *
      rw [hres] at hp ⊢
      split at hp
      · rename_i hne
        simp only [hne, ne_eq, not_false_eq_true, if_true, List.length_replicate] at *
        have : r.releaseReserved.out.length + 11 + ((o.options.map fun p => p.2.length + 4).sum +
            (m.pad - (r.releaseReserved.out.length + (11 + (o.options.map fun p => p.2.length + 4).sum + 4) + 0) % m.pad + 4 + 0))
            = r.releaseReserved.out.length + (11 + (o.options.map fun p => p.2.length + 4).sum + 4) + 0 +
              (m.pad - (r.releaseReserved.out.length + (11 + (o.options.map fun p => p.2.length + 4).sum + 4) + 0) % m.pad) := by
          omega
        rw [this]; exact hp
      · rename_i hz
        simp only [hz, if_false, List.length_nil] at *
        have : r.releaseReserved.out.length + 11 + ((o.options.map fun p => p.2.length + 4).sum + (0 + 4 + 0))
            = r.releaseReserved.out.length + (11 + (o.options.map fun p => p.2.length + 4).sum + 4) + 0 + 0 := by omega
        rw [this]; exact hp

end Model

namespace Model

/-- a name none of whose suffixes can be in the table (all keys are longer) is written in full -/
theorem cLoop_plain (off : Nat) (t : CTable) (n : Name) (h : ∀ p ∈ t, n.length < p.1.length) :
    (cLoop off t n).1 = toWire n := by
  induction n generalizing off t with
  | nil => simp [cLoop, toWire]
  | cons l rest ih =>
    unfold cLoop
    have hget : ctGet t (l :: rest) = none := by
      unfold ctGet
      cases hf : t.find? (fun p => lowerName p.1 == lowerName (l :: rest)) with
      | none => rfl
      | some p =>
        exfalso
        have hm := List.mem_of_find?_eq_some hf
        have he := List.find?_some hf
        have hl : p.1.length = (l :: rest).length := by
          have : lowerName p.1 = lowerName (l :: rest) := by simpa using he
          have := congrArg List.length this
          simpa [lowerName] using this
        have := h p hm
        omega
    rw [hget]
    simp only
    rw [ih]
    · simp [toWire]
    · intro p hp
      rcases List.mem_append.mp hp with hp | hp
      · have := h p hp; simp at this ⊢; omega
      · split at hp
        · simp at hp; subst hp; simp
        · simp at hp

/-- the OPT step with padding: afterwards buffer length + TSIG reserve is a multiple of the block -/
theorem addOpt_pad_length (r : RState) (hk : KeysLong r.tbl) (o : EOpt) (pad a b : Nat) (hpad : pad ≠ 0) (r5 : RState)
    (ha : a = 11 + (o.options.map fun p => p.2.length + 4).sum + 4)
    (h : stepToExcept (r.addOpt o pad a b) = .ok r5) :
    (r5.out.length + b) % pad = 0 ∧ r.out.length ≤ r5.out.length := by
  replace h := addOpt_core_of_ok h
  unfold RState.addOptCore at h
  simp only [hpad, ne_eq, not_false_eq_true, if_true] at h
  cases hs : ({ r with wasPadded := true } : RState).addRRset ConstsC03.secADDITIONAL
      (optRRset { o with options := o.options ++ [(ConstsC03.optPADDING,
        if (r.out.length + a + b) % pad ≠ 0 then List.replicate (pad - (r.out.length + a + b) % pad) 0 else [])] }) with
  | err e => rw [hs] at h; simp [stepToExcept] at h
  | tooBig s1 => rw [hs] at h; simp [stepToExcept] at h
  | ok s5 =>
    rw [hs] at h
    simp [stepToExcept] at h
    subst h
    have hlen := addRRset_opt_length _ _ s5 (by exact hk) hs
    have e : ({ r with wasPadded := true } : RState).out.length = r.out.length := rfl
    rw [e] at hlen
    have hp := pad_arith (r.out.length + a + b) pad hpad
    simp only [optionsWire_append, List.length_append, optionsWire_length, List.map_cons, List.map_nil, List.sum_cons,
      List.sum_nil] at hlen
    refine ⟨?_, by omega⟩
    by_cases hz : (r.out.length + a + b) % pad = 0
    · simp only [hz, ne_eq, not_true_eq_false, if_false, List.length_nil] at hlen hp
      have : s5.out.length + b = r.out.length + a + b + 0 := by omega
      rw [this]; exact hp
    · simp only [hz, ne_eq, not_false_eq_true, if_true, List.length_replicate] at hlen hp
      have : s5.out.length + b = r.out.length + a + b + (pad - (r.out.length + a + b) % pad) := by omega
      rw [this]; exact hp

/-- the TSIG record rendered against an empty table has exactly the reserved size -/
theorem addRRset_tsig_length (s : RState) (t : Tsig) (s' : RState) (b : Nat) (htbl : s.tbl = [])
    (hres : (match (some t : Option Tsig) with
      | none => (Except.ok 0 : Except RErr Nat)
      | some t => if isAbs t.name then .ok ((toWire t.name).length + 10 + (tsigRdataWire t).length) else .error .needAbsolute) = .ok b)
    (h : s.addRRset ConstsC03.secADDITIONAL (tsigRRset t) = .ok s') :
    s'.out.length = s.out.length + b := by
  simp only at hres
  by_cases habs : isAbs t.name = true
  · simp only [habs, if_true, Except.ok.injEq] at hres
    unfold RState.addRRset at h
    split at h
    · simp at h
    · rename_i s1 hs1
      obtain ⟨rfl, _⟩ := setSection_ok hs1
      have hw : toWireC s.out s.tbl (tsigRRset t).name s.origin
          = .ok (s.out ++ toWire t.name, s.tbl ++ (cLoop s.out.length s.tbl t.name).2) := by
        rw [toWireC_eq]
        have : wireName (tsigRRset t).name s.origin = some t.name := by simp [wireName, tsigRRset, habs]
        rw [this]
        simp only
        rw [cLoop_plain _ _ _ (by rw [htbl]; intro p hp; simp at hp)]
      have := rrsetToWire_single_raw s.out s.tbl s.origin (tsigRRset t) (tsigRdataWire t) (toWire t.name) _ rfl rfl hw
      simp only at h
      rw [this] at h
      by_cases hb : (tsigRdataWire t).length > 65535
      · simp [hb] at h
      · simp only [hb, if_false] at h
        rw [endTrack_ok_out h, ← hres]
        simp [u16, u32]
        omega
  · simp [habs] at hres

/-- with padding requested, the rendered length — TSIG included — is a multiple of the block size -/
theorem toWire_pad (m : Message) (lim : Nat) (pt : Bool) (w : Bytes) (o : EOpt)
    (hopt : m.opt = some o) (hpad : m.pad ≠ 0) (h : m.toWire lim pt = .ok w) :
    w.length % m.pad = 0 := by
  rw [toWire_eq] at h
  cases hb : m.tsigReserve with
  | error e => rw [hb] at h; simp at h
  | ok b =>
    rw [hb] at h
    simp only at h
    cases hr : m.renderSections (clampSize lim m.requestPayload) pt m.optReserve b with
    | error e => rw [hr] at h; simp at h
    | ok r =>
      rw [hr] at h
      simp only at h
      have hk := renderSections_keys m _ _ _ _ r hr
      obtain ⟨hi, _, _⟩ := renderSections_inv m _ _ _ _ r hr
      obtain ⟨c1, c2⟩ := opt_consts
      have hres : m.optReserve = 11 + (o.options.map fun p => p.2.length + 4).sum + 4 := by
        simp [Message.optReserve, hopt, hpad, c1, c2]
      unfold finishOut RState.finish at h
      simp only [hopt] at h
      cases h5 : stepToExcept (r.releaseReserved.addOpt o m.pad m.optReserve b) with
      | error e => rw [h5] at h; simp at h
      | ok r5 =>
        rw [h5] at h
        simp only at h
        obtain ⟨hmod, hge⟩ := addOpt_pad_length r.releaseReserved hk o m.pad _ b hpad r5 hres h5
        have h12 : 12 ≤ r5.out.length := by
          have := hi.hdr
          have e : r.releaseReserved.out.length = r.out.length := rfl
          omega
        cases hts : m.tsig with
        | none =>
          have hb0 : b = 0 := by simp [Message.tsigReserve, hts] at hb; exact hb.symm
          rw [hts] at h
          simp at h
          rw [← h, writeHeader_length r5 h12]
          rw [hb0] at hmod
          simpa using hmod
        | some t =>
          rw [hts] at h
          simp only at h
          cases h6 : ({ r5.writeHeader with tbl := [] } : RState).addRRset ConstsC03.secADDITIONAL (tsigRRset t) with
          | err e => rw [h6] at h; simp [stepToExcept] at h
          | tooBig s1 => rw [h6] at h; simp [stepToExcept] at h
          | ok r6 =>
            rw [h6] at h
            simp [stepToExcept] at h
            have hbt : (match (some t : Option Tsig) with
                | none => (Except.ok 0 : Except RErr Nat)
                | some t => if isAbs t.name then .ok ((toWire t.name).length + 10 + (tsigRdataWire t).length) else .error .needAbsolute) = .ok b := by
              simp only [Message.tsigReserve, hts] at hb
              exact hb
            have hl6 := addRRset_tsig_length ({ r5.writeHeader with tbl := [] } : RState) t r6 b rfl hbt h6
            have e : ({ r5.writeHeader with tbl := [] } : RState).out.length = r5.out.length := by
              show r5.writeHeader.out.length = _
              exact writeHeader_length r5 h12
            rw [e] at hl6
            rw [← h, writeHeader_length r6 (by omega), hl6]
            exact hmod

end Model

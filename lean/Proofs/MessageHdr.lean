import Model.MsgTypes
/-! Header-field codecs: `rcode.from_flags/to_flags`, `opcode.from_flags/to_flags`. -/
namespace Model

theorem rcode_table_aux : ∀ a < 64, ∀ b < 64,
    rcodeFromFlags ((a * 64 + b) &&& 0xF) (((a * 64 + b) &&& 0xFF0) <<< 20) = a * 64 + b ∧
    ((a * 64 + b) &&& 0xF) < 16 ∧ (((a * 64 + b) &&& 0xFF0) <<< 20) % 16777216 = 0 ∧
    (((a * 64 + b) &&& 0xFF0) <<< 20) < 4294967296 := by
  decide +kernel

/-- `from_flags(*to_flags(v)) = v` for every rcode 0..4095 (complete finite table, checked by the kernel), and
the two halves stay inside the header's rcode nibble and the top octet of the OPT ttl -/
theorem rcode_table (v : Nat) (h : v < 4096) :
    rcodeFromFlags (v &&& 0xF) ((v &&& 0xFF0) <<< 20) = v ∧ (v &&& 0xF) < 16 ∧
      ((v &&& 0xFF0) <<< 20) % 16777216 = 0 ∧ ((v &&& 0xFF0) <<< 20) < 4294967296 := by
  have := rcode_table_aux (v / 64) (by omega) (v % 64) (by omega)
  have e : v / 64 * 64 + v % 64 = v := by omega
  rw [e] at this
  exact this

theorem opcode_table : ∀ v < 16, opcodeFromFlags (opcodeToFlags v) = v ∧ opcodeToFlags v &&& 0x87FF = 0 := by
  decide +kernel

end Model

import Proofs.WritersThms
/-!
Bounded fairness for executions of the writer-admission model and the generic ranking argument.

A `k`-fair scheduler never passes over a thread that has started (`pc ≠ idle`) and is enabled more than `k` times
between two of its steps (`skip` counters).  `rank` flattens the lexicographic measure
(progress measure `m` of a designated thread `σ`, fairness budget of `σ`, `lockFuel` of a lock holder other than `σ`,
fairness budget of that holder); `rank_step` shows that every fair step decreases it, provided `σ`'s own steps
decrease `m`, other steps leave `σ` alone, and `σ` can move unless somebody else holds the lock.
-/
set_option linter.unusedSimpArgs false
namespace Model.Writers
variable {c : Cfg} {n k : Nat} {s s' : State} {t : Tid}

/-- skip counters after a step of `t` from `s` -/
def skipUpd (c : Cfg) (s : State) (sk : Tid → Nat) (t : Tid) : Tid → Nat := fun u =>
  if u = t then 0
  else if (step c s u).isSome && ((s.loc u).pc != Pc.idle) then sk u + 1
  else sk u

/-- one step of a `k`-fair scheduler -/
structure FStep (c : Cfg) (k : Nat) (s : State) (sk : Tid → Nat) (t : Tid) (s' : State) (sk' : Tid → Nat) : Prop where
  step : step c s t = some s'
  upd : sk' = skipUpd c s sk t
  fair : ∀ u, sk' u ≤ k

/-- `k`-fair executions of length `L` with threads `< n` -/
inductive FairExec (c : Cfg) (n k : Nat) : State → (Tid → Nat) → Nat → State → (Tid → Nat) → Prop
  | refl (s : State) (sk : Tid → Nat) : FairExec c n k s sk 0 s sk
  | step {s s1 s2 : State} {sk sk1 sk2 : Tid → Nat} {L : Nat} (t : Tid) :
      FairExec c n k s sk L s1 sk1 → t < n → FStep c k s1 sk1 t s2 sk2 → FairExec c n k s sk (L + 1) s2 sk2

theorem reachFrom_of_fairExec {sk sk' : Tid → Nat} {L : Nat} (h : FairExec c n k s sk L s' sk') : ReachFrom c n s s' := by
  induction h with
  | refl => exact .refl
  | step t _ ht hf ih => exact .step t ih ht hf.step

theorem fairExec_skips {sk sk' : Tid → Nat} {L : Nat} (h : FairExec c n k s sk L s' sk') (h0 : ∀ u, sk u ≤ k) :
    ∀ u, sk' u ≤ k := by
  cases h with
  | refl => exact h0
  | step t _ _ hf => exact hf.fair

/-- the lock holder, if it is not `σ` -/
def lockOther (s : State) (σ : Tid) : Option Tid :=
  match s.lock with
  | some v => if v = σ then none else some v
  | none => none

def rank (k : Nat) (s : State) (sk : Tid → Nat) (σ : Tid) (m : Nat) : Nat :=
  ((m * (k + 1) + (k - sk σ)) * 9 + (match lockOther s σ with | some v => lockFuel (s.loc v).pc | none => 0)) * (k + 1)
    + (match lockOther s σ with | some v => k - sk v | none => 0)

theorem lex_lt {K a a' b b' : Nat} (hb : b' < K) (ha : a' < a) : a' * K + b' < a * K + b := by
  have : (a' + 1) * K ≤ a * K := Nat.mul_le_mul_right K ha
  rw [Nat.add_mul] at this
  omega

theorem rank_lt_of {k : Nat} {m m' B B' lf lf' bv bv' : Nat} (hB' : B' ≤ k) (hlf' : lf' ≤ 8) (hbv' : bv' ≤ k)
    (h : m' < m ∨ (m' = m ∧ (B' < B ∨ (B' = B ∧ (lf' < lf ∨ (lf' = lf ∧ bv' < bv)))))) :
    ((m' * (k + 1) + B') * 9 + lf') * (k + 1) + bv' < ((m * (k + 1) + B) * 9 + lf) * (k + 1) + bv := by
  rcases h with h | ⟨rfl, h⟩
  · exact lex_lt (by omega) (lex_lt (by omega) (lex_lt (by omega) h))
  · rcases h with h | ⟨rfl, h⟩
    · exact lex_lt (by omega) (lex_lt (by omega) (by omega))
    · rcases h with h | ⟨rfl, h⟩
      · exact lex_lt (by omega) (by omega)
      · omega

theorem rank_le (k : Nat) (s : State) (sk : Tid → Nat) (σ : Tid) (m : Nat) : rank k s sk σ m ≤ 9 * (m + 1) * (k + 1) * (k + 1) := by
  unfold rank
  have h1 : (match lockOther s σ with | some v => lockFuel (s.loc v).pc | none => 0) ≤ 8 := by
    cases lockOther s σ <;> simp [lockFuel_le]
  have h2 : (match lockOther s σ with | some v => k - sk v | none => 0) ≤ k := by
    cases lockOther s σ <;> simp
  generalize (match lockOther s σ with | some v => lockFuel (s.loc v).pc | none => 0) = lf at h1
  generalize (match lockOther s σ with | some v => k - sk v | none => 0) = bv at h2
  have hB : k - sk σ ≤ k := Nat.sub_le _ _
  generalize k - sk σ = B at hB
  have e1 : (m * (k + 1) + B) * 9 + lf + 1 ≤ 9 * (m + 1) * (k + 1) := by
    have : 9 * (m + 1) * (k + 1) = (m * (k + 1) + (k + 1)) * 9 := by
      rw [Nat.mul_assoc, Nat.add_mul m 1, Nat.one_mul, Nat.mul_comm]
    rw [this]; omega
  have e2 := Nat.mul_le_mul_right (k + 1) e1
  rw [Nat.add_mul] at e2
  omega

/-- every fair step decreases the rank -/
theorem rank_step {sk sk' : Tid → Nat} {σ σ' : Tid} {m m' : Nat} (hi : Inv c n s) (hst : FStep c k s sk t s' sk')
    (hA : t = σ → m' < m)
    (hB : t ≠ σ → σ' = σ ∧ m' = m)
    (hE : enabled s σ ∨ ∃ v, s.lock = some v ∧ v ≠ σ)
    (hI : (s.loc σ).pc ≠ .idle) :
    rank k s' sk' σ' m' < rank k s sk σ m := by
  have htr := step_trans hst.step
  have hfair := hst.fair
  unfold rank
  have hlf' : (match lockOther s' σ' with | some v => lockFuel (s'.loc v).pc | none => 0) ≤ 8 := by
    cases lockOther s' σ' <;> simp [lockFuel_le]
  have hbv' : (match lockOther s' σ' with | some v => k - sk' v | none => 0) ≤ k := by
    cases lockOther s' σ' <;> simp
  apply rank_lt_of (Nat.sub_le _ _) hlf' hbv'
  by_cases hts : t = σ
  · exact .inl (hA hts)
  · obtain ⟨hσ, hm⟩ := hB hts
    subst hσ hm
    refine .inr ⟨rfl, ?_⟩
    have hσt : σ' ≠ t := fun e => hts e.symm
    by_cases hen : enabled s σ'
    · -- σ was enabled and passed over: its budget shrinks
      left
      have h1 : (step c s σ').isSome = true := (enabled_iff c s σ').mpr hen
      have h2 : sk' σ' = sk σ' + 1 := by
        rw [hst.upd]; simp [skipUpd, hσt, h1, hI]
      have := hfair σ'
      omega
    · -- σ is blocked by another lock holder
      rcases hE with hE | ⟨v, hl, hv⟩
      · exact absurd hE hen
      right
      have hskσ : sk' σ' = sk σ' := by
        have h1 : (step c s σ').isSome = false := by
          cases h : (step c s σ').isSome
          · rfl
          · exact absurd ((enabled_iff c s σ').mp h) hen
        rw [hst.upd]; simp [skipUpd, hσt, h1]
      refine ⟨by rw [hskσ], ?_⟩
      have hlo : lockOther s σ' = some v := by simp [lockOther, hl, hv]
      have hhold : holdsLock (s.loc v).pc = true := (hi.lk.lock v).mpr hl
      by_cases htv : t = v
      · -- the holder moves towards the release
        subst htv
        left
        have hp := holder_progress hi.lk hl htr
        rw [hlo]
        rcases hp.2 with ⟨hl', _⟩ | ⟨hl', _⟩
        · have : lockOther s' σ' = some t := by simp [lockOther, hl', hv]
          rw [this]; exact hp.1
        · have : lockOther s' σ' = none := by simp [lockOther, hl']
          rw [this]; exact (lockFuel_pos_iff _).mpr hhold
      · -- somebody else moves: the holder is passed over
        right
        obtain ⟨hl', hloc'⟩ := holder_stable hi.lk hl htv htr
        have hlo' : lockOther s' σ' = some v := by simp [lockOther, hl', hv]
        rw [hlo, hlo']
        simp only [hloc']
        refine ⟨trivial, ?_⟩
        have h1 : (step c s v).isSome = true := (enabled_iff c s v).mpr (holder_enabled hi hl)
        have hidle : (s.loc v).pc ≠ .idle := by intro e; rw [e] at hhold; cases hhold
        have hvt : v ≠ t := fun e => htv e.symm
        have h2 : sk' v = sk v + 1 := by
          rw [hst.upd]; simp [skipUpd, hvt, h1, hidle]
        have := hfair v
        omega

end Model.Writers

import Proofs.Xfr
/-!
# A chunked TCP run equals the flat run over the concatenated answer sections (shipped variant)
-/
namespace Model.Xfr

theorem procRRset_false_more (s : Inbound) (rr : RRset) (m m' : Bool) :
    procRRset false s rr m = procRRset false s rr m' := by
  unfold procRRset procFinalSoa
  simp

theorem procAnswers_append : ∀ (a b : List RRset) (s : Inbound),
    procAnswers false s (a ++ b) =
      match procAnswers false s a with
      | .error e => .error e
      | .ok s' => procAnswers false s' b := by
  intro a
  induction a with
  | nil => intro b s; simp [procAnswers]
  | cons rr rest ih =>
    intro b s
    simp only [List.cons_append, procAnswers]
    rw [procRRset_false_more s rr (!(rest ++ b).isEmpty) (!rest.isEmpty)]
    cases procRRset false s rr (!rest.isEmpty) with
    | error e => rfl
    | ok s1 => exact ih b s1

/-- if the loop succeeds on `a ++ b` it succeeds on `a`, and is not done there unless `b` is empty -/
theorem procAnswers_append_ok {a b : List RRset} {s s' : Inbound}
    (h : procAnswers false s (a ++ b) = .ok s') :
    ∃ s1, procAnswers false s a = .ok s1 ∧ procAnswers false s1 b = .ok s' ∧ (s1.done = true → b = [] ∧ s' = s1) := by
  rw [procAnswers_append] at h
  cases h1 : procAnswers false s a with
  | error e => rw [h1] at h; cases h
  | ok s1 =>
    rw [h1] at h
    refine ⟨s1, rfl, h, fun hd => ?_⟩
    cases b with
    | nil => cases h; exact ⟨rfl, rfl⟩
    | cons r rs => simp [procAnswers, procRRset, hd] at h

theorem headerErr_static {a b : Inbound} (h : a.sameStatic b) (m : Msg) : headerErr a m = headerErr b m := by
  unfold headerErr; rw [h.1, h.2.1]

theorem procMessage_later {s : Inbound} {m : Msg} (hsoa : s.soa.isSome = true) (htx : s.txn.isSome = true)
    (hh : headerErr s m = none) :
    procMessage false s m = match procAnswers false s m.answer with
      | .error e => .error e
      | .ok s2 => udpCheck s2 := by
  have o := (openTxn_props s).2.2.2.2 htx
  unfold procMessage
  rw [o, hh]
  simp only []
  unfold procBody
  cases hs : s.soa with
  | none => simp [hs] at hsoa
  | some f => rfl

/-- messages after the first: the run over any division into messages is the flat loop (transfer completes) -/
theorem runLoop_flat_done : ∀ (msgs : List Msg) (s s' : Inbound), s.soa.isSome = true → s.txn.isSome = true →
    s.isUdp = false → s.done = false → (∀ m ∈ msgs, headerErr s m = none) →
    procAnswers false s (msgs.flatMap (·.answer)) = .ok s' → s'.done = true →
    runLoop false s msgs = .ok s' := by
  intro msgs
  induction msgs with
  | nil =>
    intro s s' _ _ _ hd _ h hd'
    simp [procAnswers] at h; subst h; rw [hd] at hd'; cases hd'
  | cons m ms ih =>
    intro s s' hsoa htx hudp hd hh h hd'
    simp only [List.flatMap_cons] at h
    obtain ⟨s1, h1, h2, h3⟩ := procAnswers_append_ok h
    have st := procAnswers_ok h1
    have hu1 : s1.isUdp = false := by rw [st.1.2.2.1]; exact hudp
    unfold runLoop
    rw [procMessage_later hsoa htx (hh m (by simp)), h1]
    simp only [udpCheck, hu1, Bool.false_and, Bool.false_eq_true, if_false]
    by_cases hd1 : s1.done = true
    · simp only [hd1, if_true]; rw [(h3 hd1).2]
    · have hd1' : s1.done = false := by simpa using hd1
      simp only [hd1', Bool.false_eq_true, if_false]
      have r := st.2 hd1'
      refine ih s1 s' (by rw [st.1.2.2.2]; exact hsoa) (r.2 htx) hu1 hd1' ?_ h2 hd'
      intro m' hm'
      rw [headerErr_static st.1]; exact hh m' (by simp [hm'])

/-- messages after the first: if the flat loop ends without completing, the run ends with the stream -/
theorem runLoop_flat_eof : ∀ (msgs : List Msg) (s s' : Inbound), s.soa.isSome = true → s.txn.isSome = true →
    s.isUdp = false → s.done = false → (∀ m ∈ msgs, headerErr s m = none) →
    procAnswers false s (msgs.flatMap (·.answer)) = .ok s' → s'.done = false →
    runLoop false s msgs = .error (.EOF, s.zone) := by
  intro msgs
  induction msgs with
  | nil => intro s s' _ _ _ _ _ _ _; rfl
  | cons m ms ih =>
    intro s s' hsoa htx hudp hd hh h hd'
    simp only [List.flatMap_cons] at h
    obtain ⟨s1, h1, h2, h3⟩ := procAnswers_append_ok h
    have st := procAnswers_ok h1
    have hu1 : s1.isUdp = false := by rw [st.1.2.2.1]; exact hudp
    have hd1 : s1.done = false := by
      cases hx : s1.done with
      | false => rfl
      | true => have := (h3 hx).2; subst this; rw [hx] at hd'; cases hd'
    unfold runLoop
    rw [procMessage_later hsoa htx (hh m (by simp)), h1]
    simp only [udpCheck, hu1, Bool.false_and, Bool.false_eq_true, if_false, hd1]
    have r := st.2 hd1
    rw [← r.1]
    refine ih s1 s' (by rw [st.1.2.2.2]; exact hsoa) (r.2 htx) hu1 hd1 ?_ h2 hd'
    intro m' hm'
    rw [headerErr_static st.1]; exact hh m' (by simp [hm'])

end Model.Xfr

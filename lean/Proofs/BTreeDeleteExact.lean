import Proofs.BTreeTree
/-!
`delete_exact` (the `exact` argument of `delete`): when the stored element is the one passed, the call is the
plain deletion; otherwise `ValueError` is raised, possibly after the descent has rebalanced the path (steals and
merges stay), and what is left is a well-shaped tree with unchanged contents.
-/
namespace Model.BTree

/-- what a failing `delete(key, parent, exact)` leaves behind -/
structure DelErrSpec (t h : Nat) (n : Node) (r : Node × DelRes) : Prop where
  shape : Shape t h r.1
  flat_eq : flat r.1 = flat n
  ret : r.2 = .valueError
  len_lo : n.elts.length ≤ r.1.elts.length + 1
  len_hi : r.1.elts.length ≤ n.elts.length

theorem delete_exact_spec {t : Nat} (ht : 2 ≤ t) (x : Elt) : ∀ (h : Nat) (n : Node) (k : Nat), Shape t h n →
    Sorted (flat n) → (h ≠ 0 → 1 ≤ n.elts.length ∨ ∀ c ∈ n.children, c.elts.length ≠ minKeys t) →
    (lookup (flat n) k = some x → delete t h n k (some x) = delete t h n k none) ∧
    (lookup (flat n) k ≠ some x → DelErrSpec t h n (delete t h n k (some x))) := by
  intro h
  induction h with
  | zero =>
    intro n k hn hs _
    obtain ⟨es, rfl⟩ := shape_zero hn
    simp only [flat_leaf] at hs ⊢
    rcases search_cases k hs with ⟨el, er, rfl, hl, hr, hres⟩ | ⟨el, e0, er, rfl, h0, hl, hr, hres⟩
    · rw [lookup_none_of_gap hl hr]
      refine ⟨fun hc => by simp at hc, fun _ => ?_⟩
      unfold delete
      simp only [Node.elts, hres, Bool.false_eq_true, false_and, if_false, Option.isSome_some, if_true]
      exact ⟨by simp, rfl, rfl, by simp, by simp⟩
    · have hlk : lookup (el ++ e0 :: er) k = some e0 := by
        rw [← h0]; exact lookup_found (by intro y hy; have := hl y hy; omega)
      rw [hlk]
      constructor
      · intro hx
        have hx' : e0 = x := by simpa using hx
        subst hx'
        unfold delete
        simp [Node.elts, hres, eltAt_at rfl]
      · intro hx
        have hx' : ¬ x = e0 := fun hc => hx (by rw [hc])
        unfold delete
        simp only [Node.elts, hres, eltAt_at rfl, Option.isSome_some, true_and, ne_eq, Option.some.injEq, hx',
          not_false_eq_true, if_true]
        exact ⟨by simp, rfl, rfl, by simp, by simp⟩
  | succ h ih =>
    intro n k hn hs hpos
    obtain ⟨es, cs, rfl, hlen, hkids⟩ := shape_succ hn
    have hk : Kids t h es cs := ⟨hlen, hkids⟩
    have hes := sorted_elts hs
    have hpos' : 1 ≤ es.length ∨ ∀ c ∈ cs, c.elts.length ≠ minKeys t := by
      simpa [Node.elts, Node.children] using hpos (by omega)
    rcases search_cases k hes with ⟨el, er, rfl, hl, hr, hres⟩ | ⟨el, e0, er, rfl, h0, hl, hr, hres⟩
    · -- not in this node: both calls balance the same way and descend into the same child
      obtain ⟨cl, c, cr, rfl, hcl, hcr⟩ := kids_split hk.1
      obtain ⟨el1, er1, cl1, c1, cr1, hprep, hcl1, hk1, hflat1, hwl1, hwr1, hc1, hlo, hhi⟩ :=
        delPrep_spec ht hk hcl hs (fun hm => by
          rcases hpos' with h1 | h2
          · exact h1
          · exact absurd hm (h2 c (by simp))) hl hr
      have hcr1 : cr1.length = er1.length := by have := hk1.1; simp at this; omega
      have hs1 : Sorted (flat (.node (el1 ++ er1) (cl1 ++ c1 :: cr1))) := by rw [hflat1]; exact hs
      have hs1' := hs1
      rw [flat_node_split el1 er1 cl1 c1 cr1 hcl1] at hs1'
      have ⟨hsA, hsR, _⟩ := sorted_append_iff.mp hs1'
      have ⟨hsL, hsc1, _⟩ := sorted_append_iff.mp hsA
      have hA := LF_lt hcl1 hsL hwl1
      have hB := RF_gt hcr1 hsR hwr1
      have hlook : lookup (flat (.node (el ++ er) (cl ++ c :: cr))) k = lookup (flat c1) k := by
        rw [← hflat1, flat_node_split el1 er1 cl1 c1 cr1 hcl1, lookup_window hA hB]
      obtain ⟨ihm, ihe⟩ := ih c1 k (hk1.2 c1 (by simp)).1 hsc1 (fun _ => Or.inl (by omega))
      have hun : ∀ ex : Option Elt, delete t (h + 1) (.node (el ++ er) (cl ++ c :: cr)) k ex =
          delFinish false k (h + 1) (.node (el1 ++ er1) (cl1 ++ (delete t h c1 k ex).1 :: cr1))
            (delete t h c1 k ex).2 := by
        intro ex
        conv => lhs; unfold delete
        simp only [Node.elts, hres, Bool.false_eq_true, false_and, if_false, hprep, kidAt_at hcl1, setAt_at hcl1]
      rw [hlook]
      constructor
      · intro hx
        rw [hun, hun, ihm hx]
      · intro hx
        have hc := ihe hx
        rw [hun]
        rcases hdc : delete t h c1 k (some x) with ⟨c1', r⟩
        rw [hdc] at hc
        have e1 : r = .valueError := hc.ret
        have e2 : flat c1' = flat c1 := hc.flat_eq
        have e3 : c1.elts.length ≤ c1'.elts.length + 1 := hc.len_lo
        have e4 : c1'.elts.length ≤ c1.elts.length := hc.len_hi
        subst e1
        simp only [delFinish]
        have hocc := (hk1.2 c1 (by simp)).2
        refine ⟨?_, ?_, rfl, ?_, ?_⟩
        · refine shape_node_iff.mpr (kids_replace1 hk1 ⟨hc.shape, ?_⟩)
          simp only [Occ] at hocc ⊢; omega
        · show flat (.node (el1 ++ er1) (cl1 ++ c1' :: cr1)) = _
          rw [← hflat1, flat_node_split el1 er1 cl1 c1' cr1 hcl1, flat_node_split el1 er1 cl1 c1 cr1 hcl1, e2]
        · simp only [Node.elts]; omega
        · simp only [Node.elts]; omega
    · -- found in this internal node: the identity check happens here, then `exact` is dropped
      obtain ⟨cl, c, cr, rfl, hcl, hcr⟩ := kids_split (el := el) (er := e0 :: er) hk.1
      cases cr with
      | nil => simp at hcr
      | cons c' cr' =>
        have hs' := hs
        rw [flat_node_split el (e0 :: er) cl c (c' :: cr') hcl, RF_cons] at hs'
        have hlt := (sorted_append_iff.mp hs').2.2
        have hA : ∀ y ∈ LF cl el ++ flat c, y.1 < e0.1 := fun y hy => hlt y hy e0 (by simp)
        have hlk : lookup (flat (.node (el ++ e0 :: er) (cl ++ c :: c' :: cr'))) k = some e0 := by
          rw [flat_node_split el (e0 :: er) cl c (c' :: cr') hcl, RF_cons, ← h0]
          exact lookup_found hA
        rw [hlk]
        constructor
        · intro hx
          have hx' : e0 = x := by simpa using hx
          subst hx'
          conv => lhs; unfold delete
          conv => rhs; unfold delete
          simp [Node.elts, hres, eltAt_at rfl]
        · intro hx
          have hx' : ¬ x = e0 := fun hc => hx (by rw [hc])
          unfold delete
          simp only [Node.elts, hres, eltAt_at rfl, Option.isSome_some, true_and, ne_eq, Option.some.injEq, hx',
            not_false_eq_true, if_true]
          exact ⟨hn, rfl, rfl, by simp, by simp⟩

/-! ## the root and the tree handle -/

/-- `_delete(key, exact)` with the repaired root handling (collapse whenever the root is left empty, also when
`delete` raised): the element passed is the stored one → plain deletion; otherwise `ValueError`, and the tree is
well-formed with its contents and `size` unchanged. -/
theorem tree_delete_exact {tr : Tree} (k : Nat) (x : Elt) (hw : TreeWf tr) (hr : RootOk tr.root)
    (hm : tr.immutable = false) (he : tr.collapseOnError = true) :
    (lookup tr.items k = some x → tr.delete k (some x) = tr.delete k none) ∧
    (lookup tr.items k ≠ some x →
      TreeWf (tr.delete k (some x)).1 ∧ RootOk (tr.delete k (some x)).1.root ∧
      (tr.delete k (some x)).1.items = tr.items ∧ (tr.delete k (some x)).2 = .valueError ∧
      (tr.delete k (some x)).1.size = tr.size) := by
  have ht2 : 2 ≤ tr.t := by have := hw.t_ok; omega
  obtain ⟨h, hn⟩ := hw.wf.shape
  have hpos : h ≠ 0 → 1 ≤ tr.root.elts.length ∨ ∀ c ∈ tr.root.children, c.elts.length ≠ minKeys tr.t := by
    intro h0
    rcases hr with hl | hp
    · exact absurd ((shape_isLeaf hn).mp hl) h0
    · exact Or.inl hp
  obtain ⟨hmatch, herr⟩ := delete_exact_spec ht2 x h tr.root k hn hw.wf.sorted hpos
  constructor
  · intro hx
    have := hmatch hx
    simp only [Tree.delete, deleteRoot, height_of_shape hn, this]
  · intro hx
    have hsp := herr hx
    unfold Tree.delete deleteRoot
    simp only [hm, Bool.false_eq_true, if_false, height_of_shape hn]
    rcases hd : delete tr.t h tr.root k (some x) with ⟨r, res⟩
    rw [hd] at hsp
    have e1 : res = .valueError := hsp.ret
    have e2 : flat r = flat tr.root := hsp.flat_eq
    have e4 : r.elts.length ≤ tr.root.elts.length := hsp.len_hi
    subst e1
    simp only [he, if_true]
    have htop : r.elts.length ≤ maxKeys tr.t := by have := hw.wf.top; omega
    obtain ⟨c1, c2, c3, c4⟩ := collapse_spec ht2 hsp.shape htop
    refine ⟨⟨hw.t_ok, ⟨c1, c3, ?_⟩, ?_⟩, c4, ?_, by first | rfl | trivial, by first | rfl | trivial⟩
    · show Sorted (flat (collapseRoot r)); rw [c2, e2]; exact hw.wf.sorted
    · show tr.size = (flat (collapseRoot r)).length; rw [c2, e2]; exact hw.size_ok
    · show flat (collapseRoot r) = flat tr.root; rw [c2, e2]

end Model.BTree

import Model.ZoneFile
import Proofs.ZoneFileLineG
import Proofs.ZoneFileRebuild
/-!
A whole file as the writer lays it out: optional `$ORIGIN` line, optional `$TTL` line, then record lines of any
admissible shape.  The parser's trace is the list of the records; its denotation is the fold of `txn.add`.
-/
namespace Model

theorem soaDefault_fields (r : PState) (ty : Nat) (rd : Rdata) :
    (soaDefault r ty rd).tok = r.tok ∧ (soaDefault r ty rd).currentOrigin = r.currentOrigin ∧
    (soaDefault r ty rd).zoneOrigin = r.zoneOrigin ∧ (soaDefault r ty rd).relativize = r.relativize ∧
    (soaDefault r ty rd).gfix = r.gfix ∧ (soaDefault r ty rd).lastName = r.lastName ∧
    (r.defaultTTLKnown = true → (soaDefault r ty rd).defaultTTLKnown = true ∧ (soaDefault r ty rd).defaultTTL = r.defaultTTL) := by
  unfold soaDefault
  split
  · rename_i h
    cases rd <;> simp_all
  · simp

theorem afterG_fields (r : PState) (l : GLine) (rest : List Nat) :
    (afterG r l rest).tok = after 0 false rest ∧ (afterG r l rest).currentOrigin = r.currentOrigin ∧
    (afterG r l rest).zoneOrigin = r.zoneOrigin ∧ (afterG r l rest).relativize = r.relativize ∧
    (afterG r l rest).gfix = r.gfix ∧ (afterG r l rest).lastName = some l.n ∧
    (r.defaultTTLKnown = true → (afterG r l rest).defaultTTLKnown = true ∧ (afterG r l rest).defaultTTL = r.defaultTTL) := by
  unfold afterG
  cases l.hdr.hasTTL
  · simp only [Bool.false_eq_true, if_false]
    obtain ⟨a, b, c, d, e, f, g⟩ := soaDefault_fields
      { r with tok := after 0 false rest, lastName := some l.n } l.ty l.rd
    exact ⟨a, b, c, d, e, f, g⟩
  · simp only [if_true]
    obtain ⟨a, b, c, d, e, f, g⟩ := soaDefault_fields
      { r with tok := after 0 false rest, lastName := some l.n, lastTTL := l.ttl, lastTTLKnown := true } l.ty l.rd
    exact ⟨a, b, c, d, e, f, g⟩

theorem soaDefault_saved (r : PState) (ty : Nat) (rd : Rdata) : (soaDefault r ty rd).saved = r.saved := by
  unfold soaDefault
  split
  · cases rd <;> simp
  · simp

theorem afterG_saved (r : PState) (l : GLine) (rest : List Nat) : (afterG r l rest).saved = r.saved := by
  unfold afterG
  rw [soaDefault_saved]
  cases l.hdr.hasTTL <;> simp

theorem afterG_eff (r : PState) (l : GLine) (rest : List Nat) : (afterG r l rest).effOrigin = r.effOrigin := by
  obtain ⟨_, _, h3, h4, _⟩ := afterG_fields r l rest
  simp [PState.effOrigin, h3, h4]

def glinesText : List GLine → List Nat
  | [] => []
  | l :: rest => l.text ++ glinesText rest

/-- the lines are individually good, a blank owner repeats the previous line's owner, and an omitted TTL is the
`$TTL` default `d` -/
def LinesOK (co zo : Name) (rel gfix : Bool) : Option Name → Option Nat → List GLine → Prop
  | _, _, [] => True
  | ln, d, l :: rest =>
    l.Good co zo rel gfix ∧ (l.owner = none → ln = some l.n) ∧ (l.hdr.hasTTL = false → d = some l.ttl) ∧
    LinesOK co zo rel gfix (some l.n) d rest

def traceOfG : List GLine → PState → Trace
  | [], r => .done r
  | l :: rest, r =>
    let r' := afterG r l (glinesText rest)
    .entry r'.effOrigin l.entry (traceOfG rest r')

def finalStateG : List GLine → PState → PState
  | [], r => r
  | l :: rest, r => finalStateG rest (afterG r l (glinesText rest))

theorem finalStateG_zoneOrigin (ls : List GLine) (r : PState) : (finalStateG ls r).zoneOrigin = r.zoneOrigin := by
  induction ls generalizing r with
  | nil => rfl
  | cons l rest ih =>
    simp only [finalStateG]
    rw [ih]
    exact (afterG_fields r l (glinesText rest)).2.2.1

theorem parseTrace_G (ls : List GLine) (r : PState) (co zo : Name) (fuel : Nat) (hf : ls.length < fuel)
    (hco : r.currentOrigin = some co) (hzo : r.zoneOrigin = some zo)
    (htok : r.tok = after 0 false (glinesText ls)) (hsv : r.saved = []) (d : Option Nat)
    (hd : ∀ d', d = some d' → r.defaultTTLKnown = true ∧ r.defaultTTL = d')
    (hok : LinesOK co zo r.relativize r.gfix r.lastName d ls) :
    parseTrace fuel r = traceOfG ls r := by
  induction ls generalizing r fuel with
  | nil =>
    cases fuel with
    | zero => simp at hf
    | succ f =>
      simp only [parseTrace, traceOfG]
      rw [lineStep_eof r (by simpa [glinesText] using htok) hsv]
  | cons l rest ih =>
    cases fuel with
    | zero => simp at hf
    | succ f =>
      obtain ⟨h1, h2, h3, h4⟩ := hok
      have hinh : l.hdr.hasTTL = false → r.inheritedTTL = some l.ttl := by
        intro hh
        obtain ⟨k1, k2⟩ := hd l.ttl (h3 hh)
        simp [PState.inheritedTTL, k1, k2]
      have hstep := lineStep_G r l (glinesText rest) co zo hco hzo (by simpa [glinesText] using htok) h1
        (fun ho => h2 ho) hinh
      simp only [parseTrace, traceOfG, hstep]
      obtain ⟨f1, f2, f3, f4, f5, f6, f7⟩ := afterG_fields r l (glinesText rest)
      rw [ih (afterG r l (glinesText rest)) f (by simpa using hf) (f2 ▸ hco) (f3 ▸ hzo) f1
        (by rw [afterG_saved]; exact hsv)
        (fun d' hd' => by
          obtain ⟨k1, k2⟩ := hd d' hd'
          obtain ⟨g1, g2⟩ := f7 k1
          exact ⟨g1, g2.trans k2⟩)
        (by rw [f4, f5, f6]; exact h4)]

theorem interp_traceOfG (ls : List GLine) (r : PState) (z : ZoneMap) :
    interpTrace (traceOfG ls r) z =
      (addAll r.effOrigin z (ls.map GLine.entry)).map fun z' => (finalStateG ls r, z') := by
  induction ls generalizing r z with
  | nil => simp [traceOfG, interpTrace, addAll, Except.map, finalStateG]
  | cons l rest ih =>
    simp only [traceOfG, interpTrace, List.map_cons, addAll, afterG_eff, finalStateG]
    cases addEntry z r.effOrigin l.entry with
    | error e => rfl
    | ok z' =>
      simp only
      rw [ih, afterG_eff]

theorem glinesText_length (ls : List GLine) (h : ∀ l ∈ ls, l.b0 ≠ []) : ls.length ≤ (glinesText ls).length := by
  induction ls with
  | nil => simp [glinesText]
  | cons l r ih =>
    have := ih (fun x hx => h x (by simp [hx]))
    have hb : l.b0.length ≥ 1 := by
      have := h l (by simp)
      cases hl : l.b0 with
      | nil => exact absurd hl this
      | cons _ _ => simp
    simp only [glinesText, List.length_cons, List.length_append, GLine.text]
    omega

end Model

import Model.ZoneFile
import Proofs.NameText
import Proofs.TokenizerLayout
import Proofs.TokenizerTTL
/-!
The fields the writer prints in front of the RDATA are identifiers for the tokenizer: the escaped text of any
name (`Name.to_text`), the decimal TTL, the class and type mnemonics.
-/
namespace Model

/-- what the escaped set of `dns.name` must contain for a name's text to be one token that is not a directive -/
def EscTokOK (esc : List Nat) : Prop :=
  34 ∈ esc ∧ 40 ∈ esc ∧ 41 ∈ esc ∧ 59 ∈ esc ∧ 92 ∈ esc ∧ 36 ∈ esc ∧ ∀ d ∈ esc, d ≠ 10

instance (esc : List Nat) : Decidable (EscTokOK esc) := by unfold EscTokOK; exact inferInstance

theorem escTokOK_generated : EscTokOK Consts.nameEscaped := by decide

theorem identOK_esc (c : Nat) (rest : List Nat) : identOK (92 :: c :: rest) = (c != 10 && identOK rest) := by
  simp [identOK, bne]
  cases h : (c == 10) <;> simp_all

theorem identOK_plain (c : Nat) (rest : List Nat) (h : c ≠ 92) :
    identOK (c :: rest) = (!isDelim false c && identOK rest) := by
  rw [identOK.eq_def]
  split
  · rename_i heq; cases heq
  · rename_i heq; simp at heq; exact absurd heq.1 h
  · rename_i heq; simp at heq; exact absurd heq.1 h
  · rename_i heq
    simp only [List.cons.injEq] at heq
    obtain ⟨rfl, rfl⟩ := heq
    rfl

theorem identOK_digit (x : Nat) (rest : List Nat) (hx : x < 10) : identOK ((48 + x) :: rest) = identOK rest := by
  rw [identOK_plain _ _ (by omega)]
  have : isDelim false (48 + x) = false := by
    simp [isDelim, delimiters]; omega
  simp [this]

theorem identOK_escOctet (esc : List Nat) (h : EscTokOK esc) (c : Nat) (hc : c < 256) (rest : List Nat) :
    identOK (escOctet esc c ++ rest) = identOK rest := by
  obtain ⟨h34, h40, h41, h59, h92, _, h10⟩ := h
  unfold escOctet
  split
  · rename_i hm
    have : c ≠ 10 := h10 c hm
    simp [identOK_esc, this]
  · rename_i hm
    split
    · rename_i hp
      have hne : c ≠ 92 := fun e => hm (e ▸ h92)
      have hd : isDelim false c = false := by
        have e34 : c ≠ 34 := fun e => hm (e ▸ h34)
        have e40 : c ≠ 40 := fun e => hm (e ▸ h40)
        have e41 : c ≠ 41 := fun e => hm (e ▸ h41)
        have e59 : c ≠ 59 := fun e => hm (e ▸ h59)
        simp [isDelim, delimiters]; omega
      simp [identOK_plain c _ hne, hd]
    · simp only [dec3, List.cons_append, List.nil_append]
      rw [identOK_esc]
      have : (48 + c / 100 != 10) = true := by simp; omega
      rw [this, Bool.true_and, identOK_digit _ _ (by omega), identOK_digit _ _ (by omega)]

theorem identOK_escapify (esc : List Nat) (h : EscTokOK esc) (l : Label) (hl : ∀ c ∈ l, c < 256) (rest : List Nat) :
    identOK (escapifyWith esc l ++ rest) = identOK rest := by
  induction l with
  | nil => simp [escapifyWith]
  | cons c cs ih =>
    have : escapifyWith esc (c :: cs) ++ rest = escOctet esc c ++ (escapifyWith esc cs ++ rest) := by
      simp [escapifyWith]
    rw [this, identOK_escOctet esc h c (hl c (by simp)), ih (fun x hx => hl x (by simp [hx]))]

theorem identOK_joinDot (esc : List Nat) (h : EscTokOK esc) (ls : List Label) (hl : OctetsOk ls) (rest : List Nat) :
    identOK (joinDot (ls.map (escapifyWith esc)) ++ rest) = identOK rest := by
  induction ls with
  | nil => simp [joinDot]
  | cons x r ih =>
    cases r with
    | nil => simpa [joinDot] using identOK_escapify esc h x (hl x (by simp)) rest
    | cons y ys =>
      have hl' : OctetsOk (y :: ys) := fun l hm => hl l (by simp [hm])
      simp only [List.map, joinDot, List.append_assoc, List.cons_append]
      rw [identOK_escapify esc h x (hl x (by simp))]
      rw [identOK_plain 46 _ (by decide)]
      have : isDelim false 46 = false := by decide
      simp only [this, Bool.not_false, Bool.true_and]
      exact ih hl'

theorem escOctet_head (esc : List Nat) (h : EscTokOK esc) (c : Nat) :
    ∃ a t, escOctet esc c = a :: t ∧ a ≠ 36 := by
  unfold escOctet
  split
  · exact ⟨92, _, rfl, by decide⟩
  · split
    · rename_i hm _
      exact ⟨c, _, rfl, fun e => hm (e ▸ h.2.2.2.2.2.1)⟩
    · exact ⟨92, _, rfl, by decide⟩

/-- the text of every well-formed name is one identifier token, not empty, and does not start with `$` -/
theorem toText_token (n : Name) (hwf : WfName n) (ho : OctetsOk n) :
    identOK (toText n) = true ∧ toText n ≠ [] ∧ (toText n).head? ≠ some 36 := by
  have hesc := escTokOK_generated
  unfold toText
  by_cases h0 : n = []
  · subst h0; simp [identOK, isDelim, delimiters]
  by_cases h1 : n = [[]]
  · subst h1; simp [identOK, isDelim, delimiters]
  simp only [h0, h1, if_false]
  have hid : identOK (joinDot (n.map escapify)) = true := by
    have := identOK_joinDot Consts.nameEscaped hesc n ho []
    have e : n.map escapify = n.map (escapifyWith Consts.nameEscaped) := rfl
    rw [e]
    simpa [identOK] using this
  -- the first label is not empty, so the text starts with the first character of an escaped octet
  have hfirst : ∃ c cs rest, n = (c :: cs) :: rest := by
    cases n with
    | nil => exact absurd rfl h0
    | cons x rest =>
      cases x with
      | cons c cs => exact ⟨c, cs, rest, rfl⟩
      | nil =>
        cases rest with
        | nil => exact absurd rfl h1
        | cons y ys => exact absurd rfl (hwf.2.2 [] (by simp [List.dropLast]))
  obtain ⟨c, cs, rest, rfl⟩ := hfirst
  obtain ⟨a, t, ha, hne⟩ := escOctet_head Consts.nameEscaped hesc c
  have hhead : ∃ t', joinDot (((c :: cs) :: rest).map escapify) = a :: t' := by
    cases rest with
    | nil => exact ⟨t ++ escapifyWith Consts.nameEscaped cs, by simp [joinDot, escapify, escapifyWith, ha]⟩
    | cons y ys =>
      exact ⟨t ++ escapifyWith Consts.nameEscaped cs ++ 46 :: joinDot ((y :: ys).map escapify),
        by simp [joinDot, escapify, escapifyWith, ha]⟩
  obtain ⟨t', ht'⟩ := hhead
  refine ⟨hid, ?_, ?_⟩
  · rw [ht']; simp
  · rw [ht']; simpa using hne

/-- a decimal number is an identifier token -/
theorem identOK_decimal (ds : List Nat) (h : ds.all isDecimal = true) : identOK ds = true := by
  induction ds with
  | nil => rfl
  | cons d r ih =>
    simp only [List.all_cons, Bool.and_eq_true] at h
    have hd : 48 ≤ d ∧ d ≤ 57 := by simpa [isDecimal] using h.1
    have : d = 48 + (d - 48) := by omega
    rw [this, identOK_digit _ _ (by omega)]
    exact ih h.2

theorem natToDec_token (n : Nat) : identOK (natToDec n) = true ∧ natToDec n ≠ [] :=
  ⟨identOK_decimal _ (natToDec_all n), natToDec_ne_nil n⟩

theorem ttlOf_natToDec (n : Nat) (h : n ≤ Consts.maxTTL) : ttlOf (natToDec n) = some n := by
  unfold ttlOf ttlFromText
  simp only [natToDec_ne_nil, ne_eq, not_false_eq_true, natToDec_all, and_self, if_true, digitsVal_natToDec]
  have : ¬ n > Consts.maxTTL := by omega
  simp [this]

/-- the class column of the writer for class IN is the token `IN`, which names class 1 -/
theorem classText_token :
    identOK (classToText 1) = true ∧ classToText 1 ≠ [] ∧ classFromText (classToText 1) = some 1 := by decide

/-- a type whose mnemonic the writer prints and the reader maps back to it (and that is neither a TTL nor a class) -/
def TypeTextOK (ty : Nat) : Prop :=
  identOK (typeToText ty) = true ∧ typeToText ty ≠ [] ∧ typeFromText (typeToText ty) = some ty

instance (ty : Nat) : Decidable (TypeTextOK ty) := by unfold TypeTextOK; exact inferInstance

/-- every type of the mnemonic table of the working tree is printed as a token that reads back as that type -/
theorem typeText_table_ok : ∀ p ∈ ConstsC09.typeText, TypeTextOK p.1 := by decide

/-- text that reads as an absolute name reads as the same name whatever origin is supplied -/
theorem fromText_abs_origin (t : List Nat) (n o : Name) (h : fromText t none = .ok n) (habs : isAbs n = true) :
    fromText t (some o) = .ok n := by
  unfold fromText at h ⊢
  simp only at h ⊢
  generalize (if t = [64] then [] else t) = text at h ⊢
  generalize (if text = [] then (Except.ok [] : Except NameErr (List Label)) else if text = [46] then .ok [[]] else
    match ftRun ftInit text with
      | .error e => .error e
      | .ok s => if s.esc.isSome then .error .badEscape else .ok (s.labels ++ [s.label])) = labelsE at h ⊢
  cases labelsE with
  | error e => exact h
  | ok labels =>
    simp only at h ⊢
    by_cases h46 : text = [46]
    · simpa [h46] using h
    · simp only [h46, if_false] at h ⊢
      obtain ⟨rfl, _⟩ := wf_of_validate _ _ h
      have hl : n.getLast? = some [] := by
        unfold isAbs at habs
        split at habs
        · assumption
        · cases habs
      have : ¬(n = [] ∨ n.getLast? ≠ some []) := by
        intro hc
        rcases hc with hc | hc
        · subst hc; simp at hl
        · exact hc hl
      simp only [this, if_false]
      exact h
end Model

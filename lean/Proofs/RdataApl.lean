import Model.RdataSchema
import Model.RdataIrregular
import Model.RdataTable
import Proofs.RdataBytes
import Proofs.RdataCodec
import Proofs.RdataSound
import Proofs.RdataLoc
/-! APL (C02): `APLItem` keeps IPv4/IPv6 addresses padded and other families as they came; `to_wire` strips trailing
zero octets.  Re-encoding the object-level view gives a raw record whose own view re-encodes to the same octets. -/
namespace Model

theorem strip_decomp : ∀ b : Bytes, ∃ k, b = stripTrailingZeros b ++ List.replicate k 0 := by
  intro b
  induction b with
  | nil => exact ⟨0, by simp [stripTrailingZeros]⟩
  | cons x xs ih =>
    obtain ⟨k, hk⟩ := ih
    simp only [stripTrailingZeros]
    cases hs : stripTrailingZeros xs with
    | nil =>
      rw [hs] at hk
      simp only [List.nil_append] at hk
      by_cases hx : x = 0
      · subst hx
        refine ⟨k + 1, ?_⟩
        simp [hk, List.replicate_succ]
      · refine ⟨k, ?_⟩
        simp [hx]
        exact hk
    | cons y ys =>
      rw [hs] at hk
      refine ⟨k, ?_⟩
      simp only [List.cons_append]
      rw [← List.cons_append, ← hk]

theorem strip_idem : ∀ b : Bytes, stripTrailingZeros (stripTrailingZeros b) = stripTrailingZeros b := by
  intro b
  induction b with
  | nil => simp [stripTrailingZeros]
  | cons x xs ih =>
    simp only [stripTrailingZeros]
    cases hs : stripTrailingZeros xs with
    | nil =>
      by_cases hx : x = 0
      · simp [hx, stripTrailingZeros]
      · simp [hx, stripTrailingZeros]
    | cons y ys =>
      rw [hs] at ih
      show stripTrailingZeros (x :: y :: ys) = x :: y :: ys
      rw [stripTrailingZeros, ih]

theorem strip_length_le (b : Bytes) : (stripTrailingZeros b).length ≤ b.length := by
  obtain ⟨k, hk⟩ := strip_decomp b
  have := congrArg List.length hk
  simp at this; omega

theorem pad_strip (n : Nat) (b : Bytes) (h : b.length = n) : padTo n (stripTrailingZeros b) = b := by
  obtain ⟨k, hk⟩ := strip_decomp b
  have hl := congrArg List.length hk
  simp at hl
  unfold padTo
  have : n - (stripTrailingZeros b).length = k := by omega
  rw [this]; exact hk.symm

theorem apl_item_shape (o : Option Name) (it : Val) (h : valid aplItemSchema o it = true) :
    ∃ fam px nl afd, it = .pair (.pair (.nat fam) (.pair (.nat px) (.nat nl))) (.bytes afd) ∧
      fam < 65536 ∧ px < 256 ∧ nl < 256 ∧ afd.length = nl % 128 := by
  simp only [aplItemSchema, Schema.seq, valid, validWith] at h
  cases it <;> simp [validWith] at h
  rename_i hdr body
  obtain ⟨⟨h1, h2⟩, h3⟩ := h
  obtain ⟨fam, r1, rfl, hf, h1⟩ := valid_pair_uint h1
  obtain ⟨px, r2, rfl, hp, h1⟩ := valid_pair_uint h1
  obtain ⟨nl, rfl, hn⟩ := valid_uint h1
  simp only [Val.snd, Val.toNat] at h2 h3
  cases body <;> simp [validWith] at h3
  rename_i afd
  exact ⟨fam, px, nl, afd, rfl, by simpa using hf, by simpa using hp, by simpa using hn, h3⟩

theorem apl_item_valid (o : Option Name) (fam px nl : Nat) (afd : Bytes)
    (hf : fam < 65536) (hp : px < 256) (hn : nl < 256) (hl : afd.length = nl % 128) :
    valid aplItemSchema o (.pair (.pair (.nat fam) (.pair (.nat px) (.nat nl))) (.bytes afd)) = true := by
  simp only [aplItemSchema, Schema.seq, valid, validWith, Val.snd, Val.toNat, Bool.and_eq_true, decide_eq_true_eq]
  refine ⟨⟨⟨by omega, by omega, by omega⟩, by omega⟩, hl⟩

/-- one APL item: the raw item rebuilt from the object-level item is valid, and its own object-level item
rebuilds the same raw item -/
theorem apl_item_fix (o : Option Name) (it w : Val) (h : valid aplItemSchema o it = true)
    (hw : aplItemPost it = some w) :
    valid aplItemSchema o (aplItemPre w) = true ∧
      ∃ w', aplItemPost (aplItemPre w) = some w' ∧ aplItemPre w' = aplItemPre w := by
  obtain ⟨fam, px, nl, afd, rfl, hf, hp, hn, hl⟩ := apl_item_shape o it h
  have hneg : nl / 128 ≤ 1 := by omega
  simp only [aplItemPost, Val.fst, Val.snd, Val.toNat, Val.toBytes] at hw
  -- the three family cases share the final computation
  have fin : ∀ (addr : Bytes), addr.length ≤ 127 →
      w = seqV [.nat fam, .nat px, .nat (nl / 128), .bytes addr] →
      aplItemPre w = .pair (.pair (.nat fam) (.pair (.nat px)
        (.nat ((stripTrailingZeros addr).length + 128 * (nl / 128))))) (.bytes (stripTrailingZeros addr)) := by
    intro addr _ e
    subst e
    simp [aplItemPre, seqV, locCoord.seqV, Val.fst, Val.snd, Val.toNat, Val.toBytes]
  have vfin : ∀ (addr : Bytes), addr.length ≤ 127 →
      valid aplItemSchema o (.pair (.pair (.nat fam) (.pair (.nat px)
        (.nat ((stripTrailingZeros addr).length + 128 * (nl / 128))))) (.bytes (stripTrailingZeros addr))) = true := by
    intro addr ha
    have := strip_length_le addr
    apply apl_item_valid o _ _ _ _ hf hp (by omega)
    omega
  have negfix : ∀ (k : Nat), k < 128 → (k + 128 * (nl / 128)) / 128 = nl / 128 := by intro k hk; omega
  by_cases h1 : fam = 1
  · simp only [h1, if_true] at hw
    split at hw
    · rename_i hc
      simp at hw
      have hlen : (padTo 4 afd).length = 4 := by simp [padTo]; omega
      have e := fin (padTo 4 afd) (by omega) (by rw [← hw, h1])
      have hs := strip_length_le (padTo 4 afd)
      refine ⟨by rw [e]; exact vfin _ (by omega), w, ?_, rfl⟩
      rw [e]
      simp only [aplItemPost, Val.fst, Val.snd, Val.toNat, Val.toBytes, h1, if_true]
      have : (stripTrailingZeros (padTo 4 afd)).length ≤ 4 ∧ px ≤ 32 := ⟨by omega, hc.2⟩
      simp only [this, and_self, if_true, negfix (stripTrailingZeros (padTo 4 afd)).length (by omega),
        pad_strip 4 _ hlen]
      rw [← hw]
    · simp at hw
  · by_cases h2 : fam = 2
    · simp only [h2, show (2 : Nat) ≠ 1 by decide, if_false, if_true] at hw
      split at hw
      · rename_i hc
        simp at hw
        have hlen : (padTo 16 afd).length = 16 := by simp [padTo]; omega
        have e := fin (padTo 16 afd) (by omega) (by rw [← hw, h2])
        have hs := strip_length_le (padTo 16 afd)
        refine ⟨by rw [e]; exact vfin _ (by omega), w, ?_, rfl⟩
        rw [e]
        simp only [aplItemPost, Val.fst, Val.snd, Val.toNat, Val.toBytes, h2, show (2 : Nat) ≠ 1 by decide,
          if_false, if_true]
        have : (stripTrailingZeros (padTo 16 afd)).length ≤ 16 ∧ px ≤ 128 := ⟨by omega, hc.2⟩
        simp only [this, and_self, if_true, negfix (stripTrailingZeros (padTo 16 afd)).length (by omega),
          pad_strip 16 _ hlen]
        rw [← hw]
      · simp at hw
    · simp only [h1, h2, if_false] at hw
      by_cases hc : afd.length * 2 ≤ 127
      · simp only [hc, if_true, Option.some.injEq] at hw
        have e := fin afd (by omega) hw.symm
        have hs := strip_length_le afd
        refine ⟨by rw [e]; exact vfin _ (by omega),
          seqV [.nat fam, .nat px, .nat (nl / 128), .bytes (stripTrailingZeros afd)], ?_, ?_⟩
        · rw [e]
          simp only [aplItemPost, Val.fst, Val.snd, Val.toNat, Val.toBytes, h1, h2, if_false]
          have : (stripTrailingZeros afd).length * 2 ≤ 127 := by omega
          simp only [this, if_true, negfix (stripTrailingZeros afd).length (by omega)]
        · rw [e]
          simp [aplItemPre, seqV, locCoord.seqV, Val.fst, Val.snd, Val.toNat, Val.toBytes, strip_idem]
      · simp [hc] at hw

theorem apl_list_fix (o : Option Name) : ∀ (rs ws : List Val),
    (∀ r ∈ rs, valid aplItemSchema o r = true) → mapOpt aplItemPost rs = some ws →
    (∀ x ∈ ws.map aplItemPre, valid aplItemSchema o x = true) ∧
      ∃ ws', mapOpt aplItemPost (ws.map aplItemPre) = some ws' ∧ ws'.map aplItemPre = ws.map aplItemPre := by
  intro rs
  induction rs with
  | nil =>
    intro ws _ hw
    simp [mapOpt] at hw; subst hw
    exact ⟨by simp, [], by simp [mapOpt], rfl⟩
  | cons r rs ih =>
    intro ws h hw
    simp only [mapOpt] at hw
    split at hw
    · rename_i y ys hy hys
      simp at hw; subst hw
      obtain ⟨hv, w', hp, he⟩ := apl_item_fix o r y (h r (by simp)) hy
      obtain ⟨hvs, ws', hps, hes⟩ := ih ys (fun x hx => h x (by simp [hx])) hys
      refine ⟨?_, w' :: ws', ?_, ?_⟩
      · intro x hx
        simp only [List.map_cons, List.mem_cons] at hx
        rcases hx with rfl | hx
        · exact hv
        · exact hvs x hx
      · simp only [List.map_cons, mapOpt, hp, hps]
      · simp only [List.map_cons, he, hes]
    · simp at hw

theorem apl_pre_post (o : Option Name) (r w : Val) (h : valid (.rep aplItemSchema) o r = true)
    (hw : aplPost r = some w) :
    valid (.rep aplItemSchema) o (aplPre w) = true ∧ ∃ w', aplPost (aplPre w) = some w' ∧ aplPre w' = aplPre w := by
  cases r <;> simp [valid, validWith] at h
  rename_i rs
  simp only [aplPost, Val.toList, Option.map_eq_some_iff] at hw
  obtain ⟨ws, hws, rfl⟩ := hw
  obtain ⟨hv, ws', hp, he⟩ := apl_list_fix o rs ws (fun x hx => by simpa [valid] using h x hx) hws
  constructor
  · simp only [aplPre, Val.toList, valid, validWith, List.all_eq_true]
    intro x hx
    simpa [valid] using hv x hx
  · refine ⟨.list ws', ?_, ?_⟩
    · simp only [aplPost, aplPre, Val.toList, hp, Option.map_some]
    · simp only [aplPre, Val.toList, he]

end Model

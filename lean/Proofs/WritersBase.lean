import Proofs.WritersTrans
/-! Invariants of the writer-admission model: the basic ones (lock holder, transaction owner). -/
namespace Model.Writers

structure InvLock (s : State) : Prop where
  /-- exactly the thread recorded in `lock` is inside a `with self._version_lock` block -/
  lock : ∀ t, holdsLock (s.loc t).pc = true ↔ s.lock = some t
  /-- exactly the thread recorded in `_write_txn` is between admission and the end of its transaction -/
  own : ∀ t, isOwner (s.loc t).pc = true ↔ s.writeTxn = some t
  /-- the admission test was passed with no open transaction, and nothing changed since (the lock is held) -/
  mkTxn : ∀ t, (s.loc t).pc = .wMkTxn → s.writeTxn = none

theorem invLock_init : InvLock init := by
  constructor <;> intro t <;> simp [init]

theorem invLock_trans {c : Cfg} {s s' : State} {t : Tid} (h : InvLock s) (htr : Trans c s t s') : InvLock s' := by
  have hl := h.lock t
  have ho := h.own t
  have hm := h.mkTxn t
  cases htr <;>
    constructor <;> intro u <;> have hlu := h.lock u <;> have hou := h.own u <;> have hmu := h.mkTxn u <;>
    by_cases hu : u = t <;> simp_all <;> (try grind)

end Model.Writers

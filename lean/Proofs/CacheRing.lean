import Model.Cache
/-! Helper lemmas for C17, part 6: the sentinel ring at pointer level (`prev` / `next` as coded) implements the list. -/
namespace Model.Cache

/-- `next` leads from `a` through exactly the nodes of `l` to `b`, and `prev` leads back -/
def Seg (p : Ptrs) : Nat → List Nat → Nat → Prop
  | a, [], b => p.next a = b ∧ p.prev b = a
  | a, x :: l, b => p.next a = x ∧ p.prev x = a ∧ Seg p x l b

/-- the pointers represent the ring `l` (first = `sentinel.next`, last = `sentinel.prev`) -/
def Ring (p : Ptrs) (l : List Nat) : Prop := Seg p 0 l 0 ∧ (0 :: l).Nodup

theorem setP_same (f : Nat → Nat) (i v : Nat) : setP f i v i = v := by simp [setP]
theorem setP_other (f : Nat → Nat) (i v j : Nat) (h : j ≠ i) : setP f i v j = f j := by simp [setP, h]

/-- a segment only looks at `next` on `a :: l` and at `prev` on `l ++ [b]` -/
theorem seg_frame (p p' : Ptrs) (a : Nat) (l : List Nat) (b : Nat) (h : Seg p a l b)
    (hn : ∀ i ∈ a :: l, p'.next i = p.next i) (hp : ∀ i ∈ l ++ [b], p'.prev i = p.prev i) : Seg p' a l b := by
  induction l generalizing a with
  | nil =>
    simp only [Seg] at h ⊢
    exact ⟨by rw [hn a (by simp)]; exact h.1, by rw [hp b (by simp)]; exact h.2⟩
  | cons x l ih =>
    simp only [Seg] at h ⊢
    refine ⟨by rw [hn a (by simp)]; exact h.1, by rw [hp x (by simp)]; exact h.2.1, ?_⟩
    exact ih x h.2.2 (fun i hi => hn i (List.mem_cons_of_mem _ hi)) (fun i hi => hp i (by simp at hi ⊢; exact Or.inr hi))

theorem ring_first (p : Ptrs) (l : List Nat) (h : Ring p l) : p.next 0 = l.head?.getD 0 := by
  cases l with
  | nil => exact h.1.1
  | cons x l => exact h.1.1

theorem seg_last (p : Ptrs) (a : Nat) (l : List Nat) (b : Nat) (h : Seg p a l b) : p.prev b = (a :: l).getLast (by simp) := by
  induction l generalizing a with
  | nil => exact h.2
  | cons x l ih => simp only [Seg] at h; rw [ih x h.2.2]; simp [List.getLast_cons]

/-- `sentinel.prev` is the last node of the ring (the least recently used one), or the sentinel itself -/
theorem ring_last (p : Ptrs) (l : List Nat) (h : Ring p l) : p.prev 0 = l.getLast?.getD 0 := by
  rw [seg_last p 0 l 0 h.1]
  cases l with
  | nil => rfl
  | cons x l => simp [List.getLast?_eq_some_getLast, List.getLast_cons]

/-! ### link_after -/

theorem linkAfter_next (p : Ptrs) (x a : Nat) (hxa : x ≠ a) :
    (linkAfter p x a).next = setP (setP p.next x (p.next a)) a x := by
  simp [linkAfter]

theorem linkAfter_prev (p : Ptrs) (x a : Nat) (hxa : x ≠ a) :
    (linkAfter p x a).prev = setP (setP p.prev x a) (p.next a) x := by
  have : a ≠ x := fun e => hxa e.symm
  simp [linkAfter, setP, this]

theorem seg_link (p : Ptrs) (a : Nat) (l : List Nat) (b x : Nat) (h : Seg p a l b)
    (hxa : x ≠ a) (hxb : x ≠ b) (hxl : x ∉ l) (hal : a ∉ l) (hbl : b ∉ l) (hl : l.Nodup) :
    Seg (linkAfter p x a) a (x :: l) b := by
  have hax : a ≠ x := fun e => hxa e.symm
  have hbx : b ≠ x := fun e => hxb e.symm
  cases l with
  | nil =>
    simp only [Seg] at h
    have hab : p.next a = b := h.1
    simp only [Seg, linkAfter_next p x a hxa, linkAfter_prev p x a hxa, hab]
    refine ⟨setP_same _ _ _, ?_, ?_, setP_same _ _ _⟩
    · rw [setP_other _ _ _ _ hxb, setP_same]
    · rw [setP_other _ _ _ _ hxa, setP_same]
  | cons y l' =>
    simp only [Seg] at h
    have hy : p.next a = y := h.1
    have hyx : y ≠ x := fun e => hxl (by simp [e])
    have hxy : x ≠ y := fun e => hyx e.symm
    have hya : y ≠ a := fun e => hal (by simp [e])
    have hyb : y ≠ b := fun e => hbl (by simp [e])
    simp only [Seg, linkAfter_next p x a hxa, linkAfter_prev p x a hxa, hy]
    refine ⟨setP_same _ _ _, ?_, ?_, setP_same _ _ _, ?_⟩
    · rw [setP_other _ _ _ _ hxy, setP_same]
    · rw [setP_other _ _ _ _ hxa, setP_same]
    · apply seg_frame p _ y l' b h.2.2
      · intro i hi
        have hia : i ≠ a := fun e => hal (by rw [← e]; exact hi)
        have hix : i ≠ x := fun e => hxl (by rw [← e]; exact hi)
        rw [linkAfter_next p x a hxa, setP_other _ _ _ _ hia, setP_other _ _ _ _ hix]
      · intro i hi
        have hix : i ≠ x := by
          intro e; subst e
          rcases List.mem_append.mp hi with hm | hm
          · exact hxl (List.mem_cons_of_mem _ hm)
          · simp at hm; exact hxb hm
        have hiy : i ≠ y := by
          intro e; subst e
          rcases List.mem_append.mp hi with hm | hm
          · exact (List.nodup_cons.mp hl).1 hm
          · simp at hm; exact hyb hm
        rw [linkAfter_prev p x a hxa, hy, setP_other _ _ _ _ hiy, setP_other _ _ _ _ hix]

/-- `node.link_after(sentinel)` puts the node first and leaves the rest of the ring as it was -/
theorem ring_link (p : Ptrs) (l : List Nat) (x : Nat) (h : Ring p l) (hx0 : x ≠ 0) (hxl : x ∉ l) :
    Ring (linkAfter p x 0) (x :: l) := by
  have hnd := List.nodup_cons.mp h.2
  refine ⟨seg_link p 0 l 0 x h.1 hx0 hx0 hxl hnd.1 hnd.1 hnd.2, ?_⟩
  refine List.nodup_cons.mpr ⟨?_, List.nodup_cons.mpr ⟨hxl, hnd.2⟩⟩
  intro hm
  rcases List.mem_cons.mp hm with e | hm
  · exact hx0 e.symm
  · exact hnd.1 hm

/-! ### unlink -/

theorem seg_prev_mem (p : Ptrs) (a : Nat) (l : List Nat) (b x : Nat) (h : Seg p a l b) (hx : x ∈ l) :
    p.prev x ∈ a :: l ∧ p.next x ∈ l ++ [b] := by
  induction l generalizing a with
  | nil => cases hx
  | cons y l ih =>
    simp only [Seg] at h
    rcases List.mem_cons.mp hx with e | hm
    · subst e
      refine ⟨by rw [h.2.1]; simp, ?_⟩
      cases l with
      | nil => simp only [Seg] at h; rw [h.2.2.1]; simp
      | cons z l' => simp only [Seg] at h; rw [h.2.2.1]; simp
    · have := ih y h.2.2 hm
      exact ⟨List.mem_cons_of_mem _ this.1, by simp at this ⊢; exact Or.inr this.2⟩

theorem unlinkP_next (p : Ptrs) (x : Nat) : (unlinkP p x).next = setP p.next (p.prev x) (p.next x) := by
  have e : setP p.prev (p.next x) (p.prev x) x = p.prev x := by
    unfold setP; split <;> rfl
  show setP p.next (setP p.prev (p.next x) (p.prev x) x) (p.next x) = _
  rw [e]

theorem unlinkP_prev (p : Ptrs) (x : Nat) : (unlinkP p x).prev = setP p.prev (p.next x) (p.prev x) := by
  simp [unlinkP]

theorem seg_unlink (p : Ptrs) (a : Nat) (l : List Nat) (b x : Nat) (h : Seg p a l b) (hx : x ∈ l)
    (hal : a ∉ l) (hbl : b ∉ l) (hl : l.Nodup) : Seg (unlinkP p x) a (l.erase x) b := by
  induction l generalizing a with
  | nil => cases hx
  | cons y l ih =>
    simp only [Seg] at h
    have hnd := List.nodup_cons.mp hl
    have hya : y ≠ a := fun e => hal (by simp [e])
    have hyb : y ≠ b := fun e => hbl (by simp [e])
    by_cases hyx : y = x
    · subst hyx
      simp only [List.erase_cons_head]
      have hprev : p.prev y = a := h.2.1
      cases l with
      | nil =>
        simp only [Seg] at h ⊢
        have hnext : p.next y = b := h.2.2.1
        rw [unlinkP_next, unlinkP_prev, hprev, hnext]
        exact ⟨setP_same _ _ _, setP_same _ _ _⟩
      | cons z l' =>
        simp only [Seg] at h ⊢
        have hnext : p.next y = z := h.2.2.1
        rw [unlinkP_next, unlinkP_prev, hprev, hnext]
        refine ⟨setP_same _ _ _, setP_same _ _ _, ?_⟩
        apply seg_frame p _ z l' b h.2.2.2.2
        · intro i hi
          have hia : i ≠ a := fun e => hal (by rw [← e]; exact List.mem_cons_of_mem _ hi)
          show (unlinkP p y).next i = p.next i
          rw [unlinkP_next, hprev]; exact setP_other _ _ _ _ hia
        · intro i hi
          have hiz : i ≠ z := by
            intro e; subst e
            rcases List.mem_append.mp hi with hm | hm
            · exact (List.nodup_cons.mp hnd.2).1 hm
            · simp at hm; exact hbl (by simp [hm])
          show (unlinkP p y).prev i = p.prev i
          rw [unlinkP_prev, hnext]; exact setP_other _ _ _ _ hiz
    · have hxl : x ∈ l := by
        rcases List.mem_cons.mp hx with e | hm
        · exact absurd e.symm hyx
        · exact hm
      rw [List.erase_cons_tail (by simpa using hyx)]
      simp only [Seg]
      have hmem := seg_prev_mem p y l b x h.2.2 hxl
      have hbl' : b ∉ l := fun hm => hbl (List.mem_cons_of_mem _ hm)
      have ih' := ih y h.2.2 hxl hnd.1 hbl' hnd.2
      -- `next` is written at prev x ∈ y :: l (never a); `prev` is written at next x ∈ l ++ [b] (never y)
      have hpa : a ≠ p.prev x := by
        intro e
        rcases List.mem_cons.mp hmem.1 with e1 | hm
        · exact hya (e1.symm.trans e.symm)
        · exact hal (List.mem_cons_of_mem _ (e ▸ hm))
      have hny : y ≠ p.next x := by
        intro e
        rcases List.mem_append.mp hmem.2 with hm | hm
        · exact hnd.1 (e ▸ hm)
        · simp at hm; exact hyb (e.trans hm)
      refine ⟨?_, ?_, ih'⟩
      · rw [unlinkP_next, setP_other _ _ _ _ hpa]; exact h.1
      · rw [unlinkP_prev, setP_other _ _ _ _ hny]; exact h.2.1

/-- `node.unlink()` removes exactly that node and leaves the order of the others -/
theorem ring_unlink (p : Ptrs) (l : List Nat) (x : Nat) (h : Ring p l) (hx : x ∈ l) :
    Ring (unlinkP p x) (l.erase x) := by
  have hnd := List.nodup_cons.mp h.2
  refine ⟨seg_unlink p 0 l 0 x h.1 hx hnd.1 hnd.1 hnd.2, ?_⟩
  exact List.nodup_cons.mpr ⟨fun hm => hnd.1 (List.mem_of_mem_erase hm), hnd.2.erase x⟩

end Model.Cache

import Model.Resolver
import Proofs.Resolver
import Proofs.ResolverStep
import Proofs.ResolverRun
/-!
Helper lemmas for C16, part 7: over a whole resolution the cache changes only under keys
`(candidate, type, class)` and `(candidate, ANY, class)` for candidate names of this resolution.
-/
set_option linter.unusedSimpArgs false
namespace Model.Resolver
open Model

def StepR.st : StepR → St
  | .cont _ st => st
  | .done _ _ st => st

/-- a key no candidate of this resolution can be cached under -/
def foreignKey (env : Env) (k : Key) : Prop :=
  ∀ q ∈ env.qnamesToTry, k ≠ mkKey q env.rdtype env.rdclass ∧ k ≠ mkKey q tyANY env.rdclass

def CacheAgree (env : Env) (c0 c : Cache) : Prop :=
  ∀ k t, foreignKey env k → cacheGet c k t = cacheGet c0 k t

theorem afterPick_cache (env : Env) (c0 : Cache) (ns : Server) (tcp : Bool) (b : Nat) (st1 : St)
    (hq : st1.qname ∈ env.qnamesToTry) (hc : CacheAgree env c0 st1.cache) :
    CacheAgree env c0 (afterPick env st1.qname ns tcp b st1).st.cache := by
  unfold afterPick
  simp only
  split
  · exact hc
  · rename_i timeout _
    have hqc := (queryResult_cache env
      { st1 with now := st1.now + sleepFor env b st1.now + (doQuery st1.script timeout).2.1,
                 script := (doQuery st1.script timeout).2.2 } ns (doQuery st1.script timeout).1).1
    simp only at hqc
    have key : CacheAgree env c0 (queryResult env
      { st1 with now := st1.now + sleepFor env b st1.now + (doQuery st1.script timeout).2.1,
                 script := (doQuery st1.script timeout).2.2 } ns (doQuery st1.script timeout).1).st.cache := by
      intro k t hk
      rw [hqc k t (hk _ hq).1 (hk _ hq).2]
      exact hc k t hk
    split
    · rename_i r st4 h; rw [h] at key; exact key
    · rename_i a d st4 h; rw [h] at key; exact key
    · rename_i d st4 h
      rw [h] at key
      cases d <;> exact key

def InvK (env : Env) (c0 : Cache) (st : St) : Prop :=
  (st.phase = .querying → st.qname ∈ env.qnamesToTry) ∧ (∀ q ∈ st.qnames, q ∈ env.qnamesToTry) ∧
  CacheAgree env c0 st.cache

theorem step_cache (env : Env) (c0 : Cache) (st : St) (hinv : InvK env c0 st) :
    (∀ evs st', step env st = .cont evs st' → InvK env c0 st') ∧
    (∀ evs r st', step env st = .done evs r st' → CacheAgree env c0 st'.cache) := by
  obtain ⟨h1, h2, h3⟩ := hinv
  unfold step
  split
  · have hs := nextRequest_spec env st.qnames st
    split
    · exact ⟨(fun _ _ h => by cases h), fun _ _ _ h => by cases h; exact h3⟩
    · exact ⟨(fun _ _ h => by cases h), fun _ _ _ h => by cases h; exact h3⟩
    · rename_i st2 hr
      rw [hr] at hs
      obtain ⟨⟨skipped, e1, _⟩, _, p1, p2, p3, p4, p5, p6, p7, _⟩ := hs
      refine ⟨?_, (fun _ _ _ h => by cases h)⟩
      intro evs st' h
      cases h
      refine ⟨fun _ => h2 _ (by rw [e1]; simp), ?_, by rw [p7]; exact h3⟩
      intro q hq
      exact h2 q (by rw [e1]; exact List.mem_append_right _ (List.mem_cons_of_mem _ hq))
  · rename_i hphase
    split
    · exact ⟨(fun _ _ h => by cases h), fun _ _ _ h => by cases h; exact h3⟩
    · rename_i ns tcp b st1 hns
      obtain ⟨⟨g1, g2, g3, g4, g5, g6, g7, g8⟩, _⟩ := nextNameserver_ok hns
      have hq1 : st1.qname ∈ env.qnamesToTry := by rw [g3]; exact h1 hphase
      have hc := afterPick_cache env c0 ns tcp b st1 hq1 (by rw [g7]; exact h3)
      rw [← g3]
      refine ⟨?_, ?_⟩
      · intro evs st' h
        rw [h] at hc
        obtain ⟨_, _, a3, a4, _⟩ := afterPick_cont h
        exact ⟨fun _ => by rw [a4]; exact hq1, by rw [a3, g2]; exact h2, hc⟩
      · intro evs r st' h
        rw [h] at hc
        exact hc

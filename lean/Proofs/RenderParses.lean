import Proofs.ParseTsig
import Proofs.ParsePad
/-! A truncated rendering parses: the kept prefix of a well-formed message is a well-formed message. -/
namespace Model

variable {Rs : RelSpec}

theorem rrCount_take_le (l : List RRset) (k : Nat) : rrCount (l.take k) ≤ rrCount l := by
  induction l generalizing k with
  | nil => simp [rrCount]
  | cons r rest ih =>
    cases k with
    | zero => simp [rrCount]
    | succ n =>
      have := ih n
      simp only [rrCount, List.take_succ_cons, List.map_cons, List.sum_cons] at this ⊢
      omega

theorem isUpdate_or_tc (f : Nat) : isUpdate (f ||| ConstsC03.tcFlag) = isUpdate f := by
  have : ConstsC03.tcFlag = 512 := by decide
  unfold isUpdate opcodeFromFlags
  rw [this, Nat.and_or_distrib_right]
  simp

theorem MsgOk.cut {m : Message} (h : MsgOk Rs m) (k : Nat) (tc : Bool) : MsgOk Rs (m.cut k tc) := by
  obtain ⟨c1, c2, c3, c4⟩ := h.counts
  have htc : ConstsC03.tcFlag < 2 ^ 16 := by decide
  refine ⟨h.origin, h.id, ?_, ?_, h.noOpt, h.noTsig, ?_, ?_, ?_, ?_, ?_, ?_, ?_, ?_⟩
  · simp only [Message.cut]
    split
    · exact Nat.or_lt_two_pow (by simpa using h.flags) htc
    · exact h.flags
  · simp only [Message.cut]
    split
    · rw [isUpdate_or_tc]; exact h.notUpdate
    · exact h.notUpdate
  · intro r hr; exact h.q r (List.mem_of_mem_take hr)
  · intro r hr; exact h.an r (List.mem_of_mem_take hr)
  · intro r hr; exact h.au r (List.mem_of_mem_take hr)
  · intro r hr; exact h.ad r (List.mem_of_mem_take hr)
  · exact h.keysAn.sublist (List.take_sublist _ _)
  · exact h.keysAu.sublist (List.take_sublist _ _)
  · exact h.keysAd.sublist (List.take_sublist _ _)
  · simp only [Message.cut]
    refine ⟨?_, ?_, ?_, ?_⟩
    · have := List.length_take_le' k m.q; omega
    · have := rrCount_take_le m.an (k - m.q.length); omega
    · have := rrCount_take_le m.au (k - m.q.length - m.an.length); omega
    · have := rrCount_take_le m.ad (k - m.q.length - m.an.length - m.au.length); omega

theorem MsgOkE.cut {m : Message} (h : MsgOkE Rs m) (k : Nat) (tc : Bool) : MsgOkE Rs (m.cut k tc) := by
  obtain ⟨c1, c2, c3, c4⟩ := h.counts
  have htc : ConstsC03.tcFlag < 2 ^ 16 := by decide
  refine ⟨h.origin, h.id, ?_, ?_, h.opt, h.pad, h.noTsig, ?_, ?_, ?_, ?_, ?_, ?_, ?_, ?_⟩
  · simp only [Message.cut]
    split
    · exact Nat.or_lt_two_pow (by simpa using h.flags) htc
    · exact h.flags
  · simp only [Message.cut]
    split
    · rw [isUpdate_or_tc]; exact h.notUpdate
    · exact h.notUpdate
  · intro r hr; exact h.q r (List.mem_of_mem_take hr)
  · intro r hr; exact h.an r (List.mem_of_mem_take hr)
  · intro r hr; exact h.au r (List.mem_of_mem_take hr)
  · intro r hr; exact h.ad r (List.mem_of_mem_take hr)
  · exact h.keysAn.sublist (List.take_sublist _ _)
  · exact h.keysAu.sublist (List.take_sublist _ _)
  · exact h.keysAd.sublist (List.take_sublist _ _)
  · simp only [Message.cut]
    refine ⟨?_, ?_, ?_, ?_⟩
    · have := List.length_take_le' k m.q; omega
    · have := rrCount_take_le m.an (k - m.q.length); omega
    · have := rrCount_take_le m.au (k - m.q.length - m.an.length); omega
    · have := rrCount_take_le m.ad (k - m.q.length - m.an.length - m.au.length); omega

theorem MsgOkT.cut {m : Message} (h : MsgOkT Rs m) (k : Nat) (tc : Bool) : MsgOkT Rs (m.cut k tc) := by
  obtain ⟨c1, c2, c3, c4⟩ := h.counts
  have htc : ConstsC03.tcFlag < 2 ^ 16 := by decide
  refine ⟨h.origin, h.id, ?_, ?_, h.opt, h.pad, h.tsig, ?_, ?_, ?_, ?_, ?_, ?_, ?_, ?_⟩
  · simp only [Message.cut]
    split
    · exact Nat.or_lt_two_pow (by simpa using h.flags) htc
    · exact h.flags
  · simp only [Message.cut]
    split
    · rw [isUpdate_or_tc]; exact h.notUpdate
    · exact h.notUpdate
  · intro r hr; exact h.q r (List.mem_of_mem_take hr)
  · intro r hr; exact h.an r (List.mem_of_mem_take hr)
  · intro r hr; exact h.au r (List.mem_of_mem_take hr)
  · intro r hr; exact h.ad r (List.mem_of_mem_take hr)
  · exact h.keysAn.sublist (List.take_sublist _ _)
  · exact h.keysAu.sublist (List.take_sublist _ _)
  · exact h.keysAd.sublist (List.take_sublist _ _)
  · simp only [Message.cut]
    refine ⟨?_, ?_, ?_, ?_⟩
    · have := List.length_take_le' k m.q; omega
    · have := rrCount_take_le m.an (k - m.q.length); omega
    · have := rrCount_take_le m.au (k - m.q.length - m.an.length); omega
    · have := rrCount_take_le m.ad (k - m.q.length - m.an.length - m.au.length); omega

theorem MsgOkP.cut {m : Message} (h : MsgOkP Rs m) (k : Nat) (tc : Bool) : MsgOkP Rs (m.cut k tc) :=
  ⟨h.base.cut k tc, h.padOk⟩

end Model

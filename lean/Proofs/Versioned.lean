import Model.Versioned
/-! Helper lemmas for C11: the pruning loop, `least_kept`, and the state invariant. -/
namespace Model.Versioned

/-! ### the pruning loop -/

theorem pruneLoop_suffix (p : Policy) (least : Nat) (vs : List Ver) : pruneLoop p least vs <:+ vs := by
  induction vs with
  | nil => exact List.suffix_refl _
  | cons v rest ih =>
    unfold pruneLoop
    split
    · exact ih.trans (List.suffix_cons v rest)
    · exact List.suffix_refl _

theorem mem_pruneLoop (p : Policy) (least : Nat) (vs : List Ver) (v : Ver) (hv : v ∈ vs) (hl : least ≤ v.id) :
    v ∈ pruneLoop p least vs := by
  induction vs with
  | nil => cases hv
  | cons x rest ih =>
    unfold pruneLoop
    split
    · rename_i hc
      rcases List.mem_cons.mp hv with e | hm
      · subst e; omega
      · exact ih hm
    · exact hv

/-- nothing prunable is left at the front -/
def FrontKept (p : Policy) (least : Nat) : List Ver → Prop
  | [] => True
  | v :: rest => ¬ (v.id < least ∧ prunable p (rest.length + 1) v = true)

theorem pruneLoop_front (p : Policy) (least : Nat) (vs : List Ver) : FrontKept p least (pruneLoop p least vs) := by
  induction vs with
  | nil => simp [pruneLoop, FrontKept]
  | cons v rest ih =>
    unfold pruneLoop
    split
    · exact ih
    · rename_i hc; exact hc

/-- the loop drops exactly the longest prefix of versions that are below `least` and that the policy, asked with the
number of versions still retained at that moment, allows to prune -/
theorem pruneLoop_exact (p : Policy) (least : Nat) (vs : List Ver) :
    ∃ n, n ≤ vs.length ∧ pruneLoop p least vs = vs.drop n ∧
      (∀ i (_ : i < n) (hlt : i < vs.length), vs[i].id < least ∧ prunable p (vs.length - i) vs[i] = true) ∧
      FrontKept p least (vs.drop n) := by
  induction vs with
  | nil => exact ⟨0, Nat.le_refl _, rfl, fun i hi => absurd hi (Nat.not_lt_zero _), by simp [FrontKept]⟩
  | cons v rest ih =>
    unfold pruneLoop
    split
    · rename_i hc
      obtain ⟨n, hn, he, hall, hf⟩ := ih
      refine ⟨n + 1, by simp; omega, by simpa using he, ?_, by simpa using hf⟩
      intro i hi hlt
      cases i with
      | zero => simpa using hc
      | succ j =>
        have := hall j (by omega) (by simpa using hlt)
        simpa using this
    · rename_i hc
      exact ⟨0, Nat.zero_le _, rfl, fun i hi => absurd hi (Nat.not_lt_zero _), hc⟩

/-- the loop keeps the **longest** suffix of the deque whose first version is not prunable at its turn: any other
suffix with that property is shorter (so, for a policy that is not monotone, versions behind the first refusal stay
even if the policy would accept them) -/
theorem pruneLoop_longest (p : Policy) (least : Nat) (vs : List Ver) (S : List Ver) (hS : S <:+ vs)
    (hF : FrontKept p least S) : S.length ≤ (pruneLoop p least vs).length := by
  induction vs with
  | nil =>
    have : S = [] := List.suffix_nil.mp hS
    subst this; simp [pruneLoop]
  | cons v rest ih =>
    unfold pruneLoop
    split
    · rename_i hc
      rcases List.suffix_cons_iff.mp hS with e | hs
      · subst e; exact absurd hc hF
      · exact ih hs
    · exact hS.length_le

/-! ### `least_kept` -/

theorem foldl_min_le (rest : List (Nat × Ver)) (m : Nat) :
    rest.foldl (fun m x => min m x.2.id) m ≤ m ∧ ∀ r ∈ rest, rest.foldl (fun m x => min m x.2.id) m ≤ r.2.id := by
  induction rest generalizing m with
  | nil => exact ⟨Nat.le_refl _, fun r hr => by cases hr⟩
  | cons x xs ih =>
    simp only [List.foldl_cons]
    have h := ih (min m x.2.id)
    refine ⟨Nat.le_trans h.1 (Nat.min_le_left _ _), fun r hr => ?_⟩
    rcases List.mem_cons.mp hr with e | hm
    · subst e; exact Nat.le_trans h.1 (Nat.min_le_right _ _)
    · exact h.2 r hm

theorem foldl_min_attained (rest : List (Nat × Ver)) (m : Nat) :
    rest.foldl (fun m x => min m x.2.id) m = m ∨ ∃ r ∈ rest, rest.foldl (fun m x => min m x.2.id) m = r.2.id := by
  induction rest generalizing m with
  | nil => exact Or.inl rfl
  | cons x xs ih =>
    simp only [List.foldl_cons]
    rcases ih (min m x.2.id) with h | ⟨r, hr, h⟩
    · rcases Nat.le_total m x.2.id with hle | hle
      · left; rw [h, Nat.min_eq_left hle]
      · right; exact ⟨x, by simp, by rw [h, Nat.min_eq_right hle]⟩
    · right; exact ⟨r, List.mem_cons_of_mem _ hr, h⟩

theorem leastKept_le (rs : List (Nat × Ver)) (vs : List Ver) (r : Nat × Ver) (hr : r ∈ rs) :
    leastKept rs vs ≤ r.2.id := by
  cases rs with
  | nil => cases hr
  | cons x xs =>
    simp only [leastKept]
    have h := foldl_min_le xs x.2.id
    rcases List.mem_cons.mp hr with e | hm
    · subst e; exact h.1
    · exact h.2 r hm

theorem leastKept_attained (rs : List (Nat × Ver)) (vs : List Ver) (hne : rs ≠ []) :
    ∃ r ∈ rs, leastKept rs vs = r.2.id := by
  cases rs with
  | nil => exact absurd rfl hne
  | cons x xs =>
    simp only [leastKept]
    rcases foldl_min_attained xs x.2.id with h | ⟨r, hr, h⟩
    · exact ⟨x, by simp, h⟩
    · exact ⟨r, List.mem_cons_of_mem _ hr, h⟩

theorem leastKept_append_le (rs : List (Nat × Ver)) (vs : List Ver) (r : Nat × Ver) (hne : rs ≠ []) :
    leastKept (rs ++ [r]) vs ≤ leastKept rs vs := by
  obtain ⟨q, hq, he⟩ := leastKept_attained rs vs hne
  rw [he]
  exact leastKept_le (rs ++ [r]) vs q (by simp [hq])

/-! ### the state invariant -/

structure PreInv (s : State) : Prop where
  last : ∃ v, s.versions.getLast? = some v ∧ v.id = s.history.length
  suffix : s.versions <:+ s.history
  ids : s.history.map (fun v => v.id) = List.range' 1 s.history.length
  wr : ∀ w, s.writer = some w → w = s.history.length + 1
  pins : ∀ r ∈ s.readers, r.2 ∈ s.versions

def Stable (s : State) : Prop := FrontKept s.policy (leastKept s.readers s.versions) s.versions

structure Inv (s : State) : Prop where
  pre : PreInv s
  stable : Stable s

theorem id_le_of_mem_history {s : State} (h : PreInv s) {v : Ver} (hv : v ∈ s.history) : v.id ≤ s.history.length := by
  have : v.id ∈ s.history.map (fun v => v.id) := List.mem_map_of_mem hv
  rw [h.ids] at this
  have := List.mem_range'_1.mp this
  omega

theorem newestId_eq {s : State} (h : PreInv s) : newestId s.versions = s.history.length := by
  obtain ⟨v, hv, hid⟩ := h.last
  simp [newestId, hv, hid]

theorem getLast?_of_suffix {α : Type} {l₁ l₂ : List α} (h : l₁ <:+ l₂) (hne : l₁ ≠ []) : l₁.getLast? = l₂.getLast? := by
  obtain ⟨t, rfl⟩ := h
  rw [List.getLast?_append]
  cases l₁ with
  | nil => exact absurd rfl hne
  | cons a l =>
    cases hg : (a :: l).getLast? with
    | none => simp at hg
    | some x => rfl

theorem versions_ne_nil {s : State} (h : PreInv s) : s.versions ≠ [] := by
  obtain ⟨v, hv, _⟩ := h.last
  intro e; rw [e] at hv; simp at hv

/-- some retained version is at or above `least_kept`: the newest one, or the smallest pin -/
theorem exists_kept {s : State} (h : PreInv s) : ∃ v ∈ s.versions, leastKept s.readers s.versions ≤ v.id := by
  by_cases hr : s.readers = []
  · obtain ⟨v, hv, hid⟩ := h.last
    refine ⟨v, List.mem_of_getLast? hv, ?_⟩
    rw [hr]; simp only [leastKept]; rw [newestId_eq h, hid]; exact Nat.le_refl _
  · obtain ⟨r, hmem, he⟩ := leastKept_attained s.readers s.versions hr
    exact ⟨r.2, h.pins r hmem, by rw [he]; exact Nat.le_refl _⟩

theorem prune_inv (s : State) (h : PreInv s) : Inv (prune s) := by
  obtain ⟨k, hk, hkl⟩ := exists_kept h
  have hsuf := pruneLoop_suffix s.policy (leastKept s.readers s.versions) s.versions
  have hmem := mem_pruneLoop s.policy (leastKept s.readers s.versions) s.versions k hk hkl
  have hne : pruneLoop s.policy (leastKept s.readers s.versions) s.versions ≠ [] := List.ne_nil_of_mem hmem
  have hlast := getLast?_of_suffix hsuf hne
  have hpre : PreInv (prune s) := by
    refine ⟨?_, hsuf.trans h.suffix, h.ids, h.wr, fun r hr => ?_⟩
    · simp only [prune]; rw [hlast]; exact h.last
    · exact mem_pruneLoop _ _ _ r.2 (h.pins r hr) (leastKept_le s.readers s.versions r hr)
  refine ⟨hpre, ?_⟩
  have hl : leastKept (prune s).readers (prune s).versions = leastKept s.readers s.versions := by
    simp only [prune]
    by_cases hr : s.readers = []
    · rw [hr] at hlast ⊢
      simp only [leastKept, newestId] at hlast ⊢
      rw [hlast]
    · cases hs : s.readers with
      | nil => exact absurd hs hr
      | cons x xs => simp only [leastKept]
  unfold Stable
  rw [hl]
  exact pruneLoop_front _ _ _

theorem stable_of_least_le {p : Policy} {l l' : Nat} {vs : List Ver} (h : FrontKept p l vs) (hle : l' ≤ l) :
    FrontKept p l' vs := by
  cases vs with
  | nil => trivial
  | cons v rest =>
    simp only [FrontKept] at h ⊢
    intro hc; exact h ⟨by omega, hc.2⟩

/-- registering a reader on a retained version keeps the invariant -/
theorem open_inv (s : State) (h : Inv s) (hd : Nat) (v : Ver) (hv : v ∈ s.versions) :
    Inv { s with readers := s.readers ++ [(hd, v)] } := by
  refine ⟨⟨h.pre.last, h.pre.suffix, h.pre.ids, h.pre.wr, ?_⟩, ?_⟩
  · intro r hr
    rcases List.mem_append.mp hr with hm | hm
    · exact h.pre.pins r hm
    · simp at hm; subst hm; exact hv
  · unfold Stable
    simp only
    refine stable_of_least_le h.stable ?_
    by_cases hr : s.readers = []
    · rw [hr]; simp only [List.nil_append, leastKept, List.foldl_nil]
      rw [newestId_eq h.pre]
      exact id_le_of_mem_history h.pre (h.pre.suffix.subset hv)
    · exact leastKept_append_le s.readers s.versions (hd, v) hr

theorem mem_of_find?_rev {vs : List Ver} {q : Ver → Bool} {v : Ver} (h : vs.reverse.find? q = some v) : v ∈ vs :=
  List.mem_reverse.mp (List.mem_of_find?_eq_some h)

theorem removeReader_subset (rs : List (Nat × Ver)) (hd : Nat) : ∀ r ∈ removeReader rs hd, r ∈ rs := by
  induction rs with
  | nil => intro r hr; cases hr
  | cons x xs ih =>
    intro r hr
    unfold removeReader at hr
    split at hr
    · exact List.mem_cons_of_mem _ hr
    · rcases List.mem_cons.mp hr with e | hm
      · subst e; simp
      · exact List.mem_cons_of_mem _ (ih r hm)

theorem nextId_eq {s : State} (h : PreInv s) : nextId s.versions = s.history.length + 1 := by
  obtain ⟨v, hv, hid⟩ := h.last
  simp [nextId, hv, hid]

theorem inv_step (s : State) (op : Op) (h : Inv s) : Inv (step s op).1 := by
  cases op with
  | openLatest hd =>
    simp only [step]
    split
    · rename_i v hv; exact open_inv s h hd v (List.mem_of_getLast? hv)
    · exact h
  | openId hd i =>
    simp only [step]
    split
    · rename_i v hv; exact open_inv s h hd v (mem_of_find?_rev hv)
    · exact h
  | openSerial hd sn =>
    simp only [step]
    split
    · rename_i v hv; exact open_inv s h hd v (mem_of_find?_rev hv)
    · exact h
  | openBoth hd i sn => exact h
  | close hd =>
    simp only [step]
    split
    · exact prune_inv _ ⟨h.pre.last, h.pre.suffix, h.pre.ids, h.pre.wr,
        fun r hr => h.pre.pins r (removeReader_subset s.readers hd r hr)⟩
    · exact h
  | wopen =>
    simp only [step]
    split
    · exact h
    · refine ⟨⟨h.pre.last, h.pre.suffix, h.pre.ids, ?_, h.pre.pins⟩, h.stable⟩
      intro w hw
      simp only [Option.some.injEq] at hw
      rw [← hw]; exact nextId_eq h.pre
  | commit c sn changed =>
    simp only [step]
    split
    · exact h
    · rename_i w hw
      split
      · have hwid := h.pre.wr w hw
        refine prune_inv _ ⟨?_, ?_, ?_, ?_, ?_⟩
        · exact ⟨⟨w, c, sn⟩, by simp, by simp [hwid]⟩
        · simp only
          obtain ⟨t, ht⟩ := h.pre.suffix
          exact ⟨t, by rw [← ht, List.append_assoc]⟩
        · simp only [List.map_append, List.map_cons, List.map_nil, List.length_append, List.length_cons,
            List.length_nil]
          rw [h.pre.ids, hwid, List.range'_concat]
          simp [Nat.add_comm]
        · intro w' hw'; simp at hw'
        · intro r hr; exact List.mem_append_left _ (h.pre.pins r hr)
      · exact ⟨⟨h.pre.last, h.pre.suffix, h.pre.ids, fun w' hw' => by simp at hw', h.pre.pins⟩, h.stable⟩
  | rollback =>
    simp only [step]
    split
    · exact h
    · exact ⟨⟨h.pre.last, h.pre.suffix, h.pre.ids, fun w' hw' => by simp at hw', h.pre.pins⟩, h.stable⟩
  | setMax n =>
    cases n with
    | none => exact prune_inv _ ⟨h.pre.last, h.pre.suffix, h.pre.ids, h.pre.wr, h.pre.pins⟩
    | some m =>
      simp only [step]
      split
      · exact h
      · exact prune_inv _ ⟨h.pre.last, h.pre.suffix, h.pre.ids, h.pre.wr, h.pre.pins⟩
  | setPolicy p =>
    cases p with
    | none => exact prune_inv _ ⟨h.pre.last, h.pre.suffix, h.pre.ids, h.pre.wr, h.pre.pins⟩
    | some ids => exact prune_inv _ ⟨h.pre.last, h.pre.suffix, h.pre.ids, h.pre.wr, h.pre.pins⟩
  | setModp a b => exact prune_inv _ ⟨h.pre.last, h.pre.suffix, h.pre.ids, h.pre.wr, h.pre.pins⟩
  | setPred f => exact prune_inv _ ⟨h.pre.last, h.pre.suffix, h.pre.ids, h.pre.wr, h.pre.pins⟩
  | observe hd =>
    simp only [step]
    split <;> exact h

theorem inv_init : Inv init := by
  refine ⟨⟨⟨⟨1, 0, none⟩, rfl, rfl⟩, List.suffix_refl _, rfl, fun w hw => by simp [init] at hw, fun r hr => by cases hr⟩, ?_⟩
  simp [Stable, init, FrontKept, leastKept, newestId]

theorem inv_run (s : State) (ops : List Op) (h : Inv s) : Inv (run s ops).1 := by
  induction ops generalizing s with
  | nil => exact h
  | cons op rest ih => simp only [run]; exact ih _ (inv_step s op h)

/-! ### what a reader holds does not change while it is open -/

theorem findReader_append (rs : List (Nat × Ver)) (hd : Nat) (v : Ver) (x : Nat × Ver)
    (h : findReader rs hd = some v) : findReader (rs ++ [x]) hd = some v := by
  unfold findReader at h ⊢
  rw [List.find?_append]
  cases hf : rs.find? (fun r => decide (r.1 = hd)) with
  | none => rw [hf] at h; simp at h
  | some r => rw [hf] at h; simpa using h

theorem findReader_remove (rs : List (Nat × Ver)) (hd hd' : Nat) (v : Ver) (hne : hd' ≠ hd)
    (h : findReader rs hd = some v) : findReader (removeReader rs hd') hd = some v := by
  induction rs with
  | nil => simp [findReader] at h
  | cons x xs ih =>
    unfold removeReader
    by_cases hx : x.1 = hd'
    · simp only [hx, if_true]
      have : ¬ x.1 = hd := by rw [hx]; exact hne
      simpa [findReader, List.find?, this] using h
    · simp only [hx, if_false]
      by_cases hxd : x.1 = hd
      · simpa [findReader, List.find?, hxd] using h
      · have h' : findReader xs hd = some v := by simpa [findReader, List.find?, hxd] using h
        have := ih h'
        simpa [findReader, List.find?, hxd] using this

/-! ### `reader(id=…)` and `reader(serial=…)` -/

theorem find_rev_some {vs : List Ver} {q : Ver → Bool} {v : Ver} (h : vs.reverse.find? q = some v) :
    q v = true ∧ ∃ pre post, vs = pre ++ v :: post ∧ ∀ w ∈ post, q w = false := by
  obtain ⟨hq, as, bs, he, hall⟩ := List.find?_eq_some_iff_append.mp h
  refine ⟨hq, bs.reverse, as.reverse, ?_, fun w hw => by simpa using hall w (List.mem_reverse.mp hw)⟩
  have := congrArg List.reverse he
  simpa using this

theorem find_rev_none {vs : List Ver} {q : Ver → Bool} (h : vs.reverse.find? q = none) : ∀ w ∈ vs, q w = false := by
  intro w hw
  have := List.find?_eq_none.mp h w (List.mem_reverse.mpr hw)
  simpa using this

def closes (hd : Nat) : Op → Bool
  | .close h => decide (h = hd)
  | _ => false

theorem reader_kept_step (s : State) (op : Op) (hd : Nat) (v : Ver) (hc : closes hd op = false)
    (h : findReader s.readers hd = some v) : findReader (step s op).1.readers hd = some v := by
  cases op with
  | openLatest h' => simp only [step]; split <;> first | exact findReader_append _ _ _ _ h | exact h
  | openId h' i => simp only [step]; split <;> first | exact findReader_append _ _ _ _ h | exact h
  | openSerial h' sn => simp only [step]; split <;> first | exact findReader_append _ _ _ _ h | exact h
  | openBoth h' i sn => exact h
  | close h' =>
    have hne : h' ≠ hd := by simpa [closes] using hc
    simp only [step]
    split
    · simp only [prune]; exact findReader_remove _ _ _ _ hne h
    · exact h
  | wopen => simp only [step]; split <;> exact h
  | commit c sn ch =>
    simp only [step]
    split
    · exact h
    · split
      · simp only [prune]; exact h
      · exact h
  | rollback => simp only [step]; split <;> exact h
  | setMax n =>
    cases n with
    | none => simp only [step, prune]; exact h
    | some m => simp only [step]; split <;> first | exact h | (simp only [prune]; exact h)
  | setPolicy p => cases p <;> (simp only [step, prune]; exact h)
  | setModp a b => simp only [step, prune]; exact h
  | setPred f => simp only [step, prune]; exact h
  | observe h' => simp only [step]; split <;> exact h

theorem reader_kept_run (s : State) (ops : List Op) (hd : Nat) (v : Ver) (hc : ∀ op ∈ ops, closes hd op = false)
    (h : findReader s.readers hd = some v) : findReader (run s ops).1.readers hd = some v := by
  induction ops generalizing s with
  | nil => exact h
  | cons op rest ih =>
    simp only [run]
    exact ih _ (fun o ho => hc o (List.mem_cons_of_mem _ ho)) (reader_kept_step s op hd v (hc op (by simp)) h)

end Model.Versioned

import Model.RdataDispatch
/-! `get_rdata_class` is history independent (C02): whatever lookups and `load_all_types` calls came before,
the class returned is the one the stateless rule `dispatchSpec` names. -/
namespace Model

theorem cacheGet_set (s : DState) (k k' : Nat × Nat) (v : Impl) :
    cacheGet (cacheSet s k v) k' = if k' = k then some v else cacheGet s k' := by
  unfold cacheGet cacheSet
  simp only [List.lookup_cons]
  by_cases h : k' = k
  · simp [h]
  · have : (k' == k) = false := by simpa using h
    simp [this, h]

structure DInv (files : List (Nat × Nat)) (s : DState) : Prop where
  val : ∀ c t v, cacheGet s (c, t) = some v → v = dispatchSpec files c t ∧ (v = .generic → c ≠ 255)
  full : s.dynamic = false → ∀ d t, hasModule files d t = true → (cacheGet s (d, t)).isSome = true
  any : ∀ c t, cacheGet s (c, t) = some (.module 255 t) → (cacheGet s (255, t)).isSome = true

def NoDouble (files : List (Nat × Nat)) : Prop :=
  ∀ d t, hasModule files d t = true → d ≠ 255 → hasModule files 255 t = false

theorem dinv_init (files : List (Nat × Nat)) : DInv files DState.init :=
  ⟨by intro c t v h; simp [cacheGet, DState.init] at h, by intro h; simp [DState.init] at h,
   by intro c t h; simp [cacheGet, DState.init] at h⟩

theorem spec_generic_iff (files : List (Nat × Nat)) (c t : Nat) :
    dispatchSpec files c t = .generic ↔ hasModule files c t = false ∧ hasModule files 255 t = false := by
  unfold dispatchSpec
  by_cases h1 : hasModule files c t = true
  · simp [h1]
  · by_cases h2 : hasModule files 255 t = true
    · simp [h1, h2]
    · simp [h1, h2]

/-- one lookup: the invariant is kept, the flag does not change, nothing is forgotten, and with `use_generic` the
answer is the stateless rule's -/
theorem getClass_spec (files : List (Nat × Nat)) (hnd : NoDouble files) (s : DState) (hi : DInv files s)
    (c t : Nat) (ug : Bool) :
    DInv files (getClass files s c t ug).2 ∧ (getClass files s c t ug).2.dynamic = s.dynamic ∧
    (∀ k, (cacheGet s k).isSome = true → (cacheGet (getClass files s c t ug).2 k).isSome = true) ∧
    (ug = true → (getClass files s c t ug).1 = some (dispatchSpec files c t)) ∧
    (s.dynamic = true → ∀ d, hasModule files d t = true → (d = c ∨ d = 255) →
      (cacheGet (getClass files s c t ug).2 (d, t)).isSome = true) := by
  unfold getClass
  cases h1 : cacheGet s (c, t) with
  | some k =>
    simp only
    refine ⟨hi, (by first | rfl | trivial | simp_all), fun _ h => h, fun _ => by rw [(hi.val c t k h1).1], ?_⟩
    intro _ d hd hdc
    rcases hdc with rfl | rfl
    · simp [h1]
    · by_cases hc : c = 255
      · subst hc; simp [h1]
      · -- c has no module of its own (else ANY would not), so k is the ANY module, present by `any`
        have hk := (hi.val c t k h1).1
        have hcm : hasModule files c t = false := by
          cases hcm : hasModule files c t with
          | false => rfl
          | true => have := hnd c t hcm hc; rw [hd] at this; exact absurd this (by simp)
        have : k = .module 255 t := by rw [hk]; simp [dispatchSpec, hcm, hd]
        rw [this] at h1
        exact hi.any c t h1
  | none =>
    simp only
    cases h2 : cacheGet s (255, t) with
    | some k =>
      simp only
      have hk := hi.val 255 t k h2
      have hm : hasModule files 255 t = true := by
        cases hm : hasModule files 255 t with
        | true => rfl
        | false =>
          have : k = .generic := by rw [hk.1]; simp [dispatchSpec, hm]
          exact absurd rfl (hk.2 this)
      have hkm : k = .module 255 t := by rw [hk.1]; simp [dispatchSpec, hm]
      have hcm : c ≠ 255 → hasModule files c t = false := by
        intro hc
        cases hcm : hasModule files c t with
        | false => rfl
        | true => have := hnd c t hcm hc; rw [hm] at this; exact absurd this (by simp)
      refine ⟨hi, (by first | rfl | trivial | simp_all), fun _ h => h, fun _ => ?_, ?_⟩
      · by_cases hc : c = 255
        · subst hc; rw [h1] at h2; simp at h2
        · rw [hkm]; simp [dispatchSpec, hcm hc, hm]
      · intro _ d hd hdc
        rcases hdc with rfl | rfl
        · by_cases hc : d = 255
          · subst hc; simp [h2]
          · rw [hcm hc] at hd; simp at hd
        · simp [h2]
    | none =>
      simp only
      by_cases hdyn : s.dynamic = true
      · simp only [hdyn, if_true]
        by_cases hc : hasModule files c t = true
        · -- the class's own module is imported
          simp only [hc, if_true]
          have hspec : dispatchSpec files c t = .module c t := by simp [dispatchSpec, hc]
          refine ⟨⟨?_, ?_, ?_⟩, (by first | rfl | trivial | simp_all [cacheSet]), ?_, fun _ => by rw [hspec], ?_⟩
          · intro c' t' v hv
            rw [cacheGet_set] at hv
            by_cases hk : (c', t') = (c, t)
            · simp only [hk, if_true, Option.some.injEq] at hv
              obtain ⟨rfl, rfl⟩ := Prod.mk.inj hk
              subst hv; exact ⟨hspec.symm, by simp⟩
            · simp only [hk, if_false] at hv; exact hi.val c' t' v hv
          · intro hd; simp [cacheSet, hdyn] at hd
          · intro c' t' hv
            rw [cacheGet_set] at hv ⊢
            by_cases hk : (c', t') = (c, t)
            · simp only [hk, if_true, Option.some.injEq] at hv
              obtain ⟨rfl, rfl⟩ := Prod.mk.inj hk
              -- module c t = module 255 t means c = 255
              have : c' = 255 := by injection hv
              subst this; simp
            · simp only [hk, if_false] at hv
              have := hi.any c' t' hv
              by_cases hk2 : (255, t') = (c, t)
              · simp [hk2]
              · simpa [hk2] using this
          · intro k hk
            rw [cacheGet_set]; split <;> simp [hk]
          · intro _ d hd hdc
            rw [cacheGet_set]
            rcases hdc with rfl | rfl
            · simp
            · by_cases hc255 : c = 255
              · subst hc255; simp
              · have := hnd c t hc hc255; rw [hd] at this; simp at this
        · simp only [hc, Bool.false_eq_true, if_false]
          have hc' : hasModule files c t = false := by simpa using hc
          by_cases ha : hasModule files 255 t = true
          · -- the ANY module is imported and recorded in both slots
            simp only [ha, if_true]
            have hspec : dispatchSpec files c t = .module 255 t := by simp [dispatchSpec, hc', ha]
            have hspecA : dispatchSpec files 255 t = .module 255 t := by simp [dispatchSpec, ha]
            have getk : ∀ k', cacheGet (cacheSet (cacheSet s (255, t) (.module 255 t)) (c, t) (.module 255 t)) k'
                = if k' = (c, t) then some (.module 255 t) else if k' = (255, t) then some (.module 255 t) else cacheGet s k' := by
              intro k'; rw [cacheGet_set, cacheGet_set]
            refine ⟨⟨?_, ?_, ?_⟩, (by first | rfl | trivial | simp_all [cacheSet]), ?_, fun _ => by rw [hspec], ?_⟩
            · intro c' t' v hv
              rw [getk] at hv
              by_cases hk : (c', t') = (c, t)
              · simp only [hk, if_true, Option.some.injEq] at hv
                obtain ⟨rfl, rfl⟩ := Prod.mk.inj hk
                subst hv; exact ⟨hspec.symm, by simp⟩
              · simp only [hk, if_false] at hv
                by_cases hk2 : (c', t') = (255, t)
                · simp only [hk2, if_true, Option.some.injEq] at hv
                  obtain ⟨rfl, rfl⟩ := Prod.mk.inj hk2
                  subst hv; exact ⟨hspecA.symm, by simp⟩
                · simp only [hk2, if_false] at hv; exact hi.val c' t' v hv
            · intro hd; simp [cacheSet, hdyn] at hd
            · intro c' t' hv
              rw [getk] at hv ⊢
              by_cases hk3 : (255, t') = (c, t)
              · simp [hk3]
              · by_cases hk4 : (255, t') = (255, t)
                · simp [hk4]
                · simp only [hk3, hk4, if_false]
                  have ht : t' ≠ t := by intro e; exact hk4 (by rw [e])
                  have h5 : (c', t') ≠ (c, t) := by intro e; exact ht (Prod.mk.inj e).2
                  have h6 : (c', t') ≠ (255, t) := by intro e; exact ht (Prod.mk.inj e).2
                  simp only [h5, h6, if_false] at hv
                  exact hi.any c' t' hv
            · intro k hk
              rw [getk]; split
              · simp
              · split <;> simp [hk]
            · intro _ d hd hdc
              rw [getk]
              rcases hdc with rfl | rfl
              · simp
              · split <;> simp
          · -- nothing to import
            simp only [ha, Bool.false_eq_true, if_false]
            have ha' : hasModule files 255 t = false := by simpa using ha
            have hspec : dispatchSpec files c t = .generic := (spec_generic_iff files c t).2 ⟨hc', ha'⟩
            cases ug with
            | false =>
              simp only [Bool.false_eq_true, if_false]
              refine ⟨hi, (by first | rfl | trivial | simp_all), fun _ h => h, fun h => by simp at h, ?_⟩
              intro _ d hd hdc
              rcases hdc with rfl | rfl
              · rw [hc'] at hd; simp at hd
              · rw [ha'] at hd; simp at hd
            | true =>
              simp only [if_true]
              by_cases hc255 : c = 255
              · simp only [hc255, if_true]
                refine ⟨hi, (by first | rfl | trivial | simp_all), fun _ h => h, fun _ => by rw [← hc255, hspec], ?_⟩
                intro _ d hd hdc
                rcases hdc with rfl | rfl
                · rw [ha'] at hd; simp at hd
                · rw [ha'] at hd; simp at hd
              · simp only [hc255, if_false]
                refine ⟨⟨?_, ?_, ?_⟩, (by first | rfl | trivial | simp_all [cacheSet]), ?_, fun _ => by rw [hspec], ?_⟩
                · intro c' t' v hv
                  rw [cacheGet_set] at hv
                  by_cases hk : (c', t') = (c, t)
                  · simp only [hk, if_true, Option.some.injEq] at hv
                    obtain ⟨rfl, rfl⟩ := Prod.mk.inj hk
                    subst hv; exact ⟨hspec.symm, fun _ => hc255⟩
                  · simp only [hk, if_false] at hv; exact hi.val c' t' v hv
                · intro hd; simp [cacheSet, hdyn] at hd
                · intro c' t' hv
                  rw [cacheGet_set] at hv ⊢
                  by_cases hk : (c', t') = (c, t)
                  · simp [hk] at hv
                  · simp only [hk, if_false] at hv
                    have := hi.any c' t' hv
                    split <;> simp [this]
                · intro k hk
                  rw [cacheGet_set]; split <;> simp [hk]
                · intro _ d hd hdc
                  rcases hdc with rfl | rfl
                  · rw [hc'] at hd; simp at hd
                  · rw [ha'] at hd; simp at hd
      · -- dynamic loading disabled: every module is already in the dictionary, so there is none for this pair
        have hdyn' : s.dynamic = false := by simpa using hdyn
        simp only [hdyn', Bool.false_eq_true, if_false]
        have hc' : hasModule files c t = false := by
          cases hcm : hasModule files c t with
          | false => rfl
          | true => have := hi.full hdyn' c t hcm; rw [h1] at this; simp at this
        have ha' : hasModule files 255 t = false := by
          cases hcm : hasModule files 255 t with
          | false => rfl
          | true => have := hi.full hdyn' 255 t hcm; rw [h2] at this; simp at this
        have hspec : dispatchSpec files c t = .generic := (spec_generic_iff files c t).2 ⟨hc', ha'⟩
        cases ug with
        | false =>
          simp only [Bool.false_eq_true, if_false]
          exact ⟨hi, (by first | rfl | trivial | simp_all), fun _ h => h, fun h => by simp at h, fun h => by simp_all⟩
        | true =>
          simp only [if_true]
          by_cases hc255 : c = 255
          · simp only [hc255, if_true]
            exact ⟨hi, (by first | rfl | trivial | simp_all), fun _ h => h, fun _ => by rw [← hc255, hspec], fun h => by simp_all⟩
          · simp only [hc255, if_false]
            refine ⟨⟨?_, ?_, ?_⟩, (by first | rfl | trivial | simp_all [cacheSet]), ?_, fun _ => by rw [hspec], fun h => by simp_all⟩
            · intro c' t' v hv
              rw [cacheGet_set] at hv
              by_cases hk : (c', t') = (c, t)
              · simp only [hk, if_true, Option.some.injEq] at hv
                obtain ⟨rfl, rfl⟩ := Prod.mk.inj hk
                subst hv; exact ⟨hspec.symm, fun _ => hc255⟩
              · simp only [hk, if_false] at hv; exact hi.val c' t' v hv
            · intro _ d t' hm
              rw [cacheGet_set]; split
              · simp
              · exact hi.full hdyn' d t' hm
            · intro c' t' hv
              rw [cacheGet_set] at hv ⊢
              by_cases hk : (c', t') = (c, t)
              · simp [hk] at hv
              · simp only [hk, if_false] at hv
                have := hi.any c' t' hv
                split <;> simp [this]
            · intro k hk
              rw [cacheGet_set]; split <;> simp [hk]

def Present (s : DState) (k : Nat × Nat) : Prop := (cacheGet s k).isSome = true

theorem fold_gets (files : List (Nat × Nat)) (hnd : NoDouble files) : ∀ (enums : List Nat) (s : DState), DInv files s →
    DInv files (enums.foldl (fun s t => (getClass files s 1 t false).2) s) ∧
    (enums.foldl (fun s t => (getClass files s 1 t false).2) s).dynamic = s.dynamic ∧
    (∀ k, Present s k → Present (enums.foldl (fun s t => (getClass files s 1 t false).2) s) k) ∧
    (s.dynamic = true → ∀ t ∈ enums, ∀ d, hasModule files d t = true → (d = 1 ∨ d = 255) →
      Present (enums.foldl (fun s t => (getClass files s 1 t false).2) s) (d, t)) := by
  intro enums
  induction enums with
  | nil => intro s hi; exact ⟨hi, rfl, fun _ h => h, fun _ t ht => by simp at ht⟩
  | cons e es ih =>
    intro s hi
    obtain ⟨h1, h2, h3, _, h5⟩ := getClass_spec files hnd s hi 1 e false
    obtain ⟨i1, i2, i3, i4⟩ := ih _ h1
    simp only [List.foldl_cons]
    refine ⟨i1, by rw [i2, h2], fun k hk => i3 k (h3 k hk), ?_⟩
    intro hdyn t ht d hd hdc
    rcases List.mem_cons.1 ht with rfl | ht'
    · exact i3 _ (h5 hdyn d hd hdc)
    · exact i4 (by rw [h2]; exact hdyn) t ht' d hd hdc

theorem filesOk_spec {files : List (Nat × Nat)} {enums : List Nat} (h : filesOk files enums = true) :
    NoDouble files ∧ ∀ d t, hasModule files d t = true → t ∈ enums ∧ (d = 255 ∨ d = 1 ∨ (d = 3 ∧ t = 1)) := by
  unfold filesOk at h
  rw [List.all_eq_true] at h
  constructor
  · intro d t hm hd
    have hmem : (d, t) ∈ files := by simpa [hasModule] using hm
    have := h (d, t) hmem
    simp only [Bool.and_eq_true, Bool.or_eq_true, beq_iff_eq, Bool.not_eq_true'] at this
    rcases this.1.1 with h1 | h1
    · exact absurd h1 hd
    · simpa [hasModule] using h1
  · intro d t hm
    have hmem : (d, t) ∈ files := by simpa [hasModule] using hm
    have := h (d, t) hmem
    simp only [Bool.and_eq_true, Bool.or_eq_true, beq_iff_eq, Bool.not_eq_true'] at this
    refine ⟨by simpa using this.1.2, ?_⟩
    rcases this.2 with (h1 | h1) | h1
    · exact Or.inl h1
    · exact Or.inr (Or.inl h1)
    · exact Or.inr (Or.inr h1)

theorem loadAll_inv (files : List (Nat × Nat)) (enums : List Nat) (hok : filesOk files enums = true)
    (s : DState) (hi : DInv files s) (disable : Bool) : DInv files (loadAll files enums s disable) := by
  obtain ⟨hnd, hall⟩ := filesOk_spec hok
  unfold loadAll
  obtain ⟨i1, i2, i3, i4⟩ := fold_gets files hnd enums s hi
  obtain ⟨j1, j2, j3, _, j5⟩ := getClass_spec files hnd _ i1 3 1 false
  refine ⟨j1.val, ?_, j1.any⟩
  intro hd d t hm
  simp only [Bool.and_eq_false_iff] at hd
  by_cases hs : s.dynamic = true
  · -- every module was reached by the preload
    obtain ⟨hte, hdd⟩ := hall d t hm
    rcases hdd with rfl | rfl | ⟨rfl, rfl⟩
    · exact j3 _ (i4 hs t hte 255 hm (Or.inr rfl))
    · exact j3 _ (i4 hs t hte 1 hm (Or.inl rfl))
    · exact j5 (by rw [i2]; exact hs) 3 hm (Or.inl rfl)
  · have hs' : s.dynamic = false := by simpa using hs
    exact j1.full (by rw [j2, i2]; exact hs') d t hm

/-- **history independence of dispatch**: after any sequence of lookups (any class, any type, with or without
`use_generic`) and `load_all_types` calls (either flag), `get_rdata_class(c, t)` returns what the stateless rule names -/
theorem dispatch_history (files : List (Nat × Nat)) (enums : List Nat) (hok : filesOk files enums = true)
    (ops : List DOp) (c t : Nat) :
    (getClass files (ops.foldl (stepD files enums) DState.init) c t true).1 = some (dispatchSpec files c t) := by
  obtain ⟨hnd, _⟩ := filesOk_spec hok
  have hinv : ∀ (ops : List DOp) (s : DState), DInv files s → DInv files (ops.foldl (stepD files enums) s) := by
    intro ops
    induction ops with
    | nil => intro s h; exact h
    | cons o os ih =>
      intro s h
      simp only [List.foldl_cons]
      apply ih
      cases o with
      | get c t ug => exact (getClass_spec files hnd s h c t ug).1
      | loadAll d => exact loadAll_inv files enums hok s h d
  exact (getClass_spec files hnd _ (hinv ops _ (dinv_init files)) c t true).2.2.2.1 rfl

end Model

import Proofs.BTreeCowSplit
/-!
Mechanism-level proofs, part 4: rewriting an owned parent together with two adjacent children (the shape of
`try_left_steal`, `try_right_steal` and `merge`): the grandchildren are redistributed between the two children
(or all given to the first one, the second one being dropped), nothing below them is touched.
-/
namespace Model.BTreeCow
open Model.BTree

/-- the persistent node of a cell of height `h` whose children are read in heap `H` -/
def cabs (H : Heap) (h : Nat) (X : Cell) : Node :=
  match h with
  | 0 => .leaf X.elts
  | h' + 1 => .node X.elts (X.kids.map (absN H h'))

theorem absN_eq_cabs (H : Heap) (h a : Nat) : absN H h a = cabs H h (rd H a) := by
  cases h <;> rfl

theorem upd_pair {c : Nat} {H H' : Heap} {h p a b : Nat} {kl kr : List Nat} (keepB : Bool) {P' A' B' : Cell}
    (g : Good c H (h + 1) p) (hk : (rd H p).kids = kl ++ a :: b :: kr) (ga : Good c H h a)
    (hbown : keepB = true → (rd H b).creator = c)
    (hsz : H'.size = H.size)
    (so : SameOff ([p, a] ++ if keepB then [b] else []) H H')
    (hrdp : rd H' p = P') (hrda : rd H' a = A') (hrdb : keepB = true → rd H' b = B')
    (hP1 : P'.creator = c) (hP2 : P'.leaf = false)
    (hP3 : P'.kids = kl ++ a :: (if keepB then [b] else []) ++ kr)
    (hP4 : P'.kids.length = P'.elts.length + 1)
    (hA1 : A'.creator = c) (hA2 : A'.leaf = (rd H a).leaf)
    (hB1 : keepB = true → B'.creator = c ∧ B'.leaf = (rd H b).leaf)
    (hcat : h ≠ 0 → A'.kids ++ (if keepB then B'.kids else []) = (rd H a).kids ++ (rd H b).kids)
    (hlenA : h ≠ 0 → A'.kids.length = A'.elts.length + 1)
    (hlenB : h ≠ 0 → keepB = true → B'.kids.length = B'.elts.length + 1) :
    Upd c H H' (h + 1) p
      (.node P'.elts (kl.map (absN H h) ++ cabs H h A' :: (if keepB then [cabs H h B'] else []) ++ kr.map (absN H h))) := by
  have hamem : a ∈ (rd H p).kids := by rw [hk]; simp
  have hbmem : b ∈ (rd H p).kids := by rw [hk]; simp
  have hplt := HT_lt g.ht
  have hta := HT_kid g.ht hamem
  have htb := HT_kid g.ht hbmem
  have hpa : p ∉ reach H h a := self_notin_kid g.nodup hamem
  have hpb : p ∉ reach H h b := self_notin_kid g.nodup hbmem
  -- disjointness facts from the parent's reach list
  have hreach0 : reach H (h + 1) p =
      p :: (kl.flatMap (reach H h) ++ (reach H h a ++ (reach H h b ++ kr.flatMap (reach H h)))) := by
    simp [reach_succ, hk]
  have nd0 := g.nodup
  rw [hreach0] at nd0
  simp only [List.nodup_cons, List.nodup_append, List.mem_append, not_or] at nd0
  obtain ⟨⟨hp1, hp2, hp3, hp4⟩, n1, ⟨na, ⟨nb, nr, nbr⟩, nab⟩, nl⟩ := nd0
  have hab : ∀ x ∈ reach H h a, x ∉ reach H h b := fun x hx hxb => nab x hx x (Or.inl hxb) rfl
  have hane : a ≠ b := fun e => hab a (self_mem_reach H h a) (e ▸ self_mem_reach H h b)
  have hpnea : p ≠ a := fun e => hpa (e ▸ self_mem_reach H h a)
  have hpneb : p ≠ b := fun e => hpb (e ▸ self_mem_reach H h b)
  have hW : ∀ x, x ∈ ([p, a] ++ if keepB then [b] else []) → x = p ∨ x = a ∨ x = b := by
    intro x hx
    cases keepB <;> simp at hx <;> omega
  -- untouched siblings
  have hfr : ∀ j ∈ kl ++ kr, absN H' h j = absN H h j ∧ reach H' h j = reach H h j ∧ HT H' h j := by
    intro j hj'
    have hjm : j ∈ (rd H p).kids := by
      rw [hk]; rcases List.mem_append.mp hj' with hj' | hj' <;> simp [hj']
    apply frame_off so (HT_kid g.ht hjm)
    intro x hx hxw
    rcases hW x hxw with rfl | rfl | rfl
    · exact self_notin_kid g.nodup hjm hx
    · rcases List.mem_append.mp hj' with hj' | hj'
      · exact nl x (List.mem_flatMap.mpr ⟨j, hj', hx⟩) x (Or.inl (self_mem_reach H h x)) rfl
      · exact nab x (self_mem_reach H h x) x (Or.inr (List.mem_flatMap.mpr ⟨j, hj', hx⟩)) rfl
    · rcases List.mem_append.mp hj' with hj' | hj'
      · exact nl x (List.mem_flatMap.mpr ⟨j, hj', hx⟩) x (Or.inr (Or.inl (self_mem_reach H h x))) rfl
      · exact nbr x (self_mem_reach H h x) x (List.mem_flatMap.mpr ⟨j, hj', hx⟩) rfl
  have hmapl : kl.flatMap (reach H' h) = kl.flatMap (reach H h) := by
    rw [List.flatMap_def, List.flatMap_def]; congr 1
    exact List.map_congr_left (fun j hj' => (hfr j (by simp [hj'])).2.1)
  have hmapr : kr.flatMap (reach H' h) = kr.flatMap (reach H h) := by
    rw [List.flatMap_def, List.flatMap_def]; congr 1
    exact List.map_congr_left (fun j hj' => (hfr j (by simp [hj'])).2.1)
  -- the two rewritten children
  have hmid : absN H' h a = cabs H h A' ∧ HT H' h a ∧ (keepB = true → absN H' h b = cabs H h B' ∧ HT H' h b) ∧
      (∀ x, List.count x (reach H' h a ++ if keepB then reach H' h b else []) ≤
        List.count x (reach H h a ++ reach H h b)) := by
    cases h with
    | zero =>
      refine ⟨by simp [absN, cabs, hrda], ⟨by have := HT_lt hta; omega, by rw [hrda, hA2]; exact hta.2⟩, ?_, ?_⟩
      · intro hkb
        exact ⟨by simp [absN, cabs, hrdb hkb], ⟨by have := HT_lt htb; omega, by rw [hrdb hkb, (hB1 hkb).2]; exact htb.2⟩⟩
      · intro x
        cases keepB <;> simp only [reach, List.cons_append, List.nil_append, List.count_cons, List.count_nil,
          Bool.false_eq_true, if_false, if_true] <;> omega
    | succ h =>
      have hcat' := hcat (by omega)
      have hgk : ∀ g' ∈ (rd H a).kids ++ (rd H b).kids,
          absN H' h g' = absN H h g' ∧ reach H' h g' = reach H h g' ∧ HT H' h g' := by
        intro g' hg'
        have hsubab : ∀ x ∈ reach H h g', x ∈ reach H (h + 1) a ∨ x ∈ reach H (h + 1) b := by
          intro x hx
          rcases List.mem_append.mp hg' with hg' | hg'
          · exact Or.inl (reach_kid_sub hg' x hx)
          · exact Or.inr (reach_kid_sub hg' x hx)
        have htg : HT H h g' := by
          rcases List.mem_append.mp hg' with hg' | hg'
          · exact HT_kid hta hg'
          · exact HT_kid htb hg'
        apply frame_off so htg
        intro x hx hxw
        rcases hW x hxw with rfl | rfl | rfl
        · rcases hsubab x hx with h' | h'
          · exact hpa h'
          · exact hpb h'
        · rcases List.mem_append.mp hg' with hg' | hg'
          · exact self_notin_kid ga.nodup hg' hx
          · exact hab x (self_mem_reach H (h + 1) x) (reach_kid_sub hg' x hx)
        · rcases List.mem_append.mp hg' with hg' | hg'
          · exact hab x (reach_kid_sub hg' x hx) (self_mem_reach H (h + 1) x)
          · exact self_notin_kid nb hg' hx
      have hsubA : ∀ g' ∈ A'.kids, g' ∈ (rd H a).kids ++ (rd H b).kids := by
        intro g' hg'; rw [← hcat']; simp [hg']
      have hmapA : A'.kids.map (absN H' h) = A'.kids.map (absN H h) :=
        List.map_congr_left (fun g' hg' => (hgk g' (hsubA g' hg')).1)
      have hrA : A'.kids.flatMap (reach H' h) = A'.kids.flatMap (reach H h) := by
        rw [List.flatMap_def, List.flatMap_def]; congr 1
        exact List.map_congr_left (fun g' hg' => (hgk g' (hsubA g' hg')).2.1)
      refine ⟨by simp [absN_succ, cabs, hrda, hmapA], ?_, ?_, ?_⟩
      · refine ⟨by have := HT_lt hta; omega, by rw [hrda, hA2]; exact hta.2.1, by rw [hrda]; exact hlenA (by omega), ?_⟩
        rw [hrda]; intro g' hg'; exact (hgk g' (hsubA g' hg')).2.2
      · intro hkb
        have hsubB : ∀ g' ∈ B'.kids, g' ∈ (rd H a).kids ++ (rd H b).kids := by
          intro g' hg'; rw [← hcat']; simp [hkb, hg']
        have hmapB : B'.kids.map (absN H' h) = B'.kids.map (absN H h) :=
          List.map_congr_left (fun g' hg' => (hgk g' (hsubB g' hg')).1)
        refine ⟨by simp [absN_succ, cabs, hrdb hkb, hmapB], ?_⟩
        refine ⟨by have := HT_lt htb; omega, by rw [hrdb hkb, (hB1 hkb).2]; exact htb.2.1,
          by rw [hrdb hkb]; exact hlenB (by omega) hkb, ?_⟩
        rw [hrdb hkb]; intro g' hg'; exact (hgk g' (hsubB g' hg')).2.2
      · intro x
        have hold : (rd H a).kids.flatMap (reach H h) ++ (rd H b).kids.flatMap (reach H h) =
            ((rd H a).kids ++ (rd H b).kids).flatMap (reach H h) := by simp
        cases keepB with
        | false =>
          simp only [Bool.false_eq_true, if_false, List.append_nil] at hcat' ⊢
          simp only [reach_succ, hrda, hrA, List.count_append, List.count_cons]
          have : List.count x (A'.kids.flatMap (reach H h)) =
              List.count x ((rd H a).kids.flatMap (reach H h)) + List.count x ((rd H b).kids.flatMap (reach H h)) := by
            rw [hcat']; simp
          omega
        | true =>
          have hsubB : ∀ g' ∈ B'.kids, g' ∈ (rd H a).kids ++ (rd H b).kids := by
            intro g' hg'; rw [← hcat']; simp [hg']
          have hrB : B'.kids.flatMap (reach H' h) = B'.kids.flatMap (reach H h) := by
            rw [List.flatMap_def, List.flatMap_def]; congr 1
            exact List.map_congr_left (fun g' hg' => (hgk g' (hsubB g' hg')).2.1)
          simp only [if_true] at hcat' ⊢
          simp only [reach_succ, hrda, hrdb rfl, hrA, hrB, List.count_append, List.count_cons]
          have : List.count x (A'.kids.flatMap (reach H h)) + List.count x (B'.kids.flatMap (reach H h)) =
              List.count x ((rd H a).kids.flatMap (reach H h)) + List.count x ((rd H b).kids.flatMap (reach H h)) := by
            rw [← List.count_append, ← List.flatMap_append, hcat']; simp
          omega
  obtain ⟨hm1, hm2, hm3, hm4⟩ := hmid
  -- the parent
  have hreach' : reach H' (h + 1) p =
      p :: (kl.flatMap (reach H h) ++ ((reach H' h a ++ if keepB then reach H' h b else []) ++ kr.flatMap (reach H h))) := by
    cases keepB <;> simp [reach_succ, hrdp, hP3, hmapl, hmapr]
  have hns := nodup_sub_of_count (new := reach H' (h + 1) p) (old := reach H (h + 1) p) (fresh := [])
    (by
      intro x
      rw [hreach', hreach0]
      have := hm4 x
      simp only [List.count_append, List.count_cons, List.count_nil] at this ⊢
      omega)
    g.nodup (by simp) (by simp)
  refine ⟨by omega, ?_, ?_, ?_, ?_, hns.1, ?_, ?_⟩
  · intro x hx hcond
    apply so.same x hx
    intro hxw
    have hbr : b ∈ reach H (h + 1) p := reach_kid_sub hbmem b (self_mem_reach H h b)
    have har : a ∈ reach H (h + 1) p := reach_kid_sub hamem a (self_mem_reach H h a)
    cases hkb : keepB with
    | false =>
      rw [hkb] at hxw
      simp at hxw
      rcases hxw with rfl | rfl
      · rcases hcond with hc | hc
        · exact hc (self_mem_reach H (h + 1) x)
        · exact hc g.own
      · rcases hcond with hc | hc
        · exact hc har
        · exact hc ga.own
    | true =>
      rw [hkb] at hxw
      simp at hxw
      rcases hxw with rfl | rfl | rfl
      · rcases hcond with hc | hc
        · exact hc (self_mem_reach H (h + 1) x)
        · exact hc g.own
      · rcases hcond with hc | hc
        · exact hc har
        · exact hc ga.own
      · rcases hcond with hc | hc
        · exact hc hbr
        · exact hc (hbown hkb)
  · intro x hx
    by_cases hxp : x = p
    · subst hxp; rw [hrdp, hP1, g.own]
    · by_cases hxa : x = a
      · subst hxa; rw [hrda, hA1, ga.own]
      · by_cases hxb : x = b
        · subst hxb
          cases hkb : keepB with
          | true => rw [hrdb hkb, (hB1 hkb).1, hbown hkb]
          | false => rw [so.same x hx (by rw [hkb]; simp [hxp, hxa])]
        · rw [so.same x hx (by
            intro hxw
            rcases hW x hxw with h' | h' | h'
            · exact hxp h'
            · exact hxa h'
            · exact hxb h')]
  · intro x h1 h2; omega
  · refine ⟨by omega, by rw [hrdp]; exact hP2, by rw [hrdp]; exact hP4, ?_⟩
    rw [hrdp, hP3]
    intro j hj'
    rcases List.mem_append.mp hj' with hj' | hj'
    · rcases List.mem_append.mp hj' with hj' | hj'
      · exact (hfr j (List.mem_append.mpr (Or.inl hj'))).2.2
      · rcases List.mem_cons.mp hj' with hja | hj'
        · rw [hja]; exact hm2
        · cases hkb : keepB with
          | false => rw [hkb] at hj'; simp at hj'
          | true => rw [hkb] at hj'; simp at hj'; rw [hj']; exact (hm3 hkb).2
    · exact (hfr j (List.mem_append.mpr (Or.inr hj'))).2.2
  · intro x hx
    rcases hns.2 x hx with h' | h'
    · exact Or.inl h'
    · simp at h'
  · have el : kl.map (absN H' h) = kl.map (absN H h) :=
      List.map_congr_left (fun j hj' => (hfr j (List.mem_append.mpr (Or.inl hj'))).1)
    have er : kr.map (absN H' h) = kr.map (absN H h) :=
      List.map_congr_left (fun j hj' => (hfr j (List.mem_append.mpr (Or.inr hj'))).1)
    cases keepB with
    | false => simp [absN_succ, hrdp, hP3, hm1, el, er]
    | true => simp [absN_succ, hrdp, hP3, hm1, (hm3 rfl).1, el, er]

end Model.BTreeCow

import Model.BTree
/-!
Basic lemmas for the B-tree model: Python list operations on decomposed lists, the in-order
interleaving `inter`, sorted association lists (`lookup`, `insSorted`, `delKey`) and their behaviour on
`A ++ M ++ B` when the key falls in the window `M`.
-/
namespace Model.BTree

/-! ## list operations at a known split point -/

@[simp] theorem insAt_append {α} (l r : List α) (x : α) : insAt (l ++ r) l.length x = l ++ x :: r := by
  simp [insAt]

@[simp] theorem popAt_append_cons {α} (l r : List α) (x : α) : popAt (l ++ x :: r) l.length = l ++ r := by
  simp [popAt]

@[simp] theorem setAt_append_cons {α} (l r : List α) (x y : α) :
    setAt (l ++ x :: r) l.length y = l ++ y :: r := by
  simp [setAt]

theorem setAt_append_cons_succ {α} (l r : List α) (x y z : α) :
    setAt (l ++ x :: y :: r) (l.length + 1) z = l ++ x :: z :: r := by
  have := setAt_append_cons (l ++ [x]) r y z
  simpa using this

theorem popAt_append_cons_succ {α} (l r : List α) (x y : α) :
    popAt (l ++ x :: y :: r) (l.length + 1) = l ++ x :: r := by
  have := popAt_append_cons (l ++ [x]) r y
  simpa using this

theorem insAt_append_cons_succ {α} (l r : List α) (x y : α) :
    insAt (l ++ x :: r) (l.length + 1) y = l ++ x :: y :: r := by
  have := insAt_append (l ++ [x]) r y
  simpa using this

@[simp] theorem eltAt_append_cons (l r : List Elt) (x : Elt) : eltAt (l ++ x :: r) l.length = x := by
  simp [eltAt, List.getD]

@[simp] theorem kidAt_append_cons (l r : List Node) (x : Node) : kidAt (l ++ x :: r) l.length = x := by
  simp [kidAt, List.getD]

theorem kidAt_append_cons_succ (l r : List Node) (x y : Node) :
    kidAt (l ++ x :: y :: r) (l.length + 1) = y := by
  have := kidAt_append_cons (l ++ [x]) r y
  simpa using this

theorem eltAt_append_cons_succ (l r : List Elt) (x y : Elt) :
    eltAt (l ++ x :: y :: r) (l.length + 1) = y := by
  have := eltAt_append_cons (l ++ [x]) r y
  simpa using this

@[simp] theorem eltAt_zero_cons (x : Elt) (r : List Elt) : eltAt (x :: r) 0 = x := by
  simp [eltAt]

@[simp] theorem kidAt_zero_cons (x : Node) (r : List Node) : kidAt (x :: r) 0 = x := by
  simp [kidAt]

/-- every list splits at any index within its length -/
theorem split_at {α} (l : List α) (i : Nat) (h : i ≤ l.length) :
    ∃ a b, l = a ++ b ∧ a.length = i :=
  ⟨l.take i, l.drop i, (List.take_append_drop i l).symm, by simp [List.length_take]; omega⟩

theorem split_at_lt {α} (l : List α) (i : Nat) (h : i < l.length) :
    ∃ a x b, l = a ++ x :: b ∧ a.length = i := by
  obtain ⟨a, b, rfl, ha⟩ := split_at l i (Nat.le_of_lt h)
  cases b with
  | nil => simp at h; omega
  | cons x b => exact ⟨a, x, b, rfl, ha⟩

/-! ## `inter` -/

@[simp] theorem inter_nil_nil : inter [] [] = [] := rfl

theorem inter_append (cl : List (List Elt)) (el : List Elt) (cs : List (List Elt)) (es : List Elt)
    (h : cl.length = el.length) : inter (cl ++ cs) (el ++ es) = inter cl el ++ inter cs es := by
  induction cl generalizing el with
  | nil =>
    cases el with
    | nil => simp
    | cons e el => simp at h
  | cons c cl ih =>
    cases el with
    | nil => simp at h
    | cons e el =>
      simp only [List.length_cons, Nat.add_right_cancel_iff] at h
      simp [inter, ih el h]

/-- what follows the first child: elt, child, elt, child, … -/
def tailI (cr : List (List Elt)) (er : List Elt) : List Elt := inter ([] :: cr) er

theorem inter_cons (c : List Elt) (cr : List (List Elt)) (er : List Elt) :
    inter (c :: cr) er = c ++ tailI cr er := by
  cases er <;> simp [inter, tailI]

@[simp] theorem tailI_nil_nil : tailI [] [] = [] := rfl

theorem tailI_cons (c : List Elt) (cr : List (List Elt)) (e : Elt) (er : List Elt) :
    tailI (c :: cr) (e :: er) = e :: (c ++ tailI cr er) := by
  show inter ([] :: c :: cr) (e :: er) = _
  simp only [inter, List.nil_append]
  rw [inter_cons]

/-- with as many children as elements `inter` ends with the last element -/
theorem inter_eq_getLast (cl : List (List Elt)) (el : List Elt) (h : cl.length = el.length) (hne : el ≠ []) :
    ∃ A, inter cl el = A ++ [el.getLast hne] := by
  induction cl generalizing el with
  | nil =>
    cases el with
    | nil => exact absurd rfl hne
    | cons e el => simp at h
  | cons c cl ih =>
    cases el with
    | nil => simp at hne
    | cons e el =>
      simp only [List.length_cons, Nat.add_right_cancel_iff] at h
      cases el with
      | nil =>
        have : cl = [] := by cases cl <;> simp_all
        subst this
        exact ⟨c, by simp [inter]⟩
      | cons e' el' =>
        obtain ⟨A, hA⟩ := ih (e' :: el') h (by simp)
        exact ⟨c ++ e :: A, by simp [inter, hA]⟩

/-- membership in `inter`: from a child or an element (when the lengths fit) -/
theorem mem_inter {x : Elt} (cl : List (List Elt)) (el : List Elt) (hx : x ∈ inter cl el) :
    x ∈ el ∨ ∃ c ∈ cl, x ∈ c := by
  induction cl generalizing el with
  | nil => simp [inter] at hx; exact Or.inl hx
  | cons c cl ih =>
    cases el with
    | nil =>
      simp only [inter, List.mem_append] at hx
      rcases hx with hx | hx
      · exact Or.inr ⟨c, by simp, hx⟩
      · rcases ih [] hx with h | ⟨c', hc', h⟩
        · exact Or.inl h
        · exact Or.inr ⟨c', by simp [hc'], h⟩
    | cons e el =>
      simp only [inter, List.mem_append, List.mem_cons] at hx
      rcases hx with hx | hx | hx
      · exact Or.inr ⟨c, by simp, hx⟩
      · exact Or.inl (by simp [hx])
      · rcases ih el hx with h | ⟨c', hc', h⟩
        · exact Or.inl (by simp [h])
        · exact Or.inr ⟨c', by simp [hc'], h⟩

/-! ## sorted association lists -/

/-- strictly increasing keys -/
abbrev Sorted (l : List Elt) : Prop := l.Pairwise (fun a b => a.1 < b.1)

/-- the element with this key -/
def lookup : List Elt → Nat → Option Elt
  | [], _ => none
  | e :: es, k => if e.1 = k then some e else lookup es k

/-- insertion into a sorted association list, replacing an element with the same key -/
def insSorted (e : Elt) : List Elt → List Elt
  | [] => [e]
  | x :: xs => if e.1 < x.1 then e :: x :: xs else if e.1 = x.1 then e :: xs else x :: insSorted e xs

/-- removal of a key -/
def delKey (k : Nat) (l : List Elt) : List Elt := l.filter (fun x => x.1 ≠ k)

theorem lookup_append_left {A : List Elt} {k : Nat} (h : ∀ x ∈ A, x.1 ≠ k) (M : List Elt) :
    lookup (A ++ M) k = lookup M k := by
  induction A with
  | nil => rfl
  | cons a A ih =>
    have := h a (by simp)
    simp [lookup, this, ih (fun x hx => h x (by simp [hx]))]

theorem lookup_eq_none {B : List Elt} {k : Nat} (h : ∀ x ∈ B, x.1 ≠ k) : lookup B k = none := by
  induction B with
  | nil => rfl
  | cons a B ih =>
    have := h a (by simp)
    simp [lookup, this, ih (fun x hx => h x (by simp [hx]))]

theorem lookup_append_right {B : List Elt} {k : Nat} (h : ∀ x ∈ B, x.1 ≠ k) (M : List Elt) :
    lookup (M ++ B) k = lookup M k := by
  induction M with
  | nil => simpa [lookup] using lookup_eq_none h
  | cons a M ih => simp [lookup, ih]

/-- lookup only sees the window -/
theorem lookup_window {A B : List Elt} {k : Nat} (hA : ∀ x ∈ A, x.1 < k) (hB : ∀ x ∈ B, k < x.1) (M : List Elt) :
    lookup (A ++ M ++ B) k = lookup M k := by
  rw [List.append_assoc, lookup_append_left (fun x hx => Nat.ne_of_lt (hA x hx))]
  exact lookup_append_right (fun x hx => Nat.ne_of_gt (hB x hx)) M

theorem insSorted_append_left {A : List Elt} {e : Elt} (h : ∀ x ∈ A, x.1 < e.1) (M : List Elt) :
    insSorted e (A ++ M) = A ++ insSorted e M := by
  induction A with
  | nil => rfl
  | cons a A ih =>
    have h1 := h a (by simp)
    have h2 : ¬ e.1 < a.1 := by omega
    have h3 : ¬ e.1 = a.1 := by omega
    simp [insSorted, h2, h3, ih (fun x hx => h x (by simp [hx]))]

theorem insSorted_append_right {B : List Elt} {e : Elt} (h : ∀ x ∈ B, e.1 < x.1) (M : List Elt) :
    insSorted e (M ++ B) = insSorted e M ++ B := by
  induction M with
  | nil =>
    cases B with
    | nil => rfl
    | cons b B => simp [insSorted, h b (by simp)]
  | cons a M ih =>
    simp only [List.cons_append, insSorted]
    split
    · rfl
    · split
      · rfl
      · simp [ih]

theorem insSorted_window {A B : List Elt} {e : Elt} (hA : ∀ x ∈ A, x.1 < e.1) (hB : ∀ x ∈ B, e.1 < x.1)
    (M : List Elt) : insSorted e (A ++ M ++ B) = A ++ insSorted e M ++ B := by
  rw [List.append_assoc, insSorted_append_left hA, insSorted_append_right hB, List.append_assoc]

theorem delKey_append (k : Nat) (A B : List Elt) : delKey k (A ++ B) = delKey k A ++ delKey k B := by
  simp [delKey]

theorem delKey_of_ne {A : List Elt} {k : Nat} (h : ∀ x ∈ A, x.1 ≠ k) : delKey k A = A := by
  simp only [delKey]
  rw [List.filter_eq_self]
  intro x hx
  simpa using h x hx

theorem delKey_window {A B : List Elt} {k : Nat} (hA : ∀ x ∈ A, x.1 < k) (hB : ∀ x ∈ B, k < x.1)
    (M : List Elt) : delKey k (A ++ M ++ B) = A ++ delKey k M ++ B := by
  rw [delKey_append, delKey_append, delKey_of_ne (fun x hx => Nat.ne_of_lt (hA x hx)),
    delKey_of_ne (fun x hx => Nat.ne_of_gt (hB x hx))]

/-! sortedness of `A ++ M ++ B` -/

theorem sorted_append_iff {A B : List Elt} :
    Sorted (A ++ B) ↔ Sorted A ∧ Sorted B ∧ ∀ a ∈ A, ∀ b ∈ B, a.1 < b.1 :=
  List.pairwise_append

theorem sorted_cons_iff {a : Elt} {B : List Elt} : Sorted (a :: B) ↔ (∀ b ∈ B, a.1 < b.1) ∧ Sorted B :=
  List.pairwise_cons

/-- in a sorted list ending with `e`, all earlier keys are smaller -/
theorem sorted_concat_lt {A : List Elt} {e : Elt} (h : Sorted (A ++ [e])) : ∀ x ∈ A, x.1 < e.1 := by
  intro x hx
  exact (sorted_append_iff.mp h).2.2 x hx e (by simp)

end Model.BTree

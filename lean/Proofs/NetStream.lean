import Model.Net
/-! Helper lemmas about `_net_read` / `_net_write` of `Model.Net`: soundness for every script, completeness for
every script that delivers enough octets before EOF and before the deadline. -/
namespace Model.Net

/-- total time the script spends in would-block waits -/
def blockTimeR : List REv → Nat
  | [] => 0
  | .block dt :: rest => dt + blockTimeR rest
  | _ :: rest => blockTimeR rest

/-- no EOF mark and no empty chunk (which a socket reports as EOF) -/
def Clean : List REv → Prop
  | [] => True
  | .data d :: rest => d ≠ [] ∧ Clean rest
  | .block _ :: rest => Clean rest
  | .eof :: _ => False

theorem waitFor_ok_of_lt (exp : Option Nat) (now dt : Nat) (h : ∀ e, exp = some e → now + dt < e) :
    waitFor exp now dt = .ok (now + dt) := by
  cases exp with
  | none => simp [waitFor]
  | some e =>
    have := h e rfl
    have h1 : ¬ e ≤ now := by omega
    have h2 : dt < e - now := by omega
    simp [waitFor, h1, h2]

theorem waitFor_ok_ge (exp : Option Nat) (now dt now' : Nat) (h : waitFor exp now dt = .ok now') : now' = now + dt := by
  cases exp with
  | none => simp [waitFor] at h; omega
  | some e =>
    simp only [waitFor] at h
    split at h
    · simp at h
    · split at h
      · simp at h; omega
      · simp at h

theorem netRead_zero (evs : List REv) (exp : Option Nat) (now : Nat) (acc : Bytes) :
    netRead evs 0 exp now acc = .ok (acc, evs, now) := by
  cases evs with
  | nil => simp [netRead]
  | cons e rest => cases e <;> simp [netRead]

/-- Soundness, for every script whatsoever: what `_net_read` returns is exactly `count` octets, and they are the
next octets of the stream, in order, none skipped, none duplicated. -/
theorem netRead_sound : ∀ (evs : List REv) (count : Nat) (exp : Option Nat) (now : Nat) (acc r : Bytes)
    (evs' : List REv) (now' : Nat),
    netRead evs count exp now acc = .ok (r, evs', now') →
    ∃ x, r = acc ++ x ∧ x.length = count ∧ stream evs = x ++ stream evs' := by
  intro evs
  induction evs with
  | nil =>
    intro count exp now acc r evs' now' h
    cases count with
    | zero => simp [netRead] at h; obtain ⟨rfl, rfl, _⟩ := h; exact ⟨[], by simp⟩
    | succ c => simp [netRead] at h
  | cons e rest ih =>
    intro count exp now acc r evs' now' h
    cases count with
    | zero =>
      rw [netRead_zero] at h
      simp at h; obtain ⟨rfl, rfl, _⟩ := h; exact ⟨[], by simp⟩
    | succ c =>
      cases e with
      | eof => simp [netRead] at h
      | block dt =>
        simp only [netRead] at h
        split at h
        · simp at h
        · obtain ⟨x, h1, h2, h3⟩ := ih _ _ _ _ _ _ _ h
          exact ⟨x, h1, h2, by simpa [stream] using h3⟩
      | data d =>
        simp only [netRead] at h
        split at h
        · simp at h
        · split at h
          · rename_i hne hle
            obtain ⟨x, h1, h2, h3⟩ := ih _ _ _ _ _ _ _ h
            refine ⟨d ++ x, by simp [h1], by simp [h2]; omega, by simp [stream, h3]⟩
          · rename_i hne hgt
            simp at h
            obtain ⟨rfl, rfl, _⟩ := h
            refine ⟨d.take (c + 1), rfl, by simp; omega, ?_⟩
            simp [stream, ← List.append_assoc]

/-- Completeness: if the script has no EOF before, and every wait ends before the deadline, and the stream
holds at least `count` octets, `_net_read` succeeds — whatever the chunking and the would-block events. -/
theorem netRead_complete : ∀ (evs : List REv) (count : Nat) (exp : Option Nat) (now : Nat) (acc : Bytes),
    Clean evs → (∀ e, exp = some e → now + blockTimeR evs < e) → count ≤ (stream evs).length →
    ∃ r evs' now', netRead evs count exp now acc = .ok (r, evs', now') ∧ Clean evs' ∧
      now' + blockTimeR evs' ≤ now + blockTimeR evs := by
  intro evs
  induction evs with
  | nil =>
    intro count exp now acc _ _ hc
    simp [stream] at hc; subst hc
    exact ⟨acc, [], now, by simp [netRead], trivial, Nat.le_refl _⟩
  | cons e rest ih =>
    intro count exp now acc hcl hexp hc
    cases count with
    | zero => exact ⟨acc, _, now, netRead_zero _ _ _ _, hcl, Nat.le_refl _⟩
    | succ c =>
      cases e with
      | eof => exact absurd hcl (by simp [Clean])
      | block dt =>
        have hw : waitFor exp now dt = .ok (now + dt) :=
          waitFor_ok_of_lt exp now dt (fun e he => by have := hexp e he; simp [blockTimeR] at this; omega)
        obtain ⟨r, evs', now', h1, h2, h3⟩ := ih (c + 1) exp (now + dt) acc (by simpa [Clean] using hcl)
          (fun e he => by have := hexp e he; simp [blockTimeR] at this; omega) (by simpa [stream] using hc)
        exact ⟨r, evs', now', by simp [netRead, hw, h1], h2, by simp [blockTimeR]; omega⟩
      | data d =>
        simp only [Clean] at hcl
        have hne : d.isEmpty = false := by cases d <;> simp_all
        by_cases hle : d.length ≤ c + 1
        · obtain ⟨r, evs', now', h1, h2, h3⟩ := ih (c + 1 - d.length) exp now (acc ++ d) hcl.2
            (fun e he => by have := hexp e he; simpa [blockTimeR] using this)
            (by simp [stream] at hc; omega)
          exact ⟨r, evs', now', by simp [netRead, hne, hle, h1], h2, by simpa [blockTimeR] using h3⟩
        · refine ⟨acc ++ d.take (c + 1), .data (d.drop (c + 1)) :: rest, now, by simp [netRead, hne, hle], ?_, by simp [blockTimeR]⟩
          simp only [Clean]
          refine ⟨?_, hcl.2⟩
          intro h0
          have : (d.drop (c + 1)).length = 0 := by simp [h0]
          simp at this; omega

theorem waitFor_error (exp : Option Nat) (now dt : Nat) (e : Err) (h : waitFor exp now dt = .error e) : e = .timeout := by
  cases exp with
  | none => simp [waitFor] at h
  | some d =>
    simp only [waitFor] at h
    split at h
    · simp at h; exact h.symm
    · split at h
      · simp at h
      · simp at h; exact h.symm

theorem starved_kinds (exp : Option Nat) : starved exp = .timeout ∨ starved exp = .exhausted := by
  cases exp <;> simp [starved]

/-- the only ways `_net_read` fails: EOF, the deadline, or (no deadline) waiting for ever -/
theorem netRead_error_kinds : ∀ (evs : List REv) (count : Nat) (exp : Option Nat) (now : Nat) (acc : Bytes) (e : Err),
    netRead evs count exp now acc = .error e → e = .eof ∨ e = .timeout ∨ e = .exhausted := by
  intro evs
  induction evs with
  | nil =>
    intro count exp now acc e h
    cases count with
    | zero => simp [netRead] at h
    | succ c =>
      simp [netRead] at h; subst h
      rcases starved_kinds exp with h | h <;> simp [h]
  | cons ev rest ih =>
    intro count exp now acc e h
    cases count with
    | zero => rw [netRead_zero] at h; simp at h
    | succ c =>
      cases ev with
      | eof => simp [netRead] at h; simp [← h]
      | block dt =>
        simp only [netRead] at h
        split at h
        · rename_i e' hw
          simp at h; subst h
          simp [waitFor_error _ _ _ _ hw]
        · exact ih _ _ _ _ _ h
      | data d =>
        simp only [netRead] at h
        split at h
        · simp at h; simp [← h]
        · split at h
          · exact ih _ _ _ _ _ h
          · simp at h

/-- length prefix of a message shorter than 65536 octets decodes to its length -/
theorem beVal_be16 (n : Nat) (h : n < 65536) : beVal (be16 n) = n := by
  simp [beVal, be16]; omega

/-! ### write side -/

def capacity : List SEv → Nat
  | [] => 0
  | .accept k :: rest => k + capacity rest
  | .block _ :: rest => capacity rest

def blockTimeS : List SEv → Nat
  | [] => 0
  | .block dt :: rest => dt + blockTimeS rest
  | .accept _ :: rest => blockTimeS rest

theorem netWrite_nil (evs : List SEv) (exp : Option Nat) (now : Nat) (sent : Bytes) :
    netWrite evs [] exp now sent = (sent, .ok (evs, now)) := by
  cases evs with
  | nil => simp [netWrite]
  | cons e rest => cases e <;> simp [netWrite]

/-- Soundness, for every script: what the socket has accepted is always a prefix of the data, in order, and on
success it is exactly the data. -/
theorem netWrite_sound : ∀ (evs : List SEv) (rem : Bytes) (exp : Option Nat) (now : Nat) (sent : Bytes),
    ∃ k, (netWrite evs rem exp now sent).1 = sent ++ rem.take k ∧
      ((∃ v, (netWrite evs rem exp now sent).2 = .ok v) → (netWrite evs rem exp now sent).1 = sent ++ rem) := by
  intro evs
  induction evs with
  | nil =>
    intro rem exp now sent
    cases rem with
    | nil => exact ⟨0, by simp [netWrite]⟩
    | cons x xs => exact ⟨0, by simp [netWrite]⟩
  | cons e rest ih =>
    intro rem exp now sent
    cases rem with
    | nil => rw [netWrite_nil]; exact ⟨0, by simp⟩
    | cons x xs =>
      cases e with
      | accept k =>
        simp only [netWrite]
        obtain ⟨j, h1, h2⟩ := ih ((x :: xs).drop k) exp now (sent ++ (x :: xs).take k)
        refine ⟨k + j, ?_, ?_⟩
        · rw [h1, List.append_assoc]; congr 1
          rw [List.take_add]
        · intro hv; rw [h2 hv, List.append_assoc, List.take_append_drop]
      | block dt =>
        simp only [netWrite]
        split
        · exact ⟨0, by simp⟩
        · exact ih _ _ _ _

/-- Completeness: enough capacity and no deadline in the way ⇒ success, whatever the short writes. -/
theorem netWrite_complete : ∀ (evs : List SEv) (rem : Bytes) (exp : Option Nat) (now : Nat) (sent : Bytes),
    (∀ e, exp = some e → now + blockTimeS evs < e) → rem.length ≤ capacity evs →
    ∃ v, (netWrite evs rem exp now sent).2 = .ok v := by
  intro evs
  induction evs with
  | nil =>
    intro rem exp now sent _ hc
    simp [capacity] at hc; subst hc
    exact ⟨([], now), by simp [netWrite]⟩
  | cons e rest ih =>
    intro rem exp now sent hexp hc
    cases rem with
    | nil => rw [netWrite_nil]; exact ⟨_, rfl⟩
    | cons x xs =>
      cases e with
      | accept k =>
        simp only [netWrite]
        apply ih
        · intro e he; have := hexp e he; simpa [blockTimeS] using this
        · simp [capacity] at hc ⊢; omega
      | block dt =>
        have hw : waitFor exp now dt = .ok (now + dt) :=
          waitFor_ok_of_lt exp now dt (fun e he => by have := hexp e he; simp [blockTimeS] at this; omega)
        simp only [netWrite, hw]
        apply ih
        · intro e he; have := hexp e he; simp [blockTimeS] at this; omega
        · simpa [capacity] using hc

end Model.Net

import Model.Xfr
/-!
# Basic facts about the `Inbound` model: what a step preserves, atomicity, the two variants of the
D11 decision point, and the reduction of a chunked TCP run to the flat record list.
-/
namespace Model.Xfr

/-- what a step never touches -/
def Inbound.sameStatic (a b : Inbound) : Prop :=
  a.origin = b.origin ∧ a.rdtype = b.rdtype ∧ a.isUdp = b.isUdp ∧ a.soa = b.soa

theorem Inbound.sameStatic_refl (a : Inbound) : a.sameStatic a := ⟨rfl, rfl, rfl, rfl⟩

theorem Inbound.sameStatic_trans {a b c : Inbound} (h1 : a.sameStatic b) (h2 : b.sameStatic c) : a.sameStatic c :=
  ⟨h1.1.trans h2.1, h1.2.1.trans h2.2.1, h1.2.2.1.trans h2.2.2.1, h1.2.2.2.trans h2.2.2.2⟩

/-- Summary of a successful step from a state `s` (not done): fields never touched; a transaction stays
open and the committed zone is untouched unless the step finished the transfer. -/
structure StepOk (s s' : Inbound) : Prop where
  static : s'.sameStatic s
  open_ : s'.done = false → s'.txn.isSome = true ∧ s'.zone = s.zone

/-! ## the pieces of `procRRset` -/

theorem procFinalSoa_err {fix s txn rr more e z} (h : procFinalSoa fix s txn rr more = .error (e, z)) :
    z = s.zone := by
  unfold procFinalSoa at h
  repeat' split at h
  all_goals first | (cases h; done) | (cases h; rfl)

theorem procFinalSoa_ok {fix s txn rr more s'} (h : procFinalSoa fix s txn rr more = .ok s') :
    s'.sameStatic s ∧ s'.done = true ∧ (fix = true → more = false) := by
  unfold procFinalSoa at h
  repeat' split at h
  all_goals first
    | (cases h; done)
    | (cases h
       refine ⟨⟨rfl, rfl, rfl, rfl⟩, rfl, ?_⟩
       intro hf; subst hf; cases more <;> simp_all)

theorem procOtherSoa_err {s txn rr e z} (h : procOtherSoa s txn rr = .error (e, z)) : z = s.zone := by
  unfold procOtherSoa at h
  repeat' split at h
  all_goals first | (cases h; done) | (cases h; rfl)

theorem procOtherSoa_ok {s txn rr s'} (hd : s.done = false) (htx : s.txn = some txn)
    (h : procOtherSoa s txn rr = .ok s') :
    s'.sameStatic s ∧ s'.done = false ∧ s'.txn.isSome = true ∧ s'.zone = s.zone := by
  unfold procOtherSoa at h
  repeat' split at h
  all_goals first
    | (cases h; done)
    | (cases h; exact ⟨⟨rfl, rfl, rfl, rfl⟩, hd, by simp [htx], rfl⟩)

theorem fallbackState_props (s : Inbound) :
    (fallbackState s).sameStatic s ∧ (fallbackState s).done = s.done ∧ (fallbackState s).zone = s.zone := by
  unfold fallbackState; split <;> exact ⟨⟨rfl, rfl, rfl, rfl⟩, rfl, rfl⟩

theorem fallbackState_txn {s : Inbound} {txn : Txn} (htx : s.txn = some txn) :
    (fallbackState s).txn = some (fallbackTxn s txn) := by
  unfold fallbackState fallbackTxn; split <;> simp [htx]

theorem procData_err {s txn rr e z} (h : procData s txn rr = .error (e, z)) : z = s.zone := by
  unfold procData at h
  repeat' split at h
  all_goals first | (cases h; done) | (cases h; rfl)

theorem procData_ok {s txn rr s'} (htx : s.txn.isSome = true) (h : procData s txn rr = .ok s') :
    s'.sameStatic s ∧ s'.done = s.done ∧ s'.txn.isSome = true ∧ s'.zone = s.zone := by
  unfold procData at h
  repeat' split at h
  all_goals first
    | (cases h; done)
    | (cases h; exact ⟨⟨rfl, rfl, rfl, rfl⟩, rfl, by simp [htx], rfl⟩)

/-! ## one rrset step -/

/-- every exception raised by a step carries the committed zone of the state it started from -/
theorem procRRset_err {fix s rr more e z} (h : procRRset fix s rr more = .error (e, z)) : z = s.zone := by
  unfold procRRset at h
  repeat' split at h
  · cases h; rfl
  · cases h; rfl
  · exact procFinalSoa_err h
  · exact procOtherSoa_err h
  · rw [procData_err h]; exact (fallbackState_props s).2.2

theorem procRRset_notDone {fix s rr more s'} (h : procRRset fix s rr more = .ok s') : s.done = false := by
  unfold procRRset at h
  split at h
  · cases h
  · rename_i hd; simpa using hd

theorem procRRset_ok {fix s rr more s'} (h : procRRset fix s rr more = .ok s') : StepOk s s' := by
  have hd := procRRset_notDone h
  unfold procRRset at h
  repeat' split at h
  · cases h
  · cases h
  · have := procFinalSoa_ok h
    exact ⟨this.1, fun hn => by rw [this.2.1] at hn; cases hn⟩
  · rename_i txn htx _ _
    have := procOtherSoa_ok hd htx h
    exact ⟨this.1, fun _ => ⟨this.2.2.1, this.2.2.2⟩⟩
  · rename_i txn htx _
    have hf := fallbackState_props s
    have := procData_ok (by rw [fallbackState_txn htx]; rfl) h
    exact ⟨Inbound.sameStatic_trans this.1 hf.1, fun _ => ⟨this.2.2.1, this.2.2.2.trans hf.2.2⟩⟩

/-- in the repaired variant a step that finishes the transfer is the last one of its message -/
theorem procRRset_fix_done {s rr more s'} (h : procRRset true s rr more = .ok s') (hd : s'.done = true) :
    more = false := by
  have hnd := procRRset_notDone h
  unfold procRRset at h
  repeat' split at h
  · cases h
  · cases h
  · exact (procFinalSoa_ok h).2.2 rfl
  · rename_i txn htx _ _
    have := (procOtherSoa_ok hnd htx h).2.1
    rw [hd] at this; cases this
  · rename_i txn htx _
    have := (procData_ok (by rw [fallbackState_txn htx]; rfl) h).2.1
    rw [hd, (fallbackState_props s).2.1, hnd] at this; cases this

/-! ## the loop over an answer section -/

theorem procAnswers_ok {fix : Bool} : ∀ {l : List RRset} {s s' : Inbound}, procAnswers fix s l = .ok s' →
    s'.sameStatic s ∧ (s'.done = false → s'.zone = s.zone ∧ (s.txn.isSome = true → s'.txn.isSome = true)) := by
  intro l
  induction l with
  | nil => intro s s' h; cases h; exact ⟨Inbound.sameStatic_refl _, fun _ => ⟨rfl, id⟩⟩
  | cons rr rest ih =>
    intro s s' h
    unfold procAnswers at h
    split at h
    · cases h
    · rename_i s1 h1
      have st := procRRset_ok h1
      have r := ih h
      refine ⟨Inbound.sameStatic_trans r.1 st.static, fun hn => ?_⟩
      have r2 := r.2 hn
      -- s1 is not done either: otherwise the loop would have raised or stopped with s' = s1
      have hs1 : s1.done = false := by
        cases rest with
        | nil => cases h; exact hn
        | cons r2 rs =>
          unfold procAnswers at h
          split at h
          · cases h
          · rename_i _ h2; exact procRRset_notDone h2
      have o := st.open_ hs1
      exact ⟨r2.1.trans o.2, fun _ => r2.2 o.1⟩

/-- an exception out of the loop of the repaired variant always carries the zone it started from -/
theorem procAnswers_fix_err : ∀ {l : List RRset} {s : Inbound} {e z}, procAnswers true s l = .error (e, z) →
    z = s.zone := by
  intro l
  induction l with
  | nil => intro s e z h; cases h
  | cons rr rest ih =>
    intro s e z h
    unfold procAnswers at h
    split at h
    · rename_i e' h1; cases h; exact procRRset_err h1
    · rename_i s1 h1
      have st := procRRset_ok h1
      by_cases hd : s1.done = true
      · have hm := procRRset_fix_done h1 hd
        cases rest with
        | nil => cases h
        | cons _ _ => simp at hm
      · have hd' : s1.done = false := by simpa using hd
        rw [ih h]; exact (st.open_ hd').2

/-! ## one message, the message loop, the whole run: atomicity of the repaired variant -/

theorem openTxn_props (s : Inbound) :
    (openTxn s).sameStatic s ∧ (openTxn s).zone = s.zone ∧ (openTxn s).done = s.done ∧
      (openTxn s).txn.isSome = true ∧ (s.txn.isSome = true → openTxn s = s) := by
  unfold openTxn
  split
  · rename_i h
    refine ⟨⟨rfl, rfl, rfl, rfl⟩, rfl, rfl, rfl, fun h' => ?_⟩
    cases hs : s.txn <;> simp [hs] at h h'
  · rename_i h
    refine ⟨⟨rfl, rfl, rfl, rfl⟩, rfl, rfl, ?_, fun _ => rfl⟩
    cases hs : s.txn <;> simp [hs] at h ⊢

theorem firstSoa_err {s rr b e z} (h : firstSoa s rr b = .error (e, z)) : z = s.zone := by
  unfold firstSoa at h
  repeat' split at h
  all_goals first | (cases h; done) | (cases h; rfl)

theorem firstSoa_ok {s rr b s1} (h : firstSoa s rr b = .ok s1) :
    s1.zone = s.zone ∧ s1.txn = s.txn ∧ s1.origin = s.origin ∧ s1.rdtype = s.rdtype ∧ s1.isUdp = s.isUdp ∧
      s1.soa = some rr := by
  unfold firstSoa at h
  repeat' split at h
  all_goals first | (cases h; done) | (cases h; exact ⟨rfl, rfl, rfl, rfl, rfl, rfl⟩)

theorem procBody_fix_err {s m e z} (h : procBody true s m = .error (e, z)) : z = s.zone := by
  unfold procBody at h
  repeat' split at h
  · cases h; rfl
  · rename_i e' h1; cases h; exact firstSoa_err h1
  · rename_i s1 h1; rw [procAnswers_fix_err h]; exact (firstSoa_ok h1).1
  · exact procAnswers_fix_err h

theorem procBody_ok {fix s m s2} (htx : s.txn.isSome = true) (h : procBody fix s m = .ok s2)
    (hn : s2.done = false) : s2.zone = s.zone ∧ s2.txn.isSome = true := by
  unfold procBody at h
  repeat' split at h
  · cases h
  · cases h
  · rename_i s1 h1
    have f := firstSoa_ok h1
    have r := (procAnswers_ok h).2 hn
    exact ⟨r.1.trans f.1, r.2 (by rw [f.2.1]; exact htx)⟩
  · have r := (procAnswers_ok h).2 hn
    exact ⟨r.1, r.2 htx⟩

theorem udpCheck_ok {s s'} (h : udpCheck s = .ok s') : s' = s := by
  unfold udpCheck at h; split at h
  · cases h
  · cases h; rfl

theorem udpCheck_err {s e z} (h : udpCheck s = .error (e, z)) : z = s.zone ∧ s.done = false ∧ e = .FormError := by
  unfold udpCheck at h; split at h
  · rename_i hc; cases h; simp at hc; exact ⟨rfl, hc.2, rfl⟩
  · cases h

theorem procMessage_fix_err {s m e z} (h : procMessage true s m = .error (e, z)) : z = s.zone := by
  have o := openTxn_props s
  unfold procMessage at h
  repeat' split at h
  · cases h; rfl
  · rename_i e' h1; cases h; rw [procBody_fix_err h1]; exact o.2.1
  · rename_i s2 h1
    have u := udpCheck_err h
    rw [u.1, (procBody_ok o.2.2.2.1 h1 u.2.1).1]; exact o.2.1

theorem procMessage_ok {fix s m s'} (h : procMessage fix s m = .ok s') (hn : s'.done = false) :
    s'.zone = s.zone ∧ s'.txn.isSome = true := by
  have o := openTxn_props s
  unfold procMessage at h
  repeat' split at h
  · cases h
  · cases h
  · rename_i s2 h1
    have := udpCheck_ok h; subst this
    have r := procBody_ok o.2.2.2.1 h1 hn
    exact ⟨r.1.trans o.2.1, r.2⟩

theorem runLoop_fix_err : ∀ {msgs : List Msg} {s : Inbound} {e z}, runLoop true s msgs = .error (e, z) →
    z = s.zone := by
  intro msgs
  induction msgs with
  | nil => intro s e z h; cases h; rfl
  | cons m ms ih =>
    intro s e z h
    unfold runLoop at h
    repeat' split at h
    · rename_i e' h1; cases h; exact procMessage_fix_err h1
    · cases h
    · rename_i s' h1 hd
      rw [ih h]; exact (procMessage_ok h1 (by simpa using hd)).1

/-- **Atomicity of the repaired variant**, for every configuration and every sequence of messages
whatsoever: if anything is raised, the zone is the zone before. -/
theorem run_fix_atomic (c : Config) (z0 : Zone) (msgs : List Msg) (e : XErr)
    (h : (run true c z0 msgs).err = some e) : (run true c z0 msgs).zone = z0 := by
  unfold run at h ⊢
  split
  · rfl
  · rename_i s hs
    have hz : s.zone = z0 := by
      unfold Inbound.init at hs
      repeat' split at hs
      all_goals first | (cases hs; done) | (cases hs; rfl)
    split
    · rename_i e' z h1; rw [runLoop_fix_err h1]; exact hz
    · rename_i s' h1; simp [hs, h1] at h

/-! ## `Inbound` driven directly: leaving the block before the transfer is done -/

/-- feeding stops at the first message that completes the transfer: an error comes with the zone the
feeding started from, and so does a state that is not done -/
theorem feedLoop_fix_zone : ∀ {msgs : List Msg} {s : Inbound},
    (∀ e z, feedLoop true s msgs = .error (e, z) → z = s.zone) ∧
    (∀ s', feedLoop true s msgs = .ok s' → s'.done = false → s'.zone = s.zone) := by
  intro msgs
  induction msgs with
  | nil =>
    intro s
    constructor
    · intro e z h; cases h
    · intro s' h _; cases h; rfl
  | cons m ms ih =>
    intro s
    constructor
    · intro e z h
      unfold feedLoop at h
      repeat' split at h
      · rename_i e' h1; cases h; exact procMessage_fix_err h1
      · cases h
      · rename_i s1 h1 hd
        rw [(ih (s := s1)).1 _ _ h]; exact (procMessage_ok h1 (by simpa using hd)).1
    · intro s' h hn
      unfold feedLoop at h
      repeat' split at h
      · cases h
      · rename_i s1 h1 hd; cases h; rw [hd] at hn; cases hn
      · rename_i s1 h1 hd
        rw [(ih (s := s1)).2 _ h hn]; exact (procMessage_ok h1 (by simpa using hd)).1

/-- `__exit__` never changes the committed zone -/
theorem exit_zone (s : Inbound) (b : Bool) : s.exit b = s.zone := by
  unfold Inbound.exit; split <;> rfl

/-- **Leaving early leaves the zone**: `Inbound` driven as a context manager by any caller, fed any messages,
left normally or by an exception (of `process_message` or of the caller) — unless a `process_message` call
returned `True`, the zone afterwards is exactly the zone before. -/
theorem drive_fix_early (c : Config) (z0 : Zone) (msgs : List Msg) (callerRaises : Bool)
    (h : (drive true c z0 msgs callerRaises).done = false) : (drive true c z0 msgs callerRaises).zone = z0 := by
  unfold drive at h ⊢
  split
  · rfl
  · rename_i s hs
    have hz : s.zone = z0 := by
      unfold Inbound.init at hs
      repeat' split at hs
      all_goals first | (cases hs; done) | (cases hs; rfl)
    split
    · rename_i e z h1; simp only; rw [(feedLoop_fix_zone (s := s)).1 _ _ h1]; exact hz
    · rename_i s' h1
      simp only [hs, h1] at h
      simp only [exit_zone]
      rw [(feedLoop_fix_zone (s := s)).2 _ h1 h]; exact hz

/-! ## a non-incremental transfer never looks at the serial -/

def eraseSerial (s : Inbound) : Inbound := { s with serial := none }

def mapR (f : Inbound → Inbound) : R → R
  | .error e => .error e
  | .ok s => .ok (f s)

set_option linter.unusedSimpArgs false in
theorem procRRset_nonincr (fix : Bool) (s : Inbound) (rr : RRset) (more : Bool) (hi : s.incremental = false) :
    procRRset fix (eraseSerial s) rr more = mapR eraseSerial (procRRset fix s rr more) ∧
      (∀ s', procRRset fix s rr more = .ok s' → s'.incremental = false) := by
  obtain ⟨o, t, inc, ser, udp, soa, done, exp, dm, txn, z⟩ := s
  simp only at hi
  subst hi
  cases done
  · cases txn with
    | none => simp [procRRset, eraseSerial, mapR]
    | some x =>
      by_cases hk : rr.rdtype = soaType ∧ rr.owner = o
      · cases hf : eqFirst soa rr
        · simp [procRRset, eraseSerial, mapR, hk, isFinalSoa, nextDm, hf, procOtherSoa]
        · cases exp
          · cases hm : (fix && more)
            · cases ht : txnReplace o x rr <;>
                simp [procRRset, eraseSerial, mapR, hk, isFinalSoa, nextDm, hf, procFinalSoa, hm, ht]
            · simp [procRRset, eraseSerial, mapR, hk, isFinalSoa, nextDm, hf, procFinalSoa, hm]
          · simp [procRRset, eraseSerial, mapR, hk, isFinalSoa, nextDm, hf, procFinalSoa]
      · cases exp <;> cases hz : isSubdomain rr.owner o <;> cases dm <;>
          simp [procRRset, eraseSerial, mapR, hk, fallbackState, fallbackTxn, procData, hz] <;>
          (first | (cases ht : txnDeleteExact x rr <;> simp [ht]) | (cases ht : txnAdd o x rr <;> simp [ht])
                 | (cases ht : txnAdd o (writer z true) rr <;> simp [ht]) | skip)
  · simp [procRRset, eraseSerial, mapR]

theorem mapR_ok {f : Inbound → Inbound} {r : R} {s' : Inbound} (h : mapR f r = .ok s') : ∃ s, r = .ok s ∧ s' = f s := by
  cases r with
  | error e => cases h
  | ok s => cases h; exact ⟨s, rfl, rfl⟩

theorem procAnswers_nonincr (fix : Bool) : ∀ (l : List RRset) (s : Inbound), s.incremental = false →
    procAnswers fix (eraseSerial s) l = mapR eraseSerial (procAnswers fix s l) ∧
      (∀ s', procAnswers fix s l = .ok s' → s'.incremental = false) := by
  intro l
  induction l with
  | nil => intro s hi; exact ⟨rfl, fun s' h => by cases h; exact hi⟩
  | cons rr rest ih =>
    intro s hi
    have h1 := procRRset_nonincr fix s rr (!rest.isEmpty) hi
    unfold procAnswers
    rw [h1.1]
    cases hr : procRRset fix s rr (!rest.isEmpty) with
    | error e => exact ⟨rfl, fun s' h => by cases h⟩
    | ok s1 =>
      have hi1 := h1.2 s1 hr
      simp only [mapR]
      exact ih s1 hi1

set_option linter.unusedSimpArgs false in
theorem firstSoa_nonincr (s : Inbound) (rr : RRset) (b : Bool) (hi : s.incremental = false) :
    firstSoa (eraseSerial s) rr b = mapR eraseSerial (firstSoa s rr b) ∧
      (∀ s', firstSoa s rr b = .ok s' → s'.incremental = false) := by
  obtain ⟨o, t, inc, ser, udp, soa, done, exp, dm, txn, z⟩ := s
  simp only at hi
  subst hi
  by_cases h1 : rr.owner = o <;> by_cases h2 : rr.rdtype = soaType <;>
    simp [firstSoa, eraseSerial, mapR, h1, h2]

theorem openTxn_eraseSerial (s : Inbound) : openTxn (eraseSerial s) = eraseSerial (openTxn s) := by
  unfold openTxn eraseSerial
  cases h : s.txn <;> simp [h]

theorem procMessage_nonincr (fix : Bool) (s : Inbound) (m : Msg) (hi : s.incremental = false) :
    procMessage fix (eraseSerial s) m = mapR eraseSerial (procMessage fix s m) ∧
      (∀ s', procMessage fix s m = .ok s' → s'.incremental = false) := by
  have hio : (openTxn s).incremental = false := by unfold openTxn; split <;> simp [hi]
  have hh : headerErr (openTxn (eraseSerial s)) m = headerErr (openTxn s) m := by
    rw [openTxn_eraseSerial]; rfl
  have hz : (eraseSerial s).zone = s.zone := rfl
  unfold procMessage
  rw [hh, hz]
  cases headerErr (openTxn s) m with
  | some e => exact ⟨rfl, fun s' h => by cases h⟩
  | none =>
    simp only []
    rw [openTxn_eraseSerial]
    -- the body
    have hbody : procBody fix (eraseSerial (openTxn s)) m = mapR eraseSerial (procBody fix (openTxn s) m) ∧
        (∀ s', procBody fix (openTxn s) m = .ok s' → s'.incremental = false) := by
      unfold procBody
      have hsoa : (eraseSerial (openTxn s)).soa = (openTxn s).soa := rfl
      rw [hsoa]
      cases hs : (openTxn s).soa with
      | some f => exact procAnswers_nonincr fix m.answer (openTxn s) hio
      | none =>
        simp only []
        cases ha : m.answer with
        | nil => exact ⟨rfl, fun s' h => by cases h⟩
        | cons rr rest =>
          simp only []
          have hf := firstSoa_nonincr (openTxn s) rr rest.isEmpty hio
          rw [hf.1]
          cases hr : firstSoa (openTxn s) rr rest.isEmpty with
          | error e => exact ⟨rfl, fun s' h => by cases h⟩
          | ok s1 =>
            simp only [mapR]
            exact procAnswers_nonincr fix rest s1 (hf.2 s1 hr)
    rw [hbody.1]
    cases hb : procBody fix (openTxn s) m with
    | error e => exact ⟨rfl, fun s' h => by cases h⟩
    | ok s2 =>
      simp only [mapR]
      have hi2 := hbody.2 s2 hb
      constructor
      · unfold udpCheck eraseSerial
        simp only []
        split <;> rfl
      · intro s' h
        unfold udpCheck at h
        split at h
        · cases h
        · cases h; exact hi2

theorem runLoop_nonincr (fix : Bool) : ∀ (msgs : List Msg) (s : Inbound), s.incremental = false →
    runLoop fix (eraseSerial s) msgs = mapR eraseSerial (runLoop fix s msgs) := by
  intro msgs
  induction msgs with
  | nil => intro s _; rfl
  | cons m ms ih =>
    intro s hi
    have h1 := procMessage_nonincr fix s m hi
    unfold runLoop
    rw [h1.1]
    cases hr : procMessage fix s m with
    | error e => rfl
    | ok s1 =>
      simp only [mapR]
      have hd : (eraseSerial s1).done = s1.done := rfl
      rw [hd]
      split
      · rfl
      · exact ih s1 (h1.2 s1 hr)

/-- **An AXFR ignores the serial handed to `Inbound`**: whatever serial the caller passes (its local one, 0
as `dns.query.xfr` does, one equal to, behind or far from the server's), the outcome — exception and zone —
is that of `serial=None`, for every message sequence. -/
theorem run_axfr_serial (fix : Bool) (origin : Option Name) (ser : Option Nat) (udp : Bool) (z0 : Zone) (msgs : List Msg) :
    run fix ⟨origin, axfrType, ser, udp⟩ z0 msgs = run fix ⟨origin, axfrType, none, udp⟩ z0 msgs := by
  unfold run
  cases udp with
  | true => simp [Inbound.init, axfrType, ixfrType]
  | false =>
    cases origin with
    | none => simp [Inbound.init, axfrType, ixfrType]
    | some o =>
      have h1 : Inbound.init (some o) z0 axfrType ser false =
          .ok ⟨o, axfrType, false, ser, false, none, false, false, false, none, z0⟩ := by
        simp [Inbound.init, axfrType, ixfrType]
      have h2 : Inbound.init (some o) z0 axfrType none false =
          .ok (eraseSerial ⟨o, axfrType, false, ser, false, none, false, false, false, none, z0⟩) := by
        simp [Inbound.init, axfrType, ixfrType, eraseSerial]
      simp only [h1, h2]
      rw [runLoop_nonincr fix msgs _ rfl]
      cases runLoop fix ⟨o, axfrType, false, ser, false, none, false, false, false, none, z0⟩ msgs with
      | error e => rfl
      | ok s' => rfl

/-! ## the two variants differ only in the D11 situation -/

/-- `a` (as shipped) and `b` (repaired) are the same result, or both raise `FormError` (and may differ
in the zone they leave) -/
def RelR (a b : R) : Prop := a = b ∨ ∃ z z', a = .error (.FormError, z) ∧ b = .error (.FormError, z')

theorem procFinalSoa_variants (s : Inbound) (txn : Txn) (rr : RRset) (more : Bool) (ho : rr.owner = s.origin) :
    procFinalSoa false s txn rr more = procFinalSoa true s txn rr more ∨
      (more = true ∧ procFinalSoa true s txn rr more = .error (.FormError, s.zone) ∧
        ∃ s1, procFinalSoa false s txn rr more = .ok s1 ∧ s1.done = true) := by
  cases more
  · left; simp [procFinalSoa]
  · unfold procFinalSoa
    split
    · left; rfl
    · split
      · left; rfl
      · right
        refine ⟨rfl, by simp, ?_⟩
        simp only [Bool.false_and, Bool.false_eq_true, if_false]
        simp only [txnReplace, ho, ne_eq, not_true_eq_false, and_false, if_false]
        exact ⟨_, rfl, rfl⟩

theorem procRRset_variants (s : Inbound) (rr : RRset) (more : Bool) :
    procRRset false s rr more = procRRset true s rr more ∨
      (more = true ∧ procRRset true s rr more = .error (.FormError, s.zone) ∧
        ∃ s1, procRRset false s rr more = .ok s1 ∧ s1.done = true) := by
  unfold procRRset
  repeat' split
  all_goals first
    | (left; rfl)
    | (rename_i h _; exact procFinalSoa_variants _ _ _ _ h.2)

theorem procAnswers_variants : ∀ (l : List RRset) (s : Inbound),
    RelR (procAnswers false s l) (procAnswers true s l) := by
  intro l
  induction l with
  | nil => intro s; left; rfl
  | cons rr rest ih =>
    intro s
    rcases procRRset_variants s rr (!rest.isEmpty) with h | ⟨hm, ht, s1, hf, hd⟩
    · unfold procAnswers
      rw [← h]
      cases hr : procRRset false s rr (!rest.isEmpty) with
      | error e => left; rfl
      | ok s1 => exact ih s1
    · -- as shipped commits, then raises at the next rrset; the repaired variant raises before committing
      cases rest with
      | nil => simp at hm
      | cons r2 rs =>
        right
        refine ⟨s1.zone, s.zone, ?_, ?_⟩
        · rw [procAnswers, hf]; simp only []
          rw [procAnswers]
          simp [procRRset, hd]
        · rw [procAnswers, ht]

theorem RelR.refl (a : R) : RelR a a := Or.inl rfl

theorem procBody_variants (s : Inbound) (m : Msg) : RelR (procBody false s m) (procBody true s m) := by
  unfold procBody
  repeat' split
  all_goals first
    | exact RelR.refl _
    | exact procAnswers_variants _ _
    | skip
  all_goals simp_all
  all_goals first
    | exact RelR.refl _
    | exact procAnswers_variants _ _

theorem procMessage_variants (s : Inbound) (m : Msg) : RelR (procMessage false s m) (procMessage true s m) := by
  unfold procMessage
  split
  · exact RelR.refl _
  · rcases procBody_variants (openTxn s) m with h | ⟨z, z', ha, hb⟩
    · rw [h]; exact RelR.refl _
    · rw [ha, hb]; exact Or.inr ⟨z, z', rfl, rfl⟩

theorem runLoop_variants : ∀ (msgs : List Msg) (s : Inbound), RelR (runLoop false s msgs) (runLoop true s msgs) := by
  intro msgs
  induction msgs with
  | nil => intro s; exact RelR.refl _
  | cons m ms ih =>
    intro s
    unfold runLoop
    rcases procMessage_variants s m with h | ⟨z, z', ha, hb⟩
    · rw [← h]
      cases procMessage false s m with
      | error e => exact RelR.refl _
      | ok s' =>
        simp only []
        split
        · exact RelR.refl _
        · exact ih s'
    · rw [ha, hb]; exact Or.inr ⟨z, z', rfl, rfl⟩

/-- The shipped code and the repaired code behave identically, except that where the repaired code
raises `FormError` the shipped code may raise the same `FormError` after having committed. -/
theorem run_variants (c : Config) (z0 : Zone) (msgs : List Msg) :
    run false c z0 msgs = run true c z0 msgs ∨
      ((run false c z0 msgs).err = some .FormError ∧ (run true c z0 msgs).err = some .FormError) := by
  unfold run
  cases Inbound.init c.origin z0 c.rdtype c.serial c.isUdp with
  | error e => left; rfl
  | ok s =>
    simp only []
    rcases runLoop_variants msgs s with h | ⟨z, z', ha, hb⟩
    · left; rw [h]
    · right; rw [ha, hb]; exact ⟨rfl, rfl⟩

end Model.Xfr

import Proofs.RdataTextEsc
/-! The `txt_is_utf8` style: `_escapify_unicode` of the decoded string is read back by `Token.unescape_to_bytes`
as the original octets (C05). -/
namespace Model

theorem utf8Char_2 (a b : Nat) (ha : 194 ≤ a ∧ a < 224) (hb : 128 ≤ b ∧ b < 192) :
    utf8Char ((a - 192) * 64 + (b - 128)) = some [a, b] := by
  have h1 : ¬ (a - 192) * 64 + (b - 128) < 128 := by omega
  have h2 : (a - 192) * 64 + (b - 128) < 2048 := by omega
  have e1 : 192 + ((a - 192) * 64 + (b - 128)) / 64 = a := by omega
  have e2 : 128 + ((a - 192) * 64 + (b - 128)) % 64 = b := by omega
  simp only [utf8Char, h1, h2, if_false, if_true, e1, e2]

theorem utf8Char_3 (a b c : Nat) (ha : 224 ≤ a ∧ a < 240) (hb : 128 ≤ b ∧ b < 192) (hc : 128 ≤ c ∧ c < 192)
    (hlo : 2048 ≤ (a - 224) * 4096 + (b - 128) * 64 + (c - 128))
    (hsur : ¬ (55296 ≤ (a - 224) * 4096 + (b - 128) * 64 + (c - 128) ∧ (a - 224) * 4096 + (b - 128) * 64 + (c - 128) < 57344)) :
    utf8Char ((a - 224) * 4096 + (b - 128) * 64 + (c - 128)) = some [a, b, c] := by
  generalize hcp : (a - 224) * 4096 + (b - 128) * 64 + (c - 128) = cp at *
  have h1 : ¬ cp < 128 := by omega
  have h2 : ¬ cp < 2048 := by omega
  have h3 : cp < 65536 := by omega
  have e1 : 224 + cp / 4096 = a := by omega
  have e2 : 128 + cp / 64 % 64 = b := by omega
  have e3 : 128 + cp % 64 = c := by omega
  simp only [utf8Char, h1, h2, h3, hsur, if_false, if_true, e1, e2, e3]

theorem utf8Char_4 (a b c d : Nat) (ha : 240 ≤ a ∧ a < 245) (hb : 128 ≤ b ∧ b < 192) (hc : 128 ≤ c ∧ c < 192)
    (hd : 128 ≤ d ∧ d < 192)
    (hlo : 65536 ≤ (a - 240) * 262144 + (b - 128) * 4096 + (c - 128) * 64 + (d - 128))
    (hhi : (a - 240) * 262144 + (b - 128) * 4096 + (c - 128) * 64 + (d - 128) < 1114112) :
    utf8Char ((a - 240) * 262144 + (b - 128) * 4096 + (c - 128) * 64 + (d - 128)) = some [a, b, c, d] := by
  generalize hcp : (a - 240) * 262144 + (b - 128) * 4096 + (c - 128) * 64 + (d - 128) = cp at *
  have h1 : ¬ cp < 128 := by omega
  have h2 : ¬ cp < 2048 := by omega
  have h3 : ¬ cp < 65536 := by omega
  have e1 : 240 + cp / 262144 = a := by omega
  have e2 : 128 + cp / 4096 % 64 = b := by omega
  have e3 : 128 + cp / 64 % 64 = c := by omega
  have e4 : 128 + cp % 64 = d := by omega
  simp only [utf8Char, h1, h2, h3, hhi, if_false, if_true, e1, e2, e3, e4]

/-- strict UTF-8 decoding followed by encoding gives the octets back -/
theorem utf8Encode_decode (s : Bytes) (us : List Nat) (h : utf8Decode s = some us) : utf8Encode us = some s := by
  fun_induction utf8Decode s generalizing us with
  | case1 => simp at h; subst h; rfl
  | case2 a rest ha ih =>
    cases hr : utf8Decode rest with
    | none => simp [hr] at h
    | some r =>
      simp [hr] at h; subst h
      have hu : utf8Char a = some [a] := by simp [utf8Char, ha]
      simp [utf8Encode, hu, ih r hr]
  | case3 a _ ha b rest' hb ih =>
    cases hr : utf8Decode rest' with
    | none => simp [hr] at h
    | some r =>
      simp [hr] at h; subst h
      simp [utf8Encode, utf8Char_2 a b ha hb, ih r hr]
  | case4 => simp at h
  | case5 => simp at h
  | case6 a _ _ ha c2 c3 rest' cp hc ih =>
    cases hr : utf8Decode rest' with
    | none => simp [hr] at h
    | some r =>
      simp [hr] at h; subst h
      have this : utf8Char cp = some [a, c2, c3] :=
        utf8Char_3 a c2 c3 ha ⟨hc.1, hc.2.1⟩ ⟨hc.2.2.1, hc.2.2.2.1⟩ hc.2.2.2.2.1 hc.2.2.2.2.2
      simp [utf8Encode, this, ih r hr]
  | case7 => simp at h
  | case8 => simp at h
  | case9 a _ _ _ ha b c d rest' cp hc ih =>
    cases hr : utf8Decode rest' with
    | none => simp [hr] at h
    | some r =>
      simp [hr] at h; subst h
      have this : utf8Char cp = some [a, b, c, d] :=
        utf8Char_4 a b c d ha ⟨hc.1, hc.2.1⟩ ⟨hc.2.2.1, hc.2.2.2.1⟩ ⟨hc.2.2.2.2.1, hc.2.2.2.2.2.1⟩
          hc.2.2.2.2.2.2.1 hc.2.2.2.2.2.2.2
      simp [utf8Encode, this, ih r hr]
  | case10 => simp at h
  | case11 => simp at h
  | case12 => simp at h

/-- obligations on `dns.rdata._unicode_escaped` -/
theorem escUOk_generated : EscROk ConstsC05.unicodeEscaped := by decide

theorem escUChar_cases (esc : List Nat) (c : Nat) :
    (c ∈ esc ∧ escUChar esc c = [92, c]) ∨ (c ∉ esc ∧ 0x20 ≤ c ∧ escUChar esc c = [c]) ∨
      (c ∉ esc ∧ c < 0x20 ∧ escUChar esc c = 92 :: dec3 c) := by
  unfold escUChar
  by_cases h : c ∈ esc
  · simp [h]
  · by_cases h2 : 0x20 ≤ c
    · simp [h, h2]
    · right; right; simp [h, h2]; omega

theorem unescapeBytes_escUChar (esc : List Nat) (hesc : EscROk esc) (c : Nat) (b : Bytes) (hb : utf8Char c = some b)
    (rest : List Nat) : unescapeBytes (escUChar esc c ++ rest) = (unescapeBytes rest).map (b ++ ·) := by
  obtain ⟨h34, h92, hall⟩ := hesc
  rcases escUChar_cases esc c with ⟨hm, e⟩ | ⟨hm, h1, e⟩ | ⟨hm, h1, e⟩
  · rw [e]
    obtain ⟨hd, _, _⟩ := hall c hm
    simp only [List.cons_append, List.nil_append]
    rw [unescapeBytes_bs]
    simp only [hd, Bool.false_eq_true, if_false, hb]
    cases unescapeBytes rest <;> simp
  · rw [e]
    have hc92 : c ≠ 92 := fun h => hm (h ▸ h92)
    simp only [List.cons_append, List.nil_append]
    rw [unescapeBytes_plain c hc92, hb]
    cases unescapeBytes rest <;> simp
  · rw [e]
    have hc : c < 256 := by omega
    obtain ⟨d1, d2, d3⟩ := dec3_digits c hc
    have hv : (48 + c / 100 - 48) * 100 + (48 + c / 10 % 10 - 48) * 10 + (48 + c % 10 - 48) = c := by omega
    have hle : ¬ c > 255 := by omega
    have hbc : b = [c] := by
      have : utf8Char c = some [c] := by simp [utf8Char]; omega
      rw [this] at hb; injection hb with hb; exact hb.symm
    simp only [dec3, List.cons_append, List.nil_append]
    rw [unescapeBytes_bs]
    simp only [d1, d2, d3, if_true, Bool.and_self, hv, hle, if_false, hbc]
    cases unescapeBytes rest <;> simp

theorem unescapeBytes_escapifyU (esc : List Nat) (hesc : EscROk esc) (us : List Nat) (s : Bytes)
    (h : utf8Encode us = some s) : unescapeBytes (escapifyUWith esc us) = some s := by
  induction us generalizing s with
  | nil => simp [utf8Encode] at h; subst h; simp [escapifyUWith, unescapeBytes]
  | cons c cs ih =>
    simp only [utf8Encode] at h
    cases hc : utf8Char c with
    | none => simp [hc] at h
    | some b =>
      cases hcs : utf8Encode cs with
      | none => simp [hc, hcs] at h
      | some r =>
        simp [hc, hcs] at h; subst h
        have : escapifyUWith esc (c :: cs) = escUChar esc c ++ escapifyUWith esc cs := by simp [escapifyUWith]
        rw [this, unescapeBytes_escUChar esc hesc c b hc, ih r hcs]
        rfl

theorem quoteBodyAux_escUChar (esc : List Nat) (hesc : EscROk esc) (c : Nat) (rest : List Nat) :
    quoteBodyAux false (escUChar esc c ++ rest) = quoteBodyAux false rest := by
  obtain ⟨h34, h92, hall⟩ := hesc
  rcases escUChar_cases esc c with ⟨hm, e⟩ | ⟨hm, h1, e⟩ | ⟨hm, h1, e⟩
  · rw [e]; simp [quoteBodyAux]
  · rw [e]
    have hc92 : c ≠ 92 := fun h => hm (h ▸ h92)
    have hc34 : c ≠ 34 := fun h => hm (h ▸ h34)
    have hc10 : c ≠ 10 := by omega
    simp [quoteBodyAux, hc92, hc34, hc10]
  · rw [e]
    obtain ⟨d1, d2, d3⟩ := dec3_digits c (by omega)
    simp only [isDigit, decide_eq_true_eq] at d1 d2 d3
    have a2 : 48 + c / 10 % 10 ≠ 92 := by omega
    have a3 : 48 + c % 10 ≠ 92 := by omega
    have b2 : (48 + c / 10 % 10 != 34) = true ∧ (48 + c / 10 % 10 != 10) = true := by
      simp only [bne_iff_ne, ne_eq]; omega
    have b3 : (48 + c % 10 != 34) = true ∧ (48 + c % 10 != 10) = true := by
      simp only [bne_iff_ne, ne_eq]; omega
    simp [dec3, quoteBodyAux, a2, a3, b2.1, b2.2, b3.1, b3.2]

theorem quoteBody_escapifyU (esc : List Nat) (hesc : EscROk esc) (us : List Nat) :
    quoteBody (escapifyUWith esc us) = true := by
  unfold quoteBody
  induction us with
  | nil => simp [escapifyUWith, quoteBodyAux]
  | cons c cs ih =>
    have : escapifyUWith esc (c :: cs) = escUChar esc c ++ escapifyUWith esc cs := by simp [escapifyUWith]
    rw [this, quoteBodyAux_escUChar esc hesc c, ih]

/-- one TXT-like string, under either value of `txt_is_utf8`: a legal quoted-string body that reads back as the octets -/
theorem txtElement_rt (utf8 : Bool) (s : Bytes) (hs : ∀ c ∈ s, c < 256) :
    quoteBody (txtElement utf8 ConstsC05.unicodeEscaped Consts.rdataEscaped s) = true ∧
    unescapeBytes (txtElement utf8 ConstsC05.unicodeEscaped Consts.rdataEscaped s) = some s := by
  have hR := escROk_generated
  have hU := escUOk_generated
  have hplain : quoteBody (escapifyRWith Consts.rdataEscaped s) = true ∧
      unescapeBytes (escapifyRWith Consts.rdataEscaped s) = some s :=
    ⟨quoteBody_escapify _ hR s hs, unescapeBytes_escapify _ hR s hs⟩
  unfold txtElement
  cases utf8 with
  | false => simpa using hplain
  | true =>
    simp only [if_true]
    cases hd : utf8Decode s with
    | none => simpa using hplain
    | some us =>
      exact ⟨quoteBody_escapifyU _ hU us, unescapeBytes_escapifyU _ hU us s (utf8Encode_decode s us hd)⟩

end Model

import Proofs.BTreeZoneOrder
/-!
The sorted stores of the C20 model (`nget`/`nins`/`ndel` on nodes, `dmem`/`dins`/`ddel` on the delegation
index) as finite maps: pointwise characterisations, preservation of sortedness, and the refinement of the
cursor walks (`takeWhile`/`dropWhile` on a sorted list) to filters.
-/
namespace Model
namespace BTZ

/-- well-formed node store: strictly sorted in canonical order, lower-case keys -/
def NWF (l : Nodes) : Prop := l.Pairwise (fun e f => cmpOrder e.1 f.1 < 0) ∧ ∀ e ∈ l, LC e.1

/-- well-formed index -/
def DWF (l : List Name) : Prop := l.Pairwise (fun a b => cmpOrder a b < 0) ∧ ∀ a ∈ l, LC a

theorem NWF_nil : NWF [] := ⟨List.Pairwise.nil, by simp⟩
theorem DWF_nil : DWF [] := ⟨List.Pairwise.nil, by simp⟩

theorem NWF_tail {e : Name × Node} {r : Nodes} (h : NWF (e :: r)) : NWF r :=
  ⟨(List.pairwise_cons.mp h.1).2, fun a ha => h.2 a (List.mem_cons_of_mem _ ha)⟩

theorem DWF_tail {e : Name} {r : List Name} (h : DWF (e :: r)) : DWF r :=
  ⟨(List.pairwise_cons.mp h.1).2, fun a ha => h.2 a (List.mem_cons_of_mem _ ha)⟩

/-! ## nodes -/

theorem nget_nil (k : Name) : nget [] k = none := rfl

theorem nget_cons (e : Name × Node) (r : Nodes) (k : Name) :
    nget (e :: r) k = if nameEq e.1 k then some e.2 else nget r k := by
  unfold nget
  simp only [List.find?_cons]
  cases nameEq e.1 k <;> simp

theorem nget_cons' {e : Name × Node} {r : Nodes} {k : Name} (he : LC e.1) (hk : LC k) :
    nget (e :: r) k = if e.1 = k then some e.2 else nget r k := by
  rw [nget_cons]
  by_cases h : e.1 = k
  · simp [h, (nameEq_eq hk hk).mpr rfl]
  · have : nameEq e.1 k = false := by
      cases hh : nameEq e.1 k with
      | false => rfl
      | true => exact absurd ((nameEq_eq he hk).mp hh) h
    simp [h, this]

theorem nget_some_mem {l : Nodes} {k : Name} {v : Node} (hl : ∀ e ∈ l, LC e.1) (hk : LC k) :
    nget l k = some v → (k, v) ∈ l := by
  induction l with
  | nil => simp [nget_nil]
  | cons e r ih =>
    rw [nget_cons' (hl e (List.mem_cons_self)) hk]
    split
    · rename_i h; intro hv; injection hv with hv
      have : e = (k, v) := by rw [← h, ← hv]
      rw [this]; exact List.mem_cons_self
    · intro hv
      exact List.mem_cons_of_mem _ (ih (fun a ha => hl a (List.mem_cons_of_mem _ ha)) hv)

theorem key_unique {l : Nodes} (h : NWF l) {k : Name} {v v' : Node} : (k, v) ∈ l → (k, v') ∈ l → v = v' := by
  induction l with
  | nil => simp
  | cons e r ih =>
    have hp := List.pairwise_cons.mp h.1
    intro h1 h2
    rcases List.mem_cons.mp h1 with h1 | h1
    · rcases List.mem_cons.mp h2 with h2 | h2
      · rw [← h1] at h2; injection h2 with _ hv; exact hv.symm
      · have := hp.1 _ h2
        rw [← h1] at this
        simp [cmpOrder_self] at this
    · rcases List.mem_cons.mp h2 with h2 | h2
      · have := hp.1 _ h1
        rw [← h2] at this
        simp [cmpOrder_self] at this
      · exact ih (NWF_tail h) h1 h2

theorem mem_nget {l : Nodes} (h : NWF l) {k : Name} {v : Node} : (k, v) ∈ l → nget l k = some v := by
  intro hm
  have hk : LC k := h.2 _ hm
  cases hg : nget l k with
  | none =>
    exfalso
    induction l with
    | nil => simp at hm
    | cons e r ih =>
      rw [nget_cons' (h.2 e List.mem_cons_self) hk] at hg
      split at hg
      · simp at hg
      · rename_i hne
        rcases List.mem_cons.mp hm with hm | hm
        · rw [← hm] at hne; exact hne rfl
        · exact ih (NWF_tail h) hm hg
  | some v' =>
    have := nget_some_mem h.2 hk hg
    rw [key_unique h hm this]

theorem mem_iff_nget {l : Nodes} (h : NWF l) {k : Name} {v : Node} (hk : LC k) :
    (k, v) ∈ l ↔ nget l k = some v :=
  ⟨mem_nget h, nget_some_mem h.2 hk⟩

theorem nget_none_iff {l : Nodes} (hl : ∀ e ∈ l, LC e.1) {k : Name} (hk : LC k) :
    nget l k = none ↔ ∀ e ∈ l, e.1 ≠ k := by
  induction l with
  | nil => simp [nget_nil]
  | cons e r ih =>
    rw [nget_cons' (hl e List.mem_cons_self) hk]
    have ih' := ih (fun a ha => hl a (List.mem_cons_of_mem _ ha))
    by_cases h : e.1 = k
    · simp [h]
    · simp [h, ih']

theorem mem_nins_weak {l : Nodes} {k : Name} {v : Node} {a : Name × Node} :
    a ∈ nins l k v → a = (k, v) ∨ a ∈ l := by
  induction l with
  | nil => simp [nins]
  | cons e r ih =>
    simp only [nins]
    split
    · intro h; rcases List.mem_cons.mp h with h | h
      · exact Or.inl h
      · exact Or.inr h
    · split
      · intro h; rcases List.mem_cons.mp h with h | h
        · exact Or.inl h
        · exact Or.inr (List.mem_cons_of_mem _ h)
      · intro h; rcases List.mem_cons.mp h with h | h
        · exact Or.inr (h ▸ List.mem_cons_self)
        · rcases ih h with h | h
          · exact Or.inl h
          · exact Or.inr (List.mem_cons_of_mem _ h)

theorem nget_nins {l : Nodes} {k k' : Name} {v : Node} (hl : ∀ e ∈ l, LC e.1) (hk : LC k) (hk' : LC k') :
    nget (nins l k v) k' = if k' = k then some v else nget l k' := by
  induction l with
  | nil =>
    simp only [nins]
    rw [nget_cons' (e := (k, v)) hk hk', nget_nil]
    by_cases h : k = k'
    · simp [h]
    · have : ¬ k' = k := fun e => h e.symm
      simp [h, this]
  | cons e r ih =>
    have he : LC e.1 := hl e List.mem_cons_self
    have hr : ∀ a ∈ r, LC a.1 := fun a ha => hl a (List.mem_cons_of_mem _ ha)
    simp only [nins]
    split
    · rw [nget_cons' (e := (k, v)) hk hk']
      by_cases h : k = k'
      · simp [h]
      · have : ¬ k' = k := fun e => h e.symm
        simp [h, this]
    · split
      · rename_i _ heq
        have hke : k = e.1 := (cmpOrder_eq_zero hk he).mp (by simpa using heq)
        rw [nget_cons' (e := (k, v)) hk hk', nget_cons' he hk']
        by_cases h : k = k'
        · simp [h]
        · have h1 : ¬ k' = k := fun e => h e.symm
          have h2 : ¬ e.1 = k' := by rw [← hke]; exact h
          simp [h, h1, h2]
      · rename_i hlt heq
        have hne : k ≠ e.1 := by
          intro e'; apply heq; rw [e']; simp [cmpOrder_self]
        rw [nget_cons' he hk', ih hr, nget_cons' he hk']
        by_cases h : e.1 = k'
        · have : ¬ k' = k := by rw [← h]; exact fun e' => hne e'.symm
          simp [h, this]
        · simp [h]

theorem NWF_nins {l : Nodes} {k : Name} {v : Node} (h : NWF l) (hk : LC k) : NWF (nins l k v) := by
  induction l with
  | nil => exact ⟨by simp [nins], by simp [nins, hk]⟩
  | cons e r ih =>
    have hp := List.pairwise_cons.mp h.1
    have he : LC e.1 := h.2 e List.mem_cons_self
    simp only [nins]
    split
    · rename_i hlt
      refine ⟨List.pairwise_cons.mpr ⟨?_, h.1⟩, ?_⟩
      · intro a ha
        rcases List.mem_cons.mp ha with ha | ha
        · rw [ha]; exact hlt
        · exact cmpOrder_lt_trans hlt (hp.1 a ha)
      · intro a ha
        rcases List.mem_cons.mp ha with ha | ha
        · rw [ha]; exact hk
        · exact h.2 a ha
    · split
      · rename_i _ heq
        have hke : k = e.1 := (cmpOrder_eq_zero hk he).mp (by simpa using heq)
        refine ⟨List.pairwise_cons.mpr ⟨?_, hp.2⟩, ?_⟩
        · intro a ha; show cmpOrder k a.1 < 0; rw [hke]; exact hp.1 a ha
        · intro a ha
          rcases List.mem_cons.mp ha with ha | ha
          · rw [ha]; exact hk
          · exact h.2 a (List.mem_cons_of_mem _ ha)
      · rename_i hlt heq
        have hgt : cmpOrder e.1 k < 0 := by
          have h1 : cmpOrder k e.1 ≠ 0 := by simpa using heq
          exact cmpOrder_gt_iff.mp (by omega)
        have ih' := ih (NWF_tail h)
        refine ⟨List.pairwise_cons.mpr ⟨?_, ih'.1⟩, ?_⟩
        · intro a ha
          rcases mem_nins_weak ha with ha | ha
          · rw [ha]; exact hgt
          · exact hp.1 a ha
        · intro a ha
          rcases List.mem_cons.mp ha with ha | ha
          · rw [ha]; exact he
          · exact ih'.2 a ha

theorem nget_ndel {l : Nodes} {k k' : Name} (hl : ∀ e ∈ l, LC e.1) (hk : LC k) (hk' : LC k') :
    nget (ndel l k) k' = if k' = k then none else nget l k' := by
  induction l with
  | nil => simp [ndel, nget_nil]
  | cons e r ih =>
    have he : LC e.1 := hl e List.mem_cons_self
    have hr : ∀ a ∈ r, LC a.1 := fun a ha => hl a (List.mem_cons_of_mem _ ha)
    have ih' := ih hr
    simp only [ndel] at ih' ⊢
    rw [List.filter_cons]
    by_cases h : e.1 = k
    · have : nameEq e.1 k = true := (nameEq_eq he hk).mpr h
      simp only [this, Bool.not_true, Bool.false_eq_true, if_false]
      rw [ih', nget_cons' he hk']
      by_cases h2 : k' = k
      · simp [h2]
      · have : ¬ e.1 = k' := by rw [h]; exact fun e' => h2 e'.symm
        simp [h2, this]
    · have : nameEq e.1 k = false := by
        cases hh : nameEq e.1 k with
        | false => rfl
        | true => exact absurd ((nameEq_eq he hk).mp hh) h
      simp only [this, Bool.not_false, if_true]
      rw [nget_cons' he hk', ih', nget_cons' he hk']
      by_cases h2 : e.1 = k'
      · have : ¬ k' = k := by rw [← h2]; exact h
        simp [h2, this]
      · simp [h2]

theorem NWF_ndel {l : Nodes} {k : Name} (h : NWF l) : NWF (ndel l k) :=
  ⟨List.Pairwise.filter _ h.1, fun a ha => h.2 a (List.mem_filter.mp ha).1⟩

/-- a key-preserving map keeps the store well-formed and acts pointwise -/
theorem NWF_map {l : Nodes} (f : Name × Node → Node) (h : NWF l) : NWF (l.map fun e => (e.1, f e)) := by
  refine ⟨?_, ?_⟩
  · rw [List.pairwise_map]; exact h.1
  · intro a ha
    obtain ⟨e, he, rfl⟩ := List.mem_map.mp ha
    exact h.2 e he

theorem nget_map' {l : Nodes} (f : Name × Node → Node) {k : Name} (hl : ∀ e ∈ l, LC e.1) (hk : LC k) :
    nget (l.map fun e => (e.1, f e)) k = (nget l k).map (fun nd => f (k, nd)) := by
  induction l with
  | nil => simp [nget_nil]
  | cons e r ih =>
    have he : LC e.1 := hl e List.mem_cons_self
    have hr : ∀ a ∈ r, LC a.1 := fun a ha => hl a (List.mem_cons_of_mem _ ha)
    rw [List.map_cons, nget_cons' (e := (e.1, f e)) he hk, nget_cons' he hk, ih hr]
    by_cases h : e.1 = k
    · simp [h]; rw [← h]
    · simp [h]

/-! ## the index -/

theorem dmem_iff {l : List Name} (hl : ∀ a ∈ l, LC a) {k : Name} (hk : LC k) : dmem l k = true ↔ k ∈ l := by
  unfold dmem
  rw [List.any_eq_true]
  constructor
  · rintro ⟨a, ha, he⟩
    rw [(nameEq_eq (hl a ha) hk).mp he] at ha; exact ha
  · intro h; exact ⟨k, h, (nameEq_eq hk hk).mpr rfl⟩

theorem mem_dins {l : List Name} {k a : Name} (hl : ∀ a ∈ l, LC a) (hk : LC k) :
    a ∈ dins l k ↔ a = k ∨ a ∈ l := by
  induction l with
  | nil => simp [dins]
  | cons e r ih =>
    have he : LC e := hl e List.mem_cons_self
    have hr : ∀ a ∈ r, LC a := fun a ha => hl a (List.mem_cons_of_mem _ ha)
    simp only [dins]
    split
    · simp
    · split
      · rename_i _ heq
        have hke : k = e := (cmpOrder_eq_zero hk he).mp (by simpa using heq)
        simp [hke]
      · simp only [List.mem_cons, ih hr]
        constructor
        · rintro (h | h | h)
          · exact Or.inr (Or.inl h)
          · exact Or.inl h
          · exact Or.inr (Or.inr h)
        · rintro (h | h | h)
          · exact Or.inr (Or.inl h)
          · exact Or.inl h
          · exact Or.inr (Or.inr h)

theorem DWF_dins {l : List Name} {k : Name} (h : DWF l) (hk : LC k) : DWF (dins l k) := by
  induction l with
  | nil => exact ⟨by simp [dins], by simp [dins, hk]⟩
  | cons e r ih =>
    have hp := List.pairwise_cons.mp h.1
    have he : LC e := h.2 e List.mem_cons_self
    simp only [dins]
    split
    · rename_i hlt
      refine ⟨List.pairwise_cons.mpr ⟨?_, h.1⟩, ?_⟩
      · intro a ha
        rcases List.mem_cons.mp ha with ha | ha
        · rw [ha]; exact hlt
        · exact cmpOrder_lt_trans hlt (hp.1 a ha)
      · intro a ha
        rcases List.mem_cons.mp ha with ha | ha
        · rw [ha]; exact hk
        · exact h.2 a ha
    · split
      · rename_i _ heq
        have hke : k = e := (cmpOrder_eq_zero hk he).mp (by simpa using heq)
        refine ⟨List.pairwise_cons.mpr ⟨?_, hp.2⟩, ?_⟩
        · intro a ha; rw [hke]; exact hp.1 a ha
        · intro a ha
          rcases List.mem_cons.mp ha with ha | ha
          · rw [ha]; exact hk
          · exact h.2 a (List.mem_cons_of_mem _ ha)
      · rename_i hlt heq
        have hgt : cmpOrder e k < 0 := by
          have h1 : cmpOrder k e ≠ 0 := by simpa using heq
          exact cmpOrder_gt_iff.mp (by omega)
        have ih' := ih (DWF_tail h)
        refine ⟨List.pairwise_cons.mpr ⟨?_, ih'.1⟩, ?_⟩
        · intro a ha
          rcases (mem_dins (fun a ha => h.2 a (List.mem_cons_of_mem _ ha)) hk).mp ha with ha | ha
          · rw [ha]; exact hgt
          · exact hp.1 a ha
        · intro a ha
          rcases List.mem_cons.mp ha with ha | ha
          · rw [ha]; exact he
          · exact ih'.2 a ha

theorem mem_ddel {l : List Name} {k a : Name} (hl : ∀ a ∈ l, LC a) (hk : LC k) :
    a ∈ ddel l k ↔ a ∈ l ∧ a ≠ k := by
  unfold ddel
  rw [List.mem_filter]
  constructor
  · rintro ⟨h1, h2⟩
    refine ⟨h1, fun e => ?_⟩
    rw [e, (nameEq_eq hk hk).mpr rfl] at h2; simp at h2
  · rintro ⟨h1, h2⟩
    refine ⟨h1, ?_⟩
    cases hh : nameEq a k with
    | false => rfl
    | true => exact absurd ((nameEq_eq (hl a h1) hk).mp hh) h2

theorem DWF_ddel {l : List Name} {k : Name} (h : DWF l) : DWF (ddel l k) :=
  ⟨List.Pairwise.filter _ h.1, fun a ha => h.2 a (List.mem_filter.mp ha).1⟩

theorem DWF_filter {l : List Name} (p : Name → Bool) (h : DWF l) : DWF (l.filter p) :=
  ⟨List.Pairwise.filter _ h.1, fun a ha => h.2 a (List.mem_filter.mp ha).1⟩

/-- two well-formed indexes with the same members are equal -/
theorem DWF_ext {l₁ l₂ : List Name} (h₁ : DWF l₁) (h₂ : DWF l₂) (h : ∀ a, a ∈ l₁ ↔ a ∈ l₂) : l₁ = l₂ := by
  induction l₁ generalizing l₂ with
  | nil =>
    cases l₂ with
    | nil => rfl
    | cons b r => have := (h b).mpr List.mem_cons_self; simp at this
  | cons a r ih =>
    cases l₂ with
    | nil => have := (h a).mp List.mem_cons_self; simp at this
    | cons b s =>
      have p1 := List.pairwise_cons.mp h₁.1
      have p2 := List.pairwise_cons.mp h₂.1
      have hab : a = b := by
        have ha : a ∈ b :: s := (h a).mp List.mem_cons_self
        have hb : b ∈ a :: r := (h b).mpr List.mem_cons_self
        rcases List.mem_cons.mp ha with ha | ha
        · exact ha
        · rcases List.mem_cons.mp hb with hb | hb
          · exact hb.symm
          · have c1 := p2.1 a ha
            have c2 := p1.1 b hb
            have := cmpOrder_lt_trans c1 c2
            simp [cmpOrder_self] at this
      subst hab
      congr 1
      apply ih (DWF_tail h₁) (DWF_tail h₂)
      intro c
      constructor
      · intro hc
        rcases List.mem_cons.mp ((h c).mp (List.mem_cons_of_mem _ hc)) with e | e
        · have := p1.1 c hc; rw [e] at this; simp [cmpOrder_self] at this
        · exact e
      · intro hc
        rcases List.mem_cons.mp ((h c).mpr (List.mem_cons_of_mem _ hc)) with e | e
        · have := p2.1 c hc; rw [e] at this; simp [cmpOrder_self] at this
        · exact e

/-! ## cursor walks on a sorted list -/

/-- if `p` is downward closed along the sort relation, `takeWhile p` is `filter p` -/
theorem takeWhile_eq_filter {α} {R : α → α → Prop} {p : α → Bool} {l : List α}
    (hs : l.Pairwise R) (hp : ∀ a b, R a b → p b = true → p a = true) :
    l.takeWhile p = l.filter p ∧ l.dropWhile p = l.filter (fun a => !p a) := by
  induction l with
  | nil => simp
  | cons a r ih =>
    have hc := List.pairwise_cons.mp hs
    have ih' := ih hc.2
    by_cases h : p a = true
    · simp [List.takeWhile_cons, List.dropWhile_cons, List.filter_cons, h, ih'.1, ih'.2]
    · have hf : p a = false := by simpa using h
      have hall : ∀ b ∈ r, p b = false := by
        intro b hb
        cases hh : p b with
        | false => rfl
        | true => have := hp a b (hc.1 b hb) hh; rw [hf] at this; exact absurd this (by decide)
      have e1 : r.filter p = [] := by
        rw [List.filter_eq_nil_iff]; intro b hb; simp [hall b hb]
      have e2 : r.filter (fun a => !p a) = r := by
        rw [List.filter_eq_self]; intro b hb; simp [hall b hb]
      simp [List.takeWhile_cons, List.dropWhile_cons, List.filter_cons, hf, e1, e2]

theorem takeWhile_le_eq {l : Nodes} (h : NWF l) (t : Name) :
    l.takeWhile (fun e => decide (cmpOrder e.1 t ≤ 0)) = l.filter (fun e => decide (cmpOrder e.1 t ≤ 0)) ∧
    l.dropWhile (fun e => decide (cmpOrder e.1 t ≤ 0)) = l.filter (fun e => !decide (cmpOrder e.1 t ≤ 0)) := by
  apply takeWhile_eq_filter h.1
  intro a b hab hb
  simp only [decide_eq_true_eq] at hb ⊢
  exact Int.le_of_lt (cmpOrder_lt_of_lt_of_le hab hb)

theorem takeWhile_le_eq_names {l : List Name} (h : DWF l) (t : Name) :
    l.takeWhile (fun e => decide (cmpOrder e t ≤ 0)) = l.filter (fun e => decide (cmpOrder e t ≤ 0)) := by
  apply (takeWhile_eq_filter (R := fun a b => cmpOrder a b < 0) h.1 ?_).1
  intro a b hab hb
  simp only [decide_eq_true_eq] at hb ⊢
  exact Int.le_of_lt (cmpOrder_lt_of_lt_of_le hab hb)

end BTZ
end Model

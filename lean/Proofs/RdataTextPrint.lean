import Proofs.RdataTextEnc
/-! "Producing text never fails for a record the library accepted from text" (C05): whatever the model's `from_text`
returns has the shape its printer expects; the only way `to_text` can raise is `NameTooLong` when a style asks to
derelativize a relative name against an origin it does not fit. -/
namespace Model
open Dnssec

/-- the style can print the name (`choose_relativity` succeeds: always, except derelativizing an over-long combination) -/
def NamePrints (st : Style) (n : Name) : Prop := ∃ t, nameToStyled n st.origin st.relativize = .ok t

def NamesPrint (st : Style) (vals : List FV) (tail : Option FV) : Prop :=
  (∀ v ∈ vals, ∀ n ∈ namesOfFV v, NamePrints st n) ∧ (∀ t, tail = some t → ∀ n ∈ namesOfFV t, NamePrints st n)

theorem ip6Ntoa_isSome (a : Bytes) (h : a.length = 16) : (ip6Ntoa a).isSome = true := by
  rw [ntoa_unfold a h]
  have hdl : (a.drop 12).length = 4 := by simp [h]
  obtain ⟨b0, b1, b2, b3, hb⟩ := list4 _ hdl
  have hv4 : ip4Ntoa (a.drop 12) = some (v4Text b0 b1 b2 b3) := by rw [hb]; rfl
  simp only [hv4]
  split
  · split <;> rfl
  · rfl

theorem ip4Ntoa_isSome (a : Bytes) (h : a.length = 4) : (ip4Ntoa a).isSome = true := by
  obtain ⟨b0, b1, b2, b3, rfl⟩ := list4 _ h
  rfl

theorem field_printable (st : Style) (env : PEnv) (k : FK) (t : Tok) (v : FV)
    (h : parseField env k t = some v) (hn : ∀ n ∈ namesOfFV v, NamePrints st n) : (printField st k v).isSome = true := by
  cases k with
  | name =>
    simp only [parseField] at h
    cases hx : asName t env.origin env.relativize env.relTo with
    | none => simp [hx] at h
    | some n =>
      simp only [hx, Option.map_some, Option.some.injEq] at h
      subst h
      obtain ⟨tx, htx⟩ := hn n (by simp [namesOfFV])
      simp [printField, htx]
  | nameRaw =>
    simp only [parseField] at h
    cases hx : asName t none false none with
    | none => simp [hx] at h
    | some n =>
      simp only [hx, Option.map_some, Option.some.injEq] at h
      subst h
      obtain ⟨tx, htx⟩ := hn n (by simp [namesOfFV])
      simp [printField, htx]
  | ip4 =>
    simp only [parseField] at h
    split at h
    · cases h
    · split at h
      · obtain ⟨b, hb, rfl⟩ := map_b_some h
        exact ip4Ntoa_isSome b (ip4Aton_length _ _ hb)
      · cases h
  | ip6 =>
    simp only [parseField] at h
    split at h
    · cases h
    · split at h
      · obtain ⟨b, hb, rfl⟩ := map_b_some h
        exact ip6Ntoa_isSome b (ip6Aton_length _ _ hb)
      · cases h
  | _ =>
    simp only [parseField, parseFieldExtra] at h
    repeat' split at h
    all_goals first
      | (cases h; done)
      | (obtain ⟨n, _, rfl⟩ := map_n_some h; simp [printField])
      | (obtain ⟨n, _, rfl⟩ := map_b_some h; simp [printField])
      | (injection h with h; subst h; simp [printField])
      | simp [printField]

theorem fields_printable (st : Style) (env : PEnv) (ks : List FK) :
    ∀ (toks : List Tok) (vals : List FV) (rest : List Tok), parseFields env ks toks = some (vals, rest) →
      (∀ v ∈ vals, ∀ n ∈ namesOfFV v, NamePrints st n) → (printFields st ks vals).isSome = true := by
  induction ks with
  | nil =>
    intro toks vals rest h _
    simp only [parseFields] at h
    injection h with h; injection h with h1 h2; subst h1
    rfl
  | cons k ks ih =>
    intro toks vals rest h hn
    obtain ⟨t, ts, v, vs, rfl, p1, q1, rfl⟩ := parseFields_cons_inv _ _ _ _ _ _ h
    obtain ⟨a, ha⟩ := Option.isSome_iff_exists.mp (field_printable st env k t v p1 (hn v (by simp)))
    obtain ⟨b, hb⟩ := Option.isSome_iff_exists.mp (ih ts vs rest q1 (fun w hw => hn w (by simp [hw])))
    simp only [printFields, ha, hb]
    rfl

theorem printNames_isSome (st : Style) (ns : List Name) (h : ∀ n ∈ ns, NamePrints st n) : (printNames st ns).isSome = true := by
  induction ns with
  | nil => rfl
  | cons n r ih =>
    obtain ⟨t, ht⟩ := h n (by simp)
    obtain ⟨b, hb⟩ := Option.isSome_iff_exists.mp (ih (fun m hm => h m (by simp [hm])))
    simp only [printNames, ht, hb]
    rfl

theorem aplBody_printable (neg : Bool) (item : List Nat) (it : Nat × Bool × Bytes × Nat)
    (h : parseAplBody neg item = some it) : (printAplItem it).isSome = true := by
  have key : ∀ (f : Nat) (a : Bytes) (p : Nat) (o : Option Text), o.isSome = true →
      (if f = 1 then ip4Ntoa a else if f = 2 then ip6Ntoa a else some (hexlify a)) = o →
      (printAplItem (f, neg, a, p)).isSome = true := by
    intro f a p o ho e
    obtain ⟨t, rfl⟩ := Option.isSome_iff_exists.mp ho
    simp only [printAplItem]
    rw [e]
    rfl
  unfold parseAplBody at h
  split at h
  · cases h
  · split at h
    · cases h
    · split at h
      · cases h
      · split at h
        · cases h
        · split at h
          · cases h
          · split at h
            · cases h
            · split at h
              · split at h
                · rename_i a ha
                  split at h
                  · injection h with h; subst h
                    exact key 1 a _ _ (ip4Ntoa_isSome a (ip4Aton_length _ _ ha)) (by simp)
                  · cases h
                · cases h
              · split at h
                · split at h
                  · rename_i a ha
                    split at h
                    · injection h with h; subst h
                      exact key 2 a _ _ (ip6Ntoa_isSome a (ip6Aton_length _ _ ha)) (by simp)
                    · cases h
                  · cases h
                · rename_i h1 h2
                  split at h
                  · cases h
                  · split at h
                    · rename_i a ha
                      split at h
                      · injection h with h; subst h
                        exact key _ a _ (some (hexlify a)) rfl (by simp [h1, h2])
                      · cases h
                    · cases h

theorem apl_printable (toks : List Tok) (items : List (Nat × Bool × Bytes × Nat)) (h : parseApl toks = some items) :
    (printAplItems items).isSome = true := by
  induction toks generalizing items with
  | nil => simp [parseApl] at h; subst h; rfl
  | cons t ts ih =>
    simp only [parseApl] at h
    split at h
    · rename_i it r hit hr
      injection h with h; subst h
      have e1 : (printAplItem it).isSome = true := by
        unfold parseAplItem at hit
        split at hit
        · cases hit
        · cases hit
        · split at hit
          · exact aplBody_printable _ _ _ hit
          · exact aplBody_printable _ _ _ hit
      obtain ⟨a, ha⟩ := Option.isSome_iff_exists.mp e1
      obtain ⟨b, hb⟩ := Option.isSome_iff_exists.mp (ih r hr)
      simp only [printAplItems, ha, hb]
      rfl
    · cases h

theorem gatewayTok_printable (st : Style) (env : PEnv) (ty : Nat) (t : Tok) (addr : List Nat) (nm : Name)
    (h : parseGatewayTok env ty t = some (addr, nm)) (hn : NamePrints st nm) : (gatewayText st ty addr nm).isSome = true := by
  unfold parseGatewayTok at h
  unfold gatewayText
  split at h
  · rename_i h2
    by_cases h0 : ty = 0
    · simp [h0]
    · have : ty = 1 ∨ ty = 2 := by omega
      simp [h0, this]
  · split at h
    · rename_i h3
      obtain ⟨tx, htx⟩ := hn
      simp [h3, htx]
    · cases h

theorem windowTypes_le (w : Nat × Bytes) (h1 : w.1 < 256) (h2 : w.2.length ≤ 32) : ∀ t ∈ windowTypes w, t ≤ 65535 := by
  intro t ht
  unfold windowTypes at ht
  obtain ⟨k, j, hk, hj, _, rfl⟩ := (mem_windowTypesFrom _ _ _ _).mp ht
  omega

/-- everything but the type-bitmap tail (which `printRec` prints itself) -/
theorem tail_printable (st : Style) (env : PEnv) (vals : List FV) (tk : TK) (toks : List Tok) (tail : Option FV)
    (h : parseTailE env vals tk toks = some tail) (hnb : tk ≠ .bitmap)
    (hn : ∀ t, tail = some t → ∀ n ∈ namesOfFV t, NamePrints st n) : (printTail st tk tail).isSome = true := by
  unfold parseTailE at h
  cases tk with
  | bitmap => exact absurd rfl hnb
  | names =>
    simp only at h
    cases hp : parseNames env toks with
    | none => simp [hp] at h
    | some ns =>
      simp only [hp, Option.map_some, Option.some.injEq] at h
      subst h
      simp only [printTail]
      exact printNames_isSome st ns (fun n hm => hn _ rfl n (by simpa [namesOfFV] using hm))
  | apl =>
    simp only [parseTail] at h
    cases hp : parseApl toks with
    | none => simp [hp] at h
    | some items =>
      simp only [hp, Option.map_some, Option.some.injEq] at h
      subst h
      simp only [printTail]
      exact apl_printable toks items hp
  | wks =>
    simp only [parseTail, parseWks] at h
    split at h
    · split at h
      · split at h
        · cases h
        · rename_i addr ha
          split at h
          · split at h
            · cases h
            · split at h
              · injection h with h; subst h
                obtain ⟨a, hat⟩ := Option.isSome_iff_exists.mp (ip4Ntoa_isSome addr (ip4Aton_length _ _ ha))
                simp [printTail, hat]
              · cases h
          · cases h
      · cases h
    · cases h
  | gateway ti ai =>
    simp only [parseGateway] at h
    split at h
    · rename_i ty t rest _
      split at h
      · cases h
      · rename_i addr nm hg
        have htl : ∃ key, tail = some (.gw ty addr nm key) := by
          split at h
          · split at h
            · injection h with h; exact ⟨[], h.symm⟩
            · cases h
          · split at h
            · split at h
              · rename_i s _
                cases hd : b64Decode s with
                | none => simp [hd] at h
                | some k => simp [hd] at h; exact ⟨k, h.symm⟩
              · cases h
            · cases h
        obtain ⟨key, rfl⟩ := htl
        obtain ⟨g, hg'⟩ := Option.isSome_iff_exists.mp
          (gatewayTok_printable st env ty t addr nm hg (hn _ rfl nm (by simp [namesOfFV])))
        simp [printTail, hg']
    · cases h
  | _ =>
    simp only [parseTail] at h
    repeat' split at h
    all_goals first
      | (cases h; done)
      | (obtain ⟨b, rfl⟩ := map_sb_some h; simp [printTail])
      | (injection h with h; subst h; simp [printTail])
      | simp [printTail]

theorem record_printable (sch : Schema) (env : PEnv) (st : Style) (toks : List Tok) (vals : List FV) (tail : Option FV)
    (h : parseRec sch env toks = some (vals, tail)) (hn : NamesPrint st vals tail) :
    (printRec sch st vals tail).isSome = true := by
  unfold parseRec at h
  split at h
  · cases h
  · rename_i vals' rest hpf
    split at h
    · cases h
    · rename_i tail' hpt
      split at h
      · injection h with h; injection h with h1 h2; subst h1; subst h2
        obtain ⟨fs, hfs⟩ := Option.isSome_iff_exists.mp (fields_printable st env sch.fields toks vals' rest hpf hn.1)
        by_cases hb : sch.tail = .bitmap
        · -- the bitmap tail: the windows come from `Bitmap.from_rdtypes`
          rw [hb] at hpt
          simp only [parseTailE, parseTail] at hpt
          cases ht : parseTail.types rest with
          | none => simp [ht] at hpt
          | some tys =>
            simp only [ht, Option.map_some, Option.some.injEq] at hpt
            subst hpt
            obtain ⟨_, _, hw⟩ := fromRdtypes_exact tys (bitmap_types_range _ _ ht)
            have hall : ((fromRdtypes tys).all fun w => (windowTypes w).all fun t => decide (t ≤ 65535)) = true := by
              rw [List.all_eq_true]
              intro w hwm
              rw [List.all_eq_true]
              intro t htm
              obtain ⟨a, _, c, _⟩ := hw w hwm
              simpa using windowTypes_le w a c t htm
            simp only [printRec, hb, hall, if_true, hfs]
            rfl
        · obtain ⟨ts, hts⟩ := Option.isSome_iff_exists.mp (tail_printable st env vals' sch.tail rest tail' hpt hb hn.2)
          unfold printRec
          cases hk : sch.tail with
          | bitmap => exact absurd hk hb
          | _ => simp only [hk] at hts ⊢; simp [hfs, hts]
      · cases h

end Model

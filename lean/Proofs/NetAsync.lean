import Proofs.NetUdp
import Proofs.NetStream
/-! `dns.asyncquery`'s stream functions (`_read_exactly` over a backend `recv(count, timeout)`) compute what
`dns.query`'s (`_net_read` over `_wait_for`) compute, for every script, count, deadline and clock. -/
namespace Model.Net

theorem readExactlyA_zero (exp : Option Nat) (evs : List REv) (b : Option Nat) (now : Nat) (acc : Bytes) :
    readExactlyA exp evs 0 b now acc = .ok (acc, evs, now) := by
  cases evs with
  | nil => simp [readExactlyA]
  | cons e rest => cases e <;> simp [readExactlyA]

theorem readExactlyA_eq (exp : Option Nat) : ∀ (evs : List REv) (count now : Nat) (acc : Bytes),
    readExactlyA exp evs count (timeoutOf exp now) now acc = netRead evs count exp now acc := by
  intro evs
  induction evs with
  | nil =>
    intro count now acc
    cases count with
    | zero => simp [readExactlyA, netRead]
    | succ c => simp [readExactlyA, netRead, starvedB_timeoutOf]
  | cons ev rest ih =>
    intro count now acc
    cases count with
    | zero => rw [readExactlyA_zero, netRead_zero]
    | succ c =>
      cases ev with
      | eof => simp [readExactlyA, netRead]
      | block dt =>
        simp only [readExactlyA, netRead, waitB_timeoutOf]
        cases hw : waitFor exp now dt with
        | error e => simp
        | ok n => simp [ih]
      | data d =>
        simp only [readExactlyA, netRead]
        split
        · rfl
        · split
          · exact ih _ _ _
          · rfl

theorem readExactly_eq (evs : List REv) (count : Nat) (exp : Option Nat) (now : Nat) :
    readExactly evs count exp now = netRead evs count exp now [] :=
  readExactlyA_eq exp evs count now []

theorem receiveFrameA_eq (evs : List REv) (exp : Option Nat) (now : Nat) :
    receiveFrameA evs exp now = receiveFrame evs exp now := by
  unfold receiveFrameA receiveFrame
  rw [readExactly_eq]
  cases netRead evs ConstsC18.lenPrefix exp now [] with
  | error e => rfl
  | ok v => obtain ⟨ld, evs1, now1⟩ := v; simp [readExactly_eq]

end Model.Net

import Model.ZoneFile
import Proofs.ZoneFileCodecs
/-!
Token-list RDATA: the RFC 3597 generic form (`\# n hex…` under any chunking) and TXT (quoted strings).
-/
namespace Model

/-! ## a run of words up to the end of the line -/

def itemsText : List (List Nat × Word) → List Nat → List Nat
  | [], tail => tail
  | (b, w) :: rest, tail => b ++ (w.text ++ itemsText rest tail)

def ItemsOK (items : List (List Nat × Word)) : Prop := ∀ p ∈ items, SepOK p.1 ∧ p.2.ok = true

theorem get_blank_word_pq (b : List Nat) (w : Word) (T : List Nat) (pq : Bool) (hb : Blank b) (hw : w.ok = true)
    (hT : startsDelim T) :
    (after 0 pq (b ++ (w.text ++ T))).get = .ok (w.token, after 0 w.isQuoted T) := by
  have := get_word (List.replicate b.length SepItem.sp) w T 0 0 pq (sepDepth_spaces _) hw hT
  rw [renderSep_spaces, ← blank_eq_replicate b hb] at this
  exact this

theorem get_blank_lineEnd (bE : List Nat) (hb : Blank bE) (kc : Option (List Nat)) (hc : ∀ t ∈ kc, 10 ∉ t) (pq : Bool)
    (rest : List Nat) :
    (after 0 pq (bE ++ (lineEnd kc ++ rest))).get = .ok (eolToken kc, after 0 false rest) := by
  cases kc with
  | none =>
    have := get_end (List.replicate bE.length SepItem.sp) none rest 0 pq (sepDepth_spaces _) (by simp)
    rw [renderSep_spaces, ← blank_eq_replicate bE hb] at this
    simpa [lineEnd, trailingText] using this
  | some c =>
    have hsp : sepDepth 0 (List.replicate bE.length SepItem.sp ++ [SepItem.sp]) = some 0 := by
      have : List.replicate bE.length SepItem.sp ++ [SepItem.sp] = List.replicate (bE.length + 1) SepItem.sp := by
        rw [List.replicate_succ']
      rw [this]; exact sepDepth_spaces _
    have := get_end (List.replicate bE.length SepItem.sp ++ [SepItem.sp]) (some c) rest 0 pq hsp hc
    have hr : renderSep (List.replicate bE.length SepItem.sp ++ [SepItem.sp]) = bE ++ [32] := by
      simp only [renderSep, List.flatMap_append] at *
      have := renderSep_spaces bE.length
      simp only [renderSep] at this
      rw [this, ← blank_eq_replicate bE hb]
      simp [SepItem.render]
    rw [hr] at this
    simpa [lineEnd, trailingText, List.append_assoc] using this

theorem itemsText_startsDelim (items : List (List Nat × Word)) (hok : ItemsOK items) (bE : List Nat) (hb : Blank bE)
    (kc : Option (List Nat)) (rest : List Nat) :
    startsDelim (itemsText items (bE ++ (lineEnd kc ++ rest))) := by
  cases items with
  | nil =>
    simp only [itemsText]
    cases bE with
    | nil => exact lineEnd_startsDelim kc rest
    | cons c r => exact blank_startsDelim _ _ hb (by simp)
  | cons p r =>
    obtain ⟨b, w⟩ := p
    have := (hok (b, w) (by simp)).1
    exact blank_startsDelim _ _ this.blank this.ne

/-- `get_remaining()` over a run of words -/
theorem getRemaining_items (items : List (List Nat × Word)) (hok : ItemsOK items) (bE : List Nat) (hb : Blank bE)
    (kc : Option (List Nat)) (hc : ∀ t ∈ kc, 10 ∉ t) (rest : List Nat) (pq : Bool) (fuel : Nat) (hf : items.length < fuel)
    (acc : List Token) :
    getRemainingAux fuel (after 0 pq (itemsText items (bE ++ (lineEnd kc ++ rest)))) acc =
      .ok (acc ++ items.map (fun p => p.2.token), { after 0 false rest with ungotten := some (eolToken kc) }) := by
  induction items generalizing pq fuel acc with
  | nil =>
    cases fuel with
    | zero => simp at hf
    | succ f =>
      simp only [itemsText, getRemainingAux, bind, Except.bind, get_blank_lineEnd bE hb kc hc pq rest]
      simp [eolToken, Token.isEolOrEof, unget_after, pure, Except.pure]
  | cons p r ih =>
    obtain ⟨b, w⟩ := p
    cases fuel with
    | zero => simp at hf
    | succ f =>
      obtain ⟨h1, h2⟩ := hok (b, w) (by simp)
      have hok' : ItemsOK r := fun q hq => hok q (by simp [hq])
      simp only [itemsText, getRemainingAux, bind, Except.bind,
        get_blank_word_pq b w _ pq h1.blank h2 (itemsText_startsDelim r hok' bE hb kc rest), Word.token_not_eol,
        Bool.false_eq_true, if_false]
      rw [ih hok' w.isQuoted f (by simpa using hf)]
      simp

/-- identifier words without escapes -/
def PlainIdents (items : List (List Nat × Word)) : Prop :=
  ∀ p ∈ items, ∃ w, p.2 = .ident w ∧ hasEsc w = false

def wordValue : Word → List Nat
  | .ident w => w
  | .quoted b => b

/-- `concatenate_remaining_identifiers(allow_empty=True)` over a run of identifiers -/
theorem concatRemaining_items (items : List (List Nat × Word)) (hok : ItemsOK items) (hpl : PlainIdents items)
    (bE : List Nat) (hb : Blank bE) (kc : Option (List Nat)) (hc : ∀ t ∈ kc, 10 ∉ t) (rest : List Nat) (fuel : Nat)
    (hf : items.length < fuel) (acc : List Nat) :
    concatRemainingAux true fuel (after 0 false (itemsText items (bE ++ (lineEnd kc ++ rest)))) acc =
      .ok (acc ++ items.flatMap (fun p => wordValue p.2), { after 0 false rest with ungotten := some (eolToken kc) }) := by
  induction items generalizing fuel acc with
  | nil =>
    cases fuel with
    | zero => simp at hf
    | succ f =>
      simp only [itemsText, concatRemainingAux, bind, Except.bind, get_blank_lineEnd bE hb kc hc false rest]
      simp [eolToken, Token.unescape, Token.isEolOrEof, unget_after, pure, Except.pure]
  | cons p r ih =>
    obtain ⟨b, w⟩ := p
    cases fuel with
    | zero => simp at hf
    | succ f =>
      obtain ⟨h1, h2⟩ := hok (b, w) (by simp)
      obtain ⟨v, hv, he⟩ := hpl (b, w) (by simp)
      simp only at hv
      subst hv
      have hok' : ItemsOK r := fun q hq => hok q (by simp [hq])
      have hpl' : PlainIdents r := fun q hq => hpl q (by simp [hq])
      have hg := get_blank_word_pq b (.ident v) _ false h1.blank h2 (itemsText_startsDelim r hok' bE hb kc rest)
      simp only [Word.token, Word.isQuoted] at hg
      have hun : ({ ttype := .identifier, value := v, hasEscape := hasEsc v } : Token).unescape =
          .ok { ttype := .identifier, value := v, hasEscape := hasEsc v } := by
        simp [Token.unescape, he]
      simp only [itemsText, concatRemainingAux, bind, Except.bind, hg, hun]
      simp only [Token.isEolOrEof, Token.isIdentifier]
      simp only [beq_iff_eq, reduceCtorEq, Bool.or_self, Bool.false_eq_true, if_false, beq_self_eq_true, Bool.not_true]
      rw [ih hok' hpl' f (by simpa using hf)]
      simp [wordValue, List.append_assoc]

theorem itemsText_length (items : List (List Nat × Word)) (hok : ItemsOK items) (tail : List Nat) :
    items.length ≤ (itemsText items tail).length := by
  induction items with
  | nil => simp
  | cons p r ih =>
    obtain ⟨b, w⟩ := p
    have hb := (hok (b, w) (by simp)).1.ne
    have : b.length ≥ 1 := by
      cases b with
      | nil => exact absurd rfl hb
      | cons _ _ => simp
    have := ih (fun q hq => hok q (by simp [hq]))
    simp only [itemsText, List.length_append, List.length_cons]
    omega

/-! ## hex -/

def isHexChar (c : Nat) : Bool := decide ((48 ≤ c ∧ c ≤ 57) ∨ (97 ≤ c ∧ c ≤ 102))

theorem hexDigitN_hex (n : Nat) (h : n < 16) : isHexChar (hexDigitN n) = true ∧ hexVal? (hexDigitN n) = some n := by
  unfold hexDigitN isHexChar hexVal?
  by_cases h10 : n < 10
  · simp [h10]
    constructor
    · omega
    · intro _; omega
  · simp [h10]
    have a : ¬ (48 ≤ 87 + n ∧ 87 + n ≤ 57) := by omega
    have b : 97 ≤ 87 + n ∧ 87 + n ≤ 102 := by omega
    simp [a, b]

theorem hexlify_hex (d : Bytes) : ∀ c ∈ hexlify d, isHexChar c = true := by
  intro c hc
  simp only [hexlify, List.mem_flatMap, List.mem_cons, List.mem_nil_iff, or_false] at hc
  obtain ⟨x, _, h | h⟩ := hc
  · rw [h]; exact (hexDigitN_hex _ (Nat.mod_lt _ (by decide))).1
  · rw [h]; exact (hexDigitN_hex _ (Nat.mod_lt _ (by decide))).1

theorem unhexlify_hexlify (d : Bytes) (hd : ∀ x ∈ d, x < 256) : unhexlify (hexlify d) = some d := by
  induction d with
  | nil => rfl
  | cons x r ih =>
    have hx : x < 256 := hd x (by simp)
    have h1 := (hexDigitN_hex (x / 16 % 16) (Nat.mod_lt _ (by decide))).2
    have h2 := (hexDigitN_hex (x % 16) (Nat.mod_lt _ (by decide))).2
    have ih' := ih (fun y hy => hd y (by simp [hy]))
    simp only [hexlify, List.flatMap_cons, List.cons_append, List.nil_append] at ih' ⊢
    simp only [unhexlify, h1, h2, ih']
    congr 2
    omega

theorem hexWord_ok (w : List Nat) (h : ∀ c ∈ w, isHexChar c = true) : identOK w = true ∧ hasEsc w = false := by
  constructor
  · induction w with
    | nil => rfl
    | cons c r ih =>
      have hc : isHexChar c = true := h c (by simp)
      simp only [isHexChar, decide_eq_true_eq] at hc
      have h92 : c ≠ 92 := by omega
      have hdl : isDelim false c = false := by simp [isDelim, delimiters]; omega
      rw [identOK_plain c r h92, hdl, ih (fun x hx => h x (by simp [hx]))]
      rfl
  · simp only [hasEsc, List.contains_eq_mem, decide_eq_false_iff_not]
    intro hm
    have := h 92 hm
    simp [isHexChar] at this

/-! ## chunking -/

theorem chunks_flatten (k : Nat) (hk : k > 0) (f : Nat) (l : List Nat) (hf : l.length ≤ f) :
    (chunks k f l).flatten = l := by
  induction f generalizing l with
  | zero =>
    have : l = [] := List.eq_nil_of_length_eq_zero (by omega)
    subst this; simp [chunks]
  | succ f ih =>
    cases l with
    | nil => simp [chunks]
    | cons a r =>
      simp only [chunks, List.flatten_cons]
      rw [ih ((a :: r).drop k) (by simp only [List.length_drop, List.length_cons] at hf ⊢; omega)]
      exact List.take_append_drop k (a :: r)

theorem chunks_props (k : Nat) (hk : k > 0) (f : Nat) (l : List Nat) :
    ∀ c ∈ chunks k f l, c ≠ [] ∧ ∀ x ∈ c, x ∈ l := by
  induction f generalizing l with
  | zero => simp [chunks]
  | succ f ih =>
    cases l with
    | nil => simp [chunks]
    | cons a r =>
      intro c hc
      simp only [chunks, List.mem_cons] at hc
      rcases hc with rfl | hc
      · constructor
        · cases k with
          | zero => omega
          | succ k' => simp
        · intro x hx; exact List.mem_of_mem_take hx
      · obtain ⟨h1, h2⟩ := ih _ c hc
        exact ⟨h1, fun x hx => List.mem_of_mem_drop (h2 x hx)⟩

/-- the hex words `_wordbreak` produces -/
def hexWords (data : List Nat) (chunk : Nat) : List (List Nat) :=
  if chunk = 0 then (if data = [] then [] else [data]) else chunks chunk data.length data

theorem wordbreak_words (data : List Nat) (chunk : Nat) (sep : List Nat) :
    wordbreak data chunk sep = joinWith sep (hexWords data chunk) := by
  unfold wordbreak hexWords
  by_cases h : chunk = 0
  · by_cases hd : data = [] <;> simp [h, hd, joinWith]
  · simp [h]

theorem hexWords_props (data : List Nat) (chunk : Nat) :
    (hexWords data chunk).flatten = data ∧ ∀ c ∈ hexWords data chunk, c ≠ [] ∧ ∀ x ∈ c, x ∈ data := by
  unfold hexWords
  by_cases h : chunk = 0
  · by_cases hd : data = []
    · simp [h, hd]
    · simp [h, hd]
  · simp only [h, if_false]
    exact ⟨chunks_flatten chunk (by omega) _ _ (Nat.le_refl _), chunks_props chunk (by omega) _ _⟩

/-- the words after the length field: the first follows one blank, the others the chunk separator -/
def hexItems (sep : List Nat) : List (List Nat) → List (List Nat × Word)
  | [] => []
  | c :: r => ([32], .ident c) :: r.map fun x => (sep, Word.ident x)

theorem sepItems_text (sep : List Nat) (cs : List (List Nat)) (c : List Nat) (X : List Nat) :
    c ++ (match cs with | [] => [] | _ => sep ++ joinWith sep cs) ++ X =
      c ++ itemsText (cs.map fun x => (sep, Word.ident x)) X := by
  induction cs generalizing c with
  | nil => simp [itemsText]
  | cons d r ih =>
    cases r with
    | nil => simp [itemsText, joinWith, Word.text, List.append_assoc]
    | cons e r' =>
      have := ih d
      simp only [List.map_cons, itemsText, Word.text, joinWith, List.append_assoc] at this ⊢
      rw [← this]

theorem hexItems_text (sep : List Nat) (cs : List (List Nat)) (X : List Nat) :
    32 :: (joinWith sep cs ++ X) = itemsText (hexItems sep cs) ((if cs = [] then [32] else []) ++ X) := by
  cases cs with
  | nil => simp [joinWith, hexItems, itemsText]
  | cons c r =>
    have := sepItems_text sep r c X
    cases r with
    | nil => simp [joinWith, hexItems, itemsText, Word.text]
    | cons d r' =>
      simp only [joinWith, hexItems, itemsText, Word.text, List.map_cons, List.append_assoc, List.cons_append,
        List.nil_append, if_neg (List.cons_ne_nil _ _)] at this ⊢
      rw [← this]

/-! ## the RFC 3597 generic form -/

def genericMarker : List Nat := [92, 35]

theorem getInt_of_get (s s1 : TState) (n : Nat) (hg : s.get = .ok (identToken (natToDec n), s1)) :
    s.getInt = .ok (n, s1) := by
  have he : hasEsc (natToDec n) = false := by
    have := natToDec_all n
    simp only [hasEsc, List.contains_eq_mem, decide_eq_false_iff_not]
    intro hm
    have := (List.all_eq_true.mp this) 92 hm
    simp [isDecimal] at this
  simp only [TState.getInt, bind, Except.bind, hg, unescape_noesc _ he]
  have h2 : ¬ ((n : Int) < 0) := by omega
  simp [Token.asInt, identToken, Token.isIdentifier, pyInt_natToDec, h2, pure, Except.pure]

/-- the text after the `\#` marker: length, then the hex words under the style's chunking -/
def genericTail (d : Bytes) (chunk : Nat) (sep : List Nat) (X : List Nat) : List Nat :=
  32 :: (natToDec d.length ++ (32 :: (wordbreak (hexlify d) chunk sep ++ X)))

theorem hexItems_ok (sep : List Nat) (hsep : SepOK sep) (cs : List (List Nat))
    (h : ∀ c ∈ cs, c ≠ [] ∧ ∀ x ∈ c, isHexChar x = true) :
    ItemsOK (hexItems sep cs) ∧ PlainIdents (hexItems sep cs) ∧
      (hexItems sep cs).flatMap (fun p => wordValue p.2) = cs.flatten := by
  cases cs with
  | nil => simp [hexItems, ItemsOK, PlainIdents]
  | cons c r =>
    refine ⟨?_, ?_, ?_⟩
    · intro p hp
      simp only [hexItems, List.mem_cons, List.mem_map] at hp
      rcases hp with rfl | ⟨x, hx, rfl⟩
      · obtain ⟨h1, h2⟩ := h c (by simp)
        exact ⟨⟨sp_blank, by simp⟩, by simp [Word.ok, (hexWord_ok c h2).1, h1]⟩
      · obtain ⟨h1, h2⟩ := h x (by simp [hx])
        exact ⟨hsep, by simp [Word.ok, (hexWord_ok x h2).1, h1]⟩
    · intro p hp
      simp only [hexItems, List.mem_cons, List.mem_map] at hp
      rcases hp with rfl | ⟨x, hx, rfl⟩
      · exact ⟨c, rfl, (hexWord_ok c (h c (by simp)).2).2⟩
      · exact ⟨x, rfl, (hexWord_ok x (h x (by simp [hx])).2).2⟩
    · simp only [hexItems, wordValue, List.flatMap_cons, List.flatten_cons]
      congr 1
      induction r with
      | nil => rfl
      | cons x xs ih => simp only [List.map_cons, List.flatMap_cons, List.flatten_cons, wordValue]; rw [ih (fun c hc => h c (by simp at hc ⊢; rcases hc with h1 | h1; exact Or.inl h1; exact Or.inr (Or.inr h1)))]

/-- `GenericRdata.from_text` once the marker has been read -/
theorem genericFromText_ok (s : TState) (d : Bytes) (hd : ∀ x ∈ d, x < 256) (chunk : Nat) (sep : List Nat)
    (hsep : SepOK sep) (kc : Option (List Nat)) (hc : ∀ t ∈ kc, 10 ∉ t) (rest : List Nat)
    (hget : s.get = .ok (identToken genericMarker, after 0 false (genericTail d chunk sep (lineEnd kc ++ rest)))) :
    genericFromText s = .ok (d, { after 0 false rest with ungotten := some (eolToken kc) }) := by
  obtain ⟨hflat, hprops⟩ := hexWords_props (hexlify d) chunk
  have hwords : ∀ c ∈ hexWords (hexlify d) chunk, c ≠ [] ∧ ∀ x ∈ c, isHexChar x = true :=
    fun c hc => ⟨(hprops c hc).1, fun x hx => hexlify_hex d x ((hprops c hc).2 x hx)⟩
  obtain ⟨iok, ipl, ival⟩ := hexItems_ok sep hsep _ hwords
  have htail : genericTail d chunk sep (lineEnd kc ++ rest) =
      32 :: (natToDec d.length ++ itemsText (hexItems sep (hexWords (hexlify d) chunk))
        ((if hexWords (hexlify d) chunk = [] then [32] else []) ++ (lineEnd kc ++ rest))) := by
    unfold genericTail
    rw [wordbreak_words, hexItems_text]
  have hbE : Blank (if hexWords (hexlify d) chunk = [] then [32] else []) := by
    split
    · exact sp_blank
    · exact blank_nil
  obtain ⟨t1, t2⟩ := natToDec_token d.length
  have hg2 : (after 0 false (genericTail d chunk sep (lineEnd kc ++ rest))).get =
      .ok (identToken (natToDec d.length), after 0 false (itemsText (hexItems sep (hexWords (hexlify d) chunk))
        ((if hexWords (hexlify d) chunk = [] then [32] else []) ++ (lineEnd kc ++ rest)))) := by
    rw [htail]
    exact get_field [32] _ _ sp_blank t1 t2 (itemsText_startsDelim _ iok _ hbE kc rest)
  have hcat := concatRemaining_items (hexItems sep (hexWords (hexlify d) chunk)) iok ipl _ hbE kc hc rest
    ((itemsText (hexItems sep (hexWords (hexlify d) chunk))
        ((if hexWords (hexlify d) chunk = [] then [32] else []) ++ (lineEnd kc ++ rest))).length + 2)
    (by have := itemsText_length _ iok ((if hexWords (hexlify d) chunk = [] then [32] else []) ++ (lineEnd kc ++ rest)); omega)
    []
  unfold genericFromText
  simp only [bind, Except.bind, liftT, hget]
  have hm : ((identToken genericMarker).isIdentifier = true ∧ (identToken genericMarker).value = [92, 35]) := by
    simp [identToken, genericMarker, Token.isIdentifier]
  simp only [hm, and_self, Bool.not_true, Bool.false_eq_true, if_false, getInt_of_get _ _ _ hg2]
  have hcr : (after 0 false (itemsText (hexItems sep (hexWords (hexlify d) chunk))
        ((if hexWords (hexlify d) chunk = [] then [32] else []) ++ (lineEnd kc ++ rest)))).concatRemaining true =
      .ok (hexlify d, { after 0 false rest with ungotten := some (eolToken kc) }) := by
    unfold TState.concatRemaining
    have e : (after 0 false (itemsText (hexItems sep (hexWords (hexlify d) chunk))
        ((if hexWords (hexlify d) chunk = [] then [32] else []) ++ (lineEnd kc ++ rest)))).input =
        itemsText (hexItems sep (hexWords (hexlify d) chunk))
        ((if hexWords (hexlify d) chunk = [] then [32] else []) ++ (lineEnd kc ++ rest)) := rfl
    rw [e, hcat, ival, hflat]
    rfl
  simp only [hcr, unhexlify_hexlify d hd]
  simp [pure, Except.pure]

theorem getEol_ungot_eol (rest : List Nat) (kc : Option (List Nat)) :
    ({ after 0 false rest with ungotten := some (eolToken kc) } : TState).getEol = .ok (eolToken kc, after 0 false rest) := by
  simp [TState.getEol, bind, Except.bind, TState.get, eolToken, Token.isEolOrEof, after, pure, Except.pure]

/-- the generic form of a type without an implementation class, under any chunking by blanks -/
theorem rdataReads_generic (ty : Nat) (hty : isGenericType ty = true) (b : List Nat) (d : Bytes) (hd : ∀ x ∈ d, x < 256)
    (chunk : Nat) (sep : List Nat) (hsep : SepOK sep) (kc : Option (List Nat)) (hc : ∀ t ∈ kc, 10 ∉ t)
    (co : Option Name) (rel : Bool) (zo : Option Name) (gfix : Bool) (hb : Blank b) (hbn : b ≠ []) :
    RdataReads ty (b ++ (genericMarker ++ genericTail d chunk sep (lineEnd kc))) (.generic d) kc co rel zo gfix := by
  refine ⟨blank_startsDelim _ _ hb hbn, ?_⟩
  intro rest
  have e : (b ++ (genericMarker ++ genericTail d chunk sep (lineEnd kc))) ++ rest =
      b ++ (genericMarker ++ genericTail d chunk sep (lineEnd kc ++ rest)) := by
    simp [genericTail, List.append_assoc]
  rw [e]
  have hg := get_field b genericMarker (genericTail d chunk sep (lineEnd kc ++ rest)) hb (by decide) (by decide)
    (sp_startsDelim _)
  have hgen := genericFromText_ok _ d hd chunk sep hsep kc hc rest hg
  unfold rdataFromText
  simp only [hty, if_true, bind, Except.bind, hgen, pure, Except.pure, liftT, getEol_ungot_eol]
  simp [wrapSyntax, eolToken]

/-- the generic form of a *known* type (`want_generic`): given the wire codec of the type (C02 interface: the bytes
decode to the rdata and the rdata encodes back to the bytes, against the reader's origin), the text is read back -/
theorem rdataReads_generic_known (ty : Nat) (hgen : isGenericType ty = false) (hmod : isModelledType ty = true)
    (b : List Nat) (d : Bytes) (rd : Rdata) (hd : ∀ x ∈ d, x < 256)
    (chunk : Nat) (sep : List Nat) (hsep : SepOK sep) (kc : Option (List Nat)) (hc : ∀ t ∈ kc, 10 ∉ t)
    (co : Option Name) (rel : Bool) (zo : Option Name) (gfix : Bool) (hb : Blank b) (hbn : b ≠ [])
    (hdec : rdataFromWire ty d (if gfix then wireOrigin co rel zo else co) = some rd)
    (henc : rdataToWire (if gfix then wireOrigin co rel zo else none) rd = .ok d) :
    RdataReads ty (b ++ (genericMarker ++ genericTail d chunk sep (lineEnd kc))) rd kc co rel zo gfix := by
  refine ⟨blank_startsDelim _ _ hb hbn, ?_⟩
  intro rest
  have e : (b ++ (genericMarker ++ genericTail d chunk sep (lineEnd kc))) ++ rest =
      b ++ (genericMarker ++ genericTail d chunk sep (lineEnd kc ++ rest)) := by
    simp [genericTail, List.append_assoc]
  rw [e]
  have hg := get_field b genericMarker (genericTail d chunk sep (lineEnd kc ++ rest)) hb (by decide) (by decide)
    (sp_startsDelim _)
  have hgu := get_ungot_ident (after 0 false (genericTail d chunk sep (lineEnd kc ++ rest))) genericMarker rfl
  have hgenr := genericFromText_ok _ d hd chunk sep hsep kc hc rest hgu
  have hm : ((identToken genericMarker).isIdentifier = true ∧ (identToken genericMarker).value = [92, 35]) := by
    simp [identToken, genericMarker, Token.isIdentifier]
  unfold rdataFromText
  simp only [hgen, hmod, Bool.false_eq_true, if_false, Bool.not_true, bind, Except.bind, liftT, hg, unget_after, hm,
    and_self, if_true, hgenr]
  simp only [hdec, henc, ne_eq, not_true_eq_false, if_false, pure, Except.pure, getEol_ungot_eol]
  simp [wrapSyntax, eolToken]

end Model

import Proofs.BTreeCowSess3
/-!
Mechanism-level proofs, part 16: the footprint of a mutation in a session (which cells may change), and
isolation of the other trees as a corollary of the refinement theorem.
-/
namespace Model.BTreeCow
open Model.BTree

/-- what a mutation of the tree with token `c` may do to the heap: old cells created by other tokens are
untouched, no cell changes its creator, and every new cell is created by `c` -/
structure Footprint (c : Nat) (H H' : Heap) : Prop where
  size : H.size ≤ H'.size
  same : ∀ x, x < H.size → (rd H x).creator ≠ c → rd H' x = rd H x
  creator : ∀ x, x < H.size → (rd H' x).creator = (rd H x).creator
  fresh : ∀ x, H.size ≤ x → x < H'.size → (rd H' x).creator = c

theorem RUpd.footprint {c : Nat} {H H' : Heap} {h r h' r' : Nat} {n : Node} (u : RUpd c H H' h r h' r' n) :
    Footprint c H H' :=
  ⟨u.size, fun x hx hc => u.same x hx (Or.inr hc), u.creator, u.fresh⟩

theorem Footprint.refl (c : Nat) (H : Heap) : Footprint c H H :=
  ⟨Nat.le_refl _, fun _ _ _ => rfl, fun _ _ => rfl, fun x h1 h2 => by omega⟩

/-- `insert_element` of tree `i` writes only cells created by that tree's token -/
theorem insert_footprint {s : Sess} (ok : SessOk s) (i : Nat) (e : Elt) (hd : Handle) (hi : s.hs[i]? = some hd) :
    Footprint hd.creator s.w.heap (s.step (.insert i e)).w.heap := by
  simp only [Sess.step, hi]
  have okd := ok.trees hd (List.mem_of_getElem? hi)
  obtain ⟨h, t1, t2, t3, t4, t5⟩ := okd.tree
  cases hm : hd.immutable with
  | true => simpa [Handle.insert, hm] using Footprint.refl hd.creator s.w.heap
  | false =>
    have ht2 : 2 ≤ hd.t := by have := okd.t_ok; omega
    have htop : (rd s.w.heap hd.root).elts.length ≤ maxKeys hd.t := by
      have := t3.top; rwa [absN_elts] at this
    obtain ⟨h', u, _, _, _⟩ := insertRoot_sim (c := hd.creator) ht2 hd.inOrder e t1 t2 (shape_of_wf t3 t1) htop t3.sorted
    simpa [Handle.insert, hm] using u.footprint

/-- `_delete` of tree `i` writes only cells created by that tree's token -/
theorem delete_footprint {s : Sess} (ok : SessOk s) (i : Nat) (k : Nat) (hd : Handle) (hi : s.hs[i]? = some hd) :
    Footprint hd.creator s.w.heap (s.step (.delete i k)).w.heap := by
  simp only [Sess.step, hi]
  have okd := ok.trees hd (List.mem_of_getElem? hi)
  obtain ⟨h, t1, t2, t3, t4, t5⟩ := okd.tree
  cases hm : hd.immutable with
  | true => simpa [Handle.delete, hm] using Footprint.refl hd.creator s.w.heap
  | false =>
    have ht2 : 2 ≤ hd.t := by have := okd.t_ok; omega
    have hpos : h ≠ 0 → 1 ≤ (rd s.w.heap hd.root).elts.length := by
      intro h0
      rcases t4 with hl | hp
      · have := (shape_isLeaf (shape_of_wf t3 t1)).mp hl; omega
      · rwa [absN_elts] at hp
    obtain ⟨h', u, _⟩ := deleteRoot_sim (c := hd.creator) ht2 hd.collapseAlways k t1 t2 t3 hpos
    have hfp := u.footprint
    unfold Handle.delete
    simp only [hm, Bool.false_eq_true, if_false]
    rcases hdr : hDeleteRoot hd.collapseAlways hd.t s.w.heap hd.creator hd.root k none with ⟨H', r, res⟩
    rw [hdr] at hfp
    cases res <;> exact hfp

/-- in the persistent reference an operation on tree `i` leaves every other tree as it is -/
theorem refStep_other (ts : List Tree) (op : Op) (j : Nat) (hj : j < ts.length)
    (hne : op.target ≠ some j) :
    (refStep ts op)[j]? = ts[j]? := by
  cases op with
  | new t io ca => simp [refStep, List.getElem?_append_left hj]
  | insert i e =>
    have hne' : i ≠ j := fun e => hne (by simp [Op.target, e])
    simp only [refStep]
    cases ts[i]? <;> simp [List.getElem?_set, hne']
  | delete i k =>
    have hne' : i ≠ j := fun e => hne (by simp [Op.target, e])
    simp only [refStep]
    cases ts[i]? <;> simp [List.getElem?_set, hne']
  | clone i io =>
    simp only [refStep]
    cases ts[i]? with
    | none => rfl
    | some tr =>
      cases hc : tr.clone io with
      | none => simp [hc]
      | some c => simp [hc, List.getElem?_append_left hj]
  | freeze i =>
    have hne' : i ≠ j := fun e => hne (by simp [Op.target, e])
    simp only [refStep]
    cases ts[i]? <;> simp [List.getElem?_set, hne']

end Model.BTreeCow

import Model.ZoneFile
import Proofs.ZoneFileFileG
import Proofs.ZoneFileCodecs
import Proofs.ZoneFileGenText
import Proofs.ZoneFileGenerate
/-!
The `$GENERATE` line at character level: the directive and its header are tokenised, the range is parsed, and the
loop feeds `txn.add` the records of the substituted texts; the file of explicit lines for the same records does the
same, so the two spellings load alike.
-/
namespace Model

/-! ## `dns.grange.from_text` on `start-stop[/step]` -/

theorem grangeLoop_digits (ds rest : List Nat) (start stop : Option Nat) (cur : List Nat) (st : Nat)
    (h : ds.all isDecimal = true) :
    grangeLoop (ds ++ rest) start stop cur st = grangeLoop rest start stop (cur ++ ds) st := by
  induction ds generalizing cur with
  | nil => simp
  | cons d r ih =>
    simp only [List.all_cons, Bool.and_eq_true] at h
    have hd : 48 ≤ d ∧ d ≤ 57 := by simpa [isDecimal] using h.1
    have h45 : d ≠ 45 := by omega
    have h47 : d ≠ 47 := by omega
    simp only [List.cons_append, grangeLoop, h45, false_and, if_false, h47, h.1, if_true]
    rw [ih _ h.2]
    simp

theorem intOfDigits_natToDec (n : Nat) : intOfDigits (natToDec n) = .ok n := by
  simp [intOfDigits, natToDec_ne_nil, digitsVal_natToDec]

/-- `a-b` -/
theorem grange_text (a b : Nat) (h : a ≤ b) :
    grangeFromText (natToDec a ++ 45 :: natToDec b) = .ok (a, b, 1) := by
  have hh := natToDec_head a
  have hne := natToDec_ne_nil a
  unfold grangeFromText
  have hloop : grangeLoop (natToDec a ++ 45 :: natToDec b) none none [] 0 = .ok (some a, none, natToDec b, 1) := by
    rw [grangeLoop_digits _ _ _ _ _ _ (natToDec_all a)]
    simp only [List.nil_append, grangeLoop, true_and, if_true, intOfDigits_natToDec]
    have := grangeLoop_digits (natToDec b) [] (some a) none [] 1 (natToDec_all b)
    simp only [List.append_nil, List.nil_append] at this
    rw [this]
    rfl
  cases hd : natToDec a with
  | nil => exact absurd hd hne
  | cons d r =>
    rw [hd] at hh hloop
    have h45 : d ≠ 45 := by simpa using hh.1
    simp only [List.cons_append]
    split
    · rename_i heq; simp at heq; exact absurd heq.1 h45
    · simp only [List.cons_append] at hloop
      simp only [hloop, intOfDigits_natToDec]
      have : ¬ a > b := by omega
      simp [this]

/-- `a-b/s` -/
theorem grange_text_step (a b s : Nat) (h : a ≤ b) (hs : 1 ≤ s) :
    grangeFromText (natToDec a ++ 45 :: (natToDec b ++ 47 :: natToDec s)) = .ok (a, b, s) := by
  have hh := natToDec_head a
  have hne := natToDec_ne_nil a
  unfold grangeFromText
  have hloop : grangeLoop (natToDec a ++ 45 :: (natToDec b ++ 47 :: natToDec s)) none none [] 0 =
      .ok (some a, some b, natToDec s, 2) := by
    rw [grangeLoop_digits _ _ _ _ _ _ (natToDec_all a)]
    simp only [List.nil_append, grangeLoop, true_and, if_true, intOfDigits_natToDec]
    rw [grangeLoop_digits _ _ _ _ _ _ (natToDec_all b)]
    have h1 : ¬ ((47 : Nat) = 45 ∧ (1 : Nat) = 0) := by omega
    simp only [List.nil_append, grangeLoop, h1, if_false, if_true, intOfDigits_natToDec]
    have := grangeLoop_digits (natToDec s) [] (some a) (some b) [] 2 (natToDec_all s)
    simp only [List.append_nil, List.nil_append] at this
    rw [this]
    rfl
  cases hd : natToDec a with
  | nil => exact absurd hd hne
  | cons d r =>
    rw [hd] at hh hloop
    have h45 : d ≠ 45 := by simpa using hh.1
    simp only [List.cons_append]
    split
    · rename_i heq; simp at heq; exact absurd heq.1 h45
    · simp only [List.cons_append] at hloop
      simp only [hloop, intOfDigits_natToDec]
      have h1 : ¬ a > b := by omega
      have h2 : ¬ s < 1 := by omega
      simp [h1, h2]

/-! ## the directive and its header -/

theorem lineStep_generate_dir (r : PState) (T : List Nat) (hT : startsDelim T)
    (htok : r.tok = after 0 false (s2l "$GENERATE" ++ T)) :
    lineStep r = .ok (.generate, { r with tok := after 0 false T }) := by
  have hg := get_first_ident (s2l "$GENERATE") T (by decide) (by decide) hT
  unfold lineStep
  simp only [bind, Except.bind, liftT, htok, hg]
  have h1 : (identToken (s2l "$GENERATE")).ttype ≠ .eof := by simp [identToken]
  have h2 : (identToken (s2l "$GENERATE")).ttype ≠ .eol := by simp [identToken]
  have h3 : (identToken (s2l "$GENERATE")).ttype ≠ .comment := by simp [identToken]
  have hval : (identToken (s2l "$GENERATE")).value = s2l "$GENERATE" := rfl
  have h4 : (s2l "$GENERATE").head? = some 36 := by decide
  have h5 : directiveOf (s2l "$GENERATE") = s2l "$GENERATE" := by decide
  have h6 : s2l "$GENERATE" ≠ s2l "$TTL" := by decide
  have h7 : s2l "$GENERATE" ≠ s2l "$ORIGIN" := by decide
  simp only [h1, h2, h3, hval, h4, h5, h6, h7, if_false, if_true, pure, Except.pure]

/-- the text of a `$GENERATE` header after the directive token: ` range lhs ttl class type rhs` -/
def genHeaderText (rangeT lhs ttlT clsT tyT rhs : List Nat) (T : List Nat) : List Nat :=
  32 :: (rangeT ++ (32 :: (lhs ++ (32 :: (ttlT ++ (32 :: (clsT ++ (32 :: (tyT ++ (32 :: (rhs ++ T)))))))))))

theorem genNextIdent_field (w T : List Nat) (hw : identOK w = true) (hne : w ≠ []) (hT : startsDelim T) :
    genNextIdent (after 0 false (32 :: (w ++ T))) = .ok (identToken w, after 0 false T) := by
  have hg := get_field [32] w T sp_blank hw hne hT
  simp only [List.cons_append, List.nil_append] at hg
  simp [genNextIdent, bind, Except.bind, liftT, wrapSyntax, hg, identToken, Token.isIdentifier, pure, Except.pure]

/-- `_generate_line` up to the loop, on a fully spelled header -/
theorem generateParse_line (r : PState) (rangeT lhs ttlT clsT tyT rhs T : List Nat) (a b st ttl ty : Nat) (lm rm : Modify)
    (hco : r.currentOrigin.isNone = false)
    (htok : r.tok = after 0 false (genHeaderText rangeT lhs ttlT clsT tyT rhs T)) (hT : startsDelim T)
    (k1 : TokOK rangeT) (k2 : TokOK lhs) (k3 : TokOK ttlT) (k4 : TokOK clsT) (k5 : TokOK tyT) (k6 : TokOK rhs)
    (hrange : grangeFromText rangeT = .ok (a, b, st)) (httl : ttlOf ttlT = some ttl)
    (hcls : classFromText clsT = some 1) (hty : typeFromText tyT = some ty)
    (hlm : parseModify lhs = some lm) (hrm : parseModify rhs = some rm) :
    generateParse r = .ok (⟨ttl, ty, generateExpansion a b st lhs rhs lm rm⟩,
      { r with tok := after 0 false T, lastTTL := ttl, lastTTLKnown := true }) := by
  unfold genHeaderText at htok
  have g1 := get_field [32] rangeT (32 :: (lhs ++ (32 :: (ttlT ++ (32 :: (clsT ++ (32 :: (tyT ++ (32 :: (rhs ++ T))))))))))
    sp_blank k1.ok k1.ne (sp_startsDelim _)
  simp only [List.cons_append, List.nil_append] at g1
  have g2 := genNextIdent_field lhs (32 :: (ttlT ++ (32 :: (clsT ++ (32 :: (tyT ++ (32 :: (rhs ++ T)))))))) k2.ok k2.ne (sp_startsDelim _)
  have g3 := genNextIdent_field ttlT (32 :: (clsT ++ (32 :: (tyT ++ (32 :: (rhs ++ T)))))) k3.ok k3.ne (sp_startsDelim _)
  have g4 := get_field [32] clsT (32 :: (tyT ++ (32 :: (rhs ++ T)))) sp_blank k4.ok k4.ne (sp_startsDelim _)
  have g5 := get_field [32] tyT (32 :: (rhs ++ T)) sp_blank k5.ok k5.ne (sp_startsDelim _)
  have g6 := get_field [32] rhs T sp_blank k6.ok k6.ne hT
  simp only [List.cons_append, List.nil_append] at g4 g5 g6
  unfold generateParse
  simp only [hco, Bool.false_eq_true, if_false, bind, Except.bind, liftT, htok, g1, identToken, hrange, pure, Except.pure]
  simp only [identToken] at g2 g3 g4 g5 g6
  simp only [g2, g3, httl, g4, Token.isIdentifier, beq_self_eq_true, Bool.not_true, Bool.false_eq_true, if_false, hcls,
    wrapSyntax, g5, ne_eq, not_true_eq_false, hty, g6, hlm, hrm]

/-! ## the loop -/

/-- `last_name` after the loop -/
def lastNameAfter (nOf : List Nat × List Nat → Name) : Option Name → List (List Nat × List Nat) → Option Name
  | ln, [] => ln
  | _, item :: rest => lastNameAfter nOf (some (nOf item)) rest

theorem generateLoop_records (ttl ty : Nat) (items : List (List Nat × List Nat)) (r : PState)
    (e : List Nat × List Nat → Option Entry) (nOf : List Nat × List Nat → Name)
    (h : ∀ item ∈ items, ∀ ln, genItem ttl ty item { r with lastName := ln } =
      .ok (e item, { r with lastName := some (nOf item) }))
    (z : ZoneMap) :
    generateLoop ttl ty items r z =
      (addAll r.effOrigin z (items.filterMap e)).map fun z' =>
        ({ r with lastName := lastNameAfter nOf r.lastName items }, z') := by
  induction items generalizing r z with
  | nil => simp [generateLoop, addAll, Except.map, lastNameAfter, pure, Except.pure]
  | cons item rest ih =>
    have h0 := h item (by simp) r.lastName
    have hr : ({ r with lastName := r.lastName } : PState) = r := rfl
    rw [hr] at h0
    have heff : ({ r with lastName := some (nOf item) } : PState).effOrigin = r.effOrigin := rfl
    have h' : ∀ it ∈ rest, ∀ ln, genItem ttl ty it { ({ r with lastName := some (nOf item) } : PState) with lastName := ln } =
        .ok (e it, { ({ r with lastName := some (nOf item) } : PState) with lastName := some (nOf it) }) :=
      fun it hit ln => h it (by simp [hit]) ln
    cases he : e item with
    | none =>
      rw [he] at h0
      simp only [generateLoop, bind, Except.bind, h0, List.filterMap_cons, he, lastNameAfter]
      rw [ih { r with lastName := some (nOf item) } h' z, heff]
    | some en =>
      rw [he] at h0
      simp only [generateLoop, bind, Except.bind, h0, List.filterMap_cons, he, addAll, lastNameAfter]
      rw [heff]
      cases ha : addEntry z r.effOrigin en with
      | error err => rfl
      | ok z1 =>
        simp only
        rw [ih { r with lastName := some (nOf item) } h' z1, heff]

/-- a line that only holds the newline -/
theorem lineStep_eol (r : PState) (rest : List Nat) (htok : r.tok = after 0 false (10 :: rest)) :
    lineStep r = .ok (.nothing, { r with tok := after 0 false rest }) := by
  unfold lineStep
  simp [htok, after, TState.get, skipWs, getLoop, stepChar, stepMain, isDelim, delimiters, liftT, bind, Except.bind,
    pure, Except.pure]

/-- **a `$GENERATE` line**: what it does to the zone is the fold of `txn.add` over the records of its indices, and the
parser goes on after the line with the TTL remembered and the last owner generated -/
theorem readLoop_generate (f : Nat) (r : PState) (z : ZoneMap) (rangeT lhs ttlT clsT tyT rhs rest : List Nat)
    (a b st ttl ty : Nat) (lm rm : Modify) (e : List Nat × List Nat → Option Entry) (nOf : List Nat × List Nat → Name)
    (hco : r.currentOrigin.isNone = false)
    (htok : r.tok = after 0 false (s2l "$GENERATE" ++ genHeaderText rangeT lhs ttlT clsT tyT rhs (10 :: rest)))
    (k1 : TokOK rangeT) (k2 : TokOK lhs) (k3 : TokOK ttlT) (k4 : TokOK clsT) (k5 : TokOK tyT) (k6 : TokOK rhs)
    (hrange : grangeFromText rangeT = .ok (a, b, st)) (httl : ttlOf ttlT = some ttl)
    (hcls : classFromText clsT = some 1) (hty : typeFromText tyT = some ty)
    (hlm : parseModify lhs = some lm) (hrm : parseModify rhs = some rm)
    (hitems : ∀ item ∈ generateExpansion a b st lhs rhs lm rm, ∀ ln,
      genItem ttl ty item { r with tok := after 0 false (10 :: rest), lastTTL := ttl, lastTTLKnown := true, lastName := ln } =
        .ok (e item, { r with tok := after 0 false (10 :: rest), lastTTL := ttl, lastTTLKnown := true,
                              lastName := some (nOf item) })) :
    readLoop (f + 2) r z =
      (addAll r.effOrigin z ((generateExpansion a b st lhs rhs lm rm).filterMap e)).bind fun z' =>
        readLoop f { r with tok := after 0 false rest, lastTTL := ttl, lastTTLKnown := true,
                            lastName := lastNameAfter nOf r.lastName (generateExpansion a b st lhs rhs lm rm) } z' := by
  have hdir := lineStep_generate_dir r (genHeaderText rangeT lhs ttlT clsT tyT rhs (10 :: rest)) (sp_startsDelim _) htok
  have hparse := generateParse_line { r with tok := after 0 false (genHeaderText rangeT lhs ttlT clsT tyT rhs (10 :: rest)) }
    rangeT lhs ttlT clsT tyT rhs (10 :: rest) a b st ttl ty lm rm hco rfl ⟨10, rest, rfl, by decide⟩ k1 k2 k3 k4 k5 k6
    hrange httl hcls hty hlm hrm
  have hloop := generateLoop_records ttl ty (generateExpansion a b st lhs rhs lm rm)
    { r with tok := after 0 false (10 :: rest), lastTTL := ttl, lastTTLKnown := true } e nOf hitems z
  have heff : ({ r with tok := after 0 false (10 :: rest), lastTTL := ttl, lastTTLKnown := true } : PState).effOrigin =
      r.effOrigin := rfl
  rw [heff] at hloop
  simp only [readLoop, readStep, bind, Except.bind, hdir, generateLine, hparse, hloop]
  cases hadd : addAll r.effOrigin z ((generateExpansion a b st lhs rhs lm rm).filterMap e) with
  | error err => rfl
  | ok z' =>
    simp only [Except.map, pure, Except.pure]
    have heol := lineStep_eol
      { r with tok := after 0 false (10 :: rest), lastTTL := ttl, lastTTLKnown := true,
               lastName := lastNameAfter nOf r.lastName (generateExpansion a b st lhs rhs lm rm) } rest rfl
    simp only [heol]

/-! ## a run of record lines in the middle of a file -/

def finalStateR : List GLine → List Nat → PState → PState
  | [], _, r => r
  | l :: ls, rest, r => finalStateR ls rest (afterG r l (glinesText ls ++ rest))

theorem readLoop_prefix_G (ls : List GLine) (rest : List Nat) (r : PState) (z : ZoneMap) (co zo : Name) (f : Nat)
    (hco : r.currentOrigin = some co) (hzo : r.zoneOrigin = some zo)
    (htok : r.tok = after 0 false (glinesText ls ++ rest)) (d : Option Nat)
    (hd : ∀ d', d = some d' → r.defaultTTLKnown = true ∧ r.defaultTTL = d')
    (hok : LinesOK co zo r.relativize r.gfix r.lastName d ls) :
    readLoop (f + ls.length) r z =
      (addAll r.effOrigin z (ls.map GLine.entry)).bind fun z' => readLoop f (finalStateR ls rest r) z' := by
  induction ls generalizing r z with
  | nil => simp [addAll, Except.bind, finalStateR]
  | cons l ls ih =>
    obtain ⟨h1, h2, h3, h4⟩ := hok
    have hinh : l.hdr.hasTTL = false → r.inheritedTTL = some l.ttl := by
      intro hh
      obtain ⟨k1, k2⟩ := hd l.ttl (h3 hh)
      simp [PState.inheritedTTL, k1, k2]
    have hstep := lineStep_G r l (glinesText ls ++ rest) co zo hco hzo
      (by simpa [glinesText, List.append_assoc] using htok) h1 (fun ho => h2 ho) hinh
    have e : f + (l :: ls).length = (f + ls.length) + 1 := by simp; omega
    rw [e]
    simp only [readLoop, readStep, bind, Except.bind, hstep, List.map_cons, addAll, finalStateR]
    obtain ⟨f1, f2, f3, f4, f5, f6, f7⟩ := afterG_fields r l (glinesText ls ++ rest)
    rw [afterG_eff]
    cases ha : addEntry z r.effOrigin l.entry with
    | error err => rfl
    | ok z1 =>
      simp only [pure, Except.pure]
      rw [ih (afterG r l (glinesText ls ++ rest)) z1 (f2 ▸ hco) (f3 ▸ hzo) f1
        (fun d' hd' => by
          obtain ⟨k1, k2⟩ := hd d' hd'
          obtain ⟨g1, g2⟩ := f7 k1
          exact ⟨g1, g2.trans k2⟩)
        (by rw [f4, f5, f6]; exact h4), afterG_eff]
      rfl

theorem soaDefault_other (r : PState) (ty : Nat) (rd : Rdata) (h : ty ≠ tSOA) : soaDefault r ty rd = r := by
  simp [soaDefault, h]

/-- lines that all write the same TTL explicitly and are not SOAs -/
def UniformLines (ttl : Nat) (ls : List GLine) : Prop := ∀ l ∈ ls, l.hdr.hasTTL = true ∧ l.ttl = ttl ∧ l.ty ≠ tSOA

def lastN : Option Name → List GLine → Option Name
  | ln, [] => ln
  | _, l :: ls => lastN (some l.n) ls

theorem finalStateR_uniform (ls : List GLine) (rest : List Nat) (r : PState) (ttl : Nat) (hne : ls ≠ [])
    (hu : UniformLines ttl ls) :
    finalStateR ls rest r =
      { r with tok := after 0 false rest, lastName := lastN r.lastName ls, lastTTL := ttl, lastTTLKnown := true } := by
  induction ls generalizing r with
  | nil => exact absurd rfl hne
  | cons l ls ih =>
    obtain ⟨u1, u2, u3⟩ := hu l (by simp)
    have hafter : afterG r l (glinesText ls ++ rest) =
        { r with tok := after 0 false (glinesText ls ++ rest), lastName := some l.n, lastTTL := ttl, lastTTLKnown := true } := by
      unfold afterG
      rw [soaDefault_other _ _ _ u3]
      simp [u1, u2]
    simp only [finalStateR, hafter, lastN]
    cases ls with
    | nil => simp [finalStateR, glinesText, lastN]
    | cons l2 ls2 =>
      rw [ih _ (by simp) (fun x hx => hu x (by simp [hx]))]

/-- **`$GENERATE` versus its expansion, as text**: the line `$GENERATE range lhs ttl class type rhs` and the file of
explicit record lines for the same records (same TTL written out, in index order) lead the reader to the same zone
and the same parser state, whatever follows in the file. -/
theorem generate_eq_lines (f : Nat) (r : PState) (z : ZoneMap) (co zo : Name)
    (rangeT lhs ttlT clsT tyT rhs rest : List Nat) (a b st ttl ty : Nat) (lm rm : Modify)
    (e : List Nat × List Nat → Option Entry) (nOf : List Nat × List Nat → Name) (ls : List GLine)
    (hco : r.currentOrigin = some co) (hzo : r.zoneOrigin = some zo)
    (k1 : TokOK rangeT) (k2 : TokOK lhs) (k3 : TokOK ttlT) (k4 : TokOK clsT) (k5 : TokOK tyT) (k6 : TokOK rhs)
    (hrange : grangeFromText rangeT = .ok (a, b, st)) (httl : ttlOf ttlT = some ttl)
    (hcls : classFromText clsT = some 1) (hty : typeFromText tyT = some ty)
    (hlm : parseModify lhs = some lm) (hrm : parseModify rhs = some rm)
    (hitems : ∀ item ∈ generateExpansion a b st lhs rhs lm rm, ∀ ln,
      genItem ttl ty item { r with tok := after 0 false (10 :: rest), lastTTL := ttl, lastTTLKnown := true, lastName := ln } =
        .ok (e item, { r with tok := after 0 false (10 :: rest), lastTTL := ttl, lastTTLKnown := true,
                              lastName := some (nOf item) }))
    (hls : ls.map GLine.entry = (generateExpansion a b st lhs rhs lm rm).filterMap e) (hne : ls ≠ [])
    (hok : LinesOK co zo r.relativize r.gfix r.lastName none ls) (hu : UniformLines ttl ls)
    (hlast : lastN r.lastName ls = lastNameAfter nOf r.lastName (generateExpansion a b st lhs rhs lm rm)) :
    readLoop (f + 2)
        { r with tok := after 0 false (s2l "$GENERATE" ++ genHeaderText rangeT lhs ttlT clsT tyT rhs (10 :: rest)) } z =
    readLoop (f + ls.length) { r with tok := after 0 false (glinesText ls ++ rest) } z := by
  have hG := readLoop_generate f
    { r with tok := after 0 false (s2l "$GENERATE" ++ genHeaderText rangeT lhs ttlT clsT tyT rhs (10 :: rest)) } z
    rangeT lhs ttlT clsT tyT rhs rest a b st ttl ty lm rm e nOf (by simp [hco]) rfl
    k1 k2 k3 k4 k5 k6 hrange httl hcls hty hlm hrm hitems
  have hL := readLoop_prefix_G ls rest { r with tok := after 0 false (glinesText ls ++ rest) } z co zo f hco hzo rfl none
    (by intro d' h; cases h) hok
  rw [finalStateR_uniform ls rest _ ttl hne hu, hls, hlast] at hL
  exact hG.trans hL.symm

/-! ## a run of `$ORIGIN` directives before the lines -/

/-- `$ORIGIN t₁⏎ … $ORIGIN tₙ⏎` -/
def originsText : List (List Nat × Name) → List Nat
  | [] => []
  | d :: ds => s2l "$ORIGIN " ++ (d.1 ++ 10 :: originsText ds)

/-- the current origin after the run: the name of the last directive -/
def lastOrigin : Option Name → List (List Nat × Name) → Option Name
  | co, [] => co
  | _, d :: ds => lastOrigin (some d.2) ds

/-- each directive names its origin with an identifier token that — completed with the origin current at that point
(commit c444c98) — reads as an absolute name -/
def OriginsOK : Option Name → List (List Nat × Name) → Prop
  | _, [] => True
  | co, d :: ds => identOK d.1 = true ∧ d.1 ≠ [] ∧ (identToken d.1).asName co false none = .ok d.2 ∧ isAbs d.2 = true ∧
      OriginsOK (some d.2) ds

/-- **any run of `$ORIGIN` directives** in a file whose zone origin is known moves the current origin to the last name
given and leaves everything else — the zone origin in particular — as it was -/
theorem readLoop_origin_dirs (ds : List (List Nat × Name)) (rest : List Nat) (r : PState) (z : ZoneMap) (zo : Name)
    (f : Nat) (hzo : r.zoneOrigin = some zo) (htok : r.tok = after 0 false (originsText ds ++ rest))
    (hok : OriginsOK r.currentOrigin ds) :
    readLoop (f + ds.length) r z =
      readLoop f { r with tok := after 0 false rest, currentOrigin := lastOrigin r.currentOrigin ds } z := by
  induction ds generalizing r with
  | nil =>
    simp only [originsText, List.nil_append] at htok
    simp only [List.length_nil, Nat.add_zero, lastOrigin]
    congr 1
    cases r; simp only at htok; subst htok; rfl
  | cons d ds ih =>
    obtain ⟨o1, o2, o3, o4, o5⟩ := hok
    have hstep := lineStep_origin_dir r d.1 d.2 (originsText ds ++ rest) o1 o2 o3 o4
      (by simpa [originsText, List.append_assoc] using htok)
    have e : f + (d :: ds).length = (f + ds.length) + 1 := by simp; omega
    rw [e]
    simp only [readLoop, readStep, bind, Except.bind, hstep, pure, Except.pure]
    rw [ih { r with tok := after 0 false (originsText ds ++ rest), currentOrigin := some d.2,
                    zoneOrigin := originAfter r.zoneOrigin d.2 }
      (by simp [hzo, originAfter]) rfl o5]
    simp only [lastOrigin, hzo, originAfter]

end Model

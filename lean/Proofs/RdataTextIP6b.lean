import Proofs.RdataTextIP6a
/-! IPv6 text codec, part 2: `":".join` / `split(":")` theory and the canonicalisation loop (C05). -/
namespace Model

abbrev J := joinWith 58

theorem joinWith_cons_cons (sep : Nat) (x y : List Nat) (r : List (List Nat)) :
    joinWith sep (x :: y :: r) = x ++ sep :: joinWith sep (y :: r) := rfl

theorem joinWith_append (sep : Nat) (a b : List (List Nat)) (ha : a ≠ []) (hb : b ≠ []) :
    joinWith sep (a ++ b) = joinWith sep a ++ sep :: joinWith sep b := by
  induction a with
  | nil => exact absurd rfl ha
  | cons x xs ih =>
    cases xs with
    | nil =>
      cases b with
      | nil => exact absurd rfl hb
      | cons y ys => simp [joinWith]
    | cons z zs =>
      have := ih (by simp)
      simp only [List.cons_append] at this ⊢
      rw [joinWith_cons_cons, this, joinWith_cons_cons]
      simp

theorem reverse_joinWith (sep : Nat) (cs : List (List Nat)) :
    (joinWith sep cs).reverse = joinWith sep (cs.reverse.map List.reverse) := by
  induction cs with
  | nil => rfl
  | cons x xs ih =>
    cases xs with
    | nil => simp [joinWith]
    | cons y ys =>
      rw [joinWith_cons_cons, List.reverse_append, List.reverse_cons, ih]
      have : (x :: y :: ys).reverse.map List.reverse = (y :: ys).reverse.map List.reverse ++ [x.reverse] := by simp
      rw [this, joinWith_append _ _ _ (by simp) (by simp)]
      simp [joinWith]

theorem splitOn_joinWith (sep : Nat) (cs : List (List Nat)) (hne : cs ≠ []) (h : ∀ c ∈ cs, sep ∉ c) :
    splitOn sep (joinWith sep cs) = cs := by
  induction cs with
  | nil => exact absurd rfl hne
  | cons x xs ih =>
    cases xs with
    | nil => simpa [joinWith] using splitOn_no_sep sep x (h x (by simp))
    | cons y ys =>
      rw [joinWith_cons_cons, splitOn_append_sep sep x _ (h x (by simp)), ih (by simp) (fun c hc => h c (by simp [hc]))]

/-! ## first / last characters -/

def HexStart (t : List Nat) : Prop := ∃ x r, t = x :: r ∧ isHexL x = true

theorem hexStart_facts (t : List Nat) (h : HexStart t) :
    t ≠ [] ∧ startsWith t [58] = false ∧ startsWith t [58, 58] = false ∧ startsWith t [10] = false ∧ t ≠ [58, 58] := by
  obtain ⟨x, r, rfl, hx⟩ := h
  have h58 : x ≠ 58 := by intro e; subst e; simp [isHexL] at hx
  have h10 : x ≠ 10 := by intro e; subst e; simp [isHexL] at hx
  refine ⟨by simp, by simp [startsWith, h58], ?_, by simp [startsWith, h10], by simp [h58]⟩
  cases r with
  | nil => simp [startsWith]
  | cons y ys => simp [startsWith, h58]

theorem hexChunk_hexStart (c : List Nat) (h : HexChunk c) (rest : List Nat) : HexStart (c ++ rest) := by
  obtain ⟨hne, _, hall⟩ := h
  cases c with
  | nil => exact absurd rfl hne
  | cons x xs => exact ⟨x, xs ++ rest, rfl, hall x (by simp)⟩

theorem hexChunk_reverse (c : List Nat) (h : HexChunk c) : HexChunk c.reverse := by
  obtain ⟨hne, hl, hall⟩ := h
  exact ⟨by simpa using hne, by simpa using hl, fun x hx => hall x (by simpa using hx)⟩

theorem J_cons_hexStart (c : List Nat) (h : HexChunk c) (rest : List (List Nat)) : HexStart (J (c :: rest)) := by
  cases rest with
  | nil => simpa [J, joinWith] using hexChunk_hexStart c h []
  | cons y ys => rw [show J (c :: y :: ys) = c ++ 58 :: J (y :: ys) from rfl]; exact hexChunk_hexStart c h _

/-- the last chunk is a hex chunk: the text ends with a hex digit -/
theorem J_hexEnd (init : List (List Nat)) (c : List Nat) (h : HexChunk c) : HexStart (J (init ++ [c])).reverse := by
  rw [show J (init ++ [c]) = joinWith 58 (init ++ [c]) from rfl, reverse_joinWith]
  simp only [List.reverse_append, List.reverse_cons, List.reverse_nil, List.nil_append, List.map_cons, List.singleton_append]
  exact J_cons_hexStart _ (hexChunk_reverse c h) _

theorem endsWith_false_of_hexEnd (t : List Nat) (h : HexStart t.reverse) :
    endsWith t [58] = false ∧ endsWith t [58, 58] = false ∧ endsWith t [10] = false := by
  obtain ⟨_, a, b, c, _⟩ := hexStart_facts _ h
  exact ⟨by simpa [endsWith] using a, by simpa [endsWith] using b, by simpa [endsWith] using c⟩

/-! ## chunks without `:` `.` or newline -/

def CleanChunks (L : List (List Nat)) : Prop := ∀ c ∈ L, 58 ∉ c ∧ 46 ∉ c ∧ 10 ∉ c

theorem hexChunk_clean (c : List Nat) (h : HexChunk c) : 58 ∉ c ∧ 46 ∉ c ∧ 10 ∉ c :=
  ⟨hexChunk_no c h 58 (by decide), hexChunk_no c h 46 (by decide), hexChunk_no c h 10 (by decide)⟩

theorem nil_clean : (58 : Nat) ∉ ([] : List Nat) ∧ (46 : Nat) ∉ ([] : List Nat) ∧ (10 : Nat) ∉ ([] : List Nat) := by simp

theorem J_contains10 (L : List (List Nat)) (h : CleanChunks L) : (J L).contains 10 = false := by
  induction L with
  | nil => rfl
  | cons x xs ih =>
    have hx := h x (by simp)
    cases xs with
    | nil => simpa [J, joinWith] using hx.2.2
    | cons y ys =>
      have := ih (fun c hc => h c (by simp [hc]))
      rw [show J (x :: y :: ys) = x ++ 58 :: J (y :: ys) from rfl]
      simp only [List.contains_eq_mem, List.mem_append, List.mem_cons, decide_eq_false_iff_not] at this ⊢
      intro hm
      rcases hm with hm | hm | hm
      · exact hx.2.2 hm
      · omega
      · exact this hm

theorem notDotted_of_noDot (g : List Nat) (h : 46 ∉ g) : isDottedQuadShape g = false := by
  unfold isDottedQuadShape
  rw [splitOn_no_sep 46 g h]
  simp

/-- the `_v4_ending` pattern does not match a colon-joined list of dot-free chunks -/
theorem v4Ending_none (L : List (List Nat)) (hne : L ≠ []) (h : CleanChunks L) (hnl : endsWith (J L) [10] = false) :
    v4Ending (J L) = .ok none := by
  unfold v4Ending dropFinalNewline
  simp only [hnl, Bool.false_eq_true, if_false]
  unfold splitLast
  rw [show J L = joinWith 58 L from rfl, splitOn_joinWith 58 L hne (fun c hc => (h c hc).1)]
  cases hr : L.reverse with
  | nil => simp
  | cons last revInit =>
    cases revInit with
    | nil => simp
    | cons p ps =>
      have hlast : last ∈ L := by
        have : last ∈ L.reverse := by rw [hr]; simp
        simpa using this
      simp only
      split
      · rfl
      · simp [notDotted_of_noDot last (h last hlast).2.1]

/-! ## the canonicalisation loop -/

def Padable (L : List (List Nat)) : Prop := ∀ c ∈ L, c ≠ [] ∧ c.length ≤ 4

theorem ip6Canon_noempty (l : Nat) (cs : List (List Nat)) (b : Bool) (h : Padable cs) :
    ip6Canon l cs b = some (cs.map pad4) := by
  induction cs with
  | nil => rfl
  | cons c rest ih =>
    obtain ⟨hne, hl⟩ := h c (by simp)
    have hl' : ¬ c.length > 4 := by omega
    simp [ip6Canon, hne, hl', ih (fun x hx => h x (by simp [hx]))]

theorem ip6Canon_one_empty (l : Nat) (P Q : List (List Nat)) (hP : Padable P) (hQ : Padable Q) :
    ip6Canon l (P ++ [] :: Q) false
      = some (P.map pad4 ++ (List.replicate (8 - l + 1) [48, 48, 48, 48] ++ Q.map pad4)) := by
  induction P with
  | nil => simp [ip6Canon, ip6Canon_noempty l Q true hQ]
  | cons c rest ih =>
    obtain ⟨hne, hl⟩ := hP c (by simp)
    have hl' : ¬ c.length > 4 := by omega
    simp [ip6Canon, hne, hl', ih (fun x hx => hP x (by simp [hx]))]

theorem hexChunks_padable (L : List (List Nat)) (h : ∀ c ∈ L, HexChunk c) : Padable L :=
  fun c hc => ⟨(h c hc).1, (h c hc).2.1⟩

theorem hexChunks_clean (L : List (List Nat)) (h : ∀ c ∈ L, HexChunk c) : CleanChunks L :=
  fun c hc => hexChunk_clean c (h c hc)

theorem contains_nil_of_mem (P Q : List (List Nat)) : (P ++ [] :: Q).contains [] = true := by
  simp

end Model

import Model.RdataSchema
import Proofs.RdataBytes
import Proofs.RdataName
/-! generic theorems of the RDATA schema codec (C02), by induction on schemas -/
namespace Model

theorem wireLen_pos (n : Name) (h : n ≠ []) : 1 ≤ wireLen n := by
  cases n with
  | nil => exact absurd rfl h
  | cons l ls => simp [wireLen]; omega

theorem nameEnc_pos (rel : Bool) (o : Option Name) (n : Name) (h : nameValid rel o n = true) :
    1 ≤ (nameEnc o n).length := by
  unfold nameEnc
  rw [toWire_length]
  apply wireLen_pos
  unfold nameValid at h
  cases o with
  | none =>
    simp only [Bool.and_eq_true] at h
    have := (isAbs_iff n).1 h.2
    simp only [h.2, if_true]
    intro h0; simp [h0] at this
  | some org =>
    simp only [Bool.and_eq_true] at h
    have hao := h.1.2
    have hne : org ≠ [] := by intro h'; simp [h', isAbs] at hao
    by_cases ha : isAbs n = true
    · simp only [ha, if_true]
      have := (isAbs_iff n).1 ha
      intro h0; simp [h0] at this
    · simp only [ha, Bool.false_eq_true, if_false, Option.getD_some]
      intro h0; simp at h0; exact hne h0.2

theorem minLen_le (o : Option Name) : ∀ (s : Schema) (v : Val), valid s o v = true → minLen s ≤ (enc s o v).length := by
  intro s
  induction s with
  | unit => intro v _; simp [minLen]
  | fail => intro v _; simp [minLen]
  | uint k => intro v h; cases v <;> simp [valid, validWith] at h; simp [minLen, enc, natBE_length]
  | fixed n => intro v h; cases v <;> simp [valid, validWith] at h; simp [minLen, enc, h]
  | counted k => intro v h; cases v <;> simp [valid, validWith] at h; simp [minLen, enc, natBE_length]
  | rest => intro v _; simp [minLen]
  | optCounted k => intro v _; simp [minLen]
  | name rel =>
    intro v h; cases v <;> simp [valid, validWith] at h
    simp only [minLen, enc]; exact nameEnc_pos rel o _ h
  | pair a b iha ihb =>
    intro v h; cases v <;> simp [valid, validWith] at h
    rename_i x y
    have h1 := iha x (by simpa [valid] using h.1)
    have h2 := ihb y (by simpa [valid] using h.2)
    simp [minLen, enc]; omega
  | rep s _ => intro v _; simp [minLen]
  | sub k s _ => intro v _; simp [minLen, enc, natBE_length]
  | check f s ih =>
    intro v h; simp [valid, validWith] at h
    have := ih v (by simpa [valid] using h.1)
    simpa [minLen, enc] using this
  | bind hdr sel n alts ih _ =>
    intro v h; cases v <;> simp [valid, validWith] at h
    rename_i x y
    have := ih x (by simpa [valid] using h.1.1)
    simp [minLen, enc]; omega

theorem all_range_mono {n : Nat} {p q : Nat → Bool} (h : ∀ i, p i = true → q i = true)
    (hp : (List.range n).all p = true) : (List.range n).all q = true := by
  rw [List.all_eq_true] at *
  intro i hi; exact h i (hp i hi)

theorem sd_wf : ∀ s : Schema, sd s = true → wf s = true := by
  intro s
  induction s with
  | unit | fail | uint _ | fixed _ | counted _ | name _ => intro _; simp [wf, sdwf]
  | rest | optCounted _ => intro h; simp [sd, sdwf] at h
  | pair a b _ ihb =>
    intro h; simp [sd, wf, sdwf] at *
    exact ⟨h.1, ihb h.2⟩
  | rep s _ => intro h; simp [sd, sdwf] at h
  | sub k s _ => intro h; simpa only [sd, wf, sdwf] using h
  | check f s ih => intro h; simp [sd, wf, sdwf] at *; exact ih h
  | bind hdr sel n alts _ iha =>
    intro h; simp only [sd, wf, sdwf, Bool.and_eq_true] at *
    exact ⟨h.1, all_range_mono (fun i hi => iha i hi) h.2⟩

theorem all_range_get {n : Nat} {p : Nat → Bool} (hp : (List.range n).all p = true) (i : Nat) (hi : i < n) :
    p i = true := by
  rw [List.all_eq_true] at hp
  exact hp i (by simp [hi])

/-- the repeat loop over a concatenation of encodings of self-delimiting, non-empty items -/
theorem repLoop_enc (o : Option Name) (s : Schema)
    (hs : ∀ v, valid s o v = true → ∀ pfx tl, dec s o pfx (enc s o v ++ tl) = .ok (v, pfx ++ enc s o v, tl))
    (hmin : 1 ≤ minLen s) :
    ∀ (vs : List Val), (∀ v ∈ vs, valid s o v = true) → ∀ (fuel : Nat) (pfx : Bytes),
      (vs.flatMap (enc s o)).length ≤ fuel →
      repLoop (dec s o) fuel pfx (vs.flatMap (enc s o)) = .ok (vs, pfx ++ vs.flatMap (enc s o), []) := by
  intro vs
  induction vs with
  | nil => intro _ fuel pfx _; simp [repLoop]
  | cons v vs ih =>
    intro hv fuel pfx hf
    have hv1 := hv v (by simp)
    have hlen := minLen_le o s v hv1
    simp only [List.flatMap_cons] at hf ⊢
    have hne : (enc s o v ++ vs.flatMap (enc s o)) ≠ [] := by
      intro h0; have := congrArg List.length h0
      rw [List.length_append, List.length_nil] at this; omega
    obtain ⟨x, xs, hx⟩ := List.exists_cons_of_ne_nil hne
    cases fuel with
    | zero => rw [List.length_append] at hf; omega
    | succ fuel =>
      rw [hx, repLoop, ← hx, hs v hv1 pfx _]
      simp only
      rw [ih (fun w hw => hv w (by simp [hw])) fuel _ (by rw [List.length_append] at hf; omega)]
      simp

/-- the two halves proved together: `sd` schemas decode their encoding in front of any continuation,
`wf` schemas decode their encoding when nothing follows -/
def RT (o : Option Name) (s : Schema) : Prop :=
  (sd s = true → ∀ v, valid s o v = true → ∀ pfx tl, dec s o pfx (enc s o v ++ tl) = .ok (v, pfx ++ enc s o v, tl)) ∧
  (wf s = true → ∀ v, valid s o v = true → ∀ pfx, dec s o pfx (enc s o v) = .ok (v, pfx ++ enc s o v, []))

theorem RT_of_sd (o : Option Name) (s : Schema)
    (h : ∀ v, valid s o v = true → ∀ pfx tl, dec s o pfx (enc s o v ++ tl) = .ok (v, pfx ++ enc s o v, tl)) : RT o s :=
  ⟨fun _ => h, fun _ v hv pfx => by simpa using h v hv pfx []⟩

theorem counted_rt (o : Option Name) (k : Nat) (b pfx tl : Bytes) (h : b.length < 256 ^ k) :
    dec (.counted k) o pfx (natBE k b.length ++ b ++ tl) = .ok (.bytes b, pfx ++ (natBE k b.length ++ b), tl) := by
  simp only [dec]
  rw [List.append_assoc, takeN_append' k _ _ _ (natBE_length k _)]
  simp only [beNat_natBE k _ h]
  rw [takeN_append]
  simp

theorem dec_optCounted_ne (o : Option Name) (k : Nat) (pfx rem : Bytes) (h : rem ≠ []) :
    dec (.optCounted k) o pfx rem = dec (.counted k) o pfx rem := by
  simp only [dec, h, if_false]

theorem rt_all (o : Option Name) : ∀ s : Schema, RT o s := by
  intro s
  induction s with
  | unit =>
    apply RT_of_sd; intro v hv pfx tl
    cases v <;> simp [valid, validWith] at hv
    simp [dec, enc]
  | fail =>
    apply RT_of_sd; intro v hv
    cases v <;> simp [valid, validWith] at hv
  | uint k =>
    apply RT_of_sd; intro v hv pfx tl
    cases v <;> simp [valid, validWith] at hv
    simp only [dec, enc]
    rw [takeN_append' k _ _ _ (natBE_length k _)]
    simp [beNat_natBE k _ hv]
  | fixed n =>
    apply RT_of_sd; intro v hv pfx tl
    cases v <;> simp [valid, validWith] at hv
    simp only [dec, enc]
    rw [takeN_append' n _ _ _ hv]
  | counted k =>
    apply RT_of_sd; intro v hv pfx tl
    cases v <;> simp [valid, validWith] at hv
    simp only [enc]
    exact counted_rt o k _ pfx tl hv
  | rest =>
    refine ⟨fun h => by simp [sd, sdwf] at h, fun _ v hv pfx => ?_⟩
    cases v <;> simp [valid, validWith] at hv
    simp [dec, enc]
  | optCounted k =>
    refine ⟨fun h => by simp [sd, sdwf] at h, fun _ v hv pfx => ?_⟩
    cases v <;> simp [valid, validWith] at hv
    rename_i b
    simp only [enc]
    by_cases hb : b = []
    · simp [hb, dec]
    · have hne : natBE k b.length ++ b ≠ [] := by simp [hb]
      simp only [hb, if_false]
      rw [dec_optCounted_ne o k pfx _ hne]
      have := counted_rt o k b pfx [] hv
      simpa using this
  | name rel =>
    apply RT_of_sd; intro v hv pfx tl
    cases v <;> simp [valid, validWith] at hv
    simp only [dec, enc]
    exact getName_enc rel o _ hv pfx tl
  | pair a b iha ihb =>
    constructor
    · intro hsd v hv pfx tl
      simp only [sd, sdwf, Bool.and_eq_true] at hsd
      cases v <;> simp [valid, validWith] at hv
      rename_i x y
      simp only [dec, enc, List.append_assoc]
      rw [iha.1 hsd.1 x (by simpa [valid] using hv.1) pfx _]
      simp only
      rw [ihb.1 hsd.2 y (by simpa [valid] using hv.2) _ tl]
      simp
    · intro hwf v hv pfx
      simp only [wf, sdwf, Bool.and_eq_true] at hwf
      cases v <;> simp [valid, validWith] at hv
      rename_i x y
      simp only [dec, enc]
      rw [iha.1 hwf.1 x (by simpa [valid] using hv.1) pfx _]
      simp only
      rw [ihb.2 hwf.2 y (by simpa [valid] using hv.2) _]
      simp
  | rep s ih =>
    refine ⟨fun h => by simp [sd, sdwf] at h, fun hwf v hv pfx => ?_⟩
    simp only [wf, sdwf, Bool.and_eq_true, decide_eq_true_eq] at hwf
    cases v <;> simp [valid, validWith] at hv
    rename_i vs
    simp only [dec, enc]
    rw [repLoop_enc o s (ih.1 hwf.1) hwf.2 vs (fun v hv' => by simpa [valid] using hv v hv') _ pfx (Nat.le_refl _)]
  | sub k s ih =>
    have key : wf s = true → ∀ v, valid (.sub k s) o v = true → ∀ pfx tl,
        dec (.sub k s) o pfx (enc (.sub k s) o v ++ tl) = .ok (v, pfx ++ enc (.sub k s) o v, tl) := by
      intro hwf v hv pfx tl
      simp only [valid, validWith, Bool.and_eq_true, decide_eq_true_eq] at hv
      simp only [dec, enc]
      rw [List.append_assoc, takeN_append' k _ _ _ (natBE_length k _)]
      simp only [beNat_natBE k _ hv.2]
      rw [takeN_append]
      simp only
      rw [ih.2 hwf v (by simpa [valid] using hv.1) _]
      simp
    constructor
    · intro hsd
      have h1 : wf s = true := by
        simp only [sd, sdwf, Bool.and_eq_true] at hsd; exact hsd.1
      exact key h1
    · intro hwf v hv pfx
      have h1 : wf s = true := by
        simp only [wf, sdwf, Bool.and_eq_true] at hwf; exact hwf.1
      have := key h1 v hv pfx []
      simpa using this
  | check f s ih =>
    constructor
    · intro hsd v hv pfx tl
      simp only [valid, validWith, Bool.and_eq_true] at hv
      simp only [dec, enc]
      rw [ih.1 (by simpa [sd, sdwf] using hsd) v (by simpa [valid] using hv.1) pfx tl]
      simp [hv.2]
    · intro hwf v hv pfx
      simp only [valid, validWith, Bool.and_eq_true] at hv
      simp only [dec, enc]
      rw [ih.2 (by simpa [wf, sdwf] using hwf) v (by simpa [valid] using hv.1) pfx]
      simp [hv.2]
  | bind hdr sel n alts ihh iha =>
    constructor
    · intro hsd v hv pfx tl
      simp only [sd, sdwf, Bool.and_eq_true] at hsd
      cases v <;> simp [valid, validWith] at hv
      rename_i x y
      simp only [dec, enc, List.append_assoc]
      rw [ihh.1 hsd.1 x (by simpa [valid] using hv.1.1) pfx _]
      simp only [hv.1.2, if_true]
      rw [(iha (sel x)).1 (all_range_get hsd.2 _ hv.1.2) y (by simpa [valid] using hv.2) _ tl]
      simp
    · intro hwf v hv pfx
      simp only [wf, sdwf, Bool.and_eq_true] at hwf
      cases v <;> simp [valid, validWith] at hv
      rename_i x y
      simp only [dec, enc]
      rw [ihh.1 hwf.1 x (by simpa [valid] using hv.1.1) pfx _]
      simp only [hv.1.2, if_true]
      rw [(iha (sel x)).2 (all_range_get hwf.2 _ hv.1.2) y (by simpa [valid] using hv.2) _]
      simp

end Model

import Model.Resolver
import Proofs.Resolver
import Proofs.ResolverStep
import Proofs.ResolverRun
/-!
Helper lemmas for C16, part 6: classification of the result of a resolution by its last step,
and "the first acceptable answer ends the resolution".
-/
set_option linter.unusedSimpArgs false
namespace Model.Resolver
open Model

/-- a query whose outcome is an acceptable answer: a NOERROR response that survives `resolve_chaining` -/
def evAcceptable (env : Env) : Event → Bool
  | .query q _ _ _ (.resp r) =>
    r.rcode == rcNOERROR &&
      (match resolveChaining env.maxChain r q env.rdclass env.rdtype with
       | .ok _ => true
       | .error _ => false)
  | _ => false

theorem evAcceptable_of_query {env : Env} {st : St} {ns : Server} {tcp : Bool} {t : Nat} {out : Outcome}
    (h : evAcceptable env (.query st.qname ns tcp t out) = true) : ∃ a, acceptable env st ns out a := by
  cases out with
  | exc k => simp [evAcceptable] at h
  | resp r =>
    simp only [evAcceptable, Bool.and_eq_true, beq_iff_eq] at h
    obtain ⟨h1, h2⟩ := h
    unfold acceptable mkAnswer
    cases hc : resolveChaining env.maxChain r st.qname env.rdclass env.rdtype with
    | error e => simp [hc] at h2
    | ok c => exact ⟨_, r, rfl, h1, by rw [hc]⟩

/-- the documented outcomes, each with the condition under which it is the result; `evs` is the whole event list of
the resolution and `st'` the final state -/
def Classified (env : Env) (evs : List Event) (r : Result) (st' : St) : Prop :=
  (∀ ev ∈ evs.dropLast, evAcceptable env ev = false) ∧
  match r with
  | .answer a =>
    (a.hasRRset = true ∨ env.raiseOnNoAnswer = false) ∧
    ((∃ pre q ns tcp t r0, evs = pre ++ [.query q ns tcp t (.resp r0)] ∧ r0.rcode = rcNOERROR ∧
        mkAnswer env.maxChain q env.rdtype env.rdclass env.rdclass env.rdtype r0 (some ns.id) st'.now = .ok a) ∨
     (env.cfg.cacheOn = true ∧
        ∃ q ∈ env.qnamesToTry, cacheGet st'.cache (mkKey q env.rdtype env.rdclass) st'.now = some a))
  | .noAnswer =>
    env.raiseOnNoAnswer = true ∧
    ((∃ pre q ns tcp t r0 a, evs = pre ++ [.query q ns tcp t (.resp r0)] ∧ r0.rcode = rcNOERROR ∧
        mkAnswer env.maxChain q env.rdtype env.rdclass env.rdclass env.rdtype r0 (some ns.id) st'.now = .ok a ∧
        a.hasRRset = false) ∨
     (env.cfg.cacheOn = true ∧
        ∃ q ∈ env.qnamesToTry, ∃ a, cacheGet st'.cache (mkKey q env.rdtype env.rdclass) st'.now = some a ∧
          a.hasRRset = false))
  | .yxdomain => ∃ pre q ns tcp t r0, evs = pre ++ [.query q ns tcp t (.resp r0)] ∧ r0.rcode = rcYXDOMAIN
  | .noNameservers => st'.phase = .querying ∧ st'.nameservers = [] ∧ st'.current = []
  | .lifetimeTimeout => env.lifetime ≤ st'.now - env.start
  | .nxdomain qs _ => qs = env.qnamesToTry
  | .nameError _ => False
  | .noMetaqueries => False
  | .outOfFuel => False

theorem mem_dropLast_append {α : Type} {pre s : List α} {x : α} (h : x ∈ (pre ++ s).dropLast) :
    x ∈ pre ∨ x ∈ s.dropLast := by
  by_cases hs : s = []
  · subst hs
    simp only [List.append_nil] at h
    exact Or.inl (List.dropLast_subset _ h)
  · rw [List.dropLast_append_of_ne_nil hs] at h
    exact List.mem_append.mp h

/-- one pass of the inner loop that goes on: nothing acceptable was seen, and a TCP retry has its server -/
theorem afterPick_class_cont {env : Env} {ns : Server} {tcp : Bool} {b : Nat} {st1 : St} {evs : List Event}
    {st' : St} (hcur : st1.nameserver = some ns) (h : afterPick env st1.qname ns tcp b st1 = .cont evs st') :
    (∀ ev ∈ evs, evAcceptable env ev = false) ∧ st'.nameserver = some ns := by
  unfold afterPick at h
  simp only at h
  split at h
  · cases h
  · rename_i timeout hto
    split at h
    · cases h
    · cases h
    · rename_i done st4 hq
      have hna := queryResult_class.2.2.2 done st4 hq
      obtain ⟨hf, _, _⟩ := queryResult_ret_frame hq
      obtain ⟨f1, f2, f3, f4, f5, _⟩ := hf
      simp only at f5
      cases h
      refine ⟨?_, by cases done <;> simp [f5, hcur]⟩
      intro ev hev
      rcases List.mem_append.mp hev with hev | hev
      · split at hev
        · simp only [List.mem_singleton] at hev; subst hev; rfl
        · cases hev
      · simp only [List.mem_singleton] at hev
        subst hev
        cases hacc : evAcceptable env _ with
        | false => rfl
        | true =>
          obtain ⟨a, ha⟩ := evAcceptable_of_query (st := { st1 with now := st1.now + sleepFor env b st1.now + (doQuery st1.script timeout).2.1, script := (doQuery st1.script timeout).2.2 }) hacc
          exact absurd ha (hna a)

theorem evs0_not_acceptable (env : Env) (b ms : Nat) :
    ∀ ev ∈ (if b ≠ 0 then [Event.sleep ms] else []), evAcceptable env ev = false := by
  intro ev hev
  split at hev
  · simp only [List.mem_singleton] at hev; subst hev; rfl
  · cases hev

/-- one pass of the inner loop that ends the resolution -/
theorem afterPick_class_done {env : Env} {ns : Server} {tcp : Bool} {b : Nat} {st1 : St} {evs : List Event}
    {r : Result} {st' : St} (h : afterPick env st1.qname ns tcp b st1 = .done evs r st') :
    (∀ ev ∈ evs.dropLast, evAcceptable env ev = false) ∧
    ((r = .lifetimeTimeout ∧ env.lifetime ≤ st'.now - env.start) ∨
     (∃ a e0 t r0, r = .answer a ∧ evs = e0 ++ [.query st1.qname ns tcp t (.resp r0)] ∧ r0.rcode = rcNOERROR ∧
        mkAnswer env.maxChain st1.qname env.rdtype env.rdclass env.rdclass env.rdtype r0 (some ns.id) st'.now = .ok a ∧
        (a.hasRRset = true ∨ env.raiseOnNoAnswer = false)) ∨
     (∃ a e0 t r0, r = .noAnswer ∧ evs = e0 ++ [.query st1.qname ns tcp t (.resp r0)] ∧ r0.rcode = rcNOERROR ∧
        mkAnswer env.maxChain st1.qname env.rdtype env.rdclass env.rdclass env.rdtype r0 (some ns.id) st'.now = .ok a ∧
        a.hasRRset = false ∧ env.raiseOnNoAnswer = true) ∨
     (∃ e0 t r0, r = .yxdomain ∧ evs = e0 ++ [.query st1.qname ns tcp t (.resp r0)] ∧ r0.rcode = rcYXDOMAIN)) := by
  unfold afterPick at h
  simp only at h
  split at h
  · rename_i hto
    cases h
    refine ⟨fun ev hev => evs0_not_acceptable env b _ ev (List.dropLast_subset _ hev), Or.inl ⟨rfl, ?_⟩⟩
    unfold computeTimeout at hto
    simp only at hto
    split at hto
    · assumption
    · cases hto
  · rename_i timeout hto
    have hdl : ∀ (x : Event), ∀ ev ∈ ((if b ≠ 0 then [Event.sleep (sleepFor env b st1.now)] else []) ++ [x]).dropLast,
        evAcceptable env ev = false := by
      intro x ev hev
      rw [List.dropLast_concat] at hev
      exact evs0_not_acceptable env b _ ev hev
    split at h
    · rename_i r' st4 hq
      cases h
      refine ⟨hdl _, ?_⟩
      obtain ⟨hf, _, _, _, hr⟩ := queryResult_raise hq
      have hnow : st'.now = st1.now + sleepFor env b st1.now + (doQuery st1.script timeout).2.1 := hf.2.2.2.2.2.2.2.1
      rcases hr with rfl | rfl
      · obtain ⟨a, ⟨r0, h1, h2, h3⟩, h4, h5⟩ := queryResult_class.2.1 st' hq
        right; right; left
        refine ⟨a, _, timeout, r0, rfl, by rw [h1], h2, ?_, h4, h5⟩
        rw [hnow]; exact h3
      · obtain ⟨r0, h1, h2⟩ := queryResult_class.2.2.1 st' hq
        right; right; right
        exact ⟨_, timeout, r0, rfl, by rw [h1], h2⟩
    · rename_i a d st4 hq
      cases h
      refine ⟨hdl _, ?_⟩
      obtain ⟨⟨r0, h1, h2, h3⟩, h4, _⟩ := queryResult_class.1 a d st' hq
      have hnow : st'.now = st1.now + sleepFor env b st1.now + (doQuery st1.script timeout).2.1 :=
        (queryResult_ret_frame hq).1.2.2.2.2.2.2.2.1
      right; left
      refine ⟨a, _, timeout, r0, rfl, by rw [h1], h2, ?_, h4⟩
      rw [hnow]; exact h3
    · cases h

def InvC (env : Env) (pre : List Event) (st : St) : Prop :=
  (∀ ev ∈ pre, evAcceptable env ev = false) ∧ (∀ q ∈ st.qnames, q ∈ env.qnamesToTry) ∧
  (st.phase = .querying → st.retryWithTcp = true → ∃ p, st.nameserver = some p)

theorem step_class (env : Env) (pre : List Event) (st : St) (hinv : InvC env pre st) :
    (∀ evs st', step env st = .cont evs st' → InvC env (pre ++ evs) st') ∧
    (∀ evs r st', step env st = .done evs r st' → Classified env (pre ++ evs) r st') := by
  obtain ⟨hpre, hqs, hret⟩ := hinv
  have hdl0 : ∀ ev ∈ (pre ++ ([] : List Event)).dropLast, evAcceptable env ev = false := by
    intro ev hev
    simp only [List.append_nil] at hev
    exact hpre ev (List.dropLast_subset _ hev)
  unfold step
  split
  · rename_i hphase
    have hs := nextRequest_spec env st.qnames st
    split
    · rename_i r hr
      rw [hr] at hs
      refine ⟨(fun _ _ h => by cases h), ?_⟩
      intro evs r' st' h
      cases h
      refine ⟨hdl0, ?_⟩
      rcases hs with ⟨h1, h2, h3, q, hq, a, ha, hna⟩ | ⟨nx, h1, _, _⟩
      · rw [h1]
        exact ⟨h3, Or.inr ⟨h2, q, hqs q hq, a, ha, hna⟩⟩
      · rw [h1]
    · rename_i a hr
      rw [hr] at hs
      refine ⟨(fun _ _ h => by cases h), ?_⟩
      intro evs r' st' h
      cases h
      obtain ⟨h1, h2, q, hq, ha⟩ := hs
      exact ⟨hdl0, h2, Or.inr ⟨h1, q, hqs q hq, ha⟩⟩
    · rename_i st2 hr
      rw [hr] at hs
      refine ⟨?_, (fun _ _ _ h => by cases h)⟩
      intro evs st' h
      cases h
      obtain ⟨⟨skipped, e1, _⟩, _, p1, p2, p3, p4, _⟩ := hs
      refine ⟨?_, ?_, fun _ h => by rw [p4] at h; cases h⟩
      · intro ev hev
        rcases List.mem_append.mp hev with hev | hev
        · exact hpre ev hev
        · simp only [List.mem_singleton] at hev; subst hev; rfl
      · intro q hq
        apply hqs
        rw [e1]
        exact List.mem_append_right _ (List.mem_cons_of_mem _ hq)
  · rename_i hphase
    split
    · rename_i r hr
      refine ⟨(fun _ _ h => by cases h), ?_⟩
      intro evs r' st' h
      cases h
      obtain ⟨h1, h2⟩ := nextNameserver_raise hr
      refine ⟨hdl0, ?_⟩
      rw [h1]
      rcases h2 with ⟨_, c2, c3⟩ | ⟨c1, c2⟩
      · exact ⟨hphase, c3, c2⟩
      · obtain ⟨p, hp⟩ := hret hphase c1
        rw [c2] at hp; cases hp
    · rename_i ns tcp b st1 hns
      obtain ⟨⟨g1, g2, g3, g4, g5, g6, g7, g8⟩, r1, r2, r3, _⟩ := nextNameserver_ok hns
      rw [← g3]
      refine ⟨?_, ?_⟩
      · intro evs st' h
        obtain ⟨c1, c2⟩ := afterPick_class_cont r3 h
        obtain ⟨_, _, a3, _⟩ := afterPick_cont h
        refine ⟨?_, ?_, fun _ _ => ⟨ns, c2⟩⟩
        · intro ev hev
          rcases List.mem_append.mp hev with hev | hev
          · exact hpre ev hev
          · exact c1 ev hev
        · rw [a3, g2]; exact hqs
      · intro evs r st' h
        obtain ⟨d1, d2⟩ := afterPick_class_done h
        refine ⟨?_, ?_⟩
        · intro ev hev
          rcases mem_dropLast_append hev with hev | hev
          · exact hpre ev hev
          · exact d1 ev hev
        · rcases d2 with ⟨rfl, h2⟩ | ⟨a, e0, t, r0, rfl, h2, h3, h4, h5⟩ | ⟨a, e0, t, r0, rfl, h2, h3, h4, h5, h6⟩ |
            ⟨e0, t, r0, rfl, h2, h3⟩
          · exact h2
          · exact ⟨h5, Or.inl ⟨pre ++ e0, st1.qname, ns, tcp, t, r0, by rw [h2]; simp, h3, h4⟩⟩
          · exact ⟨h6, Or.inl ⟨pre ++ e0, st1.qname, ns, tcp, t, r0, a, by rw [h2]; simp, h3, h4, h5⟩⟩
          · exact ⟨pre ++ e0, st1.qname, ns, tcp, t, r0, by rw [h2]; simp, h3⟩

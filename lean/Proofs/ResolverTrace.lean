import Model.Resolver
import Proofs.Resolver
import Proofs.ResolverStep
import Proofs.ResolverRun
/-!
Helper lemmas for C16, part 5: a monitor over the event trace of a resolution
(a broken server is never asked again for the same candidate; a truncated UDP reply is followed at once by one TCP
query to the same server; TCP is used only when asked for, forced by the nameserver, or as that retry)
and the proof that every run of the model is accepted by it.
-/
set_option linter.unusedSimpArgs false
namespace Model.Resolver
open Model

structure MonSt where
  broken : List Server        -- servers that proved broken for the current candidate
  pending : Option Server     -- its UDP reply was truncated: the TCP retry is due now
  deriving Repr

/-- TCP is used for the retry after a truncated UDP reply (to that very server), and otherwise exactly when the
caller asked for it or the nameserver always uses maximum-size transport -/
def tcpGuard (env : Env) (pending : Option Server) (s : Server) (tcp : Bool) : Bool :=
  match pending with
  | some p => s == p && tcp
  | none => tcp == (env.tcp || s.alwaysMax)

def monStep (env : Env) (m : MonSt) : Event → Option MonSt
  | .candidate _ => if m.pending.isSome then none else some { broken := [], pending := none }
  | .sleep _ => if m.pending.isSome then none else some m
  | .query q s tcp _ out =>
    if s ∈ m.broken then none
    else if tcpGuard env m.pending s tcp then
      some { broken := if provesBroken env q tcp out then s :: m.broken else m.broken,
             pending := if out = .exc .truncated ∧ tcp = false then some s else none }
    else none

def monAll (env : Env) : MonSt → List Event → Option MonSt
  | m, [] => some m
  | m, e :: es =>
    match monStep env m e with
    | none => none
    | some m' => monAll env m' es

theorem monAll_append (env : Env) : ∀ (m : MonSt) (a b : List Event),
    monAll env m (a ++ b) = (monAll env m a).bind (fun m' => monAll env m' b)
  | m, [], b => by simp [monAll]
  | m, e :: es, b => by
    simp only [List.cons_append, monAll]
    cases monStep env m e with
    | none => simp
    | some m' => simp [monAll_append env m' es b]

/-- how the monitor state mirrors the resolution state -/
def Rel (m : MonSt) (st : St) : Prop :=
  match st.phase with
  | .needRequest => m.pending = none
  | .querying =>
    st.nameservers.Nodup ∧ st.current.Nodup ∧ (∀ s ∈ st.current, s ∈ st.nameservers) ∧
    (∀ s ∈ m.broken, s ∉ st.nameservers) ∧
    (st.retryWithTcp = false → m.pending = none) ∧
    (st.retryWithTcp = true → ∃ p, st.nameserver = some p ∧ m.pending = some p ∧ p ∈ st.nameservers ∧ p ∉ st.current)

theorem afterPick_mon (env : Env) (q : Name) (ns : Server) (tcp : Bool) (b : Nat) (st1 : St) (m : MonSt)
    (hphase : st1.phase = .querying) (hq : st1.qname = q)
    (hnd : st1.nameservers.Nodup) (hcd : st1.current.Nodup) (hsub : ∀ s ∈ st1.current, s ∈ st1.nameservers)
    (hbr : ∀ s ∈ m.broken, s ∉ st1.nameservers) (hns : ns ∈ st1.nameservers) (hnc : ns ∉ st1.current)
    (hretry : st1.retryWithTcp = false) (htcp : st1.tcpAttempt = tcp) (hcur : st1.nameserver = some ns)
    (hguard : tcpGuard env m.pending ns tcp = true)
    (hsleep : b ≠ 0 → m.pending = none) :
    ∃ m', monAll env m (afterPick env q ns tcp b st1).evs = some m' ∧
      ∀ evs st', afterPick env q ns tcp b st1 = .cont evs st' → Rel m' st' := by
  have hnb : ns ∉ m.broken := fun h => hbr ns h hns
  -- the monitor after the optional sleep
  have hsl : monAll env m (if b ≠ 0 then [Event.sleep (sleepFor env b st1.now)] else []) = some m := by
    split
    · rename_i hb
      simp [monAll, monStep, hsleep hb]
    · simp [monAll]
  unfold afterPick
  simp only
  split
  · exact ⟨m, by simpa [StepR.evs] using hsl, fun _ _ h => by cases h⟩
  · rename_i timeout hto
    generalize hdq : doQuery st1.script timeout = dq
    -- the monitor accepts the query
    let m1 : MonSt := { broken := if provesBroken env q tcp dq.1 then ns :: m.broken else m.broken,
                        pending := if dq.1 = .exc .truncated ∧ tcp = false then some ns else none }
    have hqm : monStep env m (.query q ns tcp timeout dq.1) = some m1 := by
      simp only [monStep, hnb, if_false, hguard, if_true, m1]
    have hall : monAll env m ((if b ≠ 0 then [Event.sleep (sleepFor env b st1.now)] else [])
        ++ [.query q ns tcp timeout dq.1]) = some m1 := by
      rw [monAll_append, hsl]
      simp [monAll, hqm]
    split
    · exact ⟨m1, by simpa [StepR.evs] using hall, fun _ _ h => by cases h⟩
    · exact ⟨m1, by simpa [StepR.evs] using hall, fun _ _ h => by cases h⟩
    · rename_i done st4 hqr
      refine ⟨m1, by simpa [StepR.evs] using hall, ?_⟩
      intro evs st' h
      obtain ⟨hf, _, _⟩ := queryResult_ret_frame hqr
      obtain ⟨f1, f2, f3, f4, f5, f6, f7, f8, f9⟩ := hf
      obtain ⟨b1, b2, b3⟩ := queryResult_broken hqr
      simp only at f1 f2 f3 f4 f5 f6 f7 f8 f9 b1 b2 b3
      rw [hq, htcp] at b1 b2
      rw [hretry, htcp] at b3
      cases h
      cases done
      · -- the inner loop goes on with the same candidate
        simp only [Bool.false_eq_true, if_false]
        unfold Rel
        rw [f1, hphase]
        simp only
        cases hpb : provesBroken env q tcp dq.1
        · -- server kept
          have hsame := b2 hpb
          refine ⟨by rw [hsame]; exact hnd, by rw [f4]; exact hcd, ?_, ?_, ?_, ?_⟩
          · intro s hs; rw [f4] at hs; rw [hsame]; exact hsub s hs
          · intro s hs; simp only [m1, hpb, Bool.false_eq_true, if_false] at hs; rw [hsame]; exact hbr s hs
          · intro hr
            rw [b3] at hr
            simp only [m1]
            simp only [Bool.false_or, Bool.and_eq_false_imp, decide_eq_true_eq, Bool.not_eq_false'] at hr
            by_cases ht : dq.1 = .exc .truncated
            · have := hr ht
              simp [ht, this]
            · simp [ht]
          · intro hr
            rw [b3] at hr
            simp only [Bool.false_or, Bool.and_eq_true, decide_eq_true_eq, Bool.not_eq_true'] at hr
            refine ⟨ns, by rw [f5]; exact hcur, by simp [m1, hr.1, hr.2], by rw [hsame]; exact hns,
              by rw [f4]; exact hnc⟩
        · -- server removed
          have hrem := b1 hpb
          have htr : ¬ (dq.1 = .exc .truncated ∧ tcp = false) := by
            intro ⟨h1, h2⟩
            rw [h1, h2] at hpb
            simp [provesBroken] at hpb
          refine ⟨by rw [hrem]; exact hnd.erase ns, by rw [f4]; exact hcd, ?_, ?_, ?_, ?_⟩
          · intro s hs
            rw [f4] at hs
            rw [hrem, hnd.mem_erase_iff]
            exact ⟨fun h => hnc (h ▸ hs), hsub s hs⟩
          · intro s hs
            simp only [m1, hpb, if_true] at hs
            rw [hrem]
            rcases List.mem_cons.mp hs with rfl | hs
            · exact hnd.not_mem_erase
            · exact fun h => hbr s hs (List.mem_of_mem_erase h)
          · intro _
            simp only [m1, htr, if_false]
          · intro hr
            rw [b3] at hr
            simp only [Bool.false_or, Bool.and_eq_true, decide_eq_true_eq, Bool.not_eq_true'] at hr
            exact absurd (And.intro hr.1 hr.2) htr
      · -- NXDOMAIN recorded: back to next_request
        simp only [if_true]
        unfold Rel
        simp only
        have hnx : ¬ (dq.1 = .exc .truncated ∧ tcp = false) := by
          intro ⟨h1, _⟩
          rw [h1] at hqr
          unfold queryResult at hqr
          simp only at hqr
          split at hqr <;> cases hqr
        simp only [m1, hnx, if_false]

theorem step_mon (env : Env) (hnodup : env.cfg.servers.Nodup) (st : St) (m : MonSt) (hrel : Rel m st) :
    ∃ m', monAll env m (step env st).evs = some m' ∧ ∀ evs st', step env st = .cont evs st' → Rel m' st' := by
  unfold Rel at hrel
  unfold step
  split
  · rename_i hphase
    rw [hphase] at hrel
    simp only at hrel
    have hs := nextRequest_spec env st.qnames st
    split
    · exact ⟨m, by simp [StepR.evs, monAll], fun _ _ h => by cases h⟩
    · exact ⟨m, by simp [StepR.evs, monAll], fun _ _ h => by cases h⟩
    · rename_i st2 hr
      rw [hr] at hs
      obtain ⟨_, _, p1, p2, p3, p4, _, _, _, _, _, _⟩ := hs
      refine ⟨{ broken := [], pending := none }, by simp [StepR.evs, monAll, monStep, hrel], ?_⟩
      intro evs st' h
      cases h
      unfold Rel
      rw [p1]
      simp only
      refine ⟨by rw [p2]; exact hnodup, by rw [p3]; exact hnodup, by rw [p2, p3]; exact fun s hs => hs,
        by simp, fun _ => trivial, fun h => by rw [p4] at h; cases h⟩
  · rename_i hphase
    rw [hphase] at hrel
    simp only at hrel
    obtain ⟨hnd, hcd, hsub, hbr, hp0, hp1⟩ := hrel
    split
    · exact ⟨m, by simp [StepR.evs, monAll], fun _ _ h => by cases h⟩
    · rename_i ns tcp b st1 hns
      obtain ⟨⟨g1, g2, g3, g4, g5, g6, g7, g8⟩, r1, r2, r3, hcase⟩ := nextNameserver_ok hns
      rcases hcase with c | c | c
      · -- TCP retry
        obtain ⟨c1, c2, c3, c4, c5, c6⟩ := c
        obtain ⟨p, q1, q2, q3, q4⟩ := hp1 c1
        have hpn : p = ns := by rw [q1] at c2; cases c2; rfl
        subst hpn
        exact afterPick_mon env st.qname p tcp b st1 m (by rw [g1]; exact hphase) g3 (by rw [g5]; exact hnd)
          (by rw [c5]; exact hcd) (by rw [c5, g5]; exact hsub) (by rw [g5]; exact hbr) (by rw [g5]; exact q3)
          (by rw [c5]; exact q4) r1 r2 r3 (by simp [tcpGuard, q2, c3]) (by intro h; exact absurd c4 h)
      · -- next server of the round
        obtain ⟨c1, c2, c3, c4, c5⟩ := c
        have hcd' := hcd
        rw [c2] at hcd'
        obtain ⟨hn1, hn2⟩ := List.nodup_cons.mp hcd'
        exact afterPick_mon env st.qname ns tcp b st1 m (by rw [g1]; exact hphase) g3 (by rw [g5]; exact hnd)
          hn2 (by rw [g5]; intro s hs; exact hsub s (by rw [c2]; exact List.mem_cons_of_mem _ hs))
          (by rw [g5]; exact hbr) (by rw [g5]; exact hsub ns (by rw [c2]; simp)) hn1 r1 r2 r3
          (by simp [tcpGuard, hp0 c1, c5]) (by intro h; exact absurd c3 h)
      · -- re-arming
        obtain ⟨c1, c2, c3, c4, c5, c6⟩ := c
        have hnd' := hnd
        rw [c3] at hnd'
        obtain ⟨hn1, hn2⟩ := List.nodup_cons.mp hnd'
        exact afterPick_mon env st.qname ns tcp b st1 m (by rw [g1]; exact hphase) g3 (by rw [g5]; exact hnd)
          hn2 (by rw [g5, c3]; intro s hs; exact List.mem_cons_of_mem _ hs)
          (by rw [g5]; exact hbr) (by rw [g5, c3]; simp) hn1 r1 r2 r3
          (by simp [tcpGuard, hp0 c1, c6]) (by intro _; exact hp0 c1)

/-- every run of the model is accepted by the monitor -/
theorem run_mon (env : Env) (hnodup : env.cfg.servers.Nodup) :
    ∀ fuel st m, Rel m st → ∃ m', monAll env m (run env fuel st).1 = some m'
  | 0, st, m, _ => ⟨m, by simp [run, monAll]⟩
  | fuel + 1, st, m, hrel => by
    obtain ⟨m1, h1, h2⟩ := step_mon env hnodup st m hrel
    unfold run
    split
    · rename_i evs r st' hs
      rw [hs] at h1
      exact ⟨m1, by simpa [StepR.evs] using h1⟩
    · rename_i evs st' hs
      rw [hs] at h1
      simp only [StepR.evs] at h1
      obtain ⟨m2, hm2⟩ := run_mon env hnodup fuel st' m1 (h2 evs st' hs)
      exact ⟨m2, by simp [monAll_append, h1, hm2]⟩

/-! ## reading the clauses off an accepted trace -/

def isCandidate : Event → Bool
  | .candidate _ => true
  | _ => false

theorem monStep_broken_mono {env : Env} {m m' : MonSt} {e : Event} (h : monStep env m e = some m')
    (hc : isCandidate e = false) : ∀ x ∈ m.broken, x ∈ m'.broken := by
  cases e with
  | candidate _ => simp [isCandidate] at hc
  | sleep _ =>
    simp only [monStep] at h
    split at h
    · cases h
    · cases h; exact fun x hx => hx
  | query q s tcp t out =>
    simp only [monStep] at h
    split at h
    · cases h
    · split at h
      · cases h
        intro x hx
        simp only
        split
        · exact List.mem_cons_of_mem _ hx
        · exact hx
      · cases h

theorem monAll_broken_mono {env : Env} : ∀ {es : List Event} {m m' : MonSt}, monAll env m es = some m' →
    (∀ e ∈ es, isCandidate e = false) → ∀ x ∈ m.broken, x ∈ m'.broken
  | [], m, m', h, _ => by simp [monAll] at h; subst h; exact fun x hx => hx
  | e :: es, m, m', h, hc => by
    simp only [monAll] at h
    split at h
    · cases h
    · rename_i m1 h1
      intro x hx
      exact monAll_broken_mono h (fun e' he' => hc e' (List.mem_cons_of_mem _ he')) x
        (monStep_broken_mono h1 (hc e (by simp)) x hx)

theorem monAll_cons_some {env : Env} {m m' : MonSt} {e : Event} {es : List Event}
    (h : monAll env m (e :: es) = some m') : ∃ m1, monStep env m e = some m1 ∧ monAll env m1 es = some m' := by
  simp only [monAll] at h
  split at h
  · cases h
  · rename_i m1 h1; exact ⟨m1, h1, h⟩

theorem monAll_append_some {env : Env} {m m' : MonSt} {a b : List Event}
    (h : monAll env m (a ++ b) = some m') : ∃ m1, monAll env m a = some m1 ∧ monAll env m1 b = some m' := by
  rw [monAll_append] at h
  cases h1 : monAll env m a with
  | none => simp [h1] at h
  | some m1 => exact ⟨m1, rfl, by simpa [h1] using h⟩

/-- in an accepted trace, a server that proved broken is not queried again before the next candidate name -/
theorem mon_broken_not_reasked {env : Env} {m m' : MonSt} {pre mid post : List Event}
    {q q' : Name} {s s' : Server} {tcp tcp' : Bool} {t t' : Nat} {out out' : Outcome}
    (h : monAll env m (pre ++ .query q s tcp t out :: (mid ++ .query q' s' tcp' t' out' :: post)) = some m')
    (hb : provesBroken env q tcp out = true) (hmid : ∀ e ∈ mid, isCandidate e = false) : s' ≠ s := by
  obtain ⟨m1, _, h1⟩ := monAll_append_some h
  obtain ⟨m2, h2, h3⟩ := monAll_cons_some h1
  obtain ⟨m3, h4, h5⟩ := monAll_append_some h3
  obtain ⟨m4, h6, _⟩ := monAll_cons_some h5
  have hs2 : s ∈ m2.broken := by
    simp only [monStep] at h2
    split at h2
    · cases h2
    · split at h2
      · cases h2; simp [hb]
      · cases h2
  have hs3 : s ∈ m3.broken := monAll_broken_mono h4 hmid s hs2
  intro heq
  subst heq
  simp only [monStep, hs3, if_true] at h6
  cases h6

/-- in an accepted trace, the event right after a truncated UDP reply is a TCP query to the same server -/
theorem mon_trunc_retry {env : Env} {m m' : MonSt} {pre post : List Event} {q : Name} {s : Server} {t : Nat}
    {e : Event} (h : monAll env m (pre ++ .query q s false t (.exc .truncated) :: e :: post) = some m') :
    ∃ q' t' out', e = .query q' s true t' out' := by
  obtain ⟨m1, _, h1⟩ := monAll_append_some h
  obtain ⟨m2, h2, h3⟩ := monAll_cons_some h1
  obtain ⟨m3, h4, _⟩ := monAll_cons_some h3
  have hp : m2.pending = some s := by
    simp only [monStep] at h2
    split at h2
    · cases h2
    · split at h2
      · cases h2; simp
      · cases h2
  cases e with
  | candidate _ => simp [monStep, hp] at h4
  | sleep _ => simp [monStep, hp] at h4
  | query q' s' tcp' t' out' =>
    simp only [monStep] at h4
    split at h4
    · cases h4
    · split at h4
      · rename_i hg
        simp only [tcpGuard, hp, Bool.and_eq_true, beq_iff_eq] at hg
        obtain ⟨rfl, rfl⟩ := hg
        exact ⟨q', t', out', rfl⟩
      · cases h4

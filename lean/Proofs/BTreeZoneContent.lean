import Proofs.BTreeZoneRecord
/-!
"The derived state is a function of the zone content": two `Good` stores with the same content (owner names and
rdataset keys) are equal, flags and index included; and `Delegations.get_delegation` against its specification.
-/
namespace Model
namespace BTZ

/-- the content of a node store: owner names with their rdataset keys, flags forgotten -/
def content (N : Nodes) : List (Name × List RdKey) := N.map (fun e => (e.1, e.2.rds))

theorem NS_of_content {N N' : Nodes} (hN : NWF N) (hN' : NWF N') (hc : content N = content N') {a : Name}
    (ha : LC a) : NS N a → NS N' a := by
  rintro ⟨nd, hg, hns⟩
  have hm : (a, nd) ∈ N := nget_some_mem hN.2 ha hg
  have : (a, nd.rds) ∈ content N' := by
    rw [← hc]; exact List.mem_map.mpr ⟨(a, nd), hm, rfl⟩
  obtain ⟨e', he', heq⟩ := List.mem_map.mp this
  injection heq with h1 h2
  have hm' : (a, e'.2) ∈ N' := by rw [← h1]; exact he'
  exact ⟨e'.2, mem_nget hN' hm', by rw [h2]; exact hns⟩

theorem flagsSpec_of_content {cfg : Cfg} {N N' : Nodes} (hN : NWF N) (hN' : NWF N') (hc : content N = content N')
    (m : Name) (hm : LC m) : flagsSpec cfg N' m = flagsSpec cfg N m := by
  have hall : ∀ a, LC a → (NS N' a ↔ NS N a) :=
    fun a ha => ⟨NS_of_content hN' hN hc.symm ha, NS_of_content hN hN' hc ha⟩
  exact flagsSpec_same hN hN' (name := m) (fun a ha _ => hall a ha) (hall m hm) m hm

/-- a store whose flags are the specified ones is determined by its content -/
theorem nodes_of_content {cfg : Cfg} {N N' : Nodes} (hN : NWF N) (hN' : NWF N')
    (hf : ∀ e ∈ N, e.2.flags = flagsSpec cfg N e.1) (hf' : ∀ e ∈ N', e.2.flags = flagsSpec cfg N' e.1)
    (hc : content N = content N') : N = N' := by
  have h1 : N = N.map (fun e => (e.1, ({ rds := e.2.rds, flags := flagsSpec cfg N e.1 } : Node))) := by
    conv => lhs; rw [← List.map_id N]
    apply List.map_congr_left
    intro e he
    have := hf e he
    cases e with
    | mk k nd => cases nd with
      | mk r f => simp only at this; simp [this]
  have h2 : N' = N'.map (fun e => (e.1, ({ rds := e.2.rds, flags := flagsSpec cfg N e.1 } : Node))) := by
    conv => lhs; rw [← List.map_id N']
    apply List.map_congr_left
    intro e he
    have := hf' e he
    rw [flagsSpec_of_content hN hN' hc e.1 (hN'.2 e he)] at this
    cases e with
    | mk k nd => cases nd with
      | mk r f => simp only at this; simp [this]
  have h3 : ∀ M : Nodes, M.map (fun e => (e.1, ({ rds := e.2.rds, flags := flagsSpec cfg N e.1 } : Node)))
      = (content M).map (fun c => (c.1, ({ rds := c.2, flags := flagsSpec cfg N c.1 } : Node))) := by
    intro M; simp [content, List.map_map]
  rw [h1, h2, h3 N, h3 N', hc]

/-- committed states with the same content are the same state -/
theorem zstate_of_content {cfg : Cfg} {N N' : Nodes} {D D' : List Name} (h : ZGood cfg (some (N, D)))
    (h' : ZGood cfg (some (N', D'))) (hc : content N = content N') : (N, D) = (N', D') := by
  have hn : N = N' := nodes_of_content h.wf h'.wf h.flags h'.flags hc
  subst hn
  have e1 := (flagsAndIndexRight_of_good h).2
  have e2 := (flagsAndIndexRight_of_good h').2
  rw [e1, e2]

/-- `Delegations.get_delegation` in a `Good` version: the delegation point at or above `name` (there is at most
one), with the "strictly below" bit; `(None, False)` when there is none -/
theorem getDelegation_spec {cfg : Cfg} {N : Nodes} {D c : List Name} (hg : Good cfg ⟨N, D, c⟩) {name : Name}
    (hn : LC name) :
    (∀ d, LC d → isDelegSpec cfg N d = true → isSubdomain name d = true →
        getDelegation D name = (some d, properSub name d)) ∧
    ((∀ d, LC d → isDelegSpec cfg N d = true → isSubdomain name d = false) → getDelegation D name = (none, false)) := by
  constructor
  · intro d hd hdel hsub
    exact getDelegation_hit hg.dwf hg.antichain hn ((hg.index d hd).mpr hdel) hsub
  · intro hno
    apply getDelegation_miss hg.dwf
    intro d hdm
    have hdl := hg.dwf.2 d hdm
    exact hno d hdl ((hg.index d hdl).mp hdm)

end BTZ
end Model

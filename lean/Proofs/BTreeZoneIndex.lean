import Proofs.BTreeZoneSpec
/-!
`Delegations.get_delegation` / `is_glue` on a sorted antichain, and `update_glue_flag` as a pointwise map
(the cursor walk "elements after `name` while they are subdomains of it" visits exactly the proper
subdomains of `name`, because subtrees are convex in canonical order).
-/
namespace Model
namespace BTZ

/-! ## last element of a sorted list -/

theorem getLast?_max {l : List Name} (hs : l.Pairwise (fun a b => cmpOrder a b < 0)) {d : Name}
    (h : l.getLast? = some d) : d ∈ l ∧ ∀ x ∈ l, cmpOrder x d ≤ 0 := by
  obtain ⟨ys, rfl⟩ := List.getLast?_eq_some_iff.mp h
  refine ⟨by simp, ?_⟩
  intro x hx
  rcases List.mem_append.mp hx with hx | hx
  · exact Int.le_of_lt ((List.pairwise_append.mp hs).2.2 x hx d (by simp))
  · simp at hx; rw [hx, cmpOrder_self]; exact Int.le_refl 0

theorem lastLE_some {l : List Name} (h : DWF l) {name d : Name} (hl : lastLE l name = some d) :
    d ∈ l ∧ cmpOrder d name ≤ 0 ∧ ∀ x ∈ l, cmpOrder x name ≤ 0 → cmpOrder x d ≤ 0 := by
  unfold lastLE at hl
  rw [takeWhile_le_eq_names h] at hl
  have hs := List.Pairwise.filter (fun e => decide (cmpOrder e name ≤ 0)) h.1
  obtain ⟨hm, hmax⟩ := getLast?_max hs hl
  have hm' := List.mem_filter.mp hm
  refine ⟨hm'.1, by simpa using hm'.2, ?_⟩
  intro x hx hle
  exact hmax x (List.mem_filter.mpr ⟨hx, by simpa using hle⟩)

theorem lastLE_none {l : List Name} (h : DWF l) {name : Name} (hl : lastLE l name = none) :
    ∀ x ∈ l, ¬ cmpOrder x name ≤ 0 := by
  unfold lastLE at hl
  rw [takeWhile_le_eq_names h, List.getLast?_eq_none_iff, List.filter_eq_nil_iff] at hl
  intro x hx; simpa using hl x hx

/-- no element is a proper subdomain of another -/
def Antichain (l : List Name) : Prop := ∀ d ∈ l, ∀ d' ∈ l, properSub d d' = false

theorem getDelegation_hit {l : List Name} (h : DWF l) (hac : Antichain l) {name d : Name} (_hn : LC name)
    (hd : d ∈ l) (hsub : isSubdomain name d = true) :
    getDelegation l name = (some d, properSub name d) := by
  unfold getDelegation
  cases hl : lastLE l name with
  | none =>
    exact absurd (isSubdomain_le hsub) (lastLE_none h hl d hd)
  | some d0 =>
    obtain ⟨hd0, hle, hmax⟩ := lastLE_some h hl
    have h1 : cmpOrder d d0 ≤ 0 := hmax d hd (isSubdomain_le hsub)
    have h2 : isSubdomain d0 d = true := isSubdomain_convex hsub h1 hle
    have hdd : d0 = d := by
      by_cases e : d0 = d
      · exact e
      · have := (properSub_iff_sub_ne (h.2 d0 hd0) (h.2 d hd)).mpr ⟨h2, e⟩
        rw [hac d0 hd0 d hd] at this; exact absurd this (by decide)
    subst hdd
    simp only
    have hr : (fullcompare name d0).1 = 2 ∨ (fullcompare name d0).1 = 3 := by
      unfold isSubdomain at hsub; simpa using hsub
    rcases hr with hr | hr
    · simp [hr, properSub]
    · simp [hr, properSub]

theorem getDelegation_miss {l : List Name} (h : DWF l) {name : Name}
    (hno : ∀ d ∈ l, isSubdomain name d = false) : getDelegation l name = (none, false) := by
  unfold getDelegation
  cases hl : lastLE l name with
  | none => rfl
  | some d0 =>
    obtain ⟨hd0, _, _⟩ := lastLE_some h hl
    have := hno d0 hd0
    unfold isSubdomain at this
    simp only [Bool.or_eq_false_iff, beq_eq_false_iff_ne] at this
    simp [this.1, this.2]

theorem isGlueIdx_iff {l : List Name} (h : DWF l) (hac : Antichain l) {name : Name} (hn : LC name) :
    isGlueIdx l name = true ↔ ∃ d ∈ l, properSub name d = true := by
  unfold isGlueIdx
  by_cases hex : ∃ d ∈ l, isSubdomain name d = true
  · obtain ⟨d, hd, hsub⟩ := hex
    rw [getDelegation_hit h hac hn hd hsub]
    simp only
    constructor
    · intro hp; exact ⟨d, hd, hp⟩
    · rintro ⟨d', hd', hp'⟩
      -- d and d' are both above name: comparable, hence equal in an antichain
      rcases isSubdomain_chain hsub (properSub_sub hp') with hc | hc
      · by_cases e : d = d'
        · rw [e]; exact hp'
        · have := (properSub_iff_sub_ne (h.2 d hd) (h.2 d' hd')).mpr ⟨hc, e⟩
          rw [hac d hd d' hd'] at this; exact absurd this (by decide)
      · by_cases e : d' = d
        · rw [← e]; exact hp'
        · have := (properSub_iff_sub_ne (h.2 d' hd') (h.2 d hd)).mpr ⟨hc, e⟩
          rw [hac d' hd' d hd] at this; exact absurd this (by decide)
  · have hno : ∀ d ∈ l, isSubdomain name d = false := by
      intro d hd
      cases hh : isSubdomain name d with
      | false => rfl
      | true => exact absurd ⟨d, hd, hh⟩ hex
    rw [getDelegation_miss h hno]
    simp only [Bool.false_eq_true, false_iff]
    rintro ⟨d, hd, hp⟩
    have := hno d hd
    rw [properSub_sub hp] at this; exact absurd this (by decide)

/-! ## the glue walk -/

/-- variant of `takeWhile_eq_filter` with membership in the closure hypothesis -/
theorem takeWhile_eq_filter' {α} {R : α → α → Prop} {p : α → Bool} {l : List α}
    (hs : l.Pairwise R) (hp : ∀ a ∈ l, ∀ b ∈ l, R a b → p b = true → p a = true) :
    l.takeWhile p = l.filter p ∧ l.dropWhile p = l.filter (fun a => !p a) := by
  induction l with
  | nil => simp
  | cons a r ih =>
    have hc := List.pairwise_cons.mp hs
    have ih' := ih hc.2 (fun x hx y hy => hp x (List.mem_cons_of_mem _ hx) y (List.mem_cons_of_mem _ hy))
    by_cases h : p a = true
    · simp [List.takeWhile_cons, List.dropWhile_cons, List.filter_cons, h, ih'.1, ih'.2]
    · have hf : p a = false := by simpa using h
      have hall : ∀ b ∈ r, p b = false := by
        intro b hb
        cases hh : p b with
        | false => rfl
        | true =>
          have := hp a List.mem_cons_self b (List.mem_cons_of_mem _ hb) (hc.1 b hb) hh
          rw [hf] at this; exact absurd this (by decide)
      have e1 : r.filter p = [] := by
        rw [List.filter_eq_nil_iff]; intro b hb; simp [hall b hb]
      have e2 : r.filter (fun a => !p a) = r := by
        rw [List.filter_eq_self]; intro b hb; simp [hall b hb]
      simp [List.takeWhile_cons, List.dropWhile_cons, List.filter_cons, hf, e1, e2]

/-- the three segments of the walk of `update_glue_flag` -/
theorem walk_segments {N : Nodes} (h : NWF N) {name : Name} (hn : LC name) :
    let rest := N.dropWhile (fun e => decide (cmpOrder e.1 name ≤ 0))
    (∀ e ∈ N.takeWhile (fun e => decide (cmpOrder e.1 name ≤ 0)), properSub e.1 name = false) ∧
    (∀ e ∈ rest.takeWhile (fun e => isSubdomain e.1 name), properSub e.1 name = true) ∧
    (∀ e ∈ rest.dropWhile (fun e => isSubdomain e.1 name), properSub e.1 name = false) ∧
    rest.takeWhile (fun e => isSubdomain e.1 name) = N.filter (fun e => properSub e.1 name) := by
  intro rest
  have hle := takeWhile_le_eq h name
  have hrest : rest = N.filter (fun e => !decide (cmpOrder e.1 name ≤ 0)) := hle.2
  have hrest_mem : ∀ e ∈ rest, e ∈ N ∧ ¬ cmpOrder e.1 name ≤ 0 := by
    intro e he; rw [hrest] at he
    have := List.mem_filter.mp he
    exact ⟨this.1, by simpa using this.2⟩
  have hrs : rest.Pairwise (fun e f => cmpOrder e.1 f.1 < 0) := by
    rw [hrest]; exact List.Pairwise.filter _ h.1
  have hsub := takeWhile_eq_filter' (p := fun e : Name × Node => isSubdomain e.1 name) hrs (by
    intro a ha b hb hab hpb
    have hna : cmpOrder name a.1 ≤ 0 := by
      have := (hrest_mem a ha).2
      have h' : cmpOrder a.1 name > 0 := by omega
      exact Int.le_of_lt (cmpOrder_gt_iff.mp h')
    exact isSubdomain_convex hpb hna (Int.le_of_lt hab))
  -- pointwise: after `name` and subdomain of it = proper subdomain
  have hps : ∀ e ∈ N, (properSub e.1 name = true ↔ (¬ cmpOrder e.1 name ≤ 0) ∧ isSubdomain e.1 name = true) := by
    intro e he
    constructor
    · intro hp
      have hlt := properSub_lt hp
      refine ⟨?_, properSub_sub hp⟩
      intro hle'
      have := cmpOrder_lt_of_lt_of_le hlt hle'
      simp [cmpOrder_self] at this
    · rintro ⟨h1, h2⟩
      apply (properSub_iff_sub_ne (h.2 e he) hn).mpr ⟨h2, ?_⟩
      intro e'; apply h1; rw [e', cmpOrder_self]; exact Int.le_refl 0
  refine ⟨?_, ?_, ?_, ?_⟩
  · intro e he
    rw [hle.1] at he
    have := List.mem_filter.mp he
    cases hp : properSub e.1 name with
    | false => rfl
    | true => exact absurd (by simpa using this.2) ((hps e this.1).mp hp).1
  · intro e he
    rw [hsub.1] at he
    have := List.mem_filter.mp he
    exact (hps e (hrest_mem e this.1).1).mpr ⟨(hrest_mem e this.1).2, this.2⟩
  · intro e he
    rw [hsub.2] at he
    have := List.mem_filter.mp he
    cases hp : properSub e.1 name with
    | false => rfl
    | true =>
      have h2 := ((hps e (hrest_mem e this.1).1).mp hp).2
      simp [h2] at this
  · rw [hsub.1, hrest, List.filter_filter]
    apply List.filter_congr
    intro e he
    apply bool_eq_of_iff
    rw [hps e he]
    simp [and_comm]

/-- pointwise form of a walk that rewrites the subtree with a key-preserving step -/
theorem walk_map {N : Nodes} (h : NWF N) {name : Name} (hn : LC name) (step : Name × Node → Name × Node)
    (hstep : ∀ e, (step e).1 = e.1) :
    N.takeWhile (fun e => decide (cmpOrder e.1 name ≤ 0)) ++
      ((N.dropWhile (fun e => decide (cmpOrder e.1 name ≤ 0))).takeWhile (fun e => isSubdomain e.1 name)).map step ++
      (N.dropWhile (fun e => decide (cmpOrder e.1 name ≤ 0))).dropWhile (fun e => isSubdomain e.1 name)
    = N.map (fun e => (e.1, if properSub e.1 name then (step e).2 else e.2)) := by
  obtain ⟨h1, h2, h3, _⟩ := walk_segments h hn
  have hN : N = N.takeWhile (fun e => decide (cmpOrder e.1 name ≤ 0)) ++
      ((N.dropWhile (fun e => decide (cmpOrder e.1 name ≤ 0))).takeWhile (fun e => isSubdomain e.1 name)) ++
      (N.dropWhile (fun e => decide (cmpOrder e.1 name ≤ 0))).dropWhile (fun e => isSubdomain e.1 name) := by
    rw [List.append_assoc, List.takeWhile_append_dropWhile, List.takeWhile_append_dropWhile]
  have e1 : (N.takeWhile (fun e => decide (cmpOrder e.1 name ≤ 0))).map
      (fun e => (e.1, if properSub e.1 name then (step e).2 else e.2))
      = N.takeWhile (fun e => decide (cmpOrder e.1 name ≤ 0)) := by
    refine (List.map_congr_left ?_).trans (List.map_id _)
    intro e he
    simp [h1 e he]
  have e2 : ((N.dropWhile (fun e => decide (cmpOrder e.1 name ≤ 0))).takeWhile (fun e => isSubdomain e.1 name)).map
      (fun e => (e.1, if properSub e.1 name then (step e).2 else e.2))
      = ((N.dropWhile (fun e => decide (cmpOrder e.1 name ≤ 0))).takeWhile (fun e => isSubdomain e.1 name)).map step := by
    apply List.map_congr_left
    intro e he
    simp only [h2 e he, if_true]
    exact Prod.ext (hstep e).symm rfl
  have e3 : ((N.dropWhile (fun e => decide (cmpOrder e.1 name ≤ 0))).dropWhile (fun e => isSubdomain e.1 name)).map
      (fun e => (e.1, if properSub e.1 name then (step e).2 else e.2))
      = (N.dropWhile (fun e => decide (cmpOrder e.1 name ≤ 0))).dropWhile (fun e => isSubdomain e.1 name) := by
    refine (List.map_congr_left ?_).trans (List.map_id _)
    intro e he
    simp [h3 e he]
  conv => rhs; rw [hN]
  rw [List.map_append, List.map_append, e1, e2, e3]

end BTZ
end Model

import Proofs.XfrSpec
/-!
# Convergence of the flat run: AXFR, IXFR chains, AXFR-style answers, the up-to-date answer
-/
namespace Model.Xfr

theorem recsOfAll_nil : recsOfAll [] = [] := rfl

theorem recsOfAll_cons (rs : RRset) (l : List RRset) : recsOfAll (rs :: l) = recsOf rs ++ recsOfAll l := by
  simp [recsOfAll]

theorem recsOfAll_append (a b : List RRset) : recsOfAll (a ++ b) = recsOfAll a ++ recsOfAll b := by
  simp [recsOfAll]

theorem recsOf_single (r : RR) : recsOf (single r) = [r] := by
  simp [recsOf, single]

theorem recsOfAll_singles (l : List RR) : recsOfAll (l.map single) = l := by
  induction l with
  | nil => rfl
  | cons r rest ih => simp [recsOfAll_cons, recsOf_single, ih]

@[simp] theorem soaRR_owner (o : Name) (d : Rdata) : (soaRR o d).owner = o := rfl
@[simp] theorem soaRR_rdtype (o : Name) (d : Rdata) : (soaRR o d).rdtype = soaType := rfl
@[simp] theorem soaRR_rdatas (o : Name) (d : Rdata) : (soaRR o d).rdatas = [d] := rfl
@[simp] theorem firstSerial_soaRR (o : Name) (d : Rdata) : firstSerial (soaRR o d) = some d.serial := rfl
@[simp] theorem recsOf_soaRR (o : Name) (d : Rdata) : recsOf (soaRR o d) = [⟨o, soaType, d⟩] := rfl

theorem rrsetEq_soaRR (o : Name) (d e : Rdata) : rrsetEq (soaRR o d) (soaRR o e) = decide (d = e) := by
  by_cases h : d = e
  · subst h; simp [rrsetEq, soaRR]
  · have h' : ¬ e = d := fun x => h x.symm
    simp [rrsetEq, soaRR, h, h']

/-- a state in the middle of a transfer: not done, transaction open -/
def mid (o : Name) (t : Nat) (inc : Bool) (ser : Option Nat) (udp : Bool) (first : RRset) (exp dm : Bool)
    (x : Txn) (z : Zone) : Inbound :=
  ⟨o, t, inc, ser, udp, some first, false, exp, dm, some x, z⟩

/-- a state after the final SOA: done, transaction committed -/
def fin (o : Name) (t : Nat) (inc : Bool) (ser : Option Nat) (udp : Bool) (first : RRset) (exp dm : Bool)
    (z : Zone) : Inbound :=
  ⟨o, t, inc, ser, udp, some first, true, exp, dm, none, z⟩

/-- `txn.replace(origin, soa)` on a working copy -/
def putSoa (o : Name) (w : Zone) (d : Rdata) : Zone :=
  (w.filter fun r => ¬ (r.owner = o ∧ r.rdtype = soaType)) ++ [⟨o, soaType, d⟩]

/-- a data rrset in add mode: it is stored -/
theorem mid_add {fix : Bool} {o t inc ser udp f x z} {rs : RRset} {more : Bool}
    (ht : rs.rdtype ≠ soaType) (hz : isSubdomain rs.owner o = true) :
    procRRset fix (mid o t inc ser udp f false false x z) rs more =
      .ok (mid o t inc ser udp f false false ⟨x.work ++ recsOf rs, true⟩ z) := by
  simp [mid, procRRset, ht, fallbackState, fallbackTxn, procData, hz, txnAdd]

/-- a run of data rrsets in add mode -/
theorem mid_adds {fix : Bool} {o t inc ser udp f z} : ∀ (l : List RRset) (x : Txn), BodyOk o l →
    ∃ c, procAnswers fix (mid o t inc ser udp f false false x z) l =
      .ok (mid o t inc ser udp f false false ⟨x.work ++ recsOfAll l, c⟩ z) := by
  intro l
  induction l with
  | nil => intro x _; exact ⟨x.changed, by simp [procAnswers, recsOfAll_nil]⟩
  | cons rs rest ih =>
    intro x hb
    have h1 := hb rs (by simp)
    unfold procAnswers
    rw [mid_add h1.1 h1.2]
    simp only []
    obtain ⟨c, hc⟩ := ih ⟨x.work ++ recsOf rs, true⟩ (fun r hr => hb r (by simp [hr]))
    exact ⟨c, by rw [hc]; simp [recsOfAll_cons, List.append_assoc]⟩

/-- the SOA that closes an AXFR (or an AXFR-style answer): replace the apex SOA and commit -/
theorem mid_final_axfr {o t ser udp x z} {d : Rdata} {dm more : Bool} :
    procRRset false (mid o t false ser udp (soaRR o d) false dm x z) (soaRR o d) more =
      .ok (fin o t false ser udp (soaRR o d) false dm (putSoa o x.work d)) := by
  have hfin : isFinalSoa (mid o t false ser udp (soaRR o d) false dm x z) (soaRR o d) = true := by
    simp [isFinalSoa, eqFirst, mid, rrsetEq_soaRR]
  unfold procRRset
  simp only [hfin]
  simp [mid, fin, procFinalSoa, txnReplace, putSoa, nextDm]

/-! ## set-level facts about the zone a transfer produces -/

theorem mem_recsOfAll_rdtype {o : Name} {l : List RRset} (hb : BodyOk o l) {r : RR} (hr : r ∈ recsOfAll l) :
    r.rdtype ≠ soaType := by
  simp only [recsOfAll, List.mem_flatMap, recsOf, List.mem_map] at hr
  obtain ⟨rs, hrs, d, _, rfl⟩ := hr
  exact (hb rs hrs).1

theorem mem_putSoa {o : Name} {w : Zone} {d : Rdata} {r : RR} :
    r ∈ putSoa o w d ↔ (r ∈ w ∧ ¬ (r.owner = o ∧ r.rdtype = soaType)) ∨ r = ⟨o, soaType, d⟩ := by
  simp only [putSoa, List.mem_append, List.mem_filter, List.mem_singleton, decide_eq_true_eq]

@[simp] theorem fin_zone {o t inc ser udp f e dm z} : (fin o t inc ser udp f e dm z).zone = z := rfl
@[simp] theorem fin_done {o t inc ser udp f e dm z} : (fin o t inc ser udp f e dm z).done = true := rfl

theorem serial_putSoa (o : Name) (w : Zone) (d : Rdata) : Zone.serial (putSoa o w d) o = some d.serial := by
  unfold Zone.serial putSoa
  rw [List.find?_append]
  have : (w.filter fun r => ¬ (r.owner = o ∧ r.rdtype = soaType)).find? (fun r => r.owner == o && r.rdtype == soaType) = none := by
    rw [List.find?_eq_none]
    intro r hr
    simp only [List.mem_filter, decide_eq_true_eq] at hr
    simpa using hr.2
  rw [this]
  simp

theorem mem_zoneOf {o : Name} {v : Version} {r : RR} :
    r ∈ zoneOf o v ↔ r ∈ recsOfAll v.body ∨ r = ⟨o, soaType, v.soa⟩ := by
  simp [zoneOf]

/-! ## AXFR -/

/-- the flat AXFR run: completes, and the zone is the version sent (whatever the zone was before) -/
theorem axfr_flat (o : Name) (v : Version) (z0 : Zone) (ser : Option Nat) (hb : BodyOk o v.body) :
    ∃ s', flatRun ⟨some o, axfrType, ser, false⟩ z0 (axfrStream o v) = .ok s' ∧ s'.done = true ∧
      s'.zone ≃z zoneOf o v ∧ s'.zone.serial o = some v.soa.serial := by
  obtain ⟨c, hc⟩ := mid_adds (fix := false) (o := o) (t := axfrType) (inc := false) (ser := ser) (udp := false)
    (f := soaRR o v.soa) (z := z0) v.body ⟨[], false⟩ hb
  refine ⟨fin o axfrType false ser false (soaRR o v.soa) false false (putSoa o ([] ++ recsOfAll v.body) v.soa), ?_, rfl, ?_, ?_⟩
  · have h0 : Inbound.init (some o) z0 axfrType ser false =
        .ok ⟨o, axfrType, false, ser, false, none, false, false, false, none, z0⟩ := by
      simp [Inbound.init, axfrType, ixfrType]
    have h1 : firstSoa (openTxn ⟨o, axfrType, false, ser, false, none, false, false, false, none, z0⟩) (soaRR o v.soa) false =
        .ok (mid o axfrType false ser false (soaRR o v.soa) false false ⟨[], false⟩ z0) := by
      simp [firstSoa, openTxn, writer, mid]
    unfold flatRun axfrStream
    simp only [h0, h1]
    rw [procAnswers_append, hc]
    simp only [procAnswers]
    rw [mid_final_axfr]
  · intro r
    rw [fin_zone, mem_putSoa, mem_zoneOf]
    simp only [List.nil_append]
    constructor
    · rintro (⟨h, _⟩ | h)
      · exact Or.inl h
      · exact Or.inr h
    · rintro (h | h)
      · exact Or.inl ⟨h, fun hk => mem_recsOfAll_rdtype hb h hk.2⟩
      · exact Or.inr h
  · rw [fin_zone]; exact serial_putSoa o _ v.soa

/-! ## IXFR: the machine applies the difference sequences one after the other -/

/-- `delete_exact` of the records `dels`, one at a time -/
def delAll (w : Zone) (dels : List RR) : Zone :=
  dels.foldl (fun w r => w.filter fun q => ¬ (q ∈ recsOf (single r))) w

/-- what one difference sequence does to the working copy -/
def applyStep (o : Name) (w : Zone) (st : Step) : Zone := putSoa o (delAll w st.dels) st.soa ++ st.adds

def applyAll (o : Name) (w : Zone) (steps : List Step) : Zone := steps.foldl (applyStep o) w

theorem mem_delAll : ∀ (dels : List RR) (w : Zone) (q : RR), q ∈ delAll w dels ↔ q ∈ w ∧ q ∉ dels := by
  intro dels
  induction dels with
  | nil => intro w q; simp [delAll]
  | cons r rest ih =>
    intro w q
    simp only [delAll, List.foldl_cons] at ih ⊢
    rw [ih]
    simp only [recsOf_single, List.mem_filter, decide_eq_true_eq, List.mem_cons, not_or, List.not_mem_nil,
      not_false_eq_true, and_true]
    constructor
    · rintro ⟨⟨h1, h2⟩, h3⟩; exact ⟨h1, h2, h3⟩
    · rintro ⟨h1, h2, h3⟩; exact ⟨⟨h1, h2⟩, h3⟩

/-- the SOA that opens a deletion set: checked against the current serial, nothing stored -/
theorem mid_delstart {fix : Bool} {o t b udp x z} {dn cur : Rdata} {exp more : Bool}
    (hne : cur ≠ dn) (hser : cur.serial = b) :
    procRRset fix (mid o t true (some b) udp (soaRR o dn) exp false x z) (soaRR o cur) more =
      .ok (mid o t true (some b) udp (soaRR o dn) false true x z) := by
  have hfin : isFinalSoa (mid o t true (some b) udp (soaRR o dn) exp false x z) (soaRR o cur) = false := by
    simp [isFinalSoa, eqFirst, mid, rrsetEq_soaRR, hne]
  unfold procRRset
  simp only [hfin]
  simp [mid, procOtherSoa, nextDm, hser]

/-- a record of a deletion set that is present: removed -/
theorem mid_del {fix : Bool} {o t ser udp f x z} {r : RR} {more : Bool}
    (ht : r.rdtype ≠ soaType) (hz : isSubdomain r.owner o = true) (hin : r ∈ x.work) :
    procRRset fix (mid o t true ser udp f false true x z) (single r) more =
      .ok (mid o t true ser udp f false true ⟨x.work.filter fun q => ¬ (q ∈ recsOf (single r)), true⟩ z) := by
  have h1 : (single r).rdtype ≠ soaType := ht
  have h2 : isSubdomain (single r).owner o = true := hz
  simp [mid, procRRset, h1, fallbackState, fallbackTxn, procData, h2, txnDeleteExact, recsOf_single, hin]
  simp [single]

theorem mid_dels {fix : Bool} {o t ser udp f z} : ∀ (dels : List RR) (x : Txn),
    (∀ r ∈ dels, r.rdtype ≠ soaType ∧ isSubdomain r.owner o = true ∧ r ∈ x.work) → dels.Nodup →
    ∃ c, procAnswers fix (mid o t true ser udp f false true x z) (dels.map single) =
      .ok (mid o t true ser udp f false true ⟨delAll x.work dels, c⟩ z) := by
  intro dels
  induction dels with
  | nil => intro x _ _; exact ⟨x.changed, by simp [procAnswers, delAll]⟩
  | cons r rest ih =>
    intro x h hnd
    have h1 := h r (by simp)
    simp only [List.map_cons]
    unfold procAnswers
    rw [mid_del h1.1 h1.2.1 h1.2.2]
    simp only []
    have hnd' := List.nodup_cons.mp hnd
    obtain ⟨c, hc⟩ := ih ⟨x.work.filter fun q => ¬ (q ∈ recsOf (single r)), true⟩ (fun q hq => by
      have hq' := h q (by simp [hq])
      refine ⟨hq'.1, hq'.2.1, ?_⟩
      simp only [recsOf_single, List.mem_filter, List.mem_singleton, decide_eq_true_eq]
      exact ⟨hq'.2.2, fun e => hnd'.1 (e ▸ hq)⟩) hnd'.2
    exact ⟨c, by rw [hc]; simp [delAll]⟩

/-- the SOA that opens an addition set: the serial moves on and the apex SOA is replaced -/
theorem mid_addstart {fix : Bool} {o t ser udp f x z} {d : Rdata} {more : Bool} :
    procRRset fix (mid o t true ser udp f false true x z) (soaRR o d) more =
      .ok (mid o t true (some d.serial) udp f false false ⟨putSoa o x.work d, true⟩ z) := by
  have hfin : isFinalSoa (mid o t true ser udp f false true x z) (soaRR o d) = false := by
    simp [isFinalSoa, mid, nextDm]
  unfold procRRset
  simp only [hfin]
  simp [mid, procOtherSoa, nextDm, txnReplace, putSoa]

/-- the SOA that closes an IXFR: it equals the first one, arrives where a deletion set would start, and
the serial reached is its serial -/
theorem mid_final_ixfr {o t udp x z} {dn : Rdata} {more : Bool} :
    procRRset false (mid o t true (some dn.serial) udp (soaRR o dn) false false x z) (soaRR o dn) more =
      .ok (fin o t true (some dn.serial) udp (soaRR o dn) false true (putSoa o x.work dn)) := by
  have hfin : isFinalSoa (mid o t true (some dn.serial) udp (soaRR o dn) false false x z) (soaRR o dn) = true := by
    simp [isFinalSoa, eqFirst, mid, rrsetEq_soaRR, nextDm]
  unfold procRRset
  simp only [hfin]
  simp [mid, fin, procFinalSoa, txnReplace, putSoa, nextDm]

/-- side conditions of a list of difference sequences applied to the working copy `w`, the current SOA
being `cur` and the server's final SOA `dn` -/
def StepsOk (o : Name) (dn : Rdata) : Rdata → Zone → List Step → Prop
  | _, _, [] => True
  | cur, w, st :: rest =>
    cur ≠ dn ∧ (∀ r ∈ st.dels, r.rdtype ≠ soaType ∧ isSubdomain r.owner o = true ∧ r ∈ w) ∧ st.dels.Nodup ∧
      (∀ r ∈ st.adds, r.rdtype ≠ soaType ∧ isSubdomain r.owner o = true) ∧
      StepsOk o dn st.soa (applyStep o w st) rest

theorem bodyOk_singles {o : Name} {l : List RR} (h : ∀ r ∈ l, r.rdtype ≠ soaType ∧ isSubdomain r.owner o = true) :
    BodyOk o (l.map single) := by
  intro rs hrs
  simp only [List.mem_map] at hrs
  obtain ⟨r, hr, rfl⟩ := hrs
  exact h r hr

/-- all difference sequences, one after the other -/
theorem mid_steps {o t udp z} {dn : Rdata} : ∀ (steps : List Step) (cur : Rdata) (x : Txn) (exp : Bool),
    StepsOk o dn cur x.work steps →
    ∃ c, procAnswers false (mid o t true (some cur.serial) udp (soaRR o dn) exp false x z) (ixfrSteps o cur steps) =
      .ok (mid o t true (some (lastSoa cur steps).serial) udp (soaRR o dn) (exp && steps.isEmpty) false
            ⟨applyAll o x.work steps, c⟩ z) := by
  intro steps
  induction steps with
  | nil => intro cur x exp _; exact ⟨x.changed, by simp [procAnswers, ixfrSteps, lastSoa, applyAll]⟩
  | cons st rest ih =>
    intro cur x exp h
    obtain ⟨hne, hdel, hnd, hadd, hrest⟩ := h
    obtain ⟨c1, h1⟩ := mid_dels (fix := false) (o := o) (t := t) (ser := some cur.serial) (udp := udp)
      (f := soaRR o dn) (z := z) st.dels x hdel hnd
    obtain ⟨c2, h2⟩ := mid_adds (fix := false) (o := o) (t := t) (inc := true) (ser := some st.soa.serial) (udp := udp)
      (f := soaRR o dn) (z := z) (st.adds.map single) ⟨putSoa o (delAll x.work st.dels) st.soa, true⟩ (bodyOk_singles hadd)
    obtain ⟨c3, h3⟩ := ih st.soa ⟨applyStep o x.work st, c2⟩ false hrest
    refine ⟨c3, ?_⟩
    simp only [ixfrSteps]
    rw [procAnswers, mid_delstart hne rfl]
    simp only []
    rw [procAnswers_append, h1]
    simp only []
    rw [procAnswers, mid_addstart]
    simp only []
    rw [procAnswers_append, h2]
    simp only [recsOfAll_singles]
    have : (⟨putSoa o (delAll x.work st.dels) st.soa ++ st.adds, c2⟩ : Txn) = ⟨applyStep o x.work st, c2⟩ := rfl
    rw [this, h3]
    simp [lastSoa, applyAll]

/-- the flat IXFR run over TCP: completes; the zone is what the difference sequences make of the zone
before, under the final SOA -/
theorem ixfr_flat (o : Name) (cur : Rdata) (steps : List Step) (z0 : Zone) (udp : Bool) (hne : steps ≠ [])
    (hs1 : (lastSoa cur steps).serial ≠ cur.serial) (hs2 : serialLt (lastSoa cur steps).serial cur.serial = false)
    (hok : StepsOk o (lastSoa cur steps) cur z0 steps) :
    flatRun ⟨some o, ixfrType, some cur.serial, udp⟩ z0 (ixfrStream o cur steps) =
      .ok (fin o ixfrType true (some (lastSoa cur steps).serial) udp (soaRR o (lastSoa cur steps)) false true
            (putSoa o (applyAll o z0 steps) (lastSoa cur steps))) := by
  have h0 : Inbound.init (some o) z0 ixfrType (some cur.serial) udp =
      .ok ⟨o, ixfrType, true, some cur.serial, udp, none, false, false, false, none, z0⟩ := by
    simp [Inbound.init]
  have h1 : firstSoa (openTxn ⟨o, ixfrType, true, some cur.serial, udp, none, false, false, false, none, z0⟩)
      (soaRR o (lastSoa cur steps)) false =
      .ok (mid o ixfrType true (some cur.serial) udp (soaRR o (lastSoa cur steps)) true false ⟨z0, false⟩ z0) := by
    simp [firstSoa, openTxn, writer, mid, hs1, hs2]
  obtain ⟨c, hc⟩ := mid_steps (o := o) (t := ixfrType) (udp := udp) (z := z0) (dn := lastSoa cur steps)
    steps cur ⟨z0, false⟩ true hok
  unfold flatRun ixfrStream
  simp only [h0, h1]
  rw [procAnswers_append, hc]
  have he : steps.isEmpty = false := by cases steps <;> simp_all
  simp only [he, Bool.and_false, procAnswers]
  rw [mid_final_ixfr]

/-! ## IXFR between zone versions: the difference sequences a server computes -/

/-- A zone version that can be served: its rrsets are in the zone, none is an SOA, no record twice. -/
structure WfVersion (o : Name) (v : Version) : Prop where
  body : BodyOk o v.body
  nodup : (recsOfAll v.body).Nodup

/-- the difference sequence from version `a` to version `b` -/
def diffStep (a b : Version) : Step :=
  ⟨(recsOfAll a.body).filter (fun r => r ∉ recsOfAll b.body), b.soa,
   (recsOfAll b.body).filter (fun r => r ∉ recsOfAll a.body)⟩

def diffSteps (a : Version) : List Version → List Step
  | [] => []
  | b :: rest => diffStep a b :: diffSteps b rest

def lastVersion (a : Version) : List Version → Version
  | [] => a
  | b :: rest => lastVersion b rest

theorem lastSoa_diffSteps : ∀ (vs : List Version) (a : Version),
    lastSoa a.soa (diffSteps a vs) = (lastVersion a vs).soa := by
  intro vs
  induction vs with
  | nil => intro a; rfl
  | cons b rest ih => intro a; simp [diffSteps, lastSoa, lastVersion, diffStep, ih b]

theorem mem_recsOfAll_ok {o : Name} {l : List RRset} (hb : BodyOk o l) {r : RR} (hr : r ∈ recsOfAll l) :
    r.rdtype ≠ soaType ∧ isSubdomain r.owner o = true := by
  simp only [recsOfAll, List.mem_flatMap, recsOf, List.mem_map] at hr
  obtain ⟨rs, hrs, d, _, rfl⟩ := hr
  exact hb rs hrs

/-- one difference sequence takes (any list representing) version `a` to version `b` -/
theorem applyStep_diff {o : Name} {a b : Version} {w : Zone} (hw : w ≃z zoneOf o a)
    (hb : BodyOk o b.body) : applyStep o w (diffStep a b) ≃z zoneOf o b := by
  intro r
  simp only [applyStep, diffStep, List.mem_append, mem_putSoa, mem_delAll, List.mem_filter, decide_eq_true_eq,
    mem_zoneOf]
  rw [hw r, mem_zoneOf]
  constructor
  · rintro ((⟨⟨hra | hra, hnd⟩, hk⟩ | h) | ⟨h, _⟩)
    · left
      by_cases hrb : r ∈ recsOfAll b.body
      · exact hrb
      · exact absurd ⟨hra, hrb⟩ hnd
    · subst hra; exact absurd ⟨rfl, rfl⟩ hk
    · exact Or.inr h
    · exact Or.inl h
  · rintro (hrb | h)
    · by_cases hra : r ∈ recsOfAll a.body
      · left; left
        exact ⟨⟨Or.inl hra, fun hx => hx.2 hrb⟩, fun hk => (mem_recsOfAll_ok hb hrb).1 hk.2⟩
      · right; exact ⟨hrb, hra⟩
    · left; right; exact h

/-- replacing the apex SOA of (a list representing) a version by that same SOA changes nothing -/
theorem putSoa_same {o : Name} {v : Version} {w : Zone} (hw : w ≃z zoneOf o v) (hb : BodyOk o v.body) :
    putSoa o w v.soa ≃z zoneOf o v := by
  intro r
  rw [mem_putSoa, hw r, mem_zoneOf]
  constructor
  · rintro (⟨h | h, hk⟩ | h)
    · exact Or.inl h
    · exact Or.inr h
    · exact Or.inr h
  · rintro (h | h)
    · exact Or.inl ⟨Or.inl h, fun hk => (mem_recsOfAll_ok hb h).1 hk.2⟩
    · exact Or.inr h

theorem stepsOk_diff {o : Name} {dn : Rdata} : ∀ (vs : List Version) (a : Version) (w : Zone),
    w ≃z zoneOf o a → WfVersion o a → (∀ v ∈ vs, WfVersion o v) → (∀ v ∈ (a :: vs).dropLast, v.soa ≠ dn) →
    StepsOk o dn a.soa w (diffSteps a vs) ∧ applyAll o w (diffSteps a vs) ≃z zoneOf o (lastVersion a vs) := by
  intro vs
  induction vs with
  | nil => intro a w hw _ _ _; exact ⟨trivial, hw⟩
  | cons b rest ih =>
    intro a w hw ha hvs hd
    have hb := hvs b (by simp)
    have hstep := applyStep_diff hw hb.body
    have hrec := ih b (applyStep o w (diffStep a b)) hstep hb (fun v hv => hvs v (by simp [hv]))
      (fun v hv => hd v (by
        cases rest with
        | nil => simp at hv
        | cons c cs => simp only [List.dropLast_cons_cons, List.mem_cons] at hv ⊢; exact Or.inr hv))
    refine ⟨⟨hd a (by simp [List.dropLast]), ?_, ?_, ?_, hrec.1⟩, ?_⟩
    · intro r hr
      simp only [diffStep, List.mem_filter] at hr
      have := mem_recsOfAll_ok ha.body hr.1
      exact ⟨this.1, this.2, (hw r).2 (mem_zoneOf.2 (Or.inl hr.1))⟩
    · exact ha.nodup.filter _
    · intro r hr
      simp only [diffStep, List.mem_filter] at hr
      exact mem_recsOfAll_ok hb.body hr.1
    · simpa [diffSteps, applyAll, lastVersion] using hrec.2

/-! ## AXFR-style answer to an IXFR request -/

/-- the first data rrset after the first SOA, while another SOA was expected: roll back, start a
replacement transaction, store the rrset -/
theorem mid_fallback_add {fix : Bool} {o t inc ser udp f dm x z} {rs : RRset} {more : Bool}
    (ht : rs.rdtype ≠ soaType) (hz : isSubdomain rs.owner o = true) :
    procRRset fix (mid o t inc ser udp f true dm x z) rs more =
      .ok (mid o t false ser udp f false false ⟨recsOf rs, true⟩ z) := by
  simp [mid, procRRset, ht, fallbackState, fallbackTxn, procData, hz, txnAdd, writer]

theorem axfr_style_flat (o : Name) (v : Version) (z0 : Zone) (b : Nat) (hb : BodyOk o v.body)
    (hne : v.body ≠ []) (hs1 : v.soa.serial ≠ b) (hs2 : serialLt v.soa.serial b = false) :
    ∃ s', flatRun ⟨some o, ixfrType, some b, false⟩ z0 (axfrStream o v) = .ok s' ∧ s'.done = true ∧
      s'.zone ≃z zoneOf o v ∧ s'.zone.serial o = some v.soa.serial := by
  cases hbody : v.body with
  | nil => exact absurd hbody hne
  | cons rs0 rest =>
    have hb0 := hb rs0 (by simp [hbody])
    have hbr : BodyOk o rest := fun r hr => hb r (by simp [hbody, hr])
    obtain ⟨c, hc⟩ := mid_adds (fix := false) (o := o) (t := ixfrType) (inc := false) (ser := some b) (udp := false)
      (f := soaRR o v.soa) (z := z0) rest ⟨recsOf rs0, true⟩ hbr
    refine ⟨fin o ixfrType false (some b) false (soaRR o v.soa) false false
      (putSoa o (recsOf rs0 ++ recsOfAll rest) v.soa), ?_, rfl, ?_, ?_⟩
    · have h0 : Inbound.init (some o) z0 ixfrType (some b) false =
          .ok ⟨o, ixfrType, true, some b, false, none, false, false, false, none, z0⟩ := by
        simp [Inbound.init]
      have h1 : firstSoa (openTxn ⟨o, ixfrType, true, some b, false, none, false, false, false, none, z0⟩)
          (soaRR o v.soa) false =
          .ok (mid o ixfrType true (some b) false (soaRR o v.soa) true false ⟨z0, false⟩ z0) := by
        simp [firstSoa, openTxn, writer, mid, hs1, hs2]
      unfold flatRun axfrStream
      simp only [h0, h1, hbody, List.cons_append]
      rw [procAnswers, mid_fallback_add hb0.1 hb0.2]
      simp only []
      rw [procAnswers_append, hc]
      simp only [procAnswers]
      rw [mid_final_axfr]
    · intro r
      rw [fin_zone, mem_putSoa, mem_zoneOf, hbody, recsOfAll_cons]
      constructor
      · rintro (⟨h, _⟩ | h)
        · exact Or.inl h
        · exact Or.inr h
      · rintro (h | h)
        · refine Or.inl ⟨h, fun hk => ?_⟩
          have : r ∈ recsOfAll v.body := by rw [hbody, recsOfAll_cons]; exact h
          exact mem_recsOfAll_rdtype hb this hk.2
        · exact Or.inr h
    · rw [fin_zone]; exact serial_putSoa o _ v.soa

/-! ## one UDP datagram; the up-to-date answer; the truncated UDP answer -/

/-- A UDP IXFR is one message: the run is the flat run over its answer section. -/
theorem run_udp_single {c : Config} {z0 : Zone} {m : Msg} {rr0 r1 : RRset} {rest : List RRset} {s' : Inbound}
    (hc : Chunks c (rr0 :: r1 :: rest) [m]) (hf : flatRun c z0 (rr0 :: r1 :: rest) = .ok s') (hd : s'.done = true) :
    run false c z0 [m] = ⟨none, s'.zone⟩ := by
  unfold flatRun at hf
  unfold run
  cases hi : Inbound.init c.origin z0 c.rdtype c.serial c.isUdp with
  | error e => rw [hi] at hf; cases hf
  | ok s0 =>
    rw [hi] at hf
    have ip := init_props hi
    have o := openTxn_props s0
    simp only [] at hf ⊢
    have hm : m.answer = rr0 :: r1 :: rest := by simpa using hc.flat
    have hhdr : headerErr (openTxn s0) m = none :=
      headerErr_of_chunk (by rw [o.1.1]; exact ip.1) (by rw [o.1.2.1]; exact ip.2.1) (hc.hdr m (by simp))
    have hsoa0 : (openTxn s0).soa = none := by rw [o.1.2.2.2]; exact ip.2.2.2.2.1
    cases h1 : firstSoa (openTxn s0) rr0 false with
    | error e => rw [h1] at hf; cases hf
    | ok s1 =>
      rw [h1] at hf
      simp only [] at hf
      have hpm : procMessage false s0 m = .ok s' := by
        unfold procMessage
        rw [hhdr]
        simp only []
        unfold procBody
        rw [hsoa0, hm]
        simp only [List.isEmpty_cons]
        rw [h1]
        simp only []
        rw [hf]
        simp [udpCheck, hd]
      simp [runLoop, hpm, hd]

/-- **Already up to date**: the server's SOA carries the serial we asked about; with nothing else in the
message the transfer is complete, nothing is raised and the zone is untouched (either variant, TCP or UDP). -/
theorem uptodate_run (fix : Bool) (o : Name) (z0 : Zone) (d : Rdata) (udp : Bool) (m : Msg) (more : List Msg)
    (hh : headerErrOf o ixfrType m = none) (ha : m.answer = [soaRR o d]) :
    run fix ⟨some o, ixfrType, some d.serial, udp⟩ z0 (m :: more) = ⟨none, z0⟩ := by
  simp [run, Inbound.init, runLoop, procMessage, headerErr, hh, openTxn, procBody, ha, firstSoa, procAnswers,
    udpCheck]

/-- **UseTCP**: over UDP, a lone SOA with a newer serial is the "truncated" answer -/
theorem udp_truncated_run (fix : Bool) (o : Name) (z0 : Zone) (d : Rdata) (b : Nat) (m : Msg) (more : List Msg)
    (hh : headerErrOf o ixfrType m = none) (ha : m.answer = [soaRR o d])
    (hs1 : d.serial ≠ b) (hs2 : serialLt d.serial b = false) :
    run fix ⟨some o, ixfrType, some b, true⟩ z0 (m :: more) = ⟨some .UseTCP, z0⟩ := by
  simp [run, Inbound.init, runLoop, procMessage, headerErr, hh, openTxn, procBody, ha, firstSoa, hs1, hs2]

/-- **Serial went backwards**: the server's SOA is behind the serial we hold (RFC 1982), whatever follows -/
theorem backwards_run (fix : Bool) (o : Name) (z0 : Zone) (d : Rdata) (b : Nat) (udp : Bool) (m : Msg)
    (rest : List RRset) (more : List Msg)
    (hh : headerErrOf o ixfrType m = none) (ha : m.answer = soaRR o d :: rest)
    (hs1 : d.serial ≠ b) (hs2 : serialLt d.serial b = true) :
    run fix ⟨some o, ixfrType, some b, udp⟩ z0 (m :: more) = ⟨some .SerialWentBackwards, z0⟩ := by
  simp [run, Inbound.init, runLoop, procMessage, headerErr, hh, openTxn, procBody, ha, firstSoa, hs1, hs2]

/-- One TCP message carrying the whole stream: the run is the flat run over its answer section, whatever
the outcome. -/
theorem run_single_tcp {c : Config} {z0 : Zone} {m : Msg} {rr0 : RRset} {rest : List RRset}
    (hu : c.isUdp = false) (hc : Chunks c (rr0 :: rest) [m]) :
    run false c z0 [m] =
      match flatRun c z0 (rr0 :: rest) with
      | .error (e, z) => ⟨some e, z⟩
      | .ok s' => if s'.done then ⟨none, s'.zone⟩ else ⟨some .EOF, s'.zone⟩ := by
  unfold flatRun run
  cases hi : Inbound.init c.origin z0 c.rdtype c.serial c.isUdp with
  | error e => rfl
  | ok s0 =>
    have ip := init_props hi
    have o := openTxn_props s0
    simp only []
    have hm : m.answer = rr0 :: rest := by simpa using hc.flat
    have hhdr : headerErr (openTxn s0) m = none :=
      headerErr_of_chunk (by rw [o.1.1]; exact ip.1) (by rw [o.1.2.1]; exact ip.2.1) (hc.hdr m (by simp))
    have hsoa0 : (openTxn s0).soa = none := by rw [o.1.2.2.2]; exact ip.2.2.2.2.1
    have hu0 : (openTxn s0).isUdp = false := by rw [o.1.2.2.1, ip.2.2.1]; exact hu
    have hpm : procMessage false s0 m =
        match firstSoa (openTxn s0) rr0 false with
        | .error e => .error e
        | .ok s1 => match procAnswers false s1 rest with
          | .error e => .error e
          | .ok s2 => .ok s2 := by
      unfold procMessage
      rw [hhdr]
      simp only []
      unfold procBody
      rw [hsoa0, hm]
      simp only []
      rw [firstSoa_tcp hu0 rr0 rest.isEmpty false]
      cases h1 : firstSoa (openTxn s0) rr0 false with
      | error e => rfl
      | ok s1 =>
        simp only []
        cases h2 : procAnswers false s1 rest with
        | error e => rfl
        | ok s2 =>
          have : s2.isUdp = false := by rw [(procAnswers_ok h2).1.2.2.1, (firstSoa_ok h1).2.2.2.2.1]; exact hu0
          simp [udpCheck, this]
    simp only [runLoop, hpm]
    cases h1 : firstSoa (openTxn s0) rr0 false with
    | error e => rfl
    | ok s1 =>
      simp only []
      cases h2 : procAnswers false s1 rest with
      | error e => rfl
      | ok s2 =>
        simp only []
        cases hd : s2.done <;> simp

end Model.Xfr

import Proofs.XfrSpec
/-!
# Convergence of the flat run: AXFR, IXFR chains, AXFR-style answers, the up-to-date answer

The working copy of the machine is followed up to `≃z` (it is a list, only membership matters); the
side condition that makes `txn.add` / `txn.replace` / `txn.delete_exact` plain set operations is that the
zones passed through are coherent (`Proofs.XfrZone`).
-/
namespace Model.Xfr

theorem recsOfAll_nil : recsOfAll [] = [] := rfl

theorem recsOfAll_cons (rs : RRset) (l : List RRset) : recsOfAll (rs :: l) = recsOf rs ++ recsOfAll l := by
  simp [recsOfAll]

theorem recsOfAll_append (a b : List RRset) : recsOfAll (a ++ b) = recsOfAll a ++ recsOfAll b := by
  simp [recsOfAll]

theorem recsOf_single (r : RR) : recsOf (single r) = [r] := by
  simp [recsOf, single]

theorem recsOfAll_singles (l : List RR) : recsOfAll (l.map single) = l := by
  induction l with
  | nil => rfl
  | cons r rest ih => simp [recsOfAll_cons, recsOf_single, ih]

@[simp] theorem soaRR_owner (o : Name) (d : Soa) : (soaRR o d).owner = o := rfl
@[simp] theorem soaRR_rdtype (o : Name) (d : Soa) : (soaRR o d).rdtype = soaType := rfl
@[simp] theorem soaRR_rdatas (o : Name) (d : Soa) : (soaRR o d).rdatas = [d.rdata] := rfl
@[simp] theorem soaRR_ttl (o : Name) (d : Soa) : (soaRR o d).ttl = d.ttl := rfl
@[simp] theorem firstSerial_soaRR (o : Name) (d : Soa) : firstSerial (soaRR o d) = some d.rdata.serial := rfl
@[simp] theorem recsOf_soaRR (o : Name) (d : Soa) : recsOf (soaRR o d) = [soaRec o d] := rfl

theorem rrsetEq_soaRR (o : Name) (d e : Soa) : rrsetEq (soaRR o d) (soaRR o e) = decide (d.rdata = e.rdata) := by
  by_cases h : d.rdata = e.rdata
  · simp [rrsetEq, soaRR, h]
  · have h' : ¬ e.rdata = d.rdata := fun x => h x.symm
    simp [rrsetEq, soaRR, h, h']

/-- a state in the middle of a transfer: not done, transaction open -/
def mid (o : Name) (t : Nat) (inc : Bool) (ser : Option Nat) (udp : Bool) (first : RRset) (exp dm : Bool)
    (x : Txn) (z : Zone) : Inbound :=
  ⟨o, t, inc, ser, udp, some first, false, exp, dm, some x, z⟩

/-- a state after the final SOA: done, transaction committed -/
def fin (o : Name) (t : Nat) (inc : Bool) (ser : Option Nat) (udp : Bool) (first : RRset) (exp dm : Bool)
    (z : Zone) : Inbound :=
  ⟨o, t, inc, ser, udp, some first, true, exp, dm, none, z⟩

@[simp] theorem fin_zone {o t inc ser udp f e dm z} : (fin o t inc ser udp f e dm z).zone = z := rfl
@[simp] theorem fin_done {o t inc ser udp f e dm z} : (fin o t inc ser udp f e dm z).done = true := rfl

/-- `txn.replace(origin, soa)` at the set level -/
def putSoa (o : Name) (w : Zone) (s : Soa) : Zone := putSoaRec o w (soaRec o s)

theorem mem_putSoa {o : Name} {w : Zone} {d : Soa} {r : RR} :
    r ∈ putSoa o w d ↔ (r ∈ w ∧ ¬ (r.owner = o ∧ r.rdtype = soaType)) ∨ r = soaRec o d := by
  simp only [putSoa, putSoaRec, List.mem_append, List.mem_filter, List.mem_singleton, decide_eq_true_eq]

theorem mem_zoneOf {o : Name} {v : Version} {r : RR} :
    r ∈ zoneOf o v ↔ r ∈ recsOfAll v.body ∨ r = soaRec o v.soa := by
  simp [zoneOf]

theorem mem_recsOfAll_ok {o : Name} {l : List RRset} (hb : BodyOk o l) {r : RR} (hr : r ∈ recsOfAll l) :
    r.rdtype ≠ soaType ∧ isSubdomain r.owner o = true := by
  simp only [recsOfAll, List.mem_flatMap, recsOf, List.mem_map] at hr
  obtain ⟨rs, hrs, d, _, rfl⟩ := hr
  exact ⟨(hb rs hrs).1, (hb rs hrs).2.1⟩

/-- in a coherent zone that holds regular data at a name there is no CNAME at that name -/
theorem no_cname_beside {w : Zone} (hc : Coherent w) {a : RR} (ha : a ∈ w) (hk : kindOf a.rdtype = .regular) :
    ∀ q ∈ w, q.owner = a.owner → kindOf q.rdtype ≠ .cname := by
  intro q hq ho hcn
  have := hc.2.1 a ha q hq ho.symm
  simp [drivesOut, hk, hcn] at this

theorem soaRec_regular (o : Name) (s : Soa) : kindOf (soaRec o s).rdtype = .regular := kindOf_soa

/-- any zone equivalent to a coherent version: the serial read from it is the version's, and there is no
CNAME at the apex -/
theorem serial_of_equiv {o : Name} {v : Version} {z : Zone} (hz : z ≃z zoneOf o v) (hb : BodyOk o v.body) :
    z.serial o = some v.soa.rdata.serial := by
  unfold Zone.serial
  cases hf : z.find? (fun r => r.owner == o && r.rdtype == soaType) with
  | none =>
    have := List.find?_eq_none.1 hf (soaRec o v.soa) ((hz _).2 (mem_zoneOf.2 (Or.inr rfl)))
    simp [soaRec] at this
  | some r =>
    have hm := List.mem_of_find?_eq_some hf
    have hp := List.find?_some hf
    simp only [Bool.and_eq_true, beq_iff_eq] at hp
    rcases mem_zoneOf.1 ((hz r).1 hm) with h | h
    · exact absurd hp.2 (mem_recsOfAll_ok hb h).1
    · subst h; rfl

/-! ## steps of the machine -/

/-- a data rrset in add mode whose records fit the working copy: stored -/
theorem mid_add {fix : Bool} {o t inc ser udp f x z} {rs : RRset} {more : Bool}
    (ht : rs.rdtype ≠ soaType) (hz : isSubdomain rs.owner o = true) (hne : rs.rdatas ≠ [])
    (hc : Coherent (x.work ++ recsOf rs)) :
    ∃ x', procRRset fix (mid o t inc ser udp f false false x z) rs more =
        .ok (mid o t inc ser udp f false false x' z) ∧ x'.work ≃z (x.work ++ recsOf rs) := by
  refine ⟨⟨put x.work rs.owner rs.rdtype (unionTtl (existing x.work rs.owner rs.rdtype) rs.ttl)
      (unionData (isSingleton rs.rdtype) ((existing x.work rs.owner rs.rdtype).map (·.rdata)) rs.rdatas), true⟩, ?_,
    put_add_equiv hne hc⟩
  simp [mid, procRRset, ht, fallbackState, fallbackTxn, procData, hz, txnAdd]

/-- a run of data rrsets in add mode -/
theorem mid_adds {fix : Bool} {o t inc ser udp f z} : ∀ (l : List RRset) (x : Txn), BodyOk o l →
    Coherent (x.work ++ recsOfAll l) →
    ∃ x', procAnswers fix (mid o t inc ser udp f false false x z) l =
        .ok (mid o t inc ser udp f false false x' z) ∧ x'.work ≃z (x.work ++ recsOfAll l) := by
  intro l
  induction l with
  | nil => intro x _ _; exact ⟨x, by simp [procAnswers], by simp [recsOfAll_nil, Zone.equiv_refl]⟩
  | cons rs rest ih =>
    intro x hb hc
    have h1 := hb rs (by simp)
    rw [recsOfAll_cons, ← List.append_assoc] at hc
    obtain ⟨x1, e1, q1⟩ := mid_add (fix := fix) (o := o) (t := t) (inc := inc) (ser := ser) (udp := udp) (f := f)
      (z := z) (x := x) (more := !rest.isEmpty) h1.1 h1.2.1 h1.2.2
      (hc.subset fun r hr => List.mem_append.2 (Or.inl hr))
    obtain ⟨x2, e2, q2⟩ := ih x1 (fun r hr => hb r (by simp [hr]))
      (Coherent.congr (Zone.equiv_append q1 _) hc)
    refine ⟨x2, ?_, ?_⟩
    · unfold procAnswers; rw [e1]; exact e2
    · rw [recsOfAll_cons, ← List.append_assoc]
      exact Zone.equiv_trans q2 (Zone.equiv_append q1 _)

/-- the SOA that closes an AXFR (or an AXFR-style answer): replace the apex SOA and commit -/
theorem mid_final_axfr {o t ser udp x z} {d : Soa} {dm more : Bool}
    (hcn : ∀ q ∈ x.work, q.owner = o → kindOf q.rdtype ≠ .cname) :
    ∃ zf, procRRset false (mid o t false ser udp (soaRR o d) false dm x z) (soaRR o d) more =
        .ok (fin o t false ser udp (soaRR o d) false dm zf) ∧ zf ≃z putSoa o x.work d := by
  have hfin : isFinalSoa (mid o t false ser udp (soaRR o d) false dm x z) (soaRR o d) = true := by
    simp [isFinalSoa, eqFirst, mid, rrsetEq_soaRR]
  refine ⟨_, ?_, put_soa_equiv (ttl := d.ttl) (d := d.rdata) hcn⟩
  unfold procRRset
  simp only [hfin]
  simp [mid, fin, procFinalSoa, txnReplace, nextDm]

/-! ## AXFR -/

/-- the flat AXFR run: completes, and the zone is the version sent (whatever the zone was before) -/
theorem axfr_flat (o : Name) (v : Version) (z0 : Zone) (ser : Option Nat) (hb : BodyOk o v.body)
    (hco : Coherent (zoneOf o v)) :
    ∃ s', flatRun ⟨some o, axfrType, ser, false⟩ z0 (axfrStream o v) = .ok s' ∧ s'.done = true ∧
      s'.zone ≃z zoneOf o v := by
  have hsub : ∀ r ∈ ([] : Zone) ++ recsOfAll v.body, r ∈ zoneOf o v := fun r hr =>
    mem_zoneOf.2 (Or.inl (by simpa using hr))
  obtain ⟨x1, e1, q1⟩ := mid_adds (fix := false) (o := o) (t := axfrType) (inc := false) (ser := ser) (udp := false)
    (f := soaRR o v.soa) (z := z0) v.body ⟨[], false⟩ hb (hco.subset hsub)
  have hcn : ∀ q ∈ x1.work, q.owner = o → kindOf q.rdtype ≠ .cname := by
    intro q hq ho
    exact no_cname_beside hco (mem_zoneOf.2 (Or.inr rfl)) (soaRec_regular o v.soa) q (hsub q ((q1 q).1 hq)) ho
  obtain ⟨zf, e2, q2⟩ := mid_final_axfr (o := o) (t := axfrType) (ser := ser) (udp := false) (x := x1) (z := z0)
    (d := v.soa) (dm := false) (more := false) hcn
  refine ⟨fin o axfrType false ser false (soaRR o v.soa) false false zf, ?_, rfl, ?_⟩
  · have h0 : Inbound.init (some o) z0 axfrType ser false =
        .ok ⟨o, axfrType, false, ser, false, none, false, false, false, none, z0⟩ := by
      simp [Inbound.init, axfrType, ixfrType]
    have h1 : firstSoa (openTxn ⟨o, axfrType, false, ser, false, none, false, false, false, none, z0⟩) (soaRR o v.soa) false =
        .ok (mid o axfrType false ser false (soaRR o v.soa) false false ⟨[], false⟩ z0) := by
      simp [firstSoa, openTxn, writer, mid]
    unfold flatRun axfrStream
    simp only [h0, h1]
    rw [procAnswers_append, e1]
    simp only [procAnswers, List.isEmpty_nil, Bool.not_true]
    rw [e2]
  · intro r
    rw [fin_zone, q2 r, mem_putSoa, q1 r, mem_zoneOf]
    simp only [List.nil_append]
    constructor
    · rintro (⟨h, _⟩ | h)
      · exact Or.inl h
      · exact Or.inr h
    · rintro (h | h)
      · exact Or.inl ⟨h, fun hk => (mem_recsOfAll_ok hb h).1 hk.2⟩
      · exact Or.inr h

/-! ## out-of-zone records in a transfer are skipped -/

/-- rrsets a server may send in the body of a transfer, glue outside the zone included: not of type SOA,
not empty -/
def BodyOkOoz (l : List RRset) : Prop := ∀ rs ∈ l, rs.rdtype ≠ soaType ∧ rs.rdatas ≠ []

/-- the part of a body that belongs to the zone at `o` -/
def inZone (o : Name) (l : List RRset) : List RRset := l.filter fun rs => isSubdomain rs.owner o

/-- "Ignore glue that is not a subdomain of the origin": in add mode the state does not change -/
theorem mid_skip {fix : Bool} {o t inc ser udp f x z} {rs : RRset} {dm more : Bool}
    (ht : rs.rdtype ≠ soaType) (hz : isSubdomain rs.owner o = false) :
    procRRset fix (mid o t inc ser udp f false dm x z) rs more = .ok (mid o t inc ser udp f false dm x z) := by
  simp [mid, procRRset, ht, fallbackState, fallbackTxn, procData, hz]

/-- a run of data rrsets in add mode, some of them outside the zone: the ones inside are stored -/
theorem mid_adds_ooz {fix : Bool} {o t inc ser udp f z} : ∀ (l : List RRset) (x : Txn), BodyOkOoz l →
    Coherent (x.work ++ recsOfAll (inZone o l)) →
    ∃ x', procAnswers fix (mid o t inc ser udp f false false x z) l =
        .ok (mid o t inc ser udp f false false x' z) ∧ x'.work ≃z (x.work ++ recsOfAll (inZone o l)) := by
  intro l
  induction l with
  | nil => intro x _ _; exact ⟨x, by simp [procAnswers], by simp [inZone, recsOfAll_nil, Zone.equiv_refl]⟩
  | cons rs rest ih =>
    intro x hb hc
    have h1 := hb rs (by simp)
    have hbr : BodyOkOoz rest := fun r hr => hb r (by simp [hr])
    cases hz : isSubdomain rs.owner o with
    | false =>
      have hin : inZone o (rs :: rest) = inZone o rest := by simp [inZone, hz]
      rw [hin] at hc ⊢
      obtain ⟨x2, e2, q2⟩ := ih x hbr hc
      exact ⟨x2, by unfold procAnswers; rw [mid_skip h1.1 hz]; exact e2, q2⟩
    | true =>
      have hin : inZone o (rs :: rest) = rs :: inZone o rest := by simp [inZone, hz]
      rw [hin, recsOfAll_cons, ← List.append_assoc] at hc
      obtain ⟨x1, e1, q1⟩ := mid_add (fix := fix) (o := o) (t := t) (inc := inc) (ser := ser) (udp := udp) (f := f)
        (z := z) (x := x) (more := !rest.isEmpty) h1.1 hz h1.2 (hc.subset fun r hr => List.mem_append.2 (Or.inl hr))
      obtain ⟨x2, e2, q2⟩ := ih x1 hbr (Coherent.congr (Zone.equiv_append q1 _) hc)
      refine ⟨x2, by unfold procAnswers; rw [e1]; exact e2, ?_⟩
      rw [hin, recsOfAll_cons, ← List.append_assoc]
      exact Zone.equiv_trans q2 (Zone.equiv_append q1 _)

theorem bodyOk_inZone {o : Name} {l : List RRset} (h : BodyOkOoz l) : BodyOk o (inZone o l) := by
  intro rs hrs
  simp only [inZone, List.mem_filter] at hrs
  exact ⟨(h rs hrs.1).1, hrs.2, (h rs hrs.1).2⟩

/-- the flat AXFR run with glue outside the zone in the body: completes, and the zone is the in-zone part
of the version sent -/
theorem axfr_flat_ooz (o : Name) (v : Version) (z0 : Zone) (ser : Option Nat) (hb : BodyOkOoz v.body)
    (hco : Coherent (zoneOf o ⟨v.soa, inZone o v.body⟩)) :
    ∃ s', flatRun ⟨some o, axfrType, ser, false⟩ z0 (axfrStream o v) = .ok s' ∧ s'.done = true ∧
      s'.zone ≃z zoneOf o ⟨v.soa, inZone o v.body⟩ := by
  have hbi := bodyOk_inZone (o := o) hb
  have hsub : ∀ r ∈ ([] : Zone) ++ recsOfAll (inZone o v.body), r ∈ zoneOf o ⟨v.soa, inZone o v.body⟩ := fun r hr =>
    mem_zoneOf.2 (Or.inl (by simpa using hr))
  obtain ⟨x1, e1, q1⟩ := mid_adds_ooz (fix := false) (o := o) (t := axfrType) (inc := false) (ser := ser) (udp := false)
    (f := soaRR o v.soa) (z := z0) v.body ⟨[], false⟩ hb (hco.subset hsub)
  have hcn : ∀ q ∈ x1.work, q.owner = o → kindOf q.rdtype ≠ .cname := by
    intro q hq ho
    exact no_cname_beside hco (mem_zoneOf.2 (Or.inr rfl)) (soaRec_regular o v.soa) q (hsub q ((q1 q).1 hq)) ho
  obtain ⟨zf, e2, q2⟩ := mid_final_axfr (o := o) (t := axfrType) (ser := ser) (udp := false) (x := x1) (z := z0)
    (d := v.soa) (dm := false) (more := false) hcn
  refine ⟨fin o axfrType false ser false (soaRR o v.soa) false false zf, ?_, rfl, ?_⟩
  · have h0 : Inbound.init (some o) z0 axfrType ser false =
        .ok ⟨o, axfrType, false, ser, false, none, false, false, false, none, z0⟩ := by
      simp [Inbound.init, axfrType, ixfrType]
    have h1 : firstSoa (openTxn ⟨o, axfrType, false, ser, false, none, false, false, false, none, z0⟩) (soaRR o v.soa) false =
        .ok (mid o axfrType false ser false (soaRR o v.soa) false false ⟨[], false⟩ z0) := by
      simp [firstSoa, openTxn, writer, mid]
    unfold flatRun axfrStream
    simp only [h0, h1]
    rw [procAnswers_append, e1]
    simp only [procAnswers, List.isEmpty_nil, Bool.not_true]
    rw [e2]
  · intro r
    rw [fin_zone, q2 r, mem_putSoa, q1 r, mem_zoneOf]
    simp only [List.nil_append]
    constructor
    · rintro (⟨h, _⟩ | h)
      · exact Or.inl h
      · exact Or.inr h
    · rintro (h | h)
      · exact Or.inl ⟨h, fun hk => (mem_recsOfAll_ok hbi h).1 hk.2⟩
      · exact Or.inr h

/-! ## IXFR: the machine applies the difference sequences one after the other -/

/-- `delete_exact` of the records `dels`, one at a time -/
def delAll (w : Zone) (dels : List RR) : Zone :=
  dels.foldl (fun w r => w.filter fun q => ¬ (q ∈ [r])) w

/-- what one difference sequence does to the working copy -/
def applyStep (o : Name) (w : Zone) (st : Step) : Zone := putSoa o (delAll w st.dels) st.soa ++ st.adds

def applyAll (o : Name) (w : Zone) (steps : List Step) : Zone := steps.foldl (applyStep o) w

theorem mem_delAll : ∀ (dels : List RR) (w : Zone) (q : RR), q ∈ delAll w dels ↔ q ∈ w ∧ q ∉ dels := by
  intro dels
  induction dels with
  | nil => intro w q; simp [delAll]
  | cons r rest ih =>
    intro w q
    simp only [delAll, List.foldl_cons] at ih ⊢
    rw [ih]
    simp only [List.mem_filter, decide_eq_true_eq, List.mem_cons, not_or, List.not_mem_nil, or_false]
    constructor
    · rintro ⟨⟨h1, h2⟩, h3⟩; exact ⟨h1, h2, h3⟩
    · rintro ⟨h1, h2, h3⟩; exact ⟨⟨h1, h2⟩, h3⟩

theorem mem_applyStep {o : Name} {w : Zone} {st : Step} {r : RR} :
    r ∈ applyStep o w st ↔
      ((r ∈ w ∧ r ∉ st.dels) ∧ ¬ (r.owner = o ∧ r.rdtype = soaType)) ∨ r = soaRec o st.soa ∨ r ∈ st.adds := by
  simp only [applyStep, List.mem_append, mem_putSoa, mem_delAll, or_assoc]

theorem applyStep_congr {o : Name} {w w' : Zone} (h : w ≃z w') (st : Step) :
    applyStep o w st ≃z applyStep o w' st := by
  intro r; rw [mem_applyStep, mem_applyStep, h r]

theorem applyAll_congr {o : Name} : ∀ (steps : List Step) {w w' : Zone}, w ≃z w' →
    applyAll o w steps ≃z applyAll o w' steps := by
  intro steps
  induction steps with
  | nil => intro w w' h; exact h
  | cons st rest ih => intro w w' h; exact ih (applyStep_congr h st)

/-- the SOA that opens a deletion set: checked against the current serial, nothing stored -/
theorem mid_delstart {fix : Bool} {o t b udp x z} {dn cur : Soa} {exp more : Bool}
    (hne : cur.rdata ≠ dn.rdata) (hser : cur.rdata.serial = b) :
    procRRset fix (mid o t true (some b) udp (soaRR o dn) exp false x z) (soaRR o cur) more =
      .ok (mid o t true (some b) udp (soaRR o dn) false true x z) := by
  have hfin : isFinalSoa (mid o t true (some b) udp (soaRR o dn) exp false x z) (soaRR o cur) = false := by
    simp [isFinalSoa, eqFirst, mid, rrsetEq_soaRR, hne]
  unfold procRRset
  simp only [hfin]
  simp [mid, procOtherSoa, nextDm, hser]

/-- a record of a deletion set that is present in a coherent working copy: removed -/
theorem mid_del {fix : Bool} {o t ser udp f x z} {r : RR} {more : Bool}
    (ht : r.rdtype ≠ soaType) (hz : isSubdomain r.owner o = true) (hc : Coherent x.work) (hin : r ∈ x.work) :
    ∃ x', procRRset fix (mid o t true ser udp f false true x z) (single r) more =
        .ok (mid o t true ser udp f false true x' z) ∧ x'.work ≃z (x.work.filter fun q => ¬ (q ∈ [r])) := by
  refine ⟨⟨if (remaining x.work r.owner r.rdtype [r.rdata]).isEmpty then
        x.work.filter fun q => !(q.owner == r.owner && q.rdtype == r.rdtype)
      else put x.work r.owner r.rdtype (ttlOf (existing x.work r.owner r.rdtype))
        (remaining x.work r.owner r.rdtype [r.rdata]), true⟩, ?_, delete_one_equiv hc hin⟩
  have hcont' : ∃ a, a ∈ existing x.work r.owner r.rdtype ∧ a.rdata = r.rdata :=
    ⟨r, mem_existing.2 ⟨hin, rfl, rfl⟩, rfl⟩
  by_cases hemp : (remaining x.work r.owner r.rdtype [r.rdata]).isEmpty = true
  · simp [mid, procRRset, ht, fallbackState, fallbackTxn, procData, hz, txnDeleteExact, single, hemp, hcont']
  · simp [mid, procRRset, ht, fallbackState, fallbackTxn, procData, hz, txnDeleteExact, single, hemp, hcont']

theorem mid_dels {fix : Bool} {o t ser udp f z} : ∀ (dels : List RR) (x : Txn), Coherent x.work →
    (∀ r ∈ dels, r.rdtype ≠ soaType ∧ isSubdomain r.owner o = true ∧ r ∈ x.work) → dels.Nodup →
    ∃ x', procAnswers fix (mid o t true ser udp f false true x z) (dels.map single) =
        .ok (mid o t true ser udp f false true x' z) ∧ x'.work ≃z delAll x.work dels := by
  intro dels
  induction dels with
  | nil => intro x _ _ _; exact ⟨x, by simp [procAnswers], by simp [delAll, Zone.equiv_refl]⟩
  | cons r rest ih =>
    intro x hc h hnd
    have h1 := h r (by simp)
    have hnd' := List.nodup_cons.mp hnd
    obtain ⟨x1, e1, q1⟩ := mid_del (fix := fix) (o := o) (t := t) (ser := ser) (udp := udp) (f := f) (z := z)
      (more := !(rest.map single).isEmpty) h1.1 h1.2.1 hc h1.2.2
    have hc1 : Coherent x1.work := hc.subset fun q hq => (List.mem_filter.1 ((q1 q).1 hq)).1
    obtain ⟨x2, e2, q2⟩ := ih x1 hc1 (fun q hq => by
      have hq' := h q (by simp [hq])
      refine ⟨hq'.1, hq'.2.1, (q1 q).2 ?_⟩
      simp only [List.mem_filter, List.mem_singleton, decide_eq_true_eq]
      exact ⟨hq'.2.2, fun e => hnd'.1 (e ▸ hq)⟩) hnd'.2
    refine ⟨x2, ?_, ?_⟩
    · simp only [List.map_cons]; unfold procAnswers; rw [e1]; exact e2
    · intro q
      rw [q2 q, mem_delAll, q1 q, mem_delAll]
      simp only [List.mem_filter, decide_eq_true_eq, List.mem_cons, not_or, List.not_mem_nil, not_false_eq_true,
        and_true]
      constructor
      · rintro ⟨⟨a, b⟩, c⟩; exact ⟨a, b, c⟩
      · rintro ⟨a, b, c⟩; exact ⟨⟨a, b⟩, c⟩

/-- the SOA that opens an addition set: the serial moves on and the apex SOA is replaced -/
theorem mid_addstart {fix : Bool} {o t ser udp f x z} {d : Soa} {more : Bool}
    (hcn : ∀ q ∈ x.work, q.owner = o → kindOf q.rdtype ≠ .cname) :
    ∃ x', procRRset fix (mid o t true ser udp f false true x z) (soaRR o d) more =
        .ok (mid o t true (some d.rdata.serial) udp f false false x' z) ∧ x'.work ≃z putSoa o x.work d := by
  have hfin : isFinalSoa (mid o t true ser udp f false true x z) (soaRR o d) = false := by
    simp [isFinalSoa, mid, nextDm]
  refine ⟨⟨put x.work o soaType d.ttl [d.rdata], true⟩, ?_, put_soa_equiv hcn⟩
  unfold procRRset
  simp only [hfin]
  simp [mid, procOtherSoa, nextDm, txnReplace]

/-- the SOA that closes an IXFR: it equals the first one, arrives where a deletion set would start, and
the serial reached is its serial -/
theorem mid_final_ixfr {o t udp x z} {dn : Soa} {more : Bool}
    (hcn : ∀ q ∈ x.work, q.owner = o → kindOf q.rdtype ≠ .cname) :
    ∃ zf, procRRset false (mid o t true (some dn.rdata.serial) udp (soaRR o dn) false false x z) (soaRR o dn) more =
        .ok (fin o t true (some dn.rdata.serial) udp (soaRR o dn) false true zf) ∧ zf ≃z putSoa o x.work dn := by
  have hfin : isFinalSoa (mid o t true (some dn.rdata.serial) udp (soaRR o dn) false false x z) (soaRR o dn) = true := by
    simp [isFinalSoa, eqFirst, mid, rrsetEq_soaRR, nextDm]
  refine ⟨put x.work o soaType dn.ttl [dn.rdata], ?_, put_soa_equiv hcn⟩
  unfold procRRset
  simp only [hfin]
  simp [mid, fin, procFinalSoa, txnReplace, nextDm]

/-- side conditions of a list of difference sequences applied to the working copy `w`, the current SOA
being `cur` and the server's final SOA `dn`: no older SOA is the final one; deletions name records that
are there, once each; additions are data of the zone; every version passed through is coherent -/
def StepsOk (o : Name) (dn : Soa) : Soa → Zone → List Step → Prop
  | _, _, [] => True
  | cur, w, st :: rest =>
    cur.rdata ≠ dn.rdata ∧ (∀ r ∈ st.dels, r.rdtype ≠ soaType ∧ isSubdomain r.owner o = true ∧ r ∈ w) ∧ st.dels.Nodup ∧
      (∀ r ∈ st.adds, r.rdtype ≠ soaType ∧ isSubdomain r.owner o = true) ∧ Coherent (applyStep o w st) ∧
      StepsOk o dn st.soa (applyStep o w st) rest

theorem StepsOk.congr {o : Name} {dn : Soa} : ∀ (steps : List Step) {cur : Soa} {w w' : Zone}, w ≃z w' →
    StepsOk o dn cur w steps → StepsOk o dn cur w' steps := by
  intro steps
  induction steps with
  | nil => intro _ _ _ _ _; trivial
  | cons st rest ih =>
    intro cur w w' h hs
    obtain ⟨a, b, c, d, e, f⟩ := hs
    have hq := applyStep_congr (o := o) h st
    exact ⟨a, fun r hr => ⟨(b r hr).1, (b r hr).2.1, (h r).1 (b r hr).2.2⟩, c, d,
      Coherent.congr (Zone.equiv_symm hq) e, ih hq f⟩

theorem bodyOk_singles {o : Name} {l : List RR} (h : ∀ r ∈ l, r.rdtype ≠ soaType ∧ isSubdomain r.owner o = true) :
    BodyOk o (l.map single) := by
  intro rs hrs
  simp only [List.mem_map] at hrs
  obtain ⟨r, hr, rfl⟩ := hrs
  exact ⟨(h r hr).1, (h r hr).2, by simp [single]⟩

/-- one difference sequence -/
theorem mid_step {o t udp z} {dn cur : Soa} {st : Step} {x : Txn} {exp : Bool} (hc : Coherent x.work)
    (hne : cur.rdata ≠ dn.rdata)
    (hdel : ∀ r ∈ st.dels, r.rdtype ≠ soaType ∧ isSubdomain r.owner o = true ∧ r ∈ x.work) (hnd : st.dels.Nodup)
    (hadd : ∀ r ∈ st.adds, r.rdtype ≠ soaType ∧ isSubdomain r.owner o = true)
    (hco : Coherent (applyStep o x.work st)) :
    ∃ x', procAnswers false (mid o t true (some cur.rdata.serial) udp (soaRR o dn) exp false x z)
        (soaRR o cur :: (st.dels.map single ++ (soaRR o st.soa :: st.adds.map single))) =
        .ok (mid o t true (some st.soa.rdata.serial) udp (soaRR o dn) false false x' z) ∧
      x'.work ≃z applyStep o x.work st := by
  obtain ⟨x1, e1, q1⟩ := mid_dels (fix := false) (o := o) (t := t) (ser := some cur.rdata.serial) (udp := udp)
    (f := soaRR o dn) (z := z) st.dels x hc hdel hnd
  -- no CNAME at the apex once the deletions are done: it would sit next to the new SOA
  have hcn : ∀ q ∈ x1.work, q.owner = o → kindOf q.rdtype ≠ .cname := by
    intro q hq ho hk
    have hq' := (q1 q).1 hq
    have hns : q.rdtype ≠ soaType := fun e => by rw [e, kindOf_soa] at hk; cases hk
    have hin : q ∈ applyStep o x.work st := by
      rw [mem_applyStep]; exact Or.inl ⟨(mem_delAll _ _ _).1 hq', fun hk' => hns hk'.2⟩
    have hs : soaRec o st.soa ∈ applyStep o x.work st := by rw [mem_applyStep]; exact Or.inr (Or.inl rfl)
    exact no_cname_beside hco hs (soaRec_regular o st.soa) q hin ho hk
  obtain ⟨x2, e2, q2⟩ := mid_addstart (fix := false) (o := o) (t := t) (ser := some cur.rdata.serial) (udp := udp)
    (f := soaRR o dn) (x := x1) (z := z) (d := st.soa) (more := !(st.adds.map single).isEmpty) hcn
  have hq2 : (x2.work ++ recsOfAll (st.adds.map single)) ≃z applyStep o x.work st := by
    rw [recsOfAll_singles]
    intro r
    simp only [List.mem_append, applyStep]
    rw [q2 r, mem_putSoa, mem_putSoa, q1 r]
  obtain ⟨x3, e3, q3⟩ := mid_adds (fix := false) (o := o) (t := t) (inc := true) (ser := some st.soa.rdata.serial)
    (udp := udp) (f := soaRR o dn) (z := z) (st.adds.map single) x2 (bodyOk_singles hadd) (Coherent.congr hq2 hco)
  refine ⟨x3, ?_, Zone.equiv_trans q3 hq2⟩
  rw [procAnswers, mid_delstart hne rfl]
  simp only []
  rw [procAnswers_append, e1]
  simp only []
  rw [procAnswers, e2]
  exact e3

/-- all difference sequences, one after the other -/
theorem mid_steps {o t udp z} {dn : Soa} : ∀ (steps : List Step) (cur : Soa) (x : Txn) (exp : Bool),
    Coherent x.work → StepsOk o dn cur x.work steps →
    ∃ x', procAnswers false (mid o t true (some cur.rdata.serial) udp (soaRR o dn) exp false x z) (ixfrSteps o cur steps) =
        .ok (mid o t true (some (lastSoa cur steps).rdata.serial) udp (soaRR o dn) (exp && steps.isEmpty) false x' z) ∧
      x'.work ≃z applyAll o x.work steps ∧ Coherent x'.work := by
  intro steps
  induction steps with
  | nil =>
    intro cur x exp hc _
    exact ⟨x, by simp [procAnswers, ixfrSteps, lastSoa], by simp [applyAll, Zone.equiv_refl], hc⟩
  | cons st rest ih =>
    intro cur x exp hc h
    obtain ⟨hne, hdel, hnd, hadd, hco, hrest⟩ := h
    obtain ⟨x1, e1, q1⟩ := mid_step (o := o) (t := t) (udp := udp) (z := z) (dn := dn) (cur := cur) (st := st)
      (x := x) (exp := exp) hc hne hdel hnd hadd hco
    have hc1 : Coherent x1.work := Coherent.congr q1 hco
    obtain ⟨x2, e2, q2, hc2⟩ := ih st.soa x1 false hc1 (StepsOk.congr rest (Zone.equiv_symm q1) hrest)
    refine ⟨x2, ?_, ?_, hc2⟩
    · have hsplit : ixfrSteps o cur (st :: rest) =
          (soaRR o cur :: (st.dels.map single ++ (soaRR o st.soa :: st.adds.map single))) ++ ixfrSteps o st.soa rest := by
        simp [ixfrSteps]
      rw [hsplit, procAnswers_append, e1]
      simp only []
      rw [e2]
      simp [lastSoa]
    · exact Zone.equiv_trans q2 (applyAll_congr rest q1)

theorem soaRec_mem_applyAll {o : Name} : ∀ (steps : List Step) (cur : Soa) (w : Zone), steps ≠ [] →
    soaRec o (lastSoa cur steps) ∈ applyAll o w steps := by
  intro steps
  induction steps with
  | nil => intro _ _ h; exact absurd rfl h
  | cons st rest ih =>
    intro cur w _
    cases rest with
    | nil =>
      have : soaRec o st.soa ∈ applyStep o w st := mem_applyStep.2 (Or.inr (Or.inl rfl))
      simpa [applyAll, lastSoa] using this
    | cons st2 rest2 => exact ih st.soa (applyStep o w st) (by simp)

/-- the flat IXFR run: completes; the zone is what the difference sequences make of the zone before,
under the final SOA -/
theorem ixfr_flat (o : Name) (cur : Soa) (steps : List Step) (z0 : Zone) (udp : Bool) (hne : steps ≠ [])
    (hs1 : (lastSoa cur steps).rdata.serial ≠ cur.rdata.serial)
    (hs2 : serialLt (lastSoa cur steps).rdata.serial cur.rdata.serial = false)
    (hc0 : Coherent z0) (hok : StepsOk o (lastSoa cur steps) cur z0 steps) :
    ∃ zf, flatRun ⟨some o, ixfrType, some cur.rdata.serial, udp⟩ z0 (ixfrStream o cur steps) =
        .ok (fin o ixfrType true (some (lastSoa cur steps).rdata.serial) udp (soaRR o (lastSoa cur steps)) false true zf) ∧
      zf ≃z putSoa o (applyAll o z0 steps) (lastSoa cur steps) := by
  have h0 : Inbound.init (some o) z0 ixfrType (some cur.rdata.serial) udp =
      .ok ⟨o, ixfrType, true, some cur.rdata.serial, udp, none, false, false, false, none, z0⟩ := by
    simp [Inbound.init]
  have h1 : firstSoa (openTxn ⟨o, ixfrType, true, some cur.rdata.serial, udp, none, false, false, false, none, z0⟩)
      (soaRR o (lastSoa cur steps)) false =
      .ok (mid o ixfrType true (some cur.rdata.serial) udp (soaRR o (lastSoa cur steps)) true false ⟨z0, false⟩ z0) := by
    simp [firstSoa, openTxn, writer, mid, hs1, hs2]
  obtain ⟨x1, e1, q1, hc1⟩ := mid_steps (o := o) (t := ixfrType) (udp := udp) (z := z0) (dn := lastSoa cur steps)
    steps cur ⟨z0, false⟩ true hc0 hok
  have hcn : ∀ q ∈ x1.work, q.owner = o → kindOf q.rdtype ≠ .cname :=
    no_cname_beside hc1 ((q1 _).2 (soaRec_mem_applyAll steps cur z0 hne)) (soaRec_regular o _)
  obtain ⟨zf, e2, q2⟩ := mid_final_ixfr (o := o) (t := ixfrType) (udp := udp) (x := x1) (z := z0)
    (dn := lastSoa cur steps) (more := false) hcn
  refine ⟨zf, ?_, ?_⟩
  · unfold flatRun ixfrStream
    simp only [h0, h1]
    rw [procAnswers_append, e1]
    have he : steps.isEmpty = false := by cases steps <;> simp_all
    simp only [he, Bool.and_false, procAnswers, List.isEmpty_nil, Bool.not_true]
    rw [e2]
  · intro r; rw [q2 r, mem_putSoa, mem_putSoa, q1 r]

/-! ## IXFR between zone versions: the difference sequences a server computes -/

/-- A zone version that can be served: its rrsets are in the zone, not empty, none is an SOA, no record
twice, and it is a coherent zone (one TTL per rrset, no CNAME next to other data, one rdata per singleton). -/
structure WfVersion (o : Name) (v : Version) : Prop where
  body : BodyOk o v.body
  nodup : (recsOfAll v.body).Nodup
  coherent : Coherent (zoneOf o v)

/-- the difference sequence from version `a` to version `b`, on records with their TTLs (an rrset whose
TTL changes is removed and added again) -/
def diffStep (a b : Version) : Step :=
  ⟨(recsOfAll a.body).filter (fun r => r ∉ recsOfAll b.body), b.soa,
   (recsOfAll b.body).filter (fun r => r ∉ recsOfAll a.body)⟩

def diffSteps (a : Version) : List Version → List Step
  | [] => []
  | b :: rest => diffStep a b :: diffSteps b rest

def lastVersion (a : Version) : List Version → Version
  | [] => a
  | b :: rest => lastVersion b rest

theorem lastSoa_diffSteps : ∀ (vs : List Version) (a : Version),
    lastSoa a.soa (diffSteps a vs) = (lastVersion a vs).soa := by
  intro vs
  induction vs with
  | nil => intro a; rfl
  | cons b rest ih => intro a; simp [diffSteps, lastSoa, lastVersion, diffStep, ih b]

/-- one difference sequence takes (any list representing) version `a` to version `b` -/
theorem applyStep_diff {o : Name} {a b : Version} {w : Zone} (hw : w ≃z zoneOf o a)
    (hb : BodyOk o b.body) : applyStep o w (diffStep a b) ≃z zoneOf o b := by
  intro r
  rw [mem_applyStep]
  simp only [diffStep, List.mem_filter, decide_eq_true_eq, mem_zoneOf]
  rw [hw r, mem_zoneOf]
  constructor
  · rintro (⟨⟨hra | hra, hnd⟩, hk⟩ | h | ⟨h, _⟩)
    · left
      by_cases hrb : r ∈ recsOfAll b.body
      · exact hrb
      · exact absurd ⟨hra, hrb⟩ hnd
    · subst hra; exact absurd ⟨rfl, rfl⟩ hk
    · exact Or.inr h
    · exact Or.inl h
  · rintro (hrb | h)
    · by_cases hra : r ∈ recsOfAll a.body
      · left
        exact ⟨⟨Or.inl hra, fun hx => hx.2 hrb⟩, fun hk => (mem_recsOfAll_ok hb hrb).1 hk.2⟩
      · right; right; exact ⟨hrb, hra⟩
    · right; left; exact h

/-- replacing the apex SOA of (a list representing) a version by that same SOA changes nothing -/
theorem putSoa_same {o : Name} {v : Version} {w : Zone} (hw : w ≃z zoneOf o v) (hb : BodyOk o v.body) :
    putSoa o w v.soa ≃z zoneOf o v := by
  intro r
  rw [mem_putSoa, hw r, mem_zoneOf]
  constructor
  · rintro (⟨h | h, hk⟩ | h)
    · exact Or.inl h
    · exact Or.inr h
    · exact Or.inr h
  · rintro (h | h)
    · exact Or.inl ⟨Or.inl h, fun hk => (mem_recsOfAll_ok hb h).1 hk.2⟩
    · exact Or.inr h

theorem stepsOk_diff {o : Name} {dn : Soa} : ∀ (vs : List Version) (a : Version) (w : Zone),
    w ≃z zoneOf o a → WfVersion o a → (∀ v ∈ vs, WfVersion o v) →
    (∀ v ∈ (a :: vs).dropLast, v.soa.rdata ≠ dn.rdata) →
    StepsOk o dn a.soa w (diffSteps a vs) ∧ applyAll o w (diffSteps a vs) ≃z zoneOf o (lastVersion a vs) := by
  intro vs
  induction vs with
  | nil => intro a w hw _ _ _; exact ⟨trivial, hw⟩
  | cons b rest ih =>
    intro a w hw ha hvs hd
    have hb := hvs b (by simp)
    have hstep := applyStep_diff (a := a) hw hb.body
    have hrec := ih b (applyStep o w (diffStep a b)) hstep hb (fun v hv => hvs v (by simp [hv]))
      (fun v hv => hd v (by
        cases rest with
        | nil => simp at hv
        | cons c cs => simp only [List.dropLast_cons_cons, List.mem_cons] at hv ⊢; exact Or.inr hv))
    refine ⟨⟨hd a (by simp [List.dropLast]), ?_, ?_, ?_, Coherent.congr hstep hb.coherent, hrec.1⟩, ?_⟩
    · intro r hr
      simp only [diffStep, List.mem_filter] at hr
      have := mem_recsOfAll_ok ha.body hr.1
      exact ⟨this.1, this.2, (hw r).2 (mem_zoneOf.2 (Or.inl hr.1))⟩
    · exact ha.nodup.filter _
    · intro r hr
      simp only [diffStep, List.mem_filter] at hr
      exact mem_recsOfAll_ok hb.body hr.1
    · simpa [diffSteps, applyAll, lastVersion] using hrec.2

theorem wf_lastVersion {o : Name} : ∀ (vs : List Version) (a : Version), WfVersion o a →
    (∀ v ∈ vs, WfVersion o v) → WfVersion o (lastVersion a vs) := by
  intro vs
  induction vs with
  | nil => intro a ha _; exact ha
  | cons b rest ih => intro a _ hvs; exact ih b (hvs b (by simp)) (fun v hv => hvs v (by simp [hv]))

/-- the flat IXFR run between versions: completes, and the zone is the last version -/
theorem ixfr_versions_flat (o : Name) (v0 : Version) (vs : List Version) (z0 : Zone) (udp : Bool)
    (hne : vs ≠ []) (hz0 : z0 ≃z zoneOf o v0) (hv0 : WfVersion o v0) (hvs : ∀ v ∈ vs, WfVersion o v)
    (hdist : ∀ v ∈ (v0 :: vs).dropLast, v.soa.rdata ≠ (lastVersion v0 vs).soa.rdata)
    (hs1 : (lastVersion v0 vs).soa.rdata.serial ≠ v0.soa.rdata.serial)
    (hs2 : serialLt (lastVersion v0 vs).soa.rdata.serial v0.soa.rdata.serial = false) :
    ∃ s', flatRun ⟨some o, ixfrType, some v0.soa.rdata.serial, udp⟩ z0 (ixfrStream o v0.soa (diffSteps v0 vs)) = .ok s' ∧
      s'.done = true ∧ s'.zone ≃z zoneOf o (lastVersion v0 vs) := by
  have hl := lastSoa_diffSteps vs v0
  have hsteps : diffSteps v0 vs ≠ [] := by cases vs <;> simp_all [diffSteps]
  have hok := stepsOk_diff (dn := (lastVersion v0 vs).soa) vs v0 z0 hz0 hv0 hvs hdist
  have hlast := wf_lastVersion vs v0 hv0 hvs
  obtain ⟨zf, hf, hq⟩ := ixfr_flat o v0.soa (diffSteps v0 vs) z0 udp hsteps (by rw [hl]; exact hs1)
    (by rw [hl]; exact hs2) (Coherent.congr hz0 hv0.coherent) (by rw [hl]; exact hok.1)
  refine ⟨_, hf, rfl, ?_⟩
  rw [fin_zone]
  rw [hl] at hq
  exact Zone.equiv_trans hq (putSoa_same hok.2 hlast.body)

/-! ## AXFR-style answer to an IXFR request -/

/-- the first data rrset after the first SOA, while another SOA was expected: roll back, start a
replacement transaction, store the rrset -/
theorem mid_fallback_add {fix : Bool} {o t inc ser udp f dm x z} {rs : RRset} {more : Bool}
    (ht : rs.rdtype ≠ soaType) (hz : isSubdomain rs.owner o = true) (hne : rs.rdatas ≠ [])
    (hc : Coherent (recsOf rs)) :
    ∃ x', procRRset fix (mid o t inc ser udp f true dm x z) rs more =
        .ok (mid o t false ser udp f false false x' z) ∧ x'.work ≃z recsOf rs := by
  refine ⟨⟨put [] rs.owner rs.rdtype (unionTtl (existing [] rs.owner rs.rdtype) rs.ttl)
      (unionData (isSingleton rs.rdtype) ((existing [] rs.owner rs.rdtype).map (·.rdata)) rs.rdatas), true⟩, ?_, ?_⟩
  · simp [mid, procRRset, ht, fallbackState, fallbackTxn, procData, hz, txnAdd, writer]
  · have := put_add_equiv (w := []) hne (by simpa using hc)
    simpa using this

theorem axfr_style_flat (o : Name) (v : Version) (z0 : Zone) (b : Nat) (hb : BodyOk o v.body)
    (hco : Coherent (zoneOf o v))
    (hne : v.body ≠ []) (hs1 : v.soa.rdata.serial ≠ b) (hs2 : serialLt v.soa.rdata.serial b = false) :
    ∃ s', flatRun ⟨some o, ixfrType, some b, false⟩ z0 (axfrStream o v) = .ok s' ∧ s'.done = true ∧
      s'.zone ≃z zoneOf o v := by
  cases hbody : v.body with
  | nil => exact absurd hbody hne
  | cons rs0 rest =>
    have hb0 := hb rs0 (by simp [hbody])
    have hbr : BodyOk o rest := fun r hr => hb r (by simp [hbody, hr])
    have hsub : ∀ r ∈ recsOf rs0 ++ recsOfAll rest, r ∈ zoneOf o v := fun r hr =>
      mem_zoneOf.2 (Or.inl (by rw [hbody, recsOfAll_cons]; exact hr))
    obtain ⟨x0, e0, q0⟩ := mid_fallback_add (fix := false) (o := o) (t := ixfrType) (inc := true) (ser := some b)
      (udp := false) (f := soaRR o v.soa) (dm := false) (x := ⟨z0, false⟩) (z := z0) (more := !(rest ++ [soaRR o v.soa]).isEmpty)
      hb0.1 hb0.2.1 hb0.2.2 (hco.subset fun r hr => hsub r (List.mem_append.2 (Or.inl hr)))
    obtain ⟨x1, e1, q1⟩ := mid_adds (fix := false) (o := o) (t := ixfrType) (inc := false) (ser := some b) (udp := false)
      (f := soaRR o v.soa) (z := z0) rest x0 hbr
      (Coherent.congr (Zone.equiv_append q0 _) (hco.subset hsub))
    have hq1 : x1.work ≃z (recsOf rs0 ++ recsOfAll rest) := Zone.equiv_trans q1 (Zone.equiv_append q0 _)
    have hcn : ∀ q ∈ x1.work, q.owner = o → kindOf q.rdtype ≠ .cname := by
      intro q hq ho
      exact no_cname_beside hco (mem_zoneOf.2 (Or.inr rfl)) (soaRec_regular o v.soa) q (hsub q ((hq1 q).1 hq)) ho
    obtain ⟨zf, e2, q2⟩ := mid_final_axfr (o := o) (t := ixfrType) (ser := some b) (udp := false) (x := x1) (z := z0)
      (d := v.soa) (dm := false) (more := false) hcn
    refine ⟨fin o ixfrType false (some b) false (soaRR o v.soa) false false zf, ?_, rfl, ?_⟩
    · have h0 : Inbound.init (some o) z0 ixfrType (some b) false =
          .ok ⟨o, ixfrType, true, some b, false, none, false, false, false, none, z0⟩ := by
        simp [Inbound.init]
      have h1 : firstSoa (openTxn ⟨o, ixfrType, true, some b, false, none, false, false, false, none, z0⟩)
          (soaRR o v.soa) false =
          .ok (mid o ixfrType true (some b) false (soaRR o v.soa) true false ⟨z0, false⟩ z0) := by
        simp [firstSoa, openTxn, writer, mid, hs1, hs2]
      unfold flatRun axfrStream
      simp only [h0, h1, hbody, List.cons_append]
      rw [procAnswers, e0]
      simp only []
      rw [procAnswers_append, e1]
      simp only [procAnswers, List.isEmpty_nil, Bool.not_true]
      rw [e2]
    · intro r
      rw [fin_zone, q2 r, mem_putSoa, hq1 r, mem_zoneOf, hbody, recsOfAll_cons]
      constructor
      · rintro (⟨h, _⟩ | h)
        · exact Or.inl h
        · exact Or.inr h
      · rintro (h | h)
        · refine Or.inl ⟨h, fun hk => ?_⟩
          have : r ∈ recsOfAll v.body := by rw [hbody, recsOfAll_cons]; exact h
          exact (mem_recsOfAll_ok hb this).1 hk.2
        · exact Or.inr h

/-! ## one UDP datagram; the up-to-date answer; the truncated UDP answer -/

/-- A UDP IXFR is one message: the run is the flat run over its answer section. -/
theorem run_udp_single {c : Config} {z0 : Zone} {m : Msg} {rr0 r1 : RRset} {rest : List RRset} {s' : Inbound}
    (hc : Chunks c (rr0 :: r1 :: rest) [m]) (hf : flatRun c z0 (rr0 :: r1 :: rest) = .ok s') (hd : s'.done = true) :
    run false c z0 [m] = ⟨none, s'.zone⟩ := by
  unfold flatRun at hf
  unfold run
  cases hi : Inbound.init c.origin z0 c.rdtype c.serial c.isUdp with
  | error e => rw [hi] at hf; cases hf
  | ok s0 =>
    rw [hi] at hf
    have ip := init_props hi
    have o := openTxn_props s0
    simp only [] at hf ⊢
    have hm : m.answer = rr0 :: r1 :: rest := by simpa using hc.flat
    have hhdr : headerErr (openTxn s0) m = none :=
      headerErr_of_chunk (by rw [o.1.1]; exact ip.1) (by rw [o.1.2.1]; exact ip.2.1) (hc.hdr m (by simp))
    have hsoa0 : (openTxn s0).soa = none := by rw [o.1.2.2.2]; exact ip.2.2.2.2.1
    cases h1 : firstSoa (openTxn s0) rr0 false with
    | error e => rw [h1] at hf; cases hf
    | ok s1 =>
      rw [h1] at hf
      simp only [] at hf
      have hpm : procMessage false s0 m = .ok s' := by
        unfold procMessage
        rw [hhdr]
        simp only []
        unfold procBody
        rw [hsoa0, hm]
        simp only [List.isEmpty_cons]
        rw [h1]
        simp only []
        rw [hf]
        simp [udpCheck, hd]
      simp [runLoop, hpm, hd]

/-- A UDP datagram that carries only the beginning of the response (at least two records, the flat run is
still waiting at its end): `FormError` ("unexpected end of UDP IXFR"), raised with the zone as committed
so far — which, nothing having been committed, is the zone before (`repaired_of_shipped_formError`). -/
theorem run_udp_single_incomplete {c : Config} {z0 : Zone} {m : Msg} {rr0 r1 : RRset} {rest : List RRset} {s' : Inbound}
    (hu : c.isUdp = true) (hc : Chunks c (rr0 :: r1 :: rest) [m]) (hf : flatRun c z0 (rr0 :: r1 :: rest) = .ok s')
    (hd : s'.done = false) :
    run false c z0 [m] = ⟨some .FormError, s'.zone⟩ := by
  unfold flatRun at hf
  unfold run
  cases hi : Inbound.init c.origin z0 c.rdtype c.serial c.isUdp with
  | error e => rw [hi] at hf; cases hf
  | ok s0 =>
    rw [hi] at hf
    have ip := init_props hi
    have o := openTxn_props s0
    simp only [] at hf ⊢
    have hm : m.answer = rr0 :: r1 :: rest := by simpa using hc.flat
    have hhdr : headerErr (openTxn s0) m = none :=
      headerErr_of_chunk (by rw [o.1.1]; exact ip.1) (by rw [o.1.2.1]; exact ip.2.1) (hc.hdr m (by simp))
    have hsoa0 : (openTxn s0).soa = none := by rw [o.1.2.2.2]; exact ip.2.2.2.2.1
    cases h1 : firstSoa (openTxn s0) rr0 false with
    | error e => rw [h1] at hf; cases hf
    | ok s1 =>
      rw [h1] at hf
      simp only [] at hf
      have hus : s'.isUdp = true := by
        rw [(procAnswers_ok hf).1.2.2.1, (firstSoa_ok h1).2.2.2.2.1, o.1.2.2.1, ip.2.2.1]; exact hu
      have hpm : procMessage false s0 m = .error (.FormError, s'.zone) := by
        unfold procMessage
        rw [hhdr]
        simp only []
        unfold procBody
        rw [hsoa0, hm]
        simp only [List.isEmpty_cons]
        rw [h1]
        simp only []
        rw [hf]
        simp [udpCheck, hd, hus]
      simp [runLoop, hpm]

/-- **Already up to date**: the server's SOA carries the serial we asked about; with nothing else in the
message the transfer is complete, nothing is raised and the zone is untouched (either variant, TCP or UDP). -/
theorem uptodate_run (fix : Bool) (o : Name) (z0 : Zone) (d : Soa) (udp : Bool) (m : Msg) (more : List Msg)
    (hh : headerErrOf o ixfrType m = none) (ha : m.answer = [soaRR o d]) :
    run fix ⟨some o, ixfrType, some d.rdata.serial, udp⟩ z0 (m :: more) = ⟨none, z0⟩ := by
  simp [run, Inbound.init, runLoop, procMessage, headerErr, hh, openTxn, procBody, ha, firstSoa, procAnswers,
    udpCheck]

/-- **UseTCP**: over UDP, a lone SOA with a newer serial is the "truncated" answer -/
theorem udp_truncated_run (fix : Bool) (o : Name) (z0 : Zone) (d : Soa) (b : Nat) (m : Msg) (more : List Msg)
    (hh : headerErrOf o ixfrType m = none) (ha : m.answer = [soaRR o d])
    (hs1 : d.rdata.serial ≠ b) (hs2 : serialLt d.rdata.serial b = false) :
    run fix ⟨some o, ixfrType, some b, true⟩ z0 (m :: more) = ⟨some .UseTCP, z0⟩ := by
  simp [run, Inbound.init, runLoop, procMessage, headerErr, hh, openTxn, procBody, ha, firstSoa, hs1, hs2]

/-- **Serial went backwards**: the server's SOA is behind the serial we hold (RFC 1982), whatever follows -/
theorem backwards_run (fix : Bool) (o : Name) (z0 : Zone) (d : Soa) (b : Nat) (udp : Bool) (m : Msg)
    (rest : List RRset) (more : List Msg)
    (hh : headerErrOf o ixfrType m = none) (ha : m.answer = soaRR o d :: rest)
    (hs1 : d.rdata.serial ≠ b) (hs2 : serialLt d.rdata.serial b = true) :
    run fix ⟨some o, ixfrType, some b, udp⟩ z0 (m :: more) = ⟨some .SerialWentBackwards, z0⟩ := by
  simp [run, Inbound.init, runLoop, procMessage, headerErr, hh, openTxn, procBody, ha, firstSoa, hs1, hs2]

/-- One TCP message carrying the whole stream: the run is the flat run over its answer section, whatever
the outcome. -/
theorem run_single_tcp {c : Config} {z0 : Zone} {m : Msg} {rr0 : RRset} {rest : List RRset}
    (hu : c.isUdp = false) (hc : Chunks c (rr0 :: rest) [m]) :
    run false c z0 [m] =
      match flatRun c z0 (rr0 :: rest) with
      | .error (e, z) => ⟨some e, z⟩
      | .ok s' => if s'.done then ⟨none, s'.zone⟩ else ⟨some .EOF, s'.zone⟩ := by
  unfold flatRun run
  cases hi : Inbound.init c.origin z0 c.rdtype c.serial c.isUdp with
  | error e => rfl
  | ok s0 =>
    have ip := init_props hi
    have o := openTxn_props s0
    simp only []
    have hm : m.answer = rr0 :: rest := by simpa using hc.flat
    have hhdr : headerErr (openTxn s0) m = none :=
      headerErr_of_chunk (by rw [o.1.1]; exact ip.1) (by rw [o.1.2.1]; exact ip.2.1) (hc.hdr m (by simp))
    have hsoa0 : (openTxn s0).soa = none := by rw [o.1.2.2.2]; exact ip.2.2.2.2.1
    have hu0 : (openTxn s0).isUdp = false := by rw [o.1.2.2.1, ip.2.2.1]; exact hu
    have hpm : procMessage false s0 m =
        match firstSoa (openTxn s0) rr0 false with
        | .error e => .error e
        | .ok s1 => match procAnswers false s1 rest with
          | .error e => .error e
          | .ok s2 => .ok s2 := by
      unfold procMessage
      rw [hhdr]
      simp only []
      unfold procBody
      rw [hsoa0, hm]
      simp only []
      rw [firstSoa_tcp hu0 rr0 rest.isEmpty false]
      cases h1 : firstSoa (openTxn s0) rr0 false with
      | error e => rfl
      | ok s1 =>
        simp only []
        cases h2 : procAnswers false s1 rest with
        | error e => rfl
        | ok s2 =>
          have : s2.isUdp = false := by rw [(procAnswers_ok h2).1.2.2.1, (firstSoa_ok h1).2.2.2.2.1]; exact hu0
          simp [udpCheck, this]
    simp only [runLoop, hpm]
    cases h1 : firstSoa (openTxn s0) rr0 false with
    | error e => rfl
    | ok s1 =>
      simp only []
      cases h2 : procAnswers false s1 rest with
      | error e => rfl
      | ok s2 =>
        simp only []
        cases hd : s2.done <;> simp

end Model.Xfr

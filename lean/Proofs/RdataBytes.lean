import Model.RdataSchema
/-! byte-level lemmas for the RDATA schema codec (C02) -/
namespace Model

def OctetsOkB (b : Bytes) : Prop := ∀ x ∈ b, x < 256

theorem natBE_length (k n : Nat) : (natBE k n).length = k := by
  induction k generalizing n with
  | zero => simp [natBE]
  | succ k ih => simp [natBE, ih]

theorem beNat_append_single (b : Bytes) (x : Nat) : beNat (b ++ [x]) = beNat b * 256 + x := by
  simp [beNat, List.foldl_append]

theorem beNat_natBE (k n : Nat) (h : n < 256 ^ k) : beNat (natBE k n) = n := by
  induction k generalizing n with
  | zero => simp [natBE, beNat] at *; omega
  | succ k ih =>
    have h' : n / 256 < 256 ^ k := by
      apply Nat.div_lt_of_lt_mul
      rw [Nat.pow_succ] at h; omega
    simp [natBE, beNat_append_single, ih _ h']
    omega

theorem foldl_be_bound (b : Bytes) (h : OctetsOkB b) (acc : Nat) :
    b.foldl (fun acc x => acc * 256 + x) acc + 1 ≤ (acc + 1) * 256 ^ b.length := by
  induction b generalizing acc with
  | nil => simp
  | cons x xs ih =>
    have hx : x < 256 := h x (by simp)
    have hxs : OctetsOkB xs := fun y hy => h y (by simp [hy])
    have := ih hxs (acc * 256 + x)
    simp only [List.foldl_cons, List.length_cons, Nat.pow_succ]
    calc _ ≤ (acc * 256 + x + 1) * 256 ^ xs.length := this
      _ ≤ ((acc + 1) * 256) * 256 ^ xs.length := Nat.mul_le_mul_right _ (by omega)
      _ = (acc + 1) * (256 ^ xs.length * 256) := by rw [Nat.mul_assoc, Nat.mul_comm 256]

theorem beNat_lt (b : Bytes) (h : OctetsOkB b) : beNat b < 256 ^ b.length := by
  have := foldl_be_bound b h 0
  simp at this
  exact this

theorem takeN_append (a tl pfx : Bytes) : takeN a.length pfx (a ++ tl) = .ok (a, pfx ++ a, tl) := by
  simp [takeN]

theorem takeN_append' (n : Nat) (a tl pfx : Bytes) (h : a.length = n) :
    takeN n pfx (a ++ tl) = .ok (a, pfx ++ a, tl) := by
  subst h; exact takeN_append a tl pfx

theorem takeN_ok {n : Nat} {pfx rem b p r : Bytes} (h : takeN n pfx rem = .ok (b, p, r)) :
    n ≤ rem.length ∧ b = rem.take n ∧ p = pfx ++ rem.take n ∧ r = rem.drop n := by
  unfold takeN at h
  split at h
  · simp at h; obtain ⟨h1, h2, h3⟩ := h; exact ⟨by assumption, h1.symm, h2.symm, h3.symm⟩
  · simp at h

theorem OctetsOkB.take {b : Bytes} (h : OctetsOkB b) (n : Nat) : OctetsOkB (b.take n) :=
  fun x hx => h x (List.mem_of_mem_take hx)

theorem OctetsOkB.drop {b : Bytes} (h : OctetsOkB b) (n : Nat) : OctetsOkB (b.drop n) :=
  fun x hx => h x (List.mem_of_mem_drop hx)

end Model

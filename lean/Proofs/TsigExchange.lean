import Model.Tsig
import Proofs.TsigDigest
import Proofs.TsigValidate
/-! Multi-message exchanges: the contexts handed to the MAC comparison along a whole exchange. -/
namespace Model.Tsig
open Model Rfc8945

/-- an envelope as the validating side meets it: a message whose last record is a TSIG RR starting at
`tsigStart` with RDATA `rd`, or a message without TSIG -/
inductive Env where
  | signed (wire : Bytes) (tsigStart : Nat) (rd : Rdata)
  | unsigned (wire : Bytes)

/-- the validating side over an exchange (`multi=True`, `tsig_ctx` handed from message to message, as
`dns.query.inbound_xfr` does): `validate` for a signed envelope, `tsig_ctx.update(wire)` for an unsigned one
(the tail of `_WireReader.read`).  Result: what was fed to the MAC at each comparison. -/
def runExchange (V : Verifier) (tbl : List AlgEntry) (key : Key) (owner : Name) (now : Nat) (rm : Bytes) :
    Option Ctx → List Env → Except Err (List Bytes)
  | _, [] => .ok []
  | ctx, .signed w s rd :: rest =>
    match validateV V tbl w key owner rd now rm s ctx true with
    | .error e => .error e
    | .ok (c, ctx') =>
      match runExchange V tbl key owner now rm ctx' rest with
      | .error e => .error e
      | .ok l => .ok (c.data :: l)
  | ctx, .unsigned w :: rest => runExchange V tbl key owner now rm (ctx.map (·.update w)) rest

def Env.toSpec (key : Key) : Env → Rfc8945.Envelope
  | .signed w s rd => .signed w s rd.originalId (varsOf key rd none) rd.mac
  | .unsigned w => .unsigned w

theorem validateV_ok (V : Verifier) (tbl : List AlgEntry) (wire : Bytes) (key : Key) (owner : Name) (rd : Rdata)
    (now : Nat) (rm : Bytes) (s : Nat) (ctx : Option Ctx) (multi : Bool) (c : Ctx) (c' : Option Ctx)
    (h : validateV V tbl wire key owner rd now rm s ctx multi = .ok (c, c')) :
    rd16 wire 10 ≠ 0 ∧ rd.error = 0 ∧ absDiff rd.timeSigned now ≤ rd.fudge ∧ nameEq key.name owner = true
      ∧ nameEq key.algorithm rd.algorithm = true
      ∧ digest tbl (newWire wire s) key rd none rm ctx multi = .ok c ∧ V c rd.mac = true
      ∧ maybeStartDigest tbl key rd.mac multi = .ok c' := by
  rw [validateV_spec] at h
  split at h; · cases h
  split at h; · cases h
  split at h; · cases h
  split at h; · cases h
  split at h; · cases h
  split at h; · cases h
  rename_i c1 hd
  split at h; · cases h
  split at h; · cases h
  rename_i c2 hm
  cases h
  refine ⟨by assumption, by simpa using ‹¬rd.error ≠ 0›, by omega, ?_, ?_, hd, ?_, hm⟩
  · simpa using ‹¬nameEq key.name owner = false›
  · simpa using ‹¬nameEq key.algorithm rd.algorithm = false›
  · simpa using ‹¬V c rd.mac = false›

/-- the running context and the RFC's "prior MAC + unsigned messages since" describe the same octets -/
def Rel (ctx : Option Ctx) (prior : Option (Bytes × List Bytes)) : Prop :=
  (ctx = none ∧ prior = none) ∨ ∃ c m us, ctx = some c ∧ prior = some (m, us) ∧ c.data = macField m ++ us.flatten

theorem runExchange_inputs (V : Verifier) (tbl : List AlgEntry) (key : Key) (owner : Name) (now : Nat) (rm : Bytes)
    (envs : List Env) : ∀ (ctx : Option Ctx) (prior : Option (Bytes × List Bytes)) (l : List Bytes),
    Rel ctx prior → runExchange V tbl key owner now rm ctx envs = .ok l →
    l = exchangeInputs rm prior (envs.map (Env.toSpec key)) := by
  induction envs with
  | nil =>
    intro ctx prior l _ h
    simp [runExchange] at h
    cases prior <;> simp [exchangeInputs, ← h]
  | cons e rest ih =>
    intro ctx prior l hrel h
    cases e with
    | unsigned w =>
      simp only [runExchange] at h
      rcases hrel with ⟨hc, hp⟩ | ⟨c, m, us, hc, hp, hd⟩
      · subst hc; subst hp
        simp only [Option.map_none, List.map_cons, Env.toSpec, exchangeInputs] at h ⊢
        exact ih none none l (Or.inl ⟨rfl, rfl⟩) h
      · subst hc; subst hp
        simp only [Option.map_some, List.map_cons, Env.toSpec, exchangeInputs] at h ⊢
        refine ih _ _ l (Or.inr ⟨c.update w, m, us ++ [w], rfl, rfl, ?_⟩) h
        simp [Ctx.update, hd]
    | signed w s rd =>
      simp only [runExchange] at h
      split at h; · cases h
      rename_i c ctx' hv
      split at h; · cases h
      rename_i l' hrest
      cases h
      obtain ⟨_, _, _, _, _, hd, _, hm⟩ := validateV_ok V tbl w key owner rd now rm s ctx true c ctx' hv
      obtain ⟨c2, hc2⟩ := maybeStart_multi tbl key rd.mac ctx' hm
      subst hc2
      have hrel' : Rel (some c2) (some (rd.mac, [])) :=
        Or.inr ⟨c2, rd.mac, [], rfl, rfl, by simp [maybeStart_data tbl key rd.mac c2 hm]⟩
      have htail := ih (some c2) (some (rd.mac, [])) l' hrel' hrest
      rcases hrel with ⟨hc, hp⟩ | ⟨c0, m, us, hc, hp, hd0⟩
      · subst hc; subst hp
        have := digest_first_data tbl (newWire w s) key rd none rm none true c (by simp) hd
        simp only [List.map_cons, Env.toSpec, exchangeInputs, htail, List.cons.injEq, and_true]
        rw [this, newWire_eq_stripTsig]
        by_cases hr : rm = []
        · simp [hr, requestInput]
        · simp [hr, responseInput]
      · subst hc; subst hp
        have := digest_later_data tbl (newWire w s) key rd none rm c0 c hd
        simp only [List.map_cons, Env.toSpec, exchangeInputs, htail, List.cons.injEq, and_true]
        rw [this, newWire_eq_stripTsig, hd0]
        simp [laterInput]

end Model.Tsig

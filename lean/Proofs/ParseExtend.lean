import Proofs.ParseBasic
namespace Model

theorem getElem_append_left' (w j : Bytes) (i : Nat) (h : i < w.length) : (w ++ j)[i]'(by simp; omega) = w[i] := by
  simp [List.getElem_append_left h]

theorem slice_append_left (w j : Bytes) (i n : Nat) (h : i + n ≤ w.length) : slice (w ++ j) i n = slice w i n := by
  unfold slice
  rw [List.drop_append_of_le_length (by omega)]
  rw [List.take_append_of_le_length (by simp; omega)]

/-- a successful name decoding does not look beyond the message: more octets after it (and a later parser end) change nothing -/
theorem fromWireAux_extend (w j : Bytes) (endp endp' : Nat) (he : endp ≤ endp') (he' : endp' ≤ (w ++ j).length)
    (cur bp f : Nat) (acc : List Label) :
    ∀ r, fromWireAux w endp cur bp f acc = .ok r → fromWireAux (w ++ j) endp' cur bp f acc = .ok r := by
  fun_induction fromWireAux w endp cur bp f acc with
  | case1 cur bp f acc h h0 =>
    intro r e
    have hc : cur < w.length := by omega
    unfold fromWireAux
    have h' : cur < endp' ∧ endp' ≤ (w ++ j).length := ⟨by omega, he'⟩
    simp only [h', and_self, dite_true, getElem_append_left' w j cur hc, h0, if_true]
    exact e
  | case2 => intro r e; simp at e
  | case3 cur bp f acc h h0 h1 h2 ih =>
    intro r e
    have hc : cur < w.length := by omega
    have h' : cur < endp' ∧ endp' ≤ (w ++ j).length := ⟨by omega, he'⟩
    have h2' : ¬ w[cur] > endp' - (cur + 1) := by omega
    unfold fromWireAux
    simp only [h', and_self, dite_true, getElem_append_left' w j cur hc, h0, if_false, h1, if_true, h2']
    have hd : ((w ++ j).drop (cur + 1)).take w[cur] = (w.drop (cur + 1)).take w[cur] := by
      have := slice_append_left w j (cur + 1) w[cur] (by omega)
      simpa [slice] using this
    rw [hd]
    exact ih r e
  | case4 => intro r e; simp at e
  | case5 cur bp f acc h h0 h1 h2 h3 h4 ih =>
    intro r e
    have hc : cur < w.length := by omega
    have hc1 : cur + 1 < w.length := by omega
    have h' : cur < endp' ∧ endp' ≤ (w ++ j).length := ⟨by omega, he'⟩
    have h3' : cur + 1 < endp' := by omega
    unfold fromWireAux
    simp only [h', and_self, dite_true, getElem_append_left' w j cur hc, getElem_append_left' w j (cur + 1) hc1, h0, if_false, h1, h2,
      h3', h4]
    exact ih r e
  | case6 => intro r e; simp at e
  | case7 => intro r e; simp at e
  | case8 => intro r e; simp at e

theorem getName_extend (w j : Bytes) (endp endp' : Nat) (he : endp ≤ endp') (he' : endp' ≤ (w ++ j).length) (cur : Nat)
    (r : Name × Nat) (h : getName w endp cur = .ok r) : getName (w ++ j) endp' cur = .ok r := by
  unfold getName at h ⊢
  cases hf : fromWireAux w endp cur cur cur [] with
  | error e => rw [hf] at h; simp at h
  | ok p =>
    rw [fromWireAux_extend w j endp endp' he he' cur cur cur [] p hf]
    rw [hf] at h
    exact h

/-- the position a successful `get_name` returns lies inside the parser's window -/
theorem fromWireAux_pos (w : Bytes) (endp cur bp f : Nat) (acc : List Label) :
    ∀ n f', fromWireAux w endp cur bp f acc = .ok (n, f') → f ≤ endp → f' ≤ endp ∧ endp ≤ w.length := by
  fun_induction fromWireAux w endp cur bp f acc with
  | case1 cur bp f acc h h0 =>
    intro n f' e hf
    simp at e
    obtain ⟨_, rfl⟩ := e
    exact ⟨by omega, h.2⟩
  | case2 => intro n f' e; simp at e
  | case3 cur bp f acc h h0 h1 h2 ih => intro n f' e hf; exact ih n f' e (by omega)
  | case4 => intro n f' e; simp at e
  | case5 cur bp f acc h h0 h1 h2 h3 h4 ih => intro n f' e hf; exact ih n f' e (by omega)
  | case6 => intro n f' e; simp at e
  | case7 => intro n f' e; simp at e
  | case8 => intro n f' e; simp at e

theorem getName_pos {w : Bytes} {endp cur : Nat} {n : Name} {c : Nat} (h : getName w endp cur = .ok (n, c)) (hc : cur ≤ endp) :
    c ≤ endp ∧ endp ≤ w.length := by
  unfold getName at h
  cases hf : fromWireAux w endp cur cur cur [] with
  | error e => rw [hf] at h; simp at h
  | ok p =>
    obtain ⟨n0, f⟩ := p
    rw [hf] at h
    simp only at h
    split at h
    · simp at h
    · simp at h
      obtain ⟨_, rfl⟩ := h
      exact fromWireAux_pos w endp cur cur cur [] n0 f hf hc

theorem parseOptions_extend (w j : Bytes) (endp : Nat) (he : endp ≤ w.length) (fuel : Nat) : ∀ (cur : Nat) (r : List (Nat × Bytes)),
    parseOptions w endp fuel cur = .ok r → parseOptions (w ++ j) endp fuel cur = .ok r := by
  induction fuel with
  | zero => intro cur r h; exact h
  | succ fuel ih =>
    intro cur r h
    unfold parseOptions at h ⊢
    by_cases h1 : endp - cur > 0
    · simp only [h1, if_true] at h ⊢
      by_cases h2 : endp - cur < 4
      · simp [h2] at h
      · simp only [h2, if_false] at h ⊢
        rw [slice_append_left w j cur 2 (by omega), slice_append_left w j (cur + 2) 2 (by omega)]
        by_cases h3 : beVal (slice w (cur + 2) 2) > endp - (cur + 4)
        · simp [h3] at h
        · simp only [h3, if_false] at h ⊢
          cases hr : parseOptions w endp fuel (cur + 4 + beVal (slice w (cur + 2) 2)) with
          | error e => rw [hr] at h; simp at h
          | ok rest =>
            rw [hr] at h
            rw [ih _ rest hr, slice_append_left w j (cur + 4) _ (by omega)]
            exact h
    · simp only [h1, if_false] at h ⊢
      exact h

theorem parseRData_extend (w j : Bytes) (start endp : Nat) (hs : start ≤ endp) (he : endp ≤ w.length) (origin : Option Name)
    (rdtype : Nat) (rd : RData) (h : parseRData w start endp origin rdtype = .ok rd) :
    parseRData (w ++ j) start endp origin rdtype = .ok rd := by
  have hel : endp ≤ (w ++ j).length := by simp; omega
  unfold parseRData at h ⊢
  cases hsh : shapeOf rdtype with
  | raw =>
    rw [hsh] at h
    simp only at h ⊢
    rw [slice_append_left w j start (endp - start) (by omega)]
    exact h
  | name1 =>
    rw [hsh] at h
    simp only at h ⊢
    cases hg : getName w endp start with
    | error e => rw [hg] at h; simp at h
    | ok p =>
      rw [hg] at h
      rw [getName_extend w j endp endp (Nat.le_refl _) hel start p hg]
      exact h
  | mx =>
    rw [hsh] at h
    simp only at h ⊢
    by_cases hl : endp - start < 2
    · simp [hl] at h
    · simp only [hl, if_false] at h ⊢
      cases hg : getName w endp (start + 2) with
      | error e => rw [hg] at h; simp at h
      | ok p =>
        rw [hg] at h
        rw [getName_extend w j endp endp (Nat.le_refl _) hel (start + 2) p hg, slice_append_left w j start 2 (by omega)]
        exact h
  | soa =>
    rw [hsh] at h
    simp only at h ⊢
    cases hg : getName w endp start with
    | error e => rw [hg] at h; simp at h
    | ok p =>
      obtain ⟨m, c1⟩ := p
      rw [hg] at h
      rw [getName_extend w j endp endp (Nat.le_refl _) hel start (m, c1) hg]
      simp only at h ⊢
      cases hg2 : getName w endp c1 with
      | error e => rw [hg2] at h; simp at h
      | ok p2 =>
        obtain ⟨r, c2⟩ := p2
        rw [hg2] at h
        rw [getName_extend w j endp endp (Nat.le_refl _) hel c1 (r, c2) hg2]
        simp only at h ⊢
        by_cases h1 : endp - c2 < 20
        · simp [h1] at h
        · by_cases h2 : c2 + 20 ≠ endp
          · simp [h1, h2] at h
          · simp only [h1, h2, if_false] at h ⊢
            rw [slice_append_left w j c2 4 (by omega), slice_append_left w j (c2 + 4) 4 (by omega),
              slice_append_left w j (c2 + 8) 4 (by omega), slice_append_left w j (c2 + 12) 4 (by omega),
              slice_append_left w j (c2 + 16) 4 (by omega)]
            exact h

theorem parseTsigRData_extend (w j : Bytes) (start endp : Nat) (he : endp ≤ w.length) (owner : Name) (t : Tsig)
    (h : parseTsigRData w start endp owner = .ok t) : parseTsigRData (w ++ j) start endp owner = .ok t := by
  have hel : endp ≤ (w ++ j).length := by simp; omega
  unfold parseTsigRData at h ⊢
  cases hg : getName w endp start with
  | error e => rw [hg] at h; simp at h
  | ok p =>
    obtain ⟨alg, c⟩ := p
    rw [hg] at h
    rw [getName_extend w j endp endp (Nat.le_refl _) hel start (alg, c) hg]
    simp only at h ⊢
    by_cases h1 : endp - c < 10
    · simp [h1] at h
    simp only [h1, if_false] at h ⊢
    rw [slice_append_left w j c 6 (by omega), slice_append_left w j (c + 6) 2 (by omega), slice_append_left w j (c + 8) 2 (by omega)]
    by_cases h2 : beVal (slice w (c + 8) 2) > endp - (c + 10)
    · simp [h2] at h
    simp only [h2, if_false] at h ⊢
    rw [slice_append_left w j (c + 10) _ (by omega)]
    by_cases h3 : endp - (c + 10 + beVal (slice w (c + 8) 2)) < 4
    · simp [h3] at h
    simp only [h3, if_false] at h ⊢
    rw [slice_append_left w j (c + 10 + beVal (slice w (c + 8) 2)) 2 (by omega),
      slice_append_left w j (c + 10 + beVal (slice w (c + 8) 2) + 2) 2 (by omega)]
    by_cases h4 : endp - (c + 10 + beVal (slice w (c + 8) 2) + 4) < 2
    · simp [h4] at h
    simp only [h4, if_false] at h ⊢
    rw [slice_append_left w j (c + 10 + beVal (slice w (c + 8) 2) + 4) 2 (by omega)]
    by_cases h5 : beVal (slice w (c + 10 + beVal (slice w (c + 8) 2) + 4) 2) > endp - (c + 10 + beVal (slice w (c + 8) 2) + 4 + 2)
    · simp [h5] at h
    simp only [h5, if_false] at h ⊢
    by_cases h6 : c + 10 + beVal (slice w (c + 8) 2) + 4 + 2 + beVal (slice w (c + 10 + beVal (slice w (c + 8) 2) + 4) 2) ≠ endp
    · simp [h6] at h
    simp only [h6, if_false] at h ⊢
    rw [slice_append_left w j (c + 10 + beVal (slice w (c + 8) 2) + 4 + 2) _ (by omega)]
    exact h

theorem parseQuestion_extend (cfg : PCfg) (upd : Bool) (w j : Bytes) (st st' : PState)
    (h : parseQuestion cfg upd w st = .ok st') : parseQuestion cfg upd (w ++ j) st = .ok st' := by
  unfold parseQuestion at h ⊢
  cases hg : getName w w.length st.cur with
  | error e => rw [hg] at h; simp at h
  | ok p =>
    obtain ⟨n, c⟩ := p
    rw [hg] at h
    rw [getName_extend w j w.length (w ++ j).length (by simp) (Nat.le_refl _) st.cur (n, c) hg]
    simp only at h ⊢
    by_cases hl : w.length - c < 4
    · simp [hl] at h
    · have hl' : ¬ (w ++ j).length - c < 4 := by simp; omega
      simp only [hl, hl', if_false] at h ⊢
      rw [slice_append_left w j c 2 (by omega), slice_append_left w j (c + 2) 2 (by omega)]
      exact h

theorem parseRR_extend (cfg : PCfg) (upd : Bool) (w j : Bytes) (sec count i : Nat) (st st' : PState)
    (h : parseRR cfg upd w sec count i st = .ok st') : parseRR cfg upd (w ++ j) sec count i st = .ok st' := by
  unfold parseRR at h ⊢
  cases hg : getName w w.length st.cur with
  | error e => rw [hg] at h; simp at h
  | ok p =>
    obtain ⟨n, c⟩ := p
    rw [hg] at h
    rw [getName_extend w j w.length (w ++ j).length (by simp) (Nat.le_refl _) st.cur (n, c) hg]
    simp only at h ⊢
    by_cases hl : w.length - c < 10
    · simp [hl] at h
    · have hl' : ¬ (w ++ j).length - c < 10 := by simp; omega
      simp only [hl, hl', if_false] at h ⊢
      rw [slice_append_left w j c 2 (by omega), slice_append_left w j (c + 2) 2 (by omega),
        slice_append_left w j (c + 4) 4 (by omega), slice_append_left w j (c + 8) 2 (by omega)]
      generalize (if beVal (slice w c 2) = ConstsC03.typeOPT ∨ beVal (slice w c 2) = ConstsC03.typeTSIG then
          match parseSpecialHeader sec count i n (beVal (slice w (c + 2) 2)) (beVal (slice w c 2)) st.opt.isSome with
          | Except.error e => Except.error e
          | Except.ok _ => Except.ok (beVal (slice w (c + 2) 2), none, false)
        else parseRRHeader upd st.q sec (beVal (slice w (c + 2) 2)) (beVal (slice w c 2))) = hdr at h ⊢
      cases hdr with
      | error e => simp at h
      | ok t =>
        obtain ⟨rc, del, empty⟩ := t
        simp only at h ⊢
        cases empty with
        | true => exact h
        | false =>
          simp only [Bool.false_eq_true, if_false] at h ⊢
          by_cases hr : beVal (slice w (c + 8) 2) > w.length - (c + 10)
          · simp [hr] at h
          · have hr' : ¬ beVal (slice w (c + 8) 2) > (w ++ j).length - (c + 10) := by simp; omega
            have hend : c + 10 + beVal (slice w (c + 8) 2) ≤ w.length := by omega
            simp only [hr, hr', if_false] at h ⊢
            by_cases hopt : beVal (slice w c 2) = ConstsC03.typeOPT
            · simp only [hopt, if_true] at h ⊢
              cases ho : parseOptions w (c + 10 + beVal (slice w (c + 8) 2)) (beVal (slice w (c + 8) 2)) (c + 10) with
              | error e => rw [ho] at h; simp at h
              | ok opts =>
                rw [ho] at h
                rw [parseOptions_extend w j _ hend _ _ opts ho]
                exact h
            · simp only [hopt, if_false] at h ⊢
              by_cases hts : beVal (slice w c 2) = ConstsC03.typeTSIG
              · simp only [hts, if_true] at h ⊢
                cases ht : parseTsigRData w (c + 10) (c + 10 + beVal (slice w (c + 8) 2)) n with
                | error e => rw [ht] at h; simp at h
                | ok t =>
                  rw [ht] at h
                  rw [parseTsigRData_extend w j _ _ hend n t ht]
                  exact h
              · simp only [hts, if_false] at h ⊢
                cases hp : parseRData w (c + 10) (c + 10 + beVal (slice w (c + 8) 2)) cfg.origin (beVal (slice w c 2)) with
                | error e => rw [hp] at h; simp at h
                | ok rd =>
                  rw [hp] at h
                  rw [parseRData_extend w j _ _ (by omega) hend cfg.origin _ rd hp]
                  exact h

theorem parseQuestions_extend (cfg : PCfg) (upd : Bool) (w j : Bytes) (k : Nat) : ∀ (st st' : PState),
    parseQuestions cfg upd w k st = .ok st' → parseQuestions cfg upd (w ++ j) k st = .ok st' := by
  induction k with
  | zero => intro st st' h; exact h
  | succ k ih =>
    intro st st' h
    simp only [parseQuestions] at h ⊢
    cases hp : parseQuestion cfg upd w st with
    | error e => rw [hp] at h; simp at h
    | ok s1 =>
      rw [hp] at h
      rw [parseQuestion_extend cfg upd w j st s1 hp]
      exact ih s1 st' h

theorem parseSection_extend (cfg : PCfg) (upd : Bool) (w j : Bytes) (sec count k : Nat) : ∀ (i : Nat) (st st' : PState),
    parseSection cfg upd w sec count k i st = .ok st' → parseSection cfg upd (w ++ j) sec count k i st = .ok st' := by
  induction k with
  | zero => intro i st st' h; exact h
  | succ k ih =>
    intro i st st' h
    simp only [parseSection] at h ⊢
    cases hp : parseRR cfg upd w sec count i st with
    | error e => rw [hp] at h; simp at h
    | ok s1 =>
      rw [hp] at h
      rw [parseRR_extend cfg upd w j sec count i st s1 hp]
      exact ih (i + 1) s1 st' h

/-! ### the parser position stays inside the message -/

theorem setSection_cur (st : PState) (sec : Nat) (l : List RRset) : (st.setSection sec l).cur = st.cur := by
  unfold PState.setSection
  split
  · rfl
  · split
    · rfl
    · split <;> rfl

theorem parseQuestion_cur {cfg : PCfg} {upd : Bool} {w : Bytes} {st st' : PState}
    (h : parseQuestion cfg upd w st = .ok st') : st'.cur ≤ w.length := by
  unfold parseQuestion at h
  cases hg : getName w w.length st.cur with
  | error e => rw [hg] at h; simp at h
  | ok p =>
    obtain ⟨n, c⟩ := p
    rw [hg] at h
    simp only at h
    by_cases hl : w.length - c < 4
    · simp [hl] at h
    · simp only [hl, if_false] at h
      split at h
      · simp at h
      · simp at h
        rw [← h]
        simp only
        omega

theorem parseRR_cur {cfg : PCfg} {upd : Bool} {w : Bytes} {sec count i : Nat} {st st' : PState}
    (h : parseRR cfg upd w sec count i st = .ok st') : st'.cur ≤ w.length := by
  unfold parseRR at h
  cases hg : getName w w.length st.cur with
  | error e => rw [hg] at h; simp at h
  | ok p =>
    obtain ⟨n, c⟩ := p
    rw [hg] at h
    simp only at h
    by_cases hl : w.length - c < 10
    · simp [hl] at h
    · simp only [hl, if_false] at h
      generalize (if beVal (slice w c 2) = ConstsC03.typeOPT ∨ beVal (slice w c 2) = ConstsC03.typeTSIG then
          match parseSpecialHeader sec count i n (beVal (slice w (c + 2) 2)) (beVal (slice w c 2)) st.opt.isSome with
          | Except.error e => Except.error e
          | Except.ok _ => Except.ok (beVal (slice w (c + 2) 2), none, false)
        else parseRRHeader upd st.q sec (beVal (slice w (c + 2) 2)) (beVal (slice w c 2))) = hdr at h
      cases hdr with
      | error e => simp at h
      | ok t =>
        obtain ⟨rc, del, empty⟩ := t
        simp only at h
        cases empty with
        | true =>
          simp only [if_true] at h
          by_cases hr : beVal (slice w (c + 8) 2) > 0
          · simp [hr] at h
          · simp only [hr, if_false, Except.ok.injEq] at h
            rw [← h, setSection_cur]
            simp only
            omega
        | false =>
          simp only [Bool.false_eq_true, if_false] at h
          by_cases hr : beVal (slice w (c + 8) 2) > w.length - (c + 10)
          · simp [hr] at h
          · have hend : c + 10 + beVal (slice w (c + 8) 2) ≤ w.length := by omega
            simp only [hr, if_false] at h
            by_cases hopt : beVal (slice w c 2) = ConstsC03.typeOPT
            · simp only [hopt, if_true] at h
              split at h
              · simp at h
              · simp at h; rw [← h]; exact hend
            · simp only [hopt, if_false] at h
              by_cases hts : beVal (slice w c 2) = ConstsC03.typeTSIG
              · simp only [hts, if_true] at h
                split at h
                · simp at h
                · split at h
                  · simp at h
                  · split at h
                    · simp at h; rw [← h]; exact hend
                    · simp at h
              · simp only [hts, if_false] at h
                split at h
                · simp at h
                · simp only [Except.ok.injEq] at h
                  rw [← h, setSection_cur]
                  exact hend

theorem parseQuestions_cur {cfg : PCfg} {upd : Bool} {w : Bytes} (k : Nat) : ∀ {st st' : PState}, st.cur ≤ w.length →
    parseQuestions cfg upd w k st = .ok st' → st'.cur ≤ w.length := by
  induction k with
  | zero => intro st st' hc h; simp [parseQuestions] at h; rw [← h]; exact hc
  | succ k ih =>
    intro st st' hc h
    simp only [parseQuestions] at h
    cases hp : parseQuestion cfg upd w st with
    | error e => rw [hp] at h; simp at h
    | ok s1 => rw [hp] at h; exact ih (parseQuestion_cur hp) h

theorem parseSection_cur {cfg : PCfg} {upd : Bool} {w : Bytes} {sec count : Nat} (k : Nat) : ∀ {i : Nat} {st st' : PState},
    st.cur ≤ w.length → parseSection cfg upd w sec count k i st = .ok st' → st'.cur ≤ w.length := by
  induction k with
  | zero => intro i st st' hc h; simp [parseSection] at h; rw [← h]; exact hc
  | succ k ih =>
    intro i st st' hc h
    simp only [parseSection] at h
    cases hp : parseRR cfg upd w sec count i st with
    | error e => rw [hp] at h; simp at h
    | ok s1 => rw [hp] at h; exact ih (parseRR_cur hp) h

/-- the sections as the reader leaves them, and the final position: everything `read()` does before the trailing-octets test -/
def parseSections (cfg : PCfg) (w : Bytes) : Except PErr PState :=
  let upd := isUpdate (beVal (slice w 2 2))
  match parseQuestions cfg upd w (beVal (slice w 4 2)) { cur := 12 } with
  | .error e => .error e
  | .ok st =>
    match parseSection cfg upd w 1 (beVal (slice w 6 2)) (beVal (slice w 6 2)) 0 st with
    | .error e => .error e
    | .ok st =>
      match parseSection cfg upd w 2 (beVal (slice w 8 2)) (beVal (slice w 8 2)) 0 st with
      | .error e => .error e
      | .ok st => parseSection cfg upd w 3 (beVal (slice w 10 2)) (beVal (slice w 10 2)) 0 st

theorem parseMessage_eq (cfg : PCfg) (w : Bytes) :
    parseMessage cfg w =
      if w.length < 12 then .error .shortHeader
      else match parseSections cfg w with
        | .error e => .error e
        | .ok st =>
          if !cfg.ignoreTrailing ∧ w.length - st.cur ≠ 0 then .error .trailingJunk
          else .ok { id := beVal (slice w 0 2), flags := beVal (slice w 2 2), origin := cfg.origin, q := st.q, an := st.an,
                     au := st.au, ad := st.ad, opt := st.opt, tsig := st.tsig } := by
  unfold parseMessage parseSections
  by_cases hl : w.length < 12
  · simp [hl]
  simp only [hl, if_false]
  cases parseQuestions cfg (isUpdate (beVal (slice w 2 2))) w (beVal (slice w 4 2)) { cur := 12 } with
  | error e => rfl
  | ok s1 =>
    simp only
    cases parseSection cfg (isUpdate (beVal (slice w 2 2))) w 1 (beVal (slice w 6 2)) (beVal (slice w 6 2)) 0 s1 with
    | error e => rfl
    | ok s2 =>
      simp only
      cases parseSection cfg (isUpdate (beVal (slice w 2 2))) w 2 (beVal (slice w 8 2)) (beVal (slice w 8 2)) 0 s2 with
      | error e => rfl
      | ok s3 => rfl

theorem parseSections_extend (cfg : PCfg) (w j : Bytes) (hl : 12 ≤ w.length) (st : PState) (h : parseSections cfg w = .ok st) :
    parseSections cfg (w ++ j) = .ok st ∧ st.cur ≤ w.length := by
  unfold parseSections at h ⊢
  rw [slice_append_left w j 2 2 (by omega), slice_append_left w j 4 2 (by omega), slice_append_left w j 6 2 (by omega),
    slice_append_left w j 8 2 (by omega), slice_append_left w j 10 2 (by omega)]
  simp only at h ⊢
  cases h0 : parseQuestions cfg (isUpdate (beVal (slice w 2 2))) w (beVal (slice w 4 2)) { cur := 12 } with
  | error e => rw [h0] at h; simp at h
  | ok s1 =>
    rw [h0] at h
    rw [parseQuestions_extend cfg _ w j _ _ s1 h0]
    have c1 : s1.cur ≤ w.length := parseQuestions_cur _ (by simpa using hl) h0
    simp only at h ⊢
    cases h1 : parseSection cfg (isUpdate (beVal (slice w 2 2))) w 1 (beVal (slice w 6 2)) (beVal (slice w 6 2)) 0 s1 with
    | error e => rw [h1] at h; simp at h
    | ok s2 =>
      rw [h1] at h
      rw [parseSection_extend cfg _ w j _ _ _ _ s1 s2 h1]
      have c2 : s2.cur ≤ w.length := parseSection_cur _ c1 h1
      simp only at h ⊢
      cases h2 : parseSection cfg (isUpdate (beVal (slice w 2 2))) w 2 (beVal (slice w 8 2)) (beVal (slice w 8 2)) 0 s2 with
      | error e => rw [h2] at h; simp at h
      | ok s3 =>
        rw [h2] at h
        rw [parseSection_extend cfg _ w j _ _ _ _ s2 s3 h2]
        have c3 : s3.cur ≤ w.length := parseSection_cur _ c2 h2
        simp only at h ⊢
        exact ⟨parseSection_extend cfg _ w j _ _ _ _ s3 st h, parseSection_cur _ c3 h⟩

/-- Octets appended to a message the reader accepts: with `ignore_trailing=False` the outcome is exactly `TrailingJunk`, with
`ignore_trailing=True` it is the same message — for every accepted wire, whatever produced it. -/
theorem parseMessage_junk (cfg : PCfg) (w j : Bytes) (m : Message) (h : parseMessage cfg w = .ok m) :
    (cfg.ignoreTrailing = true → parseMessage cfg (w ++ j) = .ok m) ∧
    (cfg.ignoreTrailing = false → j ≠ [] → parseMessage cfg (w ++ j) = .error .trailingJunk) := by
  rw [parseMessage_eq] at h ⊢
  by_cases hl : w.length < 12
  · simp [hl] at h
  have hl' : ¬ (w ++ j).length < 12 := by simp; omega
  simp only [hl, hl', if_false] at h ⊢
  cases hs : parseSections cfg w with
  | error e => rw [hs] at h; simp at h
  | ok st =>
    rw [hs] at h
    obtain ⟨he, hc⟩ := parseSections_extend cfg w j (by omega) st hs
    rw [he]
    simp only at h ⊢
    rw [slice_append_left w j 0 2 (by omega), slice_append_left w j 2 2 (by omega)]
    refine ⟨?_, ?_⟩
    · intro hit
      simp only [hit, Bool.not_true, Bool.false_eq_true, false_and, if_false] at h ⊢
      exact h
    · intro hit hj
      simp only [hit, Bool.not_false, true_and] at h ⊢
      by_cases hz : w.length - st.cur ≠ 0
      · simp [hz] at h
      · have hjl : j.length ≠ 0 := fun e => hj (List.length_eq_zero_iff.mp e)
        have : (w ++ j).length - st.cur ≠ 0 := by simp; omega
        rw [if_pos this]

/-! ### `ignore_trailing` is only looked at after the last record -/

theorem parseQuestions_it (cfg : PCfg) (b : Bool) (upd : Bool) (w : Bytes) (k : Nat) : ∀ st,
    parseQuestions { cfg with ignoreTrailing := b } upd w k st = parseQuestions cfg upd w k st := by
  induction k with
  | zero => intro st; rfl
  | succ k ih =>
    intro st
    simp only [parseQuestions]
    have : parseQuestion { cfg with ignoreTrailing := b } upd w st = parseQuestion cfg upd w st := rfl
    rw [this]
    cases parseQuestion cfg upd w st with
    | error e => rfl
    | ok s1 => exact ih s1

theorem parseSection_it (cfg : PCfg) (b : Bool) (upd : Bool) (w : Bytes) (sec count k : Nat) : ∀ i st,
    parseSection { cfg with ignoreTrailing := b } upd w sec count k i st = parseSection cfg upd w sec count k i st := by
  induction k with
  | zero => intro i st; rfl
  | succ k ih =>
    intro i st
    simp only [parseSection]
    have : parseRR { cfg with ignoreTrailing := b } upd w sec count i st = parseRR cfg upd w sec count i st := rfl
    rw [this]
    cases parseRR cfg upd w sec count i st with
    | error e => rfl
    | ok s1 => exact ih (i + 1) s1

theorem parseSections_it (cfg : PCfg) (b : Bool) (w : Bytes) :
    parseSections { cfg with ignoreTrailing := b } w = parseSections cfg w := by
  unfold parseSections
  simp only [parseQuestions_it, parseSection_it]

/-- a message accepted with either setting is accepted, unchanged, with `ignore_trailing=True` and any octets appended -/
theorem parseMessage_ignore_trailing (cfg : PCfg) (w j : Bytes) (m : Message) (h : parseMessage cfg w = .ok m) :
    parseMessage { cfg with ignoreTrailing := true } (w ++ j) = .ok m := by
  have h' : parseMessage { cfg with ignoreTrailing := true } w = .ok m := by
    rw [parseMessage_eq] at h ⊢
    rw [parseSections_it]
    by_cases hl : w.length < 12
    · simp [hl] at h
    simp only [hl, if_false] at h ⊢
    cases hs : parseSections cfg w with
    | error e => rw [hs] at h; simp at h
    | ok st =>
      rw [hs] at h
      simp only at h ⊢
      split at h
      · simp at h
      · simp only [Bool.not_true, Bool.false_eq_true, false_and, if_false]
        exact h
  exact (parseMessage_junk _ w j m h').1 rfl

end Model

import Proofs.XfrConv
/-!
# Reading a response from the wire (`parseAnswer`): what it preserves

From the first SOA of a message on, every record becomes its own rrset, in order; before it (only in
messages of an AXFR that do not start with the SOA) records of the same owner and type merge.  Either way
the records of the message are preserved, and nothing ever moves across an SOA.
-/
namespace Model.Xfr

theorem parseLoop_forced : ∀ (l : List RR) (acc : List RRset), parseLoop true acc l = acc ++ l.map single := by
  intro l
  induction l with
  | nil => intro acc; simp [parseLoop]
  | cons r rest ih => intro acc; simp [parseLoop, ih]

/-- TTLs as a server sends them (RFC 2181: at most 2^31-1; anything above is read as 0) -/
def TtlOk (l : List RR) : Prop := ∀ r ∈ l, r.ttl ≤ 2147483647

theorem clamp_of_ok {l : List RR} (h : TtlOk l) : l.map clampTtl = l := by
  induction l with
  | nil => rfl
  | cons r rest ih =>
    have hr : ¬ r.ttl > 2147483647 := Nat.not_lt.2 (h r (by simp))
    simp [clampTtl, hr, ih (fun x hx => h x (by simp [hx]))]

@[simp] theorem clampTtl_rdtype (r : RR) : (clampTtl r).rdtype = r.rdtype := by
  unfold clampTtl; split <;> rfl

/-- **IXFR** (`one_rr_per_rrset=True`): one rrset per record, order kept -/
theorem parse_one_rr (l : List RR) (h : TtlOk l) : parseAnswer true l = l.map single := by
  simp [parseAnswer, parseLoop_forced, clamp_of_ok h]

/-- the loop is compositional: the second part is read with `force_unique` on iff it was on or the first
part held an SOA -/
theorem parseLoop_append : ∀ (l m : List RR) (f : Bool) (acc : List RRset),
    parseLoop f acc (l ++ m) = parseLoop (f || l.any (fun r => r.rdtype == soaType)) (parseLoop f acc l) m := by
  intro l
  induction l with
  | nil => intro m f acc; simp [parseLoop]
  | cons r rest ih =>
    intro m f acc
    simp only [List.cons_append, parseLoop, List.any_cons]
    by_cases hf : (f || r.rdtype == soaType) = true
    · simp only [hf, if_true]
      rw [ih]
      have : (f || (r.rdtype == soaType || rest.any fun r => r.rdtype == soaType)) = true := by
        rw [← Bool.or_assoc, hf]; rfl
      simp [this]
    · have hf' : (f || r.rdtype == soaType) = false := by simpa using hf
      simp only [hf', Bool.false_eq_true, if_false]
      have h1 : f = false := by cases f <;> simp_all
      have h2 : (r.rdtype == soaType) = false := by cases h : (r.rdtype == soaType) <;> simp_all
      cases mergeLast acc r with
      | some acc' => simp only []; rw [ih]; simp [h1, h2]
      | none => simp only []; rw [ih]; simp [h1, h2]

/-- **Nothing moves across an SOA**: whatever comes before it in the message, an SOA record and everything
after it are read as one rrset per record, in wire order, behind what came before — so records that follow
the final SOA of a transfer in the same message still follow it for `Inbound.process_message`. -/
theorem parse_keeps_order_from_soa (f : Bool) (l : List RR) (s : RR) (extra : List RR) (hs : s.rdtype = soaType) :
    parseAnswer f (l ++ s :: extra) =
      parseAnswer f l ++ single (clampTtl s) :: (extra.map clampTtl).map single := by
  unfold parseAnswer
  rw [List.map_append, List.map_cons, parseLoop_append]
  have : parseLoop (f || (l.map clampTtl).any fun r => r.rdtype == soaType) (parseLoop f [] (l.map clampTtl))
        (clampTtl s :: extra.map clampTtl) =
      parseLoop true (parseLoop f [] (l.map clampTtl) ++ [single (clampTtl s)]) (extra.map clampTtl) := by
    simp [parseLoop, hs]
  rw [this, parseLoop_forced]
  simp

/-- a message that starts with the SOA (the first message of every transfer) is read record by record -/
theorem parse_from_soa (f : Bool) (s : RR) (rest : List RR) (hs : s.rdtype = soaType) (h : TtlOk (s :: rest)) :
    parseAnswer f (s :: rest) = single s :: rest.map single := by
  have := parse_keeps_order_from_soa f [] s rest hs
  have h1 : clampTtl s = s := by have := clamp_of_ok h; simp at this; exact this.1
  have h2 : rest.map clampTtl = rest := clamp_of_ok (fun x hx => h x (by simp [hx]))
  simpa [parseAnswer, parseLoop, h1, h2] using this

/-! ## merging preserves the records -/

theorem mergeLast_some {acc : List RRset} {r : RR} {acc' : List RRset} (h : mergeLast acc r = some acc') :
    ∃ pre rs post, acc = pre ++ rs :: post ∧ acc' = pre ++ mergeInto rs r :: post ∧
      rs.owner = r.owner ∧ rs.rdtype = r.rdtype := by
  induction acc generalizing acc' with
  | nil => simp [mergeLast] at h
  | cons a rest ih =>
    unfold mergeLast at h
    cases hm : mergeLast rest r with
    | some rest' =>
      rw [hm] at h
      simp only [Option.some.injEq] at h
      obtain ⟨pre, rs, post, e1, e2, k⟩ := ih hm
      exact ⟨a :: pre, rs, post, by rw [e1]; rfl, by rw [← h, e2]; rfl, k⟩
    | none =>
      rw [hm] at h
      simp only [] at h
      split at h
      · rename_i hk
        simp only [Option.some.injEq] at h
        simp only [Bool.and_eq_true, beq_iff_eq] at hk
        exact ⟨[], a, rest, rfl, by rw [← h]; rfl, hk⟩
      · cases h

/-- merging a record into a non-empty rrset of its key, when that rrset and the record fit together
(same TTL, singleton types hold one rdata): the rrset's records plus the record -/
theorem recsOf_mergeInto {rs : RRset} {r : RR} (ho : rs.owner = r.owner) (ht : rs.rdtype = r.rdtype)
    (hne : rs.rdatas ≠ []) (hc : Coherent (recsOf rs ++ [r])) :
    recsOf (mergeInto rs r) ≃z (recsOf rs ++ [r]) := by
  obtain ⟨o, t, ttl, ds⟩ := rs
  cases ds with
  | nil => exact absurd rfl hne
  | cons d0 tl =>
    simp only at ho ht
    have hin : ∀ d ∈ d0 :: tl, (⟨o, t, d, ttl⟩ : RR) ∈ recsOf ⟨o, t, ttl, d0 :: tl⟩ ++ [r] := by
      intro d hd; simp only [List.mem_append, recsOf, List.mem_map]; exact Or.inl ⟨d, hd, rfl⟩
    have hr : r ∈ recsOf ⟨o, t, ttl, d0 :: tl⟩ ++ [r] := by simp
    have httl : ttl = r.ttl := hc.1 _ (hin d0 (by simp)) r hr ho ht
    have hreq : (⟨o, t, r.rdata, ttl⟩ : RR) = r := by cases r; simp_all
    have hmin : min ttl r.ttl = ttl := by rw [← httl]; exact Nat.min_self _
    intro q
    simp only [mergeInto, recsOf, hmin, List.mem_map, List.mem_append, List.mem_singleton]
    constructor
    · rintro ⟨d, hd, rfl⟩
      split at hd
      · simp only [List.mem_singleton] at hd; subst hd; exact Or.inr hreq
      · split at hd
        · exact Or.inl ⟨d, hd, rfl⟩
        · rcases List.mem_append.1 hd with h | h
          · exact Or.inl ⟨d, h, rfl⟩
          · simp only [List.mem_singleton] at h; subst h; exact Or.inr hreq
    · rintro (⟨d, hd, rfl⟩ | h)
      · refine ⟨d, ?_, rfl⟩
        split
        · rename_i hs
          simp only [List.mem_singleton]
          exact hc.2.2 _ (hin d hd) r hr ho ht hs
        · split
          · exact hd
          · exact List.mem_append.2 (Or.inl hd)
      · refine ⟨r.rdata, ?_, by rw [h]; exact hreq⟩
        split
        · simp
        · split
          · rename_i hcon; exact List.contains_iff_mem.1 hcon
          · simp

/-- the state of the loop while no SOA has been seen: rrsets non-empty, and their records are the records
read so far -/
theorem parseLoop_merge : ∀ (l : List RR) (acc : List RRset),
    (∀ r ∈ l, r.rdtype ≠ soaType) → (∀ rs ∈ acc, rs.rdatas ≠ []) → Coherent (recsOfAll acc ++ l) →
    (∀ rs ∈ parseLoop false acc l, rs.rdatas ≠ []) ∧ recsOfAll (parseLoop false acc l) ≃z (recsOfAll acc ++ l) := by
  intro l
  induction l with
  | nil => intro acc _ hne _; exact ⟨by simpa [parseLoop] using hne, by simp [parseLoop, Zone.equiv_refl]⟩
  | cons r rest ih =>
    intro acc hns hne hc
    have hr : (r.rdtype == soaType) = false := by simpa using hns r (by simp)
    simp only [parseLoop, Bool.false_or, hr, Bool.false_eq_true, if_false]
    have hstep : ∀ acc', (∀ rs ∈ acc', rs.rdatas ≠ []) → recsOfAll acc' ≃z (recsOfAll acc ++ [r]) →
        (∀ rs ∈ parseLoop false acc' rest, rs.rdatas ≠ []) ∧
          recsOfAll (parseLoop false acc' rest) ≃z (recsOfAll acc ++ r :: rest) := by
      intro acc' hne' hq
      have hq' : (recsOfAll acc' ++ rest) ≃z (recsOfAll acc ++ r :: rest) := by
        intro q; simp only [List.mem_append, List.mem_cons]; rw [hq q]; simp [or_assoc]
      have := ih acc' (fun x hx => hns x (by simp [hx])) hne' (Coherent.congr hq' hc)
      exact ⟨this.1, Zone.equiv_trans this.2 hq'⟩
    cases hm : mergeLast acc r with
    | none =>
      simp only []
      refine hstep (acc ++ [single r]) ?_ ?_
      · intro rs hrs
        rcases List.mem_append.1 hrs with h | h
        · exact hne rs h
        · simp only [List.mem_singleton] at h; subst h; simp [single]
      · intro q; simp [recsOfAll_append, recsOfAll_cons, recsOf_single, recsOfAll_nil]
    | some acc' =>
      simp only []
      obtain ⟨pre, rs, post, e1, e2, ho, ht⟩ := mergeLast_some hm
      have hrs : rs.rdatas ≠ [] := hne rs (by rw [e1]; simp)
      have hsub : ∀ q ∈ recsOf rs ++ [r], q ∈ recsOfAll acc ++ r :: rest := by
        intro q hq
        rcases List.mem_append.1 hq with h | h
        · refine List.mem_append.2 (Or.inl ?_)
          rw [e1]; simp only [recsOfAll, List.mem_flatMap]; exact ⟨rs, by simp, h⟩
        · simp only [List.mem_singleton] at h; subst h; simp
      have hmi := recsOf_mergeInto ho ht hrs (hc.subset hsub)
      refine hstep acc' ?_ ?_
      · intro x hx
        rw [e2] at hx
        rcases List.mem_append.1 hx with h | h
        · exact hne x (by rw [e1]; exact List.mem_append.2 (Or.inl h))
        · rcases List.mem_cons.1 h with h | h
          · subst h
            simp only [mergeInto]
            split
            · simp
            · split
              · exact hrs
              · simp
          · exact hne x (by rw [e1]; simp [h])
      · intro q
        rw [e2, e1]
        simp only [recsOfAll_append, recsOfAll_cons, List.mem_append]
        rw [hmi q]
        simp only [List.mem_append, List.mem_singleton]
        constructor
        · rintro (h | (h | h) | h)
          · exact Or.inl (Or.inl h)
          · exact Or.inl (Or.inr (Or.inl h))
          · exact Or.inr h
          · exact Or.inl (Or.inr (Or.inr h))
        · rintro ((h | h | h) | h)
          · exact Or.inl h
          · exact Or.inr (Or.inl (Or.inl h))
          · exact Or.inr (Or.inr h)
          · exact Or.inr (Or.inl (Or.inr h))

/-- **A message without an SOA** (a continuation message of an AXFR), read with rrset merging: the rrsets
are non-empty, carry owners and types of the records, and hold exactly the records of the message. -/
theorem parse_soa_free (l : List RR) (hns : ∀ r ∈ l, r.rdtype ≠ soaType) (hc : Coherent l) (ht : TtlOk l) :
    (∀ rs ∈ parseAnswer false l, rs.rdatas ≠ []) ∧ recsOfAll (parseAnswer false l) ≃z l := by
  have := parseLoop_merge l [] hns (by simp) (by simpa [recsOfAll_nil] using hc)
  simpa [parseAnswer, recsOfAll_nil, clamp_of_ok ht] using this

/-! ## transfers read from the wire -/

theorem rrsets_of_parse_ok {o : Name} {l : List RR} {res : List RRset}
    (hl : ∀ r ∈ l, r.rdtype ≠ soaType ∧ isSubdomain r.owner o = true)
    (hne : ∀ rs ∈ res, rs.rdatas ≠ []) (hq : recsOfAll res ≃z l) : BodyOk o res := by
  intro rs hrs
  obtain ⟨d, hd⟩ : ∃ d, d ∈ rs.rdatas := by
    cases h : rs.rdatas with
    | nil => exact absurd h (hne rs hrs)
    | cons d _ => exact ⟨d, by simp⟩
  have hm : (⟨rs.owner, rs.rdtype, d, rs.ttl⟩ : RR) ∈ recsOfAll res := by
    simp only [recsOfAll, List.mem_flatMap, recsOf, List.mem_map]; exact ⟨rs, hrs, d, hd, rfl⟩
  have := hl _ ((hq _).1 hm)
  exact ⟨this.1, this.2, hne rs hrs⟩

/-- the continuation messages of an AXFR (no SOA in them), read from the wire, one after the other -/
theorem parse_mids {o : Name} : ∀ (mids : List WireMsg),
    (∀ m ∈ mids, ∀ r ∈ m.recs, r.rdtype ≠ soaType ∧ isSubdomain r.owner o = true) →
    Coherent (mids.flatMap (·.recs)) → TtlOk (mids.flatMap (·.recs)) →
    BodyOk o (mids.flatMap fun m => parseAnswer false m.recs) ∧
      recsOfAll (mids.flatMap fun m => parseAnswer false m.recs) ≃z mids.flatMap (·.recs) := by
  intro mids
  induction mids with
  | nil => intro _ _ _; exact ⟨fun _ h => by simp at h, by simp [recsOfAll_nil, Zone.equiv_refl]⟩
  | cons m rest ih =>
    intro hok hc ht
    simp only [List.flatMap_cons] at hc ht ⊢
    have h1 := parse_soa_free m.recs (fun r hr => (hok m (by simp) r hr).1)
      (hc.subset fun r hr => List.mem_append.2 (Or.inl hr)) (fun r hr => ht r (List.mem_append.2 (Or.inl hr)))
    have hb1 := rrsets_of_parse_ok (o := o) (hok m (by simp)) h1.1 h1.2
    have h2 := ih (fun m' hm' => hok m' (by simp [hm'])) (hc.subset fun r hr => List.mem_append.2 (Or.inr hr))
      (fun r hr => ht r (List.mem_append.2 (Or.inr hr)))
    refine ⟨fun rs hrs => ?_, ?_⟩
    · rcases List.mem_append.1 hrs with h | h
      · exact hb1 rs h
      · exact h2.1 rs h
    · intro q
      rw [recsOfAll_append, List.mem_append, List.mem_append, h1.2 q, h2.2 q]

end Model.Xfr

import Proofs.WritersBase
/-! Invariants about events: the wake-up token (`_write_event`), the waiter queue, and who owns which event. -/
namespace Model.Writers

/-- the lock is held, and its holder is at program point `p` -/
def State.lockAt (s : State) (p : Pc) : Prop := s.lock ≠ none ∧ ∀ u, s.lock = some u → (s.loc u).pc = p

structure InvEv (s : State) : Prop where
  /-- an event held in a local variable exists and was created by that thread -/
  evLt : ∀ t e, (s.loc t).ev = some e → e < s.nextEv ∧ s.owner e = t
  /-- every queued event belongs to a thread that is parked on it (or about to be), is not set and is not the token -/
  wq : ∀ e, e ∈ s.waiters → e < s.nextEv ∧ (s.loc (s.owner e)).ev = some e ∧ queuedPc (s.loc (s.owner e)).pc = true ∧
        e ∉ s.evSet ∧ s.writeEvent ≠ some e
  wqNodup : s.waiters.Nodup
  /-- only existing events have been set -/
  setLt : ∀ e, e ∈ s.evSet → e < s.nextEv
  /-- the token belongs to exactly one thread, which is on its way to admission -/
  tok : ∀ e, s.writeEvent = some e → e < s.nextEv ∧ (s.loc (s.owner e)).ev = some e ∧ tokenPc (s.loc (s.owner e)).pc = true ∧
        e ∉ s.waiters ∧
        (e ∈ s.evSet ∨ ((s.loc (s.owner e)).pc = .wWait ∧ s.lockAt .eSet)) ∧
        (s.writeTxn = none ∨ (s.loc (s.owner e)).pc = .wClrEv)
  app : ∀ t, (s.loc t).pc = .wAppend → (s.loc t).ev ≠ none ∧
        ∀ e, (s.loc t).ev = some e → e ∉ s.waiters ∧ s.writeEvent ≠ some e ∧ e ∉ s.evSet
  relB : ∀ t, (s.loc t).pc = .wRelB → (s.loc t).ev ≠ none ∧ ∀ e, (s.loc t).ev = some e → e ∈ s.waiters
  wait : ∀ t, (s.loc t).pc = .wWait → (s.loc t).ev ≠ none ∧
        ∀ e, (s.loc t).ev = some e → e ∈ s.waiters ∨ s.writeEvent = some e
  acq : ∀ t, (s.loc t).pc = .wAcq ∨ (s.loc t).pc = .wTest → ∀ e, (s.loc t).ev = some e → s.writeEvent = some e ∧ e ∈ s.evSet
  mkEv : ∀ t, (s.loc t).pc = .wMkTxn → s.writeEvent = (s.loc t).ev
  newEv : ∀ t, (s.loc t).pc = .wNewEv → (s.loc t).ev = none
  failed : ∀ t, (s.loc t).pc = .wNewEv ∨ (s.loc t).pc = .wAppend → s.writeTxn ≠ none ∨ s.writeEvent ≠ none
  setE : ∀ t, (s.loc t).pc = .eSet → s.writeTxn = none ∧ ∃ e, s.writeEvent = some e ∧ e ∉ s.evSet
  pop : ∀ t, (s.loc t).pc = .ePop → s.waiters ≠ [] ∧ s.writeTxn = none ∧ s.writeEvent = none
  testW : ∀ t, (s.loc t).pc = .eTestW → s.writeTxn = none ∧ s.writeEvent = none
  /-- a non-empty queue is never orphaned: somebody is bound to pop it -/
  orphan : s.waiters ≠ [] → s.writeTxn ≠ none ∨ s.writeEvent ≠ none ∨ s.lockAt .eTestW ∨ s.lockAt .ePop

theorem invEv_init : InvEv init := by
  constructor <;> simp [init]

end Model.Writers

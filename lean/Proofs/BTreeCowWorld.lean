import Proofs.BTreeCowDelete2
/-!
Mechanism-level proofs, part 12: `_delete` on the root, and the session level — any number of trees sharing
one heap.  Every operation of a tree with creator token `c` changes only cells created by `c` (or fresh ones),
its effect on its own tree is the operation of the persistent model, and the abstraction of every other tree
is unchanged.
-/
namespace Model.BTreeCow
open Model.BTree

theorem height_absN {H : Heap} : ∀ {h a : Nat}, HT H h a → height (absN H h a) = h := by
  intro h
  induction h with
  | zero => intro a _; simp [absN, height]
  | succ h ih =>
    intro a ht
    have hlen := ht.2.2.1
    cases hk : (rd H a).kids with
    | nil => rw [hk] at hlen; simp at hlen
    | cons k ks =>
      have := ih (HT_kid (k := k) ht (by rw [hk]; simp))
      simp [absN_succ, hk, height, heightL, this]

theorem shape_of_wf {t : Nat} {H : Heap} {h a : Nat} (hw : Wf t (absN H h a)) (ht : HT H h a) :
    Shape t h (absN H h a) := by
  obtain ⟨h0, hs0⟩ := hw.shape
  have e1 := height_of_shape hs0
  have e2 := height_absN ht
  have : h0 = h := by omega
  subst this; exact hs0

/-! ## `_delete` on the root -/

theorem deleteRoot_sim {c t : Nat} (ht : 2 ≤ t) (always : Bool) (key : Nat) {H : Heap} {h root : Nat}
    (hht : HT H h root) (nd : (reach H h root).Nodup) (hw : Wf t (absN H h root))
    (hpos : h ≠ 0 → 1 ≤ (rd H root).elts.length) :
    ∃ h', RUpd c H (hDeleteRoot always t H c root key none).1 h root h' (hDeleteRoot always t H c root key none).2.1
        (deleteRoot always t (absN H h root) key none).1 ∧
      (hDeleteRoot always t H c root key none).2.2 = (deleteRoot always t (absN H h root) key none).2 := by
  have hsh := shape_of_wf hw hht
  obtain ⟨u1, g1⟩ := cow_root_spec (c := c) hht nd
  unfold hDeleteRoot deleteRoot
  rcases hcw : cow H c root with ⟨H1, r1⟩
  rw [hcw] at u1 g1
  simp only [] at u1 g1 ⊢
  rw [heightOf_of_HT g1.ht g1.nodup, height_of_shape hsh]
  have hpos1 : h ≠ 0 → 1 ≤ (rd H1 r1).elts.length ∨ ∀ k ∈ (rd H1 r1).kids, (rd H1 k).elts.length ≠ minKeys t := by
    intro h0
    left
    have := hpos h0
    rw [← absN_elts H h root, ← u1.abs, absN_elts] at this
    exact this
  obtain ⟨s1, s2⟩ := hDelete_sim (c := c) ht h H1 r1 key g1 (by rw [u1.abs]; exact hsh) (by rw [u1.abs]; exact hw.sorted) hpos1
  rw [u1.abs] at s1 s2
  have hspec := delete_spec ht h (absN H h root) key hsh hw.sorted (by
    intro h0; left; rw [absN_elts]; exact hpos h0)
  rcases hd : hDelete t h H1 r1 key none with ⟨H2, res⟩
  rw [hd] at s1 s2
  simp only [] at s1 s2 ⊢
  rcases hpd : delete t h (absN H h root) key none with ⟨n2, pres⟩
  rw [hpd] at s1 s2 hspec
  simp only [] at s1 s2
  subst s2
  have hret : res = DelRes.ok (lookup (flat (absN H h root)) key) := hspec.ret
  subst hret
  simp only []
  have u2 : RUpd c H H2 h root h r1 n2 := RUpd.trans u1 s1.toRUpd
  by_cases hcol : (always || (lookup (flat (absN H h root)) key).isSome) = true
  · simp only [hcol, Bool.true_and, if_true]
    -- collapse an empty internal root
    cases h with
    | zero =>
      have hl : (rd H2 r1).leaf = true := s1.ht.2
      simp only [hl, Bool.not_true, Bool.false_and, Bool.and_false, Bool.false_eq_true, if_false]
      have : collapseRoot n2 = n2 := by
        rw [← s1.abs]; simp [absN, collapseRoot]
      rw [this]
      exact ⟨0, u2, trivial⟩
    | succ h =>
      have hl : (rd H2 r1).leaf = false := s1.ht.2.1
      have hklen := s1.ht.2.2.1
      cases hk : (rd H2 r1).kids with
      | nil => rw [hk] at hklen; simp at hklen
      | cons k0 ks =>
        cases he : (rd H2 r1).elts with
        | cons e es =>
          simp only [hl, List.isEmpty_cons, Bool.false_and, Bool.and_false, Bool.false_eq_true, if_false]
          have : collapseRoot n2 = n2 := by
            rw [← s1.abs]; simp [absN_succ, collapseRoot, he]
          rw [this]
          exact ⟨h + 1, u2, trivial⟩
        | nil =>
          simp only [hl, List.isEmpty_nil, Bool.not_false, List.isEmpty_cons, Bool.and_self, if_true, kidA,
            List.getD_cons_zero]
          have hcr : collapseRoot n2 = absN H2 h k0 := by
            rw [← s1.abs]; simp [absN_succ, collapseRoot, he, hk]
          rw [hcr]
          have hk0mem : k0 ∈ (rd H2 r1).kids := by rw [hk]; simp
          refine ⟨h, ⟨u2.size, u2.same, u2.creator, u2.fresh, HT_kid s1.ht hk0mem,
            (nodup_kid (kl := []) s1.nodup (by simpa using hk)).1, ?_, rfl⟩, trivial⟩
          intro x hx
          exact u2.sub x (reach_kid_sub hk0mem x hx)
  · have hcf : (always || (lookup (flat (absN H h root)) key).isSome) = false := by simpa using hcol
    simp only [hcf, Bool.false_and, Bool.false_eq_true, if_false]
    exact ⟨h, u2, trivial⟩

end Model.BTreeCow

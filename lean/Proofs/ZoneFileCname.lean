import Model.ZoneFile
/-! CNAME exclusivity is an invariant of every zone update the reader performs. -/
namespace Model

/-- a node never holds a CNAME-kind rdataset together with "other data" (a regular-kind rdataset) -/
def NodeOK (nd : Node) : Prop :=
  ¬ ((∃ r ∈ nd, classifyType r.rdtype = .cname) ∧ (∃ r ∈ nd, classifyType r.rdtype = .regular))

def ZoneOK (z : ZoneMap) : Prop := ∀ p ∈ z, NodeOK p.2

theorem nodeOK_nil : NodeOK [] := by simp [NodeOK]

theorem zoneOK_nil : ZoneOK [] := by simp [ZoneOK]

theorem nodeOK_filter (nd : Node) (f : Rdataset → Bool) (h : NodeOK nd) : NodeOK (nd.filter f) := by
  intro ⟨⟨a, ha, hac⟩, ⟨b, hb, hbr⟩⟩
  exact h ⟨⟨a, (List.mem_filter.mp ha).1, hac⟩, ⟨b, (List.mem_filter.mp hb).1, hbr⟩⟩

/-- `Node.replace_rdataset` re-establishes exclusivity by itself (`_append_rdataset` deletes the other side) -/
theorem nodeReplace_ok (nd : Node) (rds : Rdataset) (h : NodeOK nd) : NodeOK (nodeReplace nd rds) := by
  unfold nodeReplace
  simp only
  generalize hnd' : nd.filter (fun r => decide (r.rdtype ≠ rds.rdtype)) = nd'
  have hok' : NodeOK nd' := hnd' ▸ nodeOK_filter nd _ h
  by_cases he : nd' = []
  · simp only [he, if_true]
    intro ⟨⟨a, ha, hac⟩, ⟨b, hb, hbr⟩⟩
    simp at ha hb
    subst ha; subst hb
    rw [hac] at hbr; cases hbr
  · simp only [he, if_false]
    cases hk : classifyType rds.rdtype with
    | cname =>
      simp only
      intro ⟨_, ⟨b, hb, hbr⟩⟩
      simp only [List.mem_append, List.mem_filter, List.mem_singleton] at hb
      rcases hb with ⟨_, hb2⟩ | hb
      · simp [hbr] at hb2
      · subst hb; rw [hk] at hbr; cases hbr
    | regular =>
      simp only
      intro ⟨⟨a, ha, hac⟩, _⟩
      simp only [List.mem_append, List.mem_filter, List.mem_singleton] at ha
      rcases ha with ⟨_, ha2⟩ | ha
      · simp [hac] at ha2
      · subst ha; rw [hk] at hac; cases hac
    | neutral =>
      simp only
      intro ⟨⟨a, ha, hac⟩, ⟨b, hb, hbr⟩⟩
      simp only [List.mem_append, List.mem_singleton] at ha hb
      rcases ha with ha | ha
      · rcases hb with hb | hb
        · exact hok' ⟨⟨a, ha, hac⟩, ⟨b, hb, hbr⟩⟩
        · subst hb; rw [hk] at hbr; cases hbr
      · subst ha; rw [hk] at hac; cases hac

theorem zoneFind_ok (z : ZoneMap) (n : Name) (nd : Node) (hz : ZoneOK z) (h : zoneFind z n = some nd) : NodeOK nd := by
  unfold zoneFind at h
  cases hf : z.find? (fun p => nameEq p.1 n) with
  | none => simp [hf] at h
  | some p =>
    simp [hf] at h
    subst h
    exact hz p (List.mem_of_find?_eq_some hf)

theorem zonePut_ok (z : ZoneMap) (n : Name) (nd : Node) (hz : ZoneOK z) (hn : NodeOK nd) : ZoneOK (zonePut z n nd) := by
  unfold zonePut
  split
  · intro p hp
    simp only [List.mem_map] at hp
    obtain ⟨q, hq, rfl⟩ := hp
    split
    · exact hn
    · exact hz q hq
  · intro p hp
    simp only [List.mem_append, List.mem_singleton] at hp
    rcases hp with hp | hp
    · exact hz p hp
    · subst hp; exact hn

theorem zoneAdd_ok (z z' : ZoneMap) (eff : Option Name) (name : Name) (ttl ty : Nat) (rr : RR)
    (hz : ZoneOK z) (h : zoneAdd z eff name ttl ty rr = .ok z') : ZoneOK z' := by
  simp only [zoneAdd] at h
  split at h
  · cases h
  · split at h
    · cases h
    · simp only [Except.ok.injEq] at h
      subst h
      apply zonePut_ok _ _ _ hz
      apply nodeReplace_ok
      cases hf : zoneFind z name with
      | none => simpa using nodeOK_nil
      | some nd => simpa using zoneFind_ok z name nd hz hf

theorem addEntry_ok (z z' : ZoneMap) (eff : Option Name) (e : Entry) (hz : ZoneOK z)
    (h : addEntry z eff e = .ok z') : ZoneOK z' :=
  zoneAdd_ok z z' eff e.name e.ttl e.rdtype e.rr hz h

theorem generateLoop_ok (ttl ty : Nat) (items : List (List Nat × List Nat)) (r r' : PState) (z z' : ZoneMap)
    (hz : ZoneOK z) (h : generateLoop ttl ty items r z = .ok (r', z')) : ZoneOK z' := by
  induction items generalizing r z with
  | nil => simp [generateLoop, pure, Except.pure] at h; rw [← h.2]; exact hz
  | cons item rest ih =>
    simp only [generateLoop, bind, Except.bind] at h
    split at h
    · cases h
    · rename_i v hv
      obtain ⟨e, r1⟩ := v
      simp only at h
      cases e with
      | none => exact ih r1 z hz h
      | some e =>
        simp only at h
        split at h
        · cases h
        · rename_i z1 hz1
          exact ih r1 z1 (addEntry_ok z z1 _ e hz hz1) h

theorem generateLine_ok (r r' : PState) (z z' : ZoneMap) (hz : ZoneOK z)
    (h : generateLine r z = .ok (r', z')) : ZoneOK z' := by
  simp only [generateLine, bind, Except.bind] at h
  split at h
  · cases h
  · rename_i v hv
    obtain ⟨hd, r1⟩ := v
    exact generateLoop_ok _ _ _ _ _ _ _ hz h

theorem readStep_ok (r r' : PState) (z z' : ZoneMap) (hz : ZoneOK z)
    (h : readStep r z = .ok (some (r', z'))) : ZoneOK z' := by
  simp only [readStep, bind, Except.bind] at h
  split at h
  · cases h
  · rename_i v hv
    obtain ⟨ev, r1⟩ := v
    simp only at h
    cases ev with
    | eof => simp [pure, Except.pure] at h
    | nothing => simp [pure, Except.pure] at h; rw [← h.2]; exact hz
    | entry e =>
      simp only at h
      split at h
      · cases h
      · rename_i z1 hz1
        simp [pure, Except.pure] at h
        rw [← h.2]; exact addEntry_ok z z1 _ e hz hz1
    | generate =>
      simp only at h
      split at h
      · cases h
      · rename_i w hw
        obtain ⟨r2, z2⟩ := w
        simp [pure, Except.pure] at h
        rw [← h.2]; exact generateLine_ok r1 r2 z z2 hz hw

theorem readLoop_ok (fuel : Nat) (r r' : PState) (z z' : ZoneMap) (hz : ZoneOK z)
    (h : readLoop fuel r z = .ok (r', z')) : ZoneOK z' := by
  induction fuel generalizing r z with
  | zero => simp [readLoop] at h
  | succ f ih =>
    simp only [readLoop, bind, Except.bind] at h
    split at h
    · cases h
    · rename_i v hv
      cases v with
      | none => simp [pure, Except.pure] at h; rw [← h.2]; exact hz
      | some p =>
        obtain ⟨r1, z1⟩ := p
        exact ih r1 z1 (readStep_ok r r1 z z1 hz hv) h

end Model

import Model.BTreeCow
import Proofs.BTreeTree
/-!
Mechanism-level proofs, part 1: heap primitives, the cells reachable from an address, the frame lemma
(an abstraction depends only on the cells it reaches), and `maybe_cow` / `maybe_cow_child`.
-/
namespace Model.BTreeCow
open Model.BTree

/-! ## `rd` / `wr` / `alloc` -/

@[simp] theorem size_wr (H : Heap) (a : Nat) (c : Cell) : (wr H a c).size = H.size := by simp [wr]

theorem rd_wr_same {H : Heap} {a : Nat} (c : Cell) (h : a < H.size) : rd (wr H a c) a = c := by
  simp [rd, wr, Array.getElem?_setIfInBounds_self_of_lt h]

theorem rd_wr_other {H : Heap} {a b : Nat} (c : Cell) (h : a ≠ b) : rd (wr H a c) b = rd H b := by
  simp [rd, wr, Array.getElem?_setIfInBounds_ne h]

theorem rd_wr (H : Heap) (a b : Nat) (c : Cell) (h : a < H.size) :
    rd (wr H a c) b = if b = a then c else rd H b := by
  by_cases hb : b = a
  · subst hb; simp [rd_wr_same c h]
  · simp [hb, rd_wr_other c (Ne.symm hb)]

@[simp] theorem size_alloc (H : Heap) (c : Cell) : (alloc H c).1.size = H.size + 1 := by simp [alloc]
@[simp] theorem alloc_snd (H : Heap) (c : Cell) : (alloc H c).2 = H.size := rfl

theorem rd_alloc_new (H : Heap) (c : Cell) : rd (alloc H c).1 H.size = c := by
  simp [rd, alloc]

theorem rd_alloc_old {H : Heap} {b : Nat} (c : Cell) (h : b < H.size) : rd (alloc H c).1 b = rd H b := by
  simp [rd, alloc, Array.getElem?_push_lt h, Array.getElem?_eq_getElem h]

theorem rd_alloc (H : Heap) (b : Nat) (c : Cell) (h : b ≤ H.size) :
    rd (alloc H c).1 b = if b = H.size then c else rd H b := by
  by_cases hb : b = H.size
  · subst hb; simp [rd_alloc_new]
  · simp [hb, rd_alloc_old c (show b < H.size by omega)]

/-! ## reachable cells and well-formed pointers -/

/-- the addresses of the subtree of height `h` at `a`, in preorder -/
def reach (H : Heap) : Nat → Nat → List Nat
  | 0, a => [a]
  | h + 1, a => a :: (rd H a).kids.flatMap (reach H h)

/-- the pointers of the subtree are valid, leaves sit exactly at height 0, and every internal cell has one
more child than elements -/
def HT (H : Heap) : Nat → Nat → Prop
  | 0, a => a < H.size ∧ (rd H a).leaf = true
  | h + 1, a => a < H.size ∧ (rd H a).leaf = false ∧ (rd H a).kids.length = (rd H a).elts.length + 1 ∧
      ∀ k ∈ (rd H a).kids, HT H h k

theorem HT_lt {H : Heap} {h a : Nat} (ht : HT H h a) : a < H.size := by
  cases h <;> exact ht.1

theorem reach_lt {H : Heap} : ∀ {h a : Nat}, HT H h a → ∀ x ∈ reach H h a, x < H.size := by
  intro h
  induction h with
  | zero => intro a ht x hx; simp [reach] at hx; subst hx; exact ht.1
  | succ h ih =>
    intro a ht x hx
    simp only [reach, List.mem_cons, List.mem_flatMap] at hx
    rcases hx with rfl | ⟨k, hk, hx⟩
    · exact ht.1
    · exact ih (ht.2.2.2 k hk) x hx

theorem self_mem_reach (H : Heap) (h a : Nat) : a ∈ reach H h a := by
  cases h <;> simp [reach]

/-- the frame lemma: the abstraction, the reachable cells and the pointer structure of a subtree depend only
on the cells the subtree reaches -/
theorem frame {H H' : Heap} (hsize : H.size ≤ H'.size) : ∀ (h a : Nat), (∀ x ∈ reach H h a, rd H' x = rd H x) →
    absN H' h a = absN H h a ∧ reach H' h a = reach H h a ∧ (HT H h a → HT H' h a) := by
  intro h
  induction h with
  | zero =>
    intro a hsame
    have := hsame a (by simp [reach])
    refine ⟨by simp [absN, this], by simp [reach], ?_⟩
    intro ht
    exact ⟨by have := ht.1; omega, by rw [this]; exact ht.2⟩
  | succ h ih =>
    intro a hsame
    have ha := hsame a (by simp [reach])
    have hk : ∀ k ∈ (rd H a).kids, absN H' h k = absN H h k ∧ reach H' h k = reach H h k ∧ (HT H h k → HT H' h k) := by
      intro k hk
      apply ih
      intro x hx
      exact hsame x (by simp only [reach, List.mem_cons, List.mem_flatMap]; exact Or.inr ⟨k, hk, hx⟩)
    refine ⟨?_, ?_, ?_⟩
    · simp only [absN, ha]
      congr 1
      exact List.map_congr_left (fun k hk' => (hk k hk').1)
    · simp only [reach, ha]
      congr 1
      rw [List.flatMap_def, List.flatMap_def]
      congr 1
      exact List.map_congr_left (fun k hk' => (hk k hk').2.1)
    · intro ht
      refine ⟨by have := ht.1; omega, by rw [ha]; exact ht.2.1, by rw [ha]; exact ht.2.2.1, ?_⟩
      rw [ha]
      intro k hk'
      exact (hk k hk').2.2 (ht.2.2.2 k hk')

/-! ## the footprint of an in-place update -/

/-- What an in-place operation with creator token `c` on the subtree of height `h` at `a` guarantees: it writes
only cells of that subtree that `c` created (every other old cell is untouched), never changes a creator, creates
only cells of creator `c`, leaves a well-formed subtree without sharing whose cells are old cells of the subtree
or fresh ones, and the subtree now represents the persistent node `n'`. -/
structure Upd (c : Nat) (H H' : Heap) (h : Nat) (a : Nat) (n' : Node) : Prop where
  size : H.size ≤ H'.size
  same : ∀ x, x < H.size → (x ∉ reach H h a ∨ (rd H x).creator ≠ c) → rd H' x = rd H x
  creator : ∀ x, x < H.size → (rd H' x).creator = (rd H x).creator
  fresh : ∀ x, H.size ≤ x → x < H'.size → (rd H' x).creator = c
  ht : HT H' h a
  nodup : (reach H' h a).Nodup
  sub : ∀ x ∈ reach H' h a, x ∈ reach H h a ∨ H.size ≤ x
  abs : absN H' h a = n'

/-- doing nothing -/
theorem Upd.refl {c : Nat} {H : Heap} {h a : Nat} (ht : HT H h a) (nd : (reach H h a).Nodup) :
    Upd c H H h a (absN H h a) :=
  ⟨Nat.le_refl _, fun _ _ _ => rfl, fun _ _ => rfl, fun x h1 h2 => by omega, ht, nd, fun x hx => Or.inl hx, rfl⟩

/-- two updates of the same subtree in a row -/
theorem Upd.trans {c : Nat} {H H1 H2 : Heap} {h a : Nat} {n1 n2 : Node}
    (u1 : Upd c H H1 h a n1) (u2 : Upd c H1 H2 h a n2) : Upd c H H2 h a n2 := by
  refine ⟨Nat.le_trans u1.size u2.size, ?_, ?_, ?_, u2.ht, u2.nodup, ?_, u2.abs⟩
  · intro x hx hcond
    have h1 := u1.same x hx hcond
    have hc1 := u1.creator x hx
    rw [← h1]
    apply u2.same x (by have := u1.size; omega)
    rcases hcond with hnr | hcr
    · left
      intro hmem
      rcases u1.sub x hmem with h' | h'
      · exact hnr h'
      · omega
    · right; rw [hc1]; exact hcr
  · intro x hx
    rw [u2.creator x (by have := u1.size; omega), u1.creator x hx]
  · intro x hx1 hx2
    by_cases hlt1 : x < H1.size
    · rw [u2.creator x hlt1]; exact u1.fresh x hx1 hlt1
    · exact u2.fresh x (by omega) hx2
  · intro x hx
    rcases u2.sub x hx with h' | h'
    · exact u1.sub x h'
    · right; have := u1.size; omega

/-- the same update seen with a different (equal) target -/
theorem Upd.congr_abs {c : Nat} {H H' : Heap} {h a : Nat} {n n' : Node} (u : Upd c H H' h a n) (e : n = n') :
    Upd c H H' h a n' := e ▸ u

end Model.BTreeCow

import Proofs.WritersEvStep
/-!
FIFO admission: `arrivals = admitted ++ pending`, where `pending` is, in this order, the holder of the wake-up token
(if the token is out and not yet consumed), the owners of the queued events, and the writer that is inside its first
critical section and has neither been admitted nor queued yet.
-/
set_option linter.unusedSimpArgs false
namespace Model.Writers

/-- the thread is in its first critical section of `writer()` and not yet admitted nor queued -/
def firstCS (l : Local) : Bool :=
  match l.pc with
  | .wNewEv | .wAppend => true
  | .wTest | .wMkTxn => l.ev.isNone
  | _ => false

def tokPart (s : State) : List Tid :=
  match s.writeEvent with
  | some e => if s.writeTxn = none then [s.owner e] else []
  | none => []

def inCS (s : State) : List Tid :=
  match s.lock with
  | some u => if firstCS (s.loc u) then [u] else []
  | none => []

def pending (s : State) : List Tid := tokPart s ++ s.waiters.map s.owner ++ inCS s

structure InvQ (s : State) : Prop where
  queue : s.arrivals = s.admitted ++ pending s
  ends : s.admitted.length = s.ends + (if s.writeTxn = none then 0 else 1)

theorem invQ_init : InvQ init := by
  constructor <;> simp [init, pending, tokPart, inCS]

@[simp] theorem tokPart_setLoc (x : State) (t : Tid) (l : Local) : tokPart (x.setLoc t l) = tokPart x := rfl

theorem pending_setLoc (x : State) (t : Tid) (l : Local) :
    pending (x.setLoc t l) = tokPart x ++ x.waiters.map x.owner ++ inCS (x.setLoc t l) := rfl

theorem inCS_setLoc_ne {x : State} {t : Tid} (l : Local) (h : x.lock ≠ some t) : inCS (x.setLoc t l) = inCS x := by
  unfold inCS
  rcases hl : x.lock with _ | u
  · simp [hl]
  · have : u ≠ t := by intro e; apply h; rw [hl, e]
    simp [hl, this]

theorem inCS_setLoc_self {x : State} {t : Tid} (l : Local) (h : x.lock = some t) :
    inCS (x.setLoc t l) = if firstCS l then [t] else [] := by
  simp [inCS, h]

theorem inCS_of_lock {x : State} {t : Tid} (h : x.lock = some t) : inCS x = if firstCS (x.loc t) then [t] else [] := by
  simp [inCS, h]

theorem inCS_of_none {x : State} (h : x.lock = none) : inCS x = [] := by
  simp [inCS, h]

variable {c : Cfg} {s s' : State} {t : Tid}

theorem ends_step (hL : InvLock s) (h : InvQ s) (htr : Trans c s t s') :
    s'.admitted.length = s'.ends + (if s'.writeTxn = none then 0 else 1) := by
  have h0 := h.ends
  have h1 := hL.own t
  have h2 := hL.mkTxn t
  cases htr <;> simp only [setLoc_admitted, setLoc_ends, setLoc_writeTxn] <;> (try exact h0)
  case wMkTxn hpc => simp [h2 hpc] at h0 ⊢; exact h0
  case eTxnNone hpc => 
    have : s.writeTxn = some t := h1.mp (by simp [hpc])
    simp [this] at h0 ⊢; exact h0

/-- the lock is not held by a thread at a program point outside the critical sections -/
theorem lock_ne_of_pc (hL : InvLock s) (hp : holdsLock (s.loc t).pc = false) : s.lock ≠ some t := by
  intro h; have := (hL.lock t).mpr h; simp [hp] at this

theorem lock_eq_of_pc (hL : InvLock s) (hp : holdsLock (s.loc t).pc = true) : s.lock = some t := (hL.lock t).mp hp

set_option maxHeartbeats 1000000 in
theorem queue_step (hL : InvLock s) (hE : InvEv s) (hE' : InvEv s') (h : InvQ s) (htr : Trans c s t s') :
    s'.arrivals = s'.admitted ++ pending s' := by
  have h0 := h.queue
  unfold pending at h0
  cases htr <;> rw [pending_setLoc] <;> simp only [setLoc_arrivals, setLoc_admitted]
  -- A: outside the critical sections, nothing shared changes
  case idleW hpc _ | idleR hpc _ | wInit hpc | wWait hpc _ _ | wSetupId hpc | wSetupCopy hpc | wReturn hpc | wBodyC hpc _
      | wBodyR hpc _ | rdRet hpc | rdBody hpc =>
    rw [inCS_setLoc_ne _ (lock_ne_of_pc hL (by simp [hpc]))]; exact h0
  -- B: lock acquisitions
  case cAcq hpc hl | rAcq hpc hl | rdAcq hpc hl | xAcq hpc hl =>
    rw [inCS_setLoc_self _ rfl, inCS_of_none hl] at *
    simpa [tokPart, firstCS] using h0
  case wAcqAgain hpc hl hev =>
    rw [inCS_setLoc_self _ rfl]
    rw [inCS_of_none hl] at h0
    cases hev' : (s.loc t).ev <;> simp_all [tokPart, firstCS]
  case wAcqFirst hpc hl hev =>
    rw [inCS_setLoc_self _ rfl]
    rw [inCS_of_none hl] at h0
    simp [tokPart, firstCS, hev, h0]
  -- C: inside a critical section, nothing shared changes
  case wTestOk hpc _ _ | cPrune hpc _ | cPruneFail hpc _ | eTestWSome hpc _ | eTestWNone hpc _ | rdPick hpc _ | rdPickId _ _ hpc _ _ | rdPickMiss hpc | xPrune hpc =>
    have hl := lock_eq_of_pc hL (t := t) (by simp [hpc])
    rw [inCS_setLoc_self _ hl]
    rw [inCS_of_lock hl] at h0
    simpa [firstCS, hpc] using h0
  case wTestFail hpc hf =>
    have hl := lock_eq_of_pc hL (t := t) (by simp [hpc])
    have hev : (s.loc t).ev = none := by simpa using hE'.newEv t (by simp)
    rw [inCS_setLoc_self _ hl]
    rw [inCS_of_lock hl] at h0
    simpa [firstCS, hpc, hev] using h0
  -- E: releases
  case wRelA hpc | wRelB hpc | eRel hpc | rdRel hpc | rdFail hpc | xRel hpc =>
    have hl := lock_eq_of_pc hL (t := t) (by simp [hpc])
    rw [inCS_setLoc_ne _ (by simp), inCS_of_none rfl]
    rw [inCS_of_lock hl] at h0
    simpa [firstCS, hpc, tokPart] using h0
  -- D: inside a critical section, shared fields that do not matter here
  case cAppend hpc | cNodes hpc | cUndo hpc | eSet _ hpc _ | rdAdd hpc | xRemove hpc =>
    have hl := lock_eq_of_pc hL (t := t) (by simp [hpc])
    rw [inCS_of_lock hl] at h0
    rw [inCS_setLoc_self]
    · simpa [firstCS, hpc, tokPart] using h0
    · exact hl
  case wMkTxn hpc =>
    have hl := lock_eq_of_pc hL (t := t) (by simp [hpc])
    have hnt := hL.mkTxn t hpc
    have hwe := hE.mkEv t hpc
    rw [inCS_of_lock hl] at h0
    rw [inCS_setLoc_self]
    · rcases hev : (s.loc t).ev with _ | e
      · rw [hev] at hwe
        have hw : s.waiters = [] := by
          apply Classical.byContradiction
          intro hne
          rcases hE.orphan hne with h1 | h1 | h1 | h1
          · exact h1 hnt
          · exact h1 hwe
          · have := h1.2 t hl; rw [hpc] at this; cases this
          · have := h1.2 t hl; rw [hpc] at this; cases this
        simp [firstCS, hpc, hev, tokPart, hwe, hw] at h0 ⊢
        exact h0
      · rw [hev] at hwe
        have ho := (hE.evLt t e hev).2
        simp [firstCS, hpc, hev, tokPart, hwe, hnt, ho] at h0 ⊢
        exact h0
    · exact hl
  case wClrEv hpc =>
    have hl := lock_eq_of_pc hL (t := t) (by simp [hpc])
    have hown : s.writeTxn = some t := (hL.own t).mp (by simp [hpc])
    rw [inCS_of_lock hl] at h0
    rw [inCS_setLoc_self]
    · cases hwe : s.writeEvent <;> simp [firstCS, hpc, tokPart, hown, hwe] at h0 ⊢ <;> exact h0
    · exact hl
  case wNewEv hpc =>
    have hl := lock_eq_of_pc hL (t := t) (by simp [hpc])
    rw [inCS_of_lock hl] at h0
    rw [inCS_setLoc_self]
    · have hmap : s.waiters.map (fun e => if e = s.nextEv then t else s.owner e) = s.waiters.map s.owner := by
        apply List.map_congr_left
        intro e he
        have := (hE.wq e he).1
        have : e ≠ s.nextEv := Nat.ne_of_lt this
        simp [this]
      have htok : tokPart { s with nextEv := s.nextEv + 1, owner := fun e => if e = s.nextEv then t else s.owner e } = tokPart s := by
        unfold tokPart
        rcases hwe : s.writeEvent with _ | e
        · simp [hwe]
        · have := (hE.tok e hwe).1
          have : e ≠ s.nextEv := Nat.ne_of_lt this
          simp [hwe, this]
      rw [htok]
      simp only [hmap]
      simpa [firstCS, hpc] using h0
    · exact hl
  case wAppend e hpc hev =>
    have hl := lock_eq_of_pc hL (t := t) (by simp [hpc])
    have ho := (hE.evLt t e hev).2
    rw [inCS_of_lock hl] at h0
    rw [inCS_setLoc_self]
    · simp [firstCS, hpc, tokPart, ho] at h0 ⊢
      simpa [tokPart] using h0
    · exact hl
  case eTxnNone hpc =>
    have hl := lock_eq_of_pc hL (t := t) (by simp [hpc])
    have hown : s.writeTxn = some t := (hL.own t).mp (by simp [hpc])
    have hwe : s.writeEvent = none := by simpa using (hE'.testW t (by simp)).2
    rw [inCS_of_lock hl] at h0
    rw [inCS_setLoc_self]
    · simp [firstCS, hpc, tokPart, hown, hwe] at h0 ⊢
      exact h0
    · exact hl
  case ePop e rest hpc hw =>
    have hl := lock_eq_of_pc hL (t := t) (by simp [hpc])
    have hp := hE.pop t hpc
    rw [inCS_of_lock hl] at h0
    rw [inCS_setLoc_self]
    · simp [firstCS, hpc, tokPart, hp.2.1, hp.2.2, hw] at h0 ⊢
      exact h0
    · exact hl


theorem invQ_trans (hL : InvLock s) (hE : InvEv s) (hE' : InvEv s') (h : InvQ s) (htr : Trans c s t s') : InvQ s' where
  queue := queue_step hL hE hE' h htr
  ends := ends_step hL h htr

end Model.Writers

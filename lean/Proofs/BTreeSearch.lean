import Proofs.BTreeBasic
/-!
`search_in_node` (fast path + binary search) on a node whose elements are strictly sorted returns the
lower-bound index of the key and whether the key is there.
-/
namespace Model.BTree

/-- the first element has this key -/
def headIs (er : List Elt) (k : Nat) : Bool :=
  match er with
  | e :: _ => e.1 == k
  | [] => false

/-- a sorted list splits into the keys below `k` and the keys at or above `k` -/
theorem lb_split {es : List Elt} (k : Nat) (hs : Sorted es) :
    ∃ el er, es = el ++ er ∧ (∀ x ∈ el, x.1 < k) ∧ (∀ x ∈ er, k ≤ x.1) := by
  induction es with
  | nil => exact ⟨[], [], rfl, by simp, by simp⟩
  | cons e es ih =>
    have ⟨h1, h2⟩ := sorted_cons_iff.mp hs
    by_cases he : e.1 < k
    · obtain ⟨el, er, rfl, hl, hr⟩ := ih h2
      refine ⟨e :: el, er, rfl, ?_, hr⟩
      intro x hx
      rcases List.mem_cons.mp hx with rfl | hx
      · exact he
      · exact hl x hx
    · refine ⟨[], e :: es, rfl, by simp, ?_⟩
      intro x hx
      rcases List.mem_cons.mp hx with rfl | hx
      · omega
      · have := h1 x hx; omega

theorem eltAt_append_left {el er : List Elt} {m : Nat} (h : m < el.length) :
    eltAt (el ++ er) m ∈ el := by
  simp only [eltAt, List.getD_eq_getElem?_getD, List.getElem?_append_left h]
  simp [List.getElem?_eq_getElem h]

theorem eltAt_append_right {el er : List Elt} {m : Nat} (h : el.length ≤ m) :
    eltAt (el ++ er) m = eltAt er (m - el.length) := by
  simp only [eltAt, List.getD_eq_getElem?_getD, List.getElem?_append_right h]

theorem eltAt_mem {er : List Elt} {m : Nat} (h : m < er.length) : eltAt er m ∈ er := by
  simp only [eltAt, List.getD_eq_getElem?_getD]
  simp [List.getElem?_eq_getElem h]

theorem bsearch_spec (el er : List Elt) (k : Nat) (hs : Sorted (el ++ er))
    (hel : ∀ x ∈ el, x.1 < k) (her : ∀ x ∈ er, k ≤ x.1) :
    ∀ fuel l hi, l ≤ el.length → el.length ≤ hi → hi ≤ (el ++ er).length →
      (headIs er k = true → el.length < hi) → hi - l < fuel →
      bsearch (el ++ er) k fuel l hi = (el.length, headIs er k) := by
  intro fuel
  induction fuel with
  | zero => intro l hi _ _ _ _ hf; omega
  | succ fuel ih =>
    intro l hi hl hh hlen hpres hf
    unfold bsearch
    by_cases hlt : l < hi
    · simp only [hlt, if_true]
      have hm1 : l ≤ (l + hi - 1) / 2 := by omega
      have hm2 : (l + hi - 1) / 2 < hi := by omega
      generalize (l + hi - 1) / 2 = m at hm1 hm2
      by_cases hmel : m < el.length
      · have hk := hel _ (eltAt_append_left (er := er) hmel)
        have h1 : ¬ k = (eltAt (el ++ er) m).1 := by omega
        have h2 : ¬ k < (eltAt (el ++ er) m).1 := by omega
        simp only [h1, h2, if_false]
        exact ih (m + 1) hi (by omega) hh hlen hpres (by omega)
      · have hmel : el.length ≤ m := by omega
        rw [eltAt_append_right hmel]
        cases er with
        | nil => simp at hlen; omega
        | cons e er' =>
          have ⟨_, hser, hcross⟩ := sorted_append_iff.mp hs
          have ⟨he1, _⟩ := sorted_cons_iff.mp hser
          by_cases hm0 : m = el.length
          · subst hm0
            simp only [Nat.sub_self, eltAt_zero_cons]
            by_cases hke : k = e.1
            · simp [hke, headIs]
            · have hge := her e (by simp)
              have h2 : k < e.1 := by omega
              simp only [hke, h2, if_false, if_true]
              have hp : headIs (e :: er') k = false := by
                simp [headIs]; omega
              exact ih l el.length hl (Nat.le_refl _) (by simp) (by simp [hp]) (by omega)
          · have hpos : 0 < m - el.length := by omega
            have hmem : eltAt (e :: er') (m - el.length) ∈ er' := by
              obtain ⟨j, hj⟩ : ∃ j, m - el.length = j + 1 := ⟨m - el.length - 1, by omega⟩
              rw [hj]
              have : j < er'.length := by simp at hlen; omega
              simpa [eltAt] using eltAt_mem this
            have hgt := he1 _ hmem
            have hge := her e (by simp)
            have h1 : ¬ k = (eltAt (e :: er') (m - el.length)).1 := by omega
            have h2 : k < (eltAt (e :: er') (m - el.length)).1 := by omega
            simp only [h1, h2, if_false, if_true]
            exact ih l m hl hmel (by omega) (by intro; omega) (by omega)
    · simp only [hlt, if_false]
      have : hi = el.length := by omega
      subst this
      cases hp : headIs er k with
      | false => rfl
      | true => have := hpres hp; omega

/-- `search_in_node` on a sorted node: the keys before the returned index are smaller, those from it on
are at least the key, and the flag says whether the element at the index has the key. -/
theorem search_spec {es : List Elt} (k : Nat) (hs : Sorted es) :
    ∃ el er, es = el ++ er ∧ (∀ x ∈ el, x.1 < k) ∧ (∀ x ∈ er, k ≤ x.1) ∧
      searchInNode es k = (el.length, headIs er k) := by
  obtain ⟨el, er, rfl, hl, hr⟩ := lb_split k hs
  refine ⟨el, er, rfl, hl, hr, ?_⟩
  unfold searchInNode
  by_cases hfast : (el ++ er).length > 0 ∧ k > (eltAt (el ++ er) ((el ++ er).length - 1)).1
  · simp only [hfast, and_self, if_true]
    cases er with
    | nil => simp [headIs]
    | cons e er' =>
      exfalso
      have hmem : eltAt (el ++ e :: er') ((el ++ e :: er').length - 1) ∈ e :: er' := by
        rw [eltAt_append_right (by simp)]
        apply eltAt_mem
        simp
      have := hr _ hmem
      omega
  · simp only [hfast, if_false]
    apply bsearch_spec el er k hs hl hr
    · omega
    · simp
    · exact Nat.le_refl _
    · intro hp
      cases er with
      | nil => simp [headIs] at hp
      | cons e er' => simp
    · omega

/-- the two outcomes of `search_in_node` on a sorted node, in the form the tree proofs consume -/
theorem search_cases {es : List Elt} (k : Nat) (hs : Sorted es) :
    (∃ el er, es = el ++ er ∧ (∀ x ∈ el, x.1 < k) ∧ (∀ x ∈ er, k < x.1) ∧
        searchInNode es k = (el.length, false)) ∨
    (∃ el e er, es = el ++ e :: er ∧ e.1 = k ∧ (∀ x ∈ el, x.1 < k) ∧ (∀ x ∈ er, k < x.1) ∧
        searchInNode es k = (el.length, true)) := by
  obtain ⟨el, er, rfl, hl, hr, hsearch⟩ := search_spec k hs
  have ⟨_, hser, _⟩ := sorted_append_iff.mp hs
  cases er with
  | nil => exact Or.inl ⟨el, [], rfl, hl, by simp, by simpa [headIs] using hsearch⟩
  | cons e er' =>
    have ⟨he1, _⟩ := sorted_cons_iff.mp hser
    have hge := hr e (by simp)
    by_cases hke : e.1 = k
    · refine Or.inr ⟨el, e, er', rfl, hke, hl, ?_, by simpa [headIs, hke] using hsearch⟩
      intro x hx; have := he1 x hx; omega
    · have hb : (e.1 == k) = false := by simpa using hke
      refine Or.inl ⟨el, e :: er', rfl, hl, ?_, by simpa [headIs, hb] using hsearch⟩
      intro x hx
      rcases List.mem_cons.mp hx with rfl | hx
      · omega
      · have := he1 x hx; omega

/-- uniqueness: any split with smaller keys before and larger keys after is the one found -/
theorem search_unique_lt {el er : List Elt} {k : Nat} (hs : Sorted (el ++ er))
    (hl : ∀ x ∈ el, x.1 < k) (hr : ∀ x ∈ er, k < x.1) : searchInNode (el ++ er) k = (el.length, false) := by
  rcases search_cases k hs with ⟨el', er', heq, hl', hr', hres⟩ | ⟨el', e, er', heq, hek, hl', hr', hres⟩
  · rw [hres]
    congr 1
    -- both splits cut at the same point
    by_cases hne : el'.length = el.length
    · exact hne
    exfalso
    rcases Nat.lt_or_gt_of_ne hne with h | h
    · -- el' shorter: the element of el at index |el'| lies in er'
      have h1 : (el ++ er)[el'.length]? = el[el'.length]? := List.getElem?_append_left (by omega)
      have h2 : (el' ++ er')[el'.length]? = er'[0]? := by
        rw [List.getElem?_append_right (Nat.le_refl _)]; simp
      rw [heq] at h1
      rw [h2] at h1
      have hx : el[el'.length] ∈ el := List.getElem_mem _
      cases er' with
      | nil => simp at h1; omega
      | cons y er'' =>
        simp [List.getElem?_eq_getElem (show el'.length < el.length by omega)] at h1
        have := hl _ hx
        have := hr' y (by simp)
        rw [h1] at this
        omega
    · have h1 : (el' ++ er')[el.length]? = el'[el.length]? := List.getElem?_append_left (by omega)
      have h2 : (el ++ er)[el.length]? = er[0]? := by
        rw [List.getElem?_append_right (Nat.le_refl _)]; simp
      rw [← heq] at h1
      rw [h2] at h1
      have hx : el'[el.length] ∈ el' := List.getElem_mem _
      cases er with
      | nil => simp at h1; omega
      | cons y er'' =>
        simp [List.getElem?_eq_getElem (show el.length < el'.length by omega)] at h1
        have := hl' _ hx
        have := hr y (by simp)
        rw [h1] at this
        omega
  · exfalso
    have hmem : e ∈ el ++ er := by rw [heq]; simp
    rcases List.mem_append.mp hmem with h | h
    · have := hl e h; omega
    · have := hr e h; omega

end Model.BTree

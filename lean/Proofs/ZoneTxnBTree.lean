import Model.ZoneBTree
import Proofs.ZoneTxnSim
/-! The B-tree version class has the content behaviour of the plain `WritableVersion` model, whatever its flag /
delegation bookkeeping does (C10, "identically for … B-tree zones"). -/
namespace Model.ZT
open Model

theorem content_bGet (v : List (Name × BNode)) (k : Name) :
    nodesGet (bContent v) k = (bGet v k).map (·.rds) := by
  induction v with
  | nil => rfl
  | cons e rest ih =>
    obtain ⟨ke, b⟩ := e
    by_cases h : ke = k
    · simp [bContent, nodesGet, bGet, h]
    · simp only [bContent, List.map_cons, nodesGet, bGet, h, if_false]; exact ih

theorem content_bErase (v : List (Name × BNode)) (k : Name) :
    bContent (bErase v k) = nodesErase (bContent v) k := by
  induction v with
  | nil => rfl
  | cons e rest ih =>
    obtain ⟨ke, b⟩ := e
    unfold bErase nodesErase bContent at *
    by_cases h : ke = k
    · rw [filter_cons_neg' _ _ _ (by simp [h])]
      simp only [List.map_cons]
      rw [filter_cons_neg' _ _ _ (by simp [h])]
      exact ih
    · rw [filter_cons_pos' _ _ _ (by simp [h])]
      simp only [List.map_cons]
      rw [filter_cons_pos' _ _ _ (by simp [h])]
      rw [ih]

theorem content_bSet (v : List (Name × BNode)) (k : Name) (b : BNode) :
    bContent (bSet v k b) = nodesSet (bContent v) k b.rds := by
  unfold bSet nodesSet
  simp only [bContent, List.map_cons]
  have := content_bErase v k
  unfold bContent at this
  rw [this]

theorem nodesErase_idem (v : Nodes) (k : Name) : nodesErase (nodesErase v k) k = nodesErase v k := by
  unfold nodesErase; rw [List.filter_filter]; simp

theorem nodesErase_set (v : Nodes) (k : Name) (x : Node) : nodesErase (nodesSet v k x) k = nodesErase v k := by
  unfold nodesSet
  have : nodesErase ((k, x) :: nodesErase v k) k = nodesErase (nodesErase v k) k := by
    unfold nodesErase
    rw [filter_cons_neg' _ _ _ (by simp)]
  rw [this, nodesErase_idem]

theorem nodesSet_set (v : Nodes) (k : Name) (x y : Node) : nodesSet (nodesSet v k x) k y = nodesSet v k y := by
  show (k, y) :: nodesErase (nodesSet v k x) k = (k, y) :: nodesErase v k
  rw [nodesErase_set]

theorem content_updateGlue (P : BParams) (v : BVer) (name : Name) (flag : Bool) :
    bContent (bUpdateGlue P v name flag).nodes = bContent v.nodes := by
  unfold bUpdateGlue bContent
  simp only [List.map_map]
  apply List.map_congr_left
  intro e _
  simp only [Function.comp]
  by_cases hb : P.below e.1 name = true
  · by_cases hc : e.1 ∈ v.changed <;> simp [hb, hc, bFresh]
  · simp [hb]

theorem bFresh_rds (old : Option BNode) : (bFresh old).rds = (old.map (·.rds)).getD [] := rfl

theorem bFlag_rds (P : BParams) (d : List Name) (key : Name) (node : BNode) : (bFlag P d key node).rds = node.rds := by
  unfold bFlag
  split
  · rfl
  · split <;> rfl

/-- `_maybe_cow_with_name`: the node at `key` is (a copy of) what was there, or empty -/
theorem content_bCow (P : BParams) (v : BVer) (key : Name) :
    (bCow P v key).2.rds = (nodesGet (bContent v.nodes) key).getD [] ∧
      bContent (bCow P v key).1.nodes = nodesSet (bContent v.nodes) key ((nodesGet (bContent v.nodes) key).getD []) := by
  rw [content_bGet]
  unfold bCow
  cases hq : bGet v.nodes key with
  | none =>
    simp only [content_bSet, bFlag_rds]
    exact ⟨rfl, rfl⟩
  | some nd =>
    by_cases hc : key ∈ v.changed
    · simp only [hc, if_true, content_bSet, bFlag_rds]
      exact ⟨rfl, rfl⟩
    · simp only [hc, if_false, content_bSet, bFlag_rds]
      exact ⟨rfl, rfl⟩

theorem bCow_changed (P : BParams) (v : BVer) (key : Name) : (bCow P v key).1.changed ≠ [] := by
  unfold bCow
  cases hq : bGet v.nodes key with
  | none => simp
  | some nd =>
    by_cases hc : key ∈ v.changed
    · simp only [hc, if_true]; intro e; rw [e] at hc; simp at hc
    · simp [hc]

theorem bUpdateGlue_changed (P : BParams) (v : BVer) (n : Name) (f : Bool) (h : v.changed ≠ []) :
    (bUpdateGlue P v n f).changed ≠ [] := by
  unfold bUpdateGlue; simp [h]

/-- `put_rdataset` of the B-tree version class = `put_rdataset` of the plain model, on content -/
theorem btree_put (P : BParams) (v : BVer) (key : Name) (r : Rdataset) :
    bContent (bPut P v key r).nodes =
        nodesSet (bContent v.nodes) key (((nodesGet (bContent v.nodes) key).getD []).replace r) ∧
      (bPut P v key r).changed ≠ [] := by
  obtain ⟨h1, h2⟩ := content_bCow P v key
  have h3 := bCow_changed P v key
  unfold bPut
  generalize bCow P v key = cw at h1 h2 h3
  obtain ⟨v1, node⟩ := cw
  simp only at h1 h2 h3 ⊢
  by_cases hns : r.rdtype = 2 ∧ (!(node.origin || node.glue)) = true
  · simp only [hns, and_self, if_true]
    by_cases hd : key ∈ v1.delegs
    · simp only [hd, if_true, content_bSet, h2, h1, nodesSet_set]
      exact ⟨trivial, h3⟩
    · simp only [hd, if_false, content_bSet, content_updateGlue, h2, h1, nodesSet_set]
      exact ⟨trivial, bUpdateGlue_changed P _ key true h3⟩
  · simp only [hns, if_false, content_bSet, h2, h1, nodesSet_set]
    exact ⟨trivial, h3⟩

/-- `delete_rdataset` of the B-tree version class = the plain model's (validated key, empty node removed) -/
theorem btree_delete_rdataset (P : BParams) (cls : Nat) (v : BVer) (key : Name) (t c : Nat) :
    bContent (bDelRds P cls v key t c).nodes = delRdsM cls (bContent v.nodes) key t c ∧
      (bDelRds P cls v key t c).changed ≠ [] := by
  obtain ⟨h1, h2⟩ := content_bCow P v key
  have h3 := bCow_changed P v key
  unfold bDelRds delRdsM
  generalize bCow P v key = cw at h1 h2 h3
  obtain ⟨v1, node⟩ := cw
  simp only at h1 h2 h3 ⊢
  by_cases hns : t = 2 ∧ key ∈ v1.delegs
  · simp only [hns, and_self, if_true, h1]
    by_cases hl : (((nodesGet (bContent v.nodes) key).getD []).delete cls 2 c).length = 0
    · simp only [hl, if_true, content_bErase, content_updateGlue, h2, nodesErase_set]
      exact ⟨trivial, bUpdateGlue_changed P _ key false h3⟩
    · simp only [hl, if_false, content_bSet, content_updateGlue, h2, nodesSet_set]
      exact ⟨trivial, bUpdateGlue_changed P _ key false h3⟩
  · simp only [hns, if_false, h1]
    by_cases hl : (((nodesGet (bContent v.nodes) key).getD []).delete cls t c).length = 0
    · simp only [hl, if_true, content_bErase, h2, nodesErase_set]
      exact ⟨trivial, h3⟩
    · simp only [hl, if_false, content_bSet, h2, nodesSet_set]
      exact ⟨trivial, h3⟩

/-- `delete_node` of the B-tree version class = the plain model's, and it records the change iff the name existed -/
theorem btree_delete_node (P : BParams) (v : BVer) (key : Name) :
    bContent (bDelNode P v key).nodes =
        (if (nodesGet (bContent v.nodes) key).isSome then nodesErase (bContent v.nodes) key else bContent v.nodes) ∧
      ((nodesGet (bContent v.nodes) key).isSome = true → (bDelNode P v key).changed ≠ []) ∧
      ((nodesGet (bContent v.nodes) key).isSome = false → (bDelNode P v key).changed = v.changed) := by
  rw [content_bGet]
  unfold bDelNode
  cases hq : bGet v.nodes key with
  | none => simp
  | some node =>
    simp only [Option.map_some, Option.isSome_some, if_true, content_bErase]
    by_cases hd : node.deleg = true
    · simp [hd, content_updateGlue]
    · simp [hd]

end Model.ZT

import Model.Cache
import Proofs.Cache
/-! Helper lemmas for C17, part 2: `LRUCache` (ring as a list). -/
namespace Model.Cache

def RingNodup (r : List Node) : Prop := r.Pairwise (fun a b => a.key ≠ b.key)

/-- ghost: recency stamps strictly decrease from `sentinel.next` to `sentinel.prev` and are bounded by the tick -/
def StampsSorted (r : List Node) (tick : Nat) : Prop :=
  r.Pairwise (fun a b => b.stamp < a.stamp) ∧ ∀ n ∈ r, n.stamp ≤ tick

theorem removeKey_sublist (r : List Node) (k : Key) : (removeKey r k).Sublist r := List.filter_sublist

theorem mem_removeKey {r : List Node} {k : Key} {n : Node} : n ∈ removeKey r k ↔ n ∈ r ∧ n.key ≠ k := by
  simp [removeKey]

theorem findNode_some {r : List Node} {k : Key} {n : Node} (h : findNode r k = some n) : n ∈ r ∧ n.key = k := by
  unfold findNode at h
  exact ⟨List.mem_of_find?_eq_some h, by simpa using List.find?_some h⟩

theorem findNode_none {r : List Node} {k : Key} (h : findNode r k = none) : ∀ n ∈ r, n.key ≠ k := by
  unfold findNode at h
  intro n hn
  have := List.find?_eq_none.mp h n hn
  simpa using this

theorem findNode_of_mem {r : List Node} {k : Key} (hnd : RingNodup r) {n : Node} (hn : n ∈ r) (hk : n.key = k) :
    findNode r k = some n := by
  induction r with
  | nil => cases hn
  | cons x rest ih =>
    unfold findNode
    rcases List.mem_cons.mp hn with e | hm
    · subst e; simp [List.find?, hk]
    · have hx : x.key ≠ k := by
        have := (List.pairwise_cons.mp hnd).1 n hm
        intro e; exact this (e.trans hk.symm)
      simp only [List.find?, hx, decide_false]
      exact ih (List.pairwise_cons.mp hnd).2 hm

theorem length_removeKey_lt {r : List Node} {k : Key} {n : Node} (hn : n ∈ r) (hk : n.key = k) :
    (removeKey r k).length + 1 ≤ r.length := by
  induction r with
  | nil => cases hn
  | cons x rest ih =>
    have hle : (removeKey rest k).length ≤ rest.length := (removeKey_sublist rest k).length_le
    have hc : removeKey (x :: rest) k = if x.key ≠ k then x :: removeKey rest k else removeKey rest k := by
      simp [removeKey, List.filter_cons]
    rw [hc]
    rcases List.mem_cons.mp hn with e | hm
    · subst e; simp [hk]; omega
    · have := ih hm
      split <;> simp <;> omega

/-! ### the eviction loop is `take` -/

theorem evictLoop_eq_take (limit : Nat) (hl : 1 ≤ limit) (fuel : Nat) (r : List Node) (hf : r.length ≤ fuel) :
    evictLoop limit fuel r = r.take (limit - 1) := by
  induction fuel generalizing r with
  | zero =>
    have : r = [] := List.length_eq_zero_iff.mp (by omega)
    subst this; simp [evictLoop]
  | succ f ih =>
    unfold evictLoop
    by_cases hge : r.length ≥ limit
    · simp only [hge, if_true]
      rw [ih r.dropLast (by simp; omega)]
      rw [List.dropLast_eq_take, List.take_take]
      congr 1; omega
    · simp only [hge, if_false]
      rw [List.take_of_length_le (by omega)]

theorem evictTo_eq_take (limit : Nat) (hl : 1 ≤ limit) (r : List Node) : evictTo limit r = r.take (limit - 1) :=
  evictLoop_eq_take limit hl r.length r (Nat.le_refl _)

theorem clampMax_pos (n : Int) : 1 ≤ clampMax n := by
  unfold clampMax
  split
  · exact Nat.le_refl 1
  · omega

/-! ### one step, in closed form -/

theorem stepL_put (s : LState) (k : Key) (a : Ans) (hm : 1 ≤ s.maxSize) :
    (stepL s (.put k a)).1.ring =
      { key := k, ans := a, hits := 0, stamp := s.tick + 1 } :: (removeKey s.ring k).take (s.maxSize - 1) := by
  simp only [stepL]
  rw [evictTo_eq_take _ hm]

/-- the state invariant of `LRUCache` -/
structure InvL (s : LState) : Prop where
  nodup : RingNodup s.ring
  maxPos : 1 ≤ s.maxSize
  stamps : StampsSorted s.ring s.tick

theorem stampsSorted_sublist {r r' : List Node} {t t' : Nat} (h : StampsSorted r t) (hs : r'.Sublist r) (ht : t ≤ t') :
    StampsSorted r' t' :=
  ⟨h.1.sublist hs, fun n hn => Nat.le_trans (h.2 n (hs.subset hn)) ht⟩

theorem stampsSorted_cons {r : List Node} {t : Nat} (h : StampsSorted r t) (n : Node) (hn : n.stamp = t + 1) :
    StampsSorted (n :: r) (t + 1) := by
  refine ⟨List.pairwise_cons.mpr ⟨fun b hb => ?_, h.1⟩, fun b hb => ?_⟩
  · have := h.2 b hb; omega
  · rcases List.mem_cons.mp hb with e | hm
    · subst e; omega
    · have := h.2 b hm; omega

theorem ringNodup_cons_removeKey {r r' : List Node} {k : Key} (h : RingNodup r) (hs : r'.Sublist (removeKey r k))
    (n : Node) (hn : n.key = k) : RingNodup (n :: r') := by
  refine List.pairwise_cons.mpr ⟨fun b hb => ?_, (h.sublist (hs.trans (removeKey_sublist r k)))⟩
  have := (mem_removeKey.mp (hs.subset hb)).2
  rw [hn]; exact fun e => this e.symm

theorem invL_step (s : LState) (op : Op) (h : InvL s) : InvL (stepL s op).1 := by
  have hsub := removeKey_sublist s.ring
  cases op with
  | get k =>
    simp only [stepL]
    split
    · exact ⟨h.nodup, h.maxPos, stampsSorted_sublist h.stamps (List.Sublist.refl _) (by simp)⟩
    · rename_i n hf
      have hn := findNode_some hf
      split
      · exact ⟨h.nodup.sublist (hsub k), h.maxPos, stampsSorted_sublist h.stamps (hsub k) (by simp)⟩
      · refine ⟨ringNodup_cons_removeKey h.nodup (List.Sublist.refl _) _ hn.2, h.maxPos, ?_⟩
        exact stampsSorted_cons (stampsSorted_sublist h.stamps (hsub k) (Nat.le_refl _)) _ rfl
  | put k a =>
    have hr := stepL_put s k a h.maxPos
    have htake : ((removeKey s.ring k).take (s.maxSize - 1)).Sublist (removeKey s.ring k) := List.take_sublist _ _
    refine ⟨?_, ?_, ?_⟩
    · rw [hr]; exact ringNodup_cons_removeKey h.nodup htake _ rfl
    · simp only [stepL]; exact h.maxPos
    · rw [hr]
      have : (stepL s (.put k a)).1.tick = s.tick + 1 := by simp only [stepL]
      rw [this]
      exact stampsSorted_cons (stampsSorted_sublist h.stamps (htake.trans (hsub k)) (Nat.le_refl _)) _ rfl
  | flush k =>
    simp only [stepL]
    exact ⟨h.nodup.sublist (hsub k), h.maxPos, stampsSorted_sublist h.stamps (hsub k) (by simp)⟩
  | flushAll =>
    simp only [stepL]
    exact ⟨List.Pairwise.nil, h.maxPos, List.Pairwise.nil, by simp⟩
  | setMax n =>
    simp only [stepL]
    rw [evictTo_eq_take _ (by omega)]
    have ht : (s.ring.take (clampMax n + 1 - 1)).Sublist s.ring := List.take_sublist _ _
    exact ⟨h.nodup.sublist ht, clampMax_pos n, stampsSorted_sublist h.stamps ht (by simp)⟩
  | adv dt =>
    simp only [stepL]
    exact ⟨h.nodup, h.maxPos, stampsSorted_sublist h.stamps (List.Sublist.refl _) (by simp)⟩
  | hits =>
    simp only [stepL]
    exact ⟨h.nodup, h.maxPos, stampsSorted_sublist h.stamps (List.Sublist.refl _) (by simp)⟩
  | misses =>
    simp only [stepL]
    exact ⟨h.nodup, h.maxPos, stampsSorted_sublist h.stamps (List.Sublist.refl _) (by simp)⟩
  | hitsFor k =>
    simp only [stepL]
    split
    · exact ⟨h.nodup, h.maxPos, stampsSorted_sublist h.stamps (List.Sublist.refl _) (by simp)⟩
    · split <;> exact ⟨h.nodup, h.maxPos, stampsSorted_sublist h.stamps (List.Sublist.refl _) (by simp)⟩
  | reset =>
    simp only [stepL]
    exact ⟨h.nodup, h.maxPos, stampsSorted_sublist h.stamps (List.Sublist.refl _) (by simp)⟩
  | snapshot =>
    simp only [stepL]
    exact ⟨h.nodup, h.maxPos, stampsSorted_sublist h.stamps (List.Sublist.refl _) (by simp)⟩

theorem invL_init (n : Int) (t0 : Nat) : InvL (initL n t0) :=
  ⟨List.Pairwise.nil, clampMax_pos n, List.Pairwise.nil, by simp [initL]⟩

theorem invL_run (s : LState) (ops : List Op) (h : InvL s) : InvL (runL s ops).1 := by
  induction ops generalizing s with
  | nil => exact h
  | cons op rest ih => simp only [runL]; exact ih _ (invL_step s op h)

/-! ### soundness against the timed map: whatever the ring holds is the most recent `put` of that key -/

def RefL (s : LState) (m : TMap) : Prop := ∀ n ∈ s.ring, m n.key = some n.ans

theorem refL_step (s : LState) (m : TMap) (op : Op) (hm : 1 ≤ s.maxSize) (h : RefL s m) :
    RefL (stepL s op).1 (specStep m op) := by
  cases op with
  | get k =>
    simp only [stepL, specStep]
    split
    · exact h
    · rename_i n hf
      have hn := findNode_some hf
      split
      · exact fun x hx => h x (mem_removeKey.mp hx).1
      · intro x hx
        rcases List.mem_cons.mp hx with e | hx
        · subst e; exact h n hn.1
        · exact h x (mem_removeKey.mp hx).1
  | put k a =>
    intro x hx
    rw [stepL_put s k a hm] at hx
    simp only [specStep]
    rcases List.mem_cons.mp hx with e | hx
    · subst e; simp
    · have := mem_removeKey.mp (List.mem_of_mem_take hx)
      simp only [this.2, if_false]; exact h x this.1
  | flush k =>
    simp only [stepL, specStep]
    intro x hx
    have := mem_removeKey.mp hx
    simp only [this.2, if_false]; exact h x this.1
  | flushAll => simp only [stepL, specStep]; intro x hx; cases hx
  | setMax n =>
    simp only [stepL, specStep]
    rw [evictTo_eq_take _ (by omega)]
    exact fun x hx => h x (List.mem_of_mem_take hx)
  | adv dt => exact h
  | hits => exact h
  | misses => exact h
  | hitsFor k =>
    simp only [stepL, specStep]
    split
    · exact h
    · split <;> exact h
  | reset => exact h
  | snapshot => exact h

theorem refL_run (s : LState) (m : TMap) (ops : List Op) (hi : InvL s) (h : RefL s m) :
    RefL (runL s ops).1 (specRun m ops) := by
  induction ops generalizing s m with
  | nil => exact h
  | cons op rest ih =>
    simp only [runL, specRun, List.foldl_cons]
    exact ih _ _ (invL_step s op hi) (refL_step s m op hi.maxPos h)

/-! ### the bound -/

theorem length_after_put (s : LState) (k : Key) (a : Ans) (hm : 1 ≤ s.maxSize) :
    (stepL s (.put k a)).1.ring.length ≤ (stepL s (.put k a)).1.maxSize := by
  rw [stepL_put s k a hm]
  have : (stepL s (.put k a)).1.maxSize = s.maxSize := by simp only [stepL]
  rw [this]
  simp only [List.length_cons, List.length_take]
  omega

/-- the bound is preserved by every operation -/
theorem bound_step (s : LState) (op : Op) (hi : InvL s) (hb : s.ring.length ≤ s.maxSize) :
    (stepL s op).1.ring.length ≤ (stepL s op).1.maxSize := by
  have hlen : ∀ k, (removeKey s.ring k).length ≤ s.ring.length := fun k => (removeKey_sublist s.ring k).length_le
  cases op with
  | get k =>
    simp only [stepL]
    split
    · exact hb
    · rename_i n hf
      have hn := findNode_some hf
      have := length_removeKey_lt hn.1 hn.2
      split
      · simp only; omega
      · simp only [List.length_cons]; omega
  | put k a => exact length_after_put s k a hi.maxPos
  | flush k => simp only [stepL]; have := hlen k; omega
  | flushAll => simp only [stepL, List.length_nil]; omega
  | setMax n =>
    simp only [stepL]
    rw [evictTo_eq_take _ (by omega)]
    simp only [List.length_take]; omega
  | adv dt => exact hb
  | hits => exact hb
  | misses => exact hb
  | hitsFor k =>
    simp only [stepL]
    split
    · exact hb
    · split <;> exact hb
  | reset => exact hb
  | snapshot => exact hb

theorem bound_run (s : LState) (ops : List Op) (hi : InvL s) (hb : s.ring.length ≤ s.maxSize) :
    (runL s ops).1.ring.length ≤ (runL s ops).1.maxSize := by
  induction ops generalizing s with
  | nil => exact hb
  | cons op rest ih =>
    simp only [runL]
    exact ih _ (invL_step s op hi) (bound_step s op hi hb)

/-- `set_max_size` as it was before the repair (no eviction, DESIGN §6 D14): kept only to show that the bound
theorem depends on the eviction -/
def stepLOld (s : LState) (op : Op) : LState × Out :=
  match op with
  | .setMax n => ({ s with tick := s.tick + 1, maxSize := clampMax n }, .unit)
  | _ => stepL s op

def runLOld (s : LState) : List Op → LState
  | [] => s
  | op :: rest => runLOld (stepLOld s op).1 rest

end Model.Cache

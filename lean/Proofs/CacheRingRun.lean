import Model.Cache
import Proofs.CacheLru
import Proofs.CacheRing
/-! Helper lemmas for C17, part 7: along every run the pointers of the sentinel ring represent the list model. -/
namespace Model.Cache

def ids (r : List Node) : List Nat := r.map (fun n => nid n.key)

theorem ids_nodup (r : List Node) (h : RingNodup r) : (ids r).Nodup := by
  induction r with
  | nil => simp [ids]
  | cons x rest ih =>
    have hp := List.pairwise_cons.mp h
    simp only [ids, List.map_cons, List.nodup_cons]
    refine ⟨?_, ih hp.2⟩
    intro hm
    obtain ⟨y, hy, he⟩ := List.mem_map.mp hm
    have : y.key = x.key := by simp [nid] at he; exact he
    exact hp.1 y hy this.symm

theorem zero_not_mem_ids (r : List Node) : 0 ∉ ids r := by
  intro h
  obtain ⟨y, _, he⟩ := List.mem_map.mp h
  simp [nid] at he

theorem ids_removeKey (r : List Node) (k : Key) (h : RingNodup r) : ids (removeKey r k) = (ids r).erase (nid k) := by
  induction r with
  | nil => rfl
  | cons x rest ih =>
    have hp := List.pairwise_cons.mp h
    have hc : removeKey (x :: rest) k = if x.key ≠ k then x :: removeKey rest k else removeKey rest k := by
      simp [removeKey, List.filter_cons]
    rw [hc]
    by_cases hx : x.key = k
    · simp only [hx, ne_eq, not_true_eq_false, if_false, ids, List.map_cons, List.erase_cons_head]
      -- no other node carries k
      have : removeKey rest k = rest := by
        unfold removeKey
        apply List.filter_eq_self.mpr
        intro y hy
        have := hp.1 y hy
        simp; intro e; exact this (hx.trans e.symm)
      rw [this]
    · have hne : nid x.key ≠ nid k := by simp [nid, hx]
      simp only [hx, ne_eq, not_false_eq_true, if_true, ids, List.map_cons]
      rw [List.erase_cons_tail (by simpa using hne)]
      congr 1
      exact ih hp.2

theorem mem_ids_of_findNode {r : List Node} {k : Key} {n : Node} (h : findNode r k = some n) : nid k ∈ ids r := by
  have := findNode_some h
  exact List.mem_map.mpr ⟨n, this.1, by rw [this.2]⟩

theorem not_mem_ids_of_findNode {r : List Node} {k : Key} (h : findNode r k = none) : nid k ∉ ids r := by
  intro hm
  obtain ⟨y, hy, he⟩ := List.mem_map.mp hm
  have : y.key = k := by simp [nid] at he; exact he
  exact findNode_none h y hy this

theorem erase_getLast (l : List Nat) (hl : l.Nodup) (hne : l ≠ []) : l.erase (l.getLast hne) = l.dropLast := by
  induction l with
  | nil => exact absurd rfl hne
  | cons x rest ih =>
    cases rest with
    | nil => simp
    | cons y rest' =>
      have hnd := List.nodup_cons.mp hl
      have hlast : (x :: y :: rest').getLast hne = (y :: rest').getLast (by simp) := by simp [List.getLast_cons]
      rw [hlast]
      have hx : x ≠ (y :: rest').getLast (by simp) := fun e => hnd.1 (e ▸ List.getLast_mem _)
      rw [List.erase_cons_tail (by simpa using hx), ih hnd.2 (by simp)]
      simp [List.dropLast]

/-- the make-room loop at pointer level drops exactly the tail of the ring -/
theorem evictP_ring (limit : Nat) (hl : 1 ≤ limit) (fuel : Nat) (p : Ptrs) (l : List Nat) (h : Ring p l)
    (hf : l.length ≤ fuel) : Ring (evictP limit fuel (p, l.length)).1 (l.take (limit - 1)) := by
  induction fuel generalizing p l with
  | zero =>
    have : l = [] := List.length_eq_zero_iff.mp (by omega)
    subst this; simpa [evictP] using h
  | succ f ih =>
    unfold evictP
    by_cases hge : l.length ≥ limit
    · simp only [hge, if_true]
      have hne : l ≠ [] := by intro e; rw [e] at hge; simp at hge; omega
      have hlast : p.prev 0 = l.getLast hne := by
        rw [ring_last p l h, List.getLast?_eq_some_getLast hne]; rfl
      have hnd := (List.nodup_cons.mp h.2).2
      have hr := ring_unlink p l (l.getLast hne) h (List.getLast_mem hne)
      rw [erase_getLast l hnd hne] at hr
      rw [hlast]
      have hlen : l.length - 1 = l.dropLast.length := by simp
      rw [hlen]
      have := ih (unlinkP p (l.getLast hne)) l.dropLast hr (by simp; omega)
      rw [List.dropLast_eq_take, List.take_take] at this
      have e : min (limit - 1) (l.length - 1) = limit - 1 := by omega
      rw [e] at this
      rw [List.dropLast_eq_take]; exact this
    · simp only [hge, if_false]
      rw [List.take_of_length_le (by omega)]; exact h

/-- `flush()` at pointer level empties the ring -/
theorem flushP_ring (fuel : Nat) (p : Ptrs) (l : List Nat) (h : Ring p l) (hf : l.length < fuel) :
    Ring (flushP fuel p (p.next 0)) [] := by
  induction fuel generalizing p l with
  | zero => omega
  | succ f ih =>
    unfold flushP
    cases l with
    | nil =>
      have : p.next 0 = 0 := h.1.1
      simp [this]; exact h
    | cons x rest =>
      have hx : p.next 0 = x := h.1.1
      have hnd := List.nodup_cons.mp h.2
      have hx0 : x ≠ 0 := fun e => hnd.1 (by simp [e])
      rw [hx]
      simp only [hx0, if_false]
      have hr := ring_unlink p (x :: rest) x h (by simp)
      simp only [List.erase_cons_head] at hr
      have hnext : p.next x = (unlinkP p x).next 0 := by
        rw [unlinkP_next]
        have : p.prev x = 0 := h.1.2.1
        rw [this, setP_same]
      rw [hnext]
      exact ih (unlinkP p x) rest hr (by simp at hf; omega)

theorem ring_stepP (p : Ptrs) (s : LState) (op : Op) (hi : InvL s) (h : Ring p (ids s.ring)) :
    Ring (stepP p s op) (ids (stepL s op).1.ring) := by
  have hnd := hi.nodup
  cases op with
  | get k =>
    simp only [stepP, stepL]
    cases hf : findNode s.ring k with
    | none => simpa using h
    | some n =>
      have hmem := mem_ids_of_findNode hf
      have hr := ring_unlink p _ (nid k) h hmem
      rw [← ids_removeKey s.ring k hnd] at hr
      by_cases he : n.ans.exp ≤ s.now
      · simpa [he] using hr
      · simp only [he, if_false]
        have hk : (findNode_some hf).2 = (findNode_some hf).2 := rfl
        have hnk : n.key = k := (findNode_some hf).2
        have hnot : nid k ∉ ids (removeKey s.ring k) := by
          intro hm
          obtain ⟨y, hy, hey⟩ := List.mem_map.mp hm
          have : y.key = k := by simp [nid] at hey; exact hey
          exact (mem_removeKey.mp hy).2 this
        have := ring_link _ _ (nid k) hr (by simp [nid]) hnot
        simpa [ids, hnk] using this
  | put k a =>
    rw [stepL_put s k a hi.maxPos]
    simp only [stepP]
    have hnot : nid k ∉ ids ((removeKey s.ring k).take (s.maxSize - 1)) := by
      intro hm
      obtain ⟨y, hy, hey⟩ := List.mem_map.mp hm
      have : y.key = k := by simp [nid] at hey; exact hey
      exact (mem_removeKey.mp (List.mem_of_mem_take hy)).2 this
    have hfinal : ∀ q, Ring q (ids ((removeKey s.ring k).take (s.maxSize - 1))) →
        Ring (linkAfter q (nid k) 0) (ids ({ key := k, ans := a, hits := 0, stamp := s.tick + 1 } :: (removeKey s.ring k).take (s.maxSize - 1))) := by
      intro q hq
      have := ring_link q _ (nid k) hq (by simp [nid]) hnot
      simpa [ids] using this
    cases hf : findNode s.ring k with
    | none =>
      have hsame : removeKey s.ring k = s.ring := by
        unfold removeKey
        apply List.filter_eq_self.mpr
        intro y hy; simpa using findNode_none hf y hy
      apply hfinal
      have hlen : s.ring.length = (ids s.ring).length := by simp [ids]
      rw [hsame]
      have := evictP_ring s.maxSize hi.maxPos s.ring.length p (ids s.ring) h (by rw [hlen]; exact Nat.le_refl _)
      rw [← hlen] at this
      simpa [ids, List.map_take] using this
    | some n =>
      apply hfinal
      have hmem := mem_ids_of_findNode hf
      have hr := ring_unlink p _ (nid k) h hmem
      rw [← ids_removeKey s.ring k hnd] at hr
      have hlen : s.ring.length - 1 = (ids (removeKey s.ring k)).length := by
        have hn := findNode_some hf
        have h1 := length_removeKey_lt hn.1 hn.2
        have h2 : (ids (removeKey s.ring k)).length = ((ids s.ring).erase (nid k)).length := by rw [ids_removeKey s.ring k hnd]
        rw [h2, List.length_erase_of_mem hmem]; simp [ids]
      have := evictP_ring s.maxSize hi.maxPos s.ring.length (unlinkP p (nid k)) (ids (removeKey s.ring k)) hr
        (by rw [← hlen]; omega)
      rw [← hlen] at this
      simpa [ids, List.map_take] using this
  | flush k =>
    simp only [stepP, stepL]
    cases hf : findNode s.ring k with
    | none =>
      have hsame : removeKey s.ring k = s.ring := by
        unfold removeKey
        apply List.filter_eq_self.mpr
        intro y hy; simpa using findNode_none hf y hy
      simpa [hsame] using h
    | some n =>
      have hr := ring_unlink p _ (nid k) h (mem_ids_of_findNode hf)
      rw [← ids_removeKey s.ring k hnd] at hr
      simpa using hr
  | flushAll =>
    simp only [stepP, stepL]
    exact flushP_ring _ p (ids s.ring) h (by simp [ids])
  | setMax n =>
    simp only [stepP, stepL]
    rw [evictTo_eq_take _ (by omega)]
    have hlen : s.ring.length = (ids s.ring).length := by simp [ids]
    have := evictP_ring (clampMax n + 1) (by omega) s.ring.length p (ids s.ring) h (by rw [hlen]; exact Nat.le_refl _)
    rw [← hlen] at this
    simpa [ids, List.map_take] using this
  | adv dt => simpa [stepP, stepL] using h
  | hits => simpa [stepP, stepL] using h
  | misses => simpa [stepP, stepL] using h
  | hitsFor k =>
    simp only [stepP, stepL]
    split
    · exact h
    · split <;> exact h
  | reset => simpa [stepP, stepL] using h
  | snapshot => simpa [stepP, stepL] using h

theorem ring_runPL (p : Ptrs) (s : LState) (ops : List Op) (hi : InvL s) (h : Ring p (ids s.ring)) :
    Ring (runPL p s ops).1 (ids (runPL p s ops).2.ring) ∧ (runPL p s ops).2 = (runL s ops).1 := by
  induction ops generalizing p s with
  | nil => exact ⟨h, rfl⟩
  | cons op rest ih =>
    simp only [runPL, runL]
    exact ih _ _ (invL_step s op hi) (ring_stepP p s op hi h)

theorem ring_ptrs0 : Ring ptrs0 [] := ⟨⟨rfl, rfl⟩, by simp⟩

end Model.Cache

import Proofs.RdataTextField
import Proofs.RdataTextIP6e
/-! More prefix field kinds: octal (Chaosnet A), EUI48/64, NID/L64 `xxxx:xxxx:xxxx:xxxx`, NSAP `0x…` (C05). -/
namespace Model

/-! ### octal -/

theorem natToOct_digits (n : Nat) : ∀ c ∈ natToOct n, 48 ≤ c ∧ c ≤ 55 := by
  fun_induction natToOct n with
  | case1 n h => intro c hc; simp at hc; omega
  | case2 n h ih =>
    intro c hc
    simp at hc
    rcases hc with hc | hc
    · exact ih c hc
    · omega

theorem natToOct_ne_nil (n : Nat) : natToOct n ≠ [] := by
  fun_induction natToOct n with
  | case1 n h => simp
  | case2 n h ih => simp

theorem octVal_natToOct (n : Nat) : (natToOct n).foldl (fun a d => a * 8 + (d - 48)) 0 = n := by
  fun_induction natToOct n with
  | case1 n h => simp
  | case2 n h ih => rw [List.foldl_append, ih]; simp; omega

theorem natToOct_plain (n : Nat) : Plain (natToOct n) := by
  intro c hc
  have := natToOct_digits n c hc
  simp [isDelim]; omega

theorem pyInt8_natToOct (n : Nat) : pyInt 8 (natToOct n) = some (false, n) := by
  have hdig := natToOct_digits n
  have hns : ∀ c ∈ natToOct n, isIntSpace c = false := by
    intro c hc; have := hdig c hc; simp [isIntSpace]; omega
  have hd8 : ∀ c ∈ natToOct n, 48 ≤ c ∧ c < 48 + 8 := by
    intro c hc; have := hdig c hc; omega
  unfold pyInt
  rw [stripIntSpace_id _ hns]
  cases hs : natToOct n with
  | nil => exact absurd hs (natToOct_ne_nil n)
  | cons c cs =>
    have hc := hdig c (by rw [hs]; simp)
    have h45 : c ≠ 45 := by omega
    have h43 : c ≠ 43 := by omega
    have hdig' : ∀ x ∈ c :: cs, 48 ≤ x ∧ x < 48 + 8 := by rw [← hs]; exact hd8
    have hval' : (c :: cs).foldl (fun a d => a * 8 + (d - 48)) 0 = n := by rw [← hs]; exact octVal_natToOct n
    have key : digitsUS 8 (c :: cs) 0 true = some n := by
      rw [digitsUS_digits 8 _ hdig']; simp only [List.cons_ne_nil, if_false]; rw [hval']
    have hsign : pySign (c :: cs) = (false, c :: cs) := by
      unfold pySign
      split
      · rename_i h1; simp at h1; exact absurd h1.1 h45
      · rename_i h1; simp at h1; exact absurd h1.1 h43
      · rfl
    have hbody : pyBody 8 (c :: cs) = digitsUS 8 (c :: cs) 0 true := by
      unfold pyBody
      split
      · rename_i o r heq
        simp at heq
        have ho := hdig' o (by rw [heq.2]; simp)
        have : ¬ (o = 111 ∨ o = 79) := by omega
        simp [this]
      · rfl
    simp [hsign, hbody, key]

theorem field_oct16 (st : Style) (env : PEnv) (v : Nat) (hv : v ≤ 65535) :
    FieldRT st env .oct16 (.n v) (natToOct v) ⟨.ident, natToOct v⟩ := by
  refine ⟨rfl, lexes_plain _ (natToOct_ne_nil v) (natToOct_plain v), ?_, notHash_plain _ (natToOct_plain v)⟩
  simp [parseField, asUint, unescapeCP_plain_all _ (natToOct_plain v), pyInt8_natToOct]
  omega

/-! ### NSAP -/

theorem hexlify_length (s : Bytes) : (hexlify s).length = 2 * s.length := by
  induction s with
  | nil => rfl
  | cons x xs ih => simp [hexlify] at ih ⊢; omega

theorem filter_id_of_not_mem (c : Nat) (l : List Nat) (h : c ∉ l) : l.filter (· ≠ c) = l := by
  rw [List.filter_eq_self]
  intro x hx
  simp
  intro e; exact h (e ▸ hx)

theorem hexlify_no (c : Nat) (hc : isDelim c = true ∨ c = 46 ∨ c = 45 ∨ c = 58) (s : Bytes) (hs : ∀ x ∈ s, x < 256) : c ∉ hexlify s := by
  intro hm
  simp only [hexlify, List.mem_flatMap] at hm
  obtain ⟨x, hx, hcx⟩ := hm
  have := hs x hx
  have hr : ∀ d, d < 16 → (48 ≤ hexDigitLower d ∧ hexDigitLower d ≤ 57) ∨ (97 ≤ hexDigitLower d ∧ hexDigitLower d ≤ 102) := by
    intro d hd; unfold hexDigitLower; by_cases h10 : d < 10 <;> simp [h10] <;> omega
  simp at hcx
  have hcr : (48 ≤ c ∧ c ≤ 57) ∨ (97 ≤ c ∧ c ≤ 102) := by
    rcases hcx with e | e <;> subst e
    · exact hr _ (by omega)
    · exact hr _ (by omega)
  rcases hc with h | h | h | h
  · simp [isDelim] at h; omega
  · omega
  · omega
  · omega

theorem field_nsap (st : Style) (env : PEnv) (s : Bytes) (hs : ∀ x ∈ s, x < 256) :
    FieldRT st env .nsap (.b s) (48 :: 120 :: hexlify s) ⟨.ident, 48 :: 120 :: hexlify s⟩ := by
  have hpl : Plain (48 :: 120 :: hexlify s) := by
    intro c hc
    simp at hc
    rcases hc with e | e | e
    · subst e; decide
    · subst e; decide
    · exact hexlify_plain s hs c e
  refine ⟨rfl, lexes_plain _ (by simp) hpl, ?_, notHash_plain _ hpl⟩
  have hf : (hexlify s).filter (fun x => !decide (x = 46)) = hexlify s := by
    have := filter_id_of_not_mem 46 _ (hexlify_no 46 (Or.inr (Or.inl rfl)) s hs)
    simpa using this
  have hlen : (hexlify s).length % 2 = 0 := by rw [hexlify_length]; omega
  simp [parseField, parseFieldExtra, unescapeCP_plain_all _ hpl, hf, hlen, unhexlify_hexlify s hs]

/-! ### NID / L64 -/

theorem pyIntHex_quad (c3 c2 c1 c0 v3 v2 v1 v0 : Nat)
    (r3 : (48 ≤ c3 ∧ c3 ≤ 57) ∨ (97 ≤ c3 ∧ c3 ≤ 102)) (r2 : (48 ≤ c2 ∧ c2 ≤ 57) ∨ (97 ≤ c2 ∧ c2 ≤ 102))
    (r1 : (48 ≤ c1 ∧ c1 ≤ 57) ∨ (97 ≤ c1 ∧ c1 ≤ 102)) (r0 : (48 ≤ c0 ∧ c0 ≤ 57) ∨ (97 ≤ c0 ∧ c0 ≤ 102))
    (h3 : hexDigitVal c3 = some v3) (h2 : hexDigitVal c2 = some v2) (h1 : hexDigitVal c1 = some v1)
    (h0 : hexDigitVal c0 = some v0) :
    pyIntHex [c3, c2, c1, c0] = some (false, ((v3 * 16 + v2) * 16 + v1) * 16 + v0) := by
  have hns : ∀ c ∈ [c3, c2, c1, c0], isIntSpace c = false := by
    intro c hc; simp at hc
    rcases hc with e | e | e | e <;> subst e <;> simp [isIntSpace] <;> omega
  unfold pyIntHex
  rw [stripIntSpace_id _ hns]
  have hsign : pySign [c3, c2, c1, c0] = (false, [c3, c2, c1, c0]) := by
    unfold pySign
    split
    · rename_i h; simp at h; omega
    · rename_i h; simp at h; omega
    · rfl
  simp only [hsign]
  have hx : ¬ (c2 = 120 ∨ c2 = 88) := by omega
  have key : digitsUS16 [c3, c2, c1, c0] 0 true = some (((v3 * 16 + v2) * 16 + v1) * 16 + v0) := by
    simp [digitsUS16, h3, h2, h1, h0]
  split
  · rename_i x r heq
    simp at heq
    obtain ⟨_, rfl, _⟩ := heq
    simp only [hx, if_false, key, Option.map_some]
  · simp only [key, Option.map_some]

theorem hexDigitLower_range (d : Nat) (hd : d < 16) :
    (48 ≤ hexDigitLower d ∧ hexDigitLower d ≤ 57) ∨ (97 ≤ hexDigitLower d ∧ hexDigitLower d ≤ 102) := by
  unfold hexDigitLower; by_cases h10 : d < 10 <;> simp [h10] <;> omega

theorem pyIntHex_hex4 (g : Nat) (hg : g < 65536) : pyIntHex (hex4 g) = some (false, g) := by
  have := pyIntHex_quad _ _ _ _ _ _ _ _ (hexDigitLower_range (g / 4096 % 16) (by omega))
    (hexDigitLower_range (g / 256 % 16) (by omega)) (hexDigitLower_range (g / 16 % 16) (by omega))
    (hexDigitLower_range (g % 16) (by omega)) (hexDigitVal_lower (g / 4096 % 16) (by omega))
    (hexDigitVal_lower (g / 256 % 16) (by omega)) (hexDigitVal_lower (g / 16 % 16) (by omega))
    (hexDigitVal_lower (g % 16) (by omega))
  unfold hex4
  rw [this]
  congr 2
  omega

theorem hexlify_pair (a b : Nat) (ha : a < 256) (hb : b < 256) : hexlify [a, b] = hex4 (a * 256 + b) := by
  have := hex2_pair a b ha hb
  simp only [hex2] at this
  simp only [hexlify, List.flatMap_cons, List.flatMap_nil, List.append_nil, List.cons_append, List.nil_append]
  rw [← this]
  have e1 : a / 16 % 16 = a / 16 := by omega
  have e2 : b / 16 % 16 = b / 16 := by omega
  simp [e1, e2]

theorem parseFormattedHex4_groups (G1 G2 G3 G4 : Nat) (g1 : G1 < 65536) (g2 : G2 < 65536) (g3 : G3 < 65536) (g4 : G4 < 65536) :
    parseFormattedHex4 (hex4 G1 ++ 58 :: (hex4 G2 ++ 58 :: (hex4 G3 ++ 58 :: hex4 G4))) =
      some [G1 / 256, G1 % 256, G2 / 256, G2 % 256, G3 / 256, G3 % 256, G4 / 256, G4 % 256] := by
  have q1 := pyIntHex_hex4 _ g1
  have q2 := pyIntHex_hex4 _ g2
  have q3 := pyIntHex_hex4 _ g3
  have q4 := pyIntHex_hex4 _ g4
  have m1 : G1 / 256 % 256 = G1 / 256 := by omega
  have m2 : G2 / 256 % 256 = G2 / 256 := by omega
  have m3 : G3 / 256 % 256 = G3 / 256 := by omega
  have m4 : G4 / 256 % 256 = G4 / 256 := by omega
  have hv : ∀ G, ((hex4 G).all fun c => (hexDigitVal c).isSome) = true := by
    intro G
    simp [hex4, hexDigitVal_lower (G / 4096 % 16) (by omega), hexDigitVal_lower (G / 256 % 16) (by omega),
      hexDigitVal_lower (G / 16 % 16) (by omega), hexDigitVal_lower (G % 16) (by omega)]
  have v1 := hv G1
  have v2 := hv G2
  have v3 := hv G3
  have v4 := hv G4
  simp only [hex4] at q1 q2 q3 q4 v1 v2 v3 v4
  unfold parseFormattedHex4
  simp only [hex4, List.cons_append, List.nil_append, List.length_cons, List.length_nil]
  simp only [show (5 * 0 = 0) from rfl, show (5 * 1 = 5) from rfl, show (5 * 2 = 10) from rfl, show (5 * 3 = 15) from rfl,
    List.drop, List.take, List.head?]
  simp [q1, q2, q3, q4, v1, v2, v3, v4, m1, m2, m3, m4]

theorem field_hex16x4 (st : Style) (env : PEnv) (a b c d e f g h : Nat)
    (ha : a < 256) (hb : b < 256) (hc : c < 256) (hd : d < 256) (he : e < 256) (hf : f < 256) (hg : g < 256) (hh : h < 256) :
    ∃ text, FieldRT st env .hex16x4 (.b [a, b, c, d, e, f, g, h]) text ⟨.ident, text⟩ := by
  have g1 := pair_lt a b ha hb
  have g2 := pair_lt c d hc hd
  have g3 := pair_lt e f he hf
  have g4 := pair_lt g h hg hh
  have hprint : printField st .hex16x4 (.b [a, b, c, d, e, f, g, h]) =
      some (hex4 (a * 256 + b) ++ 58 :: (hex4 (c * 256 + d) ++ 58 :: (hex4 (e * 256 + f) ++ 58 :: hex4 (g * 256 + h)))) := by
    have hl : hexlify [a, b, c, d, e, f, g, h] = hexlify [a, b] ++ hexlify [c, d] ++ hexlify [e, f] ++ hexlify [g, h] := by
      simp [hexlify]
    simp only [printField, hl, hexlify_pair a b ha hb, hexlify_pair c d hc hd, hexlify_pair e f he hf, hexlify_pair g h hg hh]
    simp [hex4, wordbreak, chunksOf, joinSep]
  have hparse := parseFormattedHex4_groups _ _ _ _ g1 g2 g3 g4
  have d1 := pair_divmod a b hb
  have d2 := pair_divmod c d hd
  have d3 := pair_divmod e f hf
  have d4 := pair_divmod g h hh
  simp only [List.cons.injEq, and_true] at d1 d2 d3 d4
  rw [d1.1, d1.2, d2.1, d2.2, d3.1, d3.2, d4.1, d4.2] at hparse
  have hpl : Plain (hex4 (a * 256 + b) ++ 58 :: (hex4 (c * 256 + d) ++ 58 :: (hex4 (e * 256 + f) ++ 58 :: hex4 (g * 256 + h)))) := by
    intro x hx
    simp only [List.mem_append, List.mem_cons] at hx
    have hh4 : ∀ q, x ∈ hex4 q → isDelim x = false ∧ x ≠ 92 := fun q hq => isHexL_plain x ((hex4_hexChunk q).2.2 x hq)
    have h58 : isDelim 58 = false ∧ (58 : Nat) ≠ 92 := by decide
    rcases hx with h | h | h | h | h | h | h
    · exact hh4 _ h
    · subst h; exact h58
    · exact hh4 _ h
    · subst h; exact h58
    · exact hh4 _ h
    · subst h; exact h58
    · exact hh4 _ h
  have hne : (hex4 (a * 256 + b) ++ 58 :: (hex4 (c * 256 + d) ++ 58 :: (hex4 (e * 256 + f) ++ 58 :: hex4 (g * 256 + h)))) ≠ [] := by
    simp [hex4]
  generalize hex4 (a * 256 + b) ++ 58 :: (hex4 (c * 256 + d) ++ 58 :: (hex4 (e * 256 + f) ++ 58 :: hex4 (g * 256 + h))) = t at *
  refine ⟨t, hprint, lexes_plain t hne hpl, ?_, notHash_plain t hpl⟩
  simp [parseField, parseFieldExtra, unescapeCP_plain_all t hpl, hparse]

/-! ### EUI48 / EUI64 -/

def dashJoin : Bytes → List Nat
  | [] => []
  | [x] => [hexDigitLower (x / 16), hexDigitLower (x % 16)]
  | x :: y :: r => hexDigitLower (x / 16) :: hexDigitLower (x % 16) :: 45 :: dashJoin (y :: r)

theorem chunksOf_two_cons (a b : Nat) (rest : List Nat) : chunksOf 2 (a :: b :: rest) = [a, b] :: chunksOf 2 rest := by
  rw [chunksOf]; simp

theorem wordbreak_eui (s : Bytes) : wordbreak (hexlify s) 2 [45] = dashJoin s := by
  unfold wordbreak
  simp only [show (2 : Nat) ≠ 0 by decide, if_false]
  induction s with
  | nil => simp [hexlify, chunksOf, joinSep, dashJoin]
  | cons x xs ih =>
    have e : hexlify (x :: xs) = hexDigitLower (x / 16) :: hexDigitLower (x % 16) :: hexlify xs := by simp [hexlify]
    rw [e, chunksOf_two_cons]
    cases xs with
    | nil => simp [hexlify, chunksOf, joinSep, dashJoin]
    | cons y ys =>
      have e2 : hexlify (y :: ys) = hexDigitLower (y / 16) :: hexDigitLower (y % 16) :: hexlify ys := by simp [hexlify]
      rw [e2, chunksOf_two_cons] at ih ⊢
      simp only [joinSep] at ih ⊢
      rw [ih]
      simp [dashJoin]

theorem dashJoin_facts (s : Bytes) (hs : ∀ x ∈ s, x < 256) (hne : s ≠ []) :
    (dashJoin s).length = 3 * s.length - 1 ∧ Plain (dashJoin s) ∧
    (dashJoin s).filter (fun x => !decide (x = 45)) = hexlify s ∧
    (∀ i, i < s.length - 1 → (dashJoin s)[3 * i + 2]? = some 45) := by
  induction s with
  | nil => exact absurd rfl hne
  | cons x xs ih =>
    have hx := hs x (by simp)
    have p1 := hexDigitLower_plain (x / 16) (by omega)
    have p2 := hexDigitLower_plain (x % 16) (by omega)
    have r1 := hexDigitLower_range (x / 16) (by omega)
    have r2 := hexDigitLower_range (x % 16) (by omega)
    have n1 : hexDigitLower (x / 16) ≠ 45 := by omega
    have n2 : hexDigitLower (x % 16) ≠ 45 := by omega
    cases xs with
    | nil =>
      refine ⟨by simp [dashJoin], ?_, by simp [dashJoin, hexlify, n1, n2], by intro i hi; simp at hi⟩
      intro c hc; simp [dashJoin] at hc; rcases hc with e | e <;> subst e <;> assumption
    | cons y ys =>
      obtain ⟨i1, i2, i3, i4⟩ := ih (fun z hz => hs z (by simp [hz])) (by simp)
      have e : dashJoin (x :: y :: ys) = hexDigitLower (x / 16) :: hexDigitLower (x % 16) :: 45 :: dashJoin (y :: ys) := rfl
      refine ⟨?_, ?_, ?_, ?_⟩
      · rw [e]; simp only [List.length_cons] at i1 ⊢; omega
      · intro c hc
        rw [e] at hc; simp only [List.mem_cons] at hc
        rcases hc with h | h | h | h
        · subst h; exact p1
        · subst h; exact p2
        · subst h; decide
        · exact i2 c h
      · rw [e]
        have e2 : hexlify (x :: y :: ys) = hexDigitLower (x / 16) :: hexDigitLower (x % 16) :: hexlify (y :: ys) := by simp [hexlify]
        rw [e2, ← i3]
        simp [n1, n2]
      · intro i hi
        rw [e]
        cases i with
        | zero => rfl
        | succ j =>
          have : 3 * (j + 1) + 2 = (3 * j + 2) + 3 := by omega
          rw [this]
          simp only [List.getElem?_cons_succ]
          apply i4
          simp only [List.length_cons] at hi ⊢
          omega

theorem field_eui (st : Style) (env : PEnv) (n : Nat) (s : Bytes) (hs : ∀ x ∈ s, x < 256) (hlen : s.length = n) (hn : 0 < n) :
    FieldRT st env (.eui n) (.b s) (dashJoin s) ⟨.ident, dashJoin s⟩ := by
  have hne : s ≠ [] := by intro e; subst e; simp at hlen; omega
  obtain ⟨f1, f2, f3, f4⟩ := dashJoin_facts s hs hne
  have hne2 : dashJoin s ≠ [] := by
    intro e; rw [e] at f1; simp at f1; omega
  refine ⟨by simp [printField, wordbreak_eui], lexes_plain _ hne2 f2, ?_, notHash_plain _ f2⟩
  have hd : euiDashesOk (dashJoin s) n = true := by
    unfold euiDashesOk
    rw [List.all_eq_true]
    intro i hi
    simp only [List.mem_range] at hi
    rw [f4 i (by omega)]
    simp
  have hl : ¬ (dashJoin s).length ≠ 3 * n - 1 := by rw [f1, hlen]; simp
  simp only [parseField, parseFieldExtra, unescapeCP_plain_all _ f2, hl, if_false, hd, Bool.not_true, Bool.false_eq_true]
  have : (dashJoin s).filter (fun x => decide (x ≠ 45)) = hexlify s := by
    rw [← f3]; congr 1; funext x; simp
  rw [this, unhexlify_hexlify s hs]
  simp [hlen]

end Model

import Model.Resolver
import Proofs.Resolver
/-!
Helper lemmas for C16, part 2: what one call of `query_result`, `next_nameserver`, `next_request`
does to the resolution state (frame conditions and the facts the run-level theorems are built from).
-/
set_option linter.unusedSimpArgs false
namespace Model.Resolver
open Model

/-! ## specification vocabulary -/

/-- "a server that proved broken": the outcomes after which `query_result` takes the nameserver out of the mix —
a malformed reply / EOF / network error / unsupported transport, truncation over TCP, a NOERROR or NXDOMAIN response
that does not survive `Answer()` validation, and any rcode other than NOERROR/NXDOMAIN/YXDOMAIN except SERVFAIL when
`retry_servfail` is set. -/
def provesBroken (env : Env) (q : Name) (tcp : Bool) : Outcome → Bool
  | .exc .formError => true
  | .exc .eof => true
  | .exc .os => true
  | .exc .notImpl => true
  | .exc .truncated => tcp
  | .exc .timeout => false
  | .exc .other => false
  | .resp r =>
    if r.rcode = rcNOERROR ∨ r.rcode = rcNXDOMAIN then
      match resolveChaining env.maxChain r q env.rdclass env.rdtype with
      | .error _ => true
      | .ok _ => false
    else if r.rcode = rcYXDOMAIN then false
    else (r.rcode ≠ rcSERVFAIL || !env.cfg.retryServfail)

/-- a name has NXDOMAIN evidence recorded -/
def covered (nx : List Name) (q : Name) : Prop := nx.any (fun m => sameName m q) = true

/-- fields `query_result` never touches -/
def QFrame (st st' : St) : Prop :=
  st'.phase = st.phase ∧ st'.qnames = st.qnames ∧ st'.qname = st.qname ∧ st'.current = st.current ∧
  st'.nameserver = st.nameserver ∧ st'.tcpAttempt = st.tcpAttempt ∧ st'.backoff = st.backoff ∧
  st'.now = st.now ∧ st'.script = st.script

theorem sameName_refl (n : Name) : sameName n n = true := by simp [sameName]

theorem covered_recordNx_self (nx : List Name) (q : Name) : covered (recordNx nx q) q := by
  unfold covered recordNx
  split
  · assumption
  · simp [List.any_append, sameName_refl]

theorem covered_recordNx_mono (nx : List Name) (q p : Name) (h : covered nx p) : covered (recordNx nx q) p := by
  unfold covered recordNx at *
  split
  · exact h
  · simp [List.any_append, h]

theorem mkAnswer_error_iff {mc : Nat} {q : Name} {ty cls qcls qty : Nat} {r : Resp} {srv : Option Nat} {now : Nat} :
    (∃ e, mkAnswer mc q ty cls qcls qty r srv now = .error e) ↔ (∃ e, resolveChaining mc r q qcls qty = .error e) := by
  unfold mkAnswer
  cases resolveChaining mc r q qcls qty <;> simp

/-! ## `query_result` -/

theorem queryResult_ret_frame {env : Env} {st : St} {ns : Server} {out : Outcome} {a : Option Answer} {done : Bool}
    {st' : St} (h : queryResult env st ns out = .ret a done st') :
    QFrame st st' ∧ st'.nameservers.length ≤ st.nameservers.length ∧
    (st'.retryWithTcp = true → st.retryWithTcp = true ∨ st.tcpAttempt = false) := by
  unfold queryResult at h
  repeat' split at h
  all_goals first
    | cases h
    | skip
  all_goals simp_all [QFrame, removeNs, List.length_erase_le]

theorem queryResult_raise {env : Env} {st : St} {ns : Server} {out : Outcome} {r : Result}
    {st' : St} (h : queryResult env st ns out = .raise r st') :
    QFrame st st' ∧ st'.nameservers = st.nameservers ∧ st'.retryWithTcp = st.retryWithTcp ∧
    st'.nxNames = st.nxNames ∧ (r = .noAnswer ∨ r = .yxdomain) := by
  unfold queryResult at h
  repeat' split at h
  all_goals first
    | cases h
    | skip
  all_goals simp_all [QFrame, removeNs]

theorem queryResult_nx {env : Env} {st : St} {ns : Server} {out : Outcome} {a : Option Answer} {done : Bool}
    {st' : St} (h : queryResult env st ns out = .ret a done st') :
    (∀ p, covered st.nxNames p → covered st'.nxNames p) ∧
    (a = none → done = true → covered st'.nxNames st.qname) := by
  unfold queryResult at h
  repeat' split at h
  all_goals first
    | cases h
    | skip
  all_goals simp_all [removeNs]
  all_goals first
    | exact ⟨fun p hp => covered_recordNx_mono _ _ _ hp, covered_recordNx_self _ _⟩
    | skip

theorem queryResult_broken {env : Env} {st : St} {ns : Server} {out : Outcome} {a : Option Answer} {done : Bool}
    {st' : St} (h : queryResult env st ns out = .ret a done st') :
    (provesBroken env st.qname st.tcpAttempt out = true → st'.nameservers = st.nameservers.erase ns) ∧
    (provesBroken env st.qname st.tcpAttempt out = false → st'.nameservers = st.nameservers) ∧
    (st'.retryWithTcp = (st.retryWithTcp || (decide (out = .exc .truncated) && !st.tcpAttempt))) := by
  unfold queryResult at h
  repeat' split at h
  all_goals first
    | cases h
    | skip
  all_goals simp_all [removeNs, provesBroken, mkAnswer]
  all_goals first
    | grind
    | (generalize resolveChaining env.maxChain _ st.qname env.rdclass env.rdtype = rc at *
       cases rc <;> first | simp_all | grind)

/-- the state a `query_result` call leaves behind, however it ends -/
def QR.st : QR → St
  | .raise _ st => st
  | .ret _ _ st => st

/-- "results cached under (name, type, class)": `query_result` touches the cache at most under the candidate name
with the queried type and class (an answer) or with type ANY and the queried class (an NXDOMAIN), and not at all when
the resolver has no cache. -/
theorem queryResult_cache (env : Env) (st : St) (ns : Server) (out : Outcome) :
    (∀ k' t, k' ≠ mkKey st.qname env.rdtype env.rdclass → k' ≠ mkKey st.qname tyANY env.rdclass →
        cacheGet (queryResult env st ns out).st.cache k' t = cacheGet st.cache k' t) ∧
    (env.cfg.cacheOn = false → (queryResult env st ns out).st.cache = st.cache) := by
  unfold queryResult
  repeat' split
  all_goals simp_all [QR.st, removeNs, cacheGet_put]

/-- an outcome that ends the resolution with an answer: a NOERROR response that survives `Answer()` -/
def acceptable (env : Env) (st : St) (ns : Server) (out : Outcome) (a : Answer) : Prop :=
  ∃ r, out = .resp r ∧ r.rcode = rcNOERROR ∧
    mkAnswer env.maxChain st.qname env.rdtype env.rdclass env.rdclass env.rdtype r (some ns.id) st.now = .ok a

theorem queryResult_class {env : Env} {st : St} {ns : Server} {out : Outcome} :
    (∀ a done st', queryResult env st ns out = .ret (some a) done st' →
        acceptable env st ns out a ∧ (a.hasRRset = true ∨ env.raiseOnNoAnswer = false) ∧
        (env.cfg.cacheOn = true → ∀ t, cacheGet st'.cache (mkKey st.qname env.rdtype env.rdclass) t =
            if a.expiration ≤ t then none else some a)) ∧
    (∀ st', queryResult env st ns out = .raise .noAnswer st' →
        ∃ a, acceptable env st ns out a ∧ a.hasRRset = false ∧ env.raiseOnNoAnswer = true) ∧
    (∀ st', queryResult env st ns out = .raise .yxdomain st' → ∃ r, out = .resp r ∧ r.rcode = rcYXDOMAIN) ∧
    (∀ done st', queryResult env st ns out = .ret none done st' → ∀ a, ¬ acceptable env st ns out a) := by
  refine ⟨?_, ?_, ?_, ?_⟩
  · intro a done st' h
    unfold queryResult at h
    repeat' split at h
    all_goals first
      | cases h
      | skip
    all_goals simp_all [acceptable, cacheGet_put, rcNOERROR, rcNXDOMAIN, rcYXDOMAIN]
    all_goals (cases hr : a.hasRRset <;> simp_all)
  · intro st' h
    unfold queryResult at h
    repeat' split at h
    all_goals first
      | cases h
      | skip
    all_goals simp_all [acceptable, cacheGet_put, rcNOERROR, rcNXDOMAIN, rcYXDOMAIN]
  · intro st' h
    unfold queryResult at h
    repeat' split at h
    all_goals first
      | cases h
      | skip
    all_goals simp_all [acceptable, cacheGet_put, rcNOERROR, rcNXDOMAIN, rcYXDOMAIN]
  · intro done st' h
    unfold queryResult at h
    repeat' split at h
    all_goals first
      | cases h
      | skip
    all_goals simp_all [acceptable, cacheGet_put, rcNOERROR, rcNXDOMAIN, rcYXDOMAIN]

/-! ## `next_nameserver` -/

theorem nextNameserver_ok {env : Env} {st : St} {ns : Server} {tcp : Bool} {b : Nat} {st1 : St}
    (h : nextNameserver env st = .ok ns tcp b st1) :
    (st1.phase = st.phase ∧ st1.qnames = st.qnames ∧ st1.qname = st.qname ∧ st1.nxNames = st.nxNames ∧
      st1.nameservers = st.nameservers ∧ st1.now = st.now ∧ st1.cache = st.cache ∧ st1.script = st.script) ∧
    st1.retryWithTcp = false ∧ st1.tcpAttempt = tcp ∧ st1.nameserver = some ns ∧
    ((st.retryWithTcp = true ∧ st.nameserver = some ns ∧ tcp = true ∧ b = 0 ∧ st1.current = st.current ∧
        st1.backoff = st.backoff) ∨
     (st.retryWithTcp = false ∧ st.current = ns :: st1.current ∧ b = 0 ∧ st1.backoff = st.backoff ∧
        tcp = (env.tcp || ns.alwaysMax)) ∨
     (st.retryWithTcp = false ∧ st.current = [] ∧ st.nameservers = ns :: st1.current ∧ b = st.backoff ∧
        st1.backoff = min (st.backoff * env.bo.factor) env.bo.cap ∧ tcp = (env.tcp || ns.alwaysMax))) := by
  unfold nextNameserver at h
  repeat' split at h
  all_goals first
    | cases h
    | skip
  all_goals simp_all

theorem nextNameserver_raise {env : Env} {st : St} {r : Result} (h : nextNameserver env st = .raise r) :
    r = .noNameservers ∧
    ((st.retryWithTcp = false ∧ st.current = [] ∧ st.nameservers = []) ∨
     (st.retryWithTcp = true ∧ st.nameserver = none)) := by
  unfold nextNameserver at h
  repeat' split at h
  all_goals first
    | cases h
    | skip
  all_goals simp_all

/-! ## `next_request` -/

/-- what `next_request` guarantees when called with the remaining candidates `qs` in state `st` -/
def NextReqSpec (env : Env) (qs : List Name) (st : St) : NextReq → Prop
  | .raise r =>
    (r = .noAnswer ∧ env.cfg.cacheOn = true ∧ env.raiseOnNoAnswer = true ∧
      ∃ q ∈ qs, ∃ a, cacheGet st.cache (mkKey q env.rdtype env.rdclass) st.now = some a ∧ a.hasRRset = false) ∨
    (∃ nx, r = .nxdomain env.qnamesToTry nx ∧ (∀ p, covered st.nxNames p → covered nx p) ∧
      ∀ q ∈ qs, covered nx q)
  | .hit a =>
    env.cfg.cacheOn = true ∧ (a.hasRRset = true ∨ env.raiseOnNoAnswer = false) ∧
    ∃ q ∈ qs, cacheGet st.cache (mkKey q env.rdtype env.rdclass) st.now = some a
  | .request st' =>
    (∃ skipped, qs = skipped ++ st'.qname :: st'.qnames ∧ ∀ q ∈ skipped, covered st'.nxNames q) ∧
    (∀ p, covered st.nxNames p → covered st'.nxNames p) ∧
    st'.phase = .querying ∧ st'.nameservers = env.cfg.servers ∧ st'.current = env.cfg.servers ∧
    st'.retryWithTcp = false ∧ st'.backoff = env.bo.init ∧ st'.now = st.now ∧ st'.cache = st.cache ∧
    st'.script = st.script ∧ st'.nameserver = none ∧ st'.tcpAttempt = false

theorem nextRequest_spec (env : Env) : ∀ (qs : List Name) (st : St), NextReqSpec env qs st (nextRequest env qs st)
  | [], st => by
    simp [nextRequest, NextReqSpec]
  | q :: rest, st => by
    have hbuild : NextReqSpec env (q :: rest) st (.request
        { st with phase := .querying, qnames := rest, qname := q,
                  nameservers := env.cfg.servers, current := env.cfg.servers, nameserver := none,
                  tcpAttempt := false, retryWithTcp := false, backoff := env.bo.init }) := by
      refine ⟨⟨[], by simp, by simp⟩, ?_⟩
      simp
    unfold nextRequest
    simp only
    split
    · -- cache on
      rename_i hcache
      split
      · rename_i a ha
        split
        · rename_i hna
          simp only [Bool.and_eq_true, Bool.not_eq_true'] at hna
          left
          exact ⟨rfl, hcache, hna.2, q, by simp, a, ha, hna.1⟩
        · rename_i hna
          refine ⟨hcache, ?_, q, by simp, ha⟩
          cases h1 : a.hasRRset <;> cases h2 : env.raiseOnNoAnswer <;> simp_all
      · split
        · rename_i a ha
          split
          · -- cached NXDOMAIN: continue with the next name
            have ih := nextRequest_spec env rest
              { st with qnames := rest, qname := q, nxNames := recordNx st.nxNames q }
            generalize nextRequest env rest
              { st with qnames := rest, qname := q, nxNames := recordNx st.nxNames q } = res at ih
            cases res with
            | raise r =>
              rcases ih with ih | ⟨nx, h1, h2, h3⟩
              · left
                obtain ⟨i1, i2, i3, q', hq', a', ha'⟩ := ih
                exact ⟨i1, i2, i3, q', by simp [hq'], a', ha'⟩
              · right
                refine ⟨nx, h1, fun p hp => h2 p (covered_recordNx_mono _ _ _ hp), ?_⟩
                intro q' hq'
                rcases List.mem_cons.mp hq' with rfl | hq'
                · exact h2 _ (covered_recordNx_self _ _)
                · exact h3 q' hq'
            | hit a' =>
              obtain ⟨i1, i2, q', hq', h'⟩ := ih
              exact ⟨i1, i2, q', by simp [hq'], h'⟩
            | request st' =>
              obtain ⟨⟨skipped, e1, e2⟩, i2, i3⟩ := ih
              refine ⟨⟨q :: skipped, by simp [e1], ?_⟩, fun p hp => i2 p (covered_recordNx_mono _ _ _ hp), i3⟩
              intro q' hq'
              rcases List.mem_cons.mp hq' with rfl | hq'
              · exact i2 _ (covered_recordNx_self _ _)
              · exact e2 q' hq'
          · exact hbuild
        · exact hbuild
    · exact hbuild

/-- an outcome that decides the resolution or the candidate (answer, NoAnswer, YXDOMAIN, validated NXDOMAIN) never
counts against the server that gave it -/
theorem queryResult_decisive_not_broken {env : Env} {st : St} {ns : Server} {out : Outcome} :
    (∀ r st', queryResult env st ns out = .raise r st' → provesBroken env st.qname st.tcpAttempt out = false) ∧
    (∀ a d st', queryResult env st ns out = .ret (some a) d st' →
        provesBroken env st.qname st.tcpAttempt out = false) ∧
    (∀ st', queryResult env st ns out = .ret none true st' →
        provesBroken env st.qname st.tcpAttempt out = false) := by
  refine ⟨?_, ?_, ?_⟩
  · intro r st' h
    unfold queryResult at h
    repeat' split at h
    all_goals first
      | cases h
      | skip
    all_goals simp_all [provesBroken, mkAnswer, rcNOERROR, rcNXDOMAIN, rcYXDOMAIN]
    all_goals first
      | grind
      | (generalize resolveChaining env.maxChain _ st.qname env.rdclass env.rdtype = rc at *
         cases rc <;> first | simp_all | grind)
  · intro a d st' h
    unfold queryResult at h
    repeat' split at h
    all_goals first
      | cases h
      | skip
    all_goals simp_all [provesBroken, mkAnswer, rcNOERROR, rcNXDOMAIN, rcYXDOMAIN]
    all_goals first
      | grind
      | (generalize resolveChaining env.maxChain _ st.qname env.rdclass env.rdtype = rc at *
         cases rc <;> first | simp_all | grind)
  · intro st' h
    unfold queryResult at h
    repeat' split at h
    all_goals first
      | cases h
      | skip
    all_goals simp_all [provesBroken, mkAnswer, rcNOERROR, rcNXDOMAIN, rcYXDOMAIN]
    all_goals first
      | grind
      | (generalize resolveChaining env.maxChain _ st.qname env.rdclass env.rdtype = rc at *
         cases rc <;> first | simp_all | grind)

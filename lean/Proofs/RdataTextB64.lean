import Proofs.RdataTextBlob
/-! The executable base64 codec of the model satisfies the contract the text layer needs (C05). -/
namespace Model

theorem b64Val_b64Char (v : Nat) (h : v < 64) : b64Val (b64Char v) = some v := by
  unfold b64Char
  by_cases h1 : v < 26
  · simp only [h1, if_true]; unfold b64Val
    have : 65 ≤ 65 + v ∧ 65 + v ≤ 90 := by omega
    simp [this]
  · by_cases h2 : v < 52
    · simp only [h1, h2, if_true, if_false]; unfold b64Val
      have a : ¬ (65 ≤ 97 + (v - 26) ∧ 97 + (v - 26) ≤ 90) := by omega
      have b : 97 ≤ 97 + (v - 26) ∧ 97 + (v - 26) ≤ 122 := by omega
      simp only [a, b, and_self, if_true, if_false]; congr 1; omega
    · by_cases h3 : v < 62
      · simp only [h1, h2, h3, if_true, if_false]; unfold b64Val
        have a : ¬ (65 ≤ 48 + (v - 52) ∧ 48 + (v - 52) ≤ 90) := by omega
        have b : ¬ (97 ≤ 48 + (v - 52) ∧ 48 + (v - 52) ≤ 122) := by omega
        have c : 48 ≤ 48 + (v - 52) ∧ 48 + (v - 52) ≤ 57 := by omega
        simp only [a, b, c, and_self, if_true, if_false]; congr 1; omega
      · by_cases h4 : v = 62
        · subst h4; decide
        · have : v = 63 := by omega
          subst this; decide

theorem b64Char_range (v : Nat) :
    (65 ≤ b64Char v ∧ b64Char v ≤ 90) ∨ (97 ≤ b64Char v ∧ b64Char v ≤ 122) ∨ (48 ≤ b64Char v ∧ b64Char v ≤ 57) ∨
      b64Char v = 43 ∨ b64Char v = 47 := by
  unfold b64Char
  by_cases h1 : v < 26
  · simp only [h1, if_true]; omega
  · by_cases h2 : v < 52
    · simp only [h1, h2, if_true, if_false]; omega
    · by_cases h3 : v < 62
      · simp only [h1, h2, h3, if_true, if_false]; omega
      · by_cases h4 : v = 62
        · simp [h1, h2, h3, h4]
        · simp [h1, h2, h3, h4]

theorem b64Char_ne61 (v : Nat) : b64Char v ≠ 61 := by
  have := b64Char_range v; omega

theorem b64Char_plain (v : Nat) : isDelim (b64Char v) = false ∧ b64Char v ≠ 92 := by
  have := b64Char_range v
  simp [isDelim]; omega

theorem b64Decode_quad (x y z w : Nat) (rest : List Nat) (hz : z ≠ 61) (hw : w ≠ 61) :
    b64Decode (x :: y :: z :: w :: rest) =
      match b64Val x, b64Val y, b64Val z, b64Val w, b64Decode rest with
      | some a, some b, some c, some d, some r => some ((a * 4 + b / 16) :: (b % 16 * 16 + c / 4) :: (c % 4 * 64 + d) :: r)
      | _, _, _, _, _ => none := by
  rw [b64Decode.eq_def]
  split
  · rename_i h; simp at h
  · rename_i h; simp at h; exact absurd h.2.2.1 hz
  · rename_i h; simp at h; exact absurd h.2.2.2.1 hw
  · rename_i h; simp at h; obtain ⟨rfl, rfl, rfl, rfl, rfl⟩ := h; rfl
  · rename_i h1 h2 h3 h4; exact absurd rfl (h4 x y z w rest)

theorem b64Decode_pad1 (x y z : Nat) (hz : z ≠ 61) :
    b64Decode [x, y, z, 61] =
      match b64Val x, b64Val y, b64Val z with
      | some a, some b, some c => if c % 4 = 0 then some [a * 4 + b / 16, b % 16 * 16 + c / 4] else none
      | _, _, _ => none := by
  rw [b64Decode.eq_def]
  split
  · rename_i h; simp at h
  · rename_i h; simp at h; exact absurd h.2.2 hz
  · rename_i h; simp at h; obtain ⟨rfl, rfl, rfl⟩ := h; rfl
  · rename_i h; simp at h
    obtain ⟨rfl, rfl, rfl, rfl, rfl⟩ := h
    rename_i h2 h3
    exact (h2 rfl rfl).elim
  · rename_i h1 h2 h3 h4; exact absurd rfl (h4 x y z 61 [])

theorem b64_roundtrip (d : Bytes) (hd : ∀ x ∈ d, x < 256) : b64Decode (b64Encode d) = some d := by
  fun_induction b64Encode d with
  | case1 => rfl
  | case2 a =>
    have ha := hd a (by simp)
    have e : b64Decode [b64Char (a / 4), b64Char (a % 4 * 16), 61, 61] =
        match b64Val (b64Char (a / 4)), b64Val (b64Char (a % 4 * 16)) with
        | some x, some y => if y % 16 = 0 then some [x * 4 + y / 16] else none
        | _, _ => none := by
      rw [b64Decode.eq_def]; rfl
    rw [e, b64Val_b64Char _ (by omega), b64Val_b64Char _ (by omega)]
    simp; omega
  | case3 a b =>
    have ha := hd a (by simp)
    have hb := hd b (by simp)
    rw [b64Decode_pad1 _ _ _ (b64Char_ne61 _), b64Val_b64Char _ (by omega), b64Val_b64Char _ (by omega),
      b64Val_b64Char _ (by omega)]
    simp; omega
  | case4 a b c rest ih =>
    have ha := hd a (by simp)
    have hb := hd b (by simp)
    have hc := hd c (by simp)
    rw [b64Decode_quad _ _ _ _ _ (b64Char_ne61 _) (b64Char_ne61 _), b64Val_b64Char _ (by omega),
      b64Val_b64Char _ (by omega), b64Val_b64Char _ (by omega), b64Val_b64Char _ (by omega),
      ih (fun x hx => hd x (by simp [hx]))]
    simp; omega

theorem b64Encode_plain (d : Bytes) : Plain (b64Encode d) := by
  have h61 : isDelim 61 = false ∧ (61 : Nat) ≠ 92 := by decide
  fun_induction b64Encode d with
  | case1 => intro c hc; simp at hc
  | case2 a =>
    intro c hc; simp at hc
    rcases hc with e | e | e <;> subst e
    · exact b64Char_plain _
    · exact b64Char_plain _
    · exact h61
  | case3 a b =>
    intro c hc; simp at hc
    rcases hc with e | e | e | e <;> subst e
    · exact b64Char_plain _
    · exact b64Char_plain _
    · exact b64Char_plain _
    · exact h61
  | case4 a b c rest ih =>
    intro x hx; simp at hx
    rcases hx with e | e | e | e | e
    · subst e; exact b64Char_plain _
    · subst e; exact b64Char_plain _
    · subst e; exact b64Char_plain _
    · subst e; exact b64Char_plain _
    · exact ih x e

theorem b64Encode_eq_nil (d : Bytes) : b64Encode d = [] ↔ d = [] := by
  constructor
  · intro h
    match d, h with
    | [], _ => rfl
    | [_], h => simp [b64Encode] at h
    | [_, _], h => simp [b64Encode] at h
    | _ :: _ :: _ :: _, h => simp [b64Encode] at h
  · intro h; subst h; rfl

end Model
